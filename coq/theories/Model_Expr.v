(* Model_Expr.v — a typed Go expression fragment with big-step evaluation.
   Used by C10 (rewrites preserve behaviour) and C12 (claims of a constant outcome).

   * ints (all Go integer types) are Z: overflow is not modelled (the properties allow that);
   * float64 is  NaN | +-Inf | a rational  with IEEE comparison semantics (rounding is not modelled);
   * string / []byte are byte strings (Coq [string]); []int is a list of Z; time.Time is Z nanoseconds;
   * calls of opaque functions are the impure atoms: each call appends an event (name, arguments,
     result) to the history, and its result may depend on the whole history so far, so
     "same side effects in the same order" is part of equality of evaluation results;
   * run-time panics (index out of range, integer division by zero) are an explicit outcome;
   * [None] means "outside the fragment / ill-typed", never a run-time behaviour.
   No proofs here (CONVENTIONS.md). *)
From GC Require Import Base.
From Coq Require Import QArith DecimalString DecimalN.
Close Scope Q_scope.
Open Scope string_scope.

(* ---------- types and values ---------- *)
Inductive ty := TInt | TFloat | TString | TBytes | TBool | TInts | TTime
| TPArr       (* *[N]int: a pointer to an array of integers *)
| TMapIS.     (* map[int]string *)

Definition ty_eqb (a b : ty) : bool :=
  match a, b with
  | TInt, TInt | TFloat, TFloat | TString, TString | TBytes, TBytes
  | TBool, TBool | TInts, TInts | TTime, TTime | TPArr, TPArr | TMapIS, TMapIS => true
  | _, _ => false
  end.

Inductive fl := FNaN | FInf (neg : bool) | FFin (q : Q).

Inductive value :=
| VInt (z : Z) | VFloat (f : fl) | VStr (s : string) | VBytes (s : string)
| VBool (b : bool) | VInts (l : list Z) | VTime (ns : Z)
| VPArr (n : nat) (o : option (list Z))   (* pointer to an array of length n: nil, or the array's elements *)
| VMap (m : list (Z * string)).           (* a map as an association list (nil and empty maps read alike) *)

Definition vty (v : value) : ty :=
  match v with
  | VInt _ => TInt | VFloat _ => TFloat | VStr _ => TString | VBytes _ => TBytes
  | VBool _ => TBool | VInts _ => TInts | VTime _ => TTime
  | VPArr _ _ => TPArr | VMap _ => TMapIS
  end.
Definition has_type (v : value) (t : ty) : Prop := vty v = t.

Definition default_value (t : ty) : value :=
  match t with
  | TInt => VInt 0 | TFloat => VFloat (FFin 0%Q) | TString => VStr "" | TBytes => VBytes ""
  | TBool => VBool false | TInts => VInts [] | TTime => VTime 0
  | TPArr => VPArr 0 None | TMapIS => VMap []
  end.

(* ---------- events, outcomes, environments ---------- *)
Record event := Ev { ev_fn : string; ev_args : list value; ev_ret : value }.
Definition hist := list event.          (* newest event first *)
Definition trace := list event.         (* oldest event first *)

Inductive res (A : Type) := RVal (a : A) | RPanic.
Arguments RVal {A} a.
Arguments RPanic {A}.
Definition outcome := res value.

Record env := {
  vars : string -> ty -> value;                         (* variable [x] used at type [t] *)
  funs : string -> list value -> hist -> ty -> value;   (* opaque function: result may depend on the history *)
  nilp : string -> bool                                 (* pointer variable [x] is nil *)
}.
Definition env_ok (en : env) : Prop :=
  (forall x t, has_type (vars en x t) t) /\ (forall f a h t, has_type (funs en f a h t) t).

(* ---------- syntax ---------- *)
Inductive unop := UNot | UNeg.
Inductive binop := OAdd | OSub | OMul | OQuo | ORem | OEq | ONe | OLt | OLe | OGt | OGe | OLAnd | OLOr
| OAnd | OOr | OXor | OShl | OShr | OAndNot.     (* & | ^ << >> &^ on integers *)
Inductive litkind := LInt | LFloat | LString.

(* modelled (pure) builtins and library functions *)
Inductive prim :=
| PLen | PStringOfBytes | PBytesOfString
| PStrIndex | PStrContains | PStrCompare | PBytesEqual
| PJoin2 | PJoin3
| PUnix | PUnixNano | PUnixMilli | PUnixMicro
(* round 5: the remaining dupArg / wrapperFunc / equalFold library functions on byte strings *)
| PStrHasPrefix | PStrHasSuffix | PStrLastIndex | PStrEqualFold | PStrToLower | PStrToUpper
| PStrIndexAny | PStrContainsAny | PStrReplace | PStrReplaceAll
| PBytesIndex | PBytesContains | PBytesCompare | PBytesHasPrefix | PBytesHasSuffix | PBytesLastIndex
| PBytesEqualFold | PBytesReplace | PBytesReplaceAll.

(* what go/types knows about an operand's type beyond its underlying model type: predeclared / type literal,
   a defined (named) type, an array (the model keeps its elements in a list, like a slice) *)
Inductive vkind := KPlain | KDef (n : string) | KArr.
Definition vkind_eqb (a b : vkind) : bool :=
  match a, b with
  | KPlain, KPlain | KArr, KArr => true
  | KDef n, KDef m => String.eqb n m
  | _, _ => false
  end.

Inductive fn := FOpaque (name : string) (ret : ty) | FPrim (p : prim).

Inductive expr :=
| EIdent (x : string) (t : ty)
| ELit (k : litkind) (text : string) (t : ty)   (* [t]: the type go/types records for the literal *)
| EParen (e : expr)
| EUnary (op : unop) (e : expr)
| EBinary (op : binop) (l r : expr)
| ECall (f : fn) (args : list expr)
| EIndex (a i : expr)
| ESliceAll (a : expr)                         (* a[:] *)
(* round 5 *)
| EVarK (x : string) (k : vkind) (t : ty)      (* a variable of a defined type / of an array type; [t] is the underlying model type *)
| ESel (x f : string) (k : vkind) (t : ty)     (* x.f with x a pointer-to-struct variable: panics when x is nil *)
| EConst (x : string) (cv : value)
(* round 7 *)
| EDeref (p : expr).                           (* *p, p a pointer to an array: the array (its elements), nil panics *)             (* a named constant with the value go/types computed (true, false, const c = 5) *)

Definition unop_eqb (a b : unop) := match a, b with UNot, UNot | UNeg, UNeg => true | _, _ => false end.
Definition binop_idx (o : binop) : N :=
  match o with OAdd => 0 | OSub => 1 | OMul => 2 | OQuo => 3 | ORem => 4 | OEq => 5 | ONe => 6 | OLt => 7
             | OLe => 8 | OGt => 9 | OGe => 10 | OLAnd => 11 | OLOr => 12
             | OAnd => 13 | OOr => 14 | OXor => 15 | OShl => 16 | OShr => 17 | OAndNot => 18 end%N.
Definition binop_eqb (a b : binop) : bool := N.eqb (binop_idx a) (binop_idx b).
Definition litkind_eqb (a b : litkind) :=
  match a, b with LInt, LInt | LFloat, LFloat | LString, LString => true | _, _ => false end.
Definition prim_idx (p : prim) : N :=
  match p with PLen => 0 | PStringOfBytes => 1 | PBytesOfString => 2 | PStrIndex => 3 | PStrContains => 4
             | PStrCompare => 5 | PBytesEqual => 6 | PJoin2 => 7 | PJoin3 => 8 | PUnix => 9 | PUnixNano => 10
             | PUnixMilli => 11 | PUnixMicro => 12
             | PStrHasPrefix => 13 | PStrHasSuffix => 14 | PStrLastIndex => 15 | PStrEqualFold => 16 | PStrToLower => 17
             | PStrToUpper => 18 | PStrIndexAny => 19 | PStrContainsAny => 20 | PStrReplace => 21 | PStrReplaceAll => 22
             | PBytesIndex => 23 | PBytesContains => 24 | PBytesCompare => 25 | PBytesHasPrefix => 26 | PBytesHasSuffix => 27
             | PBytesLastIndex => 28 | PBytesEqualFold => 29 | PBytesReplace => 30 | PBytesReplaceAll => 31 end%N.
Definition prim_eqb (a b : prim) : bool := N.eqb (prim_idx a) (prim_idx b).
Definition fn_eqb (a b : fn) : bool :=
  match a, b with
  | FOpaque n t, FOpaque n' t' => String.eqb n n' && ty_eqb t t'
  | FPrim p, FPrim p' => prim_eqb p p'
  | _, _ => false
  end.

Definition fl_eqb (a b : fl) : bool :=
  match a, b with
  | FNaN, FNaN => true
  | FInf x, FInf y => Bool.eqb x y
  | FFin p, FFin q => Z.eqb (Qnum p) (Qnum q) && Pos.eqb (Qden p) (Qden q)
  | _, _ => false
  end.
(* structural equality of values (constants of the same name have the same value anyway) *)
Definition value_eqb (a b : value) : bool :=
  match a, b with
  | VInt x, VInt y => Z.eqb x y
  | VFloat x, VFloat y => fl_eqb x y
  | VStr x, VStr y | VBytes x, VBytes y => String.eqb x y
  | VBool x, VBool y => Bool.eqb x y
  | VInts x, VInts y => list_eqb Z.eqb x y
  | VTime x, VTime y => Z.eqb x y
  | VPArr n x, VPArr m y =>
      Nat.eqb n m && match x, y with None, None => true | Some a, Some b => list_eqb Z.eqb a b | _, _ => false end
  | VMap x, VMap y => list_eqb (fun p q => Z.eqb (fst p) (fst q) && String.eqb (snd p) (snd q)) x y
  | _, _ => false
  end.

(* astequal.Expr on the fragment (structural; type annotations are compared as well: the converter
   derives them from the identifier / literal, so equal spelling implies equal annotation) *)
Fixpoint expr_eqb (a b : expr) {struct a} : bool :=
  match a, b with
  | EIdent x t, EIdent x' t' => String.eqb x x' && ty_eqb t t'
  | ELit k s t, ELit k' s' t' => litkind_eqb k k' && String.eqb s s' && ty_eqb t t'
  | EParen e, EParen e' => expr_eqb e e'
  | EUnary o e, EUnary o' e' => unop_eqb o o' && expr_eqb e e'
  | EBinary o l r, EBinary o' l' r' => binop_eqb o o' && expr_eqb l l' && expr_eqb r r'
  | ECall f args, ECall f' args' =>
      fn_eqb f f' &&
      (fix go (l : list expr) (l' : list expr) {struct l} : bool :=
         match l, l' with
         | [], [] => true
         | x :: r, x' :: r' => expr_eqb x x' && go r r'
         | _, _ => false
         end) args args'
  | EIndex x i, EIndex x' i' => expr_eqb x x' && expr_eqb i i'
  | ESliceAll x, ESliceAll x' => expr_eqb x x'
  | EVarK x k t, EVarK x' k' t' => String.eqb x x' && vkind_eqb k k' && ty_eqb t t'
  | ESel x f k t, ESel x' f' k' t' => String.eqb x x' && String.eqb f f' && vkind_eqb k k' && ty_eqb t t'
  | EConst x v, EConst x' v' => String.eqb x x' && value_eqb v v'
  | EDeref x, EDeref x' => expr_eqb x x'
  | _, _ => false
  end.

(* ---------- Go literals ---------- *)
Definition digit_val (a : ascii) : option N :=
  let n := N_of_ascii a in
  if (48 <=? n)%N && (n <=? 57)%N then Some (n - 48)%N
  else if (97 <=? n)%N && (n <=? 102)%N then Some (n - 87)%N
  else if (65 <=? n)%N && (n <=? 70)%N then Some (n - 55)%N
  else None.

Fixpoint parse_digits (base : N) (s : string) (acc : N) : option N :=
  match s with
  | EmptyString => Some acc
  | String a r =>
      match digit_val a with
      | Some d => if (d <? base)%N then parse_digits base r (acc * base + d)%N else None
      | None => None
      end
  end.
Definition parse_digits1 (base : N) (s : string) : option N :=
  match s with EmptyString => None | _ => parse_digits base s 0%N end.

Fixpoint strip_us (s : string) : string :=
  match s with
  | EmptyString => EmptyString
  | String a r => if Ascii.eqb a "_" then strip_us r else String a (strip_us r)
  end.

(* decimal digit strings through the standard library (gives the print/parse round trip) *)
Definition dec_parse (s : string) : option N :=
  match s with
  | EmptyString => None
  | _ => match NilEmpty.uint_of_string s with Some d => Some (N.of_uint d) | None => None end
  end.
Definition dec_of_N (n : N) : string := NilEmpty.string_of_uint (N.to_uint n).
(* strconv.FormatInt(v, 10) *)
Definition dec_of_Z (z : Z) : string :=
  match z with
  | Z0 => "0"
  | Zpos p => dec_of_N (Npos p)
  | Zneg p => "-" ++ dec_of_N (Npos p)
  end.

Definition is_ch (a : ascii) (c1 c2 : ascii) := Ascii.eqb a c1 || Ascii.eqb a c2.

(* the value the Go compiler gives an integer literal: decimal, 0x, 0o, 0b, legacy octal, '_' *)
Definition go_int_lit (text : string) : option Z :=
  let s := strip_us text in
  option_map Z.of_N
    match s with
    | String "0" (String c r) =>
        if is_ch c "x" "X" then parse_digits1 16 r
        else if is_ch c "o" "O" then parse_digits1 8 r
        else if is_ch c "b" "B" then parse_digits1 2 r
        else parse_digits1 8 (String c r)
    | _ => dec_parse s
    end.

(* strconv.ParseInt(text, 10, 64) on literal spellings (no sign: a BasicLit never carries one) *)
Definition int64_max : Z := 9223372036854775807.
Definition parse_int_base10 (text : string) : option Z :=
  match dec_parse text with
  | Some n => if (Z.of_N n <=? int64_max)%Z then Some (Z.of_N n) else None
  | None => None
  end.

(* float literals of the form  digits "." digits  (others are outside the fragment) *)
Fixpoint split_dot (s : string) : option (string * string) :=
  match s with
  | EmptyString => None
  | String a r =>
      if Ascii.eqb a "." then Some (EmptyString, r)
      else match split_dot r with Some (x, y) => Some (String a x, y) | None => None end
  end.
Definition go_float_lit (text : string) : option Q :=
  match split_dot text with
  | Some (ip, fp) =>
      match dec_parse ip, dec_parse fp with
      | Some a, Some b =>
          let sc := (10 ^ Z.of_nat (String.length fp))%Z in
          match sc with
          | Zpos p => Some (Qmake (Z.of_N a * sc + Z.of_N b) p)
          | _ => None
          end
      | _, _ => None
      end
  | None => None
  end.

(* interpreted string literals without escapes, or raw strings *)
Fixpoint no_char (c : ascii) (s : string) : bool :=
  match s with EmptyString => true | String a r => negb (Ascii.eqb a c) && no_char c r end.
Fixpoint drop_last (s : string) : option (string * ascii) :=
  match s with
  | EmptyString => None
  | String a EmptyString => Some (EmptyString, a)
  | String a r => match drop_last r with Some (x, l) => Some (String a x, l) | None => None end
  end.
Definition go_string_lit (text : string) : option string :=
  match text with
  | String q r =>
      match drop_last r with
      | Some (body, q') =>
          if Ascii.eqb q """" && Ascii.eqb q' """" && no_char "\" body && no_char """" body then Some body
          else if Ascii.eqb q "`" && Ascii.eqb q' "`" && no_char "`" body then Some body
          else None
      | None => None
      end
  | EmptyString => None
  end.

Definition lit_value (k : litkind) (text : string) (t : ty) : option value :=
  match k, t with
  | LInt, TInt => option_map VInt (go_int_lit text)
  | LInt, TFloat => option_map (fun z => VFloat (FFin (inject_Z z))) (go_int_lit text)
  | LFloat, TFloat => option_map (fun q => VFloat (FFin q)) (go_float_lit text)
  | LString, TString => option_map VStr (go_string_lit text)
  | _, _ => None
  end.

(* ---------- operators ---------- *)
Definition is_cmp (o : binop) : bool :=
  match o with OEq | ONe | OLt | OLe | OGt | OGe => true | _ => false end.

Definition cmp_ord (o : binop) (c : comparison) : bool :=
  match o, c with
  | OEq, Eq => true | OEq, _ => false
  | ONe, Eq => false | ONe, _ => true
  | OLt, Lt => true | OLt, _ => false
  | OLe, Gt => false | OLe, _ => true
  | OGt, Gt => true | OGt, _ => false
  | OGe, Lt => false | OGe, _ => true
  | _, _ => false
  end.

(* IEEE-754 comparison: every comparison with a NaN is false except != *)
Definition fl_compare (x y : fl) : option comparison :=
  match x, y with
  | FNaN, _ | _, FNaN => None
  | FInf true, FInf true => Some Eq
  | FInf true, _ => Some Lt
  | _, FInf true => Some Gt
  | FInf false, FInf false => Some Eq
  | FInf false, _ => Some Gt
  | _, FInf false => Some Lt
  | FFin p, FFin q => Some (Qcompare p q)
  end.
Definition fl_cmp (o : binop) (x y : fl) : bool :=
  match fl_compare x y with
  | Some c => cmp_ord o c
  | None => match o with ONe => true | _ => false end
  end.

Definition fl_add (x y : fl) : fl :=
  match x, y with
  | FNaN, _ | _, FNaN => FNaN
  | FInf a, FInf b => if Bool.eqb a b then FInf a else FNaN
  | FInf a, _ => FInf a
  | _, FInf b => FInf b
  | FFin p, FFin q => FFin (Qplus p q)
  end.
Definition fl_neg (x : fl) : fl :=
  match x with FNaN => FNaN | FInf a => FInf (negb a) | FFin p => FFin (Qopp p) end.

Definition cmp_val (o : binop) (a b : value) : option bool :=
  match a, b with
  | VInt x, VInt y => Some (cmp_ord o (Z.compare x y))
  | VFloat x, VFloat y => Some (fl_cmp o x y)
  | VStr x, VStr y => Some (cmp_ord o (String.compare x y))
  | VBool x, VBool y =>
      match o with
      | OEq => Some (Bool.eqb x y)
      | ONe => Some (negb (Bool.eqb x y))
      | _ => None
      end
  | _, _ => None
  end.

Definition arith (o : binop) (a b : value) : option outcome :=
  match a, b with
  | VInt x, VInt y =>
      match o with
      | OAdd => Some (RVal (VInt (x + y)))
      | OSub => Some (RVal (VInt (x - y)))
      | OMul => Some (RVal (VInt (x * y)))
      | OQuo => Some (if (y =? 0)%Z then RPanic else RVal (VInt (Z.quot x y)))
      | ORem => Some (if (y =? 0)%Z then RPanic else RVal (VInt (Z.rem x y)))
      | OAnd => Some (RVal (VInt (Z.land x y)))
      | OOr => Some (RVal (VInt (Z.lor x y)))
      | OXor => Some (RVal (VInt (Z.lxor x y)))
      | OAndNot => Some (RVal (VInt (Z.ldiff x y)))
      (* a negative shift count is a run-time panic *)
      | OShl => Some (if (y <? 0)%Z then RPanic else RVal (VInt (Z.shiftl x y)))
      | OShr => Some (if (y <? 0)%Z then RPanic else RVal (VInt (Z.shiftr x y)))
      | _ => None
      end
  | VFloat x, VFloat y =>
      match o with
      | OAdd => Some (RVal (VFloat (fl_add x y)))
      | OSub => Some (RVal (VFloat (fl_add x (fl_neg y))))
      | _ => None
      end
  | VStr x, VStr y =>
      match o with OAdd => Some (RVal (VStr (x ++ y))) | _ => None end
  | _, _ => None
  end.

Definition binop_apply (o : binop) (a b : value) : option outcome :=
  if is_cmp o then option_map (fun b => RVal (VBool b)) (cmp_val o a b) else arith o a b.

Definition unop_apply (o : unop) (a : value) : option outcome :=
  match o, a with
  | UNot, VBool b => Some (RVal (VBool (negb b)))
  | UNeg, VInt z => Some (RVal (VInt (- z)))
  | UNeg, VFloat f => Some (RVal (VFloat (fl_neg f)))
  | _, _ => None
  end.

(* ---------- modelled library functions ---------- *)
Definition slen (s : string) : Z := Z.of_nat (String.length s).

(* strings.Index: first position of [sub] in [s], or -1 *)
Fixpoint str_index_from (sub s : string) (i : Z) : Z :=
  if has_prefix sub s then i
  else match s with
       | EmptyString => (-1)%Z
       | String _ r => str_index_from sub r (i + 1)%Z
       end.
Definition str_index (s sub : string) : Z := str_index_from sub s 0.
(* strings.Contains is defined by the library as Index(s, sub) >= 0 *)
Definition str_contains (s sub : string) : bool := (0 <=? str_index s sub)%Z.
(* strings.Compare *)
Definition str_compare (a b : string) : Z :=
  match String.compare a b with Eq => 0 | Lt => -1 | Gt => 1 end%Z.

(* strings.LastIndex: last position of [sub] in [s] (len(s) for the empty [sub]), or -1 *)
Fixpoint str_last_index_from (sub s : string) (i best : Z) : Z :=
  let best' := if has_prefix sub s then i else best in
  match s with
  | EmptyString => best'
  | String _ r => str_last_index_from sub r (i + 1)%Z best'
  end.
Definition str_last_index (s sub : string) : Z := str_last_index_from sub s 0 (-1).

(* ASCII case mapping; the functions that decode UTF-8 are modelled on ASCII operands only *)
Definition is_ascii_byte (a : ascii) : bool := (N_of_ascii a <? 128)%N.
Fixpoint is_ascii (s : string) : bool :=
  match s with EmptyString => true | String a r => is_ascii_byte a && is_ascii r end.
Definition lower_a (a : ascii) : ascii :=
  let n := N_of_ascii a in if (65 <=? n)%N && (n <=? 90)%N then ascii_of_N (n + 32) else a.
Definition upper_a (a : ascii) : ascii :=
  let n := N_of_ascii a in if (97 <=? n)%N && (n <=? 122)%N then ascii_of_N (n - 32) else a.
Fixpoint map_s (f : ascii -> ascii) (s : string) : string :=
  match s with EmptyString => EmptyString | String a r => String (f a) (map_s f r) end.
Definition str_lower := map_s lower_a.
Definition str_upper := map_s upper_a.
(* strings.EqualFold on ASCII operands: simple case folding = equality of the lower-cased strings *)
Definition str_equal_fold (s t : string) : bool := String.eqb (str_lower s) (str_lower t).

Fixpoint mem_byte (a : ascii) (s : string) : bool :=
  match s with EmptyString => false | String b r => Ascii.eqb a b || mem_byte a r end.
(* strings.IndexAny on ASCII operands *)
Fixpoint str_index_any_from (s chars : string) (i : Z) : Z :=
  match s with
  | EmptyString => (-1)%Z
  | String a r => if mem_byte a chars then i else str_index_any_from r chars (i + 1)%Z
  end.
Definition str_index_any (s chars : string) : Z := str_index_any_from s chars 0.

(* strings.Replace(s, old, new, n) for a non-empty [old]: the first n non-overlapping occurrences, all if n < 0.
   [skip]: bytes of the occurrence just replaced that are still to be dropped *)
Fixpoint str_repl (s old new : string) (n : Z) (skip : nat) : string :=
  match s with
  | EmptyString => EmptyString
  | String a r =>
      match skip with
      | S k => str_repl r old new n k
      | O =>
          if (n =? 0)%Z then s
          else if has_prefix old s then new ++ str_repl r old new (n - 1)%Z (String.length old - 1)
          else String a (str_repl r old new n 0)
      end
  end.
(* Go returns s unchanged when old == new or n == 0; the empty [old] (a match at every rune boundary) is outside the fragment *)
Definition str_replace (s old new : string) (n : Z) : option string :=
  if String.eqb old new || (n =? 0)%Z then Some s
  else match old with
       | EmptyString => None
       | _ => Some (str_repl s old new n 0)
       end.

Fixpoint nth_Z {A} (l : list A) (i : nat) : option A :=
  match l, i with
  | [], _ => None
  | x :: _, O => Some x
  | _ :: r, S i' => nth_Z r i'
  end.
Fixpoint nth_byte (s : string) (i : nat) : option ascii :=
  match s, i with
  | EmptyString, _ => None
  | String a _, O => Some a
  | String _ r, S i' => nth_byte r i'
  end.

(* time.Time as nanoseconds since the epoch: Unix.. round towards minus infinity *)
Definition prim_apply (p : prim) (args : list value) : option outcome :=
  match p, args with
  | PLen, [VStr s] => Some (RVal (VInt (slen s)))
  | PLen, [VBytes s] => Some (RVal (VInt (slen s)))
  | PLen, [VInts l] => Some (RVal (VInt (Z.of_nat (List.length l))))
  (* the length of an array is part of its type: len(p) of a nil *[N]int is N, nothing is dereferenced *)
  | PLen, [VPArr n _] => Some (RVal (VInt (Z.of_nat n)))
  | PLen, [VMap m] => Some (RVal (VInt (Z.of_nat (List.length m))))
  | PStringOfBytes, [VBytes s] => Some (RVal (VStr s))
  | PBytesOfString, [VStr s] => Some (RVal (VBytes s))
  | PStrIndex, [VStr s; VStr t] => Some (RVal (VInt (str_index s t)))
  | PStrContains, [VStr s; VStr t] => Some (RVal (VBool (str_contains s t)))
  | PStrCompare, [VStr s; VStr t] => Some (RVal (VInt (str_compare s t)))
  | PBytesEqual, [VBytes s; VBytes t] => Some (RVal (VBool (String.eqb s t)))
  | PJoin2, [VStr x; VStr y; VStr g] => Some (RVal (VStr (x ++ g ++ y)))
  | PJoin3, [VStr x; VStr y; VStr z; VStr g] => Some (RVal (VStr (x ++ g ++ y ++ g ++ z)))
  | PUnix, [VTime ns] => Some (RVal (VInt (ns / 1000000000)))
  | PUnixMilli, [VTime ns] => Some (RVal (VInt (ns / 1000000)))
  | PUnixMicro, [VTime ns] => Some (RVal (VInt (ns / 1000)))
  | PUnixNano, [VTime ns] => Some (RVal (VInt ns))
  | PStrHasPrefix, [VStr s; VStr t] => Some (RVal (VBool (has_prefix t s)))
  | PStrHasSuffix, [VStr s; VStr t] => Some (RVal (VBool (has_suffix t s)))
  | PStrLastIndex, [VStr s; VStr t] => Some (RVal (VInt (str_last_index s t)))
  | PStrEqualFold, [VStr s; VStr t] => if is_ascii s && is_ascii t then Some (RVal (VBool (str_equal_fold s t))) else None
  | PStrToLower, [VStr s] => if is_ascii s then Some (RVal (VStr (str_lower s))) else None
  | PStrToUpper, [VStr s] => if is_ascii s then Some (RVal (VStr (str_upper s))) else None
  | PStrIndexAny, [VStr s; VStr t] => if is_ascii s && is_ascii t then Some (RVal (VInt (str_index_any s t))) else None
  (* strings.ContainsAny is defined by the library as IndexAny(s, chars) >= 0 *)
  | PStrContainsAny, [VStr s; VStr t] => if is_ascii s && is_ascii t then Some (RVal (VBool (0 <=? str_index_any s t)%Z)) else None
  | PStrReplace, [VStr s; VStr o; VStr n; VInt k] => option_map (fun r => RVal (VStr r)) (str_replace s o n k)
  (* strings.ReplaceAll is defined by the library as Replace(s, old, new, -1) *)
  | PStrReplaceAll, [VStr s; VStr o; VStr n] => option_map (fun r => RVal (VStr r)) (str_replace s o n (-1))
  | PBytesIndex, [VBytes s; VBytes t] => Some (RVal (VInt (str_index s t)))
  | PBytesContains, [VBytes s; VBytes t] => Some (RVal (VBool (str_contains s t)))
  | PBytesCompare, [VBytes s; VBytes t] => Some (RVal (VInt (str_compare s t)))
  | PBytesHasPrefix, [VBytes s; VBytes t] => Some (RVal (VBool (has_prefix t s)))
  | PBytesHasSuffix, [VBytes s; VBytes t] => Some (RVal (VBool (has_suffix t s)))
  | PBytesLastIndex, [VBytes s; VBytes t] => Some (RVal (VInt (str_last_index s t)))
  | PBytesEqualFold, [VBytes s; VBytes t] => if is_ascii s && is_ascii t then Some (RVal (VBool (str_equal_fold s t))) else None
  | PBytesReplace, [VBytes s; VBytes o; VBytes n; VInt k] => option_map (fun r => RVal (VBytes r)) (str_replace s o n k)
  | PBytesReplaceAll, [VBytes s; VBytes o; VBytes n] => option_map (fun r => RVal (VBytes r)) (str_replace s o n (-1))
  | _, _ => None
  end.

Definition prim_type (p : prim) (ts : list ty) : option ty :=
  match p, ts with
  | PLen, [TString] | PLen, [TBytes] | PLen, [TInts] | PLen, [TPArr] | PLen, [TMapIS] => Some TInt
  | PStringOfBytes, [TBytes] => Some TString
  | PBytesOfString, [TString] => Some TBytes
  | PStrIndex, [TString; TString] => Some TInt
  | PStrContains, [TString; TString] => Some TBool
  | PStrCompare, [TString; TString] => Some TInt
  | PBytesEqual, [TBytes; TBytes] => Some TBool
  | PJoin2, [TString; TString; TString] => Some TString
  | PJoin3, [TString; TString; TString; TString] => Some TString
  | PUnix, [TTime] | PUnixNano, [TTime] | PUnixMilli, [TTime] | PUnixMicro, [TTime] => Some TInt
  | PStrHasPrefix, [TString; TString] | PStrHasSuffix, [TString; TString] | PStrEqualFold, [TString; TString]
  | PStrContainsAny, [TString; TString] => Some TBool
  | PStrLastIndex, [TString; TString] | PStrIndexAny, [TString; TString] => Some TInt
  | PStrToLower, [TString] | PStrToUpper, [TString] => Some TString
  | PStrReplace, [TString; TString; TString; TInt] | PStrReplaceAll, [TString; TString; TString] => Some TString
  | PBytesIndex, [TBytes; TBytes] | PBytesCompare, [TBytes; TBytes] | PBytesLastIndex, [TBytes; TBytes] => Some TInt
  | PBytesContains, [TBytes; TBytes] | PBytesHasPrefix, [TBytes; TBytes] | PBytesHasSuffix, [TBytes; TBytes]
  | PBytesEqualFold, [TBytes; TBytes] => Some TBool
  | PBytesReplace, [TBytes; TBytes; TBytes; TInt] | PBytesReplaceAll, [TBytes; TBytes; TBytes] => Some TBytes
  | _, _ => None
  end.

Definition index_apply (a i : value) : option outcome :=
  match a, i with
  | VStr s, VInt k =>
      Some (if (k <? 0)%Z then RPanic
            else match nth_byte s (Z.to_nat k) with
                 | Some c => RVal (VInt (Z.of_N (N_of_ascii c)))
                 | None => RPanic
                 end)
  | VBytes s, VInt k =>
      Some (if (k <? 0)%Z then RPanic
            else match nth_byte s (Z.to_nat k) with
                 | Some c => RVal (VInt (Z.of_N (N_of_ascii c)))
                 | None => RPanic
                 end)
  | VInts l, VInt k =>
      Some (if (k <? 0)%Z then RPanic
            else match nth_Z l (Z.to_nat k) with
                 | Some z => RVal (VInt z)
                 | None => RPanic
                 end)
  (* p[k] dereferences p: a nil pointer panics *)
  | VPArr _ None, VInt _ => Some RPanic
  | VPArr _ (Some l), VInt k =>
      Some (if (k <? 0)%Z then RPanic
            else match nth_Z l (Z.to_nat k) with
                 | Some z => RVal (VInt z)
                 | None => RPanic
                 end)
  (* a map read never panics: the zero value for an absent key *)
  | VMap m, VInt k =>
      Some (RVal (VStr match find (fun p => Z.eqb (fst p) k) m with Some p => snd p | None => "" end))
  | _, _ => None
  end.

Definition deref_apply (a : value) : option outcome :=
  match a with
  | VPArr _ None => Some RPanic
  | VPArr _ (Some l) => Some (RVal (VInts l))
  | _ => None
  end.

Definition slice_all_apply (a : value) : option outcome :=
  match a with
  | VStr _ | VInts _ | VBytes _ => Some (RVal a)
  (* p[:] slices the array p points to: a slice value, not the pointer; nil panics *)
  | VPArr _ None => Some RPanic
  | VPArr _ (Some l) => Some (RVal (VInts l))
  | _ => None
  end.

(* ---------- typing ---------- *)
Definition binop_type (o : binop) (a b : ty) : option ty :=
  if negb (ty_eqb a b) then None
  else match o with
       | OLAnd | OLOr => match a with TBool => Some TBool | _ => None end
       (* pointers are comparable (typed), but pointer identity is not a value of the model (not evaluated) *)
       | OEq | ONe => match a with TInt | TFloat | TString | TBool | TPArr => Some TBool | _ => None end
       | OLt | OLe | OGt | OGe => match a with TInt | TFloat | TString => Some TBool | _ => None end
       | OAdd => match a with TInt | TFloat | TString => Some a | _ => None end
       | OSub => match a with TInt | TFloat => Some a | _ => None end
       (* float * and / are typed, but not evaluated: without rounding and signed zeros the model would misstate them *)
       | OMul | OQuo => match a with TInt | TFloat => Some a | _ => None end
       | ORem | OAnd | OOr | OXor | OShl | OShr | OAndNot => match a with TInt => Some a | _ => None end
       end.

Definition lit_type_ok (k : litkind) (text : string) (t : ty) : bool :=
  match lit_value k text t with Some _ => true | None => false end.

Fixpoint typeof (e : expr) : option ty :=
  match e with
  | EIdent _ t => Some t
  | ELit k s t => if lit_type_ok k s t then Some t else None
  | EParen x => typeof x
  | EUnary UNot x => match typeof x with Some TBool => Some TBool | _ => None end
  | EUnary UNeg x => match typeof x with Some TInt => Some TInt | Some TFloat => Some TFloat | _ => None end
  | EBinary o l r =>
      match typeof l, typeof r with
      | Some a, Some b => binop_type o a b
      | _, _ => None
      end
  | ECall f args =>
      match (fix go (l : list expr) : option (list ty) :=
               match l with
               | [] => Some []
               | x :: r => match typeof x, go r with Some t, Some ts => Some (t :: ts) | _, _ => None end
               end) args with
      | Some ts => match f with FOpaque _ ret => Some ret | FPrim p => prim_type p ts end
      | None => None
      end
  | EIndex a i =>
      match typeof a, typeof i with
      | Some TString, Some TInt | Some TInts, Some TInt | Some TBytes, Some TInt | Some TPArr, Some TInt => Some TInt
      | Some TMapIS, Some TInt => Some TString
      | _, _ => None
      end
  | ESliceAll a =>
      match typeof a with
      | Some TString => Some TString | Some TInts => Some TInts | Some TBytes => Some TBytes
      | Some TPArr => Some TInts
      | _ => None
      end
  | EVarK _ _ t => Some t
  | ESel _ _ _ t => Some t
  | EConst _ v => Some (vty v)
  | EDeref p => match typeof p with Some TPArr => Some TInts | _ => None end
  end.

Definition well_typed (e : expr) : Prop := exists t, typeof e = Some t.

(* ---------- evaluation ---------- *)
Definition R := option (outcome * hist).

Definition bind (r : R) (k : value -> hist -> R) : R :=
  match r with
  | None => None
  | Some (RPanic, h) => Some (RPanic, h)
  | Some (RVal v, h) => k v h
  end.
Definition lift (o : option outcome) (h : hist) : R :=
  match o with Some x => Some (x, h) | None => None end.
Definition as_bool (v : value) (h : hist) : R :=
  match v with VBool _ => Some (RVal v, h) | _ => None end.

Fixpoint evalS (en : env) (e : expr) (h : hist) {struct e} : R :=
  match e with
  | EIdent x t => Some (RVal (vars en x t), h)
  | ELit k s t => lift (option_map RVal (lit_value k s t)) h
  | EParen x => evalS en x h
  | EUnary o x => bind (evalS en x h) (fun v h1 => lift (unop_apply o v) h1)
  | EBinary OLAnd l r =>
      bind (evalS en l h) (fun v h1 =>
        match v with
        | VBool false => Some (RVal (VBool false), h1)
        | VBool true => bind (evalS en r h1) as_bool
        | _ => None
        end)
  | EBinary OLOr l r =>
      bind (evalS en l h) (fun v h1 =>
        match v with
        | VBool true => Some (RVal (VBool true), h1)
        | VBool false => bind (evalS en r h1) as_bool
        | _ => None
        end)
  | EBinary o l r =>
      bind (evalS en l h) (fun v1 h1 =>
        bind (evalS en r h1) (fun v2 h2 => lift (binop_apply o v1 v2) h2))
  | ECall f args =>
      match (fix go (l : list expr) (h0 : hist) {struct l} : option (res (list value) * hist) :=
               match l with
               | [] => Some (RVal [], h0)
               | x :: r =>
                   match evalS en x h0 with
                   | None => None
                   | Some (RPanic, h1) => Some (RPanic, h1)
                   | Some (RVal v, h1) =>
                       match go r h1 with
                       | None => None
                       | Some (RPanic, h2) => Some (RPanic, h2)
                       | Some (RVal vs, h2) => Some (RVal (v :: vs), h2)
                       end
                   end
               end) args h with
      | None => None
      | Some (RPanic, h1) => Some (RPanic, h1)
      | Some (RVal vs, h1) =>
          match f with
          | FOpaque name ret =>
              let v := funs en name vs h1 ret in
              Some (RVal v, Ev name vs v :: h1)
          | FPrim p => lift (prim_apply p vs) h1
          end
      end
  | EIndex a i =>
      bind (evalS en a h) (fun va h1 =>
        bind (evalS en i h1) (fun vi h2 => lift (index_apply va vi) h2))
  | ESliceAll a => bind (evalS en a h) (fun va h1 => lift (slice_all_apply va) h1)
  | EVarK x _ t => Some (RVal (vars en x t), h)
  (* the field of the struct a non-nil pointer variable points to is the variable "x.f" *)
  | ESel x f _ t => if nilp en x then Some (RPanic, h) else Some (RVal (vars en (x ++ "." ++ f) t), h)
  | EConst _ v => Some (RVal v, h)
  | EDeref p => bind (evalS en p h) (fun vp h1 => lift (deref_apply vp) h1)
  end.

(* the argument-list evaluator, as a stand-alone function (equal to the inner fix above) *)
Fixpoint evalS_list (en : env) (l : list expr) (h0 : hist) : option (res (list value) * hist) :=
  match l with
  | [] => Some (RVal [], h0)
  | x :: r =>
      match evalS en x h0 with
      | None => None
      | Some (RPanic, h1) => Some (RPanic, h1)
      | Some (RVal v, h1) =>
          match evalS_list en r h1 with
          | None => None
          | Some (RPanic, h2) => Some (RPanic, h2)
          | Some (RVal vs, h2) => Some (RVal (v :: vs), h2)
          end
      end
  end.

Definition eval (en : env) (e : expr) : option (outcome * trace) :=
  match evalS en e [] with
  | Some (o, h) => Some (o, rev h)
  | None => None
  end.

(* ---------- purity as the tools see it ---------- *)
(* typep.SideEffectFree as boolExprSimplify calls it: on a *copied* AST, whose identifiers have no
   objects in types.Info, so a call is accepted only when its Fun is a type literal ([]byte(..)). *)
Definition prim_fun_is_type_lit (p : prim) : bool :=
  match p with PBytesOfString => true | _ => false end.

Fixpoint side_effect_free (e : expr) : bool :=
  match e with
  | EIdent _ _ | ELit _ _ _ => true
  | EParen x | EUnary _ x | ESliceAll x | EDeref x => side_effect_free x
  | EBinary _ l r => side_effect_free l && side_effect_free r
  | EIndex a i => side_effect_free a && side_effect_free i
  | ECall (FPrim p) args =>
      prim_fun_is_type_lit p &&
      (fix go (l : list expr) : bool := match l with [] => true | x :: r => side_effect_free x && go r end) args
  | ECall (FOpaque _ _) _ => false
  | EVarK _ _ _ | ESel _ _ _ _ | EConst _ _ => true
  end.

(* ruleguard's .Pure filter (ruleguard/utils.go isPure) on the original, typed AST: identifiers, literals,
   unary/binary/index/paren expressions and type conversions of pure operands; no slice expressions, no
   other calls (not even len) *)
Fixpoint rg_pure (e : expr) : bool :=
  match e with
  | EIdent _ _ | ELit _ _ _ => true
  | EParen x | EUnary _ x | EDeref x => rg_pure x
  | ESliceAll _ => false
  | EBinary _ l r => rg_pure l && rg_pure r
  | EIndex a i => rg_pure a && rg_pure i
  | ECall (FPrim p) args =>
      match p with
      | PStringOfBytes | PBytesOfString =>
          (fix go (l : list expr) : bool := match l with [] => true | x :: r => rg_pure x && go r end) args
      | _ => false
      end
  | ECall (FOpaque _ _) _ => false
  | EVarK _ _ _ | ESel _ _ _ _ | EConst _ _ => true
  end.

(* ---------- sample environments for witnesses ---------- *)
Definition env_of (vs : list (string * value)) (fs : list (string * (nat -> value))) : env :=
  {| vars := fun x t =>
       match find (fun p => String.eqb (fst p) x && ty_eqb (vty (snd p)) t) vs with
       | Some p => snd p
       | None => default_value t
       end;
     funs := fun f _ h t =>
       match find (fun p => String.eqb (fst p) f) fs with
       | Some p =>
           let n := List.length (filter (fun e => String.eqb (ev_fn e) f) h) in
           let v := snd p n in
           if ty_eqb (vty v) t then v else default_value t
       | None => default_value t
       end;
     nilp := fun _ => false |}.
