(* Model_System.v — the check command end to end, composed from the component models:
   flags -> selection (Model_Select) -> initialisation (Model_Init's step order) -> for every checked
   file, the goroutine pool of Model_Sched running the selected checkers -> printing (Model_Cli) -> exit
   status.  No proofs here. *)
From GC Require Export Base Model_Select Model_Cli Model_Sched.

(* what every registered checker would report on every file: input data of the system model
   (file name, comment groups, per registered checker name: its (location, text) warnings) *)
Record sys_file := { sf_name : string; sf_groups : list string; sf_warn : list (string * list (string * string)) }.

Definition warnings_of (f : sys_file) (c : checker) : list (string * string) :=
  match find (fun p => String.eqb (fst p) (cname c)) (sf_warn f) with
  | Some p => snd p
  | None => []
  end.

(* the selected checkers, in registry order (initCheckers appends in that order) *)
Definition selected (reg : list checker) (fl : cli_flags) : list checker := filter (cli_selected reg fl) reg.

(* one file: the pool runs checker k of the selected list; any complete schedule prints the slots in order *)
Definition file_as_src (sel : list checker) (f : sys_file) : src_file :=
  {| fname := sf_name f; fgroups := sf_groups f;
     fwarn := map (fun c => (cname c, warnings_of f c)) sel |}.

Inductive sys_outcome :=
| SysFatal (step : string)
| SysExit (code : Z) (lines : list string).

Definition system_run (reg : list checker) (fl : cli_flags) (cfg : cli_cfg) (files : list sys_file) : sys_outcome :=
  match selected reg fl with
  | [] => SysFatal "init checkers"
  | sel => let r := run cfg (map (file_as_src sel) files) in SysExit (fst r) (snd r)
  end.

(* the specification: lines of all warnings of selected checkers on files that pass the filters *)
Definition spec_lines (reg : list checker) (fl : cli_flags) (cfg : cli_cfg) (files : list sys_file) : list string :=
  flat_map (fun f =>
    if file_checked cfg {| fname := sf_name f; fgroups := sf_groups f; fwarn := [] |} then
      flat_map (fun c => if spec_selected (cf_all fl) (cli_enable_keys reg fl) (cli_disable_keys fl) c
                         then map (fun w => fmt_line (fst w) (cname c) (snd w)) (warnings_of f c) else [])
               reg
    else []) files.

(* per file, the worker pool: checker k of the selected list reports this *)
Definition pool_run (sel : list checker) (f : sys_file) (k : nat) : list string :=
  match nth_error sel k with
  | Some c => map (fun w => fmt_line (fst w) (cname c) (snd w)) (warnings_of f c)
  | None => []
  end.

(* ---- the go/analysis front-ends (checkers/analyzer + singlechecker), composed the same way ----
   selection by filterCheckersList (Model_Select.an_selected); no test-file or generated-file filter;
   every warning of a selected checker becomes the diagnostic "checker: text" printed as
   "location: checker: text"; the driver exits 3 when anything was reported, 1 on the init error. *)
Definition an_nonempty (l : list string) : bool := match l with [] => false | _ => true end.

Inductive an_outcome :=
| AnError
| AnExit (code : Z) (lines : list string).

Definition an_lines (reg : list checker) (af : an_flags) (files : list sys_file) : list string :=
  flat_map (fun f =>
    flat_map (fun c => map (fun w => fmt_line (fst w) (cname c) (snd w)) (warnings_of f c)) (an_filter af reg)) files.

Definition analysis_run (reg : list checker) (af : an_flags) (files : list sys_file) : an_outcome :=
  match an_filter af reg with
  | [] => AnError
  | _ => let l := an_lines reg af files in AnExit (if an_nonempty l then 3%Z else 0%Z) l
  end.
