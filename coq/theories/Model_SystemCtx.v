(* Model_SystemCtx.v — Model_System extended by the Go-version step and the parameter cells. No proofs here. *)
From GC Require Export Base Model_Select Model_Cli Model_System.

(* ---- round 5: the Go-version step and the parameter cells ----
   What a checker reports depends on the target version (-go) and on the registered parameter values
   (-@checker.param=value). Both kinds of front-end parse the version with linter.ParseGoVersion
   (Model_Version.parse_go_version) and give every registered parameter the last value named on the command
   line, else its registered default (Model_Params.last_assoc); a -@ flag that names no registered parameter is
   rejected by the flag package before anything else happens. *)
From GC Require Export Model_Version Model_Params.

Definition valuation := list (string * string).     (* "@checker.param" -> printed value, one entry per registered parameter *)

Definition effective (defaults : valuation) (pargs : list (string * string)) : valuation :=
  map (fun kv => (fst kv, match last_assoc (fst kv) pargs None with Some v => v | None => snd kv end)) defaults.
Definition pargs_known (defaults : valuation) (pargs : list (string * string)) : bool :=
  forallb (fun kv => mem (fst kv) (map fst defaults)) pargs.

Record ctx_file := { cx_name : string; cx_groups : list string;
                     cx_warn : version -> valuation -> list (string * list (string * string)) }.
Definition at_ctx (v : version) (val : valuation) (f : ctx_file) : sys_file :=
  {| sf_name := cx_name f; sf_groups := cx_groups f; sf_warn := cx_warn f v val |}.

(* runCheck's step order: parse args, load program (version), init checkers (selection), run *)
Definition system_run_ctx (reg : list checker) (defaults : valuation) (fl : cli_flags) (cfg : cli_cfg)
           (go : string) (pargs : list (string * string)) (files : list ctx_file) : sys_outcome :=
  if negb (pargs_known defaults pargs) then SysFatal "parse args"
  else match parse_go_version go with
       | None => SysFatal "load program"
       | Some v => system_run reg fl cfg (map (at_ctx v (effective defaults pargs)) files)
       end.

Definition analysis_run_ctx (reg : list checker) (defaults : valuation) (af : an_flags)
           (go : string) (pargs : list (string * string)) (files : list ctx_file) : an_outcome :=
  if negb (pargs_known defaults pargs) then AnError
  else match parse_go_version go with
       | None => AnError
       | Some v => analysis_run reg af (map (at_ctx v (effective defaults pargs)) files)
       end.
