(* Model_RegexParse.v — C11, text level, whole patterns: the lexer (scan, scanEscape, repeatWidth, tryScanGroupName,
   tryScanGroupFlags) and the Pratt parser of github.com/quasilyte/regex/syntax for the fragment Go's regexp accepts:
   characters, escapes (\c, octal \0 \12 \123, hex \x41 \x{10FFFF}), classes (Model_RegexText), . ^ $, the
   quantifiers * + ? {n} {n,} {n,m} with the lazy marker, groups ( (?: (?flags: (?P<n> (?<n> (?flags), alternation.
   \p \Q, look-arounds, atomic groups, comments, possessive quantifiers, empty groups / empty alternation branches
   are outside ([None]).

   [lex_re]      text -> tokens
   [parse_rtoks] tokens -> tree: a shift/reduce formulation of the precedence parser (atoms are pushed, a postfix
                 operator rewrites the last item, `|` closes a branch, `)` closes a frame) — tied to the real parser
                 on every dumped tree
   [toks_of]     the tokens a tree prints as;  [canon] a tree up to what the parser cannot know (the Value texts of
                 inner nodes, a concatenation of one item).
   No proofs here. *)
From GC Require Import Base Model_Regex Model_RegexSimplify Model_RegexText.
Local Open Scope string_scope.

Inductive rtok :=
| RLit (t : tok)                                   (* TChar, TEsc, TRepeat *)
| ROp (b : N)                                      (* . ^ $ * + ? | ) *)
| ROpen (v : string)                               (* "("  "(?:"  "(?flags:"  "(?P<name>"  "(?<name>" *)
| RFlagOnly (v : string)                           (* "(?flags)" *)
| RClass (v : string) (neg : bool) (items : list sx).

Definition rtok_text (t : rtok) : string :=
  match t with
  | RLit t => tok_text t
  | ROp b => s1 (ascii_of_N b)
  | ROpen v | RFlagOnly v | RClass v _ _ => v
  end.
Fixpoint rtoks_text (ts : list rtok) : string := match ts with [] => "" | t :: r => rtok_text t ++ rtoks_text r end.

Definition is_hex (b : N) : bool :=
  (((48 <=? b) && (b <=? 57)) || ((97 <=? b) && (b <=? 102)) || ((65 <=? b) && (b <=? 70)))%N.

(* text up to (excluding) the first occurrence of byte c, and the text after it *)
Fixpoint split_at (c : N) (s : string) : option (string * string) :=
  match s with
  | EmptyString => None
  | String a r => if (b_of a =? c)%N then Some (EmptyString, r)
                  else match split_at c r with Some (x, y) => Some (String a x, y) | None => None end
  end.

(* scanEscape outside a class, with \x; s starts with the backslash *)
Definition lex_escape_re (s : string) : option (tok * string) :=
  match s with
  | String bs (String a r) =>
      if (b_of a =? 120)%N then                                    (* \x *)
        match r with
        | String c r1 =>
            if (b_of c =? 123)%N then
              match split_at 125 r1 with
              | Some (body, rest) => Some (TEsc OpEscapeHex (String bs (String a (String c (body ++ "}")))), rest)
              | None => None
              end
            else
              match r1 with
              | String d r2 =>
                  if is_hex (b_of d) then Some (TEsc OpEscapeHex (String bs (String a (String c (s1 d)))), r2)
                  else Some (TEsc OpEscapeHex (String bs (String a (s1 c))), r1)
              | EmptyString => Some (TEsc OpEscapeHex (String bs (String a (s1 c))), r1)
              end
        | EmptyString => None
        end
      else lex_escape false s
  | _ => None
  end.

Definition flag_char (b : N) : bool := ((b =? 105) || (b =? 109) || (b =? 115) || (b =? 85) || (b =? 45))%N.
Definition name_ch (b : N) : bool :=
  (((48 <=? b) && (b <=? 57)) || ((97 <=? b) && (b <=? 122)) || ((65 <=? b) && (b <=? 90)) || (b =? 95))%N.

Fixpoint span_p (p : N -> bool) (s : string) : string * string :=
  match s with
  | String a r => if p (b_of a) then let '(x, y) := span_p p r in (String a x, y) else (EmptyString, s)
  | EmptyString => (EmptyString, s)
  end.

(* after "(" : the opener token and the rest *)
Definition lex_open (r : string) : option (rtok * string) :=
  match r with
  | String q r1 =>
      if negb (b_of q =? 63)%N then Some (ROpen "(", r) else
      match r1 with
      | String c r2 =>
          let b := b_of c in
          if (b =? 80)%N then                                                   (* (?P<name> *)
            match r2 with
            | String lt r3 =>
                if (b_of lt =? 60)%N then
                  let '(nm, r4) := span_p name_ch r3 in
                  match r4 with
                  | String gt r5 => if (b_of gt =? 62)%N then Some (ROpen ("(?P<" ++ nm ++ ">"), r5) else None
                  | EmptyString => None
                  end
                else None
            | EmptyString => None
            end
          else if (b =? 60)%N then                                              (* (?<name> ; (?<= (?<! are look-behinds *)
            let '(nm, r4) := span_p name_ch r2 in
            match r4 with
            | String gt r5 => if (b_of gt =? 62)%N then Some (ROpen ("(?<" ++ nm ++ ">"), r5) else None
            | EmptyString => None
            end
          else
            let '(fl, r4) := span_p flag_char r1 in                             (* (?flags: (?flags) (?: *)
            match r4 with
            | String e r5 =>
                if (b_of e =? 58)%N then Some (ROpen ("(?" ++ fl ++ ":"), r5)
                else if (b_of e =? 41)%N then Some (RFlagOnly ("(?" ++ fl ++ ")"), r5)
                else None
            | EmptyString => None
            end
      | EmptyString => None
      end
  | EmptyString => Some (ROpen "(", r)
  end.

Definition op_byte (b : N) : bool := existsb (N.eqb b) [46; 94; 36; 42; 43; 63; 124; 41]%N.

Fixpoint lex_re_f (fuel : nat) (s : string) : option (list rtok) :=
  match fuel with
  | O => None
  | S f =>
      match s with
      | EmptyString => Some []
      | String a r =>
          let b := b_of a in
          let cons_tok (t : rtok) (rest : string) :=
            match lex_re_f f rest with Some ts => Some (t :: ts) | None => None end in
          if (128 <=? b)%N then
            match utf8_take a r with Some (v, rest) => cons_tok (RLit (TChar v)) rest | None => None end
          else if (b =? 92)%N then
            match lex_escape_re s with Some (t, rest) => cons_tok (RLit t) rest | None => None end
          else if (b =? 123)%N then
            match lex_repeat r with
            | Some (body, rest) => cons_tok (RLit (TRepeat (String a body))) rest
            | None => cons_tok (RLit (TChar (s1 a))) r
            end
          else if (b =? 91)%N then
            match parse_class s with
            | Some (X o v items, rest) =>
                if Nat.ltb (String.length rest) (String.length s)
                then cons_tok (RClass v (op_eqb o OpNegCharClass) items) rest else None
            | None => None
            end
          else if (b =? 40)%N then
            match lex_open r with
            | Some (t, rest) => if Nat.leb (String.length rest) (String.length r) then cons_tok t rest else None
            | None => None
            end
          else if op_byte b then cons_tok (ROp b) r
          else cons_tok (RLit (TChar (s1 a))) r
      end
  end.
Definition lex_re (s : string) : option (list rtok) := lex_re_f (S (String.length s)) s.

(* ---------- tokens -> tree ---------- *)
Inductive gkind := GTop | GCap | GNon | GFlags (fl : string) | GNamed (opener name : string).

Record frame := { f_kind : gkind; f_alts : list sx; f_items : list sx }.     (* both lists reversed *)

Definition quant_op (o : op) : bool := match o with OpStar | OpPlus | OpQuestion | OpRepeat => true | _ => false end.

Definition mk_concat (items_rev : list sx) : option sx :=
  match rev items_rev with [] => None | [x] => Some x | l => Some (X OpConcat "" l) end.

Definition close_frame (fr : frame) : option sx :=
  match mk_concat (f_items fr) with
  | None => None
  | Some c => match f_alts fr with [] => Some c | alts => Some (X OpAlt "" (rev (c :: alts))) end
  end.

(* "(?flags:" -> flags ; "(?P<n>" -> ("(?P<", n) *)
Definition open_kind (v : string) : option gkind :=
  if String.eqb v "(" then Some GCap
  else if String.eqb v "(?:" then Some GNon
  else if has_prefix "(?P<" v then Some (GNamed "(?P<" (drop_last (drop 4 v)))
  else if has_prefix "(?<" v then Some (GNamed "(?<" (drop_last (drop 3 v)))
  else if has_prefix "(?" v then Some (GFlags (drop_last (drop 2 v)))
  else None.

Definition group_node (k : gkind) (body : sx) : option sx :=
  match k with
  | GTop => None
  | GCap => Some (X OpCapture "" [body])
  | GNon => Some (X OpGroup "" [body])
  | GFlags fl => Some (X OpGroupWithFlags "" [body; X OpString fl []])
  | GNamed o nm => Some (X OpNamedCapture o [body; X OpString nm []])
  end.

Definition esc_node (o : op) (v : string) : sx :=
  match o with
  | OpEscapeHex =>
      let body := drop 2 v in
      X o v [X OpString (match body with String c r => if (b_of c =? 123)%N then drop_last r else body | _ => body end) []]
  | _ => X o v [X OpString (drop 1 v) []]
  end.

Definition push_item (x : sx) (st : list frame) : option (list frame) :=
  match st with
  | fr :: rest => Some ({| f_kind := f_kind fr; f_alts := f_alts fr; f_items := x :: f_items fr |} :: rest)
  | [] => None
  end.

Definition postfix (mk : sx -> option sx) (st : list frame) : option (list frame) :=
  match st with
  | fr :: rest =>
      match f_items fr with
      | x :: its => match mk x with
                    | Some y => Some ({| f_kind := f_kind fr; f_alts := f_alts fr; f_items := y :: its |} :: rest)
                    | None => None
                    end
      | [] => None
      end
  | [] => None
  end.

Definition step (t : rtok) (st : list frame) : option (list frame) :=
  match t with
  | RLit (TChar v) => push_item (X OpChar v []) st
  | RLit (TEsc o v) => push_item (esc_node o v) st
  | RLit (TRepeat v) => postfix (fun x => Some (X OpRepeat "" [x; X OpString v []])) st
  | RLit _ => None
  | RFlagOnly v => push_item (X OpFlagOnlyGroup "" [X OpString (drop_last (drop 2 v)) []]) st
  | RClass v neg items => push_item (X (if neg then OpNegCharClass else OpCharClass) "" items) st
  | ROpen v => match open_kind v with Some k => Some ({| f_kind := k; f_alts := []; f_items := [] |} :: st) | None => None end
  | ROp b =>
      if (b =? 46)%N then push_item (X OpDot "." []) st
      else if (b =? 94)%N then push_item (X OpCaret "^" []) st
      else if (b =? 36)%N then push_item (X OpDollar "$" []) st
      else if (b =? 42)%N then postfix (fun x => Some (X OpStar "" [x])) st
      else if (b =? 43)%N then postfix (fun x => if quant_op (sx_op x) then None else Some (X OpPlus "" [x])) st
      else if (b =? 63)%N then
        postfix (fun x => Some (X (if quant_op (sx_op x) then OpNonGreedy else OpQuestion) "" [x])) st
      else if (b =? 124)%N then
        match st with
        | fr :: rest =>
            match mk_concat (f_items fr) with
            | Some c => Some ({| f_kind := f_kind fr; f_alts := c :: f_alts fr; f_items := [] |} :: rest)
            | None => None
            end
        | [] => None
        end
      else if (b =? 41)%N then
        match st with
        | fr :: parent =>
            match close_frame fr with
            | Some body => match group_node (f_kind fr) body with Some g => push_item g parent | None => None end
            | None => None
            end
        | [] => None
        end
      else None
  end.

Fixpoint run (ts : list rtok) (st : list frame) : option (list frame) :=
  match ts with
  | [] => Some st
  | t :: r => match step t st with Some st' => run r st' | None => None end
  end.

Definition top_frame : frame := {| f_kind := GTop; f_alts := []; f_items := [] |}.

Definition parse_rtoks (ts : list rtok) : option sx :=
  match run ts [top_frame] with
  | Some [fr] => match f_kind fr with GTop => close_frame fr | _ => None end
  | _ => None
  end.

Definition parse_re (s : string) : option sx :=
  match lex_re s with Some ts => parse_rtoks ts | None => None end.

(* ---------- trees -> tokens ---------- *)
Definition named_open (v nm : string) : string := (if has_prefix "(?<" v then "(?<" else "(?P<") ++ nm ++ ">".

Fixpoint toks_of (e : sx) {struct e} : list rtok :=
  let cat := fix cat (l : list sx) : list rtok := match l with [] => [] | x :: r => (toks_of x ++ cat r)%list end in
  match e with
  | X OpChar v _ => [RLit (TChar v)]
  | X OpEscapeChar v _ => [RLit (TEsc OpEscapeChar v)]
  | X OpEscapeMeta v _ => [RLit (TEsc OpEscapeMeta v)]
  | X OpEscapeOctal v _ => [RLit (TEsc OpEscapeOctal v)]
  | X OpEscapeHex v _ => [RLit (TEsc OpEscapeHex v)]
  | X OpDot v _ => if String.eqb v "." then [ROp 46] else [RLit (TChar v)]
  | X OpCaret v _ => if String.eqb v "^" then [ROp 94] else [RLit (TChar v)]
  | X OpDollar v _ => if String.eqb v "$" then [ROp 36] else [RLit (TChar v)]
  | X OpCharClass _ items => [RClass (print e) false items]
  | X OpNegCharClass _ items => [RClass (print e) true items]
  | X OpStar _ [x] => (toks_of x ++ [ROp 42])%list
  | X OpPlus _ [x] => (toks_of x ++ [ROp 43])%list
  | X OpQuestion _ [x] | X OpNonGreedy _ [x] => (toks_of x ++ [ROp 63])%list
  | X OpRepeat _ [x; r] => (toks_of x ++ [RLit (TRepeat (sx_val r))])%list
  | X OpConcat _ l => cat l
  | X OpAlt _ l =>
      (fix alt (l : list sx) : list rtok :=
         match l with [] => [] | [x] => toks_of x | x :: r => (toks_of x ++ ROp 124 :: alt r)%list end) l
  | X OpGroup _ [x] => (ROpen "(?:" :: toks_of x ++ [ROp 41])%list
  | X OpCapture _ [x] => (ROpen "(" :: toks_of x ++ [ROp 41])%list
  | X OpGroupWithFlags _ [x; fl] => (ROpen ("(?" ++ sx_val fl ++ ":") :: toks_of x ++ [ROp 41])%list
  | X OpNamedCapture v [x; nm] => (ROpen (named_open v (sx_val nm)) :: toks_of x ++ [ROp 41])%list
  | X OpFlagOnlyGroup v _ => [RFlagOnly v]
  | X _ v _ => [RLit (TChar v)]
  end.

(* ---------- a tree up to what the parser cannot know ---------- *)
Definition inner_op (o : op) : bool :=
  match o with
  | OpConcat | OpAlt | OpStar | OpPlus | OpQuestion | OpNonGreedy | OpRepeat | OpCapture | OpGroup | OpGroupWithFlags
  | OpFlagOnlyGroup | OpCharClass | OpNegCharClass => true
  | _ => false
  end.

Fixpoint canon (e : sx) {struct e} : sx :=
  match e with
  | X OpConcat _ [x] => canon x
  | X OpCharClass _ items => X OpCharClass "" items
  | X OpNegCharClass _ items => X OpNegCharClass "" items
  | X OpNamedCapture v args =>
      X OpNamedCapture (if has_prefix "(?<" v then "(?<" else "(?P<")
        ((fix go (l : list sx) : list sx := match l with [] => [] | x :: r => canon x :: go r end) args)
  | X o v args =>
      if inner_op o
      then X o "" ((fix go (l : list sx) : list sx := match l with [] => [] | x :: r => canon x :: go r end) args)
      else e
  end.

(* tie: the model parser reproduces a dumped tree from its text. 0 = outside the sub-language, 1 = agrees, 2 = DISAGREES *)
Definition parse_tie (pat : string) (t : sx) : N :=
  match parse_re pat with
  | Some p => if sx_eqb p (canon t) then 1%N else 2%N
  | None => 0%N
  end.
