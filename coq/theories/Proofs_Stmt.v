(* Proofs_Stmt.v — the statement-level rewrite rules of C10 over Model_Stmt. *)
From GC Require Import Base Model_Expr Model_Stmt Proofs_Expr.
Open Scope string_scope.

Definition is_arith (o : binop) : bool :=
  match o with OAdd | OSub | OMul | OQuo | ORem => true | _ => false end.

Lemma eval_arith_generic en o a b h : is_arith o = true ->
  evalS en (EBinary o a b) h =
  bind (evalS en a h) (fun v1 h1 => bind (evalS en b h1) (fun v2 h2 => lift (binop_apply o v1 v2) h2)).
Proof. destruct o; try discriminate; reflexivity. Qed.

Lemma exec_assign en l e h :
  exec en (SAssign l e) h =
  match eval_lval en l h with
  | Some (RVal c, h1) =>
      match evalS en e h1 with
      | Some (RVal v, h2) => match store_loc en c v with Some r => Some (r, h2) | None => None end
      | Some (RPanic, h2) => Some (RPanic, h2)
      | None => None
      end
  | Some (RPanic, h1) => Some (RPanic, h1)
  | None => None
  end.
Proof. reflexivity. Qed.

Lemma exec_assign_op en l o e h :
  exec en (SAssignOp l o e) h =
  match eval_lval en l h with
  | Some (RVal c, h1) =>
      match read_loc en c with
      | Some (RVal v0) =>
          match evalS en e h1 with
          | Some (RVal v, h2) =>
              match binop_apply o v0 v with
              | Some (RVal w) => match store_loc en c w with Some r => Some (r, h2) | None => None end
              | Some RPanic => Some (RPanic, h2)
              | None => None
              end
          | Some (RPanic, h2) => Some (RPanic, h2)
          | None => None
          end
      | Some RPanic => Some (RPanic, h1)
      | None => None
      end
  | Some (RPanic, h1) => Some (RPanic, h1)
  | None => None
  end.
Proof. reflexivity. Qed.

Definition lval_pure (l : lval) : bool := match l with LVar _ _ => true | LIdx _ i => no_opaque i end.

(* assignOp: `x = x op y` => `x op= y` for a left operand without opaque calls (the rule's .Pure filter),
   any right operand (evaluated once, after x's operands, on both sides) *)
Theorem assign_op_preserves en l o e h :
  env_ok en -> is_arith o = true -> lval_pure l = true ->
  exec en (assign_op_lhs l o e) h = exec en (assign_op_rhs l o e) h.
Proof.
  intros Hen Ao P. unfold assign_op_lhs, assign_op_rhs. rewrite exec_assign, exec_assign_op.
  destruct l as [x t|x i]; simpl lval_expr.
  - simpl eval_lval. cbv beta iota. rewrite (eval_arith_generic en o _ _ h Ao). simpl.
    destruct (evalS en e h) as [[[v|] h2]|]; simpl; auto.
    destruct (binop_apply o (vars en x t) v) as [[w|]|]; reflexivity.
  - simpl in P. destruct (no_opaque_pure en i P) as [ri Hi].
    simpl eval_lval. rewrite (Hi h).
    destruct ri as [[vi|]|]; try (simpl; auto; fail). destruct vi; try (simpl; auto; fail).
    cbv beta iota delta [lift]. rewrite (eval_arith_generic en o _ _ h Ao). simpl. rewrite (Hi h). simpl.
    pose proof (proj1 Hen x TInts) as Tx. unfold has_type in Tx.
    destruct (vars en x TInts) eqn:Vx; try discriminate. simpl.
    destruct (z <? 0)%Z; simpl; auto.
    destruct (nth_Z l (Z.to_nat z)); simpl; auto.
    destruct (evalS en e h) as [[[v|] h2]|]; simpl; auto.
    destruct (binop_apply o (VInt z0) v) as [[w|]|]; reflexivity.
Qed.

(* `x = x + 1` => `x++` and `x = x - 1` => `x--` on integer operands *)
Theorem assign_incdec_preserves en l (inc : bool) h :
  env_ok en -> lval_pure l = true ->
  (match l with LVar _ t => t = TInt | LIdx _ _ => True end) ->
  exec en (assign_op_lhs l (if inc then OAdd else OSub) (ELit LInt "1" TInt)) h = exec en (SIncDec l inc) h.
Proof.
  intros Hen P T. rewrite assign_op_preserves by (auto; destruct inc; reflexivity).
  unfold assign_op_rhs. destruct l as [x t|x i]; simpl.
  - subst t. pose proof (proj1 Hen x TInt) as Tx. unfold has_type in Tx.
    destruct (vars en x TInt) eqn:Vx; try discriminate. reflexivity.
  - destruct (evalS en i h) as [[[vi|] h1]|]; auto. destruct vi; auto.
    unfold read_loc. pose proof (proj1 Hen x TInts) as Tx. unfold has_type in Tx.
    destruct (vars en x TInts) eqn:Vx; try discriminate.
    destruct (z <? 0)%Z; auto. destruct (nth_Z l (Z.to_nat z)); reflexivity.
Qed.

(* switchTrue: `switch true { ... }` => `switch { ... }` *)
Theorem switch_true_preserves en t cases dflt h :
  (forall h', evalS en t h' = Some (RVal (VBool true), h')) ->
  exec en (switch_true_lhs t cases dflt) h = exec en (switch_true_rhs cases dflt) h.
Proof.
  intros Ht. unfold switch_true_lhs, switch_true_rhs. simpl. rewrite (Ht h).
  revert h. induction cases as [|[c body] r IH]; intros h; [reflexivity|].
  destruct (evalS en c h) as [[[vc|] h1]|]; auto.
  destruct vc as [| | | |[]| |]; simpl; auto.
Qed.

(* ---- valSwap: not an equivalence ---- *)
Definition observe (r : SR) : option (option (value * value * value) * hist) :=
  match r with
  | Some (RVal en', h) => Some (Some (vars en' "a" TInt, vars en' "b" TInt, vars en' "xs" TInts), h)
  | Some (RPanic, h) => Some (None, h)
  | None => None
  end.

(* (1) operands with side effects: the index calls are evaluated in another order *)
Theorem val_swap_impure_refuted :
  exists en x y, env_ok en /\
    observe (exec en (val_swap_lhs "tmp" TInt x y) []) <> observe (exec en (val_swap_rhs x y) []).
Proof.
  exists (env_of [("xs", VInts [10; 20; 30]%Z)] [("f", fun n => VInt (Z.of_nat (Nat.modulo n 2)))]),
    (LIdx "xs" (ECall (FOpaque "f" TInt) [])), (LIdx "xs" (ECall (FOpaque "f" TInt) [])).
  split; [apply env_of_ok|]. vm_compute. discriminate.
Qed.

(* (2) even with pure operands: `tmp := b; b = xs[b]; xs[b] = tmp` stores through the NEW b, the parallel
   assignment `b, xs[b] = xs[b], b` through the old one *)
Theorem val_swap_index_dependence_refuted :
  exists en x y, env_ok en /\ lval_pure x = true /\ lval_pure y = true /\
    observe (exec en (val_swap_lhs "tmp" TInt x y) []) <> observe (exec en (val_swap_rhs x y) []).
Proof.
  exists (env_of [("xs", VInts [2; 7; 9]%Z); ("b", VInt 0)] []), (LIdx "xs" (EIdent "b" TInt)), (LVar "b" TInt).
  split; [apply env_of_ok|]. split; [reflexivity|]. split; [reflexivity|]. vm_compute. discriminate.
Qed.

