(* Proofs_Stmt.v — the statement-level rewrite rules of C10 over Model_Stmt. *)
From GC Require Import Base Model_Expr Model_BoolSimp Model_Stmt Proofs_Expr.
From Coq Require Import QArith.
Close Scope Q_scope.
Open Scope string_scope.

Definition is_arith (o : binop) : bool :=
  match o with OAdd | OSub | OMul | OQuo | ORem | OAnd | OOr | OXor | OShl | OShr | OAndNot => true | _ => false end.

Lemma eval_arith_generic en o a b h : is_arith o = true ->
  evalS en (EBinary o a b) h =
  bind (evalS en a h) (fun v1 h1 => bind (evalS en b h1) (fun v2 h2 => lift (binop_apply o v1 v2) h2)).
Proof. destruct o; try discriminate; reflexivity. Qed.

Lemma exec_assign en l e h :
  exec en (SAssign l e) h =
  match eval_lval en l h with
  | Some (RVal c, h1) =>
      match evalS en e h1 with
      | Some (RVal v, h2) => match store_loc en c v with Some r => Some (r, h2) | None => None end
      | Some (RPanic, h2) => Some (RPanic, h2)
      | None => None
      end
  | Some (RPanic, h1) => Some (RPanic, h1)
  | None => None
  end.
Proof. reflexivity. Qed.

Lemma exec_assign_op en l o e h :
  exec en (SAssignOp l o e) h =
  match eval_lval en l h with
  | Some (RVal c, h1) =>
      match read_loc en c with
      | Some (RVal v0) =>
          match evalS en e h1 with
          | Some (RVal v, h2) =>
              match binop_apply o v0 v with
              | Some (RVal w) => match store_loc en c w with Some r => Some (r, h2) | None => None end
              | Some RPanic => Some (RPanic, h2)
              | None => None
              end
          | Some (RPanic, h2) => Some (RPanic, h2)
          | None => None
          end
      | Some RPanic => Some (RPanic, h1)
      | None => None
      end
  | Some (RPanic, h1) => Some (RPanic, h1)
  | None => None
  end.
Proof. reflexivity. Qed.

Definition lval_pure (l : lval) : bool :=
  match l with LVar _ _ | LVarK _ _ _ | LSel _ _ _ _ => true | LIdx _ i | LIdxK _ _ i => no_opaque i end.

(* assignOp: `x = x op y` => `x op= y` for a left operand without opaque calls (the rule's .Pure filter),
   any right operand (evaluated once, after x's operands, on both sides) *)
Theorem assign_op_preserves en l o e h :
  env_ok en -> is_arith o = true -> lval_pure l = true ->
  exec en (assign_op_lhs l o e) h = exec en (assign_op_rhs l o e) h.
Proof.
  intros Hen Ao P. unfold assign_op_lhs, assign_op_rhs. rewrite exec_assign, exec_assign_op.
  destruct l as [x t|x i|x k t|x k i|x f k t]; simpl lval_expr.
  - simpl eval_lval. cbv beta iota. rewrite (eval_arith_generic en o _ _ h Ao). simpl.
    destruct (evalS en e h) as [[[v|] h2]|]; simpl; auto.
    destruct (binop_apply o (vars en x t) v) as [[w|]|]; reflexivity.
  - simpl in P. destruct (no_opaque_pure en i P) as [ri Hi].
    simpl eval_lval. rewrite (Hi h).
    destruct ri as [[vi|]|]; try (simpl; auto; fail). destruct vi; try (simpl; auto; fail).
    cbv beta iota delta [lift]. rewrite (eval_arith_generic en o _ _ h Ao). simpl. rewrite (Hi h). simpl.
    pose proof (proj1 Hen x TInts) as Tx. unfold has_type in Tx.
    destruct (vars en x TInts) eqn:Vx; try discriminate. simpl.
    destruct (z <? 0)%Z; simpl; auto.
    destruct (nth_Z l (Z.to_nat z)); simpl; auto.
    destruct (evalS en e h) as [[[v|] h2]|]; simpl; auto.
    destruct (binop_apply o (VInt z0) v) as [[w|]|]; reflexivity.
  - simpl eval_lval. cbv beta iota. rewrite (eval_arith_generic en o _ _ h Ao). simpl.
    destruct (evalS en e h) as [[[v|] h2]|]; simpl; auto.
    destruct (binop_apply o (vars en x t) v) as [[w|]|]; reflexivity.
  - simpl in P. destruct (no_opaque_pure en i P) as [ri Hi].
    simpl eval_lval. rewrite (Hi h).
    destruct ri as [[vi|]|]; try (simpl; auto; fail). destruct vi; try (simpl; auto; fail).
    cbv beta iota delta [lift]. rewrite (eval_arith_generic en o _ _ h Ao). simpl. rewrite (Hi h). simpl.
    pose proof (proj1 Hen x TInts) as Tx. unfold has_type in Tx.
    destruct (vars en x TInts) eqn:Vx; try discriminate. simpl.
    destruct (z <? 0)%Z; simpl; auto.
    destruct (nth_Z l (Z.to_nat z)); simpl; auto.
    destruct (evalS en e h) as [[[v|] h2]|]; simpl; auto.
    destruct (binop_apply o (VInt z0) v) as [[w|]|]; reflexivity.
  - unfold eval_lval. destruct (nilp en x) eqn:N; [reflexivity|]. cbv beta iota.
    rewrite (eval_arith_generic en o _ _ h Ao).
    change (evalS en (ESel x f k t) h) with (if nilp en x then Some (RPanic, h) else Some (RVal (vars en (x ++ "." ++ f) t), h)).
    rewrite N. generalize (x ++ "." ++ f). intros xf. simpl.
    destruct (evalS en e h) as [[[v|] h2]|]; simpl; auto.
    destruct (binop_apply o (vars en xf t) v) as [[w|]|]; reflexivity.
Qed.

(* `x = x + 1` => `x++` and `x = x - 1` => `x--`: integer and float operands, any spelling of the literal 1 *)
Definition lval_ty (l : lval) : ty :=
  match l with LVar _ t | LVarK _ _ t | LSel _ _ _ t => t | LIdx _ _ | LIdxK _ _ _ => TInt end.

Lemma exec_incdec en l inc h :
  exec en (SIncDec l inc) h =
  match eval_lval en l h with
  | Some (RVal c, h1) =>
      match read_loc en c with
      | Some (RVal v0) =>
          match binop_apply (if inc then OAdd else OSub) v0 (match v0 with VFloat _ => VFloat (FFin (inject_Z 1)) | _ => VInt 1 end) with
          | Some (RVal w) => match store_loc en c w with Some r => Some (r, h1) | None => None end
          | Some RPanic => Some (RPanic, h1)
          | None => None
          end
      | Some RPanic => Some (RPanic, h1)
      | None => None
      end
  | Some (RPanic, h1) => Some (RPanic, h1)
  | None => None
  end.
Proof. reflexivity. Qed.

Theorem assign_incdec_preserves en l (inc : bool) s h :
  env_ok en -> lval_pure l = true -> go_int_lit s = Some 1%Z -> (lval_ty l = TInt \/ lval_ty l = TFloat) ->
  exec en (assign_op_lhs l (if inc then OAdd else OSub) (ELit LInt s (lval_ty l))) h = exec en (SIncDec l inc) h.
Proof.
  intros Hen P G Tt. rewrite assign_op_preserves by (auto; destruct inc; reflexivity).
  unfold assign_op_rhs. rewrite exec_assign_op, exec_incdec.
  assert (L : forall h0, evalS en (ELit LInt s (lval_ty l)) h0 =
                         Some (RVal (match lval_ty l with TFloat => VFloat (FFin (inject_Z 1)) | _ => VInt 1 end), h0)).
  { intros h0. simpl. destruct Tt as [-> | ->]; simpl; rewrite G; reflexivity. }
  destruct (eval_lval en l h) as [[[c|] h1]|] eqn:EL; auto.
  destruct (read_loc en c) as [[v0|]|] eqn:RL; auto.
  rewrite L.
  assert (V : vty v0 = lval_ty l).
  { destruct l as [x t|x i|x k t|x k i|x f k t]; simpl in EL.
    - inversion EL; subst. simpl in RL. inversion RL. apply Hen.
    - destruct (evalS en i h) as [[[vi|] hi]|]; try discriminate. destruct vi; try discriminate. inversion EL; subst.
      simpl in RL. destruct (vars en x TInts); try discriminate. inversion RL as [R]. destruct (z <? 0)%Z; [discriminate|].
      destruct (nth_Z l (Z.to_nat z)); inversion R; reflexivity.
    - inversion EL; subst. simpl in RL. inversion RL. apply Hen.
    - destruct (evalS en i h) as [[[vi|] hi]|]; try discriminate. destruct vi; try discriminate. inversion EL; subst.
      simpl in RL. destruct (vars en x TInts); try discriminate. inversion RL as [R]. destruct (z <? 0)%Z; [discriminate|].
      destruct (nth_Z l (Z.to_nat z)); inversion R; reflexivity.
    - destruct (nilp en x); [discriminate|]. inversion EL; subst. simpl in RL. inversion RL. apply Hen. }
  destruct Tt as [T|T]; rewrite T in *; destruct v0; try discriminate; reflexivity.
Qed.

(* switchTrue: `switch true { ... }` => `switch { ... }` *)
Theorem switch_true_preserves en t cases dflt h :
  (forall h', evalS en t h' = Some (RVal (VBool true), h')) ->
  exec en (switch_true_lhs t cases dflt) h = exec en (switch_true_rhs cases dflt) h.
Proof.
  intros Ht. unfold switch_true_lhs, switch_true_rhs. simpl. rewrite (Ht h).
  revert h. induction cases as [|[c body] r IH]; intros h; [reflexivity|].
  destruct (evalS en c h) as [[[vc|] h1]|]; auto.
  destruct vc as [| | | |[]| | | |]; simpl; auto.
Qed.

(* ---- valSwap: not an equivalence ---- *)
Definition observe (r : SR) : option (option (value * value * value) * hist) :=
  match r with
  | Some (RVal en', h) => Some (Some (vars en' "a" TInt, vars en' "b" TInt, vars en' "xs" TInts), h)
  | Some (RPanic, h) => Some (None, h)
  | None => None
  end.

(* (1) operands with side effects: the index calls are evaluated in another order *)
Theorem val_swap_impure_refuted :
  exists en x y, env_ok en /\
    observe (exec en (val_swap_lhs "tmp" TInt x y) []) <> observe (exec en (val_swap_rhs x y) []).
Proof.
  exists (env_of [("xs", VInts [10; 20; 30]%Z)] [("f", fun n => VInt (Z.of_nat (Nat.modulo n 2)))]),
    (LIdx "xs" (ECall (FOpaque "f" TInt) [])), (LIdx "xs" (ECall (FOpaque "f" TInt) [])).
  split; [apply env_of_ok|]. vm_compute. discriminate.
Qed.

(* (2) even with pure operands: `tmp := b; b = xs[b]; xs[b] = tmp` stores through the NEW b, the parallel
   assignment `b, xs[b] = xs[b], b` through the old one *)
Theorem val_swap_index_dependence_refuted :
  exists en x y, env_ok en /\ lval_pure x = true /\ lval_pure y = true /\
    observe (exec en (val_swap_lhs "tmp" TInt x y) []) <> observe (exec en (val_swap_rhs x y) []).
Proof.
  exists (env_of [("xs", VInts [2; 7; 9]%Z); ("b", VInt 0)] []), (LIdx "xs" (EIdent "b" TInt)), (LVar "b" TInt).
  split; [apply env_of_ok|]. split; [reflexivity|]. split; [reflexivity|]. vm_compute. discriminate.
Qed.


(* ================= the statement rules as the checkers decide them (round 5) ================= *)
Lemma rg_pure_lval l : rg_pure (lval_expr l) = true -> lval_pure l = true.
Proof.
  destruct l; simpl; auto; intros H; apply rg_pure_no_opaque; exact H.
Qed.

Lemma assign_op_ops_arith o : existsb (binop_eqb o) assign_op_ops = true -> is_arith o = true.
Proof. destruct o; vm_compute; auto. Qed.

Lemma typeof_lval l ta : typeof (lval_expr l) = Some ta -> ta = lval_ty l.
Proof.
  destruct l as [x t|x i|x k t|x k i|x f k t]; simpl; try congruence;
    destruct (typeof i) as [[]|]; congruence.
Qed.

Lemma is_one_lit_inv y : is_one_lit y = true -> exists s t, y = ELit LInt s t /\ go_int_lit s = Some 1%Z.
Proof.
  destruct y as [|k s t| | | | | | | | | |]; simpl; try discriminate. destruct k; try discriminate.
  destruct (go_int_lit s) as [[|[]|]|] eqn:G; try discriminate. eauto.
Qed.

(* every statement the assignOp rules report — the `$x = $x op $y` patterns of all eleven operators, the
   ++/-- forms, under the rule's Pure filter — behaves like the replacement the message shows *)
Theorem assign_op_rule_preserves en l e s' h :
  env_ok en -> typeof e <> None -> assign_op_rewrite (SAssign l e) = Some s' ->
  exec en (SAssign l e) h = exec en s' h.
Proof.
  intros Hen T R. unfold assign_op_rewrite in R.
  destruct e as [| | | |o x y| | | | | | |]; try discriminate.
  destruct (expr_eqb (lval_expr l) x && rg_pure x && existsb (binop_eqb o) assign_op_ops) eqn:C; [|discriminate].
  apply andb_true_iff in C as [C Ops]. apply andb_true_iff in C as [E P]. apply expr_eqb_eq in E. subst x.
  pose proof (rg_pure_lval l P) as LP. pose proof (assign_op_ops_arith o Ops) as Ao.
  assert (IncDec : forall inc : bool, is_one_lit y = true -> o = (if inc then OAdd else OSub) ->
            exec en (SAssign l (EBinary o (lval_expr l) y)) h = exec en (SIncDec l inc) h).
  { intros inc One ->. destruct (is_one_lit_inv y One) as (s & t & -> & G).
    assert (t = lval_ty l /\ (lval_ty l = TInt \/ lval_ty l = TFloat)) as [-> Tt].
    { simpl in T. destruct (typeof (lval_expr l)) as [ta|] eqn:Tl; [|destruct inc; congruence].
      apply typeof_lval in Tl. subst ta.
      destruct (lit_type_ok LInt s t) eqn:LT; [|destruct inc; congruence].
      unfold binop_type in T. destruct (ty_eqb (lval_ty l) t) eqn:Q; [|destruct inc; simpl in T; congruence].
      apply ty_eqb_eq in Q. subst t. split; [reflexivity|].
      unfold lit_type_ok in LT. destruct (lval_ty l); simpl in LT; try discriminate; auto. }
    exact (assign_incdec_preserves en l inc s h Hen LP G Tt). }
  destruct (is_one_lit y && binop_eqb o OAdd) eqn:C1.
  - apply andb_true_iff in C1 as [One O]. apply binop_eqb_eq in O. inversion R; subst. exact (IncDec true One eq_refl).
  - destruct (is_one_lit y && binop_eqb o OSub) eqn:C2.
    + apply andb_true_iff in C2 as [One O]. apply binop_eqb_eq in O. inversion R; subst. exact (IncDec false One eq_refl).
    + inversion R; subst. exact (assign_op_preserves en l o y h Hen Ao LP).
Qed.

(* switchTrue as decided by the rule: with the predeclared constant the rewrite is an equivalence ... *)
Theorem switch_true_rule_preserves en n cases dflt s' h :
  switch_true_rewrite (SSwitch (Some (EConst n (VBool true))) cases dflt) = Some s' ->
  exec en (SSwitch (Some (EConst n (VBool true))) cases dflt) h = exec en s' h.
Proof.
  unfold switch_true_rewrite. destruct (spelled_true _); [|discriminate]. intros R; inversion R; subst.
  apply switch_true_preserves. reflexivity.
Qed.

(* ... but the rule matches the SPELLING `true`: a variable of that name is rewritten as well *)
Theorem switch_true_shadowed_refuted :
  exists en s s', env_ok en /\ switch_true_rewrite s = Some s' /\
    observe (exec en s []) <> observe (exec en s' []).
Proof.
  exists (env_of [("true", VBool false); ("a", VInt 0)] []),
    (SSwitch (Some (EIdent "true" TBool))
       [(EBinary OEq (EIdent "a" TInt) (ELit LInt "1" TInt), SAssign (LVar "b" TInt) (ELit LInt "1" TInt))]
       (SAssign (LVar "b" TInt) (ELit LInt "3" TInt))).
  eexists. split; [apply env_of_ok|]. split; [reflexivity|]. vm_compute. discriminate.
Qed.

(* valSwap as decided by the rule (both operands Pure): refuted *)
Theorem val_swap_rule_refuted :
  exists en s1 s2 s3 s', env_ok en /\ val_swap_rewrite s1 s2 s3 = Some s' /\
    observe (exec en (SSeq s1 (SSeq s2 s3)) []) <> observe (exec en s' []).
Proof.
  exists (env_of [("xs", VInts [2; 7; 9]%Z); ("b", VInt 0)] []),
    (SDefine "tmp" TInt (EIdent "b" TInt)),
    (SAssign (LVar "b" TInt) (EIndex (EIdent "xs" TInts) (EIdent "b" TInt))),
    (SAssign (LIdx "xs" (EIdent "b" TInt)) (EIdent "tmp" TInt)).
  eexists. split; [apply env_of_ok|]. split; [reflexivity|]. vm_compute. discriminate.
Qed.


(* valSwap on two distinct plain variables of one type, with a temporary that is neither: both forms succeed without
   events and leave every variable except the temporary with the same value (the swapped ones exchanged) *)
Lemma vars_upd_same en x t v : vars (upd_var en x t v) x t = v.
Proof. simpl. rewrite String.eqb_refl, ty_eqb_refl. reflexivity. Qed.
Lemma vars_upd_other en x t v z u : (z <> x \/ u <> t) -> vars (upd_var en x t v) z u = vars en z u.
Proof.
  intros H. simpl. destruct (String.eqb z x) eqn:E1; [|reflexivity]. destruct (ty_eqb u t) eqn:E2; [|reflexivity].
  apply String.eqb_eq in E1. apply ty_eqb_eq in E2. destruct H; contradiction.
Qed.
Lemma upd_var_ok en x t v : env_ok en -> vty v = t -> env_ok (upd_var en x t v).
Proof.
  intros [Hv Hf] T. split; [|exact Hf]. intros z u. unfold has_type. simpl.
  destruct (String.eqb z x && ty_eqb u t) eqn:E; [|apply Hv].
  apply andb_true_iff in E as [_ E]. apply ty_eqb_eq in E. congruence.
Qed.

Theorem val_swap_vars_preserves_partial en x y t tmp h :
  env_ok en -> x <> y -> tmp <> x -> tmp <> y ->
  exists en1 en2,
    exec en (val_swap_lhs tmp t (LVar x t) (LVar y t)) h = Some (RVal en1, h) /\
    exec en (val_swap_rhs (LVar x t) (LVar y t)) h = Some (RVal en2, h) /\
    (forall z u, (z <> tmp \/ u <> t) -> vars en1 z u = vars en2 z u) /\
    vars en2 x t = vars en y t /\ vars en2 y t = vars en x t.
Proof.
  intros Hen Nxy Ntx Nty.
  set (vx := vars en x t). set (vy := vars en y t).
  assert (Tx : vty vx = t) by apply Hen. assert (Ty : vty vy = t) by apply Hen.
  exists (upd_var (upd_var (upd_var en tmp t vy) y t vx) x t vy), (upd_var (upd_var en y t vx) x t vy).
  split; [|split; [|split; [|split]]].
  - unfold val_swap_lhs. cbn [exec lval_expr evalS].
    fold vy. rewrite Ty, ty_eqb_refl.
    cbn [exec eval_lval evalS].
    rewrite (vars_upd_other en tmp t vy x t) by (left; congruence). fold vx.
    cbn [store_loc]. rewrite Tx, ty_eqb_refl.
    cbn [exec eval_lval evalS].
    rewrite (vars_upd_other _ y t vx tmp t) by (left; exact Nty). rewrite vars_upd_same.
    cbn [store_loc]. rewrite Ty, ty_eqb_refl. reflexivity.
  - unfold val_swap_rhs. cbn [exec eval_lval lval_expr evalS]. fold vx vy.
    cbn [store_loc]. rewrite Tx, ty_eqb_refl. cbn [store_loc]. rewrite Ty, ty_eqb_refl. reflexivity.
  - intros z u Hz.
    destruct (String.eqb z x && ty_eqb u t) eqn:Ex.
    + apply andb_true_iff in Ex as [E1 E2]. apply String.eqb_eq in E1. apply ty_eqb_eq in E2. subst z u.
      rewrite !vars_upd_same. reflexivity.
    + assert (Hx : z <> x \/ u <> t).
      { apply andb_false_iff in Ex as [E|E]; [left; apply String.eqb_neq; exact E|right; intros ->; rewrite ty_eqb_refl in E; discriminate]. }
      rewrite !(vars_upd_other _ x t vy z u Hx).
      destruct (String.eqb z y && ty_eqb u t) eqn:Ey.
      * apply andb_true_iff in Ey as [E1 E2]. apply String.eqb_eq in E1. apply ty_eqb_eq in E2. subst z u.
        rewrite !vars_upd_same. reflexivity.
      * assert (Hy : z <> y \/ u <> t).
        { apply andb_false_iff in Ey as [E|E]; [left; apply String.eqb_neq; exact E|right; intros ->; rewrite ty_eqb_refl in E; discriminate]. }
        rewrite !(vars_upd_other _ y t vx z u Hy). apply vars_upd_other. exact Hz.
  - apply vars_upd_same.
  - rewrite vars_upd_other by (left; congruence). apply vars_upd_same.
Qed.
