(* Properties_C06.v — property C06: checker selection follows the documented
   enable/disable/tag algebra. Statements only; each is closed by [exact]. *)
From GC Require Import Base Model_Select Proofs_Select.
From GCgen Require Import Registry.

(* The CLI (and its byte-identical twin) select exactly what the documented sentence says,
   for every flag value and every validly registered checker. *)
Theorem C06_cli_selection_is_spec : forall reg f c, valid_checker c = true ->
  cli_selected reg f c = spec_selected (cf_all f) (cli_enable_keys reg f) (cli_disable_keys f) c.
Proof. intros reg f c H. exact (filter_selected_spec _ _ _ c H). Qed.
Print Assumptions C06_cli_selection_is_spec.

(* The analyzer applies the same sentence to its (space-trimmed) key lists and its own
   treatment of the "<default>" disable value. *)
Theorem C06_analyzer_selection_is_spec : forall f c, valid_checker c = true ->
  an_selected f c =
  spec_selected (af_all f)
    (split_values (match af_enable f with Some s => s | None => an_default_enable end))
    (split_values (an_disable_arg f)) c.
Proof. intros f c H. exact (filter_selected_spec _ _ _ c H). Qed.
Print Assumptions C06_analyzer_selection_is_spec.

Theorem C06_disable_wins : forall all en dis c, valid_checker c = true ->
  (mem (cname c) dis = true \/ exists t, In t (ctags c) /\ mem ("#" ++ t) dis = true) ->
  filter_selected all en dis c = false.
Proof. exact disable_wins. Qed.
Print Assumptions C06_disable_wins.

(* With no flags the CLI runs exactly the checkers without an opt-in tag. *)
Theorem C06_cli_default_is_no_optin : forall reg c,
  forallb valid_checker reg = true -> NoDup (map cname reg) -> In c reg ->
  cli_selected reg {| cf_all := false; cf_enable := None; cf_disable := None |} c = no_optin c.
Proof. exact cli_default_is_no_optin. Qed.
Print Assumptions C06_cli_default_is_no_optin.

(* ... and so do the analyzer and the documentation marks, for every checker that obeys the
   suite's tag discipline (a category tag, no "security" tag). *)
Theorem C06_analyzer_default_is_no_optin : forall c,
  valid_checker c = true -> suite_tags_ok c = true ->
  an_selected an_default_flags c = no_optin c.
Proof. exact an_default_is_no_optin. Qed.
Print Assumptions C06_analyzer_default_is_no_optin.

Theorem C06_docs_mark_is_no_optin : forall c,
  mem "security" (ctags c) = false -> docs_mark c = no_optin c.
Proof. exact docs_mark_is_no_optin. Qed.
Print Assumptions C06_docs_mark_is_no_optin.

(* Without the tag discipline the three notions of "default" come apart (latent divergence;
   no checker of the current registry is affected, see C06_registry_ok below). *)
Theorem C06_default_security_divergence_refuted :
  an_selected an_default_flags sec_checker = true /\ no_optin sec_checker = false /\ docs_mark sec_checker = true.
Proof. exact an_default_security_diverges. Qed.
Print Assumptions C06_default_security_divergence_refuted.

(* Construction: constructors are called for exactly the selected checkers, in registry order;
   an empty selection is an error. *)
Theorem C06_constructed_exactly_selected : forall ctor_ok reg f,
  (forall c, In c reg -> cli_selected reg f c = true -> ctor_ok c = true) ->
  cli_init ctor_ok reg f =
    match filter (cli_selected reg f) reg with [] => InitErrEmpty | l => InitOk l end.
Proof. exact constructed_exactly_selected. Qed.
Print Assumptions C06_constructed_exactly_selected.

Theorem C06_never_constructs_unselected : forall ctor_ok reg f,
  match cli_init ctor_ok reg f with
  | InitOk l => forall c, In c l -> cli_selected reg f c = true
  | InitErrCtor l c0 => (forall c, In c l -> cli_selected reg f c = true) /\ cli_selected reg f c0 = true
  | InitErrEmpty => True
  end.
Proof. intros. apply never_constructs_unselected_loop. intros c []. Qed.
Print Assumptions C06_never_constructs_unselected.

(* ---- obligations re-proved on every run over the regenerated registry ---- *)
Fixpoint nodupb (l : list string) : bool :=
  match l with [] => true | x :: r => negb (mem x r) && nodupb r end.
Lemma nodupb_NoDup l : nodupb l = true -> NoDup l.
Proof.
  induction l as [|x r IH]; simpl; intros H; constructor.
  - apply andb_true_iff in H as [H _]. apply negb_true_iff in H. apply mem_false_In. exact H.
  - apply IH. apply andb_true_iff in H. tauto.
Qed.

Theorem C06_registry_ok :
  forallb valid_checker registry = true /\ forallb suite_tags_ok registry = true /\ nodupb (map cname registry) = true.
Proof. vm_compute. auto. Qed.
Print Assumptions C06_registry_ok.

Theorem C06_registry_defaults_agree : forall c, In c registry ->
  cli_selected registry {| cf_all := false; cf_enable := None; cf_disable := None |} c = no_optin c
  /\ an_selected an_default_flags c = no_optin c
  /\ docs_mark c = no_optin c.
Proof.
  destruct C06_registry_ok as [Hv [Hs Hn]]. intros c Hin.
  pose proof (proj1 (forallb_forall _ _) Hv c Hin) as Hvc.
  pose proof (proj1 (forallb_forall _ _) Hs c Hin) as Hsc.
  split; [|split].
  - apply cli_default_is_no_optin; auto. apply nodupb_NoDup. exact Hn.
  - apply an_default_is_no_optin; auto.
  - apply docs_mark_is_no_optin. unfold suite_tags_ok in Hsc. apply andb_true_iff in Hsc as [_ H].
    apply negb_true_iff in H. exact H.
Qed.
Print Assumptions C06_registry_defaults_agree.

(* the generated docs/overview.md marks agree with the proved selection rule *)
Definition lookup_tags (n : string) : option checker :=
  find (fun c => String.eqb (cname c) n) registry.
Theorem C06_docs_overview_marks_agree :
  forallb (fun e => match lookup_tags (fst e) with
                    | Some c => Bool.eqb (snd e) (no_optin c)
                    | None => false end) docs_overview_marks = true
  /\ forallb (fun c => mem (cname c) (map fst docs_overview_marks)) registry = true.
Proof. vm_compute. auto. Qed.
Print Assumptions C06_docs_overview_marks_agree.

(* non-vacuity: mixed name/tag/unknown/empty keys on a concrete checker *)
Example C06_example_mixed :
  let c := {| cname := "hugeParam"; ctags := ["performance"] |} in
  valid_checker c = true
  /\ filter_selected false ["unknown"; "#performance"; ""] ["#experimental"; "x"] c = true
  /\ filter_selected true [] ["#performance"] c = false
  /\ filter_selected false ["hugeParam"] ["hugeParam"] c = false.
Proof. vm_compute. auto. Qed.

(* ---- round 5: "identically in the CLI, its twin binary, the analyzer" for the SAME flag texts ----
   Both dialects split at commas and trim every element; the analyzer's "<default>" disable value is its own. *)
Theorem C06_frontends_same_flag_text : forall reg all en dis c,
  String.eqb dis "<default>" = false ->
  cli_selected reg {| cf_all := all; cf_enable := Some en; cf_disable := Some dis |} c
  = an_selected {| af_all := all; af_enable := Some en; af_disable := Some dis |} c.
Proof. exact frontends_same_keys. Qed.
Print Assumptions C06_frontends_same_flag_text.

(* The CLIs before the repair (strings.Split only) agreed with the analyzer on lists without surrounding blanks ... *)
Theorem C06_frontends_same_flag_text_prefix_partial : forall reg all en dis c,
  unpaddedb (split_on comma en) = true -> unpaddedb (split_on comma dis) = true ->
  String.eqb dis "<default>" = false ->
  cli_selected_prefix reg {| cf_all := all; cf_enable := Some en; cf_disable := Some dis |} c
  = an_selected {| af_all := all; af_enable := Some en; af_disable := Some dis |} c.
Proof. exact frontends_same_keys_prefix. Qed.
Print Assumptions C06_frontends_same_flag_text_prefix_partial.

(* ... and not otherwise: `-enable=' dupArg'` selected nothing in the CLI and dupArg in the analyzer. *)
Theorem C06_frontends_padded_prefix_refuted :
  exists reg all en dis c, In c reg /\ valid_checker c = true /\ String.eqb dis "<default>" = false /\
    cli_selected_prefix reg {| cf_all := all; cf_enable := Some en; cf_disable := Some dis |} c
    <> an_selected {| af_all := all; af_enable := Some en; af_disable := Some dis |} c.
Proof. exact frontends_padded_prefix_refuted. Qed.
Print Assumptions C06_frontends_padded_prefix_refuted.

Example C06_example_unpadded :
  unpaddedb (split_on comma "#diagnostic,#style,dupArg,") = true /\ unpaddedb (split_on comma "#style, #performance") = false.
Proof. vm_compute. auto. Qed.
