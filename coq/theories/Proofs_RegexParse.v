(* Proofs_RegexParse.v — C11, text level, whole patterns.
   1. parse_rtoks (toks_of t) = Some (canon t)   for every tree of printable shape (pattern_ok): quantifier operands are
      items, `x?` is not over a quantifier and the lazy marker is, concatenations and alternations are flat and non-empty,
      group openers read back as the same kind of group;
   2. lex_re (rtoks_text ts) = Some ts           under per-token guards with one byte of look-ahead (rtoks_ok);
   3. den (canon t) = den t;
   hence parse_re (print t) = Some (canon t) and the parsed text elaborates exactly as the tree does. *)
From GC Require Import Base Model_Regex Model_RegexSimplify Model_RegexText Model_RegexParse Proofs_Regex Proofs_RegexRules Proofs_RegexWalk Proofs_RegexText.
Local Open Scope string_scope.

(* ------------------------------------------------------------------ *)
(* 1. shapes                                                                                               *)

Definition branch_okF (f : sx -> bool) (c : sx) : bool :=
  match c with
  | X OpConcat _ cl => negb (match cl with [] => true | _ => false end) && forallb f cl
  | X OpAlt _ _ => false
  | _ => f c
  end.

Definition body_okF (f : sx -> bool) (b : sx) : bool :=
  match b with
  | X OpAlt _ l => Nat.leb 2 (List.length l) && forallb (branch_okF f) l
  | _ => branch_okF f b
  end.

Fixpoint item_ok (e : sx) {struct e} : bool :=
  match e with
  | X OpChar _ [] => true
  | X OpEscapeChar v _ => sx_eqb e (esc_node OpEscapeChar v)
  | X OpEscapeMeta v _ => sx_eqb e (esc_node OpEscapeMeta v)
  | X OpEscapeOctal v _ => sx_eqb e (esc_node OpEscapeOctal v)
  | X OpEscapeHex v _ => sx_eqb e (esc_node OpEscapeHex v)
  | X OpDot v [] => String.eqb v "."
  | X OpCaret v [] => String.eqb v "^"
  | X OpDollar v [] => String.eqb v "$"
  | X OpCharClass _ _ | X OpNegCharClass _ _ => true
  | X OpStar _ [x] => item_ok x
  | X OpPlus _ [x] | X OpQuestion _ [x] => item_ok x && negb (quant_op (sx_op x))
  | X OpNonGreedy _ [x] => item_ok x && quant_op (sx_op x)
  | X OpRepeat _ [x; X OpString _ []] => item_ok x
  | X OpGroup _ [b] | X OpCapture _ [b] => body_okF item_ok b
  | X OpGroupWithFlags _ [b; X OpString fl []] =>
      body_okF item_ok b &&
      match open_kind ("(?" ++ fl ++ ":") with Some (GFlags fl') => String.eqb fl' fl | _ => false end
  | X OpNamedCapture v [b; X OpString nm []] =>
      body_okF item_ok b &&
      match open_kind (named_open v nm) with
      | Some (GNamed o nm') => String.eqb o (if has_prefix "(?<" v then "(?<" else "(?P<") && String.eqb nm' nm
      | _ => false
      end
  | X OpFlagOnlyGroup v [X OpString fl []] => String.eqb (drop_last (drop 2 v)) fl
  | _ => false
  end.

Definition pattern_ok (t : sx) : bool := body_okF item_ok t.

Definition mkf (k : gkind) (alts items : list sx) : frame := {| f_kind := k; f_alts := alts; f_items := items |}.

Lemma run_app a : forall b st, run (a ++ b) st = match run a st with Some st' => run b st' | None => None end.
Proof. induction a as [|t a IH]; intros b st; simpl; [reflexivity|]. destruct (step t st); [apply IH|reflexivity]. Qed.

Fixpoint catT (l : list sx) : list rtok := match l with [] => [] | x :: r => (toks_of x ++ catT r)%list end.
Fixpoint altT (l : list sx) : list rtok :=
  match l with [] => [] | [x] => toks_of x | x :: r => (toks_of x ++ ROp 124 :: altT r)%list end.
Lemma toks_concat v l : toks_of (X OpConcat v l) = catT l.
Proof. cbn [toks_of]. induction l as [|x r IH]; [reflexivity|]. cbn [catT]. rewrite <- IH. reflexivity. Qed.
Lemma toks_alt v l : toks_of (X OpAlt v l) = altT l.
Proof.
  cbn [toks_of]. induction l as [|x r IH]; [reflexivity|]. destruct r as [|y r]; [reflexivity|].
  change (altT (x :: y :: r)) with (toks_of x ++ ROp 124 :: altT (y :: r))%list. rewrite <- IH. reflexivity.
Qed.

Fixpoint cmap (l : list sx) : list sx := match l with [] => [] | x :: r => canon x :: cmap r end.
Lemma canon_inner o v args : inner_op o = true -> (o = OpConcat -> forall x, args <> [x]) -> o <> OpCharClass -> o <> OpNegCharClass ->
  canon (X o v args) = X o "" (cmap args).
Proof.
  intros Hi Hc H1 H2. assert (E : forall l, (fix go (l : list sx) : list sx := match l with [] => [] | x :: r => canon x :: go r end) l = cmap l).
  { induction l as [|x r IH]; [reflexivity|]. cbn [cmap]. rewrite <- IH. reflexivity. }
  destruct o; try discriminate Hi; try congruence; cbn [canon inner_op]; try (rewrite E; reflexivity).
  destruct args as [|x [|y r]]; [reflexivity|exfalso; exact (Hc eq_refl x eq_refl)|]. cbn [inner_op]. rewrite E. reflexivity.
Qed.

Definition item_run (e : sx) : Prop :=
  forall rest k alts items st,
    run (toks_of e ++ rest) (mkf k alts items :: st) = run rest (mkf k alts (canon e :: items) :: st).

Lemma items_run cl : (forall y, In y cl -> item_run y) ->
  forall rest k alts acc st,
    run (catT cl ++ rest) (mkf k alts acc :: st) = run rest (mkf k alts (rev (cmap cl) ++ acc) :: st).
Proof.
  induction cl as [|x r IH]; intros HP rest k alts acc st; [reflexivity|].
  cbn [catT cmap rev]. rewrite <- app_assoc, (HP x (or_introl eq_refl)), (IH (fun y Hy => HP y (or_intror Hy))).
  rewrite <- app_assoc. reflexivity.
Qed.

(* one branch, from an empty item list: the items it leaves reduce to canon c *)
Lemma branch_run c : (forall y, sx_size y < sx_size c -> item_ok y = true -> item_run y) -> (item_ok c = true -> item_run c) ->
  branch_okF item_ok c = true ->
  exists its, mk_concat its = Some (canon c) /\
    forall rest k alts st, run (toks_of c ++ rest) (mkf k alts [] :: st) = run rest (mkf k alts its :: st).
Proof.
  intros IH IHc H. destruct c as [o v cl].
  assert (Hitem : item_ok (X o v cl) = true -> exists its, mk_concat its = Some (canon (X o v cl)) /\
            forall rest k alts st, run (toks_of (X o v cl) ++ rest) (mkf k alts [] :: st) = run rest (mkf k alts its :: st)).
  { intros Hi. exists [canon (X o v cl)]. split; [reflexivity|]. intros. apply (IHc Hi). }
  destruct o; try (apply Hitem; exact H); try discriminate H.
  (* Concat *)
  cbn [branch_okF] in H. apply andb_true_iff in H as [Hne Hall].
  exists (rev (cmap cl)). split.
  - unfold mk_concat. rewrite rev_involutive. destruct cl as [|x [|y r]]; [discriminate Hne|reflexivity|].
    rewrite canon_inner; [reflexivity|reflexivity|intros _ z E; discriminate E|discriminate|discriminate].
  - intros rest k alts st. rewrite toks_concat, items_run; [rewrite app_nil_r; reflexivity|].
    intros y Hy. apply IH; [rewrite sx_size_X; pose proof (sizes_in y cl Hy); lia|].
    rewrite forallb_forall in Hall. exact (Hall y Hy).
Qed.

Lemma branches_run l : (forall c, In c l -> branch_okF item_ok c = true ->
     exists its, mk_concat its = Some (canon c) /\
       forall rest k alts st, run (toks_of c ++ rest) (mkf k alts [] :: st) = run rest (mkf k alts its :: st)) ->
  forallb (branch_okF item_ok) l = true ->
  forall alts0, 2 <= List.length alts0 + List.length l -> l <> [] ->
  exists its alts', (forall k, close_frame (mkf k alts' its) = Some (X OpAlt "" (rev alts0 ++ cmap l))) /\
    forall rest k st, run (altT l ++ rest) (mkf k alts0 [] :: st) = run rest (mkf k alts' its :: st).
Proof.
  induction l as [|c r IH]; intros HP Hall alts0 Hlen Hne; [congruence|].
  cbn [forallb] in Hall. apply andb_true_iff in Hall as [Hc Hr].
  destruct (HP c (or_introl eq_refl) Hc) as (its & Hmk & Hrun).
  destruct r as [|c2 r].
  - exists its, alts0. split.
    + intros k. unfold close_frame. cbn [f_items f_alts mkf]. rewrite Hmk. cbn [cmap].
      destruct alts0 as [|a0 al]; [simpl in Hlen; lia|]. cbn [rev]. rewrite <- app_assoc. reflexivity.
    + intros rest k st. cbn [altT]. apply Hrun.
  - destruct (IH (fun x Hx => HP x (or_intror Hx)) Hr (canon c :: alts0)) as (its2 & alts2 & Hcl & Hrun2);
      [cbn [List.length] in *; lia|discriminate|].
    exists its2, alts2. split.
    + intros k. rewrite Hcl. cbn [rev cmap]. rewrite <- app_assoc. reflexivity.
    + intros rest k st. change (altT (c :: c2 :: r)) with (toks_of c ++ ROp 124 :: altT (c2 :: r))%list.
      rewrite <- app_assoc, Hrun. cbn [app run step]. cbn [N.eqb Pos.eqb]. cbn [mkf f_items f_kind f_alts]. rewrite Hmk.
      apply Hrun2.
Qed.

Lemma canon_op o v a : o <> OpConcat -> sx_op (canon (X o v a)) = o.
Proof. intros H. destruct o; try congruence; cbn [canon inner_op]; reflexivity. Qed.

Lemma body_run b : (forall y, sx_size y <= sx_size b -> item_ok y = true -> item_run y) ->
  body_okF item_ok b = true ->
  exists its alts', (forall k, close_frame (mkf k alts' its) = Some (canon b)) /\
    forall rest k st, run (toks_of b ++ rest) (mkf k [] [] :: st) = run rest (mkf k alts' its :: st).
Proof.
  intros IH H.
  assert (Hbr : forall c, sx_size c <= sx_size b -> branch_okF item_ok c = true ->
            exists its, mk_concat its = Some (canon c) /\
              forall rest k alts st, run (toks_of c ++ rest) (mkf k alts [] :: st) = run rest (mkf k alts its :: st)).
  { intros c Hc Hok. apply branch_run; [intros y Hy; apply IH; lia|apply IH; lia|exact Hok]. }
  destruct b as [o v l].
  assert (Hnon : branch_okF item_ok (X o v l) = true ->
            exists its alts', (forall k, close_frame (mkf k alts' its) = Some (canon (X o v l))) /\
              forall rest k st, run (toks_of (X o v l) ++ rest) (mkf k [] [] :: st) = run rest (mkf k alts' its :: st)).
  { intros Hb. destruct (Hbr _ (le_n _) Hb) as (its & Hmk & Hrun). exists its, []. split.
    - intros k. unfold close_frame. cbn [mkf f_items f_alts]. rewrite Hmk. reflexivity.
    - intros. apply Hrun. }
  destruct o; try (apply Hnon; exact H).
  (* Alt *)
  cbn [body_okF] in H. apply andb_true_iff in H as [Hlen Hall]. apply Nat.leb_le in Hlen.
  destruct (branches_run l) with (alts0 := @nil sx) as (its & alts' & Hcl & Hrun).
  - intros c Hc Hok. apply Hbr; [rewrite sx_size_X; pose proof (sizes_in c l Hc); lia|exact Hok].
  - exact Hall.
  - simpl. lia.
  - destruct l; [simpl in Hlen; lia|discriminate].
  - exists its, alts'. split.
    + intros k. rewrite Hcl. cbn [rev app]. rewrite canon_inner; [reflexivity|reflexivity|discriminate|discriminate|discriminate].
    + intros rest k st. rewrite toks_alt. apply Hrun.
Qed.

Lemma cmap1 x : cmap [x] = [canon x]. Proof. reflexivity. Qed.

Lemma size_arg1 x o v r : sx_size x < sx_size (X o v (x :: r)).
Proof. rewrite sx_size_X. cbn [sizes]. lia. Qed.

Ltac leaf_run := intros rest k alts items st; cbn [toks_of app run step push_item mkf f_kind f_alts f_items]; reflexivity.

Theorem item_run_all e : item_ok e = true -> item_run e.
Proof.
  induction e as [e IH] using sx_ind_size. intros H. destruct e as [o v args].
  assert (IHle : forall y, In y args -> forall z, sx_size z <= sx_size y -> item_ok z = true -> item_run z).
  { intros y Hy z Hz Hok. apply IH; [rewrite sx_size_X; pose proof (sizes_in y args Hy); lia|exact Hok]. }
  assert (Hgroup : forall b k0 opener cnode, In b args -> body_okF item_ok b = true ->
            open_kind opener = Some k0 -> group_node k0 (canon b) = Some cnode ->
            forall rest k alts items st,
              run ((ROpen opener :: toks_of b ++ [ROp 41]) ++ rest) (mkf k alts items :: st) = run rest (mkf k alts (cnode :: items) :: st)).
  { intros b k0 opener cnode Hb Hok Hopen Hnode rest k alts items st.
    destruct (body_run b (IHle b Hb) Hok) as (its & alts' & Hcl & Hrun).
    cbn [app run step]. rewrite Hopen. rewrite <- app_assoc. change (mkf ?a ?b0 ?c) with (mkf a b0 c).
    change {| f_kind := k0; f_alts := []; f_items := [] |} with (mkf k0 [] []). rewrite Hrun.
    cbn [app run step]. cbn [N.eqb Pos.eqb]. rewrite Hcl. cbn [mkf f_kind]. rewrite Hnode. reflexivity. }
  destruct o; try discriminate H.
  - (* Dot *) destruct args; [|discriminate H]. cbn [item_ok] in H. apply String.eqb_eq in H. subst v. leaf_run.
  - (* Star *) destruct args as [|x [|? ?]]; try discriminate H. cbn [item_ok] in H.
    intros rest k alts items st. cbn [toks_of]. rewrite <- app_assoc, (IH x (size_arg1 _ _ _ _) H).
    cbn [app run step]. cbn [N.eqb Pos.eqb postfix mkf f_items f_kind f_alts].
    rewrite canon_inner; [reflexivity|reflexivity|discriminate|discriminate|discriminate].
  - (* Plus *) destruct args as [|x [|? ?]]; try discriminate H. cbn [item_ok] in H. apply andb_true_iff in H as [H Hq].
    apply negb_true_iff in Hq. destruct x as [xo xv xa].
    assert (Hx : xo <> OpConcat) by (intros ->; discriminate H).
    intros rest k alts items st. cbn [toks_of]. rewrite <- app_assoc, (IH _ (size_arg1 _ _ _ _) H).
    cbn [app run step]. cbn [N.eqb Pos.eqb postfix mkf f_items f_kind f_alts]. rewrite (canon_op xo xv xa Hx). cbn [sx_op] in Hq. rewrite Hq.
    rewrite (canon_inner OpPlus); [reflexivity|reflexivity|discriminate|discriminate|discriminate].
  - (* Question *) destruct args as [|x [|? ?]]; try discriminate H. cbn [item_ok] in H. apply andb_true_iff in H as [H Hq].
    apply negb_true_iff in Hq. destruct x as [xo xv xa].
    assert (Hx : xo <> OpConcat) by (intros ->; discriminate H).
    intros rest k alts items st. cbn [toks_of]. rewrite <- app_assoc, (IH _ (size_arg1 _ _ _ _) H).
    cbn [app run step]. cbn [N.eqb Pos.eqb postfix mkf f_items f_kind f_alts]. rewrite (canon_op xo xv xa Hx). cbn [sx_op] in Hq. rewrite Hq.
    rewrite (canon_inner OpQuestion); [reflexivity|reflexivity|discriminate|discriminate|discriminate].
  - (* NonGreedy *) destruct args as [|x [|? ?]]; try discriminate H. cbn [item_ok] in H. apply andb_true_iff in H as [H Hq].
    destruct x as [xo xv xa].
    assert (Hx : xo <> OpConcat) by (intros ->; discriminate H).
    intros rest k alts items st. cbn [toks_of]. rewrite <- app_assoc, (IH _ (size_arg1 _ _ _ _) H).
    cbn [app run step]. cbn [N.eqb Pos.eqb postfix mkf f_items f_kind f_alts]. rewrite (canon_op xo xv xa Hx). cbn [sx_op] in Hq. rewrite Hq.
    rewrite (canon_inner OpNonGreedy); [reflexivity|reflexivity|discriminate|discriminate|discriminate].
  - (* Caret *) destruct args; [|discriminate H]. cbn [item_ok] in H. apply String.eqb_eq in H. subst v. leaf_run.
  - (* Dollar *) destruct args; [|discriminate H]. cbn [item_ok] in H. apply String.eqb_eq in H. subst v. leaf_run.
  - (* Char *) destruct args; [|discriminate H]. leaf_run.
  - (* EscapeChar *) cbn [item_ok] in H. apply sx_eqb_eq in H. intros rest k alts items st.
    cbn [toks_of app run step push_item mkf f_kind f_alts f_items canon inner_op]. rewrite <- H. reflexivity.
  - (* EscapeMeta *) cbn [item_ok] in H. apply sx_eqb_eq in H. intros rest k alts items st.
    cbn [toks_of app run step push_item mkf f_kind f_alts f_items canon inner_op]. rewrite <- H. reflexivity.
  - (* EscapeOctal *) cbn [item_ok] in H. apply sx_eqb_eq in H. intros rest k alts items st.
    cbn [toks_of app run step push_item mkf f_kind f_alts f_items canon inner_op]. rewrite <- H. reflexivity.
  - (* EscapeHex *) cbn [item_ok] in H. apply sx_eqb_eq in H. intros rest k alts items st.
    cbn [toks_of app run step push_item mkf f_kind f_alts f_items canon inner_op]. rewrite <- H. reflexivity.
  - (* CharClass *) leaf_run.
  - (* NegCharClass *) leaf_run.
  - (* Repeat *) destruct args as [|x [|[[] rv []] [|? ?]]]; try discriminate H. cbn [item_ok] in H.
    intros rest k alts items st. cbn [toks_of sx_val]. rewrite <- app_assoc, (IH x (size_arg1 _ _ _ _) H).
    cbn [app run step]. cbn [postfix mkf f_items f_kind f_alts].
    rewrite (canon_inner OpRepeat); [reflexivity|reflexivity|discriminate|discriminate|discriminate].
  - (* Capture *) destruct args as [|b [|? ?]]; try discriminate H. cbn [item_ok] in H.
    intros rest k alts items st. cbn [toks_of].
    rewrite (Hgroup b GCap "(" (X OpCapture "" [canon b]) (or_introl eq_refl) H eq_refl eq_refl).
    rewrite (canon_inner OpCapture); [reflexivity|reflexivity|discriminate|discriminate|discriminate].
  - (* NamedCapture *) destruct args as [|b [|[[] nm []] [|? ?]]]; try discriminate H. cbn [item_ok] in H.
    apply andb_true_iff in H as [H Hk]. destruct (open_kind (named_open v nm)) as [[| | |?|o nm']|] eqn:Eo; try discriminate Hk.
    apply andb_true_iff in Hk as [E1 E2]. apply String.eqb_eq in E1. apply String.eqb_eq in E2. subst o nm'.
    intros rest k alts items st. cbn [toks_of sx_val].
    rewrite (Hgroup b _ _ _ (or_introl eq_refl) H Eo eq_refl). reflexivity.
  - (* Group *) destruct args as [|b [|? ?]]; try discriminate H. cbn [item_ok] in H.
    intros rest k alts items st. cbn [toks_of].
    rewrite (Hgroup b GNon "(?:" (X OpGroup "" [canon b]) (or_introl eq_refl) H eq_refl eq_refl).
    rewrite (canon_inner OpGroup); [reflexivity|reflexivity|discriminate|discriminate|discriminate].
  - (* GroupWithFlags *) destruct args as [|b [|[[] fl []] [|? ?]]]; try discriminate H. cbn [item_ok] in H.
    apply andb_true_iff in H as [H Hk]. destruct (open_kind ("(?" ++ fl ++ ":")) as [[| | |fl'|? ?]|] eqn:Eo; try discriminate Hk.
    apply String.eqb_eq in Hk. subst fl'.
    intros rest k alts items st. cbn [toks_of sx_val].
    rewrite (Hgroup b _ _ _ (or_introl eq_refl) H Eo eq_refl).
    rewrite (canon_inner OpGroupWithFlags); [reflexivity|reflexivity|discriminate|discriminate|discriminate].
  - (* FlagOnlyGroup *) destruct args as [|[[] fl []] [|? ?]]; try discriminate H. cbn [item_ok] in H. apply String.eqb_eq in H.
    intros rest k alts items st. cbn [toks_of sx_val app run step push_item mkf f_kind f_alts f_items]. rewrite H.
    rewrite (canon_inner OpFlagOnlyGroup); [reflexivity|reflexivity|discriminate|discriminate|discriminate].
Qed.

(* 1. tokens of a tree of printable shape are parsed back to the tree, up to canon *)
Theorem parse_toks_roundtrip t : pattern_ok t = true -> parse_rtoks (toks_of t) = Some (canon t).
Proof.
  intros H. destruct (body_run t (fun y _ Hy => item_run_all y Hy) H) as (its & alts' & Hcl & Hrun).
  unfold parse_rtoks. specialize (Hrun [] GTop []). rewrite app_nil_r in Hrun. unfold top_frame.
  change {| f_kind := GTop; f_alts := []; f_items := [] |} with (mkf GTop [] []). rewrite Hrun. cbn [run mkf f_kind].
  apply Hcl.
Qed.

(* ------------------------------------------------------------------ *)
(* 2. text -> tokens                                                                                       *)

Lemma span_digits_app s : forall d c r t, span_digits s = (d, String c r) -> span_digits (s ++ t) = (d, String c r ++ t).
Proof.
  induction s as [|a s IH]; intros d c r t H; [discriminate H|]. cbn [span_digits] in H. cbn [append span_digits].
  destruct (is_dig (b_of a)).
  - destruct (span_digits s) as [d' r'] eqn:E. inversion H; subst. rewrite (IH d' c r t eq_refl). reflexivity.
  - inversion H; subst. reflexivity.
Qed.

(* a repeat token lexes the same whatever follows it *)
Lemma lex_repeat_app body tail : lex_repeat body = Some (body, "") -> lex_repeat (body ++ tail) = Some (body, tail).
Proof.
  unfold lex_repeat. destruct (span_digits body) as [d1 r1] eqn:E1.
  destruct d1 as [|x d1]; [discriminate|]. destruct r1 as [|a r2]; [discriminate|].
  rewrite (span_digits_app body _ a r2 tail E1). cbn [append].
  destruct (b_of a =? 125)%N.
  - intros H. inversion H as [[H1 H2]]. subst r2. rewrite H1. reflexivity.
  - destruct (b_of a =? 44)%N; [|discriminate].
    destruct (span_digits r2) as [d2 r3] eqn:E2. destruct r3 as [|c r4]; [discriminate|].
    rewrite (span_digits_app r2 _ c r4 tail E2). cbn [append]. destruct (b_of c =? 125)%N; [|discriminate].
    intros H. inversion H as [[H1 H2]]. subst r4. rewrite H1. reflexivity.
Qed.

Lemma span_p_app p x : forall c t, forallb (fun a => p (b_of a)) (list_ascii_of_string x) = true -> p (b_of c) = false ->
  span_p p (x ++ String c t) = (x, String c t).
Proof.
  induction x as [|a x IH]; intros c t Hx Hc; cbn [append span_p].
  - rewrite Hc. reflexivity.
  - cbn [list_ascii_of_string forallb] in Hx. apply andb_true_iff in Hx as [Ha Hx]. rewrite Ha, (IH c t Hx Hc). reflexivity.
Qed.

Definition all_bytes (p : N -> bool) (x : string) : bool := forallb (fun a => p (b_of a)) (list_ascii_of_string x).

Lemma split_at_app c x : forall t, all_bytes (fun b => negb (b =? c)%N) x = true ->
  split_at c (x ++ String (ascii_of_N c) t) = Some (x, t) \/ (256 <= c)%N.
Proof.
  intros t H. destruct (N.ltb_spec c 256) as [Hc|Hc]; [left|right; exact Hc].
  induction x as [|a x IH]; cbn [append split_at].
  - unfold b_of. rewrite N_ascii_embedding by exact Hc. rewrite N.eqb_refl. reflexivity.
  - unfold all_bytes in H. cbn [list_ascii_of_string forallb] in H. apply andb_true_iff in H as [Ha Hx]. apply negb_true_iff in Ha.
    rewrite Ha, (IH Hx). reflexivity.
Qed.

(* per-token guards; [next] = first byte of the text that follows (0 at the end) *)
Definition rtok_ok (t : rtok) (next : N) : bool :=
  match t with
  | RLit (TChar (String a w)) =>
      let b := b_of a in
      if (b <? 128)%N then
        match w with EmptyString => true | _ => false end &&
        negb (b =? 92)%N && negb (b =? 91)%N && negb (b =? 40)%N && negb (op_byte b) && (negb (b =? 123)%N || negb (is_dig next))
      else mb_char a w
  | RLit (TEsc o (String bs (String a w))) =>
      let b := b_of a in
      (b_of bs =? 92)%N && (b <? 128)%N &&
      if (b =? 120)%N then                                    (* \xHH   \x{...} *)
        op_eqb o OpEscapeHex &&
        match w with
        | String c (String d EmptyString) => negb (b_of c =? 123)%N && is_hex (b_of d)
        | String c w' =>
            (b_of c =? 123)%N &&
            match w' with
            | EmptyString => false
            | _ => let body := drop_last w' in all_bytes (fun x => negb (x =? 125)%N) body && String.eqb w' (body ++ "}")
            end
        | EmptyString => false
        end
      else if is_oct b then                                   (* \d  \dd  \ddd *)
        op_eqb o OpEscapeOctal &&
        match w with
        | EmptyString => negb (is_oct next)
        | String a2 EmptyString => is_oct (b_of a2) && negb (is_oct next)
        | String a2 (String a3 EmptyString) => is_oct (b_of a2) && is_oct (b_of a3)
        | _ => false
        end
      else
        match w with EmptyString => true | _ => false end &&
        negb ((b =? 112) || (b =? 80) || (b =? 81))%N && op_eqb o (if re_meta b then OpEscapeMeta else OpEscapeChar)
  | RLit (TRepeat (String a body)) =>
      (b_of a =? 123)%N && match lex_repeat body with Some (b', EmptyString) => String.eqb b' body | _ => false end
  | ROp b => op_byte b
  | ROpen v =>
      if String.eqb v "(" then negb (next =? 63)%N
      else match v with
           | String p1 (String p2 r) =>
               (b_of p1 =? 40)%N && (b_of p2 =? 63)%N &&
               match r with
               | String c r' =>
                   if (b_of c =? 80)%N then                                         (* (?P<name> *)
                     match r' with
                     | String lt r'' => (b_of lt =? 60)%N &&
                         let nm := drop_last r'' in all_bytes name_ch nm && String.eqb r'' (nm ++ ">")
                     | EmptyString => false
                     end
                   else let fl := drop_last r in all_bytes flag_char fl && String.eqb r (fl ++ ":")
               | EmptyString => false
               end
           | _ => false
           end
  | RFlagOnly (String p1 (String p2 r)) =>
      (b_of p1 =? 40)%N && (b_of p2 =? 63)%N &&
      let fl := drop_last r in all_bytes flag_char fl && String.eqb r (fl ++ ")")
  | RClass v neg items =>
      let e := X (if neg then OpNegCharClass else OpCharClass) "" items in
      class_guard e && String.eqb v (print e)
  | _ => false
  end.

Fixpoint rtoks_ok (ts : list rtok) : bool :=
  match ts with
  | [] => true
  | t :: r => rtok_ok t (first_b (rtoks_text r)) && rtoks_ok r
  end.

Lemma parse_class_text s o v' items rest : parse_class s = Some (X o v' items, rest) ->
  v' = substring 0 (String.length s - String.length rest) s.
Proof.
  unfold parse_class. destruct (lex_class s) as [[[neg ts] r]|]; [|discriminate]. intros H. inversion H. reflexivity.
Qed.

Lemma class_token_lex (neg : bool) items tail :
  class_guard (X (if neg then OpNegCharClass else OpCharClass) "" items) = true ->
  parse_class (print (X (if neg then OpNegCharClass else OpCharClass) "" items) ++ tail) =
  Some (X (if neg then OpNegCharClass else OpCharClass) (print (X (if neg then OpNegCharClass else OpCharClass) "" items)) items, tail).
Proof.
  intros Hg. unfold class_guard in Hg. destruct (items_toks items) as [toks|] eqn:Et; [|discriminate].
  apply andb_true_iff in Hg as [Hg Hcar]. apply andb_true_iff in Hg as [Hg Hct]. apply andb_true_iff in Hg as [Hne Hio].
  assert (Hne' : toks <> []) by (destruct toks; [discriminate Hne|discriminate]).
  assert (Hc : neg = false -> first_b (toks_text toks) <> 94%N).
  { intros ->. cbn [op_eqb op_id N.eqb Pos.eqb orb] in Hcar. apply negb_true_iff in Hcar. apply N.eqb_neq. exact Hcar. }
  destruct (class_print_parse neg "" items toks tail Hne' Hio Et Hct Hc) as (v' & Hp).
  rewrite Hp. pose proof (parse_class_text _ _ _ _ _ Hp) as Hv. rewrite Hv. do 3 f_equal.
  rewrite slen_app. replace (String.length (print (X (if neg then OpNegCharClass else OpCharClass) "" items)) + String.length tail - String.length tail)%nat
    with (String.length (print (X (if neg then OpNegCharClass else OpCharClass) "" items))) by lia.
  apply substring_app_exact.
Qed.

Lemma op_byte_cases b : op_byte b = true -> b = 46%N \/ b = 94%N \/ b = 36%N \/ b = 42%N \/ b = 43%N \/ b = 63%N \/ b = 124%N \/ b = 41%N.
Proof.
  unfold op_byte. cbn [existsb]. rewrite !orb_true_iff, !N.eqb_eq. intuition discriminate.
Qed.

Lemma is_oct_range b : is_oct b = true -> (48 <= b <= 55)%N.
Proof. unfold is_oct. intros H. apply andb_true_iff in H as [H1 H2]. apply N.leb_le in H1. apply N.leb_le in H2. lia. Qed.

Lemma all_bytes_first p x c t : all_bytes p x = true -> p c = true -> p (first_b (x ++ String (ascii_of_N c) t)) = true \/ (256 <= c)%N.
Proof.
  intros Hx Hc. destruct (N.ltb_spec c 256); [left|right; assumption]. destruct x as [|a x]; cbn [append first_b].
  - unfold b_of. rewrite N_ascii_embedding by assumption. exact Hc.
  - unfold all_bytes in Hx. cbn [list_ascii_of_string forallb] in Hx. apply andb_true_iff in Hx as [Ha _]. exact Ha.
Qed.

Ltac eqb_false b n := let H := fresh in assert (H : (b =? n)%N = false) by (apply N.eqb_neq; lia); rewrite ?H; clear H.

Ltac leb_true := match goal with |- context [Nat.leb ?x ?y] => let L := fresh in assert (L : Nat.leb x y = true) by (apply Nat.leb_le; rewrite ?slen_app; simpl; lia); rewrite L; clear L end.

(* one token, followed by any text whose first byte passes the token's guard *)
Lemma lex_one t tail f ts' : rtok_ok t (first_b tail) = true -> lex_re_f f tail = Some ts' ->
  lex_re_f (S f) (rtok_text t ++ tail) = Some (t :: ts').
Proof.
  intros Hok Hrest. destruct t as [lt|b|v|v|v neg items].
  - destruct lt as [v| |v|o v|v]; try discriminate Hok.
    + (* TChar *) destruct v as [|a w]; [discriminate Hok|]. cbn [rtok_ok] in Hok.
      destruct (b_of a <? 128)%N eqn:H128.
      * destruct w; [|discriminate Hok]. cbn [andb] in Hok.
        apply andb_true_iff in Hok as [Hok Hbr]. apply andb_true_iff in Hok as [Hok Hop]. apply andb_true_iff in Hok as [Hok H40].
        apply andb_true_iff in Hok as [H92 H91]. apply negb_true_iff in H92. apply negb_true_iff in H91. apply negb_true_iff in H40. apply negb_true_iff in Hop.
        assert (G128 : (128 <=? b_of a)%N = false) by (apply N.leb_gt; apply N.ltb_lt; exact H128).
        cbn [rtok_text tok_text append lex_re_f]. rewrite G128, H92.
        destruct (b_of a =? 123)%N eqn:E123.
        -- cbn [negb orb] in Hbr. apply negb_true_iff in Hbr. rewrite (lex_repeat_no_digit tail Hbr), Hrest. reflexivity.
        -- rewrite H91, H40, Hop, Hrest. reflexivity.
      * assert (G128 : (128 <=? b_of a)%N = true) by (apply N.leb_le; apply N.ltb_ge in H128; exact H128).
        cbn [rtok_text tok_text append lex_re_f]. rewrite G128, (utf8_take_exact a w tail Hok), Hrest. reflexivity.
    + (* TEsc *) destruct v as [|bs [|a w]]; try discriminate Hok. cbn [rtok_ok] in Hok.
      apply andb_true_iff in Hok as [Hok Hk]. apply andb_true_iff in Hok as [Ebs H128]. apply N.eqb_eq in Ebs.
      assert (G128 : (128 <=? b_of a)%N = false) by (apply N.leb_gt; apply N.ltb_lt; exact H128).
      cbn [rtok_text tok_text append lex_re_f]. rewrite Ebs. cbn [N.leb N.eqb Pos.eqb N.compare Pos.compare Pos.compare_cont].
      cbn [lex_escape_re]. destruct (b_of a =? 120)%N eqn:Ex.
      * (* hex *) apply andb_true_iff in Hk as [Ho Hw]. apply op_eqb_eq' in Ho. subst o.
        destruct w as [|c w']; [discriminate Hw|].
        destruct w' as [|d w''].
        -- (* one byte after \x{ ... cannot be *) apply andb_true_iff in Hw as [_ Hw]. discriminate Hw.
        -- destruct w'' as [|e w3].
           ++ apply andb_true_iff in Hw as [Hc Hd]. apply negb_true_iff in Hc. cbn [append]. rewrite Hc, Hd, Hrest. reflexivity.
           ++ apply andb_true_iff in Hw as [Hc Hw]. apply andb_true_iff in Hw as [Hbody Heq]. apply String.eqb_eq in Heq.
              remember (String d (String e w3)) as w' eqn:Ew'. remember (drop_last w') as body eqn:Eb.
              assert (E2 : w' ++ tail = body ++ String "}" tail) by (rewrite Heq at 1; rewrite sapp_assoc; reflexivity).
              change (String c w' ++ tail) with (String c (w' ++ tail)). rewrite E2, Hc.
              destruct (split_at_app 125 body tail Hbody) as [Hs|Hs]; [|lia].
              change (String (ascii_of_N 125) tail) with (String "}" tail) in Hs. rewrite Hs, Hrest, <- Heq. reflexivity.
      * destruct (is_oct (b_of a)) eqn:Eo.
        -- (* octal *) apply andb_true_iff in Hk as [Ho Hw]. apply op_eqb_eq' in Ho. subst o.
           pose proof (is_oct_range _ Eo) as Hr. cbn [lex_escape]. rewrite G128. eqb_false (b_of a) 112%N. eqb_false (b_of a) 80%N.
           rewrite Ex. eqb_false (b_of a) 81%N. cbn [orb]. rewrite Eo.
           destruct w as [|a2 [|a3 [|? ?]]]; try discriminate Hw.
           ++ apply negb_true_iff in Hw. cbn [append]. destruct tail as [|t0 tl]; [rewrite Hrest; reflexivity|].
              cbn [first_b] in Hw. rewrite Hw, Hrest. reflexivity.
           ++ apply andb_true_iff in Hw as [H2 Hn]. apply negb_true_iff in Hn. cbn [append]. rewrite H2.
              destruct tail as [|t0 tl]; [rewrite Hrest; reflexivity|]. cbn [first_b] in Hn. rewrite Hn, Hrest. reflexivity.
           ++ apply andb_true_iff in Hw as [H2 H3]. cbn [append]. rewrite H2, H3, Hrest. reflexivity.
        -- (* \c *) apply andb_true_iff in Hk as [Hk Ho]. apply andb_true_iff in Hk as [Hw Hpx]. apply op_eqb_eq' in Ho. subst o.
           destruct w; [|discriminate Hw]. apply negb_true_iff in Hpx. apply orb_false_iff in Hpx as [Hpx HQ]. apply orb_false_iff in Hpx as [Hp HP].
           cbn [append lex_escape]. rewrite G128, Hp, HP, Ex, HQ. cbn [orb]. rewrite Eo, Hrest. reflexivity.
    + (* TRepeat *) destruct v as [|a body]; [discriminate Hok|]. cbn [rtok_ok] in Hok. apply andb_true_iff in Hok as [Ea Hl].
      apply N.eqb_eq in Ea. destruct (lex_repeat body) as [[b' r']|] eqn:El; [|discriminate Hl]. destruct r'; [|discriminate Hl].
      apply String.eqb_eq in Hl. subst b'.
      cbn [rtok_text tok_text append lex_re_f]. rewrite Ea. cbn [N.leb N.eqb Pos.eqb N.compare Pos.compare Pos.compare_cont].
      rewrite (lex_repeat_app body tail El), Hrest. reflexivity.
  - (* ROp *) cbn [rtok_ok] in Hok. cbn [rtok_text append lex_re_f].
    destruct (op_byte_cases b Hok) as [->|[->|[->|[->|[->|[->|[->| ->]]]]]]]; cbn; rewrite Hrest; reflexivity.
  - (* ROpen *) cbn [rtok_ok] in Hok. destruct (String.eqb_spec v "(") as [->|Hv].
    + apply negb_true_iff in Hok. cbn [rtok_text append lex_re_f]. cbn.
      destruct tail as [|q r1]; [cbn; rewrite Hrest; reflexivity|]. cbn [first_b] in Hok. cbn [lex_open]. rewrite Hok. cbn [negb].
      rewrite Nat.leb_refl, Hrest. reflexivity.
    + destruct v as [|p1 [|p2 r]]; try discriminate Hok. apply andb_true_iff in Hok as [Hok Hr]. apply andb_true_iff in Hok as [E1 E2].
      apply N.eqb_eq in E1. apply N.eqb_eq in E2. destruct r as [|c r']; [discriminate Hr|].
      cbn [rtok_text append lex_re_f]. rewrite E1. cbn [N.leb N.eqb Pos.eqb N.compare Pos.compare Pos.compare_cont].
      cbn [lex_open]. rewrite E2. cbn [N.eqb Pos.eqb negb].
      destruct (b_of c =? 80)%N eqn:EP.
      * destruct r' as [|lt r'']; [discriminate Hr|]. apply andb_true_iff in Hr as [Elt Hr]. apply andb_true_iff in Hr as [Hnm Heq].
        apply String.eqb_eq in Heq. cbn [append]. rewrite Elt. rewrite Heq, sapp_assoc. cbn [append].
        rewrite (span_p_app name_ch (drop_last r'') ">" tail Hnm eq_refl). cbn.
        leb_true. rewrite Hrest. rewrite (ascii_of_b p1 _ E1), (ascii_of_b p2 _ E2), (ascii_of_b c _ (proj1 (N.eqb_eq _ _) EP)), (ascii_of_b lt _ (proj1 (N.eqb_eq _ _) Elt)).
        reflexivity.
      * apply andb_true_iff in Hr as [Hfl Heq]. apply String.eqb_eq in Heq.
        set (r := String c r') in *. set (fl := drop_last r) in *.
        assert (Hc60 : (b_of c =? 60)%N = false).
        { assert (Hfc : flag_char (b_of c) = true \/ b_of c = 58%N).
          { destruct fl as [|f0 fl'] eqn:Efl; rewrite Heq in *; unfold r in Heq; cbn [append] in Heq; inversion Heq; subst.
            - right. reflexivity.
            - left. unfold all_bytes in Hfl. cbn [list_ascii_of_string forallb] in Hfl. apply andb_true_iff in Hfl as [Hf _]. exact Hf. }
          destruct Hfc as [Hf|Hf]; [|rewrite Hf; reflexivity].
          unfold flag_char in Hf. rewrite !orb_true_iff, !N.eqb_eq in Hf. apply N.eqb_neq. intuition lia. }
        cbn [append]. fold r. rewrite Hc60.
        assert (Hsp : span_p flag_char (r ++ tail) = (fl, String ":" tail)).
        { rewrite Heq, sapp_assoc. cbn [append]. apply (span_p_app flag_char fl ":" tail Hfl eq_refl). }
        change (String c (r' ++ tail)) with (r ++ tail). rewrite Hsp. cbn.
        leb_true. rewrite Hrest. rewrite (ascii_of_b p1 _ E1), (ascii_of_b p2 _ E2).
        replace (String (ascii_of_N 40) (String (ascii_of_N 63) r)) with (String "(" (String "?" (fl ++ ":"))) by (rewrite <- Heq; reflexivity).
        reflexivity.
  - (* RFlagOnly *) cbn [rtok_ok] in Hok. destruct v as [|p1 [|p2 r]]; try discriminate Hok.
    apply andb_true_iff in Hok as [Hok Hr]. apply andb_true_iff in Hok as [E1 E2]. apply N.eqb_eq in E1. apply N.eqb_eq in E2.
    apply andb_true_iff in Hr as [Hfl Heq]. apply String.eqb_eq in Heq. set (fl := drop_last r) in *.
    cbn [rtok_text append lex_re_f]. rewrite E1. cbn [N.leb N.eqb Pos.eqb N.compare Pos.compare Pos.compare_cont].
    cbn [lex_open]. rewrite E2. cbn [N.eqb Pos.eqb negb].
    destruct r as [|c r'] eqn:Er; [destruct fl; discriminate Heq|]. rewrite <- Er in *.
    assert (Hcs : (b_of c =? 80)%N = false /\ (b_of c =? 60)%N = false).
    { assert (Hfc : flag_char (b_of c) = true \/ b_of c = 41%N).
      { destruct fl as [|f0 fl'] eqn:Efl; rewrite Heq in Er; cbn [append] in Er; inversion Er; subst.
        - right. reflexivity.
        - left. unfold all_bytes in Hfl. cbn [list_ascii_of_string forallb] in Hfl. apply andb_true_iff in Hfl as [Hf _]. exact Hf. }
      destruct Hfc as [Hf|Hf]; [|rewrite Hf; split; reflexivity].
      unfold flag_char in Hf. rewrite !orb_true_iff, !N.eqb_eq in Hf. split; apply N.eqb_neq; intuition lia. }
    destruct Hcs as [H80 H60]. rewrite Er. cbn [append]. rewrite H80, H60. rewrite <- Er.
    assert (Hsp : span_p flag_char (r ++ tail) = (fl, String ")" tail)).
    { rewrite Heq, sapp_assoc. cbn [append]. apply (span_p_app flag_char fl ")" tail Hfl eq_refl). }
    change (String c (r' ++ tail)) with ((String c r') ++ tail). rewrite <- Er, Hsp. cbn.
    leb_true. rewrite Hrest. rewrite (ascii_of_b p1 _ E1), (ascii_of_b p2 _ E2).
    replace (String (ascii_of_N 40) (String (ascii_of_N 63) r)) with (String "(" (String "?" (fl ++ ")"))) by (rewrite <- Heq; reflexivity).
    reflexivity.
  - (* RClass *) cbn [rtok_ok] in Hok. apply andb_true_iff in Hok as [Hg Hv]. apply String.eqb_eq in Hv. subst v.
    pose proof (class_token_lex neg items tail Hg) as Hp.
    cbn [rtok_text]. set (P := print (X (if neg then OpNegCharClass else OpCharClass) "" items)) in *.
    assert (HP : exists r, P = String "[" r).
    { unfold P. rewrite print_class. destruct neg; eexists; reflexivity. }
    destruct HP as (r & HP). rewrite HP in Hp |- *. cbn [append] in Hp |- *. cbn [lex_re_f]. cbn [b_of]. cbn.
    rewrite Hp.
    leb_true.
    rewrite Hrest. destruct neg; reflexivity.
Qed.

Lemma rtok_text_pos t n : rtok_ok t n = true -> (1 <= String.length (rtok_text t))%nat.
Proof.
  destruct t as [lt|b|v|v|v neg items]; cbn [rtok_ok rtok_text].
  - destruct lt as [v| |v|o v|v]; try discriminate; destruct v as [|? ?]; try discriminate; intros _; simpl; lia.
  - intros _. simpl. lia.
  - destruct (String.eqb_spec v "(") as [->|_]; [intros _; simpl; lia|]. destruct v; [discriminate|]. intros _. simpl. lia.
  - destruct v; [discriminate|]. intros _. simpl. lia.
  - intros H. apply andb_true_iff in H as [_ H]. apply String.eqb_eq in H. subst v. rewrite print_class. destruct neg; simpl; lia.
Qed.

(* 2. the text of a guarded token sequence is lexed back to exactly that sequence *)
Theorem lex_re_roundtrip ts : rtoks_ok ts = true -> lex_re (rtoks_text ts) = Some ts.
Proof.
  unfold lex_re.
  assert (G : forall f, (String.length (rtoks_text ts) < f)%nat -> rtoks_ok ts = true -> lex_re_f f (rtoks_text ts) = Some ts).
  { induction ts as [|t r IH]; intros f Hf Hok.
    - destruct f; [inversion Hf|]. reflexivity.
    - cbn [rtoks_ok] in Hok. apply andb_true_iff in Hok as [Ht Hr]. destruct f as [|f]; [inversion Hf|].
      cbn [rtoks_text] in Hf |- *. rewrite slen_app in Hf. pose proof (rtok_text_pos t _ Ht).
      apply lex_one; [exact Ht|]. apply IH; [lia|exact Hr]. }
  intros Hok. apply (G (S (String.length (rtoks_text ts)))); [lia|exact Hok].
Qed.


(* ------------------------------------------------------------------ *)
(* 2b. the tokens of a tree spell its print — for EVERY tree                                               *)

Lemma rtoks_text_app a b : rtoks_text (a ++ b) = rtoks_text a ++ rtoks_text b.
Proof. induction a as [|t a IH]; simpl; [reflexivity|]. rewrite IH, sapp_assoc. reflexivity. Qed.

Fixpoint plS (l : list sx) : string := match l with [] => "" | x :: r => print x ++ plS r end.
Fixpoint paS (l : list sx) : string := match l with [] => "" | [x] => print x | x :: r => print x ++ "|" ++ paS r end.
Lemma print_concat_S v l : print (X OpConcat v l) = plS l.
Proof. cbn [print]. induction l as [|x l IH]; [reflexivity|]. cbn [plS]. rewrite <- IH. reflexivity. Qed.
Lemma print_alt_S v l : print (X OpAlt v l) = paS l.
Proof.
  cbn [print]. induction l as [|x l IH]; [reflexivity|]. destruct l as [|y l]; [reflexivity|].
  change (paS (x :: y :: l)) with (print x ++ "|" ++ paS (y :: l)). rewrite <- IH. reflexivity.
Qed.

Ltac tp_dflt := cbn [toks_of rtoks_text rtok_text tok_text print]; apply sapp_nil_r.

Theorem toks_print e : rtoks_text (toks_of e) = print e.
Proof.
  induction e as [e IH] using sx_ind_size. destruct e as [o v args].
  assert (IHin : forall y, In y args -> rtoks_text (toks_of y) = print y).
  { intros y Hy. apply IH. rewrite sx_size_X. pose proof (sizes_in y args Hy). lia. }
  destruct o; try tp_dflt.
  - (* Concat *) rewrite toks_concat, print_concat_S. induction args as [|x r IHr]; [reflexivity|].
    cbn [catT plS]. rewrite rtoks_text_app, (IHin x (or_introl eq_refl)), IHr; [reflexivity| |].
    + intros e' He'. apply IH. rewrite !sx_size_X in *. cbn [sizes]. lia.
    + intros y Hy. apply IHin. right. exact Hy.
  - (* Dot *) cbn [toks_of]. destruct (String.eqb_spec v ".") as [->|_]; reflexivity || (cbn; apply sapp_nil_r).
  - (* Alt *) rewrite toks_alt, print_alt_S. induction args as [|x r IHr]; [reflexivity|].
    destruct r as [|y r].
    + cbn [altT paS]. apply IHin. left. reflexivity.
    + change (altT (x :: y :: r)) with (toks_of x ++ ROp 124 :: altT (y :: r))%list.
      change (paS (x :: y :: r)) with (print x ++ "|" ++ paS (y :: r)).
      rewrite rtoks_text_app, (IHin x (or_introl eq_refl)). cbn [rtoks_text rtok_text]. rewrite IHr; [reflexivity| |].
      * intros e' He'. apply IH. rewrite !sx_size_X in *. cbn [sizes] in *. lia.
      * intros z Hz. apply IHin. right. exact Hz.
  - (* Star *) destruct args as [|x [|? ?]]; try tp_dflt. cbn [toks_of print]. rewrite rtoks_text_app, (IHin x (or_introl eq_refl)). reflexivity.
  - (* Plus *) destruct args as [|x [|? ?]]; try tp_dflt. cbn [toks_of print]. rewrite rtoks_text_app, (IHin x (or_introl eq_refl)). reflexivity.
  - (* Question *) destruct args as [|x [|? ?]]; try tp_dflt. cbn [toks_of print]. rewrite rtoks_text_app, (IHin x (or_introl eq_refl)). reflexivity.
  - (* NonGreedy *) destruct args as [|x [|? ?]]; try tp_dflt. cbn [toks_of print]. rewrite rtoks_text_app, (IHin x (or_introl eq_refl)). reflexivity.
  - (* Caret *) cbn [toks_of]. destruct (String.eqb_spec v "^") as [->|_]; reflexivity || (cbn; apply sapp_nil_r).
  - (* Dollar *) cbn [toks_of]. destruct (String.eqb_spec v "$") as [->|_]; reflexivity || (cbn; apply sapp_nil_r).
  - (* Repeat *) destruct args as [|x [|r [|? ?]]]; try tp_dflt. cbn [toks_of print]. rewrite rtoks_text_app, (IHin x (or_introl eq_refl)).
    cbn [rtoks_text rtok_text tok_text]. rewrite sapp_nil_r. reflexivity.
  - (* Capture *) destruct args as [|x [|? ?]]; try tp_dflt. cbn [toks_of print rtoks_text rtok_text]. rewrite rtoks_text_app, (IHin x (or_introl eq_refl)). reflexivity.
  - (* NamedCapture *) destruct args as [|x [|nm [|? ?]]]; try tp_dflt. cbn [toks_of print rtoks_text rtok_text]. rewrite rtoks_text_app, (IHin x (or_introl eq_refl)).
    unfold named_open. cbn [rtoks_text rtok_text]. rewrite !sapp_assoc. reflexivity.
  - (* Group *) destruct args as [|x [|? ?]]; try tp_dflt. cbn [toks_of print rtoks_text rtok_text]. rewrite rtoks_text_app, (IHin x (or_introl eq_refl)). reflexivity.
  - (* GroupWithFlags *) destruct args as [|x [|fl [|? ?]]]; try tp_dflt. cbn [toks_of print rtoks_text rtok_text]. rewrite rtoks_text_app, (IHin x (or_introl eq_refl)).
    cbn [rtoks_text rtok_text]. rewrite !sapp_assoc. reflexivity.
Qed.


(* ------------------------------------------------------------------ *)
(* 2c. canon does not change the elaboration — for every tree of printable shape                            *)

Definition den_same (e : sx) : Prop := forall st, den (canon e) st = den e st.

Lemma denL_cmap cl : (forall y, In y cl -> den_same y) -> forall st, denL (cmap cl) st = denL cl st.
Proof.
  induction cl as [|x r IH]; intros HP st; [reflexivity|]. cbn [cmap denL]. rewrite (HP x (or_introl eq_refl) st).
  destruct (den x st) as [[x' st1]|]; [|reflexivity]. rewrite (IH (fun y Hy => HP y (or_intror Hy)) st1). reflexivity.
Qed.

Lemma branch_den c : (forall y, sx_size y < sx_size c -> item_ok y = true -> den_same y) -> (item_ok c = true -> den_same c) ->
  branch_okF item_ok c = true -> den_same c.
Proof.
  intros IH IHc H. destruct c as [o v cl]. destruct o; try (apply IHc; exact H); try discriminate H.
  cbn [branch_okF] in H. apply andb_true_iff in H as [Hne Hall].
  assert (HP : forall y, In y cl -> den_same y).
  { intros y Hy. apply IH; [rewrite sx_size_X; pose proof (sizes_in y cl Hy); lia|]. rewrite forallb_forall in Hall. exact (Hall y Hy). }
  intros st. destruct cl as [|x [|y r]]; [discriminate Hne| |].
  - cbn [canon]. rewrite (HP x (or_introl eq_refl) st), den_concat. cbn [denL]. destruct (den x st) as [[x' st1]|]; reflexivity.
  - rewrite canon_inner; [|reflexivity|intros _ z E; discriminate E|discriminate|discriminate].
    rewrite !den_concat, (denL_cmap _ HP st). reflexivity.
Qed.

Lemma body_den b : (forall y, sx_size y <= sx_size b -> item_ok y = true -> den_same y) -> body_okF item_ok b = true -> den_same b.
Proof.
  intros IH H.
  assert (Hbr : forall c, sx_size c <= sx_size b -> branch_okF item_ok c = true -> den_same c).
  { intros c Hc Hok. apply branch_den; [intros y Hy; apply IH; lia|apply IH; lia|exact Hok]. }
  destruct b as [o v l]. destruct o; try (apply Hbr; [lia|exact H]).
  cbn [body_okF] in H. apply andb_true_iff in H as [_ Hall]. intros st.
  rewrite canon_inner; [|reflexivity|discriminate|discriminate|discriminate].
  rewrite !den_alt, (denL_cmap l); [reflexivity|].
  intros y Hy. apply Hbr; [rewrite sx_size_X; pose proof (sizes_in y l Hy); lia|]. rewrite forallb_forall in Hall. exact (Hall y Hy).
Qed.

Lemma item_not_concat e : item_ok e = true -> sx_op e <> OpConcat.
Proof. destruct e as [o v a]. intros H E. cbn [sx_op] in E. subst o. discriminate H. Qed.

Lemma canon_op' e : item_ok e = true -> sx_op (canon e) = sx_op e.
Proof. intros H. destruct e as [o v a]. apply canon_op. exact (item_not_concat _ H). Qed.

Lemma canon_string v : canon (X OpString v []) = X OpString v []. Proof. reflexivity. Qed.

Theorem item_den_all e : item_ok e = true -> den_same e.
Proof.
  induction e as [e IH] using sx_ind_size. intros H. destruct e as [o v args].
  assert (Hbody : forall b, In b args -> body_okF item_ok b = true -> den_same b).
  { intros b Hb Hok. apply body_den; [|exact Hok]. intros y Hy Hi. apply IH; [rewrite sx_size_X; pose proof (sizes_in b args Hb); lia|exact Hi]. }
  intros st. destruct o; try discriminate H; try reflexivity.
  - (* Star *) destruct args as [|x [|? ?]]; try discriminate H. cbn [item_ok] in H.
    rewrite canon_inner; [|reflexivity|discriminate|discriminate|discriminate]. cbn [cmap den sx_op].
    rewrite (canon_op' x H), (IH x (size_arg1 _ _ _ _) H st). reflexivity.
  - (* Plus *) destruct args as [|x [|? ?]]; try discriminate H. cbn [item_ok] in H. apply andb_true_iff in H as [H _].
    rewrite canon_inner; [|reflexivity|discriminate|discriminate|discriminate]. cbn [cmap den sx_op].
    rewrite (canon_op' x H), (IH x (size_arg1 _ _ _ _) H st). reflexivity.
  - (* Question *) destruct args as [|x [|? ?]]; try discriminate H. cbn [item_ok] in H. apply andb_true_iff in H as [H _].
    rewrite canon_inner; [|reflexivity|discriminate|discriminate|discriminate]. cbn [cmap den sx_op].
    rewrite (canon_op' x H), (IH x (size_arg1 _ _ _ _) H st). reflexivity.
  - (* NonGreedy *) destruct args as [|q [|? ?]]; try discriminate H. cbn [item_ok] in H. apply andb_true_iff in H as [H Hq].
    rewrite canon_inner; [|reflexivity|discriminate|discriminate|discriminate]. cbn [cmap].
    destruct q as [qo qv qa]. cbn [sx_op] in Hq.
    assert (IHq : forall y, In y qa -> item_ok y = true -> den_same y).
    { intros y Hy Hi. apply IH; [|exact Hi]. rewrite !sx_size_X. cbn [sizes]. rewrite sx_size_X. pose proof (sizes_in y qa Hy). lia. }
    destruct qo; try discriminate Hq.
    + destruct qa as [|x [|? ?]]; try discriminate H. cbn [item_ok] in H.
      rewrite (canon_inner OpStar); [|reflexivity|discriminate|discriminate|discriminate]. cbn [cmap den sx_op is_quant andb rep_text].
      rewrite (canon_op' x H), (IHq x (or_introl eq_refl) H st). reflexivity.
    + destruct qa as [|x [|? ?]]; try discriminate H. cbn [item_ok] in H. apply andb_true_iff in H as [H _].
      rewrite (canon_inner OpPlus); [|reflexivity|discriminate|discriminate|discriminate]. cbn [cmap den sx_op is_quant andb rep_text].
      rewrite (canon_op' x H), (IHq x (or_introl eq_refl) H st). reflexivity.
    + destruct qa as [|x [|? ?]]; try discriminate H. cbn [item_ok] in H. apply andb_true_iff in H as [H _].
      rewrite (canon_inner OpQuestion); [|reflexivity|discriminate|discriminate|discriminate]. cbn [cmap den sx_op is_quant andb rep_text].
      rewrite (canon_op' x H), (IHq x (or_introl eq_refl) H st). reflexivity.
    + destruct qa as [|x [|[[] rv []] [|? ?]]]; try discriminate H. cbn [item_ok] in H.
      rewrite (canon_inner OpRepeat); [|reflexivity|discriminate|discriminate|discriminate]. cbn [cmap]. rewrite canon_string.
      cbn [den sx_op is_quant andb rep_text sx_val].
      rewrite (canon_op' x H), (IHq x (or_introl eq_refl) H st). reflexivity.
  - (* Repeat *) destruct args as [|x [|[[] rv []] [|? ?]]]; try discriminate H. cbn [item_ok] in H.
    rewrite canon_inner; [|reflexivity|discriminate|discriminate|discriminate]. cbn [cmap]. rewrite canon_string. cbn [den sx_op sx_val].
    rewrite (canon_op' x H), (IH x (size_arg1 _ _ _ _) H st). reflexivity.
  - (* Capture *) destruct args as [|b [|? ?]]; try discriminate H. cbn [item_ok] in H.
    rewrite canon_inner; [|reflexivity|discriminate|discriminate|discriminate]. cbn [cmap den].
    rewrite (Hbody b (or_introl eq_refl) H). reflexivity.
  - (* NamedCapture *) destruct args as [|b [|[[] nm []] [|? ?]]]; try discriminate H. cbn [item_ok] in H. apply andb_true_iff in H as [H _].
    cbn [canon inner_op]. cbn [den sx_val]. rewrite (Hbody b (or_introl eq_refl) H). reflexivity.
  - (* Group *) destruct args as [|b [|? ?]]; try discriminate H. cbn [item_ok] in H.
    rewrite canon_inner; [|reflexivity|discriminate|discriminate|discriminate]. cbn [cmap den].
    rewrite (Hbody b (or_introl eq_refl) H). reflexivity.
  - (* GroupWithFlags *) destruct args as [|b [|[[] fl []] [|? ?]]]; try discriminate H. cbn [item_ok] in H. apply andb_true_iff in H as [H _].
    rewrite canon_inner; [|reflexivity|discriminate|discriminate|discriminate]. cbn [cmap]. rewrite canon_string. cbn [den sx_val].
    destruct (apply_flags fl true (d_fl st)); [|reflexivity]. rewrite (Hbody b (or_introl eq_refl) H). reflexivity.
  - (* FlagOnlyGroup *) destruct args as [|[[] fl []] [|? ?]]; try discriminate H. reflexivity.
Qed.

Theorem den_canon t : pattern_ok t = true -> forall st, den (canon t) st = den t st.
Proof. intros H. apply body_den; [|exact H]. intros y _ Hy. apply item_den_all. exact Hy. Qed.

(* ------------------------------------------------------------------ *)
(* 3. print-then-parse for whole patterns, and the printed rewrite                                         *)

(* the text a tree prints as is parsed back, by the model of the checker's parser, to the tree up to canon *)
Theorem text_roundtrip t :
  pattern_ok t = true -> rtoks_ok (toks_of t) = true -> parse_re (print t) = Some (canon t).
Proof.
  intros Hs Ht. unfold parse_re. rewrite <- (toks_print t), (lex_re_roundtrip _ Ht). apply parse_toks_roundtrip. exact Hs.
Qed.

From GC Require Import Proofs_RegexSimplify Proofs_RegexWalkS.

(* Text guards on a whole tree: exactly the guards of the two round-trip theorems (shape; tokens with one byte of look-ahead) *)
Definition tree_text_ok (t : sx) : bool := pattern_ok t && rtoks_ok (toks_of t).

(* THE PRINTED REWRITE: under the tree-level guards (final_ok: every pass starts in the fragment, passes are linked) and
   the text-level guards on the final tree, the TEXT the checker prints, lexed and parsed by the model of its own
   parser, elaborates to an expression equivalent to the original pattern on all subjects, with the same groups. *)
Theorem printed_rewrite_sound pat t1 t2f final :
  simplify2 pat t1 t2f = Some final ->
  final_ok t1 (t2f (simplify1 t1)) = true ->
  tree_text_ok (final_tree t1 (t2f (simplify1 t1))) = true ->
  exists p a b n names,
    parse_re final = Some p /\ den_top t1 = Some (a, n, names) /\ den_top p = Some (b, n, names) /\ b ≈ a /\
    forall subject, find_go p subject = find_go t1 subject.
Proof.
  intros Hfin Hok Htxt. set (ft := final_tree t1 (t2f (simplify1 t1))) in *.
  pose proof (final_text pat t1 t2f final Hfin) as Hprint. fold ft in Hprint.
  unfold tree_text_ok in Htxt. apply andb_true_iff in Htxt as [Hshape Htok].
  pose proof (text_roundtrip ft Hshape Htok) as Hparse.
  destruct (final_sound t1 (t2f (simplify1 t1)) Hok) as (a & b & n & names & H1 & H2 & H3 & _ & H5). fold ft in H2, H5.
  assert (Ed : den_top (canon ft) = den_top ft) by (unfold den_top; rewrite (den_canon ft Hshape); reflexivity).
  exists (canon ft), a, b, n, names. rewrite Hprint. split; [exact Hparse|]. split; [exact H1|]. split; [rewrite Ed; exact H2|].
  split; [exact H3|]. intros subject. rewrite <- H5. unfold find_go. rewrite Ed. reflexivity.
Qed.
