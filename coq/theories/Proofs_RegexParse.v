(* Proofs_RegexParse.v — C11, text level, whole patterns.
   1. parse_rtoks (toks_of t) = Some (canon t)   for every tree of printable shape (pattern_ok): quantifier operands are
      items, `x?` is not over a quantifier and the lazy marker is, concatenations and alternations are flat and non-empty,
      group openers read back as the same kind of group;
   2. lex_re (rtoks_text ts) = Some ts           under per-token guards with one byte of look-ahead (rtoks_ok);
   3. den (canon t) = den t;
   hence parse_re (print t) = Some (canon t) and the parsed text elaborates exactly as the tree does. *)
From GC Require Import Base Model_Regex Model_RegexSimplify Model_RegexText Model_RegexParse Proofs_Regex Proofs_RegexRules Proofs_RegexWalk Proofs_RegexText.
Local Open Scope string_scope.

(* ------------------------------------------------------------------ *)
(* 1. shapes                                                                                               *)

Definition branch_okF (f : sx -> bool) (c : sx) : bool :=
  match c with
  | X OpConcat _ cl => negb (match cl with [] => true | _ => false end) && forallb f cl
  | X OpAlt _ _ => false
  | _ => f c
  end.

Definition body_okF (f : sx -> bool) (b : sx) : bool :=
  match b with
  | X OpAlt _ l => Nat.leb 2 (List.length l) && forallb (branch_okF f) l
  | _ => branch_okF f b
  end.

Fixpoint item_ok (e : sx) {struct e} : bool :=
  match e with
  | X OpChar _ [] => true
  | X OpEscapeChar v _ => sx_eqb e (esc_node OpEscapeChar v)
  | X OpEscapeMeta v _ => sx_eqb e (esc_node OpEscapeMeta v)
  | X OpEscapeOctal v _ => sx_eqb e (esc_node OpEscapeOctal v)
  | X OpEscapeHex v _ => sx_eqb e (esc_node OpEscapeHex v)
  | X OpDot v [] => String.eqb v "."
  | X OpCaret v [] => String.eqb v "^"
  | X OpDollar v [] => String.eqb v "$"
  | X OpCharClass _ _ | X OpNegCharClass _ _ => true
  | X OpStar _ [x] => item_ok x
  | X OpPlus _ [x] | X OpQuestion _ [x] => item_ok x && negb (quant_op (sx_op x))
  | X OpNonGreedy _ [x] => item_ok x && quant_op (sx_op x)
  | X OpRepeat _ [x; X OpString _ []] => item_ok x
  | X OpGroup _ [b] | X OpCapture _ [b] => body_okF item_ok b
  | X OpGroupWithFlags _ [b; X OpString fl []] =>
      body_okF item_ok b &&
      match open_kind ("(?" ++ fl ++ ":") with Some (GFlags fl') => String.eqb fl' fl | _ => false end
  | X OpNamedCapture v [b; X OpString nm []] =>
      body_okF item_ok b &&
      match open_kind (named_open v nm) with
      | Some (GNamed o nm') => String.eqb o (if has_prefix "(?<" v then "(?<" else "(?P<") && String.eqb nm' nm
      | _ => false
      end
  | X OpFlagOnlyGroup _ [X OpString fl []] => String.eqb (drop_last (drop 2 ("(?" ++ fl ++ ")"))) fl
  | _ => false
  end.

Definition pattern_ok (t : sx) : bool := body_okF item_ok t.

Definition mkf (k : gkind) (alts items : list sx) : frame := {| f_kind := k; f_alts := alts; f_items := items |}.

Lemma run_app a : forall b st, run (a ++ b) st = match run a st with Some st' => run b st' | None => None end.
Proof. induction a as [|t a IH]; intros b st; simpl; [reflexivity|]. destruct (step t st); [apply IH|reflexivity]. Qed.

Fixpoint catT (l : list sx) : list rtok := match l with [] => [] | x :: r => (toks_of x ++ catT r)%list end.
Fixpoint altT (l : list sx) : list rtok :=
  match l with [] => [] | [x] => toks_of x | x :: r => (toks_of x ++ ROp 124 :: altT r)%list end.
Lemma toks_concat v l : toks_of (X OpConcat v l) = catT l.
Proof. cbn [toks_of]. induction l as [|x r IH]; [reflexivity|]. cbn [catT]. rewrite <- IH. reflexivity. Qed.
Lemma toks_alt v l : toks_of (X OpAlt v l) = altT l.
Proof.
  cbn [toks_of]. induction l as [|x r IH]; [reflexivity|]. destruct r as [|y r]; [reflexivity|].
  change (altT (x :: y :: r)) with (toks_of x ++ ROp 124 :: altT (y :: r))%list. rewrite <- IH. reflexivity.
Qed.

Fixpoint cmap (l : list sx) : list sx := match l with [] => [] | x :: r => canon x :: cmap r end.
Lemma canon_inner o v args : inner_op o = true -> (o = OpConcat -> forall x, args <> [x]) -> o <> OpCharClass -> o <> OpNegCharClass ->
  canon (X o v args) = X o "" (cmap args).
Proof.
  intros Hi Hc H1 H2. assert (E : forall l, (fix go (l : list sx) : list sx := match l with [] => [] | x :: r => canon x :: go r end) l = cmap l).
  { induction l as [|x r IH]; [reflexivity|]. cbn [cmap]. rewrite <- IH. reflexivity. }
  destruct o; try discriminate Hi; try congruence; cbn [canon inner_op]; try (rewrite E; reflexivity).
  destruct args as [|x [|y r]]; [reflexivity|exfalso; exact (Hc eq_refl x eq_refl)|]. cbn [inner_op]. rewrite E. reflexivity.
Qed.

Definition item_run (e : sx) : Prop :=
  forall rest k alts items st,
    run (toks_of e ++ rest) (mkf k alts items :: st) = run rest (mkf k alts (canon e :: items) :: st).

Lemma items_run cl : (forall y, In y cl -> item_run y) ->
  forall rest k alts acc st,
    run (catT cl ++ rest) (mkf k alts acc :: st) = run rest (mkf k alts (rev (cmap cl) ++ acc) :: st).
Proof.
  induction cl as [|x r IH]; intros HP rest k alts acc st; [reflexivity|].
  cbn [catT cmap rev]. rewrite <- app_assoc, (HP x (or_introl eq_refl)), (IH (fun y Hy => HP y (or_intror Hy))).
  rewrite <- app_assoc. reflexivity.
Qed.

(* one branch, from an empty item list: the items it leaves reduce to canon c *)
Lemma branch_run c : (forall y, sx_size y < sx_size c -> item_ok y = true -> item_run y) -> (item_ok c = true -> item_run c) ->
  branch_okF item_ok c = true ->
  exists its, mk_concat its = Some (canon c) /\
    forall rest k alts st, run (toks_of c ++ rest) (mkf k alts [] :: st) = run rest (mkf k alts its :: st).
Proof.
  intros IH IHc H. destruct c as [o v cl].
  assert (Hitem : item_ok (X o v cl) = true -> exists its, mk_concat its = Some (canon (X o v cl)) /\
            forall rest k alts st, run (toks_of (X o v cl) ++ rest) (mkf k alts [] :: st) = run rest (mkf k alts its :: st)).
  { intros Hi. exists [canon (X o v cl)]. split; [reflexivity|]. intros. apply (IHc Hi). }
  destruct o; try (apply Hitem; exact H); try discriminate H.
  (* Concat *)
  cbn [branch_okF] in H. apply andb_true_iff in H as [Hne Hall].
  exists (rev (cmap cl)). split.
  - unfold mk_concat. rewrite rev_involutive. destruct cl as [|x [|y r]]; [discriminate Hne|reflexivity|].
    rewrite canon_inner; [reflexivity|reflexivity|intros _ z E; discriminate E|discriminate|discriminate].
  - intros rest k alts st. rewrite toks_concat, items_run; [rewrite app_nil_r; reflexivity|].
    intros y Hy. apply IH; [rewrite sx_size_X; pose proof (sizes_in y cl Hy); lia|].
    rewrite forallb_forall in Hall. exact (Hall y Hy).
Qed.

Lemma branches_run l : (forall c, In c l -> branch_okF item_ok c = true ->
     exists its, mk_concat its = Some (canon c) /\
       forall rest k alts st, run (toks_of c ++ rest) (mkf k alts [] :: st) = run rest (mkf k alts its :: st)) ->
  forallb (branch_okF item_ok) l = true ->
  forall alts0, 2 <= List.length alts0 + List.length l -> l <> [] ->
  exists its alts', (forall k, close_frame (mkf k alts' its) = Some (X OpAlt "" (rev alts0 ++ cmap l))) /\
    forall rest k st, run (altT l ++ rest) (mkf k alts0 [] :: st) = run rest (mkf k alts' its :: st).
Proof.
  induction l as [|c r IH]; intros HP Hall alts0 Hlen Hne; [congruence|].
  cbn [forallb] in Hall. apply andb_true_iff in Hall as [Hc Hr].
  destruct (HP c (or_introl eq_refl) Hc) as (its & Hmk & Hrun).
  destruct r as [|c2 r].
  - exists its, alts0. split.
    + intros k. unfold close_frame. cbn [f_items f_alts mkf]. rewrite Hmk. cbn [cmap].
      destruct alts0 as [|a0 al]; [simpl in Hlen; lia|]. cbn [rev]. rewrite <- app_assoc. reflexivity.
    + intros rest k st. cbn [altT]. apply Hrun.
  - destruct (IH (fun x Hx => HP x (or_intror Hx)) Hr (canon c :: alts0)) as (its2 & alts2 & Hcl & Hrun2);
      [cbn [List.length] in *; lia|discriminate|].
    exists its2, alts2. split.
    + intros k. rewrite Hcl. cbn [rev cmap]. rewrite <- app_assoc. reflexivity.
    + intros rest k st. change (altT (c :: c2 :: r)) with (toks_of c ++ ROp 124 :: altT (c2 :: r))%list.
      rewrite <- app_assoc, Hrun. cbn [app run step]. cbn [N.eqb Pos.eqb]. cbn [mkf f_items f_kind f_alts]. rewrite Hmk.
      apply Hrun2.
Qed.

Lemma canon_op o v a : o <> OpConcat -> sx_op (canon (X o v a)) = o.
Proof. intros H. destruct o; try congruence; cbn [canon inner_op]; reflexivity. Qed.

Lemma body_run b : (forall y, sx_size y <= sx_size b -> item_ok y = true -> item_run y) ->
  body_okF item_ok b = true ->
  exists its alts', (forall k, close_frame (mkf k alts' its) = Some (canon b)) /\
    forall rest k st, run (toks_of b ++ rest) (mkf k [] [] :: st) = run rest (mkf k alts' its :: st).
Proof.
  intros IH H.
  assert (Hbr : forall c, sx_size c <= sx_size b -> branch_okF item_ok c = true ->
            exists its, mk_concat its = Some (canon c) /\
              forall rest k alts st, run (toks_of c ++ rest) (mkf k alts [] :: st) = run rest (mkf k alts its :: st)).
  { intros c Hc Hok. apply branch_run; [intros y Hy; apply IH; lia|apply IH; lia|exact Hok]. }
  destruct b as [o v l].
  assert (Hnon : branch_okF item_ok (X o v l) = true ->
            exists its alts', (forall k, close_frame (mkf k alts' its) = Some (canon (X o v l))) /\
              forall rest k st, run (toks_of (X o v l) ++ rest) (mkf k [] [] :: st) = run rest (mkf k alts' its :: st)).
  { intros Hb. destruct (Hbr _ (le_n _) Hb) as (its & Hmk & Hrun). exists its, []. split.
    - intros k. unfold close_frame. cbn [mkf f_items f_alts]. rewrite Hmk. reflexivity.
    - intros. apply Hrun. }
  destruct o; try (apply Hnon; exact H).
  (* Alt *)
  cbn [body_okF] in H. apply andb_true_iff in H as [Hlen Hall]. apply Nat.leb_le in Hlen.
  destruct (branches_run l) with (alts0 := @nil sx) as (its & alts' & Hcl & Hrun).
  - intros c Hc Hok. apply Hbr; [rewrite sx_size_X; pose proof (sizes_in c l Hc); lia|exact Hok].
  - exact Hall.
  - simpl. lia.
  - destruct l; [simpl in Hlen; lia|discriminate].
  - exists its, alts'. split.
    + intros k. rewrite Hcl. cbn [rev app]. rewrite canon_inner; [reflexivity|reflexivity|discriminate|discriminate|discriminate].
    + intros rest k st. rewrite toks_alt. apply Hrun.
Qed.

Lemma cmap1 x : cmap [x] = [canon x]. Proof. reflexivity. Qed.

Lemma size_arg1 x o v r : sx_size x < sx_size (X o v (x :: r)).
Proof. rewrite sx_size_X. cbn [sizes]. lia. Qed.

Ltac leaf_run := intros rest k alts items st; cbn [toks_of app run step push_item mkf f_kind f_alts f_items]; reflexivity.

Theorem item_run_all e : item_ok e = true -> item_run e.
Proof.
  induction e as [e IH] using sx_ind_size. intros H. destruct e as [o v args].
  assert (IHle : forall y, In y args -> forall z, sx_size z <= sx_size y -> item_ok z = true -> item_run z).
  { intros y Hy z Hz Hok. apply IH; [rewrite sx_size_X; pose proof (sizes_in y args Hy); lia|exact Hok]. }
  assert (Hgroup : forall b k0 opener cnode, In b args -> body_okF item_ok b = true ->
            open_kind opener = Some k0 -> group_node k0 (canon b) = Some cnode ->
            forall rest k alts items st,
              run ((ROpen opener :: toks_of b ++ [ROp 41]) ++ rest) (mkf k alts items :: st) = run rest (mkf k alts (cnode :: items) :: st)).
  { intros b k0 opener cnode Hb Hok Hopen Hnode rest k alts items st.
    destruct (body_run b (IHle b Hb) Hok) as (its & alts' & Hcl & Hrun).
    cbn [app run step]. rewrite Hopen. rewrite <- app_assoc. change (mkf ?a ?b0 ?c) with (mkf a b0 c).
    change {| f_kind := k0; f_alts := []; f_items := [] |} with (mkf k0 [] []). rewrite Hrun.
    cbn [app run step]. cbn [N.eqb Pos.eqb]. rewrite Hcl. cbn [mkf f_kind]. rewrite Hnode. reflexivity. }
  destruct o; try discriminate H.
  - (* Dot *) destruct args; [|discriminate H]. cbn [item_ok] in H. apply String.eqb_eq in H. subst v. leaf_run.
  - (* Star *) destruct args as [|x [|? ?]]; try discriminate H. cbn [item_ok] in H.
    intros rest k alts items st. cbn [toks_of]. rewrite <- app_assoc, (IH x (size_arg1 _ _ _ _) H).
    cbn [app run step]. cbn [N.eqb Pos.eqb postfix mkf f_items f_kind f_alts].
    rewrite canon_inner; [reflexivity|reflexivity|discriminate|discriminate|discriminate].
  - (* Plus *) destruct args as [|x [|? ?]]; try discriminate H. cbn [item_ok] in H. apply andb_true_iff in H as [H Hq].
    apply negb_true_iff in Hq. destruct x as [xo xv xa].
    assert (Hx : xo <> OpConcat) by (intros ->; discriminate H).
    intros rest k alts items st. cbn [toks_of]. rewrite <- app_assoc, (IH _ (size_arg1 _ _ _ _) H).
    cbn [app run step]. cbn [N.eqb Pos.eqb postfix mkf f_items f_kind f_alts]. rewrite (canon_op xo xv xa Hx). cbn [sx_op] in Hq. rewrite Hq.
    rewrite (canon_inner OpPlus); [reflexivity|reflexivity|discriminate|discriminate|discriminate].
  - (* Question *) destruct args as [|x [|? ?]]; try discriminate H. cbn [item_ok] in H. apply andb_true_iff in H as [H Hq].
    apply negb_true_iff in Hq. destruct x as [xo xv xa].
    assert (Hx : xo <> OpConcat) by (intros ->; discriminate H).
    intros rest k alts items st. cbn [toks_of]. rewrite <- app_assoc, (IH _ (size_arg1 _ _ _ _) H).
    cbn [app run step]. cbn [N.eqb Pos.eqb postfix mkf f_items f_kind f_alts]. rewrite (canon_op xo xv xa Hx). cbn [sx_op] in Hq. rewrite Hq.
    rewrite (canon_inner OpQuestion); [reflexivity|reflexivity|discriminate|discriminate|discriminate].
  - (* NonGreedy *) destruct args as [|x [|? ?]]; try discriminate H. cbn [item_ok] in H. apply andb_true_iff in H as [H Hq].
    destruct x as [xo xv xa].
    assert (Hx : xo <> OpConcat) by (intros ->; discriminate H).
    intros rest k alts items st. cbn [toks_of]. rewrite <- app_assoc, (IH _ (size_arg1 _ _ _ _) H).
    cbn [app run step]. cbn [N.eqb Pos.eqb postfix mkf f_items f_kind f_alts]. rewrite (canon_op xo xv xa Hx). cbn [sx_op] in Hq. rewrite Hq.
    rewrite (canon_inner OpNonGreedy); [reflexivity|reflexivity|discriminate|discriminate|discriminate].
  - (* Caret *) destruct args; [|discriminate H]. cbn [item_ok] in H. apply String.eqb_eq in H. subst v. leaf_run.
  - (* Dollar *) destruct args; [|discriminate H]. cbn [item_ok] in H. apply String.eqb_eq in H. subst v. leaf_run.
  - (* Char *) destruct args; [|discriminate H]. leaf_run.
  - (* EscapeChar *) cbn [item_ok] in H. apply sx_eqb_eq in H. intros rest k alts items st.
    cbn [toks_of app run step push_item mkf f_kind f_alts f_items canon inner_op]. rewrite <- H. reflexivity.
  - (* EscapeMeta *) cbn [item_ok] in H. apply sx_eqb_eq in H. intros rest k alts items st.
    cbn [toks_of app run step push_item mkf f_kind f_alts f_items canon inner_op]. rewrite <- H. reflexivity.
  - (* EscapeOctal *) cbn [item_ok] in H. apply sx_eqb_eq in H. intros rest k alts items st.
    cbn [toks_of app run step push_item mkf f_kind f_alts f_items canon inner_op]. rewrite <- H. reflexivity.
  - (* EscapeHex *) cbn [item_ok] in H. apply sx_eqb_eq in H. intros rest k alts items st.
    cbn [toks_of app run step push_item mkf f_kind f_alts f_items canon inner_op]. rewrite <- H. reflexivity.
  - (* CharClass *) leaf_run.
  - (* NegCharClass *) leaf_run.
  - (* Repeat *) destruct args as [|x [|[[] rv []] [|? ?]]]; try discriminate H. cbn [item_ok] in H.
    intros rest k alts items st. cbn [toks_of sx_val]. rewrite <- app_assoc, (IH x (size_arg1 _ _ _ _) H).
    cbn [app run step]. cbn [postfix mkf f_items f_kind f_alts].
    rewrite (canon_inner OpRepeat); [reflexivity|reflexivity|discriminate|discriminate|discriminate].
  - (* Capture *) destruct args as [|b [|? ?]]; try discriminate H. cbn [item_ok] in H.
    intros rest k alts items st. cbn [toks_of].
    rewrite (Hgroup b GCap "(" (X OpCapture "" [canon b]) (or_introl eq_refl) H eq_refl eq_refl).
    rewrite (canon_inner OpCapture); [reflexivity|reflexivity|discriminate|discriminate|discriminate].
  - (* NamedCapture *) destruct args as [|b [|[[] nm []] [|? ?]]]; try discriminate H. cbn [item_ok] in H.
    apply andb_true_iff in H as [H Hk]. destruct (open_kind (named_open v nm)) as [[| | |?|o nm']|] eqn:Eo; try discriminate Hk.
    apply andb_true_iff in Hk as [E1 E2]. apply String.eqb_eq in E1. apply String.eqb_eq in E2. subst o nm'.
    intros rest k alts items st. cbn [toks_of sx_val].
    rewrite (Hgroup b _ _ _ (or_introl eq_refl) H Eo eq_refl). reflexivity.
  - (* Group *) destruct args as [|b [|? ?]]; try discriminate H. cbn [item_ok] in H.
    intros rest k alts items st. cbn [toks_of].
    rewrite (Hgroup b GNon "(?:" (X OpGroup "" [canon b]) (or_introl eq_refl) H eq_refl eq_refl).
    rewrite (canon_inner OpGroup); [reflexivity|reflexivity|discriminate|discriminate|discriminate].
  - (* GroupWithFlags *) destruct args as [|b [|[[] fl []] [|? ?]]]; try discriminate H. cbn [item_ok] in H.
    apply andb_true_iff in H as [H Hk]. destruct (open_kind ("(?" ++ fl ++ ":")) as [[| | |fl'|? ?]|] eqn:Eo; try discriminate Hk.
    apply String.eqb_eq in Hk. subst fl'.
    intros rest k alts items st. cbn [toks_of sx_val].
    rewrite (Hgroup b _ _ _ (or_introl eq_refl) H Eo eq_refl).
    rewrite (canon_inner OpGroupWithFlags); [reflexivity|reflexivity|discriminate|discriminate|discriminate].
  - (* FlagOnlyGroup *) destruct args as [|[[] fl []] [|? ?]]; try discriminate H. cbn [item_ok] in H. apply String.eqb_eq in H.
    intros rest k alts items st. cbn [toks_of sx_val app run step push_item mkf f_kind f_alts f_items]. rewrite H.
    rewrite (canon_inner OpFlagOnlyGroup); [reflexivity|reflexivity|discriminate|discriminate|discriminate].
Qed.

(* 1. tokens of a tree of printable shape are parsed back to the tree, up to canon *)
Theorem parse_toks_roundtrip t : pattern_ok t = true -> parse_rtoks (toks_of t) = Some (canon t).
Proof.
  intros H. destruct (body_run t (fun y _ Hy => item_run_all y Hy) H) as (its & alts' & Hcl & Hrun).
  unfold parse_rtoks. specialize (Hrun [] GTop []). rewrite app_nil_r in Hrun. unfold top_frame.
  change {| f_kind := GTop; f_alts := []; f_items := [] |} with (mkf GTop [] []). rewrite Hrun. cbn [run mkf f_kind].
  apply Hcl.
Qed.
