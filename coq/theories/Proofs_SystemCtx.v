From GC Require Import Base Model_Select Proofs_Select Model_Cli Proofs_Cli Model_System Proofs_System Model_SystemCtx.

(* ---- round 5: version step and parameter cells ---- *)
Lemma frontends_agree_ctx reg defaults fl af cfg go pargs files :
  forallb valid_checker reg = true ->
  (forall c, In c reg -> an_selected af c = cli_selected reg fl c) ->
  (forall f, In f files -> file_checked cfg {| fname := cx_name f; fgroups := cx_groups f; fwarn := [] |} = true) ->
  match system_run_ctx reg defaults fl cfg go pargs files, analysis_run_ctx reg defaults af go pargs files with
  | SysFatal _, AnError => True
  | SysExit c1 l1, AnExit c2 l2 => l1 = l2 /\ (c2 = 0%Z <-> l1 = []) /\ (l1 = [] -> c1 = 0%Z)
  | _, _ => False
  end.
Proof.
  intros Hv Hs Hf. unfold system_run_ctx, analysis_run_ctx.
  destruct (pargs_known defaults pargs); simpl; [|exact I].
  destruct (parse_go_version go) as [v|]; [|exact I].
  apply frontends_agree; [exact Hv|exact Hs|].
  intros f Hin. apply in_map_iff in Hin as [g [<- Hg]]. simpl. apply Hf. exact Hg.
Qed.

Lemma system_run_ctx_bad_version reg defaults fl cfg go pargs files :
  pargs_known defaults pargs = true -> parse_go_version go = None ->
  system_run_ctx reg defaults fl cfg go pargs files = SysFatal "load program"
  /\ forall af, analysis_run_ctx reg defaults af go pargs files = AnError.
Proof. intros Hk Hp. unfold system_run_ctx, analysis_run_ctx. rewrite Hk, Hp. auto. Qed.

Lemma effective_keys defaults pargs : map fst (effective defaults pargs) = map fst defaults.
Proof. unfold effective. rewrite map_map. reflexivity. Qed.

Lemma effective_no_args defaults : effective defaults [] = defaults.
Proof.
  unfold effective. induction defaults as [|[k v] r IH]; [reflexivity|]. simpl in *. f_equal. exact IH.
Qed.

(* a parameter flag reaches exactly its own cell: every other cell keeps what it had *)
Lemma effective_other_cells defaults pargs k v k' d :
  k' <> k -> In (k', d) defaults ->
  In (k', match last_assoc k' pargs None with Some x => x | None => d end) (effective defaults ((k, v) :: pargs)).
Proof.
  intros Hne Hin. unfold effective. apply in_map_iff. exists (k', d). split; [|exact Hin].
  simpl. destruct (String.eqb k' k) eqn:E; [apply String.eqb_eq in E; contradiction|reflexivity].
Qed.
