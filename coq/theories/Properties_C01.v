(* Properties_C01.v — property C01 (no checker crashes or hangs) for the transliterated checkers.
   [_total]: holds for every well-formed model file. [_total_refuted]: a well-formed witness on which the model
   (tied to the real checker) panics. [_total_partial]: holds under the named guard, which is exactly the check the
   Go code lacks. Termination of every modelled checker is Coq's structural-recursion guard. *)
From GC Require Import Base GoAst Model_Checkers Proofs_Checkers Proofs_Witnesses.

Theorem C01_filepathJoin_total : forall f, wf f = true -> forall s, run_filepathJoin f <> Panic s.
Proof. exact (fun f _ => filepathJoin_total f). Qed.
Print Assumptions C01_filepathJoin_total.

Theorem C01_rangeAppendAll_total : forall f, wf f = true -> forall s, run_rangeAppendAll f <> Panic s.
Proof. exact (fun f _ => rangeAppendAll_total f). Qed.
Print Assumptions C01_rangeAppendAll_total.

Theorem C01_appendCombine_total_refuted : exists f, wf f = true /\ exists s, run_appendCombine f = Panic s.
Proof. exact appendCombine_refuted. Qed.
Print Assumptions C01_appendCombine_total_refuted.

Theorem C01_appendAssign_total_refuted : exists f, wf f = true /\ exists s, run_appendAssign f = Panic s.
Proof. exact appendAssign_refuted. Qed.
Print Assumptions C01_appendAssign_total_refuted.

Theorem C01_newDeref_total_refuted : exists f, wf f = true /\ exists s, run_newDeref f = Panic s.
Proof. exact newDeref_refuted. Qed.
Print Assumptions C01_newDeref_total_refuted.

Theorem C01_typeDefFirst_total_refuted : exists f, wf f = true /\ exists s, run_typeDefFirst f = Panic s.
Proof. exact typeDefFirst_refuted. Qed.
Print Assumptions C01_typeDefFirst_total_refuted.

Theorem C01_sortSlice_total_refuted : exists f, wf f = true /\ exists s, run_sortSlice f = Panic s.
Proof. exact sortSlice_refuted. Qed.
Print Assumptions C01_sortSlice_total_refuted.

Theorem C01_evalOrder_total_refuted : exists f, wf f = true /\ exists s, run_evalOrder f = Panic s.
Proof. exact evalOrder_refuted. Qed.
Print Assumptions C01_evalOrder_total_refuted.

Theorem C01_dupOption_total_refuted : exists f, wf f = true /\ exists s, run_dupOption f = Panic s.
Proof. exact dupOption_refuted. Qed.
Print Assumptions C01_dupOption_total_refuted.

Theorem C01_flagName_total_refuted : exists f, wf f = true /\ exists s, run_flagName f = Panic s.
Proof. exact flagName_refuted. Qed.
Print Assumptions C01_flagName_total_refuted.

Theorem C01_badRegexp_total_refuted : exists f, wf f = true /\ exists s, run_badRegexp_entry f = Panic s.
Proof. exact badRegexp_refuted. Qed.
Print Assumptions C01_badRegexp_total_refuted.

Theorem C01_regexpPattern_total_refuted : exists f, wf f = true /\ exists s, run_regexpPattern_entry f = Panic s.
Proof. exact regexpPattern_refuted. Qed.
Print Assumptions C01_regexpPattern_total_refuted.

Theorem C01_regexpSimplify_total_refuted : exists f, wf f = true /\ exists s, run_regexpSimplify_entry f = Panic s.
Proof. exact regexpSimplify_refuted. Qed.
Print Assumptions C01_regexpSimplify_total_refuted.

Theorem C01_appendCombine_total_partial : forall f, wf f = true -> all_nodes_sat g_append_args f -> forall s, run_appendCombine f <> Panic s.
Proof. exact (fun f _ => appendCombine_partial f). Qed.
Print Assumptions C01_appendCombine_total_partial.

Theorem C01_appendAssign_total_partial : forall f, wf f = true -> all_nodes_sat g_append_args f -> forall s, run_appendAssign f <> Panic s.
Proof. exact appendAssign_partial. Qed.
Print Assumptions C01_appendAssign_total_partial.

Theorem C01_newDeref_total_partial : forall f, wf f = true -> all_nodes_sat g_new_args f -> forall s, run_newDeref f <> Panic s.
Proof. exact (fun f _ => newDeref_partial f). Qed.
Print Assumptions C01_newDeref_total_partial.

Theorem C01_typeDefFirst_total_partial : forall f, wf f = true -> (forall d, In d (decls f) -> g_recv_plain d = true) -> forall s, run_typeDefFirst f <> Panic s.
Proof. exact typeDefFirst_partial. Qed.
Print Assumptions C01_typeDefFirst_total_partial.

Theorem C01_sortSlice_total_partial : forall f, wf f = true -> all_nodes_sat g_lit_returns_value f -> forall s, run_sortSlice f <> Panic s.
Proof. exact (fun f _ => sortSlice_partial f). Qed.
Print Assumptions C01_sortSlice_total_partial.

Theorem C01_evalOrder_total_partial : forall f, wf f = true -> all_nodes_sat g_return_calls_methods f -> forall s, run_evalOrder f <> Panic s.
Proof. exact (fun f _ => evalOrder_partial f). Qed.
Print Assumptions C01_evalOrder_total_partial.

Theorem C01_dupOption_total_partial : forall f, wf f = true -> all_nodes_sat g_variadic_fixed_args f -> forall s, run_dupOption f <> Panic s.
Proof. exact (fun f _ => dupOption_partial f). Qed.
Print Assumptions C01_dupOption_total_partial.

Theorem C01_flagName_total_partial : forall f, wf f = true -> all_nodes_sat g_flagvar_two_args f -> forall s, run_flagName f <> Panic s.
Proof. exact flagName_partial. Qed.
Print Assumptions C01_flagName_total_partial.

Theorem C01_badRegexp_total_partial : forall f, wf f = true -> all_nodes_sat (g_spelled_call_has_args badRegexp_names) f -> forall s, run_badRegexp_entry f <> Panic s.
Proof. exact (fun f _ => regexp_entry_partial badRegexp_names "badRegexp" f). Qed.
Print Assumptions C01_badRegexp_total_partial.

Theorem C01_regexpPattern_total_partial : forall f, wf f = true -> all_nodes_sat (g_spelled_call_has_args regexpPattern_names) f -> forall s, run_regexpPattern_entry f <> Panic s.
Proof. exact (fun f _ => regexp_entry_partial regexpPattern_names "regexpPattern" f). Qed.
Print Assumptions C01_regexpPattern_total_partial.

Theorem C01_regexpSimplify_total_partial : forall f, wf f = true -> all_nodes_sat (g_spelled_call_has_args regexpSimplify_names) f -> forall s, run_regexpSimplify_entry f <> Panic s.
Proof. exact (fun f _ => regexp_entry_partial regexpSimplify_names "regexpSimplify" f). Qed.
Print Assumptions C01_regexpSimplify_total_partial.

(* the hypotheses are satisfiable *)
Example C01_guards_satisfiable :
  wf Witnesses.ns_filepath_alias = true /\
  forallb g_append_args (all_nodes Witnesses.ns_filepath_alias) = true /\
  forallb g_new_args (all_nodes Witnesses.ns_filepath_alias) = true /\
  forallb g_variadic_fixed_args (all_nodes Witnesses.ns_filepath_alias) = true /\
  forallb g_flagvar_two_args (all_nodes Witnesses.ns_filepath_alias) = true /\
  forallb g_lit_returns_value (all_nodes Witnesses.ns_filepath_alias) = true /\
  forallb g_return_calls_methods (all_nodes Witnesses.ns_filepath_alias) = true /\
  forallb g_recv_plain (decls Witnesses.ns_filepath_alias) = true.
Proof. exact guards_satisfiable. Qed.
