(* Properties_C01.v — property C01 (no checker crashes or hangs) for the 15 transliterated checkers: every one is total on
   every well-formed model file. Termination is Coq's structural-recursion guard. The C01_prefix_*_refuted theorems
   document the crashes fixed by repository commits a8b628a..98eb553: they are statements about the explicitly named
   pre-fix definitions of Model_Checkers_Prefix.v, and C01_fixed_witnesses_ok evaluates the current definitions on the
   same witnesses. *)
From GC Require Import Base GoAst Model_Checkers Model_Checkers_Prefix Model_Checkers2 Model_Walkers Model_Comments Proofs_Checkers Proofs_Checkers2 Proofs_Walkers Proofs_Comments Proofs_Witnesses.

Theorem C01_appendCombine_total : forall f, wf f = true -> forall s, run_appendCombine f <> Panic s.
Proof. exact (fun f _ => appendCombine_total f). Qed.
Print Assumptions C01_appendCombine_total.

Theorem C01_appendAssign_total : forall f, wf f = true -> forall s, run_appendAssign f <> Panic s.
Proof. exact (fun f _ => appendAssign_total f). Qed.
Print Assumptions C01_appendAssign_total.

Theorem C01_newDeref_total : forall f, wf f = true -> forall s, run_newDeref f <> Panic s.
Proof. exact (fun f _ => newDeref_total f). Qed.
Print Assumptions C01_newDeref_total.

Theorem C01_typeDefFirst_total : forall f, wf f = true -> forall s, run_typeDefFirst f <> Panic s.
Proof. exact typeDefFirst_total. Qed.
Print Assumptions C01_typeDefFirst_total.

Theorem C01_sortSlice_total : forall f, wf f = true -> forall s, run_sortSlice f <> Panic s.
Proof. exact (fun f _ => sortSlice_total f). Qed.
Print Assumptions C01_sortSlice_total.

Theorem C01_evalOrder_total : forall f, wf f = true -> forall s, run_evalOrder f <> Panic s.
Proof. exact (fun f _ => evalOrder_total f). Qed.
Print Assumptions C01_evalOrder_total.

Theorem C01_dupOption_total : forall f, wf f = true -> forall s, run_dupOption f <> Panic s.
Proof. exact (fun f _ => dupOption_total f). Qed.
Print Assumptions C01_dupOption_total.

Theorem C01_flagName_total : forall f, wf f = true -> forall s, run_flagName f <> Panic s.
Proof. exact flagName_total. Qed.
Print Assumptions C01_flagName_total.

Theorem C01_filepathJoin_total : forall f, wf f = true -> forall s, run_filepathJoin f <> Panic s.
Proof. exact (fun f _ => filepathJoin_total f). Qed.
Print Assumptions C01_filepathJoin_total.

Theorem C01_rangeAppendAll_total : forall f, wf f = true -> forall s, run_rangeAppendAll f <> Panic s.
Proof. exact (fun f _ => rangeAppendAll_total f). Qed.
Print Assumptions C01_rangeAppendAll_total.

Theorem C01_badRegexp_total : forall f, wf f = true -> forall s, run_badRegexp_entry f <> Panic s.
Proof. exact (fun f _ => regexp_entry_total badRegexp_names "badRegexp" f). Qed.
Print Assumptions C01_badRegexp_total.

Theorem C01_regexpPattern_total : forall f, wf f = true -> forall s, run_regexpPattern_entry f <> Panic s.
Proof. exact (fun f _ => regexp_entry_total regexpPattern_names "regexpPattern" f). Qed.
Print Assumptions C01_regexpPattern_total.

Theorem C01_regexpSimplify_total : forall f, wf f = true -> forall s, run_regexpSimplify_entry f <> Panic s.
Proof. exact (fun f _ => regexp_entry_total regexpSimplify_names "regexpSimplify" f). Qed.
Print Assumptions C01_regexpSimplify_total.

Theorem C01_truncateCmp_total : forall skip f, wf f = true -> forall s, run_truncateCmp skip f <> Panic s.
Proof. exact (fun skip f _ => truncateCmp_total skip f). Qed.
Print Assumptions C01_truncateCmp_total.

Theorem C01_nilValReturn_total : forall f, wf f = true -> forall s, run_nilValReturn f <> Panic s.
Proof. exact (fun f _ => nilValReturn_total f). Qed.
Print Assumptions C01_nilValReturn_total.

Theorem C01_prefix_appendCombine_refuted : exists f, wf f = true /\ exists s, run_appendCombine_prefix f = Prefix.Panic s.
Proof. exact appendCombine_prefix_refuted. Qed.
Print Assumptions C01_prefix_appendCombine_refuted.

Theorem C01_prefix_appendAssign_refuted : exists f, wf f = true /\ exists s, run_appendAssign_prefix f = Prefix.Panic s.
Proof. exact appendAssign_prefix_refuted. Qed.
Print Assumptions C01_prefix_appendAssign_refuted.

Theorem C01_prefix_newDeref_refuted : exists f, wf f = true /\ exists s, run_newDeref_prefix f = Prefix.Panic s.
Proof. exact newDeref_prefix_refuted. Qed.
Print Assumptions C01_prefix_newDeref_refuted.

Theorem C01_prefix_typeDefFirst_refuted : exists f, wf f = true /\ exists s, run_typeDefFirst_prefix f = Prefix.Panic s.
Proof. exact typeDefFirst_prefix_refuted. Qed.
Print Assumptions C01_prefix_typeDefFirst_refuted.

Theorem C01_prefix_sortSlice_refuted : exists f, wf f = true /\ exists s, run_sortSlice_prefix f = Prefix.Panic s.
Proof. exact sortSlice_prefix_refuted. Qed.
Print Assumptions C01_prefix_sortSlice_refuted.

Theorem C01_prefix_evalOrder_refuted : exists f, wf f = true /\ exists s, run_evalOrder_prefix f = Prefix.Panic s.
Proof. exact evalOrder_prefix_refuted. Qed.
Print Assumptions C01_prefix_evalOrder_refuted.

Theorem C01_prefix_dupOption_refuted : exists f, wf f = true /\ exists s, run_dupOption_prefix f = Prefix.Panic s.
Proof. exact dupOption_prefix_refuted. Qed.
Print Assumptions C01_prefix_dupOption_refuted.

Theorem C01_prefix_flagName_refuted : exists f, wf f = true /\ exists s, run_flagName_prefix f = Prefix.Panic s.
Proof. exact flagName_prefix_refuted. Qed.
Print Assumptions C01_prefix_flagName_refuted.

Theorem C01_prefix_badRegexp_refuted : exists f, wf f = true /\ exists s, run_badRegexp_entry_prefix f = Prefix.Panic s.
Proof. exact badRegexp_prefix_refuted. Qed.
Print Assumptions C01_prefix_badRegexp_refuted.

Theorem C01_prefix_regexpPattern_refuted : exists f, wf f = true /\ exists s, run_regexpPattern_entry_prefix f = Prefix.Panic s.
Proof. exact regexpPattern_prefix_refuted. Qed.
Print Assumptions C01_prefix_regexpPattern_refuted.

Theorem C01_prefix_regexpSimplify_refuted : exists f, wf f = true /\ exists s, run_regexpSimplify_entry_prefix f = Prefix.Panic s.
Proof. exact regexpSimplify_prefix_refuted. Qed.
Print Assumptions C01_prefix_regexpSimplify_refuted.

Theorem C01_fixed_witnesses_ok : 
  run_appendCombine Witnesses.w_append_zero = Ok [] /\ run_appendAssign Witnesses.w_append_zero = Ok [] /\ run_newDeref Witnesses.w_new_zero = Ok [] /\
  run_typeDefFirst Witnesses.w_paren_recv = Ok [] /\ run_sortSlice Witnesses.w_bare_return = Ok [] /\ run_evalOrder Witnesses.w_funcfield = Ok [] /\
  run_dupOption Witnesses.w_forward_variadic = Ok [] /\ run_flagName Witnesses.w_flag_forward = Ok [] /\
  run_badRegexp_entry Witnesses.w_regexp_zero = Ok [] /\ run_regexpPattern_entry Witnesses.w_regexp_zero = Ok [] /\
  run_regexpSimplify_entry Witnesses.w_regexp_zero = Ok [] /\ run_newDeref Witnesses.w_new_nolit = Ok [].
Proof. exact witnesses_regress. Qed.
Print Assumptions C01_fixed_witnesses_ok.


(* ---------- second batch (Model_Checkers2.v): 20 more hand-written checkers and the LocalDef / FuncDecl walkers ---------- *)

Theorem C01_builtinShadowDecl_total : forall f, wf f = true -> forall s, run_builtinShadowDecl f <> Panic s.
Proof. exact (fun f _ => builtinShadowDecl_total f). Qed.
Print Assumptions C01_builtinShadowDecl_total.

Theorem C01_defaultCaseOrder_total : forall f, wf f = true -> forall s, run_defaultCaseOrder f <> Panic s.
Proof. exact (fun f _ => defaultCaseOrder_total f). Qed.
Print Assumptions C01_defaultCaseOrder_total.

Theorem C01_emptyFallthrough_total : forall f, wf f = true -> forall s, run_emptyFallthrough f <> Panic s.
Proof. exact (fun f _ => emptyFallthrough_total f). Qed.
Print Assumptions C01_emptyFallthrough_total.

Theorem C01_initClause_total : forall f, wf f = true -> forall s, run_initClause f <> Panic s.
Proof. exact (fun f _ => initClause_total f). Qed.
Print Assumptions C01_initClause_total.

Theorem C01_deferInLoop_total : forall f, wf f = true -> forall s, run_deferInLoop f <> Panic s.
Proof. exact (fun f _ => deferInLoop_total f). Qed.
Print Assumptions C01_deferInLoop_total.

Theorem C01_paramTypeCombine_total : forall f, wf f = true -> forall s, run_paramTypeCombine f <> Panic s.
Proof. exact (fun f _ => paramTypeCombine_total f). Qed.
Print Assumptions C01_paramTypeCombine_total.

Theorem C01_ptrToRefParam_total : forall f, wf f = true -> forall s, run_ptrToRefParam f <> Panic s.
Proof. exact (fun f _ => ptrToRefParam_total f). Qed.
Print Assumptions C01_ptrToRefParam_total.

Theorem C01_sloppyTypeAssert_total : forall f, wf f = true -> forall s, run_sloppyTypeAssert f <> Panic s.
Proof. exact (fun f _ => sloppyTypeAssert_total f). Qed.
Print Assumptions C01_sloppyTypeAssert_total.

Theorem C01_octalLiteral_total : forall f, wf f = true -> forall s, run_octalLiteral f <> Panic s.
Proof. exact (fun f _ => octalLiteral_total f). Qed.
Print Assumptions C01_octalLiteral_total.

Theorem C01_hexLiteral_total : forall f, wf f = true -> forall s, run_hexLiteral f <> Panic s.
Proof. exact (fun f _ => hexLiteral_total f). Qed.
Print Assumptions C01_hexLiteral_total.

Theorem C01_weakCond_total : forall f, wf f = true -> forall s, run_weakCond f <> Panic s.
Proof. exact (fun f _ => weakCond_total f). Qed.
Print Assumptions C01_weakCond_total.

Theorem C01_methodExprCall_total : forall f, wf f = true -> forall s, run_methodExprCall f <> Panic s.
Proof. exact (fun f _ => methodExprCall_total f). Qed.
Print Assumptions C01_methodExprCall_total.

Theorem C01_dupBranchBody_total : forall f, wf f = true -> forall s, run_dupBranchBody f <> Panic s.
Proof. exact (fun f _ => dupBranchBody_total f). Qed.
Print Assumptions C01_dupBranchBody_total.

Theorem C01_exitAfterDefer_total : forall f, wf f = true -> forall s, run_exitAfterDefer f <> Panic s.
Proof. exact (fun f _ => exitAfterDefer_total f). Qed.
Print Assumptions C01_exitAfterDefer_total.

Theorem C01_singleCaseSwitch_total : forall f, wf f = true -> forall s, run_singleCaseSwitch f <> Panic s.
Proof. exact (singleCaseSwitch_total). Qed.
Print Assumptions C01_singleCaseSwitch_total.

Theorem C01_elseif_total : forall skip_balanced f, wf f = true -> forall s, run_elseif skip_balanced f <> Panic s.
Proof. exact (fun p f _ => elseif_total p f). Qed.
Print Assumptions C01_elseif_total.

Theorem C01_underef_total : forall skip_recv f, wf f = true -> forall s, run_underef skip_recv f <> Panic s.
Proof. exact (fun p f _ => underef_total p f). Qed.
Print Assumptions C01_underef_total.

Theorem C01_unnamedResult_total : forall check_exported f, wf f = true -> forall s, run_unnamedResult check_exported f <> Panic s.
Proof. exact (unnamedResult_total). Qed.
Print Assumptions C01_unnamedResult_total.

Theorem C01_captLocal_total : forall params_only f, wf f = true -> forall s, run_captLocal params_only f <> Panic s.
Proof. exact (fun p f W => run_localdef_total (captLocal_visit p) f W). Qed.
Print Assumptions C01_captLocal_total.

Theorem C01_builtinShadow_total : forall f, wf f = true -> forall s, run_builtinShadow f <> Panic s.
Proof. exact (fun f W => run_localdef_total builtinShadow_visit f W). Qed.
Print Assumptions C01_builtinShadow_total.

Theorem C01_localDefWalker_total : forall visit f, wf f = true -> forall s, run_localdef visit f <> Panic s.
Proof. exact (run_localdef_total). Qed.
Print Assumptions C01_localDefWalker_total.

(* ---------- the astwalk walkers themselves (Model_Walkers.v): for EVERY visitor (any SkipChilds behaviour) ---------- *)

Theorem C01_exprWalker_total : forall enter skip f s, walk_expr enter skip f <> P s.
Proof. exact (fun enter skip f s => @R_total (list node) _ s). Qed.
Print Assumptions C01_exprWalker_total.

Theorem C01_funcDeclWalker_total : forall enter f s, walk_func_decl enter f <> P s.
Proof. exact (fun enter f s => @R_total (list node) _ s). Qed.
Print Assumptions C01_funcDeclWalker_total.

Theorem C01_localExprWalker_total : forall skip f, wf f = true -> forall s, walk_local_expr decl_entered skip f <> P s.
Proof. exact (fun skip f W => body_walk_total is_expr skip f W). Qed.
Print Assumptions C01_localExprWalker_total.

Theorem C01_stmtWalker_total : forall skip f, wf f = true -> forall s, walk_stmt decl_entered skip f <> P s.
Proof. exact (fun skip f W => body_walk_total is_stmt skip f W). Qed.
Print Assumptions C01_stmtWalker_total.

Theorem C01_stmtListWalker_total : forall skip f, wf f = true -> forall s, walk_stmt_list decl_entered skip f <> P s.
Proof. exact (fun skip f W => body_walk_total is_stmt_list_node skip f W). Qed.
Print Assumptions C01_stmtListWalker_total.

Theorem C01_typeExprWalker_total : forall skip f, wf f = true -> forall s, walk_type_expr decl_entered skip f <> P s.
Proof. exact (walk_type_expr_total). Qed.
Print Assumptions C01_typeExprWalker_total.

(* full statement (any EnterFunc): forall cls enter skip f, wf f = true -> forall s, body_walk cls enter skip f <> P s — refuted: a visitor whose
   EnterFunc accepts a body-less function makes the statement walkers call ast.Inspect on a nil *ast.BlockStmt *)

Theorem C01_bodyWalkers_any_enter_refuted : exists f, wf f = true /\ exists s, walk_stmt (fun _ => true) (fun _ => false) f = P s.
Proof. exact (ex_intro _ bodyless_file body_walk_enter_all_refuted). Qed.
Print Assumptions C01_bodyWalkers_any_enter_refuted.

Theorem C01_bodyWalkers_total_partial : forall cls enter skip f, (forall d, In d (decls f) -> enter d = true -> exists b, fd_body d = Some b) -> forall s, body_walk cls enter skip f <> P s.
Proof. exact (body_walk_total_enter). Qed.
Print Assumptions C01_bodyWalkers_total_partial.

(* ---------- unlambda: `result.Args[n]` ----------
   full statement: forall f, wf f = true -> forall s, run_unlambda f <> Panic s.
   wf does not relate the literal's parameter list to the callee's arity; go/types does (the checker only indexes after
   types.Identical(TypeOf(literal), TypeOf(callee)) held). That guarantee is the explicit hypothesis g_unlambda_arity (the call's
   arguments fit the literal's own parameter list, `...T` comes last, an identifier is not a multi-value expression); the tie
   evaluates it on every converted file (case_detail2 reports "g_unlambda_arity" when it fails). *)
Theorem C01_unlambda_total_partial : forall f, wf f = true -> all_nodes_sat g_unlambda_arity f -> forall s, run_unlambda f <> Panic s.
Proof. exact unlambda_total_partial. Qed.
Print Assumptions C01_unlambda_total_partial.

Example C01_unlambda_hypothesis_satisfiable :
  wf Witnesses.w_bare_return = true /\ forallb g_unlambda_arity (all_nodes Witnesses.w_bare_return) = true.
Proof. exact unlambda_hypothesis_satisfiable. Qed.

(* ---------- deprecatedComment (DocComment walker; comment text as byte strings): l[:len(pat)], line[:len("DEPRECATED: ")]
   and strings.Split(line, ":")[0] are in range for every file and every comment text ---------- *)

Theorem C01_deprecatedComment_total : forall f cs ct s, run_deprecatedComment f cs ct <> Panic s.
Proof. exact (deprecatedComment_total). Qed.
Print Assumptions C01_deprecatedComment_total.
