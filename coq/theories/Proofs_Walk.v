(* Proofs_Walk.v — laws of the walker protocol (C13) *)
From GC Require Import Base Model_Walk.
From Coq Require Import Permutation.

Section Laws.
  Context {S D : Type}.
  Variable on_decl : S -> D -> S * list warning.
  Variable I : S -> Prop.
  Hypothesis L : decl_local on_decl I.

  Lemma walk_inv : forall ds s, I s -> I (fst (walk on_decl s ds)).
  Proof.
    induction ds as [|d r IH]; simpl; intros s Hs; auto.
    destruct (on_decl s d) as [s1 w1] eqn:E1.
    destruct (walk on_decl s1 r) as [s2 w2] eqn:E2. simpl.
    pose proof (proj1 L s d Hs) as H1. rewrite E1 in H1. simpl in H1.
    specialize (IH s1 H1). rewrite E2 in IH. exact IH.
  Qed.

  (* the walker's output is the concatenation of per-declaration outputs computed from ANY reachable state *)
  Lemma walk_flat : forall s0, I s0 -> forall ds s, I s ->
    snd (walk on_decl s ds) = flat_map (fun d => snd (on_decl s0 d)) ds.
  Proof.
    intros s0 H0. induction ds as [|d r IH]; simpl; intros s Hs; auto.
    destruct (on_decl s d) as [s1 w1] eqn:E1.
    destruct (walk on_decl s1 r) as [s2 w2] eqn:E2. simpl.
    pose proof (proj1 L s d Hs) as H1. rewrite E1 in H1. simpl in H1.
    pose proof (proj2 L s s0 d Hs H0) as H2. rewrite E1 in H2. simpl in H2.
    specialize (IH s1 H1). rewrite E2 in IH. simpl in IH. rewrite IH, H2. reflexivity.
  Qed.

  Lemma walk_init_irrelevant : forall ds s s', I s -> I s' ->
    snd (walk on_decl s ds) = snd (walk on_decl s' ds).
  Proof. intros ds s s' H H'. rewrite (walk_flat s H ds s H). rewrite (walk_flat s H ds s' H'). reflexivity. Qed.

  Lemma walk_app : forall s ds1 ds2, I s ->
    snd (walk on_decl s (ds1 ++ ds2)%list) = (snd (walk on_decl s ds1) ++ snd (walk on_decl s ds2))%list.
  Proof. intros s ds1 ds2 H. rewrite (walk_flat s H _ s H), (walk_flat s H ds1 s H), (walk_flat s H ds2 s H). apply flat_map_app. Qed.

  Lemma walk_perm : forall s ds ds', I s -> Permutation ds ds' ->
    Permutation (snd (walk on_decl s ds)) (snd (walk on_decl s ds')).
  Proof.
    intros s ds ds' Hs HP. rewrite (walk_flat s Hs ds s Hs), (walk_flat s Hs ds' s Hs).
    induction HP; simpl; auto.
    - apply Permutation_app_head. exact IHHP.
    - rewrite !app_assoc. apply Permutation_app_tail. apply Permutation_app_comm.
    - eapply Permutation_trans; eauto.
  Qed.

  Lemma walk_shift : forall (shiftD : N -> D -> D), equivariant on_decl shiftD ->
    forall k s ds, I s ->
    snd (walk on_decl s (map (shiftD k) ds)) = map (shift_w k) (snd (walk on_decl s ds)).
  Proof.
    intros shiftD HE k s ds Hs. rewrite (walk_flat s Hs _ s Hs), (walk_flat s Hs ds s Hs).
    induction ds as [|d r IH]; simpl; auto.
    rewrite map_app, IH, HE. reflexivity.
  Qed.

  (* inserting one declaration leaves the warnings of the others untouched *)
  Lemma walk_insert : forall s ds1 d ds2, I s ->
    snd (walk on_decl s (ds1 ++ d :: ds2)%list) =
    (snd (walk on_decl s ds1) ++ snd (on_decl s d) ++ snd (walk on_decl s ds2))%list.
  Proof. intros s ds1 d ds2 H. rewrite (walk_flat s H _ s H), (walk_flat s H ds1 s H), (walk_flat s H ds2 s H). rewrite flat_map_app. reflexivity. Qed.
End Laws.

(* statement visitors: a per-function reset makes the step declaration-local *)
Section StmtLocal.
  Context {S : Type}.
  Variable enter_func : S -> S.
  Variable visit : S -> stmt -> S * list warning.
  (* after EnterFunc the outputs no longer depend on where we came from *)
  Hypothesis reset : forall s s' b, snd (visit_all visit (enter_func s) b) = snd (visit_all visit (enter_func s') b).

  Lemma stmt_on_decl_local : decl_local (stmt_on_decl enter_func visit) (fun _ => True).
  Proof.
    split; [auto|]. intros s s' d _ _. destruct d as [p ex r [b|] cs|p ns|p b']; simpl; auto.
  Qed.
End StmtLocal.
