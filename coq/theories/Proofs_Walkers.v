(* Proofs_Walkers.v — lemmas about the astwalk walker models (Model_Walkers.v). *)
From GC Require Import Base GoAst Model_Checkers Model_Checkers2 Model_Walkers Proofs_Checkers Proofs_Checkers2.

(* ---------- subsequences ---------- *)
Lemma subseq_refl {A} (l : list A) : subseq l l.
Proof. induction l; constructor; auto. Qed.

Lemma subseq_app {A} (a x b y : list A) : subseq a x -> subseq b y -> subseq (a ++ b) (x ++ y).
Proof.
  intros H. revert b y. induction H; intros b y Hb; simpl.
  - induction l; simpl; [exact Hb|constructor; auto].
  - constructor. auto.
  - constructor. auto.
Qed.

Lemma subseq_app_r {A} (a x y : list A) : subseq a y -> subseq a (x ++ y).
Proof. intros H. induction x; simpl; [exact H|constructor; auto]. Qed.

Lemma subseq_app_l {A} (a x y : list A) : subseq a x -> subseq a (x ++ y).
Proof. intros H. rewrite <- (app_nil_r a). apply subseq_app; [exact H|constructor]. Qed.

Lemma subseq_filter {A} (p : A -> bool) l : subseq (filter p l) l.
Proof. induction l as [|x r IH]; simpl; [constructor|]. destruct (p x); constructor; auto. Qed.

Lemma subseq_In {A} (a l : list A) x : subseq a l -> In x a -> In x l.
Proof. intros H. induction H; simpl; intros Hx; [contradiction| |]; intuition. Qed.

Lemma subseq_trans {A} (a b c : list A) : subseq a b -> subseq b c -> subseq a c.
Proof.
  intros H1 H2. revert a H1. induction H2; intros a H1.
  - inversion H1. constructor.
  - inversion H1; subst; [constructor|constructor; auto|constructor; auto].
  - constructor. auto.
Qed.

Lemma subseq_NoDup {A} (a l : list A) : subseq a l -> NoDup l -> NoDup a.
Proof.
  intros H. induction H; intros N; [constructor| |].
  - inversion N; subst. constructor; auto. intros Hx. apply H2. eapply subseq_In; eauto.
  - inversion N; auto.
Qed.

Lemma subseq_flat_map {A B} (g h : A -> list B) l :
  (forall x, In x l -> subseq (g x) (h x)) -> subseq (flat_map g l) (flat_map h l).
Proof.
  induction l as [|x r IH]; simpl; intros H; [constructor|]. apply subseq_app; auto.
Qed.

(* ---------- ast.Inspect shows a subsequence of the pre-order ---------- *)
Lemma insp_subseq_aux :
  (forall n g, subseq (insp g n) (pre n)) /\ (forall l g, subseq (insps g l) (pres l)).
Proof.
  apply node_mutind.
  - intros t p s a b ff k IH g. simpl. constructor. destruct (g _); [apply IH|constructor].
  - intros g. constructor.
  - intros n IHn r IHr g. simpl. apply subseq_app; auto.
Qed.

Lemma shown_in_subseq cls skip root : subseq (shown_in cls skip root) (pre root).
Proof. unfold shown_in. eapply subseq_trans; [apply subseq_filter|apply (proj1 insp_subseq_aux)]. Qed.

Lemma kid_pres_subseq l b : In b (to_list l) -> subseq (pre b) (pres l).
Proof.
  induction l as [|n r IH]; simpl; [contradiction|]. intros [->|H].
  - apply subseq_app_l. apply subseq_refl.
  - apply subseq_app_r. auto.
Qed.

Lemma kid_pre_subseq d b : In b (kids d) -> subseq (pre b) (pre d).
Proof. destruct d as [t p s a b0 ff k]. unfold kids. simpl. intros H. constructor. apply kid_pres_subseq. exact H. Qed.

(* a visitor that never sets SkipChilds is shown the whole class in pre-order *)
Lemma insp_all_aux g : (forall x, g x = true) ->
  (forall n, insp g n = pre n) /\ (forall l, insps g l = pres l).
Proof.
  intros G. apply node_mutind; simpl; intros.
  - rewrite G, H. reflexivity.
  - reflexivity.
  - rewrite H, H0. reflexivity.
Qed.

Lemma shown_in_noskip cls root : shown_in cls (fun _ => false) root = filter cls (pre root).
Proof.
  unfold shown_in. f_equal. apply (proj1 (insp_all_aux _ (fun x => match cls x as c return (if c then negb false else true) = true with true => eq_refl | false => eq_refl end))).
Qed.

(* ---------- results of the sequencing helpers ---------- *)
Lemma app_r_R {A} (a b : res (list A)) l : app_r a b = R l -> exists x y, a = R x /\ b = R y /\ l = (x ++ y)%list.
Proof. destruct a, b; simpl; try discriminate. intros [= <-]. eauto. Qed.

Lemma app_r_total {A} (a b : res (list A)) : (forall s, a <> P s) -> (forall s, b <> P s) -> forall s, app_r a b <> P s.
Proof. destruct a, b; simpl; intros Ha Hb s; try discriminate; [eapply Hb|eapply Ha|eapply Ha]; eauto. Qed.

Lemma concat_r_total {A} (l : list (res (list A))) : (forall r, In r l -> forall s, r <> P s) -> forall s, concat_r l <> P s.
Proof.
  induction l as [|x r IH]; simpl; intros H; [discriminate|]. apply app_r_total; [apply H; auto|apply IH; intros; apply H; auto].
Qed.

Lemma concat_r_subseq {A B} (F : A -> res (list B)) (h : A -> list B) ds :
  (forall d l, In d ds -> F d = R l -> subseq l (h d)) ->
  forall l, concat_r (map F ds) = R l -> subseq l (flat_map h ds).
Proof.
  induction ds as [|d r IH]; simpl; intros H l E.
  - injection E as <-. constructor.
  - apply app_r_R in E as [x [y [E1 [E2 ->]]]]. apply subseq_app; [eapply H; eauto|eapply IH; eauto].
Qed.

(* ---------- the five standard walkers ---------- *)
Definition body_piece (cls : node -> bool) (enter skip : node -> bool) (d : node) : res (list node) :=
  if negb (is_tag TFuncDecl d) then R []
  else if negb (enter d) then R []
  else match fd_body d with
       | Some b => R (shown_in cls skip b)
       | None => P "astwalk: ast.Inspect(decl.Body) with a nil *ast.BlockStmt"
       end.

Lemma body_walk_eq cls enter skip f : body_walk cls enter skip f = concat_r (map (body_piece cls enter skip) (decls f)).
Proof. reflexivity. Qed.

Lemma body_walk_subseq cls enter skip f l : body_walk cls enter skip f = R l -> subseq l (all_nodes f).
Proof.
  rewrite body_walk_eq. unfold all_nodes. apply concat_r_subseq. intros d l0 Hd E. unfold body_piece in E.
  destruct (negb (is_tag TFuncDecl d)); [injection E as <-; constructor|].
  destruct (negb (enter d)); [injection E as <-; constructor|].
  destruct (fd_body d) as [b|] eqn:Eb; [|discriminate]. injection E as <-.
  eapply subseq_trans; [apply shown_in_subseq|]. apply kid_pre_subseq. eapply fd_body_kid; eauto.
Qed.

Lemma walk_expr_subseq enter skip f l : walk_expr enter skip f = R l -> subseq l (all_nodes f).
Proof.
  unfold walk_expr, all_nodes. intros [= <-]. apply subseq_flat_map. intros d Hd.
  destruct (_ && _); [constructor|apply shown_in_subseq].
Qed.

Lemma walk_func_decl_subseq enter f l : walk_func_decl enter f = R l -> subseq l (all_nodes f).
Proof.
  unfold walk_func_decl. intros [= <-]. eapply subseq_trans; [apply subseq_filter|].
  unfold all_nodes. induction (decls f) as [|d r IH]; simpl; [constructor|].
  destruct d as [t p s a b ff k]. simpl. constructor. apply subseq_app_r. exact IH.
Qed.

(* the default EnterFunc keeps the statement walkers away from nil bodies *)
Lemma wf_funcdecl_body d : wf_node d = true -> ntag d = TFuncDecl -> decl_entered d = true -> exists b, fd_body d = Some b.
Proof.
  unfold wf_node, decl_entered, fd_body, is_tag. intros W T E. rewrite T in *. simpl in E. rewrite E.
  apply andb_true_iff in W as [W _]. apply andb_true_iff in W as [W _]. apply andb_true_iff in W as [W _].
  apply andb_true_iff in W as [_ W]. apply Nat.eqb_eq in W. apply N.eqb_eq in E. rewrite E in W.
  destruct (nth_error (kids d) (N.to_nat (na d) + 2)) eqn:En; [eauto|]. apply nth_error_None in En.
  change (N.to_nat 1) with 1 in W. lia.
Qed.

Lemma body_walk_total cls skip f : wf f = true -> forall s, body_walk cls decl_entered skip f <> P s.
Proof.
  intros W. rewrite body_walk_eq. apply concat_r_total. intros r Hr s. apply in_map_iff in Hr as [d [<- Hd]].
  unfold body_piece. destruct (negb (is_tag TFuncDecl d)) eqn:T; [discriminate|].
  destruct (negb (decl_entered d)) eqn:E; [discriminate|].
  apply negb_false_iff in T, E. apply is_tag_eq in T.
  destruct (wf_funcdecl_body d (wf_node_of _ _ W (decl_in_all _ _ Hd)) T E) as [b ->]. discriminate.
Qed.

(* for any EnterFunc that only accepts functions with a body *)
Lemma body_walk_total_enter cls enter skip f :
  (forall d, In d (decls f) -> enter d = true -> exists b, fd_body d = Some b) ->
  forall s, body_walk cls enter skip f <> P s.
Proof.
  intros H. rewrite body_walk_eq. apply concat_r_total. intros r Hr s. apply in_map_iff in Hr as [d [<- Hd]].
  unfold body_piece. destruct (negb (is_tag TFuncDecl d)); [discriminate|].
  destruct (negb (enter d)) eqn:E; [discriminate|]. apply negb_false_iff in E.
  destruct (H d Hd E) as [b ->]. discriminate.
Qed.

(* a visitor that accepts a body-less function crashes the statement walkers (the reason for the default) *)
Definition bodyless_file : file :=
  {| decls := [Nd TFuncDecl 1 "" 0 0 nf (NC (Nd TIdent 6 "f" 0 0 nf NN) (NC (Nd TFuncType 1 "" 0 0 nf (NC (Nd TFieldList 7 "" 0 0 nf NN) NN)) NN))];
     token_starts := [1; 6; 7]%N |}.

Lemma body_walk_enter_all_refuted :
  wf bodyless_file = true /\ exists s, walk_stmt (fun _ => true) (fun _ => false) bodyless_file = P s.
Proof. split; [vm_compute; reflexivity|]. eexists. vm_compute. reflexivity. Qed.

(* never-skip visitors: the walkers coincide with the node lists the checker models use *)
Lemma walk_expr_noskip f : walk_expr decl_entered (fun _ => false) f = R (expr_nodes f).
Proof.
  unfold walk_expr, expr_nodes. f_equal. apply flat_map_ext. intros d. rewrite shown_in_noskip.
  unfold decl_entered. destruct (is_tag TFuncDecl d); simpl; [|reflexivity]. destruct (N.eqb (nb d) 1); reflexivity.
Qed.

Lemma fd_body_func_body d : is_tag TFuncDecl d = true -> decl_entered d = true -> fd_body d = func_body d.
Proof.
  unfold fd_body, func_body, decl_entered. intros T. rewrite T. simpl. intros ->. reflexivity.
Qed.

Lemma body_walk_noskip cls f l :
  body_walk cls decl_entered (fun _ => false) f = R l ->
  l = flat_map (fun d => match func_body d with Some b => filter cls (pre b) | None => [] end) (decls f).
Proof.
  rewrite body_walk_eq. revert l. induction (decls f) as [|d r IH]; simpl; intros l E.
  - injection E as <-. reflexivity.
  - apply app_r_R in E as [x [y [E1 [E2 ->]]]]. rewrite (IH _ E2). f_equal.
    unfold body_piece in E1. unfold func_body.
    destruct (is_tag TFuncDecl d) eqn:T; simpl in *; [|injection E1 as <-; reflexivity].
    unfold decl_entered in E1. rewrite T in E1.
    destruct (N.eqb (nb d) 1) eqn:B; simpl in *; [|injection E1 as <-; reflexivity].
    unfold fd_body in E1. rewrite B in E1.
    destruct (nth_error (kids d) (N.to_nat (na d) + 2)); [|discriminate].
    injection E1 as <-. apply shown_in_noskip.
Qed.

Lemma walk_stmt_noskip f l : walk_stmt decl_entered (fun _ => false) f = R l -> l = stmt_nodes f.
Proof. apply body_walk_noskip. Qed.

(* ---------- typeExprWalker ---------- *)
Section TE.
Variable skip : node -> bool.

(* induction with the hypothesis available for every strict descendant *)
Lemma node_desc_ind (Q : node -> Prop) :
  (forall n, (forall m, In m (pres (nkids n)) -> Q m) -> Q n) -> forall n, Q n.
Proof.
  intros H.
  assert (K : (forall n m, In m (pre n) -> Q m) /\ (forall l m, In m (pres l) -> Q m)).
  { apply node_mutind.
    - intros t p s a b ff k IH m [<-|Hm]; [apply H; simpl; exact IH|apply IH; exact Hm].
    - intros m [].
    - intros n IHn r IHr m Hm. simpl in Hm. apply in_app_or in Hm as [Hm|Hm]; auto. }
  intros n. apply (proj1 K n). apply pre_self.
Qed.


(* unfolding equations of the mutual fixpoint (all by computation) *)
Lemma te_insp_eq t p s a b ff k :
  te_insp skip (Nd t p s a b ff k) =
  let n := Nd t p s a b ff k in
  let visit_then := app_r (R [n]) (if skip n then R [] else te_insps skip k) in
  match t with
  | TFuncType | TArrayType => visit_then
  | TParen | TStar =>
      match k with
      | NC x _ => if xbit x_typeexpr x then visit_then else te_insps skip k
      | NN => te_insps skip k
      end
  | TCall | TSelector =>
      match k with
      | NC (Nd TParen _ _ _ _ _ (NC px NN)) _ =>
          if xbit x_typeexpr px && (is_tag TStar px || is_tag TFuncType px) then te_insp skip px else te_insps skip k
      | _ => te_insps skip k
      end
  | TOther _ =>
      if is_chan_type n || is_map_type n || is_struct_type n then visit_then
      else if is_iface_type n then
        app_r (R [n]) (if skip n then R [] else
                       match k with
                       | NC (Nd _ _ _ _ _ _ flds) _ => te_methods skip flds
                       | NN => P "typeExprWalker: x.Methods.List with nil Methods"
                       end)
      else te_insps skip k
  | _ => te_insps skip k
  end.
Proof. reflexivity. Qed.

Lemma te_walk1_eq t p s a b ff k :
  te_walk1 skip (Nd t p s a b ff k) =
  let n := Nd t p s a b ff k in
  match t with
  | TFuncType | TArrayType => R [n]
  | TParen | TStar =>
      match k with NC x _ => if xbit x_typeexpr x then R [n] else R [] | NN => R [] end
  | TCall | TSelector =>
      match k with
      | NC (Nd TParen _ _ _ _ _ (NC px NN)) _ =>
          if xbit x_typeexpr px && (is_tag TStar px || is_tag TFuncType px) then te_insp skip px else R []
      | _ => R []
      end
  | TOther _ =>
      if is_chan_type n || is_map_type n || is_struct_type n then R [n]
      else if is_iface_type n then
        app_r (R [n]) (if skip n then R [] else
                       match k with
                       | NC (Nd _ _ _ _ _ _ flds) _ => te_methods skip flds
                       | NN => P "typeExprWalker: x.Methods.List with nil Methods"
                       end)
      else R []
  | _ => R []
  end.
Proof. reflexivity. Qed.

Lemma te_sig_eq t p s a b ff k :
  te_sig skip (Nd t p s a b ff k) = te_sig_lists skip k 0 (N.to_nat a) (N.to_nat a + N.to_nat b) (N.to_nat a).
Proof. reflexivity. Qed.
Lemma te_insps_cons x r : te_insps skip (NC x r) = app_r (te_insp skip x) (te_insps skip r).
Proof. reflexivity. Qed.
Lemma te_fields_cons t p s a b ff fk r :
  te_fields skip (NC (Nd t p s a b ff fk) r) = app_r (te_field_type skip (N.to_nat a) fk) (te_fields skip r).
Proof. reflexivity. Qed.
Lemma te_methods_cons t p s a b ff fk r :
  te_methods skip (NC (Nd t p s a b ff fk) r) = app_r (te_method_type skip (N.to_nat a) fk) (te_methods skip r).
Proof. reflexivity. Qed.
Lemma te_field_type_0 x r : te_field_type skip 0 (NC x r) = te_insp skip x.
Proof. reflexivity. Qed.
Lemma te_field_type_S j x r : te_field_type skip (S j) (NC x r) = te_field_type skip j r.
Proof. reflexivity. Qed.
Lemma te_field_type_nil i : te_field_type skip i NN = R [].
Proof. destruct i; reflexivity. Qed.
Lemma te_method_type_0 x r : te_method_type skip 0 (NC x r) = if is_tag TFuncType x then te_sig skip x else te_walk1 skip x.
Proof. reflexivity. Qed.
Lemma te_method_type_S j x r : te_method_type skip (S j) (NC x r) = te_method_type skip j r.
Proof. reflexivity. Qed.
Lemma te_method_type_nil i : te_method_type skip i NN = R [].
Proof. destruct i; reflexivity. Qed.
Lemma te_sig_lists_nil i lo hi need :
  te_sig_lists skip NN i lo hi need = if Nat.leb i need then P "typeExprWalker: typ.Params.List with nil Params" else R [].
Proof. reflexivity. Qed.
Lemma te_sig_lists_cons t p s a b ff flds r i lo hi need :
  te_sig_lists skip (NC (Nd t p s a b ff flds) r) i lo hi need =
  app_r (if Nat.leb lo i && Nat.leb i hi then te_fields skip flds else R []) (te_sig_lists skip r (S i) lo hi need).
Proof. reflexivity. Qed.

Definition te_sub (n : node) : Prop :=
  (forall l, te_insp skip n = R l -> subseq l (pre n)) /\
  (forall l, te_walk1 skip n = R l -> subseq l (pre n)) /\
  (forall l, te_sig skip n = R l -> subseq l (pre n)).

Lemma pres_cons x r : pres (NC x r) = (pre x ++ pres r)%list.
Proof. reflexivity. Qed.
Lemma pre_cons t p s a b ff k : pre (Nd t p s a b ff k) = Nd t p s a b ff k :: pres k.
Proof. reflexivity. Qed.

Lemma pres_head_in x r m : In m (pre x) -> In m (pres (NC x r)).
Proof. simpl. intros. apply in_or_app. auto. Qed.
Lemma pres_tail_in x r m : In m (pres r) -> In m (pres (NC x r)).
Proof. simpl. intros. apply in_or_app. auto. Qed.

Lemma te_insps_sub k : (forall m, In m (pres k) -> te_sub m) -> forall l, te_insps skip k = R l -> subseq l (pres k).
Proof.
  induction k as [|x r IH]; intros H l E.
  - injection E as <-. constructor.
  - rewrite te_insps_cons in E. apply app_r_R in E as [a [b [E1 [E2 ->]]]]. rewrite pres_cons. apply subseq_app.
    + apply (proj1 (H x (pres_head_in x r x (pre_self x)))). exact E1.
    + apply IH; [intros; apply H; apply pres_tail_in; auto|exact E2].
Qed.

Lemma te_field_type_sub k : (forall m, In m (pres k) -> te_sub m) -> forall i l, te_field_type skip i k = R l -> subseq l (pres k).
Proof.
  induction k as [|x r IH]; intros H i l E.
  - rewrite te_field_type_nil in E. injection E as <-. constructor.
  - destruct i.
    + rewrite te_field_type_0 in E. rewrite pres_cons. apply subseq_app_l.
      apply (proj1 (H x (pres_head_in x r x (pre_self x)))). exact E.
    + rewrite te_field_type_S in E. rewrite pres_cons. apply subseq_app_r. eapply IH; eauto. intros; apply H; apply pres_tail_in; auto.
Qed.

Lemma te_fields_sub k : (forall m, In m (pres k) -> te_sub m) -> forall l, te_fields skip k = R l -> subseq l (pres k).
Proof.
  induction k as [|x r IH]; intros H l E.
  - injection E as <-. constructor.
  - destruct x as [t p s a b ff fk]. rewrite te_fields_cons in E. apply app_r_R in E as [u [v [E1 [E2 ->]]]].
    rewrite pres_cons. apply subseq_app.
    + rewrite pre_cons. constructor. eapply te_field_type_sub; eauto. intros m Hm. apply H. apply pres_head_in. simpl. auto.
    + apply IH; [intros; apply H; apply pres_tail_in; auto|exact E2].
Qed.

Lemma te_sig_lists_sub k : (forall m, In m (pres k) -> te_sub m) ->
  forall i lo hi need l, te_sig_lists skip k i lo hi need = R l -> subseq l (pres k).
Proof.
  induction k as [|x r IH]; intros H i lo hi need l E.
  - rewrite te_sig_lists_nil in E. destruct (Nat.leb i need); [discriminate|]. injection E as <-. constructor.
  - destruct x as [t p s a b ff flds]. rewrite te_sig_lists_cons in E. apply app_r_R in E as [u [v [E1 [E2 ->]]]].
    rewrite pres_cons. apply subseq_app.
    + rewrite pre_cons. constructor. destruct (_ && _); [|injection E1 as <-; constructor].
      eapply te_fields_sub; eauto. intros m Hm. apply H. apply pres_head_in. simpl. auto.
    + eapply IH; eauto. intros; apply H; apply pres_tail_in; auto.
Qed.

Lemma te_method_type_sub k : (forall m, In m (pres k) -> te_sub m) -> forall i l, te_method_type skip i k = R l -> subseq l (pres k).
Proof.
  induction k as [|x r IH]; intros H i l E.
  - rewrite te_method_type_nil in E. injection E as <-. constructor.
  - destruct i.
    + rewrite te_method_type_0 in E. rewrite pres_cons. apply subseq_app_l.
      destruct (H x (pres_head_in x r x (pre_self x))) as [_ [H2 H3]].
      destruct (is_tag TFuncType x); auto.
    + rewrite te_method_type_S in E. rewrite pres_cons. apply subseq_app_r. eapply IH; eauto. intros; apply H; apply pres_tail_in; auto.
Qed.

Lemma te_methods_sub k : (forall m, In m (pres k) -> te_sub m) -> forall l, te_methods skip k = R l -> subseq l (pres k).
Proof.
  induction k as [|x r IH]; intros H l E.
  - injection E as <-. constructor.
  - destruct x as [t p s a b ff fk]. rewrite te_methods_cons in E. apply app_r_R in E as [u [v [E1 [E2 ->]]]].
    rewrite pres_cons. apply subseq_app.
    + rewrite pre_cons. constructor. eapply te_method_type_sub; eauto. intros m Hm. apply H. apply pres_head_in. simpl. auto.
    + apply IH; [intros; apply H; apply pres_tail_in; auto|exact E2].
Qed.

(* `(T)` in callee / selector position: the inner type is a grandchild *)
Lemma inner_sub k px r0 pp ps pa pb pf :
  (forall m, In m (pres k) -> te_sub m) -> k = NC (Nd TParen pp ps pa pb pf (NC px NN)) r0 ->
  forall l, te_insp skip px = R l -> subseq l (pres k).
Proof.
  intros H -> l E. rewrite pres_cons. apply subseq_app_l. rewrite pre_cons. constructor.
  rewrite pres_cons. apply subseq_app_l.
  apply (proj1 (H px (pres_head_in (Nd TParen pp ps pa pb pf (NC px NN)) r0 px (or_intror (pres_head_in px NN px (pre_self px)))))). exact E.
Qed.

Lemma te_sub_all : forall n, te_sub n.
Proof.
  apply node_desc_ind. intros [t p s a b ff k] IH. simpl in IH.
  assert (Hins : forall l, te_insps skip k = R l -> subseq l (pres k)) by (apply te_insps_sub; exact IH).
  assert (Hvis : forall l, app_r (R [Nd t p s a b ff k]) (if skip (Nd t p s a b ff k) then R [] else te_insps skip k) = R l ->
                 subseq l (pre (Nd t p s a b ff k))).
  { intros l E. apply app_r_R in E as [u [v [E1 [E2 ->]]]]. injection E1 as <-. simpl. constructor.
    destruct (skip _); [injection E2 as <-; constructor|auto]. }
  assert (Hdrop : forall l, te_insps skip k = R l -> subseq l (pre (Nd t p s a b ff k))).
  { intros l E. simpl. constructor. auto. }
  assert (Hif : forall l, app_r (R [Nd t p s a b ff k])
                    (if skip (Nd t p s a b ff k) then R [] else
                     match k with NC (Nd _ _ _ _ _ _ flds) _ => te_methods skip flds
                               | NN => P "typeExprWalker: x.Methods.List with nil Methods" end) = R l ->
                 subseq l (pre (Nd t p s a b ff k))).
  { intros l E. apply app_r_R in E as [u [v [E1 [E2 ->]]]]. injection E1 as <-. simpl. constructor.
    destruct (skip _); [injection E2 as <-; constructor|].
    destruct k as [|[t1 p1 s1 a1 b1 f1 flds] r0]; [discriminate|]. rewrite pres_cons. apply subseq_app_l. rewrite pre_cons. constructor.
    eapply te_methods_sub; eauto. intros m Hm. apply IH. rewrite pres_cons. apply in_or_app. left. rewrite pre_cons. right. exact Hm. }
  assert (Hone : forall l, R [Nd t p s a b ff k] = R l -> subseq l (pre (Nd t p s a b ff k))).
  { intros l [= <-]. simpl. constructor. constructor. }
  assert (Hnil : forall l, @R (list node) [] = R l -> subseq l (pre (Nd t p s a b ff k))).
  { intros l [= <-]. constructor. }
  repeat split; intros l E.
  - (* te_insp *)
    rewrite te_insp_eq in E. cbv zeta in E. destruct t; auto.
    + destruct k as [|x r0]; auto. destruct (xbit x_typeexpr x); auto.
    + destruct k as [|x r0]; auto. destruct (xbit x_typeexpr x); auto.
    + destruct k as [|[tx px sx ax bx fx kx] r0]; auto. destruct tx; auto.
      destruct kx as [|inner [|? ?]]; auto.
      destruct (_ && _); auto. rewrite pre_cons. constructor. exact (inner_sub _ inner r0 px sx ax bx fx IH eq_refl l E).
    + destruct k as [|[tx px sx ax bx fx kx] r0]; auto. destruct tx; auto.
      destruct kx as [|inner [|? ?]]; auto.
      destruct (_ && _); auto. rewrite pre_cons. constructor. exact (inner_sub _ inner r0 px sx ax bx fx IH eq_refl l E).
    + destruct (_ || _); auto. destruct (is_iface_type _); auto.
  - (* te_walk1 *)
    rewrite te_walk1_eq in E. cbv zeta in E. destruct t; auto.
    + destruct k as [|x r0]; auto. destruct (xbit x_typeexpr x); auto.
    + destruct k as [|x r0]; auto. destruct (xbit x_typeexpr x); auto.
    + destruct k as [|[tx px sx ax bx fx kx] r0]; auto. destruct tx; auto.
      destruct kx as [|inner [|? ?]]; auto.
      destruct (_ && _); auto. rewrite pre_cons. constructor. exact (inner_sub _ inner r0 px sx ax bx fx IH eq_refl l E).
    + destruct k as [|[tx px sx ax bx fx kx] r0]; auto. destruct tx; auto.
      destruct kx as [|inner [|? ?]]; auto.
      destruct (_ && _); auto. rewrite pre_cons. constructor. exact (inner_sub _ inner r0 px sx ax bx fx IH eq_refl l E).
    + destruct (_ || _); auto. destruct (is_iface_type _); auto.
  - (* te_sig *)
    rewrite te_sig_eq in E. simpl pre. constructor. eapply te_sig_lists_sub; eauto.
Qed.


(* --- no nil dereference on well-formed trees: Methods and Params lists exist --- *)
Definition te_tot (n : node) : Prop :=
  all_wf (pre n) ->
  (forall s, te_insp skip n <> P s) /\ (forall s, te_walk1 skip n <> P s) /\ (ntag n = TFuncType -> forall s, te_sig skip n <> P s).

Lemma all_wf_head x r : all_wf (pres (NC x r)) -> all_wf (pre x).
Proof. intros W m Hm. apply W. apply pres_head_in. exact Hm. Qed.
Lemma all_wf_tail x r : all_wf (pres (NC x r)) -> all_wf (pres r).
Proof. intros W m Hm. apply W. apply pres_tail_in. exact Hm. Qed.
Lemma all_wf_kids t p s a b ff k : all_wf (pre (Nd t p s a b ff k)) -> all_wf (pres k).
Proof. intros W m Hm. apply W. rewrite pre_cons. right. exact Hm. Qed.

Lemma te_insps_tot k : (forall m, In m (pres k) -> te_tot m) -> all_wf (pres k) -> forall s, te_insps skip k <> P s.
Proof.
  induction k as [|x r IH]; intros H W s; [discriminate|]. rewrite te_insps_cons. apply app_r_total.
  - apply (H x (pres_head_in x r x (pre_self x))). eapply all_wf_head; eauto.
  - apply IH; [intros; apply H; apply pres_tail_in; auto|eapply all_wf_tail; eauto].
Qed.

Lemma te_field_type_tot k : (forall m, In m (pres k) -> te_tot m) -> all_wf (pres k) -> forall i s, te_field_type skip i k <> P s.
Proof.
  induction k as [|x r IH]; intros H W i s; [rewrite te_field_type_nil; discriminate|]. destruct i.
  - rewrite te_field_type_0. apply (H x (pres_head_in x r x (pre_self x))). eapply all_wf_head; eauto.
  - rewrite te_field_type_S. apply IH; [intros; apply H; apply pres_tail_in; auto|eapply all_wf_tail; eauto].
Qed.

Lemma te_fields_tot k : (forall m, In m (pres k) -> te_tot m) -> all_wf (pres k) -> forall s, te_fields skip k <> P s.
Proof.
  induction k as [|x r IH]; intros H W s; [discriminate|]. destruct x as [t p s0 a b ff fk]. rewrite te_fields_cons. apply app_r_total.
  - apply te_field_type_tot.
    + intros m Hm. apply H. apply pres_head_in. rewrite pre_cons. right. exact Hm.
    + eapply all_wf_kids. eapply all_wf_head; eauto.
  - apply IH; [intros; apply H; apply pres_tail_in; auto|eapply all_wf_tail; eauto].
Qed.

Lemma te_sig_lists_tot k : (forall m, In m (pres k) -> te_tot m) -> all_wf (pres k) ->
  forall i lo hi need s, need < i + length (to_list k) -> te_sig_lists skip k i lo hi need <> P s.
Proof.
  induction k as [|x r IH]; intros H W i lo hi need s L.
  - rewrite te_sig_lists_nil. simpl in L. destruct (Nat.leb i need) eqn:E; [apply Nat.leb_le in E; lia|discriminate].
  - destruct x as [t p s0 a b ff flds]. rewrite te_sig_lists_cons. apply app_r_total.
    + destruct (_ && _); [|discriminate]. apply te_fields_tot.
      * intros m Hm. apply H. apply pres_head_in. rewrite pre_cons. right. exact Hm.
      * eapply all_wf_kids. eapply all_wf_head; eauto.
    + assert (L2 : need < S i + length (to_list r)) by (simpl in L; lia).
      exact (fun s1 => IH (fun m Hm => H m (pres_tail_in _ _ m Hm)) (all_wf_tail _ _ W) (S i) lo hi need s1 L2).
Qed.

Lemma te_method_type_tot k : (forall m, In m (pres k) -> te_tot m) -> all_wf (pres k) -> forall i s, te_method_type skip i k <> P s.
Proof.
  induction k as [|x r IH]; intros H W i s; [rewrite te_method_type_nil; discriminate|]. destruct i.
  - rewrite te_method_type_0.
    destruct (H x (pres_head_in x r x (pre_self x)) (all_wf_head _ _ W)) as [_ [H2 H3]].
    destruct (is_tag TFuncType x) eqn:T; [apply H3; apply is_tag_eq; exact T|apply H2].
  - rewrite te_method_type_S. apply IH; [intros; apply H; apply pres_tail_in; auto|eapply all_wf_tail; eauto].
Qed.

Lemma te_methods_tot k : (forall m, In m (pres k) -> te_tot m) -> all_wf (pres k) -> forall s, te_methods skip k <> P s.
Proof.
  induction k as [|x r IH]; intros H W s; [discriminate|]. destruct x as [t p s0 a b ff fk]. rewrite te_methods_cons. apply app_r_total.
  - apply te_method_type_tot.
    + intros m Hm. apply H. apply pres_head_in. rewrite pre_cons. right. exact Hm.
    + eapply all_wf_kids. eapply all_wf_head; eauto.
  - apply IH; [intros; apply H; apply pres_tail_in; auto|eapply all_wf_tail; eauto].
Qed.

Lemma R_total {A} (x : A) : forall s, R x <> P s.
Proof. discriminate. Qed.

Lemma wf_iface_kids n : wf_node n = true -> is_iface_type n = true -> exists fl, nkids n = NC fl NN.
Proof.
  destruct n as [t p s a b ff k]. unfold wf_node, is_iface_type, other_kind, kids. simpl.
  destruct t; try discriminate. intros W E. rewrite E in W. rewrite orb_true_r in W.
  destruct k as [|fl [|? ?]]; try discriminate. eauto.
Qed.

Lemma te_tot_all : forall n, te_tot n.
Proof.
  apply node_desc_ind. intros [t p s a b ff k] IH W. simpl in IH.
  pose proof (all_wf_kids _ _ _ _ _ _ _ W) as Wk.
  assert (Hins : forall s0, te_insps skip k <> P s0) by (apply te_insps_tot; auto).
  assert (Hvis : forall s0, app_r (R [Nd t p s a b ff k]) (if skip (Nd t p s a b ff k) then R [] else te_insps skip k) <> P s0).
  { apply app_r_total; [apply R_total|]. destruct (skip _); [apply R_total|exact Hins]. }
  assert (Hif : is_iface_type (Nd t p s a b ff k) = true -> forall s0, app_r (R [Nd t p s a b ff k])
                    (if skip (Nd t p s a b ff k) then R [] else
                     match k with NC (Nd _ _ _ _ _ _ flds) _ => te_methods skip flds
                               | NN => P "typeExprWalker: x.Methods.List with nil Methods" end) <> P s0).
  { intros Ti. apply app_r_total; [apply R_total|]. destruct (skip _); [apply R_total|].
    destruct (wf_iface_kids _ (W _ (pre_self _)) Ti) as [fl Kf]. simpl in Kf. subst k.
    destruct fl as [t1 p1 s1 a1 b1 f1 flds]. apply te_methods_tot.
    - intros m Hm. apply IH. apply pres_head_in. rewrite pre_cons. right. exact Hm.
    - eapply all_wf_kids. eapply all_wf_head; eauto. }
  assert (Hinner : forall px r0 pp ps pa pb pf, k = NC (Nd TParen pp ps pa pb pf (NC px NN)) r0 -> forall s0, te_insp skip px <> P s0).
  { intros px r0 pp ps pa pb pf ->.
    assert (Hin : In px (pres (NC (Nd TParen pp ps pa pb pf (NC px NN)) r0))).
    { apply pres_head_in. rewrite pre_cons. right. apply pres_head_in. apply pre_self. }
    apply (IH px Hin). intros m Hm. apply Wk. apply pres_head_in. rewrite pre_cons. right. apply pres_head_in. exact Hm. }
  repeat split.
  - intros s0. rewrite te_insp_eq. cbv zeta. destruct t; auto.
    + destruct k as [|x r0]; auto. destruct (xbit x_typeexpr x); auto.
    + destruct k as [|x r0]; auto. destruct (xbit x_typeexpr x); auto.
    + destruct k as [|[tx px sx ax bx fx kx] r0]; auto. destruct tx; auto.
      destruct kx as [|inner [|? ?]]; auto. destruct (_ && _); auto. eapply Hinner; eauto.
    + destruct k as [|[tx px sx ax bx fx kx] r0]; auto. destruct tx; auto.
      destruct kx as [|inner [|? ?]]; auto. destruct (_ && _); auto. eapply Hinner; eauto.
    + destruct (_ || _); auto. destruct (is_iface_type _) eqn:Ti; auto.
  - intros s0. rewrite te_walk1_eq. cbv zeta. destruct t; try apply R_total.
    + destruct k as [|x r0]; try apply R_total. destruct (xbit x_typeexpr x); apply R_total.
    + destruct k as [|x r0]; try apply R_total. destruct (xbit x_typeexpr x); apply R_total.
    + destruct k as [|[tx px sx ax bx fx kx] r0]; try apply R_total. destruct tx; try apply R_total.
      destruct kx as [|inner [|? ?]]; try apply R_total. destruct (_ && _); try apply R_total. eapply Hinner; eauto.
    + destruct k as [|[tx px sx ax bx fx kx] r0]; try apply R_total. destruct tx; try apply R_total.
      destruct kx as [|inner [|? ?]]; try apply R_total. destruct (_ && _); try apply R_total. eapply Hinner; eauto.
    + destruct (_ || _); try apply R_total. destruct (is_iface_type _) eqn:Ti; [auto|apply R_total].
  - intros T s0. simpl in T. subst t. rewrite te_sig_eq. apply te_sig_lists_tot; auto.
    pose proof (W _ (pre_self _)) as Wn. unfold wf_node in Wn. simpl in Wn.
    apply andb_true_iff in Wn as [Wn _]. apply andb_true_iff in Wn as [Wn _]. apply andb_true_iff in Wn as [Wn _].
    apply andb_true_iff in Wn as [Wn _]. apply Nat.eqb_eq in Wn. unfold kids in Wn. simpl in Wn. lia.
Qed.

Lemma te_insp_subseq n l : te_insp skip n = R l -> subseq l (pre n).
Proof. apply te_sub_all. Qed.
Lemma te_sig_subseq n l : te_sig skip n = R l -> subseq l (pre n).
Proof. apply te_sub_all. Qed.
End TE.

Lemma two_kids_subseq l : forall i ft b x y,
  nth_error (to_list l) i = Some ft -> nth_error (to_list l) (S i) = Some b ->
  subseq x (pre ft) -> subseq y (pre b) -> subseq (x ++ y) (pres l).
Proof.
  induction l as [|n r IH]; intros i ft b x y H1 H2 Hx Hy.
  - destruct i; discriminate.
  - destruct i; simpl in H1, H2.
    + injection H1 as ->. rewrite pres_cons. apply subseq_app; [exact Hx|].
      destruct r as [|n2 r2]; [discriminate|]. simpl in H2. injection H2 as ->. rewrite pres_cons. apply subseq_app_l. exact Hy.
    + rewrite pres_cons. apply subseq_app_r. eapply IH; eauto.
Qed.

Lemma walk_type_expr_subseq enter skip f l : walk_type_expr enter skip f = R l -> subseq l (all_nodes f).
Proof.
  unfold walk_type_expr, all_nodes. apply concat_r_subseq. intros d l0 Hd E.
  destruct (ntag d); try (injection E as <-; constructor).
  - destruct (negb (enter d)); [injection E as <-; constructor|].
    destruct (fd_type d) as [ft|] eqn:Eft; [|injection E as <-; constructor].
    apply app_r_R in E as [x [y [E1 [E2 ->]]]].
    destruct (fd_body d) as [b|] eqn:Eb; [|discriminate].
    unfold fd_type in Eft. unfold fd_body in Eb. destruct (N.eqb (nb d) 1); [|discriminate].
    apply te_sig_subseq in E1. apply te_insp_subseq in E2.
    destruct d as [t p s a b0 ff k]. unfold kids in *. simpl in Eft, Eb. rewrite pre_cons. constructor.
    replace (N.to_nat a + 2) with (S (N.to_nat a + 1)) in Eb by lia.
    exact (two_kids_subseq k _ ft b x y Eft Eb E1 E2).
  - destruct (N.eqb (na d) tok_IMPORT); [injection E as <-; constructor|]. eapply te_insp_subseq; eauto.
Qed.

Lemma walk_type_expr_total skip f : wf f = true -> forall s, walk_type_expr decl_entered skip f <> P s.
Proof.
  intros W. unfold walk_type_expr. apply concat_r_total. intros r Hr s. apply in_map_iff in Hr as [d [<- Hd]].
  pose proof (decl_in_all _ _ Hd) as Hd'.
  assert (Wd : all_wf (pre d)) by (intros m Hm; eapply wf_node_of; eauto; eapply all_nodes_closed; eauto).
  destruct (ntag d) eqn:T; try discriminate.
  - destruct (negb (decl_entered d)) eqn:E; [discriminate|]. apply negb_false_iff in E.
    destruct (fd_type d) as [ft|] eqn:Eft; [|discriminate].
    destruct (wf_funcdecl_body d (wf_node_of _ _ W Hd') T E) as [b Eb]. rewrite Eb.
    apply app_r_total.
    + apply (te_tot_all skip ft).
      * intros m Hm. apply Wd. eapply pre_kid; eauto. eapply fd_type_kid; eauto.
      * exact (wf_funcdecl_type d ft (wf_node_of _ _ W Hd') T Eft).
    + apply (te_tot_all skip b). intros m Hm. apply Wd. eapply pre_kid; eauto. eapply fd_body_kid; eauto.
  - destruct (N.eqb (na d) tok_IMPORT); [discriminate|]. apply (te_tot_all skip d). exact Wd.
Qed.

(* ---------- the comment walkers ---------- *)
Lemma concat_flush acc : concat (flush_group acc) = acc.
Proof. destruct acc; simpl; [reflexivity|rewrite app_nil_r; reflexivity]. Qed.

Lemma split_groups_concat l : forall acc, concat (split_groups l acc) = (acc ++ l)%list.
Proof.
  induction l as [|c r IH]; simpl; intros acc.
  - rewrite concat_flush, app_nil_r. reflexivity.
  - destruct (snd c).
    + rewrite concat_app, concat_flush. simpl. rewrite IH. reflexivity.
    + rewrite IH, <- app_assoc. reflexivity.
Qed.

(* every comment of the file is shown exactly once, in order: the shown groups partition f.Comments *)
Lemma walk_comments_partition cs : concat (walk_comments cs) = concat (c_groups cs).
Proof.
  unfold walk_comments. induction (c_groups cs) as [|g r IH]; simpl; [reflexivity|].
  rewrite concat_app, IH, split_groups_concat. reflexivity.
Qed.

(* a shown group is never empty (commentFormatting reads cg.List[0]) and never mixes the two comment forms *)
Definition group_uniform (g : list (N * bool)) : Prop :=
  g <> [] /\ (forallb (fun c => negb (snd c)) g = true \/ exists c, g = [c] /\ snd c = true).

Lemma flush_uniform acc g : forallb (fun c => negb (snd c)) acc = true -> In g (flush_group acc) -> group_uniform g.
Proof.
  destruct acc as [|a r]; simpl; intros H Hg; [contradiction|]. destruct Hg as [<-|[]]. split; [discriminate|left; exact H].
Qed.

Lemma split_groups_uniform l : forall acc g, forallb (fun c => negb (snd c)) acc = true -> In g (split_groups l acc) -> group_uniform g.
Proof.
  induction l as [|c r IH]; simpl; intros acc g Hacc Hg.
  - eapply flush_uniform; eauto.
  - destruct (snd c) eqn:B.
    + apply in_app_or in Hg as [Hg|[<-|Hg]].
      * eapply flush_uniform; eauto.
      * split; [discriminate|right; eauto].
      * eapply IH; [|exact Hg]. reflexivity.
    + eapply IH; [|exact Hg]. rewrite forallb_app, Hacc. simpl. rewrite B. reflexivity.
Qed.

Lemma walk_comments_uniform cs g : In g (walk_comments cs) -> group_uniform g.
Proof.
  unfold walk_comments. intros H. apply in_flat_map in H as [g0 [_ H]]. eapply split_groups_uniform; [|exact H]. reflexivity.
Qed.

Lemma split_groups_members l : forall acc g c, In g (split_groups l acc) -> In c g -> In c (acc ++ l)%list.
Proof.
  intros acc g c Hg Hc. rewrite <- split_groups_concat. apply in_concat. eauto.
Qed.

Lemma walk_local_comments_members enter f cs g c :
  In g (walk_local_comments enter f cs) -> In c g -> In c (concat (c_groups cs)) /\ group_uniform g.
Proof.
  unfold walk_local_comments. intros H Hc. apply in_flat_map in H as [dr [_ H]].
  destruct (_ && _); [|contradiction]. apply in_flat_map in H as [g0 [Hg0 H]].
  destruct (_ && _); [|contradiction]. split.
  - apply in_concat. exists g0. split; [exact Hg0|]. apply (split_groups_members g0 [] g c H Hc).
  - eapply split_groups_uniform; [|exact H]. reflexivity.
Qed.

Lemma doc_lookup_In tbl code pos g : In g (doc_lookup tbl code pos) -> In (code, pos, g) tbl.
Proof.
  induction tbl as [|[[c p] g0] r IH]; simpl; [tauto|].
  destruct (N.eqb c code && N.eqb p pos) eqn:E.
  - intros [<-|[]]. apply andb_true_iff in E as [E1 E2]. apply N.eqb_eq in E1, E2. subst. auto.
  - intros H. right. auto.
Qed.

(* the doc-comment walker only shows Doc fields, and only of nodes of the file *)
Lemma walk_doc_comments_docs f cs g :
  In g (walk_doc_comments f cs) -> exists n, In n (all_nodes f) /\ In (tag_code n, npos n, g) (c_docs cs).
Proof.
  unfold walk_doc_comments. intros H. apply in_flat_map in H as [d [Hd H]]. apply decl_in_all in Hd.
  assert (K : forall n, In n (all_nodes f) -> In g (doc_of cs n) -> exists n0, In n0 (all_nodes f) /\ In (tag_code n0, npos n0, g) (c_docs cs)).
  { intros n Hn Hg. exists n. split; [exact Hn|]. apply doc_lookup_In. exact Hg. }
  destruct (ntag d); try contradiction.
  - eapply K; eauto.
  - apply in_app_or in H as [H|H]; [eapply K; eauto|].
    apply in_flat_map in H as [spec [Hs H]].
    assert (Hs' : In spec (all_nodes f)) by (eapply all_nodes_kid; eauto).
    destruct (_ || _); [eapply K; eauto|].
    destruct (is_tag TTypeSpec spec); [|contradiction].
    apply in_app_or in H as [H|H]; [eapply K; eauto|].
    destruct (rev (kids spec)) as [|ty ?] eqn:Rv; [contradiction|].
    apply in_flat_map in H as [fld [Hf H]]. apply filter_In in Hf as [Hf _].
    apply (K fld); [|exact H]. eapply all_nodes_closed; [|exact Hf]. eapply all_nodes_kid; eauto.
    apply in_rev. rewrite Rv. left. reflexivity.
Qed.
