(* Properties_C20.v — property C20 (API-specific diagnostics are about the real API) for modelled checkers. *)
From GC Require Import Base GoAst Model_Checkers Model_Checkers_Prefix Model_Checkers2 Proofs_Checkers Proofs_Checkers2 Proofs_Witnesses.

Theorem C20_flagName_real : forall f w, In w (warnings (run_flagName f)) -> w_callee w = OPkgName "flag" /\ is_real w = true.
Proof. exact flagName_real. Qed.
Print Assumptions C20_flagName_real.

Theorem C20_newDeref_real_refuted : exists f, wf f = true /\ exists w, In w (warnings (run_newDeref f)) /\ is_real w = false.
Proof. exact newDeref_real_refuted. Qed.
Print Assumptions C20_newDeref_real_refuted.

Theorem C20_appendAssign_real_refuted : exists f, wf f = true /\ exists w, In w (warnings (run_appendAssign f)) /\ is_real w = false.
Proof. exact appendAssign_real_refuted. Qed.
Print Assumptions C20_appendAssign_real_refuted.

Theorem C20_appendCombine_real_refuted : exists f, wf f = true /\ exists w, In w (warnings (run_appendCombine f)) /\ is_real w = false.
Proof. exact appendCombine_real_refuted. Qed.
Print Assumptions C20_appendCombine_real_refuted.

Theorem C20_rangeAppendAll_real_refuted : exists f, wf f = true /\ exists w, In w (warnings (run_rangeAppendAll f)) /\ is_real w = false.
Proof. exact rangeAppendAll_real_refuted. Qed.
Print Assumptions C20_rangeAppendAll_real_refuted.

Theorem C20_sortSlice_real_refuted : exists f, wf f = true /\ exists w, In w (warnings (run_sortSlice f)) /\ is_real w = false.
Proof. exact sortSlice_real_refuted. Qed.
Print Assumptions C20_sortSlice_real_refuted.

Theorem C20_filepathJoin_real_refuted : exists f, wf f = true /\ exists w, In w (warnings (run_filepathJoin f)) /\ is_real w = false.
Proof. exact filepathJoin_real_refuted. Qed.
Print Assumptions C20_filepathJoin_real_refuted.

Theorem C20_truncateCmp_real_refuted : exists f, wf f = true /\ exists w, In w (warnings (run_truncateCmp true f)) /\ is_real w = false.
Proof. exact truncateCmp_real_refuted. Qed.
Print Assumptions C20_truncateCmp_real_refuted.

(* nilValReturn consults go/types since the fix (TypesInfo.Types[expr.Y].IsNil()): every warning is about the predeclared nil *)
Theorem C20_nilValReturn_real : forall f, wf f = true -> forall w, In w (warnings (run_nilValReturn f)) -> is_real w = true.
Proof. exact nilValReturn_real. Qed.
Print Assumptions C20_nilValReturn_real.

Theorem C20_prefix_nilValReturn_real_refuted : exists f, wf f = true /\ exists w, In w (warnings (run_nilValReturn_prefix f)) /\ is_real w = false.
Proof. exact nilValReturn_prefix_real_refuted. Qed.
Print Assumptions C20_prefix_nilValReturn_real_refuted.

Theorem C20_nilValReturn_silent_on_namesake : wf Witnesses.ns_nil_local = true /\ run_nilValReturn Witnesses.ns_nil_local = Ok [].
Proof. exact nilValReturn_silent_on_namesake. Qed.
Print Assumptions C20_nilValReturn_silent_on_namesake.

Theorem C20_newDeref_real_partial : forall f, all_nodes_sat (g_no_namesake_bare "new") f -> forall w, In w (warnings (run_newDeref f)) -> is_real w = true.
Proof. exact (fun f G w H => newDeref_real_partial f w G H). Qed.
Print Assumptions C20_newDeref_real_partial.

Theorem C20_flagName_silent_on_namesakes : wf Witnesses.ns_flag_pkgvar = true /\ run_flagName Witnesses.ns_flag_pkgvar = Ok [].
Proof. exact flagName_silent_on_namesakes. Qed.
Print Assumptions C20_flagName_silent_on_namesakes.

Example C20_no_namesake_satisfiable :
  wf Witnesses.ns_filepath_alias = true /\ forallb (g_no_namesake_bare "new") (all_nodes Witnesses.ns_filepath_alias) = true.
Proof. exact no_namesake_satisfiable. Qed.

(* ---------- exitAfterDefer (Model_Checkers2.v): log.Fatal* / os.Exit are recognised by spelling ---------- *)

Theorem C20_exitAfterDefer_real_refuted : exists f, wf f = true /\ exists w, In w (warnings (run_exitAfterDefer f)) /\ is_real w = false.
Proof. exact (exitAfterDefer_real_refuted). Qed.
Print Assumptions C20_exitAfterDefer_real_refuted.

Theorem C20_exitAfterDefer_real_partial : forall f, all_nodes_sat g_no_namesake_exit f -> forall w, In w (warnings (run_exitAfterDefer f)) -> is_real w = true.
Proof. exact (fun f G w H => exitAfterDefer_real_partial f w G H). Qed.
Print Assumptions C20_exitAfterDefer_real_partial.

Example C20_no_exit_namesake_satisfiable :
  wf Witnesses.ns_filepath_alias = true /\ forallb g_no_namesake_exit (all_nodes Witnesses.ns_filepath_alias) = true.
Proof. exact no_exit_namesake_satisfiable. Qed.
