(* Proofs_Prec.v — lemmas about Model_Prec: textual substitution commutes with printing, preserves
   well-precedencedness under the level conditions, and well-precedenced trees are read back by the grammar. *)
From GC Require Import Base Model_Prec.
From Coq Require Import Arith Lia.
Local Open Scope list_scope.

Section ex_induction.
  Variable P : ex -> Prop.
  Hypothesis Hatom : forall s, P (EAtom s).
  Hypothesis Hhole : forall x, P (EHole x).
  Hypothesis Hparen : forall e, P e -> P (EParen e).
  Hypothesis Hun : forall op e, P e -> P (EUn op e).
  Hypothesis Hbin : forall p op l r, P l -> P r -> P (EBin p op l r).
  Hypothesis Hsel : forall e f, P e -> P (ESel e f).
  Hypothesis Happ : forall h o c ks, P h -> Forall P ks -> P (EApp h o c ks).
  Hypothesis Hseq : forall ks, Forall P ks -> P (ESeq ks).
  Fixpoint ex_ind' (e : ex) : P e :=
    match e with
    | EAtom s => Hatom s
    | EHole x => Hhole x
    | EParen e => Hparen e (ex_ind' e)
    | EUn op e => Hun op e (ex_ind' e)
    | EBin p op l r => Hbin p op l r (ex_ind' l) (ex_ind' r)
    | ESel e f => Hsel e f (ex_ind' e)
    | EApp h o c ks => Happ h o c ks (ex_ind' h)
        ((fix go (ks : list ex) : Forall P ks :=
            match ks with [] => Forall_nil P | k :: ks' => Forall_cons k (ex_ind' k) (go ks') end) ks)
    | ESeq ks => Hseq ks
        ((fix go (ks : list ex) : Forall P ks :=
            match ks with [] => Forall_nil P | k :: ks' => Forall_cons k (ex_ind' k) (go ks') end) ks)
    end.
End ex_induction.

Lemma pp_app_eq h o c ks : pp (EApp h o c ks) = pp h ++ T o :: commas ks ++ [T c].
Proof. reflexivity. Qed.

Lemma pp_seq_eq ks : pp (ESeq ks) = semis ks.
Proof. reflexivity. Qed.

Lemma tsubst_app s a b : tsubst s (a ++ b) = tsubst s a ++ tsubst s b.
Proof. unfold tsubst. apply flat_map_app. Qed.

Lemma tsubst_cons_T s a w : tsubst s (T a :: w) = T a :: tsubst s w.
Proof. reflexivity. Qed.

(* printing the substituted tree = substituting the printed bindings into the printed template:
   the text ruleguard produces is the text of the tree the rule author meant *)
Lemma pp_subst s e : pp (subst s e) = tsubst s (pp e).
Proof.
  induction e as [a|x|e IH|op e IH|p op l r IHl IHr|e f IH|h o c ks IHh IHks|ks IHks] using ex_ind'.
  - reflexivity.
  - cbn [subst pp tsubst flat_map tsubst1]. destruct (s x); [rewrite app_nil_r|]; reflexivity.
  - cbn [subst pp]. rewrite tsubst_cons_T, tsubst_app, IH. reflexivity.
  - cbn [subst pp]. rewrite tsubst_cons_T, IH. reflexivity.
  - cbn [subst pp]. rewrite tsubst_app, tsubst_cons_T, IHl, IHr. reflexivity.
  - cbn [subst pp]. rewrite tsubst_app, IH. reflexivity.
  - cbn [subst]. rewrite !pp_app_eq, tsubst_app, tsubst_cons_T, tsubst_app, IHh. do 3 f_equal.
    induction IHks as [|k ks Hk _ IH]; [reflexivity|].
    cbn [map commas]. rewrite tsubst_app, Hk. f_equal.
    destruct ks as [|k' ks]; [reflexivity|]. cbn [map]. rewrite tsubst_cons_T. f_equal. exact IH.
  - cbn [subst]. rewrite !pp_seq_eq.
    induction IHks as [|k ks Hk _ IH]; [reflexivity|].
    cbn [map semis]. rewrite tsubst_app, tsubst_cons_T, Hk, IH. reflexivity.
Qed.

(* the bindings respect the assumed levels: what is bound to x is itself well-precedenced and at least as tight as g x *)
Definition respects (g g' : hl) (s : sub) : Prop :=
  forall x, match s x with
            | Some e => wp g' e = true /\ g x <= level g' e
            | None => g x <= g' x
            end.

Lemma forallb_map_wp g g' s ks :
  Forall (fun e => wp g e = true -> wp g' (subst s e) = true /\ level g e <= level g' (subst s e)) ks ->
  forallb (wp g) ks = true -> forallb (wp g') (map (subst s) ks) = true.
Proof.
  induction 1 as [|k ks Hk _ IH]; [reflexivity|].
  cbn [forallb map]. rewrite !andb_true_iff. intros [H1 H2]. split; [apply Hk, H1|apply IH, H2].
Qed.

Lemma wp_subst g g' s e : respects g g' s -> wp g e = true ->
  wp g' (subst s e) = true /\ level g e <= level g' (subst s e).
Proof.
  intros Hs.
  induction e as [a|x|e IH|op e IH|p op l r IHl IHr|e f IH|h o c ks IHh IHks|ks IHks] using ex_ind'; intros Hwp.
  - split; [reflexivity|cbn; lia].
  - cbn [subst level]. specialize (Hs x). destruct (s x) as [e'|]; [exact Hs|]. split; [reflexivity|exact Hs].
  - cbn [wp subst level] in *. split; [apply IH, Hwp|lia].
  - cbn [wp subst] in *. apply andb_true_iff in Hwp as [H1 H2]. apply Nat.leb_le in H2.
    destruct (IH H1) as [W L]. split; [|cbn [level]; lia].
    cbn [wp]. rewrite W. cbn [andb]. apply Nat.leb_le. lia.
  - cbn [wp subst] in *. repeat (apply andb_true_iff in Hwp as [Hwp ?]).
    repeat match goal with Hx : Nat.leb _ _ = true |- _ => apply Nat.leb_le in Hx end.
    destruct (IHl ltac:(assumption)) as [Wl Ll]. destruct (IHr ltac:(assumption)) as [Wr Lr].
    split; [|cbn [level]; lia].
    cbn [wp]. rewrite Wl, Wr. repeat (apply andb_true_iff; split); try reflexivity; apply Nat.leb_le; lia.
  - cbn [wp subst] in *. apply andb_true_iff in Hwp as [H1 H2]. apply Nat.leb_le in H2.
    destruct (IH H1) as [W L]. split; [|cbn [level]; lia].
    cbn [wp]. rewrite W. cbn [andb]. apply Nat.leb_le. lia.
  - cbn [wp subst] in *. apply andb_true_iff in Hwp as [Hwp H3]. apply andb_true_iff in Hwp as [H1 H2].
    apply Nat.leb_le in H2. destruct (IHh H1) as [W L]. split; [|cbn [level]; lia].
    cbn [wp]. rewrite W. cbn [andb]. apply andb_true_iff; split; [apply Nat.leb_le; lia|].
    eapply forallb_map_wp; eassumption.
  - cbn [wp subst] in *. split; [|cbn [level]; lia]. eapply forallb_map_wp; eassumption.
Qed.

Lemma GC_commas g ks : Forall (fun k => G g 0 (pp k) k) ks -> GC g (commas ks) ks.
Proof.
  induction 1 as [|k ks Hk Hks IH]; [constructor|].
  cbn [commas]. destruct ks as [|k' ks].
  - rewrite app_nil_r. constructor. exact Hk.
  - constructor; assumption.
Qed.

Lemma GS_semis g ks : Forall (fun k => G g 0 (pp k) k) ks -> GS g (semis ks) ks.
Proof.
  induction 1 as [|k ks Hk Hks IH]; [constructor|]. cbn [semis]. constructor; assumption.
Qed.

Lemma Forall_wp_G g ks :
  Forall (fun e => wp g e = true -> G g (level g e) (pp e) e) ks -> forallb (wp g) ks = true ->
  Forall (fun k => G g 0 (pp k) k) ks.
Proof.
  induction 1 as [|k ks Hk _ IH]; [constructor|].
  cbn [forallb]. rewrite andb_true_iff. intros [H1 H2]. constructor; [|apply IH, H2].
  eapply G_weaken; [apply Hk, H1|lia].
Qed.

(* a well-precedenced tree is read back, from its own printed tokens, as itself, at its own level *)
Lemma wp_G g e : wp g e = true -> G g (level g e) (pp e) e.
Proof.
  induction e as [a|x|e IH|op e IH|p op l r IHl IHr|e f IH|h o c ks IHh IHks|ks IHks] using ex_ind'; intros Hwp.
  - constructor.
  - constructor.
  - cbn [wp level pp] in *. constructor. eapply G_weaken; [apply IH, Hwp|lia].
  - cbn [wp level pp] in *. apply andb_true_iff in Hwp as [H1 H2]. apply Nat.leb_le in H2.
    constructor. eapply G_weaken; [apply IH, H1|exact H2].
  - cbn [wp level pp] in *. repeat (apply andb_true_iff in Hwp as [Hwp ?]).
    repeat match goal with Hx : Nat.leb _ _ = true |- _ => apply Nat.leb_le in Hx end.
    constructor; try assumption.
    + eapply G_weaken; [apply IHl; assumption|assumption].
    + eapply G_weaken; [apply IHr; assumption|assumption].
  - cbn [wp level pp] in *. apply andb_true_iff in Hwp as [H1 H2]. apply Nat.leb_le in H2.
    constructor. eapply G_weaken; [apply IH, H1|exact H2].
  - cbn [wp level] in *. rewrite pp_app_eq.
    apply andb_true_iff in Hwp as [Hwp H3]. apply andb_true_iff in Hwp as [H1 H2]. apply Nat.leb_le in H2.
    constructor.
    + eapply G_weaken; [apply IHh, H1|exact H2].
    + apply GC_commas. eapply Forall_wp_G; eassumption.
  - cbn [wp level] in *. rewrite pp_seq_eq. constructor. apply GS_semis. eapply Forall_wp_G; eassumption.
Qed.

(* the text produced by rendering a template is read by the grammar as the tree the template denotes *)
Lemma template_subst_parses g g' s tpl : respects g g' s -> wp g tpl = true ->
  G g' (level g tpl) (tsubst s (pp tpl)) (subst s tpl).
Proof.
  intros Hs Hwp. destruct (wp_subst g g' s tpl Hs Hwp) as [W L].
  rewrite <- pp_subst. eapply G_weaken; [apply wp_G, W|exact L].
Qed.

(* ... and stays so inside every context that accepted the matched code, when the template is not looser than the pattern *)
Definition hole_sub (x : string) (e : ex) : sub := fun y => if String.eqb y x then Some e else None.

Lemma fix_in_context_parses g g' s pat tpl ctx lvl_ctx :
  respects g g' s -> wp g tpl = true ->
  level g pat <= level g tpl ->
  (* the context is well-precedenced when its hole "@" holds something as tight as the pattern *)
  wp (fun y => if String.eqb y "@" then level g pat else g' y) ctx = true ->
  lvl_ctx = level (fun y => if String.eqb y "@" then level g pat else g' y) ctx ->
  G g' lvl_ctx (tsubst (hole_sub "@" (subst s tpl)) (pp ctx)) (subst (hole_sub "@" (subst s tpl)) ctx).
Proof.
  intros Hs Hwp Hlv Hctx ->.
  destruct (wp_subst g g' s tpl Hs Hwp) as [W L].
  apply template_subst_parses; [|exact Hctx].
  intros y. unfold hole_sub. destruct (String.eqb y "@"); [split; [exact W|lia]|lia].
Qed.

(* the table conditions imply the hypotheses of the two lemmas above *)
Lemma entry_ok_spec e : entry_ok e = true ->
  wp (guar e) (pe_tpl e) = true /\ level (guar e) (pe_pat e) <= level (guar e) (pe_tpl e).
Proof.
  unfold entry_ok. rewrite andb_true_iff, Nat.leb_le. tauto.
Qed.

(* ---- refutations: the two shapes of failure, as derivations of a DIFFERENT tree from the rendered text ---- *)

(* redundantSprint: fmt.Sprint($x) => $x.String() with $x bound to *p *)
Definition sprint_tpl : ex := EApp (ESel (EHole "x") "String") "(" ")" [].
Definition deref_p : ex := EUn "*" (EAtom "p").
Definition sprint_sub : sub := hole_sub "x" deref_p.
Definition sprint_intended : ex := subst sprint_sub sprint_tpl.           (* ( *p ).String() *)
Definition sprint_actual : ex := EUn "*" (EApp (ESel (EAtom "p") "String") "(" ")" []).  (* *( p.String() ) *)

Lemma sprint_regroups :
  G (fun _ => 0) 0 (tsubst sprint_sub (pp sprint_tpl)) sprint_actual /\ sprint_actual <> sprint_intended
  /\ wp (fun _ => 0) sprint_tpl = false.
Proof.
  split; [|split; [discriminate|reflexivity]].
  change (tsubst sprint_sub (pp sprint_tpl)) with (T "*" :: ([T "p"] ++ [T "."; T "String"]) ++ T "(" :: [] ++ [T ")"]).
  eapply G_weaken; [|apply Nat.le_0_l].
  apply G_un. eapply G_weaken; [|apply Nat.le_succ_diag_r].
  apply G_app; [|constructor]. apply G_sel. constructor.
Qed.

(* stringConcatSimplify: strings.Join([]string{$x,$y}, "") => $x + $y inside the context @[1:] *)
Definition concat_tpl : ex := EBin 4 "+" (EHole "x") (EHole "y").
Definition concat_sub : sub := fun y => if String.eqb y "x" then Some (EAtom "a") else if String.eqb y "y" then Some (EAtom "b") else None.
Definition slice_ctx : ex := EApp (EHole "@") "[" "]" [ESeq [EAtom "1:"]].
Definition concat_intended : ex := subst (hole_sub "@" (subst concat_sub concat_tpl)) slice_ctx.
Definition concat_actual : ex := EBin 4 "+" (EAtom "a") (EApp (EAtom "b") "[" "]" [ESeq [EAtom "1:"]]).

Lemma concat_regroups :
  G (fun _ => 0) 0 (tsubst (hole_sub "@" (subst concat_sub concat_tpl)) (pp slice_ctx)) concat_actual
  /\ concat_actual <> concat_intended.
Proof.
  split; [|discriminate].
  change (tsubst (hole_sub "@" (subst concat_sub concat_tpl)) (pp slice_ctx))
    with ([T "a"] ++ T "+" :: ([T "b"] ++ T "[" :: ([T "1:"] ++ T ";" :: []) ++ [T "]"])).
  eapply G_weaken; [|apply Nat.le_0_l].
  apply G_bin; [lia|lia|eapply G_weaken; [constructor|lia]|].
  eapply G_weaken; [|instantiate (1 := 7); lia].
  apply G_app; [constructor|]. apply GC_one. apply G_seq. apply GS_cons; [|constructor].
  eapply G_weaken; [constructor|lia].
Qed.
