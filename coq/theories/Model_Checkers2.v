(* Model_Checkers2.v — second batch of transliterated hand-written checkers over GoAst (no proofs here).

   Same conventions as Model_Checkers.v: every partial Go operation (index, slice, unchecked type assertion, nil
   dereference) is an explicit [Panic]/[P] site; accesses that are partial only through the rose-tree encoding fall
   back to "no match" ([wf] guarantees the shape, the tie evaluates [wf] on every converted file); recursion is
   structural.  The warning order is the order of the ctx.Warn calls. *)
From GC Require Import Base GoAst Model_Checkers.

Definition xbit (k : N) (n : node) : bool := N.testbit (f_ext (nfacts n)) k.

Definition w0 (c : string) (cause : node) : warning := mkw c cause RNoSubject cause true.

(* ---------- astwalk.WalkerForFuncDecl ---------- *)
(* [enter_all]: the checker overrides EnterFunc to return true (paramTypeCombine); the default skips body-less functions *)
Definition func_decls (enter_all : bool) (f : file) : list node :=
  filter (fun d => is_tag TFuncDecl d && (enter_all || N.eqb (nb d) 1)) (decls f).

Definition run_funcdecl (enter_all : bool) (visit : node -> outcome) (f : file) : outcome :=
  seq_o (map visit (func_decls enter_all f)).

(* fields of a FuncDecl / FuncType / Field through the encoding *)
Definition fd_recv (d : node) : option node := if N.eqb (na d) 1 then nth_error (kids d) 0 else None.
Definition fd_name (d : node) : option node := nth_error (kids d) (N.to_nat (na d)).
Definition fd_type (d : node) : option node := nth_error (kids d) (N.to_nat (na d) + 1).
Definition fd_body (d : node) : option node := if N.eqb (nb d) 1 then nth_error (kids d) (N.to_nat (na d) + 2) else None.
Definition ft_params (ft : node) : option node := nth_error (kids ft) (N.to_nat (na ft)).
Definition ft_results (ft : node) : option node := if N.eqb (nb ft) 1 then nth_error (kids ft) (N.to_nat (na ft) + 1) else None.
Definition field_type (fld : node) : option node := nth_error (kids fld) (N.to_nat (na fld)).

(* ================= builtinShadowDecl (own file walker) ================= *)
Definition go_builtins : list string :=
  ["any"; "bool"; "byte"; "comparable"; "complex64"; "complex128"; "error"; "float32"; "float64"; "int"; "int8"; "int16"; "int32";
   "int64"; "rune"; "string"; "uint"; "uint8"; "uint16"; "uint32"; "uint64"; "uintptr"; "true"; "false"; "iota"; "nil";
   "append"; "cap"; "clear"; "close"; "complex"; "copy"; "delete"; "imag"; "len"; "make"; "min"; "max"; "new"; "panic"; "print";
   "println"; "real"; "recover"].

Definition is_builtin (s : string) : bool := mem s go_builtins.

Definition bsd_check (nm : node) : list warning :=
  if is_builtin (nstr nm) then [w0 "builtinShadowDecl" nm] else [].

Definition bsd_spec (spec : node) : list warning :=
  match ntag spec with
  | TValueSpec => flat_map bsd_check (firstn (N.to_nat (na spec)) (kids spec))
  | TTypeSpec => match kids spec with nm :: _ => bsd_check nm | [] => [] end
  | _ => []
  end.

Definition bsd_decl (d : node) : list warning :=
  match ntag d with
  | TFuncDecl => if N.eqb (na d) 0 then match fd_name d with Some nm => bsd_check nm | None => [] end else []
  | TGenDecl => flat_map bsd_spec (kids d)
  | _ => []
  end.

Definition run_builtinShadowDecl (f : file) : outcome := Ok (flat_map bsd_decl (decls f)).

(* ================= defaultCaseOrder (Stmt walker) ================= *)
Definition switch_body (s : node) : option node :=
  match ntag s with
  | TSwitch => nth_error (kids s) (N.to_nat (na s) + N.to_nat (nb s))
  | TTypeSwitch => nth_error (kids s) (N.to_nat (na s) + 1)
  | _ => None
  end.

Fixpoint dco_loop (l : list node) (i len : nat) : list warning :=
  match l with
  | [] => []
  | c :: r =>
      ((if is_tag TCaseClause c && N.eqb (na c) 0 && negb (Nat.eqb i 0) && negb (Nat.eqb i (len - 1))
        then [w0 "defaultCaseOrder" c] else []) ++ dco_loop r (S i) len)%list
  end.

Definition defaultCaseOrder_visit (stmt : node) : outcome :=
  if negb (is_tag TSwitch stmt) then Ok [] else
  match switch_body stmt with
  | Some body => Ok (dco_loop (kids body) 0 (length (kids body)))
  | None => Ok []
  end.

Definition run_defaultCaseOrder (f : file) : outcome := run_stmt defaultCaseOrder_visit f.

(* ================= emptyFallthrough (Stmt walker) ================= *)
Definition case_body (cc : node) : list node := skipn (N.to_nat (na cc)) (kids cc).

(* the loop runs from the last clause to the first *)
Fixpoint ef_loop (rev_clauses : list node) (prev_default : bool) : list warning :=
  match rev_clauses with
  | [] => []
  | cc :: r =>
      if negb (is_tag TCaseClause cc) then ef_loop r prev_default else
      match case_body cc with
      | [bs] =>                                            (* len(cc.Body) == 1; cc.Body[0] *)
          if is_tag TBranch bs && N.eqb (na bs) tok_FALLTHROUGH then
            ((if prev_default then [w0 "emptyFallthrough" bs]
              else if negb (N.eqb (na cc) 0) then [w0 "emptyFallthrough" bs] else []) ++ ef_loop r prev_default)%list
          else ef_loop r (N.eqb (na cc) 0)
      | _ => ef_loop r (N.eqb (na cc) 0)
      end
  end.

Definition emptyFallthrough_visit (stmt : node) : outcome :=
  if negb (is_tag TSwitch stmt) then Ok [] else
  match switch_body stmt with
  | Some body => Ok (ef_loop (rev (kids body)) false)
  | None => Ok []
  end.

Definition run_emptyFallthrough (f : file) : outcome := run_stmt emptyFallthrough_visit f.

(* ================= initClause (Stmt walker) ================= *)
Definition init_clause (stmt : node) : option node :=
  match ntag stmt with
  | TIf | TSwitch => if N.eqb (na stmt) 1 then nth_error (kids stmt) 0 else None
  | _ => None
  end.

Definition initClause_visit (stmt : node) : outcome :=
  match init_clause stmt with
  | Some cl => if is_tag TAssign cl then Ok [] else Ok [w0 "initClause" stmt]
  | None => Ok []
  end.

Definition run_initClause (f : file) : outcome := run_stmt initClause_visit f.

(* ================= singleCaseSwitch (Stmt walker) ================= *)
(* hasBreak: astutil.Apply pre-order; loops, selects and expression switches are not entered *)
Fixpoint has_break (n : node) : bool :=
  match n with
  | Nd t _ _ a _ _ k =>
      match t with
      | TBranch => N.eqb a tok_BREAK || has_breaks k
      | TFor | TRange | TSelect | TSwitch => false
      | _ => has_breaks k
      end
  end
with has_breaks (l : nodes) : bool :=
  match l with NN => false | NC x r => has_break x || has_breaks r end.

Definition singleCaseSwitch_visit (stmt : node) : outcome :=
  match switch_body stmt with
  | None => Ok []
  | Some body =>
      match kids body with
      | [cc] =>
          if negb (is_tag TCaseClause cc) then Panic "singleCaseSwitch: body.List[0] asserted to be a CaseClause" else
          if has_break cc then Ok [] else
          if N.eqb (na cc) 0 then Ok [w0 "singleCaseSwitch" stmt]
          else if N.eqb (na cc) 1 then Ok [w0 "singleCaseSwitch" stmt] else Ok []
      | _ => Ok []
      end
  end.

Definition run_singleCaseSwitch (f : file) : outcome := run_stmt singleCaseSwitch_visit f.

(* ================= elseif (Stmt walker; parameter skipBalanced) ================= *)
Definition if_body (s : node) : option node := nth_error (kids s) (N.to_nat (na s) + 1).
Definition if_else (s : node) : option node := if N.eqb (nb s) 1 then nth_error (kids s) (N.to_nat (na s) + 2) else None.

Definition elseif_visit (skip_balanced : bool) (stmt : node) : outcome :=
  if negb (is_tag TIf stmt) then Ok [] else
  match if_else stmt with
  | None => Ok []
  | Some els =>
      if negb (is_tag TBlock els) then Ok [] else
      match kids els with
      | [inner] =>
          if negb (is_tag TIf inner) then Ok [] else
          let balanced := match if_body stmt with
                          | Some b => match kids b with [s0] => is_tag TIf s0 | _ => false end
                          | None => false
                          end in
          if balanced && skip_balanced then Ok [] else
          if N.eqb (nb inner) 1 || N.eqb (na inner) 1 then Ok [] else
          Ok [w0 "elseif" els]
      | _ => Ok []
      end
  end.

Definition run_elseif (skip_balanced : bool) (f : file) : outcome := run_stmt (elseif_visit skip_balanced) f.

(* ================= deferInLoop (FuncDecl walker; nested ast.Inspect with the inFor flag) ================= *)
Fixpoint dil (in_for : bool) (n : node) : list warning :=
  match n with
  | Nd t _ _ _ _ _ k =>
      match t with
      | TDefer => ((if in_for then [w0 "deferInLoop" n] else []) ++ dils in_for k)%list
      | TRange | TFor => dils true k
      | TFuncLit => match k with NC _ body => dils false body | NN => [] end   (* ast.Inspect(n.Body, inFor = false) *)
      | _ => dils in_for k
      end
  end
with dils (in_for : bool) (l : nodes) : list warning :=
  match l with NN => [] | NC x r => (dil in_for x ++ dils in_for r)%list end.

Definition deferInLoop_visit (d : node) : outcome :=
  match fd_body d with Some b => Ok (dil false b) | None => Ok [] end.

Definition run_deferInLoop (f : file) : outcome := run_funcdecl false deferInLoop_visit f.

(* ================= unnamedResult (FuncDecl walker; parameter checkExported) ================= *)
Definition ur_is (name : string) (x : node) : bool := String.eqb (qualified_name x) name.

Fixpoint ur_loop (d : node) (tys : list node) (seen : list string) : list warning :=
  match tys with
  | [] => []
  | ty :: r =>
      let name := f_tn (nfacts ty) in
      let is_last := match r with [] => true | _ => false end in
      if negb (mem name seen) || (is_last && (ur_is "error" ty || ur_is "bool" ty))
      then ur_loop d r (name :: seen)
      else [w0 "unnamedResult" d]
  end.

Definition num_fields (fl : node) : nat :=
  fold_right (fun fld acc => (if N.eqb (na fld) 0 then 1 else N.to_nat (na fld)) + acc) 0 (kids fl).

Definition unnamedResult_visit (check_exported : bool) (d : node) : outcome :=
  match fd_name d, fd_type d with
  | Some nm, Some ft =>
      if check_exported && negb (xbit x_exported nm) then Ok [] else
      match ft_results ft with
      | None => Ok []
      | Some results =>
          let flds := kids results in
          if match flds with f0 :: _ => negb (N.eqb (na f0) 0) | [] => false end then Ok [] else
          if Nat.eqb (num_fields results) 2 then
            match flds with
            | f0 :: f1 :: _ =>
                match field_type f0, field_type f1 with
                | Some t1, Some t2 =>
                    let n1 := f_tn (nfacts t1) in
                    let n2 := f_tn (nfacts t2) in
                    let cond := (negb (String.eqb n1 n2) && negb (String.eqb n2 "")) ||
                                (negb (ur_is "error" t1) && ur_is "error" t2) ||
                                (negb (ur_is "bool" t1) && ur_is "bool" t2) in
                    if cond then Ok [] else Ok [w0 "unnamedResult" d]
                | _, _ => Ok []
                end
            | [_] => Panic "unnamedResult: results.List[1]"
            | [] => Panic "unnamedResult: results.List[0]"
            end
          else
            Ok (ur_loop d (flat_map (fun fld => match field_type fld with Some t => [t] | None => [] end) flds) [])
      end
  | _, _ => Ok []
  end.

Definition run_unnamedResult (check_exported : bool) (f : file) : outcome :=
  run_funcdecl false (unnamedResult_visit check_exported) f.

(* ================= paramTypeCombine (FuncDecl walker, EnterFunc = true) ================= *)
(* optimizeParams builds a different list iff two neighbouring fields have astequal types *)
Fixpoint ptc_adjacent (flds : list node) : bool :=
  match flds with
  | f0 :: ((f1 :: _) as r) =>
      match field_type f0, field_type f1 with
      | Some t0, Some t1 => node_eqb t1 t0 || ptc_adjacent r
      | _, _ => ptc_adjacent r
      end
  | _ => false
  end.

Definition ptc_changes (params : option node) : res bool :=
  match params with
  | None => R false
  | Some fl =>
      let flds := kids fl in
      if Nat.ltb (length flds) 2 then R false else
      match flds with
      | [] => P "paramTypeCombine: params.List[0]"
      | f0 :: _ =>
          if N.eqb (na f0) 0 then R false else
          if xbit x_multiline fl then R false else
          R (ptc_adjacent flds)
      end
  end.

Definition paramTypeCombine_visit (d : node) : outcome :=
  match fd_type d with
  | None => Ok []
  | Some ft =>
      match ptc_changes (ft_params ft), ptc_changes (ft_results ft) with
      | P s, _ => Panic s
      | _, P s => Panic s
      | R c1, R c2 => if c1 || c2 then Ok [w0 "paramTypeCombine" ft] else Ok []
      end
  end.

Definition run_paramTypeCombine (f : file) : outcome := run_funcdecl true paramTypeCombine_visit f.

(* ================= ptrToRefParam (FuncDecl walker) ================= *)
Definition ptr_check_params (fl : node) : list warning :=
  flat_map (fun fld =>
              match field_type fld with
              | Some ty =>
                  if xbit x_ptr_ref ty then
                    if N.eqb (na fld) 0 then [w0 "ptrToRefParam" fld]
                    else map (w0 "ptrToRefParam") (field_names fld)
                  else []
              | None => []
              end) (kids fl).

Definition ptrToRefParam_visit (d : node) : outcome :=
  match fd_type d with
  | None => Ok []
  | Some ft =>
      Ok ((match ft_params ft with Some p => ptr_check_params p | None => [] end) ++
          (match ft_results ft with Some r => ptr_check_params r | None => [] end))%list
  end.

Definition run_ptrToRefParam (f : file) : outcome := run_funcdecl false ptrToRefParam_visit f.

(* ================= sloppyTypeAssert (Expr walker) ================= *)
Definition sloppyTypeAssert_visit (e : node) : outcome :=
  if is_tag TTypeAssert e && N.eqb (na e) 1 && xbit x_assert_same e then Ok [w0 "sloppyTypeAssert" e] else Ok [].

Definition run_sloppyTypeAssert (f : file) : outcome := run_expr sloppyTypeAssert_visit f.

(* ================= octalLiteral / hexLiteral (Expr walker; indexing and slicing of the literal text) ================= *)
Definition is_ascii_digit (c : ascii) : bool :=
  let n := N_of_ascii c in N.leb 48 n && N.leb n 57.

(* lit.Value[i] *)
Fixpoint byte_at (s : string) (i : nat) : option ascii :=
  match s, i with
  | EmptyString, _ => None
  | String c _, O => Some c
  | String _ r, S j => byte_at r j
  end.

(* lit.Value[i:] — panics when i > len *)
Fixpoint str_from (s : string) (i : nat) : option string :=
  match i, s with
  | O, _ => Some s
  | S j, String _ r => str_from r j
  | S _, EmptyString => None
  end.

Definition octalLiteral_visit (e : node) : outcome :=
  if negb (is_tag TBasicLit e && N.eqb (na e) tok_INT) then Ok [] else
  let v := nstr e in
  if negb (has_prefix "0" v) || Nat.eqb (String.length v) 1 then Ok [] else
  match byte_at v 1 with
  | None => Panic "octalLiteral: lit.Value[1]"
  | Some c =>
      if is_ascii_digit c then
        match str_from v 1 with                               (* warn: lit.Value[len("0"):] *)
        | Some _ => Ok [w0 "octalLiteral" e]
        | None => Panic "octalLiteral: lit.Value[1:]"
        end
      else Ok []
  end.

Definition run_octalLiteral (f : file) : outcome := run_expr octalLiteral_visit f.

Definition ascii_lower (c : ascii) : ascii :=
  let n := N_of_ascii c in if N.leb 65 n && N.leb n 90 then ascii_of_N (n + 32) else c.
Definition ascii_upper (c : ascii) : ascii :=
  let n := N_of_ascii c in if N.leb 97 n && N.leb n 122 then ascii_of_N (n - 32) else c.
Fixpoint str_map (g : ascii -> ascii) (s : string) : string :=
  match s with EmptyString => EmptyString | String c r => String (g c) (str_map g r) end.

Definition hexLiteral_visit (e : node) : outcome :=
  if negb (is_tag TBasicLit e && N.eqb (na e) tok_INT) then Ok [] else
  let v := nstr e in
  if Nat.ltb (String.length v) 3 then Ok [] else
  if has_prefix "0X" v then
    match str_from v 2 with                                   (* warn0X: lit.Value[len("0X"):] *)
    | Some _ => Ok [w0 "hexLiteral" e]
    | None => Panic "hexLiteral: lit.Value[2:]"
    end
  else
    match str_from v 2 with                                   (* digits := lit.Value[len("0x"):] *)
    | None => Panic "hexLiteral: lit.Value[2:]"
    | Some digits =>
        if negb (String.eqb (str_map ascii_lower digits) digits) && negb (String.eqb (str_map ascii_upper digits) digits)
        then Ok [w0 "hexLiteral" e] else Ok []
    end.

Definition run_hexLiteral (f : file) : outcome := run_expr hexLiteral_visit f.

(* ================= weakCond (Expr walker; astcast nil objects) ================= *)
Definition weakCond_visit (e : node) : outcome :=
  match e with
  | Nd TBinary _ _ op _ _ (NC cx (NC cy NN)) =>
      match unparen cx with
      | Nd TBinary _ _ lop _ _ (NC x (NC ly NN)) =>
          let rhs := unparen cy in
          if negb (xbit x_slice x) then Ok [] else
          if negb (is_tag TIdent ly && String.eqb (nstr ly) "nil") then Ok [] else
          let pat1 := N.eqb op tok_LAND && N.eqb lop tok_NEQ in
          let pat2 := N.eqb op tok_LOR && N.eqb lop tok_EQL in
          if negb pat1 && negb pat2 then Ok [] else
          if contains_node (fun n => match n with
                                     | Nd TIndex _ _ _ _ _ (NC ix _) => node_eqb x ix
                                     | _ => false
                                     end) rhs
          then Ok [w0 "weakCond" e] else Ok []
      | _ => Ok []                (* astcast.ToBinaryExpr: lhs.X is nil, its type is unknown, not a slice *)
      end
  | _ => Ok []
  end.

Definition run_weakCond (f : file) : outcome := run_expr weakCond_visit f.

(* ================= methodExprCall (Expr walker) ================= *)
Definition methodExprCall_visit (e : node) : outcome :=
  if negb (is_tag TCall e) then Ok [] else
  match kids e with
  | [] => Ok []
  | fn :: args =>
      if Nat.ltb (length args) 1 then Ok [] else
      match args with
      | [] => Panic "methodExprCall: call.Args[0]"
      | a0 :: _ =>
          if is_tag TIdent a0 && String.eqb (nstr a0) "nil" then Ok [] else
          match fn with
          | Nd TSelector _ _ _ _ _ (NC x _) => if xbit x_typeexpr x then Ok [w0 "methodExprCall" e] else Ok []
          | _ => Ok []            (* astcast.ToSelectorExpr: s.X is nil, typep.IsTypeExpr(nil) is false *)
          end
      end
  end.

Definition run_methodExprCall (f : file) : outcome := run_expr methodExprCall_visit f.

(* ================= dupBranchBody (Stmt walker) ================= *)
Definition dupBranchBody_visit (stmt : node) : outcome :=
  if negb (is_tag TIf stmt) then Ok [] else
  match if_body stmt, if_else stmt with
  | Some th, Some els => if is_tag TBlock els && node_eqb th els then Ok [w0 "dupBranchBody" stmt] else Ok []
  | _, _ => Ok []
  end.

Definition run_dupBranchBody (f : file) : outcome := run_stmt dupBranchBody_visit f.

(* ================= underef (Expr walker; parameter skipRecvDeref) ================= *)
Definition is_ptr_recv_method (sel : node) : bool :=
  match f_sig (nfacts sel) with Sig _ _ RPtr _ => true | _ => false end.

(* expr := astcast.ToParenExpr(n.X); star, ok := expr.X asserted to be a StarExpr *)
Definition paren_star (x : node) : option node :=
  match x with
  | Nd TParen _ _ _ _ _ (NC (Nd TStar _ _ _ _ _ (NC inner NN)) NN) => Some inner
  | _ => None
  end.

Definition check_star (inner : node) : bool := xbit x_ptr_u inner && negb (xbit x_ptr_elem_pi inner).

Definition underef_visit (skip_recv : bool) (e : node) : outcome :=
  match e with
  | Nd TSelector _ _ _ _ _ (NC x (NC sel NN)) =>
      if skip_recv && is_ptr_recv_method sel then Ok [] else
      match paren_star x with
      | Some inner => if check_star inner then Ok [w0 "underef" e] else Ok []     (* warnSelect: the assertion of expr.X to ParenExpr holds *)
      | None => Ok []
      end
  | Nd TIndex _ _ _ _ _ (NC x (NC _ NN)) =>
      match paren_star x with
      | Some inner => if check_star inner && xbit x_ptr_arr inner then Ok [w0 "underef" e] else Ok []
      | None => Ok []
      end
  | _ => Ok []
  end.

Definition run_underef (skip_recv : bool) (f : file) : outcome := run_expr (underef_visit skip_recv) f.

(* ================= astwalk.WalkerForLocalDef + captLocal, builtinShadow ================= *)
Inductive nkind := NParam | NVar | NConst.

Definition named_defs (k : nkind) (fl : node) : list (node * nkind) :=
  map (fun id => (id, k)) (flat_map field_names (kids fl)).

(* walkSignature: parameters, results, then `decl.Recv.List[0].Names[0]` *)
Definition ld_signature (d : node) : res (list (node * nkind)) :=
  match fd_type d with
  | None => R []
  | Some ft =>
      let ps := match ft_params ft with Some p => named_defs NParam p | None => [] end in
      let rs := match ft_results ft with Some r => named_defs NParam r | None => [] end in
      match fd_recv d with
      | None => R (ps ++ rs)%list
      | Some recv =>
          match kids recv with
          | [] => P "localDefWalker: decl.Recv.List[0]"
          | fld :: _ =>
              match field_names fld with
              | [] => R (ps ++ rs)%list
              | id :: _ => R (ps ++ rs ++ [(id, NParam)])%list
              end
          end
      end
  end.

Definition is_def_ident (n : node) : bool := is_tag TIdent n && xbit x_defs n.

(* one ValueSpec of a local declaration *)
Definition ld_valuespec (tok : N) (spec : node) : res (list (node * nkind)) :=
  let names := firstn (N.to_nat (na spec)) (kids spec) in
  let values := skipn (N.to_nat (na spec) + N.to_nat (nb spec)) (kids spec) in
  match values with
  | [] => R (map (fun id => (id, NVar)) names)
  | v0 :: _ =>                                           (* spec.Values[0] / spec.Values[i], i < len(Names) = len(Values) *)
      if negb (Nat.eqb (length names) (length values)) then R (map (fun id => (id, NVar)) names)
      else R (map (fun id => (id, if N.eqb tok tok_CONST then NConst else NVar)) names)
  end.

Fixpoint ld_specs (tok : N) (specs : list node) : res (list (node * nkind)) :=
  match specs with
  | [] => R []
  | spec :: r =>
      if negb (is_tag TValueSpec spec) then R [] else    (* type/import spec: return false *)
      match ld_valuespec tok spec, ld_specs tok r with
      | P s, _ => P s
      | _, P s => P s
      | R a, R b => R (a ++ b)%list
      end
  end.

Definition ld_assign (x : node) : res (list (node * nkind)) :=
  if negb (N.eqb (na x) tok_DEFINE) then R [] else
  let nl := N.to_nat (nb x) in
  let lhs := firstn nl (kids x) in
  let rhs := skipn nl (kids x) in
  let defs := map (fun id => (id, NVar)) (filter is_def_ident lhs) in
  if negb (Nat.eqb (length lhs) (length rhs)) then
    match defs, rhs with
    | _ :: _, [] => P "localDefWalker: x.Rhs[0]"
    | _, _ => R defs
    end
  else R defs.                                           (* x.Rhs[i], i < len(Lhs) = len(Rhs) *)

Fixpoint ld_body (n : node) : res (list (node * nkind)) :=
  match n with
  | Nd t _ _ a _ _ k =>
      match t with
      | TAssign => ld_assign n
      | TGenDecl => ld_specs a (to_list k)
      | _ => ld_bodies k
      end
  end
with ld_bodies (l : nodes) : res (list (node * nkind)) :=
  match l with
  | NN => R []
  | NC x r =>
      match ld_body x, ld_bodies r with
      | P s, _ => P s
      | _, P s => P s
      | R a, R b => R (a ++ b)%list
      end
  end.

Definition local_defs_of (d : node) : res (list (node * nkind)) :=
  match ld_signature d with
  | P s => P s
  | R sg =>
      match fd_body d with
      | None => R sg
      | Some b => match ld_body b with P s => P s | R bd => R (sg ++ bd)%list end
      end
  end.

(* the walker: every FuncDecl that EnterFunc accepts (WalkFile does not call EnterFile) *)
Fixpoint local_defs_all (ds : list node) : res (list (node * nkind)) :=
  match ds with
  | [] => R []
  | d :: r =>
      match local_defs_of d, local_defs_all r with
      | P s, _ => P s
      | _, P s => P s
      | R a, R b => R (a ++ b)%list
      end
  end.

Definition run_localdef (visit : node * nkind -> list warning) (f : file) : outcome :=
  match local_defs_all (func_decls false f) with
  | P s => Panic s
  | R defs => Ok (flat_map visit defs)
  end.

Definition captLocal_visit (params_only : bool) (def : node * nkind) : list warning :=
  let (id, k) := def in
  if params_only && match k with NParam => false | _ => true end then [] else
  if xbit x_exported id then [w0 "captLocal" id] else [].

Definition run_captLocal (params_only : bool) (f : file) : outcome := run_localdef (captLocal_visit params_only) f.

Definition builtinShadow_visit (def : node * nkind) : list warning :=
  if is_builtin (nstr (fst def)) then [w0 "builtinShadow" (fst def)] else [].

Definition run_builtinShadow (f : file) : outcome := run_localdef builtinShadow_visit f.

(* ================= exitAfterDefer (FuncDecl walker; astutil.Apply with pre and post) ================= *)
Definition exit_names : list string := ["log.Fatal"; "log.Fatalf"; "log.Fatalln"; "os.Exit"].

Definition exit_recog (name : string) : recog :=
  if String.eqb name "os.Exit" then RQual "os" "os" else RQual "log" "log".

(* [ead n is_else parent_defer st] = (deferStmt after the subtree, Some w when post returned false: Apply aborts) *)
Fixpoint ead (n : node) (is_else parent_defer : bool) (st : option node) : option node * option warning :=
  match n with
  | Nd t _ _ a b _ k =>
      (* pre *)
      if (match st with Some _ => is_else | None => false end) then (st, None) else
      if tag_eqb t TFuncLit then (st, None) else
      let else_idx := if tag_eqb t TIf && N.eqb b 1 then Some (N.to_nat a + 2) else None in
      match eads k else_idx 0 (tag_eqb t TDefer) st with
      | (st', Some w) => (st', Some w)
      | (st', None) =>
          (* post *)
          match t with
          | TDefer => (Some n, None)
          | TCall =>
              if parent_defer then (st', None) else
              match st', k with
              | Some ds, NC fn _ =>
                  let name := qualified_name fn in
                  if mem name exit_names
                  then (st', Some (mkw "exitAfterDefer" n (exit_recog name) (callee_ident fn) true))
                  else (st', None)
              | _, _ => (st', None)
              end
          | _ => (st', None)
          end
      end
  end
with eads (l : nodes) (else_idx : option nat) (i : nat) (parent_defer : bool) (st : option node) : option node * option warning :=
  match l with
  | NN => (st, None)
  | NC x r =>
      match ead x (match else_idx with Some j => Nat.eqb i j | None => false end) parent_defer st with
      | (st', Some w) => (st', Some w)
      | (st', None) => eads r else_idx (S i) parent_defer st'
      end
  end.

Definition exitAfterDefer_visit (d : node) : outcome :=
  match fd_body d with
  | Some body => match snd (ead body false false None) with Some w => Ok [w] | None => Ok [] end
  | None => Ok []
  end.

Definition run_exitAfterDefer (f : file) : outcome := run_funcdecl false exitAfterDefer_visit f.

(* ================= unlambda (Expr walker) ================= *)
Definition other_kind (n : node) : N :=
  match ntag n with TOther _ => N.div (na n) 1000 | _ => 0 end.
Definition is_ellipsis (n : node) : bool := N.eqb (other_kind n) 6.

(* for _, id := range params.Names { if !astequal.Expr(id, result.Args[n]) { return }; n++ } *)
Fixpoint ul_names (ids args : list node) (n : nat) : res (option nat) :=
  match ids with
  | [] => R (Some n)
  | id :: r =>
      match nth_error args n with
      | None => P "unlambda: result.Args[n]"
      | Some a => if node_eqb id a then ul_names r args (S n) else R None
      end
  end.

Fixpoint ul_params (flds args : list node) (ellipsis : bool) (n : nat) : res (option nat) :=
  match flds with
  | [] => R (Some n)
  | fld :: r =>
      match field_type fld with
      | None => R None
      | Some ty =>
          if is_ellipsis ty then
            if negb ellipsis then R None else ul_params r args ellipsis (S n)
          else
            match ul_names (field_names fld) args n with
            | P s => P s
            | R None => R None
            | R (Some n') => ul_params r args ellipsis n'
            end
      end
  end.

(* lenArgs: the arguments, with every argument that is a call replaced by its own (flattened) arguments *)
Fixpoint len_args (l : nodes) : nat :=
  match l with
  | NN => 0
  | NC (Nd t _ _ _ _ _ k) r =>
      (if tag_eqb t TCall then match k with NC _ inner => len_args inner | NN => 0 end else 1) + len_args r
  end.

(* the literal is `func(params) T { return f(args) }`: (literal's parameter list, call) *)
Definition ul_shape (e : node) : option (node * node) :=
  match e with
  | Nd TFuncLit _ _ _ _ _ (NC ft (NC body NN)) =>
      match kids body with
      | [ret] =>
          if negb (is_tag TReturn ret) then None else
          match kids ret with
          | [call] => if is_tag TCall call then match ft_params ft with Some ps => Some (ps, call) | None => None end else None
          | _ => None
          end
      | _ => None
      end
  | _ => None
  end.

Definition unlambda_visit (e : node) : outcome :=
  match ul_shape e with
  | None => Ok []
  | Some (ps, call) =>
      match nkids call with
      | NN => Ok []
      | NC fn args =>
          let callable := qualified_name fn in
          if String.eqb callable "" then Ok [] else
          if is_builtin callable then Ok [] else
          if contains_node (fun n => is_tag TIdent n && xbit x_var_nonstruct n) fn then Ok [] else
          if negb (xbit x_fn_same_type e) then Ok [] else
          match ul_params (kids ps) (to_list args) (N.eqb (na call) 1) 0 with
          | P s => Panic s
          | R None => Ok []
          | R (Some n) => if Nat.eqb (len_args args) n then Ok [w0 "unlambda" e] else Ok []
          end
      end
  end.

Definition run_unlambda (f : file) : outcome := run_expr unlambda_visit f.

(* what go/types guarantees about such a literal when its type is identical to the callee's (hypothesis of
   C01_unlambda_total_partial; evaluated on every converted file by the tie): the call's arguments fit the literal's
   own parameter list, `...T` is the last parameter, an identifier is never a multi-value expression *)
Definition slots_of (flds : list node) : nat :=
  fold_right (fun fld acc => (match field_type fld with
                              | Some ty => if is_ellipsis ty then 1 else (if N.eqb (na fld) 0 then 1 else N.to_nat (na fld))
                              | None => 0 end) + acc) 0 flds.

Fixpoint ellipsis_only_last (flds : list node) : bool :=
  match flds with
  | [] => true
  | [_] => true
  | fld :: r => match field_type fld with Some ty => negb (is_ellipsis ty) | None => true end && ellipsis_only_last r
  end.

Fixpoint last_is_ellipsis (flds : list node) : bool :=
  match flds with
  | [] => false
  | [fld] => match field_type fld with Some ty => is_ellipsis ty | None => false end
  | _ :: r => last_is_ellipsis r
  end.

Definition g_unlambda_arity (n : node) : bool :=
  (if is_tag TIdent n then N.eqb (f_multi (nfacts n)) 0 else true) &&
  match ul_shape n with
  | Some (ps, call) =>
      if xbit x_fn_same_type n then
        match kids call with
        | _ :: args =>
            ellipsis_only_last (kids ps) &&
            arity_ok (length args) (N.eqb (na call) 1) (match args with a0 :: _ => f_multi (nfacts a0) | [] => 0%N end)
                     (Sig (N.of_nat (slots_of (kids ps))) (last_is_ellipsis (kids ps)) RNone false)
        | [] => true
        end
      else true
  | None => true
  end.

(* ---------- hypotheses of the C20 partial theorem of exitAfterDefer ---------- *)
(* no qualifier `log` / `os` denotes anything but the package, and no identifier is spelled like a qualified name *)
Definition g_no_namesake_exit (n : node) : bool :=
  g_no_namesake_qual "log" "log" n && g_no_namesake_qual "os" "os" n &&
  negb (is_tag TIdent n && mem (nstr n) exit_names).

(* ---------- registry of all modelled checkers (used by the tie) ---------- *)
Definition run_by_name2 (name : string) (f : file) : option outcome :=
  if String.eqb name "builtinShadowDecl" then Some (run_builtinShadowDecl f)
  else if String.eqb name "defaultCaseOrder" then Some (run_defaultCaseOrder f)
  else if String.eqb name "emptyFallthrough" then Some (run_emptyFallthrough f)
  else if String.eqb name "initClause" then Some (run_initClause f)
  else if String.eqb name "singleCaseSwitch" then Some (run_singleCaseSwitch f)
  else if String.eqb name "elseif" then Some (run_elseif true f)
  else if String.eqb name "elseif/skipBalanced=false" then Some (run_elseif false f)
  else if String.eqb name "deferInLoop" then Some (run_deferInLoop f)
  else if String.eqb name "unnamedResult" then Some (run_unnamedResult false f)
  else if String.eqb name "unnamedResult/checkExported=true" then Some (run_unnamedResult true f)
  else if String.eqb name "paramTypeCombine" then Some (run_paramTypeCombine f)
  else if String.eqb name "ptrToRefParam" then Some (run_ptrToRefParam f)
  else if String.eqb name "sloppyTypeAssert" then Some (run_sloppyTypeAssert f)
  else if String.eqb name "octalLiteral" then Some (run_octalLiteral f)
  else if String.eqb name "hexLiteral" then Some (run_hexLiteral f)
  else if String.eqb name "weakCond" then Some (run_weakCond f)
  else if String.eqb name "methodExprCall" then Some (run_methodExprCall f)
  else if String.eqb name "dupBranchBody" then Some (run_dupBranchBody f)
  else if String.eqb name "underef" then Some (run_underef true f)
  else if String.eqb name "underef/skipRecvDeref=false" then Some (run_underef false f)
  else if String.eqb name "captLocal" then Some (run_captLocal true f)
  else if String.eqb name "captLocal/paramsOnly=false" then Some (run_captLocal false f)
  else if String.eqb name "builtinShadow" then Some (run_builtinShadow f)
  else if String.eqb name "exitAfterDefer" then Some (run_exitAfterDefer f)
  else if String.eqb name "unlambda" then Some (run_unlambda f)
  else run_by_name name f.

(* disagreement report of one case over both registries *)
Definition case_detail2 (f : file) (observed : list (string * obs)) : list (string * obs) :=
  ((if wf f then [] else [("wf", None)]) ++
   (if forallb g_unlambda_arity (all_nodes f) then [] else [("g_unlambda_arity", None)]) ++
   flat_map (fun p => match run_by_name2 (fst p) f with
                      | Some o => if obs_eqb (entry_only (fst p)) (model_obs o) (snd p) then [] else [(fst p, model_obs o)]
                      | None => [(fst p, None)]
                      end) observed)%list.

Definition namesake_detail2 (f : file) (observed : list (string * list N)) : list (string * obs) :=
  ((if wf f then [] else [("wf", None)]) ++
   flat_map (fun p => match run_by_name2 (fst p) f with
                      | Some o => if list_eqb N.eqb (namesake_offsets o) (snd p) then [] else [(fst p, Some (namesake_offsets o))]
                      | None => [(fst p, None)]
                      end) observed)%list.
