(* Properties_C12.v — property C12: claims of a constant outcome are true of the analysed code.
   Statements only; each is closed by [exact]. *)
From GC Require Import Base Model_Expr Model_BoolSimp Model_Claims Proofs_Expr Proofs_BoolSimp Proofs_Claims.
From Coq Require Import QArith.
Close Scope Q_scope.
Open Scope string_scope.

(* sloppyLen: `len(x) >= 0` is always true, `len(x) < 0` always false — for the call that resolves to the
   builtin len (the model's PLen; the converter decides that from go/types, the rule itself matches by name) *)
Theorem C12_sloppy_len_true : forall e b, sloppy_len_claim e = Some b -> always b e.
Proof. exact sloppy_len_true. Qed.
Print Assumptions C12_sloppy_len_true.

(* badCond (after fix 408944d): every expression the matcher flags — `x < a && x > b`, side-effect-free x,
   constants a < b of any ordered type — is false whenever it yields a value *)
Theorem C12_bad_cond_false : forall e, bad_cond_less_and_greater e = true -> always false e.
Proof. exact bad_cond_false. Qed.
Print Assumptions C12_bad_cond_false.

Theorem C12_bad_cond_matcher_shape : forall e,
  bad_cond_less_and_greater e = true ->
  exists l r x a b va vb, e = EBinary OLAnd l r /\ unparen l = EBinary OLt x a /\ unparen r = EBinary OGt x b /\
    sef_typed x = true /\ const_val a = Some va /\ const_val b = Some vb /\ cmp_val OLt va vb = Some true.
Proof. exact bad_cond_matcher_inv. Qed.
Print Assumptions C12_bad_cond_matcher_shape.

(* the semantic core, for any operand without opaque calls *)
Theorem C12_bad_cond_false_pure_operand : forall l r x a b va vb,
  unparen l = EBinary OLt x a -> unparen r = EBinary OGt x b ->
  no_opaque x = true ->
  const_val a = Some va -> const_val b = Some vb -> cmp_val OLt va vb = Some true ->
  always false (EBinary OLAnd l r).
Proof. exact bad_cond_false_partial. Qed.
Print Assumptions C12_bad_cond_false_pure_operand.

(* before the fix the matcher had no purity gate: the claim was false for an operand with side effects;
   the current matcher does not flag that expression *)
Theorem C12_bad_cond_prefix_impure_refuted :
  exists en e, env_ok en /\ typeof e = Some TBool /\ bad_cond_less_and_greater_prefix e = true /\
    bad_cond_message e = "`f() < 1 && f() > 5` condition is always false" /\
    eval en e = Some (RVal (VBool true), [Ev "f" [] (VInt 0); Ev "f" [] (VInt 9)]) /\
    bad_cond_less_and_greater e = false.
Proof. exact bad_cond_prefix_impure_refuted. Qed.
Print Assumptions C12_bad_cond_prefix_impure_refuted.

(* offBy1: `x[len(x)]` (x pure, of slice type) never yields a value *)
Theorem C12_off_by1_panics : forall e, off_by1 e = true -> always_panics e.
Proof. exact off_by1_panics. Qed.
Print Assumptions C12_off_by1_panics.

(* dupSubExpr: the two operands are the same value and evaluating them has no effects *)
Theorem C12_dup_sub_expr_same : forall o x y, dup_sub_expr (EBinary o x y) = true -> same_value x y.
Proof. exact dup_sub_expr_same. Qed.
Print Assumptions C12_dup_sub_expr_same.

(* dupArg (strings.Index/Contains/Compare, bytes.Equal with the same pure argument twice) *)
Theorem C12_dup_arg_same : forall p x y, dup_arg (ECall (FPrim p) [x; y]) = true -> same_value x y.
Proof. exact dup_arg_same. Qed.
Print Assumptions C12_dup_arg_same.

(* nilValReturn: what is flagged is `if x == nil { return .., x, .. }` with side-effect-free x, and there the
   returned x equals what it was just compared with *)
Theorem C12_nil_val_return_flagged_pure : forall s, nil_val_return s = true ->
  sef_typed (nvr_x s) = true /\ In (Some (nvr_x s)) (nvr_results s).
Proof. exact nil_val_return_flagged_pure. Qed.
Print Assumptions C12_nil_val_return_flagged_pure.

Theorem C12_nil_val_return_nil : forall en x k vk h h1,
  env_ok en -> sef_typed x = true -> (forall h', evalS en k h' = Some (RVal vk, h')) ->
  evalS en (EBinary OEq x k) h = Some (RVal (VBool true), h1) ->
  h1 = h /\ exists v, evalS en x h1 = Some (RVal v, h1) /\ cmp_val OEq v vk = Some true.
Proof. exact nil_val_return_nil. Qed.
Print Assumptions C12_nil_val_return_nil.

Theorem C12_dup_float_exemption_needed :
  cmp_val OEq (VFloat FNaN) (VFloat FNaN) = Some false /\ cmp_val ONe (VFloat FNaN) (VFloat FNaN) = Some true /\
  dup_sub_expr (EBinary OEq (EIdent "x" TFloat) (EIdent "x" TFloat)) = false /\
  dup_sub_expr (EBinary OEq (EIdent "x" TInt) (EIdent "x" TInt)) = true /\
  dup_sub_expr (EBinary OLt (EIdent "x" TFloat) (EIdent "x" TFloat)) = true.
Proof. exact dup_float_exemption_needed. Qed.
Print Assumptions C12_dup_float_exemption_needed.

Theorem C12_dup_lt_gt_false_incl_nan : forall o v c, (o = OLt \/ o = OGt) -> cmp_val o v v = Some c -> c = false.
Proof. exact cmp_self_lt_gt_false. Qed.
Print Assumptions C12_dup_lt_gt_false_incl_nan.

(* caseOrder (after fix e000017): a flagged case entry can never be the one that is taken *)
Theorem C12_case_order_unreachable : forall impl es i j,
  In (i, j) (case_order impl es) -> impl_trans_on impl es -> unreachable_entry impl es i.
Proof. exact case_order_unreachable. Qed.
Print Assumptions C12_case_order_unreachable.

(* before the fix: true only for entries other than the untyped nil ... *)
Theorem C12_case_order_prefix_unreachable_partial : forall impl es i j t k,
  In (i, j) (case_order_prefix impl es) -> nth_error es i = Some (t, k) -> k <> KNil ->
  impl_trans_on impl es -> unreachable_entry impl es i.
Proof. exact case_order_prefix_unreachable_partial. Qed.
Print Assumptions C12_case_order_prefix_unreachable_partial.

(* ... `case nil` after `case interface{}` was flagged although a nil interface value takes exactly that arm;
   the current checker reports nothing there *)
Theorem C12_case_order_prefix_nil_refuted :
  exists impl es i j, In (i, j) (case_order_prefix impl es) /\ nth_error es i = Some (0%N, KNil) /\
    impl_trans_on impl es /\ first_match impl es DNil 0 = Some i /\ case_order impl es = [].
Proof. exact case_order_prefix_nil_refuted. Qed.
Print Assumptions C12_case_order_prefix_nil_refuted.

(* non-vacuity: each matcher fires on a well-typed expression *)
Example C12_matchers_fire :
  sloppy_len_claim (EBinary OGe (ECall (FPrim PLen) [EIdent "s" TString]) (ELit LInt "0" TInt)) = Some true /\
  bad_cond_less_and_greater (EBinary OLAnd (EBinary OLt (EIdent "x" TInt) (ELit LInt "1" TInt)) (EBinary OGt (EIdent "x" TInt) (ELit LInt "5" TInt))) = true /\
  off_by1 (EIndex (EIdent "xs" TInts) (ECall (FPrim PLen) [EIdent "xs" TInts])) = true /\
  case_order (fun t i => N.eqb i 1 || (N.eqb t 3 && N.eqb i 2)) [(1%N, KIface); (3%N, KConcrete); (2%N, KIface)] = [(1, 0); (2, 0)].
Proof. vm_compute. repeat split. Qed.

(* The sloppyLen / offBy1 rules match a callee SPELLED len: with a user function of that name the claims fail
   (recorded findings C12/sloppyLen/shadowed-builtin, C12/offBy1/shadowed-builtin) *)
Theorem C12_sloppy_len_shadowed_refuted :
  exists en e, env_ok en /\ sloppy_len_claim_by_name e = Some true /\ sloppy_len_claim e = None /\
    eval en e = Some (RVal (VBool false), [Ev "len" [VInts [3; 1]%Z] (VInt (-1))]).
Proof. exact sloppy_len_shadowed_refuted. Qed.
Print Assumptions C12_sloppy_len_shadowed_refuted.

Theorem C12_off_by1_shadowed_refuted :
  exists en e, env_ok en /\ off_by1_by_name e = true /\ off_by1 e = false /\
    eval en e = Some (RVal (VInt 3), [Ev "len" [VInts [3; 1]%Z] (VInt 0)]).
Proof. exact off_by1_shadowed_refuted. Qed.
Print Assumptions C12_off_by1_shadowed_refuted.

(* round-4 findings *)
(* dupSubExpr exempts == != <= >= only for operands whose go/types type is a predeclared float: on defined float
   types, type parameters and complex operands the NaN tests are reported although they are not constant *)
Theorem C12_self_comparison_float_not_constant :
  cmp_val ONe (VFloat FNaN) (VFloat FNaN) = Some true /\ cmp_val ONe (VFloat (FFin (Qmake 1 1))) (VFloat (FFin (Qmake 1 1))) = Some false /\
  cmp_val OLe (VFloat FNaN) (VFloat FNaN) = Some false /\ cmp_val OLe (VFloat (FFin (Qmake 1 1))) (VFloat (FFin (Qmake 1 1))) = Some true.
Proof. exact self_comparison_float_not_constant. Qed.
Print Assumptions C12_self_comparison_float_not_constant.

Theorem C12_self_comparison_constant_non_float : forall o v c,
  vty v <> TFloat -> cmp_val o v v = Some c -> c = match o with OEq | OLe | OGe => true | _ => false end.
Proof. exact self_comparison_constant_non_float. Qed.
Print Assumptions C12_self_comparison_constant_non_float.

Theorem C12_case_order_type_parameter_refuted :
  exists impl es_checker es_run i j, In (i, j) (case_order impl es_checker) /\
    first_match impl es_run (DType 8%N) 0 = Some i.
Proof. exact case_order_type_parameter_refuted. Qed.
Print Assumptions C12_case_order_type_parameter_refuted.

(* ---------------- round 5: the wider fragment ---------------- *)
(* dupArg, every function of the rule the fragment models (strings.Contains/Index/LastIndex/Compare/EqualFold/
   HasPrefix/HasSuffix, the bytes forms, and the (old, new) pair of Replace / ReplaceAll): the duplicated pair is
   the same value, without effects *)
Theorem C12_dup_arg_pair_same : forall e x y, dup_arg e = true -> dup_arg_pair e = Some (x, y) -> same_value x y.
Proof. exact dup_arg_pair_same. Qed.
Print Assumptions C12_dup_arg_pair_same.

(* the claims over named constants, defined types, arrays and struct fields are instances of the theorems above
   (they quantify over every expression): the matchers fire on them, and on fields the "never yields a value" /
   "false whenever it yields a value" claims include the nil-dereference panic *)
Example C12_wider_fragment_matchers_fire :
  bad_cond_less_and_greater (EBinary OLAnd (EBinary OLt (ESel "w" "avail" KPlain TInt) (EConst "cLo" (VInt 2)))
                                           (EBinary OGt (ESel "w" "avail" KPlain TInt) (EConst "cHi" (VInt 7)))) = true /\
  off_by1 (EIndex (ESel "w" "buf" KPlain TInts) (ECall (FPrim PLen) [ESel "w" "buf" KPlain TInts])) = true /\
  off_by1 (EIndex (EVarK "mi" (KDef "myInts") TInts) (ECall (FPrim PLen) [EVarK "mi" (KDef "myInts") TInts])) = false /\
  off_by1 (EIndex (EVarK "ma" KArr TInts) (ECall (FPrim PLen) [EVarK "ma" KArr TInts])) = false /\
  dup_sub_expr (EBinary OEq (EVarK "mf" (KDef "myF") TFloat) (EVarK "mf" (KDef "myF") TFloat)) = true /\
  dup_sub_expr (EBinary OEq (EIdent "p" TFloat) (EIdent "p" TFloat)) = false /\
  dup_arg (ECall (FPrim PStrReplace) [EIdent "s" TString; EIdent "t" TString; EIdent "t" TString; ELit LInt "1" TInt]) = true.
Proof. vm_compute. repeat split. Qed.

(* offBy1 on a field reached through a pointer: with a nil pointer the index expression panics as well *)
Example C12_off_by1_field_nil_pointer :
  let e := EIndex (ESel "w" "buf" KPlain TInts) (ECall (FPrim PLen) [ESel "w" "buf" KPlain TInts]) in
  off_by1 e = true /\
  evalS {| vars := fun _ t => default_value t; funs := fun _ _ _ t => default_value t; nilp := fun _ => true |} e [] = Some (RPanic, []).
Proof. vm_compute. repeat split. Qed.

(* ---------------- round 6: pointers to arrays and maps ---------------- *)
(* C12_sloppy_len_true, C12_off_by1_panics ... quantify over them as well: len of a (nil) pointer to an array is the
   array's length, len of a map its size; a map read never panics and offBy1's slice filter keeps it (and the pointer)
   out of the "always panics" claim *)
Example C12_pointer_array_and_map_operands :
  sloppy_len_claim (EBinary OGe (ECall (FPrim PLen) [EIdent "pa" TPArr]) (ELit LInt "0" TInt)) = Some true /\
  sloppy_len_claim (EBinary OLt (ECall (FPrim PLen) [EVarK "mm" (KDef "myMap") TMapIS]) (ELit LInt "0" TInt)) = Some false /\
  off_by1 (EIndex (EVarK "mm" (KDef "myMap") TMapIS) (ECall (FPrim PLen) [EVarK "mm" (KDef "myMap") TMapIS])) = false /\
  evalS (env_of [("mm", VMap [(0, "a")]%Z)] []) (EIndex (EVarK "mm" (KDef "myMap") TMapIS) (ECall (FPrim PLen) [EVarK "mm" (KDef "myMap") TMapIS])) []
    = Some (RVal (VStr ""), []) /\
  evalS (env_of [("pa", VPArr 3 None)] []) (ECall (FPrim PLen) [EIdent "pa" TPArr]) [] = Some (RVal (VInt 3), []) /\
  evalS (env_of [("pa", VPArr 3 None)] []) (EIndex (EIdent "pa" TPArr) (ELit LInt "0" TInt)) [] = Some (RPanic, []).
Proof. vm_compute. repeat split. Qed.
