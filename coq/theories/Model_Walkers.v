(* Model_Walkers.v — the astwalk walkers (checkers/internal/astwalk/*.go) as structural recursion over GoAst (no proofs here).

   A visitor is abstracted to the one thing the walker observes of it: whether it set SkipChilds while being shown a
   node ([skip : node -> bool]); what the walker shows it, and in which order, is the result.  EnterFunc is a parameter
   ([enter : node -> bool]; the default WalkHandler.EnterFunc is [decl_entered]): a visitor that accepts a body-less
   function makes the statement walkers call ast.Inspect on a nil *ast.BlockStmt, which is the explicit [P] outcome.

   ast.Inspect(n, f) calls f on n and, when f returned true, on the children in order (the nil call after the children is
   ignored by every walker; comment groups are not part of the mirror and are neither Expr nor Stmt). *)
From GC Require Import Base GoAst Model_Checkers Model_Checkers2.

Fixpoint insp (go_on : node -> bool) (n : node) : list node :=
  match n with Nd _ _ _ _ _ _ k => n :: (if go_on n then insps go_on k else []) end
with insps (go_on : node -> bool) (l : nodes) : list node :=
  match l with NN => [] | NC x r => (insp go_on x ++ insps go_on r)%list end.

(* the callback shared by the Expr / LocalExpr / Stmt / StmtList walkers:
   if x belongs to the class { visit(x); return !skipChilds() } return true *)
Definition shown_in (cls : node -> bool) (skip : node -> bool) (root : node) : list node :=
  filter cls (insp (fun x => if cls x then negb (skip x) else true) root).

Definition is_stmt_list_node (n : node) : bool :=
  match ntag n with TBlock | TCaseClause | TCommClause => true | _ => false end.

Definition app_r {A} (a b : res (list A)) : res (list A) :=
  match a, b with
  | P s, _ => P s
  | _, P s => P s
  | R x, R y => R (x ++ y)%list
  end.

Fixpoint concat_r {A} (l : list (res (list A))) : res (list A) :=
  match l with [] => R [] | x :: r => app_r x (concat_r r) end.

(* walkers over the bodies of the accepted FuncDecls *)
Definition body_walk (cls : node -> bool) (enter skip : node -> bool) (f : file) : res (list node) :=
  concat_r (map (fun d =>
                   if negb (is_tag TFuncDecl d) then R []
                   else if negb (enter d) then R []
                   else match fd_body d with
                        | Some b => R (shown_in cls skip b)
                        | None => P "astwalk: ast.Inspect(decl.Body) with a nil *ast.BlockStmt"
                        end) (decls f)).

Definition walk_local_expr := body_walk is_expr.
Definition walk_stmt := body_walk is_stmt.
Definition walk_stmt_list := body_walk is_stmt_list_node.

(* exprWalker inspects every declaration (a rejected FuncDecl is skipped as a whole) *)
Definition walk_expr (enter skip : node -> bool) (f : file) : res (list node) :=
  R (flat_map (fun d => if is_tag TFuncDecl d && negb (enter d) then [] else shown_in is_expr skip d) (decls f)).

Definition walk_func_decl (enter : node -> bool) (f : file) : res (list node) :=
  R (filter (fun d => is_tag TFuncDecl d && enter d) (decls f)).

(* ---------- typeExprWalker ---------- *)
Definition is_struct_type (n : node) : bool := N.eqb (other_kind n) 2.
Definition is_iface_type (n : node) : bool := N.eqb (other_kind n) 3.
Definition is_map_type (n : node) : bool := N.eqb (other_kind n) 4.
Definition is_chan_type (n : node) : bool := N.eqb (other_kind n) 5.

(* inspectInner(x): x is `(T)` with T a type expression that is a StarExpr or a FuncType *)
Definition inner_type (x : node) : option node :=
  match x with
  | Nd TParen _ _ _ _ _ (NC px NN) =>
      if xbit x_typeexpr px && (is_tag TStar px || is_tag TFuncType px) then Some px else None
  | _ => None
  end.

Section TypeExpr.
Variable skip : node -> bool.

(* [te_insp n] = what ast.Inspect(n, w.walk) shows; [te_walk1 n] = what one call w.walk(n) shows (embedded interface
   elements); [te_sig ft] = walkSignature.  A missing Methods / Params list is a nil dereference in Go. *)
Fixpoint te_insp (n : node) : res (list node) :=
  match n with
  | Nd t _ _ a b _ k =>
      let visit_then := app_r (R [n]) (if skip n then R [] else te_insps k) in
      match t with
      | TFuncType | TArrayType => visit_then
      | TParen | TStar =>
          match k with
          | NC x _ => if xbit x_typeexpr x then visit_then else te_insps k
          | NN => te_insps k
          end
      | TCall | TSelector =>
          match k with
          | NC (Nd TParen _ _ _ _ _ (NC px NN)) _ =>
              if xbit x_typeexpr px && (is_tag TStar px || is_tag TFuncType px) then te_insp px else te_insps k
          | _ => te_insps k
          end
      | TOther _ =>
          if is_chan_type n || is_map_type n || is_struct_type n then visit_then
          else if is_iface_type n then
            app_r (R [n]) (if skip n then R [] else
                           match k with
                           | NC (Nd _ _ _ _ _ _ flds) _ => te_methods flds
                           | NN => P "typeExprWalker: x.Methods.List with nil Methods"
                           end)
          else te_insps k
      | _ => te_insps k
      end
  end
with te_insps (l : nodes) : res (list node) :=
  match l with NN => R [] | NC x r => app_r (te_insp x) (te_insps r) end
(* for _, method := range x.Methods.List: the method's type is child number len(Names) of the field *)
with te_methods (l : nodes) : res (list node) :=
  match l with
  | NN => R []
  | NC (Nd _ _ _ a _ _ fk) r => app_r (te_method_type (N.to_nat a) fk) (te_methods r)
  end
with te_method_type (i : nat) (l : nodes) : res (list node) :=
  match l, i with
  | NN, _ => R []
  | NC x _, O => if is_tag TFuncType x then te_sig x else te_walk1 x
  | NC _ r, S j => te_method_type j r
  end
with te_walk1 (n : node) : res (list node) :=
  match n with
  | Nd t _ _ _ _ _ k =>
      match t with
      | TFuncType | TArrayType => R [n]
      | TParen | TStar =>
          match k with NC x _ => if xbit x_typeexpr x then R [n] else R [] | NN => R [] end
      | TCall | TSelector =>
          match k with
          | NC (Nd TParen _ _ _ _ _ (NC px NN)) _ =>
              if xbit x_typeexpr px && (is_tag TStar px || is_tag TFuncType px) then te_insp px else R []
          | _ => R []
          end
      | TOther _ =>
          if is_chan_type n || is_map_type n || is_struct_type n then R [n]
          else if is_iface_type n then
            app_r (R [n]) (if skip n then R [] else
                           match k with
                           | NC (Nd _ _ _ _ _ _ flds) _ => te_methods flds
                           | NN => P "typeExprWalker: x.Methods.List with nil Methods"
                           end)
          else R []
      | _ => R []
      end
  end
(* walkSignature(typ): Params, then Results; TypeParams are not walked *)
with te_sig (ft : node) : res (list node) :=
  match ft with
  | Nd _ _ _ a b _ k => te_sig_lists k 0 (N.to_nat a) (N.to_nat a + N.to_nat b) (N.to_nat a)
  end
(* children number lo..hi of a FuncType are Params (and Results); [need] is the index of Params, which must exist *)
with te_sig_lists (l : nodes) (i lo hi need : nat) : res (list node) :=
  match l with
  | NN => if Nat.leb i need then P "typeExprWalker: typ.Params.List with nil Params" else R []
  | NC (Nd _ _ _ _ _ _ flds) r =>
      app_r (if Nat.leb lo i && Nat.leb i hi then te_fields flds else R []) (te_sig_lists r (S i) lo hi need)
  end
with te_fields (l : nodes) : res (list node) :=
  match l with
  | NN => R []
  | NC (Nd _ _ _ a _ _ fk) r => app_r (te_field_type (N.to_nat a) fk) (te_fields r)
  end
with te_field_type (i : nat) (l : nodes) : res (list node) :=
  match l, i with
  | NN, _ => R []
  | NC x _, O => te_insp x
  | NC _ r, S j => te_field_type j r
  end.
End TypeExpr.

Definition walk_type_expr (enter skip : node -> bool) (f : file) : res (list node) :=
  concat_r (map (fun d =>
                   match ntag d with
                   | TFuncDecl =>
                       if negb (enter d) then R [] else
                       match fd_type d with
                       | None => R []
                       | Some ft =>
                           app_r (te_sig skip ft)
                                 (match fd_body d with
                                  | Some b => te_insp skip b
                                  | None => P "astwalk: ast.Inspect(decl.Body) with a nil *ast.BlockStmt"
                                  end)
                       end
                   | TGenDecl => if N.eqb (na d) tok_IMPORT then R [] else te_insp skip d
                   | _ => R []
                   end) (decls f)).

(* ---------- what is compared with the recording visitors ---------- *)
Definition tag_code (n : node) : N :=
  match ntag n with
  | TIdent => 1 | TBasicLit => 2 | TParen => 3 | TStar => 4 | TUnary => 5 | TBinary => 6 | TSelector => 7 | TIndex => 8
  | TIndexList => 9 | TSliceExpr => 10 | TCall => 11 | TCompositeLit => 12 | TFuncLit => 13 | TArrayType => 14
  | TFuncType => 15 | TFieldList => 16 | TField => 17 | TBlock => 18 | TAssign => 19 | TReturn => 20 | TRange => 21
  | TIf => 22 | TDefer => 23 | TExprStmt => 24 | TCaseClause => 25 | TCommClause => 26 | TFuncDecl => 27
  | TGenDecl => 28 | TTypeSpec => 29 | TSwitch => 30 | TTypeSwitch => 31 | TSelect => 32 | TFor => 33 | TBranch => 34
  | TValueSpec => 35 | TTypeAssert => 36
  | TOther _ => 100 + N.div (na n) 1000
  end.

(* the recording visitor of the tie sets SkipChilds according to one of two policies *)
Definition policy_skip (p : N) (n : node) : bool :=
  if N.eqb p 1 then N.eqb (N.modulo (npos n) 3) 0 else false.

Definition shown_obs (r : res (list node)) : option (list (N * N)) :=
  match r with R l => Some (map (fun n => (npos n, tag_code n)) l) | P _ => None end.

Definition defs_obs (r : res (list (node * nkind))) : option (list (N * N)) :=
  match r with
  | R l => Some (map (fun p => (npos (fst p), (match snd p with NParam => 200 | NVar => 201 | NConst => 202 end)%N)) l)
  | P _ => None
  end.

Definition walker_obs (name : string) (policy : N) (f : file) : option (option (list (N * N))) :=
  let sk := policy_skip policy in
  if String.eqb name "expr" then Some (shown_obs (walk_expr decl_entered sk f))
  else if String.eqb name "localexpr" then Some (shown_obs (walk_local_expr decl_entered sk f))
  else if String.eqb name "stmt" then Some (shown_obs (walk_stmt decl_entered sk f))
  else if String.eqb name "stmtlist" then Some (shown_obs (walk_stmt_list decl_entered sk f))
  else if String.eqb name "funcdecl" then Some (shown_obs (walk_func_decl decl_entered f))
  else if String.eqb name "funcdeclall" then Some (shown_obs (walk_func_decl (fun _ => true) f))
  else if String.eqb name "typeexpr" then Some (shown_obs (walk_type_expr decl_entered sk f))
  else if String.eqb name "localdef" then Some (defs_obs (local_defs_all (func_decls false f)))
  else None.

Definition pair_eqb (x y : N * N) : bool := N.eqb (fst x) (fst y) && N.eqb (snd x) (snd y).

(* one tie case: (walker, policy, observed sequence; None = the real walker panicked); result = the disagreeing entries *)
Definition walk_detail (f : file) (observed : list (string * N * option (list (N * N)))) : list (string * obs) :=
  (
   flat_map (fun e =>
               match e with
               | (name, policy, seen) =>
                   match walker_obs name policy f, seen with
                   | Some (Some m), Some r => if list_eqb pair_eqb m r then [] else [(String.append "walker " name, Some [policy])]
                   | Some None, None => []
                   | _, _ => [(String.append "walker " name, Some [policy])]
                   end
               end) observed)%list.

(* ---------- order: a list is shown "in pre-order, each occurrence at most once" when it is a subsequence ---------- *)
Inductive subseq {A : Type} : list A -> list A -> Prop :=
  | sub_nil : forall l, subseq [] l
  | sub_take : forall x l1 l2, subseq l1 l2 -> subseq (x :: l1) (x :: l2)
  | sub_drop : forall x l1 l2, subseq l1 l2 -> subseq l1 (x :: l2).

(* ---------- the comment walkers ---------- *)
(* What they read of a file, supplied by the converter next to the node tree:
   c_groups      f.Comments: per group its comments (1 + offset, text starts with "/*")
   c_decl_range  (Pos(), End()) of every top-level declaration, in the order of [decls]
   c_docs        the Doc field of declarations, specs and fields: (tag_code, position of the owner) -> (position, length) of the group *)
Record comments := {
  c_groups : list (list (N * bool));
  c_decl_range : list (N * N);
  c_docs : list (N * N * (N * N))
}.

Definition flush_group (acc : list (N * bool)) : list (list (N * bool)) :=
  match acc with [] => [] | _ => [acc] end.

(* visitCommentGroups: runs of // comments stay together, every /* */ comment is shown alone *)
Fixpoint split_groups (l acc : list (N * bool)) : list (list (N * bool)) :=
  match l with
  | [] => flush_group acc
  | c :: r => if snd c then (flush_group acc ++ [[c]] ++ split_groups r [])%list else split_groups r (acc ++ [c])%list
  end.

Definition walk_comments (cs : comments) : list (list (N * bool)) :=
  flat_map (fun g => split_groups g []) (c_groups cs).

Definition group_pos (g : list (N * bool)) : N := match g with c :: _ => fst c | [] => 0 end.

(* localCommentWalker: for every accepted FuncDecl, the groups with decl.Pos() <= cg.Pos() <= decl.End() *)
Definition walk_local_comments (enter : node -> bool) (f : file) (cs : comments) : list (list (N * bool)) :=
  flat_map (fun dr : node * (N * N) =>
              let d := fst dr in let r := snd dr in
              if is_tag TFuncDecl d && enter d then
                flat_map (fun g => if N.leb (fst r) (group_pos g) && N.leb (group_pos g) (snd r) then split_groups g [] else []) (c_groups cs)
              else []) (combine (decls f) (c_decl_range cs)).

Fixpoint doc_lookup (tbl : list (N * N * (N * N))) (code pos : N) : list (N * N) :=
  match tbl with
  | [] => []
  | (c, p, g) :: r => if N.eqb c code && N.eqb p pos then [g] else doc_lookup r code pos
  end.

Definition doc_of (cs : comments) (n : node) : list (N * N) := doc_lookup (c_docs cs) (tag_code n) (npos n).

Definition is_import_spec (n : node) : bool := N.eqb (other_kind n) 15.

(* docCommentWalker: FuncDecl.Doc; GenDecl.Doc, then per spec its Doc and, for a TypeSpec, the Doc of every Field inside the type *)
Definition walk_doc_comments (f : file) (cs : comments) : list (N * N) :=
  flat_map (fun d =>
              match ntag d with
              | TFuncDecl => doc_of cs d
              | TGenDecl =>
                  (doc_of cs d ++
                   flat_map (fun spec =>
                               if is_import_spec spec || is_tag TValueSpec spec then doc_of cs spec
                               else if is_tag TTypeSpec spec then
                                 (doc_of cs spec ++
                                  match rev (kids spec) with
                                  | ty :: _ => flat_map (doc_of cs) (filter (is_tag TField) (pre ty))
                                  | [] => []
                                  end)%list
                               else []) (kids d))%list
              | _ => []
              end) (decls f).

Definition groups_obs (l : list (list (N * bool))) : list (N * N) :=
  map (fun g => (group_pos g, (1000 + N.of_nat (length g))%N)) l.

Definition cwalker_obs (name : string) (f : file) (cs : comments) : option (list (N * N)) :=
  if String.eqb name "comment" then Some (groups_obs (walk_comments cs))
  else if String.eqb name "localcomment" then Some (groups_obs (walk_local_comments decl_entered f cs))
  else if String.eqb name "doccomment" then Some (map (fun g : N * N => (fst g, (1000 + snd g)%N)) (walk_doc_comments f cs))
  else None.

Definition cwalk_detail (f : file) (cs : comments) (observed : list (string * N * option (list (N * N)))) : list (string * obs) :=
  flat_map (fun e =>
              match e with
              | (name, policy, seen) =>
                  match cwalker_obs name f cs, seen with
                  | Some m, Some r => if list_eqb pair_eqb m r then [] else [(String.append "walker " name, Some [policy])]
                  | _, _ => [(String.append "walker " name, Some [policy])]
                  end
              end) observed.
