(* Properties_C13.v — property C13: diagnostics are local. Statements only; each is closed by [exact]. *)
From GC Require Import Base Model_Walk Proofs_Walk Model_History Proofs_History.
From Coq Require Import Permutation.

(* A walker drives a visitor whose per-declaration step is init-irrelevant on the states it can reach
   (decl_local, the C03 lemma) and position-equivariant. Then: *)

(* appending unrelated declarations does not change the diagnostics of the existing ones *)
Theorem C13_walk_app : forall (S D : Type) (on_decl : S -> D -> S * list warning) (Inv : S -> Prop),
  decl_local on_decl Inv -> forall s ds1 ds2, Inv s ->
  snd (walk on_decl s (ds1 ++ ds2)%list) = (snd (walk on_decl s ds1) ++ snd (walk on_decl s ds2))%list.
Proof. exact @walk_app. Qed.
Print Assumptions C13_walk_app.

(* inserting a (padding) declaration anywhere adds exactly that declaration's own diagnostics *)
Theorem C13_walk_insert : forall (S D : Type) (on_decl : S -> D -> S * list warning) (Inv : S -> Prop),
  decl_local on_decl Inv -> forall s ds1 d ds2, Inv s ->
  snd (walk on_decl s (ds1 ++ d :: ds2)%list) =
  (snd (walk on_decl s ds1) ++ snd (on_decl s d) ++ snd (walk on_decl s ds2))%list.
Proof. exact @walk_insert. Qed.
Print Assumptions C13_walk_insert.

(* reordering declarations permutes the diagnostics *)
Theorem C13_walk_perm : forall (S D : Type) (on_decl : S -> D -> S * list warning) (Inv : S -> Prop),
  decl_local on_decl Inv -> forall s ds ds', Inv s -> Permutation ds ds' ->
  Permutation (snd (walk on_decl s ds)) (snd (walk on_decl s ds')).
Proof. exact @walk_perm. Qed.
Print Assumptions C13_walk_perm.

(* shifting positions (blank lines / padding above) shifts the diagnostics and changes nothing else *)
Theorem C13_walk_shift : forall (S D : Type) (on_decl : S -> D -> S * list warning) (Inv : S -> Prop),
  decl_local on_decl Inv -> forall (shiftD : N -> D -> D), equivariant on_decl shiftD ->
  forall k s ds, Inv s ->
  snd (walk on_decl s (map (shiftD k) ds)) = map (shift_w k) (snd (walk on_decl s ds)).
Proof. exact @walk_shift. Qed.
Print Assumptions C13_walk_shift.

(* the hypotheses hold for the modelled visitors *)
Theorem C13_modelled_visitors_local :
  decl_local dc_on_decl (fun _ => True) /\ decl_local mk_on_decl (fun _ => True) /\ decl_local tsv_on_decl (fun _ => True)
  /\ (forall thr, decl_local (iec_on_decl thr) (fun _ => True)) /\ decl_local tac_on_decl (fun _ => True)
  /\ decl_local coc_on_decl (fun _ => True) /\ decl_local sk_on_decl (fun fl => fl = false).
Proof. exact (conj dc_local (conj mk_local (conj tsv_local (conj iec_local (conj tac_local (conj coc_local sk_local)))))). Qed.
Print Assumptions C13_modelled_visitors_local.

Theorem C13_modelled_visitors_equivariant :
  equivariant dc_on_decl shift_decl /\ equivariant mk_on_decl shift_decl /\ equivariant tsv_on_decl shift_decl
  /\ equivariant coc_on_decl shift_decl.
Proof. exact (conj dc_equivariant (conj mk_equivariant (conj tsv_equivariant coc_equivariant))). Qed.
Print Assumptions C13_modelled_visitors_equivariant.

(* why typeDefFirst is exempt: its per-declaration step is not local (file-level subject) *)
Theorem C13_typeDefFirst_not_local_refuted :
  snd (tdf_decl ["T"] (DType 7 ["T"])) <> snd (tdf_decl [] (DType 7 ["T"])).
Proof. exact tdf_not_local. Qed.
Print Assumptions C13_typeDefFirst_not_local_refuted.

(* non-vacuity: a duplicated case is reported at its shifted position after padding and a body-less function *)
Example C13_example_dupCase :
  let f := DFunc 1 false None (Some [SSwitch 2 [(3%N, 5%N); (4%N, 5%N)]]) [] in
  snd (walk dc_on_decl [] [f]) = [(4%N, "case is duplicated")]
  /\ snd (walk dc_on_decl [] [DFunc 1 false None None []; DOther 2; shift_decl 10 f]) = [(14%N, "case is duplicated")].
Proof. vm_compute. auto. Qed.
