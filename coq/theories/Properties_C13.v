(* Properties_C13.v — property C13: diagnostics are local. Statements only; each is closed by [exact]. *)
From GC Require Import Base Model_Walk Proofs_Walk Model_History Proofs_History.
From Coq Require Import Permutation.

(* A walker drives a visitor whose per-declaration step is init-irrelevant on the states it can reach
   (decl_local, the C03 lemma) and position-equivariant. Then: *)

(* appending unrelated declarations does not change the diagnostics of the existing ones *)
Theorem C13_walk_app : forall (S D : Type) (on_decl : S -> D -> S * list warning) (Inv : S -> Prop),
  decl_local on_decl Inv -> forall s ds1 ds2, Inv s ->
  snd (walk on_decl s (ds1 ++ ds2)%list) = (snd (walk on_decl s ds1) ++ snd (walk on_decl s ds2))%list.
Proof. exact @walk_app. Qed.
Print Assumptions C13_walk_app.

(* inserting a (padding) declaration anywhere adds exactly that declaration's own diagnostics *)
Theorem C13_walk_insert : forall (S D : Type) (on_decl : S -> D -> S * list warning) (Inv : S -> Prop),
  decl_local on_decl Inv -> forall s ds1 d ds2, Inv s ->
  snd (walk on_decl s (ds1 ++ d :: ds2)%list) =
  (snd (walk on_decl s ds1) ++ snd (on_decl s d) ++ snd (walk on_decl s ds2))%list.
Proof. exact @walk_insert. Qed.
Print Assumptions C13_walk_insert.

(* reordering declarations permutes the diagnostics *)
Theorem C13_walk_perm : forall (S D : Type) (on_decl : S -> D -> S * list warning) (Inv : S -> Prop),
  decl_local on_decl Inv -> forall s ds ds', Inv s -> Permutation ds ds' ->
  Permutation (snd (walk on_decl s ds)) (snd (walk on_decl s ds')).
Proof. exact @walk_perm. Qed.
Print Assumptions C13_walk_perm.

(* shifting positions (blank lines / padding above) shifts the diagnostics and changes nothing else *)
Theorem C13_walk_shift : forall (S D : Type) (on_decl : S -> D -> S * list warning) (Inv : S -> Prop),
  decl_local on_decl Inv -> forall (shiftD : N -> D -> D), equivariant on_decl shiftD ->
  forall k s ds, Inv s ->
  snd (walk on_decl s (map (shiftD k) ds)) = map (shift_w k) (snd (walk on_decl s ds)).
Proof. exact @walk_shift. Qed.
Print Assumptions C13_walk_shift.

(* the hypotheses hold for the modelled visitors *)
Theorem C13_modelled_visitors_local :
  decl_local dc_on_decl (fun _ => True) /\ decl_local mk_on_decl (fun _ => True) /\ decl_local tsv_on_decl (fun _ => True)
  /\ (forall thr, decl_local (iec_on_decl thr) (fun _ => True)) /\ decl_local tac_on_decl (fun _ => True)
  /\ decl_local coc_on_decl (fun _ => True) /\ decl_local sk_on_decl (fun fl => fl = false).
Proof. exact (conj dc_local (conj mk_local (conj tsv_local (conj iec_local (conj tac_local (conj coc_local sk_local)))))). Qed.
Print Assumptions C13_modelled_visitors_local.

(* ... and every modelled per-declaration visitor is position equivariant (all seven; the file-level one is below) *)
Theorem C13_modelled_visitors_equivariant :
  equivariant dc_on_decl shift_decl /\ equivariant mk_on_decl shift_decl /\ equivariant tsv_on_decl shift_decl
  /\ equivariant coc_on_decl shift_decl
  /\ (forall thr, equivariant (iec_on_decl thr) shift_decl) /\ equivariant tac_on_decl shift_decl /\ equivariant sk_on_decl shift_decl.
Proof. exact (conj dc_equivariant (conj mk_equivariant (conj tsv_equivariant (conj coc_equivariant
              (conj iec_equivariant (conj tac_equivariant sk_equivariant)))))). Qed.
Print Assumptions C13_modelled_visitors_equivariant.

(* the shift law instantiated: for each modelled visitor, W (shift k f) = shift k (W f) from ANY scratch state of the invariant *)
Theorem C13_shift_ifElseChain : forall thr k s f, snd (iec_run thr s (map (shift_decl k) f)) = map (shift_w k) (snd (iec_run thr s f)).
Proof. intros. exact (walk_shift _ _ (iec_local thr) shift_decl (iec_equivariant thr) k s f I). Qed.
Print Assumptions C13_shift_ifElseChain.
Theorem C13_shift_typeAssertChain : forall c k s f, snd (tac_run c s (map (shift_decl k) f)) = map (shift_w k) (snd (tac_run c s f)).
Proof. intros. exact (walk_shift _ _ tac_local shift_decl tac_equivariant k s f I). Qed.
Print Assumptions C13_shift_typeAssertChain.
Theorem C13_shift_dupCase : forall c k s f, snd (dc_run c s (map (shift_decl k) f)) = map (shift_w k) (snd (dc_run c s f)).
Proof. intros. exact (walk_shift _ _ dc_local shift_decl dc_equivariant k s f I). Qed.
Print Assumptions C13_shift_dupCase.
Theorem C13_shift_mapKey : forall c k s f, snd (mk_run c s (map (shift_decl k) f)) = map (shift_w k) (snd (mk_run c s f)).
Proof. intros. exact (walk_shift _ _ mk_local shift_decl mk_equivariant k s f I). Qed.
Print Assumptions C13_shift_mapKey.
Theorem C13_shift_typeSwitchVar : forall c k s f, snd (tsv_run c s (map (shift_decl k) f)) = map (shift_w k) (snd (tsv_run c s f)).
Proof. intros. exact (walk_shift _ _ tsv_local shift_decl tsv_equivariant k s f I). Qed.
Print Assumptions C13_shift_typeSwitchVar.
Theorem C13_shift_commentedOutCode : forall c k s f, snd (coc_run c s (map (shift_decl k) f)) = map (shift_w k) (snd (coc_run c s f)).
Proof. intros. exact (walk_shift _ _ coc_local shift_decl coc_equivariant k s f I). Qed.
Print Assumptions C13_shift_commentedOutCode.
Theorem C13_shift_skipChilds : forall c k s f, s = false -> snd (sk_run c s (map (shift_decl k) f)) = map (shift_w k) (snd (sk_run c s f)).
Proof. intros c k s f H. exact (walk_shift _ _ sk_local shift_decl sk_equivariant k s f H). Qed.
Print Assumptions C13_shift_skipChilds.

(* typeDefFirst is exempt from the per-declaration laws (next theorem), yet a UNIFORM shift of the whole file only shifts its diagnostics *)
Theorem C13_shift_typeDefFirst_whole_file : forall k c s f, snd (tdf_run c s (map (shift_decl k) f)) = map (shift_w k) (snd (tdf_run c s f)).
Proof. exact tdf_shift. Qed.
Print Assumptions C13_shift_typeDefFirst_whole_file.

(* The laws in evaluated form. [predict] assembles, from per-declaration runs on the ORIGINAL declarations, what the walker must
   report on a transformed file whose declarations are tagged "padding" or "copy of original #i at another offset" (each such claim is
   checked by decl_eqb against shift_decl). The generated files work/C13/cases_law_*.v evaluate it on the converted real files the
   metamorphic oracle writes; this theorem says the evaluated prediction IS the walker's result on the transformed file. *)
Theorem C13_predict_sound : forall (S : Type) (on_decl : S -> decl -> S * list warning) (Inv : S -> Prop),
  decl_local on_decl Inv -> equivariant on_decl shift_decl -> forall s0, Inv s0 ->
  forall ds ds' tags ws, predict on_decl s0 ds ds' tags = Some ws -> snd (walk on_decl s0 ds') = ws.
Proof. exact @predict_sound. Qed.
Print Assumptions C13_predict_sound.

(* why typeDefFirst is exempt: its per-declaration step is not local (file-level subject) *)
Theorem C13_typeDefFirst_not_local_refuted :
  snd (tdf_decl ["T"] (DType 7 ["T"])) <> snd (tdf_decl [] (DType 7 ["T"])).
Proof. exact tdf_not_local. Qed.
Print Assumptions C13_typeDefFirst_not_local_refuted.

(* non-vacuity: a duplicated case is reported at its shifted position after padding and a body-less function *)
Example C13_example_dupCase :
  let f := DFunc 1 false None (Some [SSwitch 2 [(3%N, 5%N); (4%N, 5%N)]]) [] in
  snd (walk dc_on_decl [] [f]) = [(4%N, "case is duplicated")]
  /\ snd (walk dc_on_decl [] [DFunc 1 false None None []; DOther 2 []; shift_decl 10 f]) = [(14%N, "case is duplicated")].
Proof. vm_compute. auto. Qed.
