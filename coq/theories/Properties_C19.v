(* Properties_C19.v — property C19: configuration and load errors fail cleanly on every front-end. *)
From GC Require Import Base Model_Init Proofs_Init.

(* CLI: every invalid configuration ends in log.Fatalf naming a step — never a panic, never a run. *)
Theorem C19_cli_invalid_config_fatal : forall c, cli_valid c = false -> exists step, run_cli c = Fatal step.
Proof. exact cli_invalid_is_fatal. Qed.
Print Assumptions C19_cli_invalid_config_fatal.
Theorem C19_cli_never_panics : forall c site, run_cli c <> CliPanic site.
Proof. exact cli_never_panics. Qed.
Print Assumptions C19_cli_never_panics.
Theorem C19_cli_valid_runs : forall c, cli_valid c = true -> run_cli c = Ran.
Proof. exact cli_valid_runs. Qed.
Print Assumptions C19_cli_valid_runs.
(* the step runner before the repair panicked on a malformed -go *)
Theorem C19_cli_prefix_go_version_refuted :
  exists c, cli_valid c = false /\ run_cli_prefix c = CliPanic "SetGoVersion".
Proof. exact cli_prefix_go_version_refuted. Qed.
Print Assumptions C19_cli_prefix_go_version_refuted.

(* Analyzer: over EVERY history of passes (any number of packages, flags changing arbitrarily in
   between) no pass panics ... *)
Theorem C19_analyzer_never_panics : forall g h, ~ In PassPanic (run_passes run_pass g h).
Proof. exact run_passes_no_panic. Qed.
Print Assumptions C19_analyzer_never_panics.
(* ... an invalid configuration is reported exactly once and nothing is analysed afterwards,
   however many packages follow ... *)
Theorem C19_analyzer_invalid_config_clean : forall f h, an_go_ok f = false ->
  run_passes run_pass g0 (f :: h) = PassInitError :: map (fun _ => PassSkipped) h.
Proof. exact analyzer_invalid_go_clean. Qed.
Print Assumptions C19_analyzer_invalid_config_clean.
(* ... a valid one behaves the same for every package ... *)
Theorem C19_analyzer_same_for_any_package_count : forall f h, an_go_ok f = true ->
  run_passes run_pass g0 (f :: h) = map (fun _ => if an_ctor_ok f then PassDiags else PassCtorError) (f :: h).
Proof. exact analyzer_valid_uniform. Qed.
Print Assumptions C19_analyzer_same_for_any_package_count.
(* ... and diagnostics only ever come from a fully initialised configuration. *)
Theorem C19_analyzer_never_partial : forall g f, cache_ok g ->
  snd (run_pass g f) = PassDiags ->
  exists c, cached (fst (run_pass g f)) = Some c /\ an_go_ok c = true /\ an_ctor_ok c = true.
Proof. exact diags_only_from_good_config. Qed.
Print Assumptions C19_analyzer_never_partial.
Theorem C19_analyzer_cache_invariant : forall g f, cache_ok g -> cache_ok (fst (run_pass g f)).
Proof. exact run_pass_cache_ok. Qed.
Print Assumptions C19_analyzer_cache_invariant.
(* before the repair the second pass after an init error dereferenced nil *)
Theorem C19_analyzer_prefix_second_pass_refuted :
  exists f h, an_go_ok f = false /\ In PassPanic (run_passes run_pass_prefix g0 (f :: h)).
Proof. exact analyzer_prefix_second_pass_refuted. Qed.
Print Assumptions C19_analyzer_prefix_second_pass_refuted.

Example C19_example_history :
  run_passes run_pass g0 [{| an_go_ok := false; an_ctor_ok := true |}; {| an_go_ok := true; an_ctor_ok := true |}]
  = [PassInitError; PassSkipped] /\ cache_ok g0.
Proof. vm_compute. auto. Qed.
