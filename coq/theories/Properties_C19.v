(* Properties_C19.v — property C19: configuration and load errors fail cleanly on every front-end. *)
From GC Require Import Base Model_Init Proofs_Init.

(* CLI: every invalid configuration ends in log.Fatalf naming a step — never a panic, never a run. *)
Theorem C19_cli_invalid_config_fatal : forall c, cli_valid c = false -> exists step, run_cli c = Fatal step.
Proof. exact cli_invalid_is_fatal. Qed.
Print Assumptions C19_cli_invalid_config_fatal.
Theorem C19_cli_never_panics : forall c site, run_cli c <> CliPanic site.
Proof. exact cli_never_panics. Qed.
Print Assumptions C19_cli_never_panics.
Theorem C19_cli_valid_runs : forall c, cli_valid c = true -> run_cli c = Ran.
Proof. exact cli_valid_runs. Qed.
Print Assumptions C19_cli_valid_runs.
(* the step runner before the repair panicked on a malformed -go *)
Theorem C19_cli_prefix_go_version_refuted :
  exists c, cli_valid c = false /\ run_cli_prefix c = CliPanic "SetGoVersion".
Proof. exact cli_prefix_go_version_refuted. Qed.
Print Assumptions C19_cli_prefix_go_version_refuted.

(* Analyzer: over EVERY history of passes (any number of packages, flags changing arbitrarily in
   between) no pass panics ... *)
Theorem C19_analyzer_never_panics : forall g h, ~ In PassPanic (run_passes run_pass g h).
Proof. exact run_passes_no_panic. Qed.
Print Assumptions C19_analyzer_never_panics.
(* ... an invalid configuration is reported exactly once and nothing is analysed afterwards,
   however many packages follow ... *)
Theorem C19_analyzer_invalid_config_clean : forall f h, an_go_ok f = false ->
  run_passes run_pass g0 (f :: h) = PassInitError :: map (fun _ => PassSkipped) h.
Proof. exact analyzer_invalid_go_clean. Qed.
Print Assumptions C19_analyzer_invalid_config_clean.
(* ... a valid one behaves the same for every package ... *)
Theorem C19_analyzer_same_for_any_package_count : forall f h, an_go_ok f = true ->
  run_passes run_pass g0 (f :: h) = map (fun _ => if an_ctor_ok f then PassDiags else PassCtorError) (f :: h).
Proof. exact analyzer_valid_uniform. Qed.
Print Assumptions C19_analyzer_same_for_any_package_count.
(* ... and diagnostics only ever come from a fully initialised configuration. *)
Theorem C19_analyzer_never_partial : forall g f, cache_ok g ->
  snd (run_pass g f) = PassDiags ->
  exists c, cached (fst (run_pass g f)) = Some c /\ an_go_ok c = true /\ an_ctor_ok c = true.
Proof. exact diags_only_from_good_config. Qed.
Print Assumptions C19_analyzer_never_partial.
Theorem C19_analyzer_cache_invariant : forall g f, cache_ok g -> cache_ok (fst (run_pass g f)).
Proof. exact run_pass_cache_ok. Qed.
Print Assumptions C19_analyzer_cache_invariant.
(* before the repair the second pass after an init error dereferenced nil *)
Theorem C19_analyzer_prefix_second_pass_refuted :
  exists f h, an_go_ok f = false /\ In PassPanic (run_passes run_pass_prefix g0 (f :: h)).
Proof. exact analyzer_prefix_second_pass_refuted. Qed.
Print Assumptions C19_analyzer_prefix_second_pass_refuted.

Example C19_example_history :
  run_passes run_pass g0 [{| an_go_ok := false; an_ctor_ok := true |}; {| an_go_ok := true; an_ctor_ok := true |}]
  = [PassInitError; PassSkipped] /\ cache_ok g0.
Proof. vm_compute. auto. Qed.

(* ---------------- round 5: targets that yield nothing ----------------
   "a target ... is reported as a load error or analysed": an argument that yields no package with files ends the run
   in "load program", whatever else was named. *)
Theorem C19_cli_targets_invalid_fatal : forall c,
  target_config_valid c = false -> exists step, run_cli_targets c = Fatal step.
Proof. exact targets_invalid_fatal. Qed.
Print Assumptions C19_cli_targets_invalid_fatal.
Theorem C19_cli_targets_valid_runs : forall c, target_config_valid c = true -> run_cli_targets c = Ran.
Proof. exact targets_valid_runs. Qed.
Print Assumptions C19_cli_targets_valid_runs.
Theorem C19_cli_missing_target_is_load_error : forall c,
  args_parse_ok (tc_base c) = true -> load_ok (tc_base c) = true -> tc_all_targets_yield c = false ->
  run_cli_targets c = Fatal "load program".
Proof. exact missing_target_is_load_error. Qed.
Print Assumptions C19_cli_missing_target_is_load_error.
(* before the repair such an argument was ignored: the run went on and, when nothing else was named, exited 0 *)
Theorem C19_cli_missing_target_prefix_refuted :
  exists c, target_config_valid c = false /\ run_cli_targets_prefix c = Ran.
Proof. exact missing_target_prefix_refuted. Qed.
Print Assumptions C19_cli_missing_target_prefix_refuted.

(* ---------------- round 5: the sub-command dispatcher is total and fails on everything it does not know ---------------- *)
Theorem C19_dispatch_total : forall argv,
  (exists a, argv = "check" :: a /\ dispatch argv = DCheck a)
  \/ (exists a, argv = "doc" :: a /\ dispatch argv = DDoc a)
  \/ (exists a, argv = "help" :: a /\ dispatch argv = DHelp)
  \/ (exists a, argv = "version" :: a /\ dispatch argv = DVersion)
  \/ ((argv = [] \/ exists c r, argv = c :: r /\ ~ In c subcommands) /\ exists m, dispatch argv = DError m).
Proof. exact dispatch_cases. Qed.
Print Assumptions C19_dispatch_total.
Theorem C19_unknown_subcommand_fails : forall known cs argv,
  (argv = [] \/ exists c r, argv = c :: r /\ ~ In c subcommands) -> main_status known cs argv = 1%Z.
Proof. exact unknown_subcommand_fails. Qed.
Print Assumptions C19_unknown_subcommand_fails.
(* the runner alone (before run() refused the empty word) matched "" against the commands' empty aliases and ran check *)
Theorem C19_empty_word_prefix_runs_check : forall known cs r, main_status_empty_word_prefix known cs ("" :: r) = cs r.
Proof. exact empty_word_prefix_runs_check. Qed.
Print Assumptions C19_empty_word_prefix_runs_check.
Theorem C19_unknown_subcommand_fails_prefix_refuted :
  exists known cs argv, (exists c r, argv = c :: r /\ ~ In c subcommands) /\ main_status_empty_word_prefix known cs argv = 0%Z.
Proof. exact empty_word_prefix_refuted. Qed.
Print Assumptions C19_unknown_subcommand_fails_prefix_refuted.
Theorem C19_status_zero_known_subcommand : forall known cs argv,
  main_status known cs argv = 0%Z -> exists c r, argv = c :: r /\ In c subcommands.
Proof. exact status_zero_known_subcommand. Qed.
Print Assumptions C19_status_zero_known_subcommand.
Theorem C19_doc_unknown_checker_fails : forall known cs n,
  known n = false -> has_prefix "-" n = false -> main_status known cs ["doc"; n] = 1%Z.
Proof. exact doc_unknown_checker_fails. Qed.
Print Assumptions C19_doc_unknown_checker_fails.
Theorem C19_doc_status_zero : forall known args,
  doc_status known args = 0%Z ->
  exists pos, doc_parse args = Some pos /\ (pos = [] \/ exists n, pos = [n] /\ known n = true).
Proof. exact doc_status_zero. Qed.
Print Assumptions C19_doc_status_zero.
(* run() before the repair printed the runner's error and returned: exit 0 *)
Theorem C19_main_status_prefix_refuted :
  exists known cs argv, (exists c r, argv = c :: r /\ ~ In c subcommands) /\ main_status_prefix known cs argv = 0%Z.
Proof. exact main_status_prefix_refuted. Qed.
Print Assumptions C19_main_status_prefix_refuted.

Example C19_example_dispatch :
  main_status (fun n => String.eqb n "sloppyLen") (fun _ => 1%Z) ["doc"; "sloppyLen"] = 0%Z
  /\ main_status (fun n => String.eqb n "sloppyLen") (fun _ => 1%Z) ["doc"; "--"; "-x"] = 1%Z
  /\ dispatch ["chek"] = DError ("no such command " ++ quote "chek").
Proof. vm_compute. auto. Qed.
