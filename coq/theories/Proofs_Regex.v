(* Proofs_Regex.v — C11: observational equivalence of semantic regular expressions and its algebra.

   e1 ≈ e2  :=  for every answer type, previous rune, subject suffix, offset, capture registers and
                continuation, the matcher returns the same result.
   It implies equal leftmost-match positions and capture vectors for all subjects (req_find), is an
   equivalence and a congruence for every constructor (so a rule proved at the root holds in every context). *)
From GC Require Import Base Model_Regex.
Local Open Scope nat_scope.

Definition kext {R} (k1 k2 : @kont R) : Prop := forall p s i c, k1 p s i c = k2 p s i c.

(* ---------- the loops of RStar / RPlus as top-level functions ---------- *)
Section Loop.
  Context {R : Type}.
  Variable ma : option rune -> list rune -> nat -> caps -> @kont R -> option R.
  Variable g : bool.
  Variable k : @kont R.

  Fixpoint loopF (fuel : nat) (p : option rune) (s : list rune) (i : nat) (c : caps) {struct fuel} : option R :=
    match fuel with
    | O => k p s i c
    | S f =>
        let iter := ma p s i c (fun p' s' i' c' =>
                       if Nat.ltb (List.length s') (List.length s) then loopF f p' s' i' c' else None) in
        if g then orelse iter (k p s i c) else orelse (k p s i c) iter
    end.

  Definition firstF (p : option rune) (s : list rune) (i : nat) (c : caps) : option R :=
    ma p s i c (fun p1 s1 i1 c1 =>
      if Nat.ltb (List.length s1) (List.length s) then loopF (S (List.length s1)) p1 s1 i1 c1 else k p1 s1 i1 c1).
End Loop.

Lemma m_star {R} g a p s i c (k : @kont R) :
  m (RStar g a) p s i c k =
  if g then orelse (firstF (m a) g k p s i c) (k p s i c) else orelse (k p s i c) (firstF (m a) g k p s i c).
Proof. reflexivity. Qed.

Lemma m_plus {R} g a p s i c (k : @kont R) : m (RPlus g a) p s i c k = firstF (m a) g k p s i c.
Proof. reflexivity. Qed.

(* loops respect pointwise equality of the body matcher and of the continuation *)
Lemma loopF_ext {R} (ma1 ma2 : option rune -> list rune -> nat -> caps -> @kont R -> option R) g k1 k2 :
  (forall p s i c ka kb, kext ka kb -> ma1 p s i c ka = ma2 p s i c kb) ->
  kext k1 k2 ->
  forall fuel p s i c, loopF ma1 g k1 fuel p s i c = loopF ma2 g k2 fuel p s i c.
Proof.
  intros Hma Hk fuel. induction fuel as [|f IH]; intros p s i c; simpl.
  - apply Hk.
  - rewrite (Hk p s i c).
    assert (E : ma1 p s i c (fun p' s' i' c' => if Nat.ltb (length s') (length s) then loopF ma1 g k1 f p' s' i' c' else None)
              = ma2 p s i c (fun p' s' i' c' => if Nat.ltb (length s') (length s) then loopF ma2 g k2 f p' s' i' c' else None)).
    { apply Hma. intros p' s' i' c'. destruct (Nat.ltb (length s') (length s)); [apply IH|reflexivity]. }
    rewrite E. reflexivity.
Qed.

Lemma firstF_ext {R} (ma1 ma2 : option rune -> list rune -> nat -> caps -> @kont R -> option R) g k1 k2 :
  (forall p s i c ka kb, kext ka kb -> ma1 p s i c ka = ma2 p s i c kb) ->
  kext k1 k2 ->
  forall p s i c, firstF ma1 g k1 p s i c = firstF ma2 g k2 p s i c.
Proof.
  intros Hma Hk p s i c. unfold firstF. apply Hma. intros p1 s1 i1 c1.
  destruct (Nat.ltb (length s1) (length s)); [apply loopF_ext; assumption|apply Hk].
Qed.

(* ---------- continuation extensionality (instead of functional extensionality) ---------- *)
Lemma m_ext {R} (e : rx) : forall p s i c (k1 k2 : @kont R), kext k1 k2 -> m e p s i c k1 = m e p s i c k2.
Proof.
  induction e as [|cl|a|a IHa b IHb|a IHa b IHb|g a IHa|g a IHa|g a IHa|n a IHa]; intros p s i c k1 k2 Hk.
  - simpl. apply Hk.
  - simpl. destruct s as [|r s']; [reflexivity|]. destruct (in_cls cl r); [apply Hk|reflexivity].
  - simpl. destruct (assert_ok a p s); [apply Hk|reflexivity].
  - simpl. apply IHa. intros p' s' i' c'. apply IHb. exact Hk.
  - simpl. rewrite (IHa p s i c k1 k2 Hk), (IHb p s i c k1 k2 Hk). reflexivity.
  - rewrite !m_star. rewrite (Hk p s i c).
    rewrite (firstF_ext (m a) (m a) g k1 k2 (fun p s i c ka kb H => IHa p s i c ka kb H) Hk). reflexivity.
  - rewrite !m_plus. apply firstF_ext; [intros; apply IHa; assumption|exact Hk].
  - simpl. rewrite (IHa p s i c k1 k2 Hk), (Hk p s i c). reflexivity.
  - simpl. apply IHa. intros p' s' i' c'. apply Hk.
Qed.

(* ---------- observational equivalence ---------- *)
Definition req (e1 e2 : rx) : Prop :=
  forall (R : Type) p s i c (k : @kont R), m e1 p s i c k = m e2 p s i c k.
Infix "≈" := req (at level 70).

Lemma req_refl e : e ≈ e. Proof. intros R p s i c k. reflexivity. Qed.
Lemma req_sym a b : a ≈ b -> b ≈ a. Proof. intros H R p s i c k. symmetry. apply H. Qed.
Lemma req_trans a b c : a ≈ b -> b ≈ c -> a ≈ c.
Proof. intros H1 H2 R p s i cc k. rewrite H1. apply H2. Qed.

Lemma req_m2 {R} a b : a ≈ b -> forall p s i c (ka kb : @kont R), kext ka kb -> m a p s i c ka = m b p s i c kb.
Proof. intros H p s i c ka kb Hk. rewrite (H R). apply m_ext. exact Hk. Qed.

(* congruence, one lemma per constructor *)
Lemma req_cat a a' b b' : a ≈ a' -> b ≈ b' -> RCat a b ≈ RCat a' b'.
Proof. intros Ha Hb R p s i c k. simpl. apply req_m2; [exact Ha|]. intros p' s' i' c'. apply Hb. Qed.

Lemma req_alt a a' b b' : a ≈ a' -> b ≈ b' -> RAlt a b ≈ RAlt a' b'.
Proof. intros Ha Hb R p s i c k. simpl. rewrite Ha, Hb. reflexivity. Qed.

Lemma req_quest g a a' : a ≈ a' -> RQuest g a ≈ RQuest g a'.
Proof. intros Ha R p s i c k. simpl. rewrite Ha. reflexivity. Qed.

Lemma req_group n a a' : a ≈ a' -> RGroup n a ≈ RGroup n a'.
Proof. intros Ha R p s i c k. simpl. apply Ha. Qed.

Lemma req_plus g a a' : a ≈ a' -> RPlus g a ≈ RPlus g a'.
Proof.
  intros Ha R p s i c k. rewrite !m_plus. apply firstF_ext; [|intros ? ? ? ?; reflexivity].
  intros. apply req_m2; assumption.
Qed.

Lemma req_star g a a' : a ≈ a' -> RStar g a ≈ RStar g a'.
Proof.
  intros Ha R p s i c k. rewrite !m_star.
  rewrite (firstF_ext (m a) (m a') g k k); [reflexivity| |intros ? ? ? ?; reflexivity].
  intros. apply req_m2; assumption.
Qed.

(* one-hole contexts: a rule proved at the root holds in arbitrary context *)
Inductive ctx :=
| CHole
| CCatL (c : ctx) (b : rx) | CCatR (a : rx) (c : ctx)
| CAltL (c : ctx) (b : rx) | CAltR (a : rx) (c : ctx)
| CStar (g : bool) (c : ctx) | CPlus (g : bool) (c : ctx) | CQuest (g : bool) (c : ctx)
| CGroup (n : nat) (c : ctx).

Fixpoint plug (c : ctx) (e : rx) : rx :=
  match c with
  | CHole => e
  | CCatL c b => RCat (plug c e) b | CCatR a c => RCat a (plug c e)
  | CAltL c b => RAlt (plug c e) b | CAltR a c => RAlt a (plug c e)
  | CStar g c => RStar g (plug c e) | CPlus g c => RPlus g (plug c e) | CQuest g c => RQuest g (plug c e)
  | CGroup n c => RGroup n (plug c e)
  end.

Lemma req_ctx (C : ctx) a b : a ≈ b -> plug C a ≈ plug C b.
Proof.
  intros H. induction C; simpl.
  - exact H.
  - apply req_cat; [assumption|apply req_refl].
  - apply req_cat; [apply req_refl|assumption].
  - apply req_alt; [assumption|apply req_refl].
  - apply req_alt; [apply req_refl|assumption].
  - apply req_star; assumption.
  - apply req_plus; assumption.
  - apply req_quest; assumption.
  - apply req_group; assumption.
Qed.

(* equivalence gives the same leftmost match, the same end and the same capture registers, for every subject *)
Lemma req_find_from a b : a ≈ b -> forall s p i, find_from a p s i = find_from b p s i.
Proof.
  intros H s. induction s as [|r s IH]; intros p i; simpl; rewrite H; [reflexivity|].
  destruct (m b p (r :: s) i [] _); [reflexivity|apply IH].
Qed.

Lemma req_find a b : a ≈ b -> forall s, find a s = find b s.
Proof. intros H s. apply req_find_from. exact H. Qed.

Lemma req_go_vec a b n : a ≈ b -> forall s, go_vec n (find a s) = go_vec n (find b s).
Proof. intros H s. rewrite (req_find a b H). reflexivity. Qed.

(* ---------- basic algebra ---------- *)
Lemma cat_empty_l a : RCat REmpty a ≈ a.
Proof. intros R p s i c k. reflexivity. Qed.

Lemma cat_empty_r a : RCat a REmpty ≈ a.
Proof. intros R p s i c k. simpl. apply m_ext. intros ? ? ? ?. reflexivity. Qed.

Lemma cat_assoc a b c : RCat (RCat a b) c ≈ RCat a (RCat b c).
Proof. intros R p s i cc k. reflexivity. Qed.

Lemma alt_assoc a b c : RAlt (RAlt a b) c ≈ RAlt a (RAlt b c).
Proof. intros R p s i cc k. simpl. destruct (m a p s i cc k); reflexivity. Qed.

Lemma orelse_same {A} (x : option A) : orelse x x = x.
Proof. destruct x; reflexivity. Qed.

Lemma alt_idem a : RAlt a a ≈ a.
Proof. intros R p s i c k. simpl. apply orelse_same. Qed.

Lemma quest_alt g a : RQuest g a ≈ if g then RAlt a REmpty else RAlt REmpty a.
Proof. intros R p s i c k. destruct g; reflexivity. Qed.

(* x* is (x+)? — the way regexp/syntax compiles a star *)
Lemma star_quest_plus g a : RStar g a ≈ RQuest g (RPlus g a).
Proof. intros R p s i c k. reflexivity. Qed.

(* cat_list / alt_list *)
Lemma cat_list_cons x l : cat_list (x :: l) ≈ RCat x (cat_list l).
Proof.
  destruct l as [|y l]; simpl.
  - apply req_sym, cat_empty_r.
  - apply req_refl.
Qed.

Lemma cat_list_app l1 l2 : cat_list (l1 ++ l2) ≈ RCat (cat_list l1) (cat_list l2).
Proof.
  induction l1 as [|x l1 IH].
  - simpl. apply req_sym, cat_empty_l.
  - change ((x :: l1) ++ l2)%list with (x :: (l1 ++ l2))%list.
    eapply req_trans; [apply cat_list_cons|].
    eapply req_trans; [apply req_cat; [apply req_refl|exact IH]|].
    eapply req_trans; [apply req_sym, cat_assoc|].
    apply req_cat; [apply req_sym, cat_list_cons|apply req_refl].
Qed.

(* replacing a segment of a concatenation by one equivalent node *)
Lemma cat_list_splice l1 l2 l3 e :
  cat_list l2 ≈ e -> cat_list (l1 ++ l2 ++ l3) ≈ cat_list (l1 ++ e :: l3).
Proof.
  intros H.
  eapply req_trans; [apply cat_list_app|].
  eapply req_trans; [apply req_cat; [apply req_refl|apply cat_list_app]|].
  apply req_sym.
  eapply req_trans; [apply cat_list_app|].
  apply req_cat; [apply req_refl|].
  eapply req_trans; [apply cat_list_cons|].
  apply req_cat; [apply req_sym; exact H|apply req_refl].
Qed.

Lemma cat_list_congr l1 l2 : Forall2 req l1 l2 -> cat_list l1 ≈ cat_list l2.
Proof.
  induction 1 as [|x y l1 l2 Hxy Hl IH].
  - apply req_refl.
  - eapply req_trans; [apply cat_list_cons|]. apply req_sym.
    eapply req_trans; [apply cat_list_cons|]. apply req_sym.
    apply req_cat; assumption.
Qed.

Lemma alt_list_cons x y l : alt_list (x :: y :: l) = RAlt x (alt_list (y :: l)).
Proof. reflexivity. Qed.

Lemma alt_list_congr l1 l2 : Forall2 req l1 l2 -> alt_list l1 ≈ alt_list l2.
Proof.
  induction 1 as [|x y l1 l2 Hxy Hl IH].
  - apply req_refl.
  - destruct Hl as [|x' y' l1' l2' Hx' Hl'].
    + simpl. exact Hxy.
    + rewrite !alt_list_cons. apply req_alt; assumption.
Qed.

(* ---------- classes ---------- *)
Lemma rset_ext c1 c2 : (forall r, in_cls c1 r = in_cls c2 r) -> RSet c1 ≈ RSet c2.
Proof. intros H R p s i c k. simpl. destruct s as [|r s']; [reflexivity|]. rewrite H. reflexivity. Qed.

(* an alternation of two one-rune sets is the set of their union: both branches call the same continuation *)
Lemma alt_sets c1 c2 c3 :
  (forall r, in_cls c3 r = in_cls c1 r || in_cls c2 r) -> RAlt (RSet c1) (RSet c2) ≈ RSet c3.
Proof.
  intros H R p s i c k. simpl. destruct s as [|r s']; [reflexivity|]. rewrite H.
  destruct (in_cls c1 r), (in_cls c2 r); simpl; try reflexivity.
  - apply orelse_same.
  - destruct (k (Some r) s' (i + rune_len r) c); reflexivity.
Qed.

(* factoring a one-rune set out of an alternation (a set calls its continuation at most once) *)
Lemma alt_factor_set cl b c : RAlt (RCat (RSet cl) b) (RCat (RSet cl) c) ≈ RCat (RSet cl) (RAlt b c).
Proof.
  intros R p s i cc k. simpl. destruct s as [|r s']; [reflexivity|]. destruct (in_cls cl r); reflexivity.
Qed.

(* ---------- progress: what a matcher hands to its continuation is never longer ---------- *)
Definition kguard {R} (n : nat) (k : @kont R) : @kont R :=
  fun p s i c => if Nat.ltb (List.length s) n then k p s i c else None.

Lemma kguard_in {R} n (k : @kont R) p s i c : length s < n -> kguard n k p s i c = k p s i c.
Proof. intros H. unfold kguard. apply Nat.ltb_lt in H. rewrite H. reflexivity. Qed.

Lemma kguard_congr {R} n (k1 k2 : @kont R) p s i c :
  (length s < n -> k1 p s i c = k2 p s i c) -> kguard n k1 p s i c = kguard n k2 p s i c.
Proof.
  intros H. unfold kguard. destruct (Nat.ltb (length s) n) eqn:E; [|reflexivity].
  apply H. apply Nat.ltb_lt. exact E.
Qed.

Lemma loopF_le {R} (ma : option rune -> list rune -> nat -> caps -> @kont R -> option R) g k :
  (forall p s i c ka kb, kext ka kb -> ma p s i c ka = ma p s i c kb) ->
  (forall n p s i c kk, length s < n -> ma p s i c kk = ma p s i c (kguard n kk)) ->
  forall fuel n p s i c, length s < n -> loopF ma g k fuel p s i c = loopF ma g (kguard n k) fuel p s i c.
Proof.
  intros Hext Hle fuel. induction fuel as [|f IH]; intros n p s i c Hs; simpl.
  - rewrite kguard_in by exact Hs. reflexivity.
  - rewrite (kguard_in n k p s i c Hs).
    assert (E : ma p s i c (fun p' s' i' c' => if Nat.ltb (length s') (length s) then loopF ma g k f p' s' i' c' else None)
              = ma p s i c (fun p' s' i' c' => if Nat.ltb (length s') (length s) then loopF ma g (kguard n k) f p' s' i' c' else None)).
    { apply Hext. intros p' s' i' c'. destruct (Nat.ltb (length s') (length s)) eqn:E; [|reflexivity].
      apply IH. apply Nat.ltb_lt in E. lia. }
    rewrite E. reflexivity.
Qed.

Lemma firstF_le {R} (ma : option rune -> list rune -> nat -> caps -> @kont R -> option R) g k :
  (forall p s i c ka kb, kext ka kb -> ma p s i c ka = ma p s i c kb) ->
  (forall n p s i c kk, length s < n -> ma p s i c kk = ma p s i c (kguard n kk)) ->
  forall n m0 p s i c,
    (forall kk, ma p s i c kk = ma p s i c (kguard m0 kk)) -> m0 <= n ->
    firstF ma g k p s i c = firstF ma g (kguard n k) p s i c.
Proof.
  intros Hext Hle n m0 p s i c Hm Hmn. unfold firstF.
  rewrite (Hm _).
  rewrite (Hm (fun p1 s1 i1 c1 => if Nat.ltb (length s1) (length s) then loopF ma g (kguard n k) (S (length s1)) p1 s1 i1 c1 else kguard n k p1 s1 i1 c1)).
  apply Hext. intros p1 s1 i1 c1. apply kguard_congr. intros E1.
  destruct (Nat.ltb (length s1) (length s)).
  - apply loopF_le; [assumption|assumption|lia].
  - rewrite kguard_in by lia. reflexivity.
Qed.

Lemma m_le {R} (e : rx) : forall n p s i c (k : @kont R), length s < n -> m e p s i c k = m e p s i c (kguard n k).
Proof.
  induction e as [|cl|a|a IHa b IHb|a IHa b IHb|g a IHa|g a IHa|g a IHa|nn a IHa]; intros n p s i c k Hs.
  - simpl. rewrite kguard_in by exact Hs. reflexivity.
  - simpl. destruct s as [|r s']; [reflexivity|]. destruct (in_cls cl r); [|reflexivity].
    rewrite kguard_in by (simpl in Hs; lia). reflexivity.
  - simpl. destruct (assert_ok a p s); [|reflexivity]. rewrite kguard_in by exact Hs. reflexivity.
  - simpl. rewrite (IHa n p s i c _ Hs). rewrite (IHa n p s i c (fun p' s' i' c' => m b p' s' i' c' (kguard n k)) Hs).
    apply m_ext. intros p' s' i' c'. apply kguard_congr. intros E. apply IHb. exact E.
  - simpl. rewrite <- (IHa n p s i c k Hs), <- (IHb n p s i c k Hs). reflexivity.
  - rewrite !m_star. rewrite (kguard_in n k p s i c Hs).
    rewrite (firstF_le (m a) g k (fun p s i c ka kb H => m_ext a p s i c ka kb H) IHa n n p s i c (fun kk => IHa n p s i c kk Hs) (le_n n)).
    reflexivity.
  - rewrite !m_plus.
    apply (firstF_le (m a) g k (fun p s i c ka kb H => m_ext a p s i c ka kb H) IHa n n p s i c (fun kk => IHa n p s i c kk Hs) (le_n n)).
  - simpl. rewrite (kguard_in n k p s i c Hs), <- (IHa n p s i c k Hs). reflexivity.
  - simpl. rewrite (IHa n p s i c _ Hs).
    rewrite (IHa n p s i c (fun p' s' i' c' => kguard n k p' s' i' (cset nn (i, i') c')) Hs).
    apply m_ext. intros p' s' i' c'. unfold kguard. destruct (Nat.ltb (length s') n); reflexivity.
Qed.

(* [consumes] (expressions that always consume at least one rune) is defined in Model_Regex *)

Lemma m_lt {R} (e : rx) : consumes e = true ->
  forall n p s i c (k : @kont R), length s <= n -> m e p s i c k = m e p s i c (kguard n k).
Proof.
  induction e as [|cl|a|a IHa b IHb|a IHa b IHb|g a IHa|g a IHa|g a IHa|nn a IHa]; simpl; intros Hc n p s i c k Hs;
    try discriminate.
  - destruct s as [|r s']; [reflexivity|]. destruct (in_cls cl r); [|reflexivity].
    rewrite kguard_in by (simpl in Hs; lia). reflexivity.
  - apply orb_true_iff in Hc as [Hc|Hc].
    + rewrite (IHa Hc n p s i c _ Hs).
      rewrite (IHa Hc n p s i c (fun p' s' i' c' => m b p' s' i' c' (kguard n k)) Hs).
      apply m_ext. intros p' s' i' c'. apply kguard_congr. intros E. apply m_le. exact E.
    + assert (Hs' : length s < S n) by lia.
      rewrite (m_le a (S n) p s i c _ Hs').
      rewrite (m_le a (S n) p s i c (fun p' s' i' c' => m b p' s' i' c' (kguard n k)) Hs').
      apply m_ext. intros p' s' i' c'. apply kguard_congr. intros E. apply IHb; [exact Hc|]. lia.
  - apply andb_true_iff in Hc as [Ha Hb].
    rewrite <- (IHa Ha n p s i c k Hs), <- (IHb Hb n p s i c k Hs). reflexivity.
  - change (m (RPlus g a) p s i c k = m (RPlus g a) p s i c (kguard n k)). rewrite !m_plus.
    apply (firstF_le (m a) g k (fun p s i c ka kb H => m_ext a p s i c ka kb H) (m_le a) n n p s i c
             (fun kk => IHa Hc n p s i c kk Hs) (le_n n)).
  - rewrite (IHa Hc n p s i c _ Hs).
    rewrite (IHa Hc n p s i c (fun p' s' i' c' => kguard n k p' s' i' (cset nn (i, i') c')) Hs).
    apply m_ext. intros p' s' i' c'. unfold kguard. destruct (Nat.ltb (length s') n); reflexivity.
Qed.

(* with a consuming body, the continuation of one iteration is only reached with a strictly shorter subject *)
Lemma m_consumes_strict {R} e : consumes e = true ->
  forall p s i c (k : @kont R),
    m e p s i c k = m e p s i c (fun p' s' i' c' => if Nat.ltb (length s') (length s) then k p' s' i' c' else None).
Proof. intros Hc p s i c k. apply (m_lt e Hc (length s) p s i c k). lia. Qed.
