From GC Require Import Base Model_Regex Model_RegexSimplify.
