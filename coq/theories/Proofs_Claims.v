(* Proofs_Claims.v — the diagnostics of C12 state true facts (under the named conditions), and the
   refutations for the conditions the code does not check. *)
From GC Require Import Base Model_Expr Model_BoolSimp Model_Claims Proofs_Expr Proofs_BoolSimp.
From Coq Require Import QArith.
Close Scope Q_scope.
Open Scope string_scope.

(* ---------- constants ---------- *)
Lemma const_val_eval en : forall e v, const_val e = Some v -> forall h, evalS en e h = Some (RVal v, h).
Proof.
  induction e; simpl; intros v C h; try discriminate.
  - rewrite C. reflexivity.
  - auto.
  - destruct op; try discriminate.
    destruct (const_val e) as [[]|] eqn:E; try discriminate; inversion C; subst;
      rewrite (IHe _ eq_refl h); reflexivity.
  - destruct (const_val e1) as [[]|] eqn:E1; destruct (const_val e2) as [[]|] eqn:E2; destruct op; try discriminate;
      inversion C; subst; simpl; rewrite (IHe1 _ eq_refl h); simpl; rewrite (IHe2 _ eq_refl h); reflexivity.
  - inversion C; subst; reflexivity.
Qed.

(* ---------- order facts ---------- *)
Lemma fl_lt_trans x a b : fl_compare x a = Some Lt -> fl_compare a b = Some Lt -> fl_compare x b = Some Lt.
Proof.
  destruct x as [|[]|p], a as [|[]|q], b as [|[]|r]; simpl; try discriminate; auto.
  intros H1 H2. assert (H1' : Qcompare p q = Lt) by congruence. assert (H2' : Qcompare q r = Lt) by congruence.
  clear H1 H2. f_equal. apply Qlt_alt. apply Qlt_alt in H1', H2'. eapply Qlt_trans; eauto.
Qed.

Lemma ascii_lt_trans a b c : Ascii.compare a b = Lt -> Ascii.compare b c = Lt -> Ascii.compare a c = Lt.
Proof. unfold Ascii.compare. rewrite !N.compare_lt_iff. apply N.lt_trans. Qed.

Lemma string_lt_trans : forall x a b, String.compare x a = Lt -> String.compare a b = Lt -> String.compare x b = Lt.
Proof.
  induction x as [|c1 x IH]; intros [|c2 a] [|c3 b]; simpl; try discriminate; auto.
  destruct (Ascii.compare c1 c2) eqn:C12; try discriminate;
    destruct (Ascii.compare c2 c3) eqn:C23; try discriminate; intros H1 H2.
  - apply Ascii.compare_eq_iff in C12. subst c2. rewrite C23. eauto.
  - apply Ascii.compare_eq_iff in C12. subst c2. rewrite C23. reflexivity.
  - apply Ascii.compare_eq_iff in C23. subst c3. rewrite C12. reflexivity.
  - rewrite (ascii_lt_trans _ _ _ C12 C23). reflexivity.
Qed.

(* x < a, a < b  =>  not (x > b): integers, floats (NaN never satisfies x < a), strings *)
Lemma lt_lt_not_gt v a b :
  cmp_val OLt v a = Some true -> cmp_val OLt a b = Some true -> cmp_val OGt v b = Some false.
Proof.
  destruct v, a, b; simpl; try discriminate.
  - intros H1 H2. f_equal.
    destruct (Z.compare_spec z z0); simpl in H1; try discriminate.
    destruct (Z.compare_spec z0 z1); simpl in H2; try discriminate.
    destruct (Z.compare_spec z z1); simpl; auto; exfalso; lia.
  - unfold fl_cmp. intros H1 H2.
    destruct (fl_compare f f0) as [[]|] eqn:C1; try discriminate.
    destruct (fl_compare f0 f1) as [[]|] eqn:C2; try discriminate.
    rewrite (fl_lt_trans _ _ _ C1 C2). reflexivity.
  - intros H1 H2.
    destruct (String.compare s s0) eqn:C1; try discriminate.
    destruct (String.compare s0 s1) eqn:C2; try discriminate.
    rewrite (string_lt_trans _ _ _ C1 C2). reflexivity.
Qed.

(* ---------- badCond ---------- *)
Theorem bad_cond_false_partial l r x a b va vb :
  unparen l = EBinary OLt x a -> unparen r = EBinary OGt x b ->
  no_opaque x = true ->
  const_val a = Some va -> const_val b = Some vb -> cmp_val OLt va vb = Some true ->
  always false (EBinary OLAnd l r).
Proof.
  intros Ul Ur P Ca Cb Lt en h v h' Hen E.
  destruct (no_opaque_pure en x P) as [rx Hx].
  rewrite (eval_land en) in E. rewrite <- (evalS_unparen en l), Ul in E.
  rewrite (eval_cmp_generic en OLt x a h eq_refl), (Hx h) in E.
  destruct rx as [[v1|]|]; simpl in E; try discriminate.
  rewrite (const_val_eval en a va Ca h) in E. simpl in E.
  destruct (cmp_val OLt v1 va) as [[]|] eqn:C1; simpl in E; try discriminate.
  - rewrite <- (evalS_unparen en r), Ur in E.
    rewrite (eval_cmp_generic en OGt x b h eq_refl), (Hx h) in E. simpl in E.
    rewrite (const_val_eval en b vb Cb h) in E. simpl in E.
    rewrite (lt_lt_not_gt v1 va vb C1 Lt) in E. simpl in E. inversion E; reflexivity.
  - inversion E; reflexivity.
Qed.

(* before commit 408944d the matcher did not ask for purity: an impure operand refuted the claim *)
Definition w_badcond : expr :=
  EBinary OLAnd (EBinary OLt (ECall (FOpaque "f" TInt) []) (ELit LInt "1" TInt))
                (EBinary OGt (ECall (FOpaque "f" TInt) []) (ELit LInt "5" TInt)).
Definition w_badcond_env : env := env_of [] [("f", fun n => match n with O => VInt 0 | _ => VInt 9 end)].

Theorem bad_cond_prefix_impure_refuted :
  exists en e, env_ok en /\ typeof e = Some TBool /\ bad_cond_less_and_greater_prefix e = true /\
    bad_cond_message e = "`f() < 1 && f() > 5` condition is always false" /\
    eval en e = Some (RVal (VBool true), [Ev "f" [] (VInt 0); Ev "f" [] (VInt 9)]) /\
    bad_cond_less_and_greater e = false.
Proof. exists w_badcond_env, w_badcond. split; [apply env_of_ok|]. vm_compute. repeat split. Qed.

(* the current matcher is exactly "x < a && x > b with side-effect-free x and constants a < b" *)
Lemma bad_cond_matcher_inv e :
  bad_cond_less_and_greater e = true ->
  exists l r x a b va vb, e = EBinary OLAnd l r /\ unparen l = EBinary OLt x a /\ unparen r = EBinary OGt x b /\
    sef_typed x = true /\ const_val a = Some va /\ const_val b = Some vb /\ cmp_val OLt va vb = Some true.
Proof.
  destruct e as [| | | |[] l r| | | | | | |]; simpl; try discriminate.
  destruct (unparen l) as [| | | |[] x a| | | | | | |] eqn:Ul; try discriminate.
  destruct (unparen r) as [| | | |[] x' b| | | | | | |] eqn:Ur; try discriminate.
  intros H. apply andb_true_iff in H as [H1 H2]. apply andb_true_iff in H1 as [H1 S]. apply expr_eqb_eq in H1. subst x'.
  unfold const_less in H2. destruct (const_val a) as [va|] eqn:Ca; [|discriminate].
  destruct (const_val b) as [vb|] eqn:Cb; [|discriminate].
  destruct (cmp_val OLt va vb) as [[]|] eqn:C; try discriminate.
  exists l, r, x, a, b, va, vb. auto 10.
Qed.

(* ---------- sloppyLen ---------- *)
Lemma prim_len_nonneg vs v : prim_apply PLen vs = Some (RVal v) -> exists n, v = VInt n /\ (0 <= n)%Z.
Proof.
  destruct vs as [|a [|b r]]; simpl; try discriminate; destruct a; try discriminate;
    intros H; inversion H; eexists; split; eauto; unfold slen; lia.
Qed.

Theorem sloppy_len_true e b : sloppy_len_claim e = Some b -> always b e.
Proof.
  unfold sloppy_len_claim.
  destruct e as [| | | |o l z| | | | | | |]; try discriminate.
  destruct l as [| | | | |f args| | | | | |]; try (destruct o; discriminate).
  destruct f as [|p]; try (destruct o; discriminate). destruct p; try (destruct o; discriminate).
  destruct args as [|x [|y r]]; try (destruct o; discriminate).
  destruct (is_zero_lit z) eqn:Z; [|destruct o; discriminate].
  destruct z as [|k s t| | | | | | | | | |]; try discriminate. destruct k; try discriminate. simpl in Z.
  destruct (go_int_lit s) as [[| |]|] eqn:GZ; try discriminate.
  intros Hb en h v h' Hen E.
  assert (G : forall o', o' = o -> is_cmp o' = true ->
     (forall n, (0 <= n)%Z -> cmp_ord o (n ?= 0)%Z = b) -> v = VBool b).
  { intros o' -> Co Hn. rewrite (eval_cmp_generic en o _ _ h Co) in E. rewrite evalS_call in E.
    destruct (evalS_list en [x] h) as [[[vs|] h1]|]; cbv beta iota delta [bind] in E; try discriminate.
    destruct (prim_apply PLen vs) as [[w|]|] eqn:PA; cbv beta iota delta [bind lift] in E; try discriminate.
    destruct (prim_len_nonneg _ _ PA) as (n & -> & Hn0).
    destruct t; simpl in E; try rewrite GZ in E; simpl in E; try discriminate.
    inversion E. rewrite (Hn n Hn0). reflexivity. }
  destruct o; try discriminate; inversion Hb; subst b; apply (G _ eq_refl eq_refl); intros n Hn;
    destruct (Z.compare_spec n 0); simpl; auto; exfalso; lia.
Qed.

(* ---------- offBy1 ---------- *)
Lemma nth_Z_length {A} (l : list A) : nth_Z l (List.length l) = None.
Proof. induction l; simpl; auto. Qed.

Lemma nth_byte_length s : nth_byte s (String.length s) = None.
Proof. induction s; simpl; auto. Qed.

Theorem off_by1_panics e : off_by1 e = true -> always_panics e.
Proof.
  unfold off_by1. destruct e as [| | | | | |x i| | | | |]; try discriminate.
  destruct i as [| | | | |f args| | | | | |]; try discriminate. destruct f as [|p]; try discriminate.
  destruct p; try discriminate. destruct args as [|x' [|y r]]; try discriminate.
  intros H. apply andb_true_iff in H as [H T]. apply andb_true_iff in H as [E P]. apply expr_eqb_eq in E. subst x'.
  intros en h v h' Hen Ev.
  destruct (no_opaque_pure en x (rg_pure_no_opaque x P)) as [rx Hx].
  simpl in Ev. rewrite (Hx h) in Ev. destruct rx as [[va|]|]; simpl in Ev; try discriminate.
  rewrite (Hx h) in Ev. simpl in Ev.
  assert (Tv : vty va = TInts \/ vty va = TBytes).
  { destruct (typeof x) as [tx|] eqn:Tx; [|discriminate].
    assert (vty va = tx) by (eapply (preservation en Hen x tx []); [exact Tx|rewrite Hx; reflexivity]).
    destruct tx; try discriminate; auto. }
  destruct va; simpl in Tv; try (destruct Tv; discriminate); simpl in Ev; try discriminate.
  - unfold slen in Ev. destruct (Z.of_nat (String.length s) <? 0)%Z eqn:Neg; [apply Z.ltb_lt in Neg; lia|].
    rewrite Nat2Z.id, nth_byte_length in Ev. discriminate.
  - destruct (Z.of_nat (List.length l) <? 0)%Z eqn:Neg; [apply Z.ltb_lt in Neg; lia|].
    rewrite Nat2Z.id, nth_Z_length in Ev. discriminate.
Qed.

(* ---------- dupSubExpr ---------- *)
Fixpoint sef_typed_list (l : list expr) : bool :=
  match l with [] => true | x :: r => sef_typed x && sef_typed_list r end.
Lemma sef_typed_no_opaque : forall e, sef_typed e = true -> no_opaque e = true.
Proof.
  induction e using expr_ind'; simpl; intros S; auto.
  - apply andb_true_iff in S as [S1 S2]. rewrite IHe1, IHe2; auto.
  - destruct f as [|p]; [discriminate|].
    assert (S' : sef_typed_list args = true) by (destruct p; try discriminate; exact S).
    clear S. induction H as [|x r Hx Hr IH]; simpl in *; auto. apply andb_true_iff in S' as [S1 S2]. rewrite Hx, IH; auto.
  - apply andb_true_iff in S as [S1 S2]. rewrite IHe1, IHe2; auto.
Qed.

(* badCond, total: every expression the current matcher flags is false whenever it yields a value *)
Theorem bad_cond_false e : bad_cond_less_and_greater e = true -> always false e.
Proof.
  intros H. destruct (bad_cond_matcher_inv e H) as (l & r & x & a & b & va & vb & -> & Ul & Ur & S & Ca & Cb & Lt).
  eapply bad_cond_false_partial; eauto. apply sef_typed_no_opaque; exact S.
Qed.

Theorem dup_sub_expr_same o x y : dup_sub_expr (EBinary o x y) = true -> same_value x y.
Proof.
  unfold dup_sub_expr. intros H. apply andb_true_iff in H as [H E]. apply andb_true_iff in H as [_ S].
  apply expr_eqb_eq in E. subst y. simpl in S. apply andb_true_iff in S as [S _].
  intros en h Hen. split; [reflexivity|].
  destruct (no_opaque_pure en x (sef_typed_no_opaque x S)) as [rx Hx].
  intros o0 h'. rewrite (Hx h). destruct rx; simpl; intros H0; inversion H0; reflexivity.
Qed.

(* dupArg: the two arguments are the same value and evaluating them has no effects *)
Theorem dup_arg_pair_same e x y : dup_arg e = true -> dup_arg_pair e = Some (x, y) -> same_value x y.
Proof.
  unfold dup_arg. intros H D. rewrite D in H. apply andb_true_iff in H as [E P].
  apply expr_eqb_eq in E. subst y.
  intros en h Hen. split; [reflexivity|].
  destruct (no_opaque_pure en x (rg_pure_no_opaque x P)) as [rx Hx].
  intros o0 h'. rewrite (Hx h). destruct rx; simpl; intros H0; inversion H0; reflexivity.
Qed.

Theorem dup_arg_same p x y : dup_arg (ECall (FPrim p) [x; y]) = true -> same_value x y.
Proof.
  intros H. apply (dup_arg_pair_same _ x y H). unfold dup_arg in H.
  destruct p; simpl in *; try reflexivity; discriminate.
Qed.

(* nilValReturn: inside `if x == k { ... }` a side-effect-free x evaluates again to a value equal to k, without
   events (k: any operand that yields the same value at every history, as nil does) *)
Theorem nil_val_return_nil en x k vk h h1 :
  env_ok en -> sef_typed x = true -> (forall h', evalS en k h' = Some (RVal vk, h')) ->
  evalS en (EBinary OEq x k) h = Some (RVal (VBool true), h1) ->
  h1 = h /\ exists v, evalS en x h1 = Some (RVal v, h1) /\ cmp_val OEq v vk = Some true.
Proof.
  intros Hen S Hk E.
  destruct (no_opaque_pure en x (sef_typed_no_opaque x S)) as [rx Hx].
  rewrite (eval_cmp_generic en OEq x k h eq_refl), (Hx h) in E.
  destruct rx as [[v1|]|]; simpl in E; try discriminate.
  rewrite (Hk h) in E. simpl in E.
  destruct (cmp_val OEq v1 vk) as [[]|] eqn:C; simpl in E; try discriminate.
  inversion E; subst h1. split; [reflexivity|]. exists v1. split; [apply (Hx h)|exact C].
Qed.

Theorem nil_val_return_flagged_pure s : nil_val_return s = true ->
  sef_typed (nvr_x s) = true /\ In (Some (nvr_x s)) (nvr_results s).
Proof.
  unfold nil_val_return. intros H. repeat (apply andb_true_iff in H as [H ?]).
  split; [assumption|].
  match goal with E : existsb _ _ = true |- _ => apply existsb_exists in E as (r & Hin & Hr) end.
  destruct r as [e|]; [|discriminate]. apply expr_eqb_eq in Hr. subst e. exact Hin.
Qed.

(* why == != <= >= are exempted for float operands: x == x is not a tautology *)
Theorem dup_float_exemption_needed :
  cmp_val OEq (VFloat FNaN) (VFloat FNaN) = Some false /\ cmp_val ONe (VFloat FNaN) (VFloat FNaN) = Some true /\
  dup_sub_expr (EBinary OEq (EIdent "x" TFloat) (EIdent "x" TFloat)) = false /\
  dup_sub_expr (EBinary OEq (EIdent "x" TInt) (EIdent "x" TInt)) = true /\
  dup_sub_expr (EBinary OLt (EIdent "x" TFloat) (EIdent "x" TFloat)) = true.
Proof. vm_compute. repeat split. Qed.

(* x < x and x > x on equal operands are false for every value, NaN included *)
Lemma cmp_self_lt_gt_false o v c : (o = OLt \/ o = OGt) -> cmp_val o v v = Some c -> c = false.
Proof.
  intros O. destruct v; simpl; try discriminate.
  - rewrite Z.compare_refl. destruct O as [-> | ->]; simpl; intros H; inversion H; reflexivity.
  - unfold fl_cmp. destruct f as [|[]|q]; simpl; try (destruct O as [-> | ->]; simpl; intros H; inversion H; reflexivity).
    assert (Qcompare q q = Eq) as -> by (apply Qeq_alt; reflexivity).
    destruct O as [-> | ->]; simpl; intros H; inversion H; reflexivity.
  - destruct (String.compare s s) eqn:C.
    + destruct O as [-> | ->]; simpl; intros H; inversion H; reflexivity.
    + pose proof (String.compare_antisym s s) as A. rewrite C in A. simpl in A. discriminate.
    + pose proof (String.compare_antisym s s) as A. rewrite C in A. simpl in A. discriminate.
  - destruct O as [-> | ->]; discriminate.
Qed.

(* ---------- caseOrder ---------- *)
Lemma first_match_spec impl es v : forall n i,
  first_match impl es v n = Some i ->
  exists pre e post, es = (pre ++ e :: post)%list /\ i = n + List.length pre /\ entry_matches impl e v = true /\
    forall e', In e' pre -> entry_matches impl e' v = false.
Proof.
  induction es as [|e r IH]; simpl; intros n i H; [discriminate|].
  destruct (entry_matches impl e v) eqn:M.
  - inversion H; subst. exists [], e, r. simpl. split; [reflexivity|split; [lia|split; [exact M|intros e' []]]].
  - destruct (IH _ _ H) as (pre & e0 & post & -> & -> & M0 & Hpre).
    exists (e :: pre), e0, post. simpl. split; [reflexivity|split; [lia|split; [exact M0|]]].
    intros e' [<-|Hin]; auto.
Qed.

Lemma find_iface_In impl t ifaces j : find_iface impl t ifaces = Some j ->
  exists tj, In (j, tj) ifaces /\ impl t tj = true.
Proof.
  induction ifaces as [|[j0 i0] r IH]; simpl; [discriminate|].
  destruct (impl t i0) eqn:I.
  - intros H; inversion H; subst. eauto.
  - intros H. destruct (IH H) as (tj & Hin & Hi). eauto.
Qed.

Lemma case_order_from_prefix_spec impl : forall suffix pre ifaces i j,
  (forall j0 tj, In (j0, tj) ifaces -> nth_error pre j0 = Some (tj, KIface)) ->
  In (i, j) (case_order_from_prefix impl suffix ifaces (List.length pre)) ->
  exists t k tj, nth_error (pre ++ suffix)%list i = Some (t, k) /\ nth_error (pre ++ suffix)%list j = Some (tj, KIface) /\
    (j < i)%nat /\ impl t tj = true.
Proof.
  induction suffix as [|[t k] r IH]; simpl; intros pre ifaces i j Hinv Hin; [contradiction|].
  apply in_app_or in Hin as [Hin|Hin].
  - destruct (find_iface impl t ifaces) as [j0|] eqn:F; [|contradiction].
    destruct Hin as [Hin|[]]. inversion Hin; subst i j0.
    destruct (find_iface_In _ _ _ _ F) as (tj & Hj & Hi).
    pose proof (Hinv _ _ Hj) as Hn.
    assert (j < List.length pre)%nat by (apply nth_error_Some; rewrite Hn; discriminate).
    exists t, k, tj. repeat split; auto.
    + rewrite nth_error_app2 by lia. rewrite Nat.sub_diag. reflexivity.
    + rewrite nth_error_app1 by lia. exact Hn.
  - specialize (IH (pre ++ [(t, k)])%list (match k with KIface => (ifaces ++ [(List.length pre, t)])%list | _ => ifaces end) i j).
    rewrite app_length in IH. simpl in IH. rewrite Nat.add_1_r in IH.
    rewrite <- app_assoc in IH. simpl in IH. apply IH; auto.
    intros j0 tj0 Hj0.
    assert (Old : In (j0, tj0) ifaces -> nth_error (pre ++ [(t, k)])%list j0 = Some (tj0, KIface)).
    { intros Hold. pose proof (Hinv _ _ Hold) as Hn.
      assert (j0 < List.length pre)%nat by (apply nth_error_Some; rewrite Hn; discriminate).
      rewrite nth_error_app1 by lia. exact Hn. }
    destruct k; auto.
    apply in_app_or in Hj0 as [Hold|[Hnew|[]]]; auto.
    inversion Hnew; subst. rewrite nth_error_app2 by lia. rewrite Nat.sub_diag. reflexivity.
Qed.

Lemma case_order_from_spec impl : forall suffix pre ifaces i j,
  (forall j0 tj, In (j0, tj) ifaces -> nth_error pre j0 = Some (tj, KIface)) ->
  In (i, j) (case_order_from impl suffix ifaces (List.length pre)) ->
  exists t k tj, nth_error (pre ++ suffix)%list i = Some (t, k) /\ nth_error (pre ++ suffix)%list j = Some (tj, KIface) /\
    (j < i)%nat /\ impl t tj = true /\ k <> KNil.
Proof.
  induction suffix as [|[t k] r IH]; intros pre ifaces i j Hinv Hin; [contradiction|].
  assert (Rec : In (i, j) (case_order_from impl r (match k with KIface => (ifaces ++ [(List.length pre, t)])%list | _ => ifaces end) (S (List.length pre))) ->
                exists t0 k0 tj, nth_error (pre ++ (t, k) :: r)%list i = Some (t0, k0) /\ nth_error (pre ++ (t, k) :: r)%list j = Some (tj, KIface) /\
                  (j < i)%nat /\ impl t0 tj = true /\ k0 <> KNil).
  { intros Hrec.
    specialize (IH (pre ++ [(t, k)])%list (match k with KIface => (ifaces ++ [(List.length pre, t)])%list | _ => ifaces end) i j).
    rewrite app_length in IH. simpl in IH. rewrite Nat.add_1_r in IH.
    rewrite <- app_assoc in IH. simpl in IH. apply IH; auto.
    intros j0 tj0 Hj0.
    assert (Old : In (j0, tj0) ifaces -> nth_error (pre ++ [(t, k)])%list j0 = Some (tj0, KIface)).
    { intros Hold. pose proof (Hinv _ _ Hold) as Hn.
      assert (j0 < List.length pre)%nat by (apply nth_error_Some; rewrite Hn; discriminate).
      rewrite nth_error_app1 by lia. exact Hn. }
    destruct k; auto.
    apply in_app_or in Hj0 as [Hold|[Hnew|[]]]; auto.
    inversion Hnew; subst. rewrite nth_error_app2 by lia. rewrite Nat.sub_diag. reflexivity. }
  destruct k; simpl in Hin; [apply Rec; exact Hin| |];
    (apply in_app_or in Hin as [Hin|Hin]; [|apply Rec; exact Hin]);
    (destruct (find_iface impl t ifaces) as [j0|] eqn:F; [|contradiction]);
    (destruct Hin as [Hin|[]]); inversion Hin; subst i j0;
    destruct (find_iface_In _ _ _ _ F) as (tj & Hj & Hi);
    pose proof (Hinv _ _ Hj) as Hn;
    assert (j < List.length pre)%nat by (apply nth_error_Some; rewrite Hn; discriminate).
  - exists t, KConcrete, tj. repeat split; auto; try discriminate.
    + rewrite nth_error_app2 by lia. rewrite Nat.sub_diag. reflexivity.
    + rewrite nth_error_app1 by lia. exact Hn.
  - exists t, KIface, tj. repeat split; auto; try discriminate.
    + rewrite nth_error_app2 by lia. rewrite Nat.sub_diag. reflexivity.
    + rewrite nth_error_app1 by lia. exact Hn.
Qed.

Lemma nth_error_split_eq {A} (pre post : list A) e i x :
  nth_error (pre ++ e :: post)%list i = Some x -> i = List.length pre -> x = e.
Proof. intros H ->. rewrite nth_error_app2 in H by lia. rewrite Nat.sub_diag in H. inversion H; reflexivity. Qed.

Theorem case_order_prefix_unreachable_partial impl es i j t k :
  In (i, j) (case_order_prefix impl es) -> nth_error es i = Some (t, k) -> k <> KNil ->
  impl_trans_on impl es -> unreachable_entry impl es i.
Proof.
  intros Hin Hn Hk Htr v Hfm.
  destruct (case_order_from_prefix_spec impl es [] [] i j (fun _ _ H => match H with end) Hin)
    as (t' & k' & tj & Hi & Hj & Hlt & Himpl).
  simpl in Hi, Hj. pose proof (eq_trans (eq_sym Hn) Hi) as HE. inversion HE; subst t' k'. clear HE Hi.
  destruct (first_match_spec _ _ _ _ _ Hfm) as (pre & e & post & Hes & Hidx & Hm & Hpre).
  simpl in Hidx. subst es.
  pose proof (nth_error_split_eq _ _ _ _ _ Hn Hidx) as <-.
  assert (Hjpre : In (tj, KIface) pre).
  { rewrite nth_error_app1 in Hj by lia. eapply nth_error_In; eauto. }
  pose proof (Hpre _ Hjpre) as Hnm. unfold entry_matches in Hm, Hnm. simpl in Hm, Hnm.
  destruct k; [congruence| |]; destruct v as [|t0]; try discriminate.
  - apply N.eqb_eq in Hm. subst t0. congruence.
  - assert (impl t0 tj = true).
    { apply (Htr t0 t tj); auto; apply in_or_app; [right; left; reflexivity|left; exact Hjpre]. }
    congruence.
Qed.

(* caseOrder, total: a flagged case entry can never be the one that is taken *)
Theorem case_order_unreachable impl es i j :
  In (i, j) (case_order impl es) -> impl_trans_on impl es -> unreachable_entry impl es i.
Proof.
  intros Hin Htr v Hfm.
  destruct (case_order_from_spec impl es [] [] i j (fun _ _ H => match H with end) Hin)
    as (t & k & tj & Hn & Hj & Hlt & Himpl & Hk).
  simpl in Hn, Hj.
  destruct (first_match_spec _ _ _ _ _ Hfm) as (pre & e & post & Hes & Hidx & Hm & Hpre).
  simpl in Hidx. subst es.
  pose proof (nth_error_split_eq _ _ _ _ _ Hn Hidx) as <-.
  assert (Hjpre : In (tj, KIface) pre).
  { rewrite nth_error_app1 in Hj by lia. eapply nth_error_In; eauto. }
  pose proof (Hpre _ Hjpre) as Hnm. unfold entry_matches in Hm, Hnm. simpl in Hm, Hnm.
  destruct k; [congruence| |]; destruct v as [|t0]; try discriminate.
  - apply N.eqb_eq in Hm. subst t0. congruence.
  - assert (impl t0 tj = true).
    { apply (Htr t0 t tj); auto; apply in_or_app; [right; left; reflexivity|left; exact Hjpre]. }
    congruence.
Qed.

(* before commit e000017: `case nil` after `case interface{}` was flagged, yet it is the arm a nil interface value takes *)
Theorem case_order_prefix_nil_refuted :
  exists impl es i j, In (i, j) (case_order_prefix impl es) /\ nth_error es i = Some (0%N, KNil) /\
    impl_trans_on impl es /\ first_match impl es DNil 0 = Some i /\ case_order impl es = [].
Proof.
  exists (fun _ _ => true), [(1%N, KIface); (0%N, KNil)], 1, 0.
  split; [left; reflexivity|]. split; [reflexivity|]. split; [intros t j i _ _ _ _; reflexivity|split; reflexivity].
Qed.

(* ---------- a user function named len ---------- *)
Definition w_shadow_len : expr := ECall (FOpaque "len" TInt) [EIdent "xs" TInts].
Theorem sloppy_len_shadowed_refuted :
  exists en e, env_ok en /\ sloppy_len_claim_by_name e = Some true /\ sloppy_len_claim e = None /\
    eval en e = Some (RVal (VBool false), [Ev "len" [VInts [3; 1]%Z] (VInt (-1))]).
Proof.
  exists (env_of [("xs", VInts [3; 1]%Z)] [("len", fun _ => VInt (-1))]), (EBinary OGe w_shadow_len (ELit LInt "0" TInt)).
  split; [apply env_of_ok|]. vm_compute. repeat split.
Qed.

Theorem off_by1_shadowed_refuted :
  exists en e, env_ok en /\ off_by1_by_name e = true /\ off_by1 e = false /\
    eval en e = Some (RVal (VInt 3), [Ev "len" [VInts [3; 1]%Z] (VInt 0)]).
Proof.
  exists (env_of [("xs", VInts [3; 1]%Z)] [("len", fun _ => VInt 0)]), (EIndex (EIdent "xs" TInts) w_shadow_len).
  split; [apply env_of_ok|]. vm_compute. repeat split.
Qed.

(* a comparison of a float operand with itself is not constant: the x != x / x == x NaN tests *)
Theorem self_comparison_float_not_constant :
  cmp_val ONe (VFloat FNaN) (VFloat FNaN) = Some true /\ cmp_val ONe (VFloat (FFin (Qmake 1 1))) (VFloat (FFin (Qmake 1 1))) = Some false /\
  cmp_val OLe (VFloat FNaN) (VFloat FNaN) = Some false /\ cmp_val OLe (VFloat (FFin (Qmake 1 1))) (VFloat (FFin (Qmake 1 1))) = Some true.
Proof. vm_compute. repeat split. Qed.

(* ... while for every other value it is: == <= >= true, != < > false *)
Theorem self_comparison_constant_non_float o v c :
  vty v <> TFloat -> cmp_val o v v = Some c ->
  c = match o with OEq | OLe | OGe => true | _ => false end.
Proof.
  intros F. destruct v; simpl; try discriminate.
  - rewrite Z.compare_refl. destruct o; simpl; intros H; inversion H; reflexivity.
  - exfalso; apply F; reflexivity.
  - assert (String.compare s s = Eq) as ->.
    { destruct (String.compare s s) eqn:C; auto;
        pose proof (String.compare_antisym s s) as A; rewrite C in A; simpl in A; discriminate. }
    destruct o; simpl; intros H; inversion H; reflexivity.
  - destruct o; simpl; try discriminate; intros H; inversion H; destruct b; reflexivity.
Qed.

(* caseOrder treats `case T` (T a type parameter) as a case of T's constraint interface; for an instantiation
   with a concrete type it is a concrete case: an entry flagged after it can be reached *)
Theorem case_order_type_parameter_refuted :
  exists impl es_checker es_run i j, In (i, j) (case_order impl es_checker) /\
    first_match impl es_run (DType 8%N) 0 = Some i.
Proof.
  (* checker's view: [T as interface I1 (id 2); T1 (id 8)]; at run time T = T2 (id 9): [T2; T1] *)
  exists (fun t i => N.eqb i 2), [(2%N, KIface); (8%N, KConcrete)], [(9%N, KConcrete); (8%N, KConcrete)], 1, 0.
  split; [left; reflexivity|reflexivity].
Qed.
