(* Model_Checkers.v — transliterations of hand-written go-critic checkers over GoAst (no proofs here).

   Every partial Go operation of the transliterated code is explicit: indexing a slice is [nth_error] or a
   match on the list, slicing is guarded, a nil method receiver / explicit panic is a [Panic] outcome naming the
   site.  Accesses that are total in Go but partial only through the rose-tree encoding (for instance the [Sel]
   child of a selector) fall back to "no match"; [wf] guarantees the shape and the tie evaluates [wf] on every
   converted file.  All recursion is structural (Coq's guard is the termination argument).

   The definitions follow the repository after the fix commits a8b628a..98eb553 (guards marked `fix:`); the pre-fix
   variants live in Model_Checkers_Prefix.v for documentation only.

   A warning records the byte offset the Go code passes to ctx.Warn (the Pos() of the cause node) and how the
   checker recognised its subject: by spelling (qualifiedName / Ident.Name) or by object (types.Info). *)
From GC Require Import Base GoAst.

Inductive recog :=
  | RBare (name : string)            (* callee spelled `name`, no object consulted; subject: universe `name` *)
  | RQual (qual path : string)       (* callee spelled `qual.F`, no object consulted; subject: package `path` *)
  | RObject (path : string)          (* types.Info consulted: qualifier is the PkgName importing `path` *)
  | RNoSubject.

Record warning := {
  w_checker : string;
  w_cause : node;          (* node handed to ctx.Warn *)
  w_recog : recog;
  w_callee : okind;        (* object of the identifier the recognition looked at (callee or its qualifier) *)
  w_render_ok : bool       (* every node argument of the message format is a printable node *)
}.

Definition w_pos (w : warning) : N := npos (w_cause w).

Inductive outcome := Ok (ws : list warning) | Panic (site : string).

Inductive res (A : Type) := R (a : A) | P (site : string).
Arguments R {A} a.
Arguments P {A} site.

Definition warnings (o : outcome) : list warning := match o with Ok ws => ws | Panic _ => [] end.

Fixpoint seq_o (l : list outcome) : outcome :=
  match l with
  | [] => Ok []
  | Panic s :: _ => Panic s
  | Ok ws :: r => match seq_o r with Panic s => Panic s | Ok ws' => Ok (ws ++ ws')%list end
  end.

(* the object the recognition refers to is the documented one *)
Definition is_real (w : warning) : bool :=
  match w_recog w with
  | RBare name => okind_eqb (w_callee w) (OBuiltin name) || okind_eqb (w_callee w) (OUniverseType name) ||
                  (String.eqb name "nil" && okind_eqb (w_callee w) ONil)
  | RQual _ path => okind_eqb (w_callee w) (OPkgName path)
  | RObject path => okind_eqb (w_callee w) (OPkgName path)
  | RNoSubject => true
  end.

Definition nonempty {A} (l : list A) : bool := match l with [] => false | _ => true end.

(* ---------- the astwalk walkers (SkipChilds is never set by the modelled checkers) ---------- *)
Definition decl_entered (d : node) : bool :=
  if is_tag TFuncDecl d then N.eqb (nb d) 1 else true.      (* WalkHandler.EnterFunc: decl.Body != nil *)

Definition func_body (d : node) : option node :=
  if is_tag TFuncDecl d && N.eqb (nb d) 1 then nth_error (kids d) (N.to_nat (na d) + 2) else None.

Definition expr_nodes (f : file) : list node :=
  flat_map (fun d => if decl_entered d then filter is_expr (pre d) else []) (decls f).

Definition stmt_nodes (f : file) : list node :=
  flat_map (fun d => match func_body d with Some b => filter is_stmt (pre b) | None => [] end) (decls f).

Definition stmt_list_of (n : node) : list (list node) :=
  match ntag n with
  | TBlock => [kids n]
  | TCaseClause | TCommClause => [skipn (N.to_nat (na n)) (kids n)]
  | _ => []
  end.

Definition stmt_lists (f : file) : list (list node) :=
  flat_map (fun d => match func_body d with Some b => flat_map stmt_list_of (pre b) | None => [] end) (decls f).

Definition run_expr (visit : node -> outcome) (f : file) : outcome := seq_o (map visit (expr_nodes f)).
Definition run_stmt (visit : node -> outcome) (f : file) : outcome := seq_o (map visit (stmt_nodes f)).
Definition run_stmt_list (visit : list node -> outcome) (f : file) : outcome := seq_o (map visit (stmt_lists f)).

(* ---------- checkers/utils.go ---------- *)
Definition qualified_name (x : node) : string :=
  match x with
  | Nd TSelector _ _ _ _ _ (NC (Nd TIdent _ p _ _ _ _) (NC sel NN)) => p ++ "." ++ nstr sel
  | Nd TIdent _ s _ _ _ _ => s
  | _ => ""
  end.

(* the identifier whose spelling qualifiedName compared: the callee itself or its qualifier *)
Definition callee_ident (fn : node) : node :=
  match fn with
  | Nd TSelector _ _ _ _ _ (NC q _) => q
  | _ => fn
  end.

Definition mkw (c : string) (cause : node) (r : recog) (callee : node) (ok : bool) : warning :=
  {| w_checker := c; w_cause := cause; w_recog := r; w_callee := obj_of callee; w_render_ok := ok |}.

(* ================= appendCombine (StmtList walker) ================= *)
(* matchAppend: returns the call's callee and first argument when stmt is `x = append(x, ...)` continuing [slice] *)
Definition ac_match (stmt : node) (slice : option node) : res (option (node * node)) :=
  if negb (is_tag TAssign stmt) then R None else       (* astcast.ToAssignStmt: nil assignment has no Lhs *)
  let nl := N.to_nat (nb stmt) in
  let ks := kids stmt in
  if negb (Nat.eqb nl 1 && Nat.eqb (length ks - nl) 1) then R None else
  match ks with
  | [lhs; rhs] =>
      if negb (is_tag TCall rhs) then R None else
      match kids rhs with
      | [] => R None
      | fn :: args =>
          (* cond := ok && qualifiedName(call.Fun) == "append" && call.Ellipsis == NoPos && astequal(Lhs[0], call.Args[0]) *)
          if negb (String.eqb (qualified_name fn) "append") then R None else
          if N.eqb (na rhs) 1 then R None else
          match args with
          | [] => R None                      (* fix: len(call.Args) != 0 *)
          | a0 :: _ =>
              if negb (node_eqb lhs a0) then R None else
              match slice with
              | None => R (Some (fn, a0))
              | Some sl => if node_eqb sl a0 then R (Some (fn, a0)) else R None
              end
          end
      end
  | _ => R None
  end.

Definition ac_flush (cause : option (node * node)) (chain : nat) : list warning :=
  match cause with
  | Some (stmt, fn) => if Nat.ltb 1 chain then [mkw "appendCombine" stmt (RBare "append") fn true] else []
  | None => []
  end.

Fixpoint ac_loop (l : list node) (cause : option (node * node)) (slice : option node) (chain : nat) : outcome :=
  match l with
  | [] => Ok (ac_flush cause chain)
  | stmt :: r =>
      match ac_match stmt slice with
      | P s => Panic s
      | R None =>
          match ac_loop r cause None 0 with
          | Panic s => Panic s
          | Ok ws => Ok (ac_flush cause chain ++ ws)%list
          end
      | R (Some (fn, a0)) =>
          if Nat.eqb chain 0 then ac_loop r (Some (stmt, fn)) (Some a0) 1
          else ac_loop r cause slice (S chain)
      end
  end.

Definition appendCombine_visit (l : list node) : outcome := ac_loop l None None 0.
Definition run_appendCombine (f : file) : outcome := run_stmt_list appendCombine_visit f.

(* ================= newDeref (Expr walker) + lintutil.ZeroValueOf ================= *)
Inductive zv := ZNil | ZExpr (printable : bool).

(* ZeroValueOf(typeExpr, typ): [printable = false] is the call expression built around a nil literal *)
Definition zero_value_of (t : tyclass) (deflit : bool) : zv :=
  match t with
  | TyInt | TyFloat | TyString | TyBool => ZExpr true          (* literal, or T(literal) *)
  | TyBasicOther => ZNil                                       (* fix: zv == nil => return nil *)
  | TyNilable | TyTypeParam => ZExpr true                      (* T(nil) *)
  | TyArray | TyStruct => ZExpr true                           (* T{} *)
  | TyOther => ZNil
  end.

Definition newDeref_visit (e : node) : outcome :=
  match e with
  | Nd TStar _ _ _ _ _ (NC x NN) =>
      if negb (is_tag TCall x) then Ok [] else
      match kids x with
      | [] => Ok []
      | fn :: args =>
          if negb (is_tag TIdent fn && String.eqb (nstr fn) "new") then Ok [] else
          match args with
          | [a0] =>                           (* fix: len(call.Args) == 1 *)
              match f_ty (nfacts a0) with
              | TyTypeParam => Ok []
              | t =>
                  match zero_value_of t (f_deflit (nfacts a0)) with
                  | ZNil => Ok []
                  | ZExpr ok => Ok [mkw "newDeref" e (RBare "new") fn ok]
                  end
              end
          | _ => Ok []
          end
      end
  | _ => Ok []
  end.

Definition run_newDeref (f : file) : outcome := run_expr newDeref_visit f.

(* ================= typeDefFirst (own file walker) ================= *)
Fixpoint receiver_type (e : node) : res string :=
  match e with
  | Nd TStar _ _ _ _ _ (NC x NN) => receiver_type x
  | Nd TParen _ _ _ _ _ (NC x NN) => receiver_type x          (* fix: case *ast.ParenExpr *)
  | Nd TIdent _ s _ _ _ _ => R s
  | Nd TIndex _ _ _ _ _ (NC x _) => receiver_type x
  | Nd TIndexList _ _ _ _ _ (NC x _) => receiver_type x
  | _ => P "typeDefFirst: panic(unreachable) in receiverType"
  end.

Definition tdf_specs (d : node) (tracked : list string) : list warning :=
  flat_map (fun spec =>
              match kids spec with
              | nm :: _ => if mem (nstr nm) tracked then [mkw "typeDefFirst" d RNoSubject d true] else []
              | [] => []
              end) (kids d).

Fixpoint tdf_loop (ds : list node) (tracked : list string) : outcome :=
  match ds with
  | [] => Ok []
  | d :: r =>
      match ntag d with
      | TFuncDecl =>
          if N.eqb (na d) 0 then tdf_loop r tracked else
          match kids d with
          | recv :: _ =>
              match kids recv with
              | [] => Panic "typeDefFirst: decl.Recv.List[0]"
              | fld :: _ =>
                  match nth_error (kids fld) (N.to_nat (na fld)) with
                  | None => Panic "typeDefFirst: encoding (field without type)"
                  | Some ty =>
                      match receiver_type ty with
                      | P s => Panic s
                      | R name => tdf_loop r (name :: tracked)
                      end
                  end
              end
          | [] => Panic "typeDefFirst: encoding (method without receiver list)"
          end
      | TGenDecl =>
          if negb (N.eqb (na d) tok_TYPE) then tdf_loop r tracked else
          match tdf_loop r tracked with
          | Panic s => Panic s
          | Ok ws => Ok (tdf_specs d tracked ++ ws)%list
          end
      | _ => tdf_loop r tracked
      end
  end.

Definition run_typeDefFirst (f : file) : outcome := tdf_loop (decls f) [].

(* ================= sortSlice (Expr walker) ================= *)
Fixpoint unwrap_slice (e : node) : node :=
  match e with
  | Nd TParen _ _ _ _ _ (NC x NN) => unwrap_slice x
  | Nd TSliceExpr _ _ _ _ _ (NC x _) => x
  | _ => e
  end.

Definition field_names (fld : node) : list node := firstn (N.to_nat (na fld)) (kids fld).

(* paramIdents(lessFunc.Type) *)
Definition param_idents (ft : node) : option (node * node) :=
  match nth_error (kids ft) (N.to_nat (na ft)) with
  | Some params =>
      match flat_map field_names (kids params) with
      | [i; j] => Some (i, j)
      | _ => None
      end
  | None => None
  end.

Definition contains_node (pred : node -> bool) (e : node) : bool := existsb pred (pre e).

Definition contains_index (e index : node) : bool :=
  contains_node (fun n => match n with
                          | Nd TIndex _ _ _ _ _ (NC _ (NC i NN)) => node_eqb i index
                          | _ => false
                          end) e.

Definition contains_slice (e slice : node) : bool := contains_node (fun n => node_eqb n slice) e.

Definition is_cmp_op (op : N) : bool := N.eqb op tok_LSS || N.eqb op tok_LEQ || N.eqb op tok_GTR || N.eqb op tok_GEQ.

Definition sortSlice_visit (e : node) : outcome :=
  if negb (is_tag TCall e) then Ok [] else
  match kids e with
  | [fn; a0; a1] =>                                             (* len(call.Args) == 2 *)
      let name := qualified_name fn in
      if negb (String.eqb name "sort.Slice" || String.eqb name "sort.SliceStable") then Ok [] else
      let slice := unwrap_slice a0 in
      match a1 with
      | Nd TFuncLit _ _ _ _ _ (NC ft (NC body NN)) =>
          if negb (f_pure (nfacts slice)) then Ok [] else
          match param_idents ft with
          | None => Ok []
          | Some (ivar, jvar) =>
              match kids body with
              | [ret] =>
                  if negb (is_tag TReturn ret) then Ok [] else
                  match kids ret with
                  | [] => Ok []                 (* fix: len(ret.Results) == 0 *)
                  | r0 :: _ =>
                      let cmp := unparen r0 in
                      match cmp with
                      | Nd TBinary _ _ op _ _ (NC x (NC y NN)) =>
                          if negb (f_pure (nfacts cmp)) then Ok [] else
                          if negb (is_cmp_op op) then Ok [] else
                          let callee := callee_ident fn in
                          Ok ((if negb (contains_slice x slice) && negb (contains_slice y slice)
                               then [mkw "sortSlice" cmp (RQual "sort" "sort") callee true] else []) ++
                              (if contains_index x jvar && contains_index y ivar
                               then [mkw "sortSlice" cmp (RQual "sort" "sort") callee true] else []))%list
                      | _ => Ok []       (* astcast.ToBinaryExpr: the nil binary expression has Op = ILLEGAL *)
                      end
                  end
              | _ => Ok []
              end
          end
      | _ => Ok []
      end
  | _ => Ok []
  end.

Definition run_sortSlice (f : file) : outcome := run_expr sortSlice_visit f.

(* ================= evalOrder (Stmt walker) ================= *)
(* hasPtrRecv(fn): sig, ok := TypeOf(fn) asserted to be a types.Signature; return typep.IsPointer(sig.Recv().Type()) *)
Definition has_ptr_recv (sel : node) : res bool :=
  match f_sig (nfacts sel) with
  | NoSig => R false
  | Sig _ _ RNone _ => R false                (* fix: sig.Recv() == nil *)
  | Sig _ _ RPtr _ => R true
  | Sig _ _ RVal _ => R false
  end.

Definition is_addr_of (id n : node) : bool :=
  match n with
  | Nd TUnary _ _ op _ _ (NC x NN) => N.eqb op tok_AND && node_eqb x id
  | _ => false
  end.

Definition eo_call (id call : node) : outcome :=
  if negb (is_tag TCall call) then Ok [] else
  let w := mkw "evalOrder" call RNoSubject call true in
  let dep := if contains_node (is_addr_of id) call then [w] else [] in
  match kids call with
  | Nd TSelector _ _ _ _ _ (NC x (NC sel NN)) :: _ =>
      if node_eqb x id then
        match has_ptr_recv sel with
        | P s => Panic s
        | R true => Ok (w :: dep)
        | R false => Ok dep
        end
      else Ok dep
  | _ => Ok dep
  end.

Definition evalOrder_visit (stmt : node) : outcome :=
  if negb (is_tag TReturn stmt) then Ok [] else
  let results := kids stmt in
  if Nat.ltb (length results) 2 then Ok [] else
  seq_o (map (fun id => if is_tag TIdent id then seq_o (map (eo_call id) results) else Ok []) results).

Definition run_evalOrder (f : file) : outcome := run_stmt evalOrder_visit f.

(* ================= dupOption (Expr walker) ================= *)
Fixpoint find_dups (seen : list node) (args : list node) : list node :=
  match args with
  | [] => []
  | a :: r => if existsb (node_eqb a) seen then a :: find_dups seen r else find_dups (a :: seen) r
  end.

Definition dupOption_visit (e : node) : outcome :=
  if negb (is_tag TCall e) then Ok [] else
  match kids e with
  | [] => Ok []
  | fn :: args =>
      match args with [] => Ok [] | _ =>
      if N.eqb (na e) 1 then Ok [] else
      match f_sig (nfacts fn) with
      | Sig np true _ optlike =>
          let last := N.to_nat np - 1 in
          if Nat.ltb (length args) last then Ok [] else      (* fix: last > len(call.Args) *)
          let vargs := skipn last args in
          match vargs with [] => Ok [] | _ =>
          if negb optlike then Ok [] else
          Ok (map (fun a => mkw "dupOption" a RNoSubject a true) (find_dups [] vargs))
          end
      | _ => Ok []
      end
      end
  end.

Definition run_dupOption (f : file) : outcome := run_expr dupOption_visit f.

(* ================= flagName (Expr walker) ================= *)
Fixpoint contains_byte (c : ascii) (s : string) : bool :=
  match s with EmptyString => false | String a r => Ascii.eqb a c || contains_byte c r end.

Definition check_flag_name (call fn arg : node) : list warning :=
  match f_cst (nfacts arg) with
  | None => []
  | Some name =>
      if String.eqb name "" || has_prefix "-" name || contains_byte "="%char name || contains_byte " "%char name
      then [mkw "flagName" call (RObject "flag") (callee_ident fn) true] else []
  end.

Definition flagName_visit (e : node) : outcome :=
  if negb (is_tag TCall e) then Ok [] else
  match kids e with
  | (Nd TSelector _ _ _ _ _ (NC x (NC sel NN)) as fn) :: args =>
      if negb (is_tag TIdent x) then Ok [] else
      match obj_of x with
      | OPkgName path =>
          if negb (String.eqb path "flag") then Ok [] else
          if mem (nstr sel) flag_names1 then
            match nth_error args 0 with
            | None => Panic "flagName: call.Args[0]"
            | Some a => Ok (check_flag_name e fn a)
            end
          else if mem (nstr sel) flag_names2 then
            match nth_error args 1 with
            | None => Ok []                   (* fix: len(call.Args) < 2 *)
            | Some a => Ok (check_flag_name e fn a)
            end
          else Ok []
      | _ => Ok []
      end
  | _ => Ok []
  end.

Definition run_flagName (f : file) : outcome := run_expr flagName_visit f.

(* ================= appendAssign (Stmt walker) ================= *)
Definition slice_base (arg : node) : node :=
  match arg with
  | Nd TSliceExpr _ _ _ _ _ (NC x _) => x
  | _ => arg
  end.

Definition aa_match_slices (call fn x y : node) : list warning :=
  if negb (node_eqb x (unparen y)) then [mkw "appendAssign" call (RBare "append") fn true] else [].

Definition aa_check (x call : node) : outcome :=
  match kids call with
  | [] => Ok []
  | fn :: args =>
      (* if call.Ellipsis != NoPos { for _, arg := range call.Args[1:] {...} } *)
      match (if N.eqb (na call) 1 then
               match args with
               | [] => P "appendAssign: call.Args[1:]"
               | _ :: rest => R (existsb (fun arg => node_eqb x (slice_base arg)) rest)
               end
             else R false) with
      | P s => Panic s
      | R true => Ok []
      | R false =>
          let blank := is_tag TIdent x && String.eqb (nstr x) "_" in
          if blank then Ok [] else
          match args with
          | [] => Panic "appendAssign: call.Args[0]"
          | a0 :: _ =>
              if is_tag TIndex x && negb (is_tag TIndex a0) then Ok [] else
              match a0 with
              | Nd TSliceExpr _ _ _ _ _ (NC yx _) =>
                  if f_arr (nfacts yx) then Ok [] else Ok (aa_match_slices call fn x yx)
              | Nd TIndex _ _ _ _ _ _ | Nd TIdent _ _ _ _ _ _ | Nd TSelector _ _ _ _ _ _ =>
                  Ok (aa_match_slices call fn x a0)
              | _ => Ok []
              end
          end
      end
  end.

Fixpoint aa_pairs (lhs rhs : list node) : list outcome :=
  match lhs, rhs with
  | x :: l, r0 :: r =>
      (if is_tag TCall r0 &&
          match kids r0 with fn :: args => String.eqb (qualified_name fn) "append" && nonempty args | [] => false end
       then aa_check x r0 else Ok []) :: aa_pairs l r
  | _, _ => []
  end.

Definition appendAssign_visit (stmt : node) : outcome :=
  if negb (is_tag TAssign stmt) then Ok [] else
  if negb (N.eqb (na stmt) tok_ASSIGN || N.eqb (na stmt) tok_DEFINE) then Ok [] else
  let nl := N.to_nat (nb stmt) in
  let lhs := firstn nl (kids stmt) in
  let rhs := skipn nl (kids stmt) in
  if negb (Nat.eqb (length lhs) (length rhs)) then Ok [] else
  seq_o (aa_pairs lhs rhs).

Definition run_appendAssign (f : file) : outcome := run_stmt appendAssign_visit f.

(* ================= badRegexp / regexpPattern / regexpSimplify: entry guard only ================= *)
(* The pattern analysis behind the guard belongs to C11; here only `call.Args[0]` after the spelling test. *)
Definition regexp_entry (names : list string) (who : string) (e : node) : outcome :=
  if negb (is_tag TCall e) then Ok [] else
  match kids e with
  | [] => Ok []
  | fn :: args =>
      if negb (mem (qualified_name fn) names) then Ok [] else
      match args with
      | [] => Ok []                           (* fix: len(call.Args) == 0 *)
      | _ :: _ => Ok []
      end
  end.

Definition badRegexp_names := ["regexp.Compile"; "regexp.MustCompile"].
Definition regexpPattern_names := ["regexp.Compile"; "regexp.CompilePOSIX"; "regexp.MustCompile"; "regexp.MustCompilePosix"].
Definition regexpSimplify_names := ["regexp.Compile"; "regexp.MustCompile"].

Definition run_badRegexp_entry (f : file) := run_expr (regexp_entry badRegexp_names "badRegexp") f.
Definition run_regexpPattern_entry (f : file) := run_expr (regexp_entry regexpPattern_names "regexpPattern") f.
Definition run_regexpSimplify_entry (f : file) := run_expr (regexp_entry regexpSimplify_names "regexpSimplify") f.

(* ================= filepathJoin (Expr walker) ================= *)
Definition filepathJoin_visit (e : node) : outcome :=
  if negb (is_tag TCall e) then Ok [] else
  match kids e with
  | [] => Ok []
  | fn :: args =>
      if negb (String.eqb (qualified_name fn) "filepath.Join") then Ok [] else
      Ok (flat_map (fun arg =>
                      if is_tag TBasicLit arg && (contains_byte "/"%char (nstr arg) || contains_byte "\"%char (nstr arg))
                      then [mkw "filepathJoin" arg (RQual "filepath" "path/filepath") (callee_ident fn) true] else []) args)
  end.

Definition run_filepathJoin (f : file) : outcome := run_expr filepathJoin_visit f.

(* ================= rangeAppendAll (Stmt walker, astutil.Apply post-order over the body) ================= *)
Definition is_slice_literal (arg : node) : bool :=
  match arg with
  | Nd TCompositeLit _ _ _ _ _ _ => true
  | Nd TCall _ _ _ _ _ (NC (Nd TArrayType _ _ _ _ _ _) (NC (Nd TIdent _ s _ _ ff _) NN)) =>
      String.eqb s "nil" && f_astobj_nil ff
  | _ => false
  end.

Definition valid_append_from (n : node) : option (node * node) :=
  match n with
  | Nd TCall _ _ ell _ _ (NC fn (NC a0 (NC a1 NN))) =>
      if negb (N.eqb ell 1) then None else
      if negb (String.eqb (qualified_name fn) "append") then None else
      if is_slice_literal a0 then None else
      if is_tag TIdent a1 then Some (fn, a1) else None
  | _ => None
  end.

Definition rangeAppendAll_visit (stmt : node) : outcome :=
  if negb (is_tag TRange stmt) then Ok [] else
  let ks := kids stmt in
  match nth_error ks (N.to_nat (na stmt)), nth_error ks (N.to_nat (na stmt) + 1) with
  | Some x, Some body =>
      match kids body with [] => Ok [] | _ =>
      if negb (is_tag TIdent x) then Ok [] else
      let range_obj := f_objid (nfacts x) in
      Ok (flat_map (fun n => match valid_append_from n with
                             | Some (fn, from) =>
                                 if N.eqb (f_objid (nfacts from)) range_obj
                                 then [mkw "rangeAppendAll" from (RBare "append") fn true] else []
                             | None => []
                             end) (post body))
      end
  | _, _ => Ok []
  end.

Definition run_rangeAppendAll (f : file) : outcome := run_stmt rangeAppendAll_visit f.

(* ================= truncateCmp (Expr walker; parameter skipArchDependent) ================= *)
Definition trunc_names : list string := ["int8"; "int16"; "int32"; "uint8"; "uint16"; "uint32"].
Definition basic_IsInteger : N := 2.
Definition kind_Int : N := 2.  Definition kind_Uint : N := 7.  Definition kind_Uintptr : N := 12.

(* isTruncCast: astcast.ToIdent(astcast.ToCallExpr(x).Fun).Name is one of the names *)
Definition is_trunc_cast (x : node) : bool :=
  if is_tag TCall x then
    match kids x with
    | fn :: _ => is_tag TIdent fn && mem (nstr fn) trunc_names
    | [] => false
    end
  else false.

Definition tc_check (skip : bool) (xcast y : node) : list warning :=
  match kids xcast with
  | [fn; x] =>                                                    (* len(xcast.Args) != 1 => return *)
      match f_basic (nfacts x), f_basic (nfacts y) with
      | Some (xi, xk, xs), Some (yi, _, ys) =>
          if N.eqb (N.land xi basic_IsInteger) 0 then [] else
          if negb (N.eqb xi yi) then [] else
          if N.eqb xs 0 || N.eqb ys 0 then [] else                (* ctx.SizeOf not ok *)
          if N.leb xs ys then [] else
          if skip && (N.eqb xk kind_Int || N.eqb xk kind_Uint || N.eqb xk kind_Uintptr) then [] else
          [mkw "truncateCmp" xcast (RBare (nstr fn)) fn true]
      | _, _ => []
      end
  | _ => []
  end.

Definition is_cmp_or_eq_op (op : N) : bool := is_cmp_op op || N.eqb op tok_EQL || N.eqb op tok_NEQ.

Definition truncateCmp_visit (skip : bool) (e : node) : outcome :=
  match e with
  | Nd TBinary _ _ op _ _ (NC x (NC y NN)) =>
      if negb (is_cmp_or_eq_op op) then Ok [] else
      if is_tag TBasicLit x || is_tag TBasicLit y then Ok [] else
      match is_trunc_cast x, is_trunc_cast y with
      | true, true => Ok []
      | true, false => Ok (tc_check skip x y)
      | false, true => Ok (tc_check skip y x)
      | false, false => Ok []
      end
  | _ => Ok []
  end.

Definition run_truncateCmp (skip : bool) (f : file) : outcome := run_expr (truncateCmp_visit skip) f.

(* ================= nilValReturn (Stmt walker) ================= *)
Definition nilValReturn_visit (stmt : node) : outcome :=
  if negb (is_tag TIf stmt) then Ok [] else
  let ks := kids stmt in
  match nth_error ks (N.to_nat (na stmt)), nth_error ks (N.to_nat (na stmt) + 1) with
  | Some cond, Some body =>
      match kids body with
      | [ret] =>
          if negb (is_tag TReturn ret) then Ok [] else
          match cond with
          | Nd TBinary _ _ op _ _ (NC x (NC y NN)) =>
              (* fix: ... && TypesInfo.Types[expr.Y].IsNil(): the predeclared nil, not a variable of that name *)
              if N.eqb op tok_EQL && f_pure (nfacts x) && String.eqb (qualified_name y) "nil" && N.testbit (f_ext (nfacts y)) x_isnil then
                if existsb (node_eqb x) (kids ret) then Ok [mkw "nilValReturn" ret (RBare "nil") (callee_ident y) true] else Ok []
              else Ok []
          | _ => Ok []
          end
      | _ => Ok []
      end
  | _, _ => Ok []
  end.

Definition run_nilValReturn (f : file) : outcome := run_stmt nilValReturn_visit f.

(* nilValReturn as it was BEFORE the fix (guard recognised by the spelling of nil only); kept for C20_prefix_nilValReturn_real_refuted *)
Definition nilValReturn_visit_prefix (stmt : node) : outcome :=
  if negb (is_tag TIf stmt) then Ok [] else
  let ks := kids stmt in
  match nth_error ks (N.to_nat (na stmt)), nth_error ks (N.to_nat (na stmt) + 1) with
  | Some cond, Some body =>
      match kids body with
      | [ret] =>
          if negb (is_tag TReturn ret) then Ok [] else
          match cond with
          | Nd TBinary _ _ op _ _ (NC x (NC y NN)) =>
              if N.eqb op tok_EQL && f_pure (nfacts x) && String.eqb (qualified_name y) "nil" then
                if existsb (node_eqb x) (kids ret) then Ok [mkw "nilValReturn" ret (RBare "nil") (callee_ident y) true] else Ok []
              else Ok []
          | _ => Ok []
          end
      | _ => Ok []
      end
  | _, _ => Ok []
  end.

Definition run_nilValReturn_prefix (f : file) : outcome := run_stmt nilValReturn_visit_prefix f.

(* ---------- hypotheses of the C20 partial theorems, as predicates on nodes ---------- *)
(* no identifier spelled [name] denotes anything but the universe object / no qualifier [q] anything but package [path] *)
Definition g_no_namesake_bare (name : string) (n : node) : bool :=
  if is_tag TIdent n && String.eqb (nstr n) name
  then okind_eqb (obj_of n) (OBuiltin name) else true.

Definition g_no_namesake_qual (q path : string) (n : node) : bool :=
  if is_tag TIdent n && String.eqb (nstr n) q
  then okind_eqb (obj_of n) (OPkgName path) else true.

(* ---------- registry of the modelled checkers (used by the tie) ---------- *)
Definition run_by_name (name : string) (f : file) : option outcome :=
  if String.eqb name "appendCombine" then Some (run_appendCombine f)
  else if String.eqb name "newDeref" then Some (run_newDeref f)
  else if String.eqb name "typeDefFirst" then Some (run_typeDefFirst f)
  else if String.eqb name "sortSlice" then Some (run_sortSlice f)
  else if String.eqb name "evalOrder" then Some (run_evalOrder f)
  else if String.eqb name "dupOption" then Some (run_dupOption f)
  else if String.eqb name "flagName" then Some (run_flagName f)
  else if String.eqb name "appendAssign" then Some (run_appendAssign f)
  else if String.eqb name "filepathJoin" then Some (run_filepathJoin f)
  else if String.eqb name "rangeAppendAll" then Some (run_rangeAppendAll f)
  else if String.eqb name "badRegexp" then Some (run_badRegexp_entry f)
  else if String.eqb name "regexpPattern" then Some (run_regexpPattern_entry f)
  else if String.eqb name "regexpSimplify" then Some (run_regexpSimplify_entry f)
  else if String.eqb name "truncateCmp" then Some (run_truncateCmp true f)
  else if String.eqb name "truncateCmp/noskip" then Some (run_truncateCmp false f)
  else if String.eqb name "nilValReturn" then Some (run_nilValReturn f)
  else None.

(* entry-guard-only models: the tie compares {ok, panic}, not the warning list *)
Definition entry_only (name : string) : bool :=
  String.eqb name "badRegexp" || String.eqb name "regexpPattern" || String.eqb name "regexpSimplify".

(* ---------- what the tie compares ---------- *)
(* observation of the real checker: None = panic, Some offsets = byte offsets of its diagnostics in order *)
Definition obs := option (list N).

Definition model_obs (o : outcome) : obs :=
  match o with Panic _ => None | Ok ws => Some (map w_pos ws) end.

Definition obs_eqb (entry : bool) (m r : obs) : bool :=
  match m, r with
  | None, None => true
  | Some a, Some b => entry || list_eqb N.eqb a b
  | _, _ => false
  end.

(* one tie case: a converted file, with the observations of the real checkers on it *)
Definition file_case_ok (f : file) (observed : list (string * obs)) : bool :=
  wf f &&
  forallb (fun p => match run_by_name (fst p) f with
                    | Some o => obs_eqb (entry_only (fst p)) (model_obs o) (snd p)
                    | None => false
                    end) observed.

(* disagreement report of one case: [] = the model and the real checkers agree and the file is well-formed *)
Definition case_detail (f : file) (observed : list (string * obs)) : list (string * obs) :=
  ((if wf f then [] else [("wf", None)]) ++
   flat_map (fun p => match run_by_name (fst p) f with
                      | Some o => if obs_eqb (entry_only (fst p)) (model_obs o) (snd p) then [] else [(fst p, model_obs o)]
                      | None => [(fst p, None)]
                      end) observed)%list.

(* the C20 tie: for every warning of a subject-bearing modelled checker, does the model say "namesake"?
   compared with the verdict of the Go oracle (types.Info.Uses lookup) at the same offset *)
Definition namesake_offsets (o : outcome) : list N :=
  map w_pos (filter (fun w => negb (is_real w)) (warnings o)).

Definition namesake_detail (f : file) (observed : list (string * list N)) : list (string * obs) :=
  ((if wf f then [] else [("wf", None)]) ++
   flat_map (fun p => match run_by_name (fst p) f with
                      | Some o => if list_eqb N.eqb (namesake_offsets o) (snd p) then [] else [(fst p, Some (namesake_offsets o))]
                      | None => [(fst p, None)]
                      end) observed)%list.
