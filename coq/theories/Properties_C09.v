(* Properties_C09.v — property C09: suggested code is valid Go and applying a fix never damages the
   file.  Theorem-level part: the edit algebra, the comment fix, the Suggest-template table.
   "Still parses and type-checks" for arbitrary programs is decided by the oracle only (DESIGN.md §9). *)
From GC Require Import Base Model_Cli Model_Edit Proofs_Edit.
From GCgen Require Import SuggestTable.

(* Applying a fix changes nothing outside its range, for every file, range and replacement. *)
Theorem C09_apply_outside_unchanged_prefix : forall src from to repl, from <= String.length src ->
  take from (apply_edit src from to repl) = take from src.
Proof. exact apply_edit_prefix. Qed.
Print Assumptions C09_apply_outside_unchanged_prefix.
Theorem C09_apply_outside_unchanged_suffix : forall src from to repl, from <= String.length src ->
  drop (from + String.length repl) (apply_edit src from to repl) = drop to src.
Proof. exact apply_edit_suffix. Qed.
Print Assumptions C09_apply_outside_unchanged_suffix.
Theorem C09_apply_length : forall src from to repl, from <= to -> to <= String.length src ->
  String.length (apply_edit src from to repl) = String.length src - (to - from) + String.length repl.
Proof. exact apply_edit_length. Qed.
Print Assumptions C09_apply_length.

(* "That place" in the fixed file: every byte outside the range is found again at its mapped offset
   (the offset the harness re-analyses at); offsets inside the range have no image. *)
Theorem C09_map_pos_same_byte : forall src from to repl p q, from <= to -> to <= String.length src ->
  map_pos from to (String.length repl) p = Some q ->
  String.get q (apply_edit src from to repl) = String.get p src.
Proof. exact map_pos_same_byte. Qed.
Print Assumptions C09_map_pos_same_byte.

(* The comment-formatting fix inserts exactly one space after the marker and clears the diagnostic. *)
Theorem C09_comment_fix_local : forall t, has_prefix "//" t = true ->
  take 2 (cf_fix t) = "//" /\ drop 3 (cf_fix t) = drop 2 t /\ String.length (cf_fix t) = S (String.length t).
Proof. exact cf_fix_local. Qed.
Print Assumptions C09_comment_fix_local.
Theorem C09_comment_fix_clears : forall t, has_prefix "//" t = true -> cf_reports (cf_fix t) = false.
Proof. exact cf_fix_clears. Qed.
Print Assumptions C09_comment_fix_clears.

(* Suggest templates: a machine-applicable template must not drop a wildcard statement run of its
   pattern nor contain the placeholder "...".  This fails for the two strings.Cut rules of wrapperFunc
   (recorded findings); every other template of the regenerated table satisfies it. *)
Definition known_bad_templates : list string :=
  ["$x, $y, _ = strings.Cut($s, $sep)"; "if $x, $y, ok = strings.Cut($s, $sep); ok { ... }"].
Theorem C09_suggest_table_ok_partial :
  forallb (fun e => suggest_ok e || (String.eqb (s_group e) "wrapperFunc" && mem (s_template e) known_bad_templates)) suggest_table = true.
Proof. vm_compute. reflexivity. Qed.
Print Assumptions C09_suggest_table_ok_partial.
Theorem C09_suggest_cut_refuted :
  suggest_ok {| s_group := "wrapperFunc"; s_line := 241; s_template := "$x, $y, _ = strings.Cut($s, $sep)";
                s_dropped_wildcards := ["$*_"]; s_has_placeholder := false |} = false
  /\ suggest_ok {| s_group := "wrapperFunc"; s_line := 246; s_template := "if $x, $y, ok = strings.Cut($s, $sep); ok { ... }";
                   s_dropped_wildcards := ["$*_"]; s_has_placeholder := true |} = false.
Proof. vm_compute. auto. Qed.
Print Assumptions C09_suggest_cut_refuted.

Example C09_example_edit :
  apply_edit "x := a+0; y()" 5 8 "a" = "x := a; y()"
  /\ cf_reports "//nolint:x" = false /\ cf_reports "//text" = true /\ cf_fix "//text" = "// text".
Proof. vm_compute. auto. Qed.
