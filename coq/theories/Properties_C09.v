(* Properties_C09.v — property C09: suggested code is valid Go and applying a fix never damages the
   file.  Theorem-level part: the edit algebra, the comment fix, the Suggest-template table.
   "Still parses and type-checks" for arbitrary programs is decided by the oracle only (DESIGN.md §9). *)
From GC Require Import Base Model_Cli Model_Edit Proofs_Edit Model_Prec Proofs_Prec Model_PrecParse Proofs_PrecParse.
From GCgen Require Import SuggestTable PrecTable.

(* Applying a fix changes nothing outside its range, for every file, range and replacement. *)
Theorem C09_apply_outside_unchanged_prefix : forall src from to repl, from <= String.length src ->
  take from (apply_edit src from to repl) = take from src.
Proof. exact apply_edit_prefix. Qed.
Print Assumptions C09_apply_outside_unchanged_prefix.
Theorem C09_apply_outside_unchanged_suffix : forall src from to repl, from <= String.length src ->
  drop (from + String.length repl) (apply_edit src from to repl) = drop to src.
Proof. exact apply_edit_suffix. Qed.
Print Assumptions C09_apply_outside_unchanged_suffix.
Theorem C09_apply_length : forall src from to repl, from <= to -> to <= String.length src ->
  String.length (apply_edit src from to repl) = String.length src - (to - from) + String.length repl.
Proof. exact apply_edit_length. Qed.
Print Assumptions C09_apply_length.

(* "That place" in the fixed file: every byte outside the range is found again at its mapped offset
   (the offset the harness re-analyses at); offsets inside the range have no image. *)
Theorem C09_map_pos_same_byte : forall src from to repl p q, from <= to -> to <= String.length src ->
  map_pos from to (String.length repl) p = Some q ->
  String.get q (apply_edit src from to repl) = String.get p src.
Proof. exact map_pos_same_byte. Qed.
Print Assumptions C09_map_pos_same_byte.

(* The comment-formatting fix inserts exactly one space after the marker and clears the diagnostic. *)
Theorem C09_comment_fix_local : forall t, has_prefix "//" t = true ->
  take 2 (cf_fix t) = "//" /\ drop 3 (cf_fix t) = drop 2 t /\ String.length (cf_fix t) = S (String.length t).
Proof. exact cf_fix_local. Qed.
Print Assumptions C09_comment_fix_local.
Theorem C09_comment_fix_clears : forall t, has_prefix "//" t = true -> cf_reports (cf_fix t) = false.
Proof. exact cf_fix_clears. Qed.
Print Assumptions C09_comment_fix_clears.

(* Suggest templates: a machine-applicable template must not drop a wildcard statement run of its
   pattern nor contain the placeholder "...".  This fails for the two strings.Cut rules of wrapperFunc
   (recorded findings); every other template of the regenerated table satisfies it. *)
Definition known_bad_templates : list string :=
  ["$x, $y, _ = strings.Cut($s, $sep)"; "if $x, $y, ok = strings.Cut($s, $sep); ok { ... }"].
Theorem C09_suggest_table_ok_partial :
  forallb (fun e => suggest_ok e || (String.eqb (s_group e) "wrapperFunc" && mem (s_template e) known_bad_templates)) suggest_table = true.
Proof. vm_compute. reflexivity. Qed.
Print Assumptions C09_suggest_table_ok_partial.
Theorem C09_suggest_cut_refuted :
  suggest_ok {| s_group := "wrapperFunc"; s_line := 241; s_template := "$x, $y, _ = strings.Cut($s, $sep)";
                s_dropped_wildcards := ["$*_"]; s_has_placeholder := false |} = false
  /\ suggest_ok {| s_group := "wrapperFunc"; s_line := 246; s_template := "if $x, $y, ok = strings.Cut($s, $sep); ok { ... }";
                   s_dropped_wildcards := ["$*_"]; s_has_placeholder := true |} = false.
Proof. vm_compute. auto. Qed.
Print Assumptions C09_suggest_cut_refuted.

(* ---- Suggest templates are rendered TEXTUALLY ($x := source text of the matched node): precedence ---- *)

(* the rendered text is the printing of the tree the template denotes, for every template and all bindings *)
Theorem C09_render_is_tree_substitution : forall s e, pp (subst s e) = tsubst s (pp e).
Proof. exact pp_subst. Qed.
Print Assumptions C09_render_is_tree_substitution.

(* if every placeholder sits where the template accepts the level its binding is known to have, the rendered
   text is read by Go's (stratified) expression grammar as exactly that tree ... *)
Theorem C09_template_subst_parses : forall g g' s tpl, respects g g' s -> wp g tpl = true ->
  G g' (level g tpl) (tsubst s (pp tpl)) (subst s tpl).
Proof. exact template_subst_parses. Qed.
Print Assumptions C09_template_subst_parses.

(* ... and it stays one sub-tree inside EVERY context that accepted the matched code, provided the template is not
   looser than the pattern it replaces (the context's hole is "@") *)
Theorem C09_fix_in_context_parses : forall g g' s pat tpl ctx lvl_ctx,
  respects g g' s -> wp g tpl = true -> level g pat <= level g tpl ->
  wp (fun y => if String.eqb y "@" then level g pat else g' y) ctx = true ->
  lvl_ctx = level (fun y => if String.eqb y "@" then level g pat else g' y) ctx ->
  G g' lvl_ctx (tsubst (hole_sub "@" (subst s tpl)) (pp ctx)) (subst (hole_sub "@" (subst s tpl)) ctx).
Proof. exact fix_in_context_parses. Qed.
Print Assumptions C09_fix_in_context_parses.

(* Over the (pattern, template) pairs regenerated from the executed rule IR on every run: every pair satisfies both
   conditions (what the pattern guarantees about a binding = the tightest position it was matched in, or level 4 for
   placeholders whose type is known not to be boolean) except the ten pairs below, which are genuinely unsafe on the
   unchanged tree (recorded findings; witnesses found by the oracle's operand/context variants). *)
Definition known_prec_unsafe : list (string * string * string) :=
  [("redundantSprint", "fmt.Sprint($x)", "$x.String()"); ("redundantSprint", "fmt.Sprintf(""%s"", $x)", "$x.String()");
   ("redundantSprint", "fmt.Sprintf(""%v"", $x)", "$x.String()");
   ("redundantSprint", "fmt.Sprint($x)", "$x"); ("redundantSprint", "fmt.Sprintf(""%s"", $x)", "$x");
   ("redundantSprint", "fmt.Sprintf(""%v"", $x)", "$x");
   ("preferStringWriter", "io.WriteString($w, $s)", "$w.WriteString($s)");
   ("stringConcatSimplify", "strings.Join([]string{$x, $y}, """")", "$x + $y");
   ("stringConcatSimplify", "strings.Join([]string{$x, $y, $z}, """")", "$x + $y + $z");
   ("stringConcatSimplify", "strings.Join([]string{$x, $y}, $glue)", "$x + $glue + $y")].
Definition is_known_unsafe (e : prec_entry) : bool :=
  existsb (fun k => let '(g, p, t) := k in String.eqb g (pe_group e) && String.eqb p (pe_pattern e) && String.eqb t (pe_template e))
          known_prec_unsafe.
(* diagnostics for a broken obligation: the pairs that are unsafe and not listed *)
Eval vm_compute in map (fun e => (pe_group e, pe_pattern e, pe_template e, holes_ok e, context_ok e))
                       (filter (fun e => negb (entry_ok e || is_known_unsafe e)) prec_table).
Theorem C09_prec_table_ok_partial : forallb (fun e => entry_ok e || is_known_unsafe e) prec_table = true.
Proof. vm_compute. reflexivity. Qed.
Print Assumptions C09_prec_table_ok_partial.
Theorem C09_prec_table_parsed : prec_unparsed = [] /\ (60 <=? length prec_table)%nat = true.
Proof. vm_compute. auto. Qed.
Print Assumptions C09_prec_table_parsed.

(* what the table obligation means for a pair that passes it: for all bindings as tight as the pattern guarantees and all
   contexts that accepted the match, the fixed text is read as the intended tree *)
Theorem C09_prec_entry_safe : forall e g' s ctx, In e prec_table -> entry_ok e = true ->
  respects (guar e) g' s ->
  wp (fun y => if String.eqb y "@" then level (guar e) (pe_pat e) else g' y) ctx = true ->
  G g' (level (fun y => if String.eqb y "@" then level (guar e) (pe_pat e) else g' y) ctx)
       (tsubst (hole_sub "@" (subst s (pe_tpl e))) (pp ctx)) (subst (hole_sub "@" (subst s (pe_tpl e))) ctx).
Proof.
  intros e g' s ctx _ Hok Hs Hctx. destruct (entry_ok_spec e Hok) as [Hw Hl].
  eapply fix_in_context_parses; eauto.
Qed.
Print Assumptions C09_prec_entry_safe.

(* the two ways an unsafe pair fails, as derivations of a DIFFERENT tree from the rendered text:
   fmt.Sprint( *p ) => *p.String() is read as *(p.String());  strings.Join([]string{a,b},"")[1:] => a + b[1:] as a + (b[1:]) *)
Theorem C09_sprint_template_regroups_refuted :
  G (fun _ => 0) 0 (tsubst sprint_sub (pp sprint_tpl)) sprint_actual /\ sprint_actual <> sprint_intended
  /\ wp (fun _ => 0) sprint_tpl = false.
Proof. exact sprint_regroups. Qed.
Print Assumptions C09_sprint_template_regroups_refuted.
Theorem C09_concat_template_regroups_refuted :
  G (fun _ => 0) 0 (tsubst (hole_sub "@" (subst concat_sub concat_tpl)) (pp slice_ctx)) concat_actual
  /\ concat_actual <> concat_intended.
Proof. exact concat_regroups. Qed.
Print Assumptions C09_concat_template_regroups_refuted.

(* ---- the parser: precedence climbing as go/parser does it (Model_PrecParse, tied to go/parser + go/scanner on
   generated expressions every run) ---- *)

(* the parser reads the printed tokens of every good, well-precedenced closed tree back as that very tree, at every
   precedence the tree is tight enough for, whatever follows it, provided what follows cannot continue the expression;
   "enough fuel" is explicit: running out of fuel is the error value None *)
Theorem C09_parser_reads_printed_tree : forall t q rest, good t = true -> wp g0 t = true ->
  1 <= q -> q <= level g0 t -> nosuffix rest = true -> bp_head rest < q ->
  exists f0, forall f, f0 <= f -> parse_bin f q (pp t ++ rest)%list = Some (t, rest).
Proof. exact parse_print. Qed.
Print Assumptions C09_parser_reads_printed_tree.

(* end to end: under the two table conditions, the text a fix produces in ANY context that accepted the match is parsed
   to exactly the tree the template denotes (no appeal to unambiguity of the grammar) *)
Theorem C09_fixed_text_parses_to_intended_tree : forall g s pat tpl ctx,
  respects g g0 s -> wp g tpl = true -> level g pat <= level g tpl ->
  wp (fun y => if String.eqb y "@" then level g pat else 0) ctx = true ->
  good (subst (hole_sub "@" (subst s tpl)) ctx) = true ->
  exists f0, forall f, f0 <= f ->
    parse_expr f (tsubst (hole_sub "@" (subst s tpl)) (pp ctx)) = Some (subst (hole_sub "@" (subst s tpl)) ctx).
Proof. exact fixed_text_parses_to_intended_tree. Qed.
Print Assumptions C09_fixed_text_parses_to_intended_tree.

(* and the unsafe pairs, decided by the parser itself: the rendered text parses to the unintended tree *)
Theorem C09_unsafe_pairs_parse_to_other_tree_refuted :
  parse_expr 40 (tsubst sprint_sub (pp sprint_tpl)) = Some sprint_actual /\ sprint_actual <> sprint_intended
  /\ parse_expr 40 (tsubst (hole_sub "@" (subst concat_sub concat_tpl)) (pp (EApp (EHole "@") "[" "]" [EAtom "1"])))
      = Some (EBin 4 "+" (EAtom "a") (EApp (EAtom "b") "[" "]" [EAtom "1"])).
Proof. vm_compute. repeat split; try reflexivity. discriminate. Qed.
Print Assumptions C09_unsafe_pairs_parse_to_other_tree_refuted.

(* ---- a hand-written checker that builds its suggestion as text: underef (model tied to the checker's printed
   suggestions on every run, cases_c09_underef) ---- *)

(* the suggestion for a selector on a parenthesised dereference of X parses to the selector on X whenever X is a primary
   expression, and to the selector on the parenthesised X when X is itself a dereference ... *)
Theorem C09_underef_suggestion_partial : forall x f, good x = true -> wp g0 x = true -> is_punct f = false ->
  (level g0 x = 7 -> exists f0, forall k, f0 <= k -> parse_expr k (underef_sel_text x f) = Some (ESel x f))
  /\ (forall y, x = EUn "*" y -> 6 <= level g0 y ->
        exists f0, forall k, f0 <= k -> parse_expr k (underef_sel_text x f) = Some (ESel (EParen x) f)).
Proof.
  intros x f Hg Hw Hf. split.
  - intros H7. exact (underef_sel_primary x f Hg Hw H7 Hf).
  - intros y -> H6. cbn [good] in Hg. apply andb_true_iff in Hg as [_ Hgy]. cbn [wp] in Hw. apply andb_true_iff in Hw as [Hwy _].
    exact (underef_sel_star y f Hgy Hwy H6 Hf).
Qed.
Print Assumptions C09_underef_suggestion_partial.
(* ... the full statement (for EVERY operand the checker accepts) is false: any other unary operand regroups (recorded finding) *)
Theorem C09_underef_suggestion_refuted :
  parse_expr 20 (underef_sel_text (EUn "&" (EAtom "x")) "v") = Some (EUn "&" (ESel (EAtom "x") "v"))
  /\ parse_expr 20 (underef_sel_text (EUn "<-" (EAtom "ch")) "v") = Some (EUn "<-" (ESel (EAtom "ch") "v"))
  /\ underef_sel_tree (EUn "&" (EAtom "x")) "v" = ESel (EUn "&" (EAtom "x")) "v".
Proof. exact underef_sel_unary_regroups. Qed.
Print Assumptions C09_underef_suggestion_refuted.

(* non-vacuity: a safe pair of the table with a concrete binding and context *)
Example C09_example_prec :
  let e := {| pe_group := "x"; pe_line := 0; pe_pattern := ""; pe_template := "";
              pe_pat := EBin 3 "==" (EApp (ESel (EAtom "strings") "Compare") "(" ")" [EHole "s1"; EHole "s2"]) (EAtom "0");
              pe_tpl := EBin 3 "==" (EHole "s1") (EHole "s2"); pe_floor := [("s1", 4); ("s2", 4)] |} in
  entry_ok e = true
  /\ pp (subst (fun y => if String.eqb y "s1" then Some (EBin 4 "+" (EAtom "a") (EAtom "b")) else if String.eqb y "s2" then Some (EAtom "c") else None) (pe_tpl e))
     = [T "a"; T "+"; T "b"; T "=="; T "c"].
Proof. vm_compute. auto. Qed.

Example C09_example_edit :
  apply_edit "x := a+0; y()" 5 8 "a" = "x := a; y()"
  /\ cf_reports "//nolint:x" = false /\ cf_reports "//text" = true /\ cf_fix "//text" = "// text".
Proof. vm_compute. auto. Qed.
