(* Model_Walk.v — the astwalk protocol over an abstract file = list of top-level declarations.
   A walker threads the visitor's scratch state through the declarations in source order and
   concatenates the warnings (checkers/internal/astwalk/*_walker.go: `for _, decl := range f.Decls`).
   No proofs here. *)
From GC Require Import Base.

Definition warning := (N * string)%type.            (* position, text *)
Definition shift_w (k : N) (w : warning) : warning := (fst w + k, snd w)%N.

Section Walk.
  Context {S D : Type}.
  Variable on_decl : S -> D -> S * list warning.   (* EnterFunc + all Visit* calls for one declaration *)

  Fixpoint walk (s : S) (ds : list D) : S * list warning :=
    match ds with
    | [] => (s, [])
    | d :: r => let (s1, w1) := on_decl s d in
                let (s2, w2) := walk s1 r in (s2, (w1 ++ w2)%list)
    end.

  (* the per-declaration step is init-irrelevant on the reachable states I *)
  Definition decl_local (I : S -> Prop) : Prop :=
    (forall s d, I s -> I (fst (on_decl s d))) /\
    (forall s s' d, I s -> I s' -> snd (on_decl s d) = snd (on_decl s' d)).

  (* position equivariance: shifting a declaration by k shifts its warnings by k *)
  Definition equivariant (shiftD : N -> D -> D) : Prop :=
    forall k s d, snd (on_decl s (shiftD k d)) = map (shift_w k) (snd (on_decl s d)).
End Walk.

(* ---- abstract syntax shared by the modelled checkers ---- *)
Definition shape := N.                  (* astequal class of an expression *)

(* expression tree for the SkipChilds protocol: [hit] = the visitor reports here and sets SkipChilds *)
Inductive tree := T (pos : N) (hit : bool) (kids : list tree).

Record link := { l_id : N; l_pos : N; l_init : bool; l_assert : option (shape * shape) }.

(* One item per node the walker hands to a visitor, in ast.Inspect (pre-order) order; the converter
   harness/internal/absconv produces these from real files (facts read from go/ast + go/types). *)
Inductive stmt :=
| SIfChain (links : list link) (else_block : bool)      (* the *ast.IfStmt visited NOW (head of [links]) followed by its else-if links;
                                                           else_block: the last link ends in `else { }` *)
| SSwitch (pos : N) (cases : list (N * shape))          (* switch: case expressions in clause order; select: the Comm statements *)
| STypeSwitch (pos : N) (guarded : bool) (hits : list bool)  (* guarded: `switch v := x.(type)` or no object for x; hits: per clause,
                                                           "single-type clause whose body asserts x.(T) on the same object" *)
| SLit (pos : N) (ws : option N) (keys : list (N * shape))   (* string-keyed map literal with >= 2 elements: position of the one
                                                           suspicious-whitespace key (checkWhitespace), and the keys checkDuplicates
                                                           inserts (non-literal, side-effect free) *)
| SExpr (t : tree).

Record comment := { c_pos : N; c_code : bool; c_output : bool }.

Inductive decl :=
| DFunc (pos : N) (is_example : bool) (recv : option string) (body : option (list stmt)) (comments : list comment)
| DType (pos : N) (names : list string)
| DOther (pos : N) (items : list stmt).      (* any other GenDecl; [items]: what an expression walker meets inside it *)

Definition file := list decl.

(* position shift of a declaration (blank lines / padding inserted above it) *)
Fixpoint shift_tree (k : N) (t : tree) : tree :=
  match t with T p h ks => T (p + k) h (map (shift_tree k) ks) end.
Definition shift_link (k : N) (l : link) : link :=
  {| l_id := l_id l; l_pos := (l_pos l + k)%N; l_init := l_init l; l_assert := l_assert l |}.
Definition shift_pk (k : N) (x : N * shape) : N * shape := ((fst x + k)%N, snd x).
Definition shift_stmt (k : N) (s : stmt) : stmt :=
  match s with
  | SIfChain ls e => SIfChain (map (shift_link k) ls) e
  | SSwitch p cs => SSwitch (p + k) (map (shift_pk k) cs)
  | STypeSwitch p g hs => STypeSwitch (p + k) g hs
  | SLit p ws ks => SLit (p + k) (option_map (fun w => w + k)%N ws) (map (shift_pk k) ks)
  | SExpr t => SExpr (shift_tree k t)
  end.
Definition shift_comment (k : N) (c : comment) : comment :=
  {| c_pos := (c_pos c + k)%N; c_code := c_code c; c_output := c_output c |}.
Definition shift_decl (k : N) (d : decl) : decl :=
  match d with
  | DFunc p ex r b cs => DFunc (p + k) ex r (option_map (map (shift_stmt k)) b) (map (shift_comment k) cs)
  | DType p ns => DType (p + k) ns
  | DOther p b => DOther (p + k) (map (shift_stmt k) b)
  end.

(* statement-level visitors: the stmtWalker calls EnterFunc, then VisitStmt for every statement (pre-order) *)
Section StmtVisitor.
  Context {S : Type}.
  Variable enter_func : S -> S.
  Variable visit : S -> stmt -> S * list warning.
  Fixpoint visit_all (s : S) (b : list stmt) : S * list warning :=
    match b with
    | [] => (s, [])
    | x :: r => let (s1, w1) := visit s x in let (s2, w2) := visit_all s1 r in (s2, (w1 ++ w2)%list)
    end.
  Definition stmt_on_decl (s : S) (d : decl) : S * list warning :=
    match d with
    | DFunc _ _ _ (Some b) _ => visit_all (enter_func s) b      (* EnterFunc returns false for body-less functions *)
    | _ => (s, [])
    end.
  (* the exprWalker also inspects every non-function declaration (package-level var/const initialisers) *)
  Definition expr_on_decl (s : S) (d : decl) : S * list warning :=
    match d with
    | DFunc _ _ _ (Some b) _ => visit_all (enter_func s) b
    | DOther _ b => visit_all s b
    | _ => (s, [])
    end.
End StmtVisitor.

(* ---- decidable equality on the abstract syntax produced by the converter (SExpr trees are never produced: unequal) ---- *)
Definition opt_eqb {A} (e : A -> A -> bool) (a b : option A) : bool :=
  match a, b with Some x, Some y => e x y | None, None => true | _, _ => false end.
Definition pk_eqb (a b : N * shape) : bool := N.eqb (fst a) (fst b) && N.eqb (snd a) (snd b).
Definition link_eqb (a b : link) : bool :=
  N.eqb (l_id a) (l_id b) && N.eqb (l_pos a) (l_pos b) && Bool.eqb (l_init a) (l_init b) && opt_eqb pk_eqb (l_assert a) (l_assert b).
Definition stmt_eqb (a b : stmt) : bool :=
  match a, b with
  | SIfChain l e, SIfChain l' e' => list_eqb link_eqb l l' && Bool.eqb e e'
  | SSwitch p c, SSwitch p' c' => N.eqb p p' && list_eqb pk_eqb c c'
  | STypeSwitch p g h, STypeSwitch p' g' h' => N.eqb p p' && Bool.eqb g g' && list_eqb Bool.eqb h h'
  | SLit p w ks, SLit p' w' ks' => N.eqb p p' && opt_eqb N.eqb w w' && list_eqb pk_eqb ks ks'
  | _, _ => false
  end.
Definition comment_eqb (a b : comment) : bool :=
  N.eqb (c_pos a) (c_pos b) && Bool.eqb (c_code a) (c_code b) && Bool.eqb (c_output a) (c_output b).
Definition decl_eqb (a b : decl) : bool :=
  match a, b with
  | DFunc p ex r bd cs, DFunc p' ex' r' bd' cs' =>
      N.eqb p p' && Bool.eqb ex ex' && opt_eqb String.eqb r r' && opt_eqb (list_eqb stmt_eqb) bd bd' && list_eqb comment_eqb cs cs'
  | DType p ns, DType p' ns' => N.eqb p p' && list_eqb String.eqb ns ns'
  | DOther p b, DOther p' b' => N.eqb p p' && list_eqb stmt_eqb b b'
  | _, _ => false
  end.
Definition decl_pos (d : decl) : N := match d with DFunc p _ _ _ _ => p | DType p _ => p | DOther p _ => p end.

(* ---- the laws, evaluated: what they predict for a TRANSFORMED file from per-declaration runs on the ORIGINAL file.
   tags: for every declaration of the transformed file, None = padding inserted by the transformation,
   Some i = "this is the i-th (binary N: unary indices made the evaluation quadratic in practice) original declaration, moved by some offset" (the claim is CHECKED with decl_eqb). ---- *)
Definition unshift_w (k : N) (w : warning) : warning := ((fst w - k)%N, snd w).
Section LawEval.
  Context {S : Type}.
  Variable on_decl : S -> decl -> S * list warning.
  Variable s0 : S.
  Definition predict_one (ds : file) (d' : decl) (tag : option N) : option (list warning) :=
    match tag with
    | None => Some (snd (on_decl s0 d'))
    | Some i =>
        match nth_error ds (N.to_nat i) with
        | None => None
        | Some d =>
            if (decl_pos d <=? decl_pos d')%N then
              let k := (decl_pos d' - decl_pos d)%N in
              if decl_eqb (shift_decl k d) d' then Some (map (shift_w k) (snd (on_decl s0 d))) else None
            else
              let k := (decl_pos d - decl_pos d')%N in
              if decl_eqb (shift_decl k d') d then Some (map (unshift_w k) (snd (on_decl s0 d))) else None
        end
    end.
  Fixpoint predict (ds ds' : file) (tags : list (option N)) : option (list warning) :=
    match ds', tags with
    | [], [] => Some []
    | d' :: r', t :: rt =>
        match predict_one ds d' t, predict ds r' rt with Some a, Some b => Some (a ++ b)%list | _, _ => None end
    | _, _ => None
    end.
End LawEval.
(* nothing of the original is lost: every original index occurs exactly once among the tags *)
Definition tags_cover (n : nat) (tags : list (option N)) : bool :=
  forallb (fun i => let i := N.of_nat i in
                    Nat.eqb (length (filter (fun t => match t with Some j => N.eqb i j | None => false end) tags)) 1) (seq 0 n).
