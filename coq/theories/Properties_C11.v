(* Properties_C11.v — C11 "regular-expression rewrites accept exactly the same language".
   Only statements closed by [exact]; see Proofs_Regex*.v.  Naming: _partial = holds under the stated guard,
   _refuted = the unguarded statement is false, with a concrete witness. *)
From GC Require Import Base Model_Regex Model_RegexSimplify Proofs_Regex Proofs_RegexRules Proofs_RegexSimplify Proofs_RegexWalk Proofs_RegexWalkS Proofs_RegexLit Proofs_RegexPrint Model_RegexText Proofs_RegexText Model_RegexParse Proofs_RegexParse.

(* observational equivalence gives the same FindStringSubmatchIndex vector on every subject *)
Theorem C11_equiv_same_matches : forall a b n, req a b -> forall s, go_vec n (find a s) = go_vec n (find b s).
Proof. exact (fun a b n H => req_go_vec a b n H). Qed.
Print Assumptions C11_equiv_same_matches.

(* a rule proved at the root holds in arbitrary context *)
Theorem C11_equiv_congruence : forall C a b, req a b -> req (plug C a) (plug C b).
Proof. exact (req_ctx). Qed.
Print Assumptions C11_equiv_congruence.

Theorem C11_rule_repeat_01_question : forall v v' x ra st, den (X OpRepeat v [x; X OpString "{0,1}" ra]) st = den (X OpQuestion v' [x]) st.
Proof. exact (den_repeat_01). Qed.
Print Assumptions C11_rule_repeat_01_question.

Theorem C11_rule_repeat_1x_plus : forall v v' x ra st, den (X OpRepeat v [x; X OpString "{1,}" ra]) st = den (X OpPlus v' [x]) st.
Proof. exact (den_repeat_1x). Qed.
Print Assumptions C11_rule_repeat_1x_plus.

Theorem C11_rule_repeat_0x_star : forall v v' x ra st, den (X OpRepeat v [x; X OpString "{0,}" ra]) st = den (X OpStar v' [x]) st.
Proof. exact (den_repeat_0x). Qed.
Print Assumptions C11_rule_repeat_0x_star.

Theorem C11_rule_repeat_1_id : forall v x ra st, op_eqb (sx_op x) OpFlagOnlyGroup = false -> den (X OpRepeat v [x; X OpString "{1}" ra]) st = den x st.
Proof. exact (den_repeat_1). Qed.
Print Assumptions C11_rule_repeat_1_id.

(* guard: the operand leaves the elaboration state unchanged (declares no capture group) *)
Theorem C11_rule_repeat_0_partial : forall v x ra st x', op_eqb (sx_op x) OpFlagOnlyGroup = false -> den x st = Some (x', st) -> den (X OpRepeat v [x; X OpString "{0}" ra]) st = Some (REmpty, st).
Proof. exact (den_repeat_0). Qed.
Print Assumptions C11_rule_repeat_0_partial.

(* guard: x cannot match the empty string *)
Theorem C11_rule_merge_x_xstar_plus_partial : forall g a, consumes a = true -> req (RCat a (RStar g a)) (RPlus g a).
Proof. exact (merge_x_xstar_plus). Qed.
Print Assumptions C11_rule_merge_x_xstar_plus_partial.

(* the n copies are one and the same expression: guard = no capture group in x (else the copies differ) *)
Theorem C11_rule_fold_run_repeat : forall g x n l1 l3, 2 <= n -> req (cat_list (l1 ++ ncopies n x ++ l3)) (cat_list (l1 ++ build_repeat g x n (Some n) :: l3)).
Proof. exact (fold_run_in_concat). Qed.
Print Assumptions C11_rule_fold_run_repeat.

Theorem C11_rule_alt_chars_class : forall fold rs, rs <> [] -> req (alt_list (map (set1 fold) rs)) (RSet {| c_neg := false; c_fold := fold; c_items := char_items rs |}).
Proof. exact (alt_chars_class). Qed.
Print Assumptions C11_rule_alt_chars_class.

Theorem C11_rule_class_single_bare : forall v cv st, den (X OpCharClass v [X OpChar cv []]) st = den (X OpChar cv []) st.
Proof. exact (class_single_bare). Qed.
Print Assumptions C11_rule_class_single_bare.

Theorem C11_rule_range_small_enum : forall neg fold pre post a, req (RSet {| c_neg := neg; c_fold := fold; c_items := pre ++ CI false [(a, a + 2)%N] :: post |}) (RSet {| c_neg := neg; c_fold := fold; c_items := pre ++ CI false [(a, a)] :: CI false [(a + 1, a + 1)%N] :: CI false [(a + 2, a + 2)%N] :: post |}).
Proof. exact (range_small_enum3). Qed.
Print Assumptions C11_rule_range_small_enum.

(* all entries of the table except [[:space:]], [[:^space:]] and [][] *)
Theorem C11_rule_class_table_partial : Forall (fun p => forall st, den (fst p) st = den (snd p) st) class_table_sound_entries.
Proof. exact (class_table_sound). Qed.
Print Assumptions C11_rule_class_table_partial.

(* all entries except the two with [:space:] *)
Theorem C11_rule_neg_class_table_partial : Forall (fun p => forall st, dreq (den (fst p) st) (den (snd p) st)) neg_class_table_sound_entries.
Proof. exact (neg_class_table_sound). Qed.
Print Assumptions C11_rule_neg_class_table_partial.

Theorem C11_rule_escape_removal : Forall (fun v => forall st args, den (X OpEscapeChar v args) st = den (X OpChar (drop 1 v) []) st) removable_escapes.
Proof. exact (escape_removal). Qed.
Print Assumptions C11_rule_escape_removal.

Theorem C11_rule_factor_prefix_longer_first : forall cs t, req (RAlt (cat_list (map RSet cs ++ [t])) (cat_list (map RSet cs))) (cat_list (map RSet cs ++ [RQuest true t])).
Proof. exact (factor_prefix_longer_first). Qed.
Print Assumptions C11_rule_factor_prefix_longer_first.

Theorem C11_rule_factor_suffix_longer_first : forall h x, req (RAlt (RCat h x) x) (RCat (RQuest true h) x).
Proof. exact (factor_suffix_longer_first). Qed.
Print Assumptions C11_rule_factor_suffix_longer_first.

(* guard: the optional head can never be the first rune of the common suffix *)
Theorem C11_rule_factor_suffix_shorter_first_partial : forall ch cf x', (forall r, in_cls ch r && in_cls cf r = false) -> req (RAlt (RCat (RSet cf) x') (RCat (RSet ch) (RCat (RSet cf) x'))) (RCat (RQuest true (RSet ch)) (RCat (RSet cf) x')).
Proof. exact (factor_suffix_shorter_first). Qed.
Print Assumptions C11_rule_factor_suffix_shorter_first_partial.

Theorem C11_rule_group_atom_id : forall gv o v args st, atom_op o = true -> den (X OpGroup gv [X o v args]) st = den (X o v args) st.
Proof. exact (group_atom_id). Qed.
Print Assumptions C11_rule_group_atom_id.

(* the normaliser used by [certified] *)
Theorem C11_norm_sound : forall e, req (norm e) e.
Proof. exact (norm_sound). Qed.
Print Assumptions C11_norm_sound.

(* One pass of the CURRENT simplifier (after the fix commits), tree level, by induction over the walker, carried
   out against the full elaboration (flags in effect, next capture index, capture names are threaded):
   for every tree that elaborates inside the domain in which the matcher model is Go's semantics (in_fragmentS =
   model_exact: capture groups, named groups, flag groups (?i:..), flag-only groups (?i) included; every loop body
   consumes) and avoids the guards (avoids_defectsS: decidable, syntactic, mirrors the walker: merged/folded
   copies are one tree that declares no group and lets no flag escape, a merged atom always consumes, class-table
   hits are not the recorded-defect entries, enumerated ranges have ASCII bounds, prefix/suffix factoring only in
   its sound instances - longer alternative first, or `x|hx` with x not starting with h - and only in trees
   without flag groups, the two literals' Values being the texts of their characters), the emitted tree declares
   the same groups with the same numbers and names, is observationally equivalent (same FindStringSubmatchIndex
   on every subject) and stays inside the exactness domain.
   Full statement (no guard) is false: see the _refuted theorems below. *)
Theorem C11_simplify_sound_partial : forall e, in_fragmentS e = true -> avoids_defectsS e = true ->
  exists x y n names, den_top e = Some (x, n, names) /\ den_top (simp_ast e) = Some (y, n, names) /\ req y x /\
              model_exact (simp_ast e) = true /\
              forall subject, find_go (simp_ast e) subject = find_go e subject.
Proof. exact simplify_sound_S. Qed.
Print Assumptions C11_simplify_sound_partial.

(* Any number of passes: each pass starts from a tree in the fragment, and the tree the next pass starts from means
   what the previous pass emitted (decidable link: equal normal forms and group declarations, evaluated by the
   kernel; whether Go's parser reads the emitted TEXT that way is the text-level question) *)
Theorem C11_simplify_chain_sound_partial : forall rest t, chain_ok t rest = true ->
  exists a b n names, den_top t = Some (a, n, names) /\ den_top (chain_final t rest) = Some (b, n, names) /\ req b a /\
              model_exact (chain_final t rest) = true /\
              forall subject, find_go (chain_final t rest) subject = find_go t subject.
Proof. exact chain_sound. Qed.
Print Assumptions C11_simplify_chain_sound_partial.

(* The FINAL rewrite of the two-pass driver (t2 = the parser's tree of the first pass's text): the tree whose text
   the checker prints is equivalent to the original pattern *)
Theorem C11_simplify_final_sound_partial : forall t1 t2, final_ok t1 t2 = true ->
  exists a b n names, den_top t1 = Some (a, n, names) /\ den_top (final_tree t1 t2) = Some (b, n, names) /\ req b a /\
              model_exact (final_tree t1 t2) = true /\
              forall subject, find_go (final_tree t1 t2) subject = find_go t1 subject.
Proof. exact final_sound. Qed.
Print Assumptions C11_simplify_final_sound_partial.

(* how elaboration changes the state: no flag escapes an expression without a top-level flag-only group, and the
   group counter and names move only where a capture group is declared *)
Theorem C11_elaboration_state_law : forall e st x st', den e st = Some (x, st') ->
  (leaks e = false -> d_fl st' = d_fl st) /\ (hasCapture e = false -> d_next st' = d_next st /\ d_names st' = d_names st).
Proof. exact den_state. Qed.
Print Assumptions C11_elaboration_state_law.

Example C11_fragment_with_groups_satisfiable :
  pass_ok ex_capture_factor = true /\ simp_text ex_capture_factor = "(foo?)(?P<n>a)x" /\
  pass_ok ex_flag_group = true /\ simp_text ex_flag_group = "(?i:kb+)(c) {3}".
Proof. exact examples_S. Qed.
Print Assumptions C11_fragment_with_groups_satisfiable.

(* repaired: `x|hx` is no longer factored (only `hx|x` is); the routine before the fixes still differs on "aaa" *)
Theorem C11_suffix_factoring_under_fold_fixed :
  simp_score t_suffix_fold = 0 /\ differ t_suffix_fold (simp_ast_prefix t_suffix_fold) "aaa".
Proof. exact suffix_factoring_under_fold_fixed. Qed.
Print Assumptions C11_suffix_factoring_under_fold_fixed.

(* the earlier, narrower form (no capture group, no flag group, no factoring), state-free elaboration *)
Theorem C11_simplify_sound_plain_partial : forall e, in_fragment e = true -> avoids_defects e = true ->
  exists x y, den_top e = Some (x, 0, []) /\ den_top (simp_ast e) = Some (y, 0, []) /\ req y x /\
              model_exact (simp_ast e) = true /\
              forall subject, find_go (simp_ast e) subject = find_go e subject.
Proof. exact simplify_sound_fragment. Qed.
Print Assumptions C11_simplify_sound_plain_partial.

(* the dialect of the claim: the checker issues diagnostics only at call sites that compile the pattern in the
   Perl dialect; the tie compares the set of call kinds with diagnostics with [reacting_calls] on every run *)
Theorem C11_diagnostics_only_at_perl_sites : forall call, reacts call = true -> call_dialect call = Some Perl.
Proof. exact diagnostics_only_at_perl_sites. Qed.
Print Assumptions C11_diagnostics_only_at_perl_sites.

(* the state-free elaboration used by in_fragment agrees with the elaboration tied to Go's regexp *)
Theorem C11_fragment_elaboration_agrees : forall e x st, d_fl st = flags0 -> sden e = Some x -> den e st = Some (x, st).
Proof. exact sden_den. Qed.
Print Assumptions C11_fragment_elaboration_agrees.

Example C11_fragment_satisfiable :
  in_fragment doc_example2 = true /\ avoids_defects doc_example2 = true /\ simp_text doc_example2 = "(?:[abc]) {3}[a-z]+".
Proof. exact doc_example_fragment. Qed.
Print Assumptions C11_fragment_satisfiable.

(* one pass of the simplifier, tree level; hypothesis = the decidable certificate, evaluated by the kernel on every case of the tie *)
Theorem C11_simplify_sound_certified_partial : forall e, certified e = true -> exists a b n names, den_top e = Some (a, n, names) /\ den_top (simp_ast e) = Some (b, n, names) /\ req a b /\ forall subject, find_go e subject = find_go (simp_ast e) subject.
Proof. exact (simplify_sound_certified). Qed.
Print Assumptions C11_simplify_sound_certified_partial.

(* used by the tie to chain: original tree ~ simp_ast ~ tree of the emitted text ~ ... ~ tree of the final rewrite *)
Theorem C11_same_meaning_sound : forall e1 e2, same_meaning e1 e2 = true -> exists a b n names, den_top e1 = Some (a, n, names) /\ den_top e2 = Some (b, n, names) /\ req a b /\ forall subject, find_go e1 subject = find_go e2 subject.
Proof. exact (same_meaning_find). Qed.
Print Assumptions C11_same_meaning_sound.

Theorem C11_posix_space_class_refuted : simp_text t_posix_space = "\s" /\ differ t_posix_space (simp_ast t_posix_space) (bs [11%N]).
Proof. exact posix_space_class_refuted. Qed.
Print Assumptions C11_posix_space_class_refuted.

Theorem C11_neg_posix_space_class_refuted : simp_text t_neg_posix_space = "\S" /\ differ t_neg_posix_space (simp_ast t_neg_posix_space) (bs [11%N]).
Proof. exact neg_posix_space_class_refuted. Qed.
Print Assumptions C11_neg_posix_space_class_refuted.

Theorem C11_class_brackets_refuted : simp_text t_brackets = "\]\[" /\ differ t_brackets (simp_ast t_brackets) "[".
Proof. exact class_brackets_refuted. Qed.
Print Assumptions C11_class_brackets_refuted.

Theorem C11_alt_prefix_order_refuted : simp_text t_prefix = "foo?" /\ differ t_prefix (simp_ast t_prefix) "foo".
Proof. exact alt_prefix_order_refuted. Qed.
Print Assumptions C11_alt_prefix_order_refuted.

Theorem C11_alt_factoring_under_ungreedy_flag_refuted : simp_text t_prefix_U = "(?U:abc?)" /\ differ t_prefix_U (simp_ast t_prefix_U) "abc".
Proof. exact alt_factoring_under_ungreedy_flag_refuted. Qed.
Print Assumptions C11_alt_factoring_under_ungreedy_flag_refuted.

Theorem C11_capture_under_zero_repeat_prefix_refuted : simp_text_prefix t_zero_cap = "b" /\ option_map (fun x => snd (fst x)) (den_top t_zero_cap) = Some 1 /\ option_map (fun x => snd (fst x)) (den_top (simp_ast_prefix t_zero_cap)) = Some 0.
Proof. exact capture_under_zero_repeat_prefix_refuted. Qed.
Print Assumptions C11_capture_under_zero_repeat_prefix_refuted.

Theorem C11_capture_in_folded_group_prefix_refuted : simp_text_prefix t_fold_cap = "(?:(a)){2}" /\ option_map (fun x => snd (fst x)) (den_top t_fold_cap) = Some 2 /\ option_map (fun x => snd (fst x)) (den_top (simp_ast_prefix t_fold_cap)) = Some 1.
Proof. exact capture_in_folded_group_prefix_refuted. Qed.
Print Assumptions C11_capture_in_folded_group_prefix_refuted.

Theorem C11_capture_in_merged_group_prefix_refuted : simp_text_prefix t_merge_cap = "(?:(a))+" /\ option_map (fun x => snd (fst x)) (den_top t_merge_cap) = Some 2 /\ option_map (fun x => snd (fst x)) (den_top (simp_ast_prefix t_merge_cap)) = Some 1.
Proof. exact capture_in_merged_group_prefix_refuted. Qed.
Print Assumptions C11_capture_in_merged_group_prefix_refuted.

Theorem C11_merge_of_nullable_group_refuted : simp_text t_merge_nullable = "(?:s*?b*)+" /\ differ t_merge_nullable (simp_ast t_merge_nullable) "bs".
Proof. exact merge_of_nullable_group_refuted. Qed.
Print Assumptions C11_merge_of_nullable_group_refuted.

Theorem C11_flag_group_loses_question_mark_prefix_refuted : simp_text_prefix t_flag_group = "(i:a)b" /\ differ t_flag_group (simp_ast_prefix t_flag_group) "ab".
Proof. exact flag_group_loses_question_mark_prefix_refuted. Qed.
Print Assumptions C11_flag_group_loses_question_mark_prefix_refuted.

Theorem C11_nongreedy_over_dropped_repeat_prefix_refuted : simp_text_prefix t_ng = "a?b" /\ print t_ng_after = "a?b" /\ differ t_ng t_ng_after "b".
Proof. exact nongreedy_over_dropped_repeat_prefix_refuted. Qed.
Print Assumptions C11_nongreedy_over_dropped_repeat_prefix_refuted.

Theorem C11_alt_to_class_dash_prefix_refuted : simp_text_prefix t_dash = "[a-c]" /\ print t_dash_after = "[a-c]" /\ differ t_dash t_dash_after "-".
Proof. exact alt_to_class_dash_prefix_refuted. Qed.
Print Assumptions C11_alt_to_class_dash_prefix_refuted.

Theorem C11_alt_to_class_bracket_prefix_refuted : simp_text_prefix t_brk = "[a]]" /\ print t_brk_after = "[a]]" /\ differ t_brk t_brk_after "a".
Proof. exact alt_to_class_bracket_prefix_refuted. Qed.
Print Assumptions C11_alt_to_class_bracket_prefix_refuted.

Theorem C11_unwrap_class_creates_repeat_prefix_refuted : simp_text_prefix t_unwrap = "a{1}" /\ print t_unwrap_after = "a{1}" /\ differ t_unwrap t_unwrap_after "a".
Proof. exact unwrap_class_creates_repeat_prefix_refuted. Qed.
Print Assumptions C11_unwrap_class_creates_repeat_prefix_refuted.

Theorem C11_unwrap_creates_repeat_refuted : simp_text t_unwrap_g = "a{2}" /\ print t_unwrap_g_after = "a{2}" /\ differ t_unwrap_g t_unwrap_g_after "aa".
Proof. exact unwrap_creates_repeat_refuted. Qed.
Print Assumptions C11_unwrap_creates_repeat_refuted.

Theorem C11_escape_removal_creates_repeat_refuted : simp_text t_esc_rep = "a{1,2}" /\ print t_esc_rep_after = "a{1,2}" /\ differ t_esc_rep t_esc_rep_after "a".
Proof. exact escape_removal_creates_repeat_refuted. Qed.
Print Assumptions C11_escape_removal_creates_repeat_refuted.

Theorem C11_escape_removal_creates_posix_class_refuted : simp_text t_esc_posix = "[[:alpha:]]" /\ print t_esc_posix_after = "[[:alpha:]]" /\ differ t_esc_posix t_esc_posix_after "b".
Proof. exact escape_removal_creates_posix_class_refuted. Qed.
Print Assumptions C11_escape_removal_creates_posix_class_refuted.

Theorem C11_range_enumeration_dash_bound_prefix_refuted : simp_text_prefix t_rng = "[+,-x]" /\ print t_rng_after = "[+,-x]" /\ differ t_rng t_rng_after "[".
Proof. exact range_enumeration_dash_bound_prefix_refuted. Qed.
Print Assumptions C11_range_enumeration_dash_bound_prefix_refuted.

Theorem C11_range_enumeration_creates_range_refuted : simp_text t_rng2 = "[ab-x]" /\ print t_rng2_after = "[ab-x]" /\ differ t_rng2 t_rng2_after "c".
Proof. exact range_enumeration_creates_range_refuted. Qed.
Print Assumptions C11_range_enumeration_creates_range_refuted.

Theorem C11_unwrap_joins_octal_escape_refuted : simp_text t_oct = "\01" /\ print t_oct_after = "\01" /\ differ t_oct t_oct_after (bs [1%N]).
Proof. exact unwrap_joins_octal_escape_refuted. Qed.
Print Assumptions C11_unwrap_joins_octal_escape_refuted.

Theorem C11_empty_alt_branch_factored_prefix_refuted : simp_text_prefix t_empty_branch = "(|?)".
Proof. exact empty_alt_branch_factored_prefix_refuted. Qed.
Print Assumptions C11_empty_alt_branch_factored_prefix_refuted.

(* the hypothesis of C11_simplify_sound_partial is satisfiable: the example of the checker's documentation *)
Example C11_certified_satisfiable : certified doc_example = true /\ simp_text doc_example = "(?:[abc]) {3}[a-z]+".
Proof. exact (conj doc_example_certified doc_example_text). Qed.
Print Assumptions C11_certified_satisfiable.

(* ---------- text level: the sub-languages in which the re-lexing defects live (Model_RegexText: the lexer and
   the class parser of the library the checker uses, tied to the real parser on every class node and every literal
   concatenation of every generated pattern) ---------- *)

(* tokens -> class items: under the guard "a `-` item that is not last does not follow something that can start a
   range" (and well-formed items) the items are read back unchanged *)
Theorem C11_class_items_roundtrip_partial : forall items prev toks,
  items_ok prev items = true -> items_toks items = Some toks -> parse_items prev toks = (olist prev ++ items)%list.
Proof. exact parse_items_roundtrip. Qed.
Print Assumptions C11_class_items_roundtrip_partial.

(* text -> tokens inside a class: guard = no bare `\`, `-`, `]`; a bare `[` is not followed by `:` *)
Theorem C11_class_lex_roundtrip_partial : forall ts rest fuel,
  ctoks_ok ts = true -> (String.length (toks_text ts) < fuel)%nat -> lex_body fuel (toks_text ts ++ "]" ++ rest) = Some (ts, rest).
Proof. exact lex_body_roundtrip. Qed.
Print Assumptions C11_class_lex_roundtrip_partial.

(* print-then-parse of a whole class node, in any right context *)
Theorem C11_class_print_parse_partial : forall (neg : bool) v items toks rest,
  toks <> [] -> items_ok None items = true -> items_toks items = Some toks -> ctoks_ok toks = true ->
  (neg = false -> first_b (toks_text toks) <> 94%N) ->
  exists v', parse_class (print (X (if neg then OpNegCharClass else OpCharClass) v items) ++ rest) =
             Some (X (if neg then OpNegCharClass else OpCharClass) v' items, rest).
Proof. exact class_print_parse. Qed.
Print Assumptions C11_class_print_parse_partial.

(* literal runs: guard = a bare `{` is not followed by a digit, a one-digit octal escape is not followed by an octal digit *)
Theorem C11_literals_lex_roundtrip_partial : forall ts fuel,
  ltoks_ok ts = true -> (String.length (toks_text ts) < fuel)%nat -> lex_lits fuel (toks_text ts) = Some ts.
Proof. exact lex_lits_roundtrip. Qed.
Print Assumptions C11_literals_lex_roundtrip_partial.

(* the same in any right context: the run is read back and lexing continues with the text that follows *)
Theorem C11_literals_lex_run_partial : forall ts rest fuel,
  ltoks_ok_in ts rest = true -> (String.length (toks_text ts) + String.length rest < fuel)%nat ->
  lex_lits fuel (toks_text ts ++ rest) = option_map (app ts) (lex_lits (fuel - List.length ts) rest).
Proof. exact lex_lits_run. Qed.
Print Assumptions C11_literals_lex_run_partial.

(* the guards evaluated on whole trees: the five witnesses of the open re-lexing classes all fail them *)
Example C11_text_guards_on_trees :
  text_guards_ok t_unwrap_g_after = true /\ text_guards_ok (simp_ast t_unwrap_g) = false /\
  text_guards_ok (simp_ast t_oct) = false /\ text_guards_ok (simp_ast t_rng2) = false /\
  text_guards_ok (simp_ast t_esc_rep) = false /\ text_guards_ok (simp_ast t_esc_posix) = false.
Proof. exact text_guards_examples. Qed.
Print Assumptions C11_text_guards_on_trees.

Theorem C11_relex_range_enumeration_refuted :
  items_ok None rl_range_items = false /\
  items_toks rl_range_items = Some [TChar "a"; TChar "b"; TMinus; TChar "x"] /\
  parse_items None [TChar "a"; TChar "b"; TMinus; TChar "x"] <> rl_range_items /\
  option_map fst (parse_class "[ab-x]") = Some t_rng2_after.
Proof. exact relex_range_enumeration_refuted. Qed.
Print Assumptions C11_relex_range_enumeration_refuted.

Theorem C11_relex_escape_removal_posix_refuted :
  ctoks_ok rl_posix_toks = false /\
  lex_body 20 (toks_text rl_posix_toks ++ "]" ++ "]") <> Some (rl_posix_toks, "]") /\
  option_map fst (parse_class "[[:alpha:]]") = Some t_esc_posix_after.
Proof. exact relex_escape_removal_posix_refuted. Qed.
Print Assumptions C11_relex_escape_removal_posix_refuted.

Theorem C11_relex_escape_removal_repeat_refuted :
  ltoks_ok rl_repeat_toks = false /\ lex_literals (toks_text rl_repeat_toks) = Some [TChar "a"; TRepeat "{1,2}"].
Proof. exact relex_escape_removal_repeat_refuted. Qed.
Print Assumptions C11_relex_escape_removal_repeat_refuted.

Theorem C11_relex_unwrap_repeat_refuted :
  ltoks_ok rl_unwrap_toks = false /\ lex_literals (toks_text rl_unwrap_toks) = Some [TChar "a"; TRepeat "{2}"].
Proof. exact relex_unwrap_repeat_refuted. Qed.
Print Assumptions C11_relex_unwrap_repeat_refuted.

Theorem C11_relex_unwrap_octal_refuted :
  ltoks_ok rl_octal_toks = false /\ lex_literals (toks_text rl_octal_toks) = Some [TEsc OpEscapeOctal "\01"].
Proof. exact relex_unwrap_octal_refuted. Qed.
Print Assumptions C11_relex_unwrap_octal_refuted.

Example C11_text_guards_satisfiable :
  ltoks_ok [TChar "a"; TChar "{"; TChar "x"; TEsc OpEscapeOctal "\0"; TChar "9"; TEsc OpEscapeMeta "\."; TEsc OpEscapeChar "\d"] = true /\
  ctoks_ok [TChar "a"; TMinus; TChar "c"; TChar "["; TChar "x"; TPosix "[:alpha:]"; TEsc OpEscapeMeta "\]"; TEsc OpEscapeChar "\d"; TMinus] = true /\
  items_ok None [X OpCharRange "a-c" [X OpChar "a" []; X OpChar "c" []]; X OpChar "-" []; X OpChar "x" []; X OpChar "-" []] = true.
Proof. exact text_guards_satisfiable. Qed.
Print Assumptions C11_text_guards_satisfiable.

(* ---------- the two factoring forms with the SHORTER alternative first, for arbitrary literals ---------- *)

(* x|xt => xt? is wrong for EVERY literal x and rune t: on the subject xt the alternation ends after x *)
Theorem C11_prefix_shorter_first_all_refuted : forall rs t,
  find (RAlt (lit rs) (lit (rs ++ [t])%list)) (rs ++ [t])%list <> find (RCat (lit rs) (RQuest true (lit [t]))) (rs ++ [t])%list.
Proof. exact prefix_shorter_first_refuted_all. Qed.
Print Assumptions C11_prefix_shorter_first_all_refuted.

(* x|hx => h?x is right whenever x is not a prefix of hx (then the two literals never match at the same place) *)
Theorem C11_rule_factor_suffix_shorter_first_literal_partial : forall x h,
  firstn (length x) (h :: x) <> x -> req (RAlt (lit x) (lit (h :: x))) (RCat (RQuest true (lit [h])) (lit x)).
Proof. exact suffix_shorter_first_sound. Qed.
Print Assumptions C11_rule_factor_suffix_shorter_first_literal_partial.

(* ---------- the reported text is the text of the tree the theorems speak about ---------- *)

(* for EVERY tree: what the walker writes to its buffer (and its score) is the print of the tree version *)
Theorem C11_walk_text_is_print_of_tree : forall e,
  pr_list (fst (walk_a true e)) = fst (walk true e) /\ snd (walk_a true e) = snd (walk true e).
Proof. exact walk_print. Qed.
Print Assumptions C11_walk_text_is_print_of_tree.

(* the rewrite reported by the two-pass driver is the text of final_tree (the tree of C11_simplify_final_sound_partial) *)
Theorem C11_final_text_is_print_of_final_tree : forall pat t1 t2f final,
  simplify2 pat t1 t2f = Some final -> final = print (final_tree t1 (t2f (simplify1 t1))).
Proof. exact final_text. Qed.
Print Assumptions C11_final_text_is_print_of_final_tree.

(* what is emitted for an operand that elaborates is never a flag-only group (so no guard about it is needed) *)
Theorem C11_emitted_operand_is_operand : forall x st r, den x st = Some r -> op_eqb (sx_op x) OpFlagOnlyGroup = false ->
  op_eqb (sx_op (seq_node (fst (walk_a true x)))) OpFlagOnlyGroup = false.
Proof. exact emits_operand_holds. Qed.
Print Assumptions C11_emitted_operand_is_operand.

(* ---------- text level, whole patterns (Model_RegexParse: the lexer and the precedence parser of the library the
   checker uses - quantifiers, lazy markers, literal braces, octal and hex escapes, groups, alternation - tied to the
   real parser on every dumped tree) ---------- *)

(* tokens of a tree of printable shape are parsed back to the tree, up to the Value texts of inner nodes and a
   concatenation of one item (canon) *)
Theorem C11_parse_tokens_roundtrip_partial : forall t, pattern_ok t = true -> parse_rtoks (toks_of t) = Some (canon t).
Proof. exact parse_toks_roundtrip. Qed.
Print Assumptions C11_parse_tokens_roundtrip_partial.

(* the text of a token sequence is lexed back to that sequence; guards, with one byte of look-ahead: a bare `{` is not
   followed by a digit, a 1-2 digit octal escape is not followed by an octal digit, \xHH has two hex digits, `(` is not
   followed by `?`, a repeat is a well-formed {n} {n,} {n,m}, no bare operator, classes satisfy the class guards *)
Theorem C11_lex_text_roundtrip_partial : forall ts, rtoks_ok ts = true -> lex_re (rtoks_text ts) = Some ts.
Proof. exact lex_re_roundtrip. Qed.
Print Assumptions C11_lex_text_roundtrip_partial.

(* the tokens of a tree spell its print, for EVERY tree; canon does not change the elaboration of a tree of printable shape *)
Theorem C11_tokens_spell_print : forall e, rtoks_text (toks_of e) = print e.
Proof. exact toks_print. Qed.
Print Assumptions C11_tokens_spell_print.

Theorem C11_canon_same_elaboration_partial : forall t, pattern_ok t = true -> forall st, den (canon t) st = den t st.
Proof. exact den_canon. Qed.
Print Assumptions C11_canon_same_elaboration_partial.

Theorem C11_text_roundtrip_partial : forall t,
  pattern_ok t = true -> rtoks_ok (toks_of t) = true -> parse_re (print t) = Some (canon t).
Proof. exact text_roundtrip. Qed.
Print Assumptions C11_text_roundtrip_partial.

(* THE PRINTED REWRITE (tree_text_ok = pattern_ok && rtoks_ok: only the decidable guards of the round trips are left):
   tree guards /\ text guards => the text the checker prints, parsed by the text model, elaborates
   to an expression equivalent to the original pattern on all subjects, with the same groups *)
Theorem C11_printed_rewrite_sound_partial : forall pat t1 t2f final,
  simplify2 pat t1 t2f = Some final ->
  final_ok t1 (t2f (simplify1 t1)) = true ->
  tree_text_ok (final_tree t1 (t2f (simplify1 t1))) = true ->
  exists p a b n names,
    parse_re final = Some p /\ den_top t1 = Some (a, n, names) /\ den_top p = Some (b, n, names) /\ req b a /\
    forall subject, find_go p subject = find_go t1 subject.
Proof. exact printed_rewrite_sound. Qed.
Print Assumptions C11_printed_rewrite_sound_partial.

(* the re-lexing witnesses at pattern level, and the seeded family `[\12]3` => `\123`: the guards fail and the text
   really reads back as another tree *)
Example C11_text_guards_whole_patterns :
  tree_text_ok ex_capture_factor = true /\
  rtoks_ok (toks_of (simp_ast t_unwrap_g)) = false /\ rtoks_ok (toks_of (simp_ast t_esc_rep)) = false /\
  rtoks_ok (toks_of (simp_ast t_oct)) = false /\
  rtoks_ok [RLit (TEsc OpEscapeOctal "\12"); RLit (TChar "3")] = false /\
  lex_re "\123" = Some [RLit (TEsc OpEscapeOctal "\123")] /\
  rtoks_ok [RLit (TChar "a"); RLit (TChar "{"); RLit (TChar "2")] = false /\
  rtoks_ok [RLit (TChar "a"); RLit (TChar "{"); RLit (TChar "x"); RLit (TEsc OpEscapeHex "\x{10FFFF}"); RLit (TEsc OpEscapeOctal "\123"); RLit (TChar "4")] = true.
Proof. repeat split; vm_compute; reflexivity. Qed.
Print Assumptions C11_text_guards_whole_patterns.
