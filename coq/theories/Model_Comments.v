(* Model_Comments.v — comment-based checkers over the comment data of Model_Walkers.v (no proofs here).

   Comment text is a byte string (c_text: position -> text as go/scanner delivers it, "\r" already removed).  Slices of the
   text are explicit partial operations.  Case mapping is ASCII-only: for the fixed ASCII needles of the checker this equals
   strings.ToUpper / strings.EqualFold unless the comment contains U+0131 or U+017F, whose upper case is ASCII (the tie runs on
   non-ASCII comment text as well). *)
From GC Require Import Base GoAst Model_Checkers Model_Checkers2 Model_Walkers.

Record ctexts := { c_text : list (N * string) }.

Fixpoint text_at (tbl : list (N * string)) (pos : N) : option string :=
  match tbl with
  | [] => None
  | (p, t) :: r => if N.eqb p pos then Some t else text_at r pos
  end.

(* s[:n] — panics when n > len(s) *)
Fixpoint str_take (s : string) (n : nat) : option string :=
  match n, s with
  | O, _ => Some EmptyString
  | S j, String c r => match str_take r j with Some t => Some (String c t) | None => None end
  | S _, EmptyString => None
  end.

Definition trim_prefix (p s : string) : string := if has_prefix p s then drop (String.length p) s else s.
Definition upper (s : string) : string := str_map ascii_upper s.
Definition equal_fold (a b : string) : bool := String.eqb (str_map ascii_lower a) (str_map ascii_lower b).

Definition deprecated_prefix : string := "Deprecated: ".
Definition dc_patterns : list string :=
  ["this type is deprecated"; "this function is deprecated"; "[[deprecated]]"; "note: deprecated"; "deprecated in";
   "deprecated. use"; "deprecated! use"; "deprecated use"].
Definition dc_typos : list string :=
  map upper ["Dprecated: "; "Derecated: "; "Depecated: "; "Depekated: "; "Deprcated: "; "Depreated: "; "Deprected: ";
             "Deprecaed: "; "Deprecatd: "; "Deprecate: "; "Derpecate: "; "Derpecated: "; "Depreacted: "].

(* a comment as the cause of a warning: a leaf at the comment's position *)
Definition comment_node (pos : N) : node := Nd (TOther CNode) pos "" 0 0 nf NN.
Definition wc (pos : N) : warning := w0 "deprecatedComment" (comment_node pos).

(* for _, pat := range c.commonPatterns { if len(l) < len(pat) { continue }; if strings.EqualFold(l[:len(pat)], pat) {...} } *)
Fixpoint dc_match_patterns (l : string) (pats : list string) : res bool :=
  match pats with
  | [] => R false
  | pat :: r =>
      if Nat.ltb (String.length l) (String.length pat) then dc_match_patterns l r else
      match str_take l (String.length pat) with
      | None => P "deprecatedComment: l[:len(pat)]"
      | Some pre => if equal_fold pre pat then R true else dc_match_patterns l r
      end
  end.

(* one doc comment group: [(position, text)] with prev = the previous trimmed line *)
Fixpoint dc_lines (cmts : list (N * string)) (prev : string) : outcome :=
  match cmts with
  | [] => Ok []
  | (pos, text) :: r =>
      if has_prefix "/*" text then dc_lines r prev else
      let raw := trim_prefix "//" text in
      let l := trim_space raw in
      if Nat.ltb (String.length raw) (String.length deprecated_prefix) then dc_lines r l else
      let up := upper l in
      if has_prefix "DEPRECATED: " up && negb (has_prefix deprecated_prefix l) then
        match str_take l 12 with                              (* warnCasing: line[:len("DEPRECATED: ")] *)
        | Some _ => Ok [wc pos]
        | None => Panic "deprecatedComment: line[:len(DEPRECATED: )]"
        end
      else if has_prefix "Deprecated, " l then Ok [wc pos]
      else
        match dc_match_patterns l dc_patterns with
        | P s => Panic s
        | R true => Ok [wc pos]
        | R false =>
            if existsb (fun t => has_prefix t up) dc_typos then
              match split_on ":" l with                       (* warnTypo: strings.Split(line, ":")[0] *)
              | _ :: _ => Ok [wc pos]
              | [] => Panic "deprecatedComment: strings.Split(line, :)[0]"
              end
            else if has_prefix deprecated_prefix l && negb (String.eqb prev "") then Ok [wc pos]
            else dc_lines r l
        end
  end.

(* the comments of the doc group that starts at [pos]: the group of f.Comments with that first position *)
Definition group_at (cs : comments) (pos : N) : list (N * bool) :=
  match filter (fun g => N.eqb (group_pos g) pos) (c_groups cs) with g :: _ => g | [] => [] end.

Definition group_texts (ct : ctexts) (g : list (N * bool)) : list (N * string) :=
  flat_map (fun c => match text_at (c_text ct) (fst c) with Some t => [(fst c, t)] | None => [] end) g.

Definition run_deprecatedComment (f : file) (cs : comments) (ct : ctexts) : outcome :=
  seq_o (map (fun d : N * N => dc_lines (group_texts ct (group_at cs (fst d))) "") (walk_doc_comments f cs)).

(* comment positions are token starts of the file (checked by the tie, like wf) *)
Definition wf_comments (f : file) (cs : comments) : bool :=
  let s := starts_set (token_starts f) in
  forallb (fun c : N * bool => pos_ok s (comment_node (fst c))) (concat (c_groups cs)).

Definition run_by_name_c (name : string) (f : file) (cs : comments) (ct : ctexts) : option outcome :=
  if String.eqb name "deprecatedComment" then Some (run_deprecatedComment f cs ct) else None.

Definition ccase_detail (f : file) (cs : comments) (ct : ctexts) (observed : list (string * obs)) : list (string * obs) :=
  ((if wf_comments f cs then [] else [("wf_comments", None)]) ++
   flat_map (fun p => match run_by_name_c (fst p) f cs ct with
                      | Some o => if obs_eqb false (model_obs o) (snd p) then [] else [(fst p, model_obs o)]
                      | None => [(fst p, None)]
                      end) observed)%list.
