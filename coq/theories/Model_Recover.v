(* Model_Recover.v — the recover handler of checkFile's worker goroutines (cmd/go-critic/check.go:151-171, and its
   twin) racing with the main goroutine's way to os.Exit. One worker whose checker panicked, the main goroutine
   blocked in wg.Wait. A schedule says which of the two moves next; a move of a goroutine that cannot move is a
   no-op. The process ends with the first os.Exit / fatal panic. No proofs here. *)
From GC Require Export Base.

Inductive worker_pc :=
| WDeferred      (* the checker panicked; the deferred function starts *)
| WSignalled     (* wg.Done() and <-sema have run *)
| WLogged        (* recover() returned the value, the error line is printed *)
.
Inductive main_pc :=
| MWaiting       (* in wg.Wait() *)
| MPrinted       (* wg.Wait returned; the file's warnings are printed; no further file *)
.
Record rstate := { wpc : worker_pc; mpc : main_pc; signalled : bool (* the WaitGroup counter reached zero *) }.
Definition rstart : rstate := {| wpc := WDeferred; mpc := MWaiting; signalled := false |}.

Inductive rstep_result := Goes (s : rstate) | Ends (status : Z).

(* the handler before the repair: wg.Done() first, the re-raised panic last *)
Definition worker_step_prefix (s : rstate) : rstep_result :=
  match wpc s with
  | WDeferred => Goes {| wpc := WSignalled; mpc := mpc s; signalled := true |}
  | WSignalled => Goes {| wpc := WLogged; mpc := mpc s; signalled := signalled s |}
  | WLogged => Ends 2      (* panic(err): the runtime prints the trace and exits with status 2 *)
  end.

(* the handler as it is: the wait group is signalled only when there was no panic; a panicking worker never signals *)
Definition worker_step (s : rstate) : rstep_result :=
  match wpc s with
  | WDeferred => Goes {| wpc := WLogged; mpc := mpc s; signalled := signalled s |}
  | WSignalled => Goes s
  | WLogged => Ends 2
  end.

(* main: wg.Wait returns once signalled; then the warnings are printed and exit() runs *)
Definition main_step (found_issues : bool) (code : Z) (s : rstate) : rstep_result :=
  match mpc s with
  | MWaiting => if signalled s then Goes {| wpc := wpc s; mpc := MPrinted; signalled := true |} else Goes s
  | MPrinted => Ends (if found_issues then code else 0%Z)
  end.

(* true: the worker moves; false: main moves. None: the schedule ended before the process did *)
Fixpoint run_schedule (wstep : rstate -> rstep_result) (found : bool) (code : Z) (sch : list bool) (s : rstate) : option Z :=
  match sch with
  | [] => None
  | w :: r => match (if w then wstep s else main_step found code s) with
              | Ends z => Some z
              | Goes s' => run_schedule wstep found code r s'
              end
  end.
