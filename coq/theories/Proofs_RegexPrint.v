(* Proofs_RegexPrint.v — C11: the text version of the walker (walk: what the checker writes to its buffer, and its score)
   prints the tree version (walk_a), for EVERY tree: walk_print.  Hence the rewrite the model reports is the text of
   the tree the soundness theorems speak about. *)
From GC Require Import Base Model_Regex Model_RegexSimplify Proofs_Regex Proofs_RegexRules Proofs_RegexWalk.
Local Open Scope string_scope.

Lemma sapp_assoc' (a b c : string) : (a ++ b) ++ c = a ++ (b ++ c).
Proof. induction a as [|x a IH]; simpl; [reflexivity|]. rewrite IH. reflexivity. Qed.
Lemma sapp_nil_r' (s : string) : s ++ "" = s.
Proof. induction s as [|a s IH]; simpl; [reflexivity|]. rewrite IH. reflexivity. Qed.

Lemma concat_cons (x : string) l : String.concat "" (x :: l) = x ++ String.concat "" l.
Proof. destruct l; simpl; [rewrite sapp_nil_r'; reflexivity|reflexivity]. Qed.

Lemma pr_list_cons x l : pr_list (x :: l) = print x ++ pr_list l.
Proof. unfold pr_list. cbn [map]. apply concat_cons. Qed.

Lemma pr_list_app a b : pr_list (a ++ b) = pr_list a ++ pr_list b.
Proof. induction a as [|x a IH]; [reflexivity|]. cbn [app]. rewrite !pr_list_cons, IH, sapp_assoc'. reflexivity. Qed.

Fixpoint plT (l : list sx) : string := match l with [] => "" | x :: r => print x ++ plT r end.
Lemma plT_pr l : plT l = pr_list l.
Proof. induction l as [|x l IH]; [reflexivity|]. rewrite pr_list_cons, <- IH. reflexivity. Qed.

Lemma print_concat v l : print (X OpConcat v l) = pr_list l.
Proof. rewrite <- plT_pr. cbn [print]. induction l as [|x l IH]; [reflexivity|]. cbn [plT]. rewrite <- IH. reflexivity. Qed.

Lemma print_seq_node xs : print (seq_node xs) = pr_list xs.
Proof.
  destruct xs as [|x [|y r]]; [reflexivity| |].
  - cbn [seq_node]. rewrite pr_list_cons. symmetry. apply sapp_nil_r'.
  - unfold seq_node. apply print_concat.
Qed.

Lemma print_class_nodes (neg : bool) v l :
  print (X (if neg then OpNegCharClass else OpCharClass) v l) = (if neg then "[^" else "[") ++ pr_list l ++ "]".
Proof.
  rewrite <- plT_pr. destruct neg; cbn [print]; f_equal; f_equal; induction l as [|x l IH]; cbn [plT]; try reflexivity; rewrite <- IH; reflexivity.
Qed.

Lemma pr_chars_of_bytes s : pr_list (chars_of_bytes s) = s.
Proof. induction s as [|a s IH]; [reflexivity|]. cbn [chars_of_bytes]. rewrite pr_list_cons, IH. reflexivity. Qed.

Lemma pr_mk_chars vs : pr_list (map mk_char vs) = String.concat "" vs.
Proof. induction vs as [|v vs IH]; [reflexivity|]. cbn [map]. rewrite pr_list_cons, concat_cons, IH. reflexivity. Qed.

(* substring 0 k r ++ drop k r = r *)
Lemma substring_drop k : forall r, substring 0 k r ++ drop k r = r.
Proof.
  induction k as [|k IH]; intros r.
  - destruct r; reflexivity.
  - destruct r as [|a r]; [reflexivity|]. simpl. rewrite IH. reflexivity.
Qed.

Lemma drop_length_le k : forall r, String.length (drop k r) <= String.length r.
Proof. induction k as [|k IH]; intros r; [simpl; lia|]. destruct r as [|a r]; simpl; [lia|]. specialize (IH r). lia. Qed.

Lemma utf8_chunks_concat fuel : forall s, String.length s <= fuel -> String.concat "" (utf8_chunks fuel s) = s.
Proof.
  induction fuel as [|f IH]; intros s Hl.
  - destruct s; [reflexivity|simpl in Hl; lia].
  - destruct s as [|a r]; [reflexivity|]. cbn [utf8_chunks].
    set (n := if (N_of_ascii a <? 128)%N then 1 else if (N_of_ascii a <? 224)%N then 2 else if (N_of_ascii a <? 240)%N then 3 else 4).
    rewrite concat_cons, IH.
    + cbn [append]. rewrite substring_drop. reflexivity.
    + simpl in Hl. pose proof (drop_length_le (n - 1) r). lia.
Qed.

Lemma pr_chars_of x : pr_list (chars_of x) = x.
Proof. unfold chars_of. rewrite pr_mk_chars. apply utf8_chunks_concat. lia. Qed.

(* ---------- the text version of the walker, inner loops as top-level functions ---------- *)
Fixpoint wcW (l : list sx) (skip : nat) {struct l} : out :=
  match l with
  | [] => o_str ""
  | x :: rest =>
      match skip with
      | S k => wcW rest k
      | O =>
          match concat_step true x rest with
          | CNone => o_app (walk true x) (wcW rest O)
          | CMerge => o_app (walk true x) (o_app (o_hit "+") (wcW rest 1%nat))
          | CFold n => o_app (walk true x) (o_app (o_hit ("{" ++ itoa (S n) ++ "}")) (wcW rest n))
          end
      end
  end.
Lemma walk_concat v args : walk true (X OpConcat v args) = wcW args O.
Proof. reflexivity. Qed.

Fixpoint waW (l : list sx) : out :=
  match l with
  | [] => o_str ""
  | [x] => walk true x
  | x :: r => o_app (walk true x) (o_app (o_str "|") (waW r))
  end.

Fixpoint wlW (l : list sx) : out := match l with [] => o_str "" | x :: r => o_app (walk true x) (wlW r) end.

Definition WP (e : sx) : Prop :=
  pr_list (fst (walk_a true e)) = fst (walk true e) /\ snd (walk_a true e) = snd (walk true e).

Lemma print_wrap1 o sfx xs :
  (o = OpStar /\ sfx = "*" \/ o = OpPlus /\ sfx = "+" \/ o = OpQuestion /\ sfx = "?" \/ o = OpNonGreedy /\ sfx = "?") ->
  pr_list (wrap1 o sfx xs) = pr_list xs ++ sfx.
Proof.
  intros H. unfold wrap1. rewrite pr_list_cons. cbn [pr_list map String.concat]. rewrite sapp_nil_r'.
  destruct H as [[-> ->]|[[-> ->]|[[-> ->]|[-> ->]]]]; cbn [print]; rewrite print_seq_node; reflexivity.
Qed.

Lemma wc_print l : (forall x, In x l -> WP x) ->
  forall skip, pr_list (fst (wcT l skip)) = fst (wcW l skip) /\ snd (wcT l skip) = snd (wcW l skip).
Proof.
  induction l as [|x rest IH]; intros HP skip; [split; reflexivity|].
  assert (HPr : forall y, In y rest -> WP y) by (intros y Hy; apply HP; right; exact Hy).
  destruct skip as [|k]; [|cbn [wcT wcW]; apply IH; exact HPr].
  cbn [wcT wcW]. destruct (HP x (or_introl eq_refl)) as [Hx1 Hx2].
  destruct (concat_step true x rest) as [| |n].
  - destruct (IH HPr 0%nat) as [A B]. unfold a_app, o_app. cbn [fst snd]. rewrite pr_list_app, Hx1, A, Hx2, B. split; reflexivity.
  - destruct (IH HPr 1%nat) as [A B]. destruct (walk_a true x) as [xs sc]. cbn [fst snd] in *.
    unfold a_app, o_app, o_hit. cbn [fst snd]. rewrite pr_list_app, (print_wrap1 OpPlus "+" xs) by tauto.
    rewrite Hx1, A, sapp_assoc', <- Hx2, B. split; [reflexivity|lia].
  - destruct (IH HPr n) as [A B]. destruct (walk_a true x) as [xs sc]. cbn [fst snd] in *.
    unfold a_app, o_app, o_hit. cbn [fst snd]. rewrite pr_list_app, pr_list_cons. cbn [pr_list map String.concat print sx_val].
    rewrite sapp_nil_r', print_seq_node, Hx1, A, sapp_assoc', <- Hx2, B. split; [reflexivity|lia].
Qed.

Lemma wa_print l : (forall x, In x l -> WP x) ->
  String.concat "|" (map print (fst (waT l))) = fst (waW l) /\ snd (waT l) = snd (waW l).
Proof.
  induction l as [|x rest IH]; intros HP; [split; reflexivity|].
  destruct (HP x (or_introl eq_refl)) as [Hx1 Hx2].
  destruct (IH (fun y Hy => HP y (or_intror Hy))) as [A B].
  cbn [waT]. destruct (walk_a true x) as [xs sc]. destruct (waT rest) as [rs sc'] eqn:Er. cbn [fst snd] in *.
  destruct rest as [|y rest'].
  - cbn [waT] in Er. inversion Er; subst rs sc'. cbn [waW map String.concat]. rewrite print_seq_node, Hx1, Hx2. split; [reflexivity|lia].
  - assert (Hrs : exists r1 rs', rs = r1 :: rs').
    { cbn [waT] in Er. destruct (walk_a true y). destruct (waT rest'). inversion Er. eauto. }
    destruct Hrs as (r1 & rs' & ->).
    change (waW (x :: y :: rest')) with (o_app (walk true x) (o_app (o_str "|") (waW (y :: rest')))).
    unfold o_app, o_str. cbn [fst snd].
    change (map print (seq_node xs :: r1 :: rs')) with (print (seq_node xs) :: map print (r1 :: rs')).
    destruct (map print (r1 :: rs')) as [|p1 ps] eqn:Em; [discriminate Em|].
    change (String.concat "|" (print (seq_node xs) :: p1 :: ps)) with (print (seq_node xs) ++ "|" ++ String.concat "|" (p1 :: ps)).
    rewrite print_seq_node, Hx1, A, Hx2, B. split; reflexivity.
Qed.

Lemma print_alt v l : print (X OpAlt v l) = String.concat "|" (map print l).
Proof.
  cbn [print]. induction l as [|x l IH]; [reflexivity|]. destruct l as [|y l]; [reflexivity|].
  change (String.concat "|" (map print (x :: y :: l))) with (print x ++ "|" ++ String.concat "|" (map print (y :: l))).
  rewrite <- IH. reflexivity.
Qed.

Lemma wl_print l : (forall x, In x l -> WP x) ->
  pr_list (fst (wlT l)) = fst (wlW l) /\ snd (wlT l) = snd (wlW l).
Proof.
  induction l as [|x rest IH]; intros HP; [split; reflexivity|].
  destruct (HP x (or_introl eq_refl)) as [Hx1 Hx2]. destruct (IH (fun y Hy => HP y (or_intror Hy))) as [A B].
  cbn [wlT wlW]. unfold a_app, o_app. cbn [fst snd]. rewrite pr_list_app, Hx1, A, Hx2, B. split; reflexivity.
Qed.

Ltac dflt := split; [cbn [walk_a walk fst]; rewrite pr_list_cons; cbn [print pr_list map String.concat o_str fst]; apply sapp_nil_r'|reflexivity].

Lemma pr_one x : pr_list [x] = print x.
Proof. rewrite pr_list_cons. apply sapp_nil_r'. Qed.

Lemma pr_table_tree s : pr_list (table_tree s) = s.
Proof.
  unfold table_tree. destruct (String.eqb_spec s "\]\[") as [->|_]; [reflexivity|].
  destruct (String.eqb_spec s "\]") as [->|_]; [reflexivity|]. rewrite pr_one. reflexivity.
Qed.

Lemma factor_print (b : bool) x y s :
  (let tail := trim_prefix y x in
   if Nat.leb (String.length tail) 4 && Nat.eqb (rune_count tail) 1 then Some (x ++ tail ++ "?")
   else let head := trim_suffix y x in
        if b && (Nat.leb (String.length head) 4 && Nat.eqb (rune_count head) 1) then Some (head ++ "?" ++ x) else None) = Some s ->
  pr_list (fst (if Nat.leb (String.length (trim_prefix y x)) 4 && Nat.eqb (rune_count (trim_prefix y x)) 1
                then ([X OpConcat s (chars_of x ++ [X OpQuestion (trim_prefix y x ++ "?") [mk_char (trim_prefix y x)]])%list], 1%nat)
                else ([X OpConcat s (X OpQuestion (trim_suffix y x ++ "?") [mk_char (trim_suffix y x)] :: chars_of x)], 1%nat))) = fst (o_hit s) /\
  snd (if Nat.leb (String.length (trim_prefix y x)) 4 && Nat.eqb (rune_count (trim_prefix y x)) 1
       then ([X OpConcat s (chars_of x ++ [X OpQuestion (trim_prefix y x ++ "?") [mk_char (trim_prefix y x)]])%list], 1%nat)
       else ([X OpConcat s (X OpQuestion (trim_suffix y x ++ "?") [mk_char (trim_suffix y x)] :: chars_of x)], 1%nat)) = snd (o_hit s).
Proof.
  cbv zeta. destruct (Nat.leb (String.length (trim_prefix y x)) 4 && Nat.eqb (rune_count (trim_prefix y x)) 1).
  - intros H. inversion H. split; [|reflexivity]. cbn [fst o_hit]. rewrite pr_one, print_concat, pr_list_app, pr_chars_of, pr_one. reflexivity.
  - destruct (b && (Nat.leb (String.length (trim_suffix y x)) 4 && Nat.eqb (rune_count (trim_suffix y x)) 1)); [|discriminate].
    intros H. inversion H. split; [|reflexivity]. cbn [fst o_hit]. rewrite pr_one, print_concat, pr_list_cons, pr_chars_of.
    unfold mk_char. cbn [print]. rewrite sapp_assoc'. reflexivity.
Qed.

Theorem walk_print e : WP e.
Proof.
  induction e as [e IH] using sx_ind_size. destruct e as [o v args].
  assert (IHin : forall y, In y args -> WP y).
  { intros y Hy. apply IH. rewrite sx_size_X. pose proof (sizes_in y args Hy). lia. }
  unfold WP. destruct o; try dflt.
  - (* Concat *)
    rewrite walk_concat, walk_a_concat. destruct (wc_print args IHin 0%nat) as [A B]. cbn [fst snd].
    split; [rewrite pr_one, print_concat; exact A|exact B].
  - (* Alt *)
    cbn [walk_a walk].
    destruct (allChars (X OpAlt v args) && negb (true && hasClassMeta (X OpAlt v args))) eqn:Eall.
    + split; [|reflexivity]. cbn [fst o_hit]. rewrite pr_one, (print_class_nodes false), <- (map_map sx_val mk_char), pr_mk_chars.
      reflexivity.
    + destruct (factorPrefixSuffix true (X OpAlt v args)) as [s|] eqn:Ef.
      * unfold factorPrefixSuffix in Ef. cbn [sx_args] in Ef.
        destruct args as [|a0 [|a1 [|? ?]]]; try discriminate Ef.
        destruct (String.eqb (concatLiteral true a0) (concatLiteral true a1)); [discriminate Ef|].
        destruct (Nat.ltb (String.length (concatLiteral true a1)) (String.length (concatLiteral true a0))).
        -- exact (factor_print (negb true || true) (concatLiteral true a1) (concatLiteral true a0) s Ef).
        -- exact (factor_print (negb true || false) (concatLiteral true a0) (concatLiteral true a1) s Ef).
      * destruct (wa_print args IHin) as [A B].
        change ((fix wa (l : list sx) : out := match l with [] => o_str "" | [x] => walk true x | x :: (_ :: _) as r => o_app (walk true x) (o_app (o_str "|") (wa r)) end) args) with (waW args).
        change ((fix wa (l : list sx) : list sx * nat := match l with [] => ([], 0%nat) | x :: r => let '(xs, sc) := walk_a true x in let '(rs, sc') := wa r in (seq_node xs :: rs, (sc + sc')%nat) end) args) with (waT args).
        cbn [fst snd]. split; [rewrite pr_one, print_alt; exact A|exact B].
  - (* Star *)
    destruct args as [|x [|? ?]]; try dflt. destruct (IHin x (or_introl eq_refl)) as [A B].
    cbn [walk_a walk]. destruct (walk_a true x) as [xs sc]. cbn [fst snd] in *. unfold o_app, o_str. cbn [fst snd].
    rewrite (print_wrap1 OpStar "*" xs) by tauto. rewrite A, B. split; [reflexivity|lia].
  - (* Plus *)
    destruct args as [|x [|? ?]]; try dflt. destruct (IHin x (or_introl eq_refl)) as [A B].
    cbn [walk_a walk]. destruct (walk_a true x) as [xs sc]. cbn [fst snd] in *. unfold o_app, o_str. cbn [fst snd].
    rewrite (print_wrap1 OpPlus "+" xs) by tauto. rewrite A, B. split; [reflexivity|lia].
  - (* Question *)
    destruct args as [|x [|? ?]]; try dflt. destruct (IHin x (or_introl eq_refl)) as [A B].
    cbn [walk_a walk]. destruct (walk_a true x) as [xs sc]. cbn [fst snd] in *. unfold o_app, o_str. cbn [fst snd].
    rewrite (print_wrap1 OpQuestion "?" xs) by tauto. rewrite A, B. split; [reflexivity|lia].
  - (* NonGreedy *)
    destruct args as [|x [|? ?]]; try dflt. destruct (IHin x (or_introl eq_refl)) as [A B].
    cbn [walk_a walk]. destruct (walk_a true x) as [xs sc]. cbn [fst snd] in *.
    destruct (true && dropped_repeat x); [split; assumption|].
    unfold o_app, o_str. cbn [fst snd]. rewrite (print_wrap1 OpNonGreedy "?" xs) by tauto. rewrite A, B. split; [reflexivity|lia].
  - (* EscapeChar *)
    cbn [walk_a walk]. destruct (mem_s v removable_escapes); [|dflt].
    split; [|reflexivity]. cbn [fst o_hit]. rewrite pr_one. reflexivity.
  - (* CharClass *)
    cbn [walk_a walk]. destruct (simplifyCharClass true (X OpCharClass v args)) as [s|] eqn:Es.
    + destruct (lookup_s v class_table) as [t|] eqn:El.
      * split; [|reflexivity]. cbn [fst o_hit]. apply pr_table_tree.
      * split; [|reflexivity]. cbn [fst o_hit]. unfold simplifyCharClass in Es. cbn [sx_val sx_args] in Es. rewrite El in Es.
        destruct args as [|it [|? ?]]; [discriminate Es| |destruct it as [[] ? ?]; discriminate Es].
        destruct it as [io iv ia]. destruct io; try discriminate Es.
        -- destruct (mem_s iv (bare_exclusions true)); [discriminate Es|]. inversion Es. rewrite pr_one. reflexivity.
        -- inversion Es. rewrite pr_one. reflexivity.
    + destruct (wl_print args IHin) as [A B].
      change ((fix wl (l : list sx) : out := match l with [] => o_str "" | x :: r => o_app (walk true x) (wl r) end) args) with (wlW args).
      change ((fix wl (l : list sx) : aout := match l with [] => ([], 0%nat) | x :: r => a_app (walk_a true x) (wl r) end) args) with (wlT args).
      unfold o_app, o_str. cbn [fst snd]. rewrite pr_one, (print_class_nodes false), A, B. split; [reflexivity|lia].
  - (* NegCharClass *)
    cbn [walk_a walk]. destruct (simplifyNegCharClass (X OpNegCharClass v args)) as [s|] eqn:Es.
    + split; [|reflexivity]. cbn [fst o_hit]. apply pr_table_tree.
    + destruct (wl_print args IHin) as [A B].
      change ((fix wl (l : list sx) : out := match l with [] => o_str "" | x :: r => o_app (walk true x) (wl r) end) args) with (wlW args).
      change ((fix wl (l : list sx) : aout := match l with [] => ([], 0%nat) | x :: r => a_app (walk_a true x) (wl r) end) args) with (wlT args).
      unfold o_app, o_str. cbn [fst snd]. rewrite pr_one, (print_class_nodes true), A, B. split; [reflexivity|lia].
  - (* CharRange *)
    cbn [walk_a walk]. destruct (simplifyCharRange true (X OpCharRange v args)) as [s|]; [|dflt].
    split; [|reflexivity]. cbn [fst o_hit]. apply pr_chars_of_bytes.
  - (* Repeat *)
    destruct args as [|x [|r [|? ?]]]; try dflt. destruct (IHin x (or_introl eq_refl)) as [A B].
    cbn [walk_a walk]. destruct (walk_a true x) as [xs sc]. cbn [fst snd] in *.
    destruct (String.eqb (sx_val r) "{0,1}").
    { unfold o_app, o_hit. cbn [fst snd]. rewrite (print_wrap1 OpQuestion "?" xs) by tauto. rewrite A, B. split; [reflexivity|lia]. }
    destruct (String.eqb (sx_val r) "{1,}").
    { unfold o_app, o_hit. cbn [fst snd]. rewrite (print_wrap1 OpPlus "+" xs) by tauto. rewrite A, B. split; [reflexivity|lia]. }
    destruct (String.eqb (sx_val r) "{0,}").
    { unfold o_app, o_hit. cbn [fst snd]. rewrite (print_wrap1 OpStar "*" xs) by tauto. rewrite A, B. split; [reflexivity|lia]. }
    destruct (String.eqb (sx_val r) "{0}").
    { destruct (true && hasCapture x); [|split; reflexivity].
      unfold o_app, o_str. cbn [fst snd]. rewrite pr_one. cbn [print]. rewrite print_seq_node, A, B. split; [reflexivity|lia]. }
    destruct (String.eqb (sx_val r) "{1}").
    { unfold o_app, o_hit. cbn [fst snd]. rewrite A, B, sapp_nil_r'. split; [reflexivity|lia]. }
    unfold o_app, o_str. cbn [fst snd]. rewrite pr_one. cbn [print]. rewrite print_seq_node, A, B. split; [reflexivity|lia].
  - (* Capture *)
    destruct args as [|x [|? ?]]; try dflt. destruct (IHin x (or_introl eq_refl)) as [A B].
    cbn [walk_a walk]. destruct (walk_a true x) as [xs sc]. cbn [fst snd] in *. unfold o_app, o_str. cbn [fst snd].
    rewrite pr_one. cbn [print]. rewrite print_seq_node, A, B. split; [reflexivity|lia].
  - (* NamedCapture *)
    destruct args as [|x [|nm [|? ?]]]; try dflt. destruct (IHin x (or_introl eq_refl)) as [A B].
    cbn [walk_a walk]. destruct (walk_a true x) as [xs sc]. cbn [fst snd] in *. unfold o_app, o_str. cbn [fst snd].
    rewrite pr_one. cbn [print has_prefix]. rewrite print_seq_node, A, B. split; [|lia].
    cbn. rewrite !sapp_assoc'. reflexivity.
  - (* Group *)
    destruct args as [|x [|? ?]]; try dflt. destruct (IHin x (or_introl eq_refl)) as [A B].
    cbn [walk_a walk]. destruct (sx_op x); destruct (walk_a true x) as [xs sc]; cbn [fst snd] in *; unfold o_app, o_str, o_hit; cbn [fst snd];
      try (rewrite A, B, sapp_nil_r'; split; [reflexivity|lia]);
      (rewrite pr_one; cbn [print]; rewrite print_seq_node, A, B; split; [reflexivity|lia]).
  - (* GroupWithFlags *)
    destruct args as [|x [|fl [|? ?]]]; try dflt. destruct (IHin x (or_introl eq_refl)) as [A B].
    cbn [walk_a walk]. destruct (walk_a true x) as [xs sc]. cbn [fst snd] in *. unfold o_app, o_str. cbn [fst snd].
    rewrite pr_one. cbn [print sx_val]. rewrite print_seq_node, A, B. split; [|lia].
    cbn. rewrite !sapp_assoc'. reflexivity.
Qed.

(* the text version of the simplifier prints the tree version *)
Corollary simp_text_print e : simp_text e = print (simp_ast e) /\ simp_score e = snd (walk_a true e).
Proof.
  destruct (walk_print e) as [A B]. unfold simp_text, simp_ast, simp_score. rewrite print_seq_node. split; congruence.
Qed.

Corollary simplify1_print t : simplify1 t = "" \/ simplify1 t = print (simp_ast t).
Proof.
  unfold simplify1, simplify1_g. destruct (walk true t) as [s sc] eqn:E. destruct (Nat.ltb 0 sc); [right|left; reflexivity].
  destruct (simp_text_print t) as [A _]. unfold simp_text in A. rewrite E in A. exact A.
Qed.
