(* Model_Cli.v — cmd/go-critic/check.go (and its twin): location shortening (485-504),
   trailing slash (400-405), file filters (123-130, 473-478), output lines and exit status
   (102-107, 136-185). No proofs here. *)
From GC Require Export Base.

(* strings.Replace(s, old, new, 1) *)
Fixpoint replace_first (old new s : string) : string :=
  if has_prefix old s then new ++ drop (String.length old) s
  else match s with
       | EmptyString => EmptyString
       | String a r => String a (replace_first old new r)
       end.

Definition slash : ascii := "/"%char.

(* addTrailingSlash *)
Definition add_trailing_slash (s : string) : string :=
  if has_suffix "/" s then s else s ++ "/".

(* shortenLocation as the code has it today (prefix test before the working-directory rewrite) *)
Definition shorten (wd gp gr loc : string) : string :=
  let rel := if negb (String.eqb wd "") && has_prefix wd loc then replace_first wd "./" loc else loc in
  let abs := if has_prefix gp loc then replace_first gp "$GOPATH/" loc
             else if has_prefix gr loc then replace_first gr "$GOROOT/" loc
             else loc in
  if Nat.ltb (String.length rel) (String.length abs) then rel else abs.

(* the routine before the fix: the working directory was replaced at its first occurrence anywhere *)
Definition shorten_substring (wd gp gr loc : string) : string :=
  let rel := if negb (String.eqb wd "") then replace_first wd "./" loc else loc in
  let abs := if has_prefix gp loc then replace_first gp "$GOPATH/" loc
             else if has_prefix gr loc then replace_first gr "$GOROOT/" loc
             else loc in
  if Nat.ltb (String.length rel) (String.length abs) then rel else abs.

(* what a reader of the output does with a printed location *)
Definition expand (wd gp gr s : string) : string :=
  if has_prefix "./" s then wd ++ drop 2 s
  else if has_prefix "$GOPATH/" s then gp ++ drop 8 s
  else if has_prefix "$GOROOT/" s then gr ++ drop 8 s
  else s.

(* ---- generated-file detection ---- *)
(* first occurrence of needle in s: returns what follows it *)
Fixpoint after_first (needle s : string) : option string :=
  if has_prefix needle s then Some (drop (String.length needle) s)
  else match s with
       | EmptyString => None
       | String _ r => after_first needle r
       end.

(* regexp "Code generated .* DO NOT EDIT." on one line ('.' does not match a newline) *)
Definition line_matches (l : string) : bool :=
  match after_first "Code generated " l with
  | None => false
  | Some r => match after_first " DO NOT EDIT" r with
              | None => false
              | Some t => negb (String.eqb t "")
              end
  end.

Definition nl : ascii := ascii_of_N 10.

(* isGenerated: len(f.Comments) != 0 && re.MatchString(f.Comments[0].Text());
   the argument is the list of comment-group texts of the file (go/ast's CommentGroup.Text) *)
Definition is_generated_impl (groups : list string) : bool :=
  match groups with
  | [] => false
  | g :: _ => existsb line_matches (split_on nl g)
  end.

(* the Go convention (go/ast.IsGenerated): a line comment before the package clause whose text is
   exactly "// Code generated ... DO NOT EDIT."; argument: the line-comment texts (without "//")
   that precede the package clause *)
Definition std_marker_line (l : string) : bool :=
  has_prefix " Code generated " l && has_suffix " DO NOT EDIT." l
  && Nat.leb (String.length " Code generated " + String.length " DO NOT EDIT.") (String.length l).
Definition is_generated_std (header_line_comments : list string) : bool :=
  existsb std_marker_line header_line_comments.

(* ---- run: file filters, lines, exit status ---- *)
Record cli_cfg := { check_tests : bool; check_generated : bool; exit_code : Z }.
Record src_file := { fname : string; fgroups : list string;
                     (* per selected checker, in checker order: (checker name, [(location, text)]) *)
                     fwarn : list (string * list (string * string)) }.

Definition file_checked (cfg : cli_cfg) (f : src_file) : bool :=
  if negb (check_tests cfg) && has_suffix "_test.go" (fname f) then false
  else if negb (check_generated cfg) && is_generated_impl (fgroups f) then false
  else true.

Definition fmt_line (loc checker text : string) : string := loc ++ ": " ++ checker ++ ": " ++ text.

(* checkFile's printing loop: state = (foundIssues, lines so far) *)
Fixpoint print_checker (c : string) (ws : list (string * string)) (st : bool * list string) : bool * list string :=
  match ws with
  | [] => st
  | (loc, text) :: r => print_checker c r (true, (snd st ++ [fmt_line loc c text])%list)
  end.
Fixpoint print_file (cws : list (string * list (string * string))) (st : bool * list string) : bool * list string :=
  match cws with
  | [] => st
  | (c, ws) :: r => print_file r (print_checker c ws st)
  end.
Fixpoint run_files (cfg : cli_cfg) (fs : list src_file) (st : bool * list string) : bool * list string :=
  match fs with
  | [] => st
  | f :: r => run_files cfg r (if file_checked cfg f then print_file (fwarn f) st else st)
  end.
(* exit: os.Exit(exitCode) only when issues were found *)
Definition run (cfg : cli_cfg) (fs : list src_file) : Z * list string :=
  let st := run_files cfg fs (false, []) in
  ((if fst st then exit_code cfg else 0%Z), snd st).

(* closed forms used by the theorems *)
Definition file_lines (f : src_file) : list string :=
  flat_map (fun cw => map (fun w => fmt_line (fst w) (fst cw) (snd w)) (snd cw)) (fwarn f).
Definition all_lines (cfg : cli_cfg) (fs : list src_file) : list string :=
  flat_map (fun f => if file_checked cfg f then file_lines f else []) fs.

(* ---- what the CLI is shown versus what is on disk (round 5) ----
   checkPackage decides both filters on what the loader hands over: the name is
   filepath.Base(fset.Position(f.Pos()).Filename) — Position applies a //line directive in force at the
   package clause — and the comments are those of the COMPILED file: for a file importing "C" that is
   cmd/cgo's output, which starts with a generated-code marker of its own. *)
Fixpoint has_slash (s : string) : bool :=
  match s with EmptyString => false | String c r => Ascii.eqb c slash || has_slash r end.
(* filepath.Base for names without a trailing slash *)
Fixpoint base_name (s : string) : string :=
  match s with
  | EmptyString => EmptyString
  | String c r => if has_slash r then base_name r else if Ascii.eqb c slash then r else s
  end.

Record disk_file := {
  df_name : string;                 (* base name of the file on disk *)
  df_line_name : option string;     (* file name of a //line directive preceding the package clause *)
  df_cgo : bool;                    (* the file imports "C" *)
  df_groups : list string           (* comment-group texts of the file on disk *)
}.
Definition cgo_header : string := "Code generated by cmd/cgo; DO NOT EDIT." ++ String nl "".
Definition seen_name (f : disk_file) : string :=
  match df_line_name f with Some n => base_name n | None => df_name f end.
Definition seen_groups (f : disk_file) : list string :=
  if df_cgo f then cgo_header :: df_groups f else df_groups f.
Definition disk_file_checked (cfg : cli_cfg) (f : disk_file) : bool :=
  file_checked cfg {| fname := seen_name f; fgroups := seen_groups f; fwarn := [] |}.
(* the property's sentence, read on the file the user has on disk *)
Definition disk_file_wanted (cfg : cli_cfg) (f : disk_file) : bool :=
  negb (negb (check_tests cfg) && has_suffix "_test.go" (df_name f))
  && negb (negb (check_generated cfg) && is_generated_impl (df_groups f)).

(* what the operating system makes of os.Exit(n): the low eight bits *)
Definition os_status (z : Z) : Z := Z.modulo z 256.

(* parseArgs refuses an -exitCode value that no process can deliver; before the repair every value was taken *)
Definition parse_exit_code (z : Z) : option Z := if (0 <=? z)%Z && (z <=? 255)%Z then Some z else None.
Definition parse_exit_code_prefix (z : Z) : option Z := Some z.

(* ---- round 6: -v ----
   With -v the same global logger also prints lines that start with a tab and "debug: " (selection notices before
   the run, "checking <package>" between the files' diagnostics). The documented way to read the output is to drop
   those lines. *)
Definition debug_prefix : string := String (ascii_of_N 9) "debug: ".
Definition is_debug_line (l : string) : bool := has_prefix debug_prefix l.
Definition debug_line (msg : string) : string := debug_prefix ++ msg.
Definition strip_debug (ls : list string) : list string := filter (fun l => negb (is_debug_line l)) ls.

(* checkPackage with -v: one debug line per package, then the package's files *)
Fixpoint run_packages_verbose (verbose : bool) (cfg : cli_cfg) (pkgs : list (string * list src_file)) (st : bool * list string)
  : bool * list string :=
  match pkgs with
  | [] => st
  | (name, fs) :: r =>
      let st1 := if verbose then (fst st, (snd st ++ [debug_line ("checking " ++ name)])%list) else st in
      run_packages_verbose verbose cfg r (run_files cfg fs st1)
  end.
