(* Model_RegexText.v — C11, text level: the part of the concrete syntax in which the simplifier's re-lexing
   defects live, modelled after the lexer/parser the checker uses (github.com/quasilyte/regex/syntax,
   lexer.go: scanCharClass, scanEscape, repeatWidth; parser.go: parseCharClass, parseMinus).

   (1) class bodies:  text after `[` / `[^`  ->  tokens  ->  class items (OpChar, escapes, OpPosixClass,
       OpCharRange) — [lex_body], [parse_items], [parse_class];
   (2) literal runs:  text made of characters, escapes and `{n,m}`  ->  tokens — [lex_lits]
       (where `{`, digits, `,`, `}` and octal digits change meaning with their neighbours).
   \x \p \Q escapes, escaped non-ASCII runes and the operators are outside this sub-language ([None]).
   No proofs here. *)
From GC Require Import Base Model_Regex Model_RegexSimplify.
Local Open Scope string_scope.

Inductive tok :=
| TChar (v : string)            (* tokChar *)
| TMinus                        (* tokMinus, inside a class *)
| TPosix (v : string)           (* tokPosixClass: "[:name:]" *)
| TEsc (o : op) (v : string)    (* tokEscapeChar / tokEscapeMeta / tokEscapeOctal *)
| TRepeat (v : string).         (* tokRepeat: "{n}" "{n,}" "{n,m}" *)

Definition tok_text (t : tok) : string :=
  match t with TChar v | TPosix v | TEsc _ v | TRepeat v => v | TMinus => "-" end.
Fixpoint toks_text (ts : list tok) : string := match ts with [] => "" | t :: r => tok_text t ++ toks_text r end.

Definition b_of (a : ascii) : N := N_of_ascii a.
Definition is_oct (b : N) : bool := ((48 <=? b) && (b <=? 55))%N.
Definition is_dig (b : N) : bool := ((48 <=? b) && (b <=? 57))%N.
Definition s1 (a : ascii) : string := String a EmptyString.

(* utf8.DecodeRuneInString on well-formed text: the size is read off the lead byte; [None] for a continuation byte as
   lead or a truncated sequence (patterns are valid UTF-8) *)
Definition utf8_take (a : ascii) (r : string) : option (string * string) :=
  let b := b_of a in
  let n := if (b <? 192)%N then 0%nat else if (b <? 224)%N then 1%nat else if (b <? 240)%N then 2%nat else 3%nat in
  if Nat.eqb n 0 then None
  else if Nat.ltb (String.length r) n then None
  else Some (String a (substring 0 n r), drop n r).

(* reMetachar / charClassMetachar *)
Definition re_meta (b : N) : bool :=
  existsb (N.eqb b) [92; 124; 42; 43; 63; 46; 91; 93; 94; 36; 40; 41]%N.
Definition class_meta (b : N) : bool := ((b =? 45) || (b =? 93))%N.

(* scanEscape; s starts with the backslash *)
Definition lex_escape (inside : bool) (s : string) : option (tok * string) :=
  match s with
  | String bs (String a r) =>
      let b := b_of a in
      if (128 <=? b)%N then None
      else if ((b =? 112) || (b =? 80) || (b =? 120) || (b =? 81))%N then None       (* \p \P \x \Q *)
      else if is_oct b then
        match r with
        | String a2 r2 =>
            if is_oct (b_of a2) then
              match r2 with
              | String a3 r3 =>
                  if is_oct (b_of a3)
                  then Some (TEsc OpEscapeOctal (String bs (String a (String a2 (s1 a3)))), r3)
                  else Some (TEsc OpEscapeOctal (String bs (String a (s1 a2))), r2)
              | EmptyString => Some (TEsc OpEscapeOctal (String bs (String a (s1 a2))), r2)
              end
            else Some (TEsc OpEscapeOctal (String bs (s1 a)), r)
        | EmptyString => Some (TEsc OpEscapeOctal (String bs (s1 a)), r)
        end
      else
        let meta := if inside then class_meta b else re_meta b in
        Some (TEsc (if meta then OpEscapeMeta else OpEscapeChar) (String bs (s1 a)), r)
  | _ => None
  end.

(* strings.Index(s, ":]") : the text before it and the text after it *)
Fixpoint split_posix (s : string) : option (string * string) :=
  match s with
  | EmptyString => None
  | String a r =>
      match r with
      | String c r2 =>
          if ((b_of a =? 58) && (b_of c =? 93))%N then Some (EmptyString, r2)
          else match split_posix r with Some (n, rest) => Some (String a n, rest) | None => None end
      | EmptyString => None
      end
  end.

(* scanCharClass after the opening bracket and the special first `]`; stops after the closing `]` *)
Fixpoint lex_body (fuel : nat) (s : string) : option (list tok * string) :=
  match fuel with
  | O => None
  | S f =>
      match s with
      | EmptyString => None
      | String a r =>
          let b := b_of a in
          let cons_tok (t : tok) (rest : string) :=
            match lex_body f rest with Some (ts, out) => Some (t :: ts, out) | None => None end in
          if (128 <=? b)%N then
            match utf8_take a r with Some (v, rest) => cons_tok (TChar v) rest | None => None end
          else if (b =? 92)%N then
            match lex_escape true s with Some (t, rest) => cons_tok t rest | None => None end
          else if (b =? 91)%N then
            match r with
            | String c r1 =>
                if (b_of c =? 58)%N then
                  match split_posix r1 with
                  | Some (name, r2) => cons_tok (TPosix ("[:" ++ name ++ ":]")) r2
                  | None => cons_tok (TChar (s1 a)) r
                  end
                else cons_tok (TChar (s1 a)) r
            | EmptyString => cons_tok (TChar (s1 a)) r
            end
          else if (b =? 45)%N then cons_tok TMinus r
          else if (b =? 93)%N then Some ([], r)
          else cons_tok (TChar (s1 a)) r
      end
  end.

(* the whole class: "[" or "[^", the special first "]", the body *)
Definition lex_class (s : string) : option (bool * list tok * string) :=
  match s with
  | String a r =>
      if negb (b_of a =? 91)%N then None else
      let '(neg, r1) := match r with
                        | String c r' => if (b_of c =? 94)%N then (true, r') else (false, r)
                        | EmptyString => (false, r)
                        end in
      let '(first, r2) := match r1 with
                          | String c r' => if (b_of c =? 93)%N then ([TChar "]"], r') else ([], r1)
                          | EmptyString => ([], r1)
                          end in
      match lex_body (S (String.length r2)) r2 with
      | Some (ts, rest) => Some (neg, (first ++ ts)%list, rest)
      | None => None
      end
  | EmptyString => None
  end.

Definition tok_node (t : tok) : sx :=
  match t with
  | TChar v => X OpChar v []
  | TMinus => X OpChar "-" []
  | TPosix v => X OpPosixClass v []
  | TEsc o v => X o v [X OpString (drop 1 v) []]
  | TRepeat v => X OpString v []
  end.

(* isValidCharRangeOperand *)
Definition valid_operand (e : sx) : bool :=
  match e with
  | X OpEscapeHex _ _ | X OpEscapeOctal _ _ | X OpEscapeMeta _ _ | X OpChar _ _ => true
  | X OpEscapeChar v _ => mem v ["\\"; "\|"; "\*"; "\+"; "\?"; "\."; "\["; "\^"; "\$"; "\("; "\)"]
  | _ => false
  end.

(* parseCharClass with the infix parselet parseMinus: [left] is the expression parsed so far *)
Fixpoint parse_items (left : option sx) (toks : list tok) {struct toks} : list sx :=
  match toks with
  | [] => match left with Some l => [l] | None => [] end
  | t :: r =>
      match left with
      | None => parse_items (Some (tok_node t)) r
      | Some l =>
          match t with
          | TMinus =>
              if valid_operand l then
                match r with
                | [] => [l; X OpChar "-" []]
                | t2 :: r2 =>
                    parse_items (Some (X OpCharRange (print l ++ "-" ++ print (tok_node t2)) [l; tok_node t2])) r2
                end
              else l :: parse_items (Some (X OpChar "-" [])) r
          | _ => l :: parse_items (Some (tok_node t)) r
          end
      end
  end.

(* text of a class -> its node and the text after it *)
Definition parse_class (s : string) : option (sx * string) :=
  match lex_class s with
  | Some (neg, ts, rest) =>
      let txt := substring 0 (String.length s - String.length rest) s in
      Some (X (if neg then OpNegCharClass else OpCharClass) txt (parse_items None ts), rest)
  | None => None
  end.

(* ---------- literal runs ---------- *)
Fixpoint span_digits (s : string) : string * string :=
  match s with
  | String a r => if is_dig (b_of a) then let '(d, rest) := span_digits r in (String a d, rest) else (EmptyString, s)
  | EmptyString => (EmptyString, s)
  end.

(* repeatWidth: s is the text after "{"; the token body (without "{") and the rest *)
Definition lex_repeat (s : string) : option (string * string) :=
  let '(d1, r1) := span_digits s in
  match d1 with
  | EmptyString => None
  | _ =>
      match r1 with
      | String a r2 =>
          if (b_of a =? 125)%N then Some (d1 ++ "}", r2)
          else if (b_of a =? 44)%N then
            let '(d2, r3) := span_digits r2 in
            match r3 with
            | String c r4 => if (b_of c =? 125)%N then Some (d1 ++ "," ++ d2 ++ "}", r4) else None
            | EmptyString => None
            end
          else None
      | EmptyString => None
      end
  end.

Definition is_operator (b : N) : bool := existsb (N.eqb b) [46; 43; 42; 94; 36; 63; 41; 124; 91; 40]%N.

Fixpoint lex_lits (fuel : nat) (s : string) : option (list tok) :=
  match fuel with
  | O => None
  | S f =>
      match s with
      | EmptyString => Some []
      | String a r =>
          let b := b_of a in
          let cons_tok (t : tok) (rest : string) :=
            match lex_lits f rest with Some ts => Some (t :: ts) | None => None end in
          if (128 <=? b)%N then
            match utf8_take a r with Some (v, rest) => cons_tok (TChar v) rest | None => None end
          else if (b =? 92)%N then
            match lex_escape false s with Some (t, rest) => cons_tok t rest | None => None end
          else if (b =? 123)%N then
            match lex_repeat r with
            | Some (body, rest) => cons_tok (TRepeat (String a body)) rest
            | None => cons_tok (TChar (s1 a)) r
            end
          else if is_operator b then None
          else cons_tok (TChar (s1 a)) r
      end
  end.
Definition lex_literals (s : string) : option (list tok) := lex_lits (S (String.length s)) s.

(* ---------- the tokens a tree stands for (used by the tie and by the round-trip statements) ---------- *)
Definition leaf_tok (e : sx) : option tok :=
  match e with
  | X OpChar v _ => Some (if String.eqb v "-" then TMinus else TChar v)
  | X OpPosixClass v _ => Some (TPosix v)
  | X OpEscapeChar v _ => Some (TEsc OpEscapeChar v)
  | X OpEscapeMeta v _ => Some (TEsc OpEscapeMeta v)
  | X OpEscapeOctal v _ => Some (TEsc OpEscapeOctal v)
  | _ => None
  end.

Definition item_toks (e : sx) : option (list tok) :=
  match e with
  | X OpCharRange _ [lo; hi] =>
      match leaf_tok lo, leaf_tok hi with Some a, Some b => Some [a; TMinus; b] | _, _ => None end
  | _ => option_map (fun t => [t]) (leaf_tok e)
  end.

Fixpoint items_toks (l : list sx) : option (list tok) :=
  match l with
  | [] => Some []
  | e :: r => match item_toks e, items_toks r with Some a, Some b => Some (a ++ b)%list | _, _ => None end
  end.

(* a concatenation of literal atoms, each possibly carrying a {n,m} *)
Definition lit_toks1 (e : sx) : option (list tok) :=
  match e with
  | X OpRepeat _ [x; X OpString rv _] =>
      match leaf_tok x with Some (TMinus) => Some [TChar "-"; TRepeat rv] | Some t => Some [t; TRepeat rv] | None => None end
  | X OpChar v _ => Some [TChar v]
  | _ => option_map (fun t => [t]) (leaf_tok e)
  end.
Fixpoint lits_toks (l : list sx) : option (list tok) :=
  match l with
  | [] => Some []
  | e :: r => match lit_toks1 e, lits_toks r with Some a, Some b => Some (a ++ b)%list | _, _ => None end
  end.

(* ---------- tie: every class node / literal concatenation of a parser tree re-parses from its own Value ---------- *)
Definition tok_eqb (a b : tok) : bool :=
  match a, b with
  | TChar x, TChar y | TPosix x, TPosix y | TRepeat x, TRepeat y => String.eqb x y
  | TMinus, TMinus => true
  | TEsc o1 x, TEsc o2 y => op_eqb o1 o2 && String.eqb x y
  | _, _ => false
  end.

(* 0 = not in the sub-language, 1 = agrees, 2 = DISAGREES *)
Definition node_text_check (e : sx) : N :=
  match e with
  | X OpCharClass v items | X OpNegCharClass v items =>
      match parse_class v with
      | Some (X o v' items', rest) =>
          if String.eqb rest "" && op_eqb o (sx_op e) && String.eqb v' v && list_eqb sx_eqb items' items then 1%N else 2%N
      | None => 0%N
      end
  | X OpConcat v args =>
      match lits_toks args with
      | Some ts => match lex_literals v with
                   | Some ts' => if list_eqb tok_eqb ts' ts then 1%N else 2%N
                   | None => 0%N
                   end
      | None => 0%N
      end
  | _ => 0%N
  end.

Fixpoint text_checks (e : sx) : list N :=
  match e with
  | X _ _ args =>
      node_text_check e :: (fix go (l : list sx) : list N := match l with [] => [] | x :: r => (text_checks x ++ go r)%list end) args
  end.
Definition text_tie_ok (e : sx) : bool := negb (existsb (N.eqb 2) (text_checks e)).
Definition text_tie_count (e : sx) : N := N.of_nat (List.length (filter (N.eqb 1) (text_checks e))).
