(* Proofs_RegexSimplify.v — C11: the overall theorem that was reached, and the refutations.

   WHAT IS PROVED HERE
   * [norm] is a normaliser of semantic expressions built from the per-rule lemmas of Proofs_RegexRules
     (flattening of concatenations, x? = x|ε, xx* = x+ for consuming x, union of one-rune alternatives,
     enumeration of small ranges, [^item] = negated item, distribution of alternation over concatenation)
     with  norm e ≈ e  for every e.
   * [certified e] is the decidable predicate "the elaboration of the tree the simplifier produces and the
     elaboration of the original tree have the same normal form and leave the same elaboration state
     (flags, number and names of capture groups)".
   * simplify_sound_certified : certified e = true -> den (simp_ast e) and den e are ≈, for ALL subjects,
     positions, capture registers and continuations; hence the same FindStringSubmatchIndex vector.
   * for every defect class a refutation with a concrete (tree, subject) witness, by vm_compute.

   STATUS OF THE GAP named in the first version of this file: the induction over [walk_a] now exists for the
   capture-free, flag-free fragment (Proofs_RegexWalk.walk_sound / simplify_sound_fragment), with syntactic
   guards.  [certified] remains the route for trees with captures or flags and for prefix/suffix factoring.
   Still not a theorem: that Go's regexp parses the TEXT of the rewrite to the tree [simp_ast] (the re-lexing
   defects live there); the tie checks it per case by certifying den(pattern tree) against den(parse(final text)).
   The *_prefix_refuted lemmas are about the simplifier before the fix commits (walk false). *)
From GC Require Import Base Model_Regex Model_RegexSimplify Proofs_Regex Proofs_RegexRules.
Local Open Scope nat_scope.

(* the dialect is a parameter of the claim: a diagnostic is only ever issued where the pattern is compiled
   in the Perl dialect, the one the matcher model and the theorems are about *)
Lemma diagnostics_only_at_perl_sites call : reacts call = true -> call_dialect call = Some Perl.
Proof.
  unfold reacts. intros H. apply mem_In in H. unfold reacting_calls in H. cbn [In] in H.
  destruct H as [<-|[<-|[]]]; reflexivity.
Qed.

(* ------------------------------------------------------------------ *)
(* decidable equality on rx                                             *)

Definition pair_eqb (a b : N * N) : bool := N.eqb (fst a) (fst b) && N.eqb (snd a) (snd b).
Definition citem_eqb (a b : citem) : bool :=
  match a, b with CI n1 r1, CI n2 r2 => Bool.eqb n1 n2 && list_eqb pair_eqb r1 r2 end.
Definition cls_eqb (a b : cls) : bool :=
  Bool.eqb (c_neg a) (c_neg b) && Bool.eqb (c_fold a) (c_fold b) && list_eqb citem_eqb (c_items a) (c_items b).
Definition assertion_eqb (a b : assertion) : bool :=
  match a, b with
  | ABeginText, ABeginText | AEndText, AEndText | ABeginLine, ABeginLine | AEndLine, AEndLine
  | AWordB, AWordB | ANoWordB, ANoWordB => true
  | _, _ => false
  end.

Fixpoint rx_eqb (a b : rx) : bool :=
  match a, b with
  | REmpty, REmpty => true
  | RSet c1, RSet c2 => cls_eqb c1 c2
  | RAssert x, RAssert y => assertion_eqb x y
  | RCat a1 a2, RCat b1 b2 => rx_eqb a1 b1 && rx_eqb a2 b2
  | RAlt a1 a2, RAlt b1 b2 => rx_eqb a1 b1 && rx_eqb a2 b2
  | RStar g1 a1, RStar g2 b1 => Bool.eqb g1 g2 && rx_eqb a1 b1
  | RPlus g1 a1, RPlus g2 b1 => Bool.eqb g1 g2 && rx_eqb a1 b1
  | RQuest g1 a1, RQuest g2 b1 => Bool.eqb g1 g2 && rx_eqb a1 b1
  | RGroup n1 a1, RGroup n2 b1 => Nat.eqb n1 n2 && rx_eqb a1 b1
  | _, _ => false
  end.

Lemma pair_eqb_eq a b : pair_eqb a b = true <-> a = b.
Proof.
  destruct a as [a1 a2], b as [b1 b2]. unfold pair_eqb. simpl.
  rewrite andb_true_iff, !N.eqb_eq. split; [intros [-> ->]; reflexivity|intros H; inversion H; auto].
Qed.

Lemma citem_eqb_eq a b : citem_eqb a b = true <-> a = b.
Proof.
  destruct a as [n1 r1], b as [n2 r2]. simpl.
  rewrite andb_true_iff, Bool.eqb_true_iff, (list_eqb_eq pair_eqb pair_eqb_eq).
  split; [intros [-> ->]; reflexivity|intros H; inversion H; auto].
Qed.

Lemma cls_eqb_eq a b : cls_eqb a b = true -> a = b.
Proof.
  destruct a as [n1 f1 i1], b as [n2 f2 i2]. unfold cls_eqb. simpl.
  rewrite !andb_true_iff, !Bool.eqb_true_iff, (list_eqb_eq citem_eqb citem_eqb_eq).
  intros [[-> ->] ->]. reflexivity.
Qed.

Lemma assertion_eqb_eq a b : assertion_eqb a b = true -> a = b.
Proof. destruct a, b; simpl; congruence. Qed.

Lemma rx_eqb_eq a : forall b, rx_eqb a b = true -> a = b.
Proof.
  induction a as [|c|x|a1 IH1 a2 IH2|a1 IH1 a2 IH2|g a1 IH1|g a1 IH1|g a1 IH1|n a1 IH1]; intros b H;
    destruct b; simpl in H; try discriminate.
  - reflexivity.
  - f_equal. apply cls_eqb_eq. exact H.
  - f_equal. apply assertion_eqb_eq. exact H.
  - apply andb_true_iff in H as [H1 H2]. f_equal; auto.
  - apply andb_true_iff in H as [H1 H2]. f_equal; auto.
  - apply andb_true_iff in H as [H1 H2]. apply Bool.eqb_prop in H1. subst. f_equal. apply IH1. exact H2.
  - apply andb_true_iff in H as [H1 H2]. apply Bool.eqb_prop in H1. subst. f_equal. apply IH1. exact H2.
  - apply andb_true_iff in H as [H1 H2]. apply Bool.eqb_prop in H1. subst. f_equal. apply IH1. exact H2.
  - apply andb_true_iff in H as [H1 H2]. apply Nat.eqb_eq in H1. subst. f_equal. apply IH1. exact H2.
Qed.

(* ------------------------------------------------------------------ *)
(* the normaliser                                                        *)

(* classes: small ranges enumerated; a negated class of one item is the negated item *)
Definition expand_item (it : citem) : list citem :=
  match it with
  | CI false [(a, b)] =>
      if N.eqb b (a + 1) then [CI false [(a, a)]; CI false [(a + 1, a + 1)%N]]
      else if N.eqb b (a + 2) then [CI false [(a, a)]; CI false [(a + 1, a + 1)%N]; CI false [(a + 2, a + 2)%N]]
      else [it]
  | _ => [it]
  end.

Definition norm_cls (c : cls) : cls :=
  let items := flat_map expand_item (c_items c) in
  match c_neg c, items with
  | true, [CI n rs] => {| c_neg := false; c_fold := c_fold c; c_items := [CI (negb n) rs] |}
  | _, _ => {| c_neg := c_neg c; c_fold := c_fold c; c_items := items |}
  end.

(* alternation: right-nested; two positive one-rune sets with the same fold flag are united *)
Definition alt2 (a b : rx) : rx :=
  match a, b with
  | RSet c1, RSet c2 =>
      if negb (c_neg c1) && negb (c_neg c2) && Bool.eqb (c_fold c1) (c_fold c2)
      then RSet {| c_neg := false; c_fold := c_fold c1; c_items := c_items c1 ++ c_items c2 |}
      else RAlt a b
  | _, _ => RAlt a b
  end.

Fixpoint alt_app (a b : rx) : rx :=
  match a with
  | RAlt a1 a2 => RAlt a1 (alt_app a2 b)
  | _ => alt2 a b
  end.

(* concatenation of one node x with an already normalised right part *)
Fixpoint cat_node (x : rx) (b : rx) {struct b} : rx :=
  match b with
  | REmpty => x
  | RStar g y => if rx_eqb x y && consumes x then RPlus g x else RCat x b
  | RCat (RStar g y) rest => if rx_eqb x y && consumes x then RCat (RPlus g x) rest else RCat x b
  | RAlt b1 b2 =>
      match x with
      | RSet _ => RAlt (cat_node x b1) (cat_node x b2)      (* a one-rune set distributes over an alternation *)
      | _ => RCat x b
      end
  | _ => RCat x b
  end.

Fixpoint cat_app (a b : rx) : rx :=
  match a with
  | REmpty => b
  | RCat a1 a2 => cat_node a1 (cat_app a2 b)
  | RAlt a1 a2 => alt_app (cat_app a1 b) (cat_app a2 b)     (* (a1|a2)b = a1 b|a2 b *)
  | _ => cat_node a b
  end.

Fixpoint norm (e : rx) : rx :=
  match e with
  | REmpty => REmpty
  | RSet c => RSet (norm_cls c)
  | RAssert a => RAssert a
  | RCat a b => cat_app (norm a) (norm b)
  | RAlt a b => alt_app (norm a) (norm b)
  | RQuest g a => if g then alt_app (norm a) REmpty else alt_app REmpty (norm a)
  | RStar g a => RStar g (norm a)
  | RPlus g a => RPlus g (norm a)
  | RGroup n a => RGroup n (norm a)
  end.

(* ---------- soundness of the pieces ---------- *)

Lemma expand_item_sound fold r it : existsb (in_item fold r) (expand_item it) = in_item fold r it.
Proof.
  destruct it as [n rs]. destruct n; [simpl; apply orb_false_r|].
  destruct rs as [|[a b] [|q rs]]; try (simpl; apply orb_false_r).
  unfold expand_item.
  destruct (N.eqb_spec b (a + 1)) as [->|_].
  - cbn [existsb]. rewrite orb_false_r. symmetry. apply in_item_range2.
  - destruct (N.eqb_spec b (a + 2)) as [->|_].
    + cbn [existsb]. rewrite orb_false_r, orb_assoc. symmetry. apply in_item_range3.
    + simpl. apply orb_false_r.
Qed.

Lemma expand_items_sound fold r items :
  existsb (in_item fold r) (flat_map expand_item items) = existsb (in_item fold r) items.
Proof.
  induction items as [|it items IH]; [reflexivity|].
  cbn [flat_map existsb]. rewrite existsb_app, expand_item_sound, IH. reflexivity.
Qed.

Lemma norm_cls_sound c r : in_cls (norm_cls c) r = in_cls c r.
Proof.
  destruct c as [neg fold items]. unfold norm_cls. cbn [c_neg c_fold c_items].
  assert (E := expand_items_sound fold r items).
  destruct neg.
  - destruct (flat_map expand_item items) as [|[n rs] [|q l]] eqn:Ef.
    + unfold in_cls. cbn [c_neg c_fold c_items]. rewrite <- E. reflexivity.
    + unfold in_cls. cbn [c_neg c_fold c_items]. rewrite <- E. cbn [existsb]. unfold in_item.
      destruct n, (existsb (in_ranges rs) (orbit fold r)); reflexivity.
    + unfold in_cls. cbn [c_neg c_fold c_items]. rewrite <- E. reflexivity.
  - unfold in_cls. cbn [c_neg c_fold c_items]. rewrite E. reflexivity.
Qed.

Lemma alt2_sound a b : alt2 a b ≈ RAlt a b.
Proof.
  unfold alt2. destruct a; try apply req_refl. destruct b; try apply req_refl.
  destruct (negb (c_neg c) && negb (c_neg c0) && Bool.eqb (c_fold c) (c_fold c0)) eqn:E; [|apply req_refl].
  apply andb_true_iff in E as [E Ef]. apply andb_true_iff in E as [E1 E2].
  apply negb_true_iff in E1. apply negb_true_iff in E2. apply Bool.eqb_prop in Ef.
  apply req_sym. apply alt_sets. intros r. unfold in_cls. cbn [c_neg c_fold c_items].
  rewrite E1, E2, <- Ef, !xorb_false_l. apply existsb_app.
Qed.

Lemma alt_app_sound a b : alt_app a b ≈ RAlt a b.
Proof.
  induction a; try apply alt2_sound.
  simpl. eapply req_trans; [apply req_alt; [apply req_refl|apply IHa2]|]. apply req_sym, alt_assoc.
Qed.

Lemma cat_node_sound x b : cat_node x b ≈ RCat x b.
Proof.
  revert x. induction b as [|c|a|b1 IH1 b2 IH2|b1 IH1 b2 IH2|g b IH|g b IH|g b IH|n b IH]; intros x; simpl;
    try apply req_refl.
  - apply req_sym, cat_empty_r.
  - destruct b1; try apply req_refl.
    destruct (rx_eqb x b1 && consumes x) eqn:E; [|apply req_refl].
    apply andb_true_iff in E as [E Hc]. apply rx_eqb_eq in E. subst b1.
    eapply req_trans; [apply req_cat; [apply req_sym, (merge_x_xstar_plus greedy x Hc)|apply req_refl]|].
    apply cat_assoc.
  - destruct x; try apply req_refl.
    eapply req_trans; [apply req_alt; [apply IH1|apply IH2]|]. apply alt_factor_set.
  - destruct (rx_eqb x b && consumes x) eqn:E; [|apply req_refl].
    apply andb_true_iff in E as [E Hc]. apply rx_eqb_eq in E. subst b.
    apply req_sym, merge_x_xstar_plus. exact Hc.
Qed.

Lemma cat_alt_distr a1 a2 b : RCat (RAlt a1 a2) b ≈ RAlt (RCat a1 b) (RCat a2 b).
Proof. intros R p s i c k. reflexivity. Qed.

Lemma cat_app_sound a b : cat_app a b ≈ RCat a b.
Proof.
  induction a; simpl; try apply cat_node_sound.
  - apply req_sym, cat_empty_l.
  - eapply req_trans; [apply cat_node_sound|].
    eapply req_trans; [apply req_cat; [apply req_refl|apply IHa2]|]. apply req_sym, cat_assoc.
  - eapply req_trans; [apply alt_app_sound|].
    eapply req_trans; [apply req_alt; [apply IHa1|apply IHa2]|]. apply req_sym, cat_alt_distr.
Qed.

Theorem norm_sound e : norm e ≈ e.
Proof.
  induction e as [|c|a|a IHa b IHb|a IHa b IHb|g a IHa|g a IHa|g a IHa|n a IHa]; simpl.
  - apply req_refl.
  - apply rset_ext. apply norm_cls_sound.
  - apply req_refl.
  - eapply req_trans; [apply cat_app_sound|]. apply req_cat; assumption.
  - eapply req_trans; [apply alt_app_sound|]. apply req_alt; assumption.
  - apply req_star; assumption.
  - apply req_plus; assumption.
  - destruct g.
    + eapply req_trans; [apply alt_app_sound|].
      eapply req_trans; [apply req_alt; [exact IHa|apply req_refl]|]. apply req_sym, (quest_alt true).
    + eapply req_trans; [apply req_alt; [apply req_refl|exact IHa]|]. apply req_sym, (quest_alt false).
  - apply req_group; assumption.
Qed.

Corollary norm_eq_req a b : rx_eqb (norm a) (norm b) = true -> a ≈ b.
Proof.
  intros H. apply rx_eqb_eq in H.
  eapply req_trans; [apply req_sym, norm_sound|]. rewrite H. apply norm_sound.
Qed.

(* ------------------------------------------------------------------ *)
(* certified rewrites                                                    *)

Definition flags_eqb (a b : flags) : bool :=
  Bool.eqb (f_i a) (f_i b) && Bool.eqb (f_m a) (f_m b) && Bool.eqb (f_s a) (f_s b) && Bool.eqb (f_U a) (f_U b).
Definition dst_eqb (a b : dst) : bool :=
  flags_eqb (d_fl a) (d_fl b) && Nat.eqb (d_next a) (d_next b) && list_eqb String.eqb (d_names a) (d_names b).

Lemma dst_eqb_eq a b : dst_eqb a b = true -> a = b.
Proof.
  destruct a as [[i1 m1 s1 u1] n1 l1], b as [[i2 m2 s2 u2] n2 l2]. unfold dst_eqb, flags_eqb. simpl.
  rewrite !andb_true_iff, !Bool.eqb_true_iff, Nat.eqb_eq, (list_eqb_eq String.eqb String.eqb_eq).
  intros [[[[[-> ->] ->] ->] ->] ->]. reflexivity.
Qed.

(* two trees elaborate, from the initial state, to equivalent expressions with the same groups *)
Definition same_meaning (e1 e2 : sx) : bool :=
  match den e1 dst0, den e2 dst0 with
  | Some (a, s1), Some (b, s2) => rx_eqb (norm a) (norm b) && dst_eqb s1 s2 && loops_ok a && loops_ok b
  | _, _ => false
  end.

Definition certified (e : sx) : bool := same_meaning e (simp_ast e).

Theorem same_meaning_sound e1 e2 : same_meaning e1 e2 = true ->
  exists a b st, den e1 dst0 = Some (a, st) /\ den e2 dst0 = Some (b, st) /\ a ≈ b.
Proof.
  unfold same_meaning. destruct (den e1 dst0) as [[a s1]|]; [|discriminate].
  destruct (den e2 dst0) as [[b s2]|]; [|discriminate].
  intros H. apply andb_true_iff in H as [H _]. apply andb_true_iff in H as [H _].
  apply andb_true_iff in H as [H1 H2]. apply dst_eqb_eq in H2. subst s2.
  exists a, b, s1. repeat split. apply norm_eq_req. exact H1.
Qed.

(* the statement in the vocabulary of the property: same number of groups, same names, and for every subject
   the same FindStringSubmatchIndex vector *)
Theorem same_meaning_find e1 e2 : same_meaning e1 e2 = true ->
  exists a b n names, den_top e1 = Some (a, n, names) /\ den_top e2 = Some (b, n, names) /\ a ≈ b /\
                      forall subject, find_go e1 subject = find_go e2 subject.
Proof.
  intros H. destruct (same_meaning_sound e1 e2 H) as (a & b & st & H1 & H2 & Hab).
  exists a, b, (d_next st - 1), (rev (d_names st)).
  unfold den_top, find_go, den_top. rewrite H1, H2. repeat split; try exact Hab.
  intros subject. rewrite (req_find a b Hab). reflexivity.
Qed.

Theorem simplify_sound_certified e : certified e = true ->
  exists a b n names, den_top e = Some (a, n, names) /\ den_top (simp_ast e) = Some (b, n, names) /\ a ≈ b /\
                      forall subject, find_go e subject = find_go (simp_ast e) subject.
Proof. apply same_meaning_find. Qed.

(* certified is satisfiable, on the very example of the checker's documentation (first pass) *)
Definition doc_example : sx :=
  X OpConcat "(?:a|b|c)   [a-z][a-z]*"
    [X OpGroup "(?:a|b|c)" [X OpAlt "a|b|c" [X OpChar "a" []; X OpChar "b" []; X OpChar "c" []]];
     X OpChar " " []; X OpChar " " []; X OpChar " " [];
     X OpCharClass "[a-z]" [X OpCharRange "a-z" [X OpChar "a" []; X OpChar "z" []]];
     X OpStar "[a-z]*" [X OpCharClass "[a-z]" [X OpCharRange "a-z" [X OpChar "a" []; X OpChar "z" []]]]].

Example doc_example_text : simp_text doc_example = "(?:[abc]) {3}[a-z]+".
Proof. vm_compute. reflexivity. Qed.
Example doc_example_certified : certified doc_example = true.
Proof. vm_compute. reflexivity. Qed.

(* ------------------------------------------------------------------ *)
(* refutations: one concrete (tree, subject) per defect class                                           *)

Definition differ (e1 e2 : sx) (subject : string) : Prop := find_go e1 subject <> find_go e2 subject.

(* 1. [[:space:]] => \s   (and [^[:space:]] => \S): \v *)
Definition t_posix_space := X OpCharClass "[[:space:]]" [X OpPosixClass "[:space:]" []].
Lemma posix_space_class_refuted :
  simp_text t_posix_space = "\s" /\ differ t_posix_space (simp_ast t_posix_space) (bs [11%N]).
Proof. split; [vm_compute; reflexivity|vm_compute; discriminate]. Qed.

Definition t_neg_posix_space := X OpNegCharClass "[^[:space:]]" [X OpPosixClass "[:space:]" []].
Lemma neg_posix_space_class_refuted :
  simp_text t_neg_posix_space = "\S" /\ differ t_neg_posix_space (simp_ast t_neg_posix_space) (bs [11%N]).
Proof. split; [vm_compute; reflexivity|vm_compute; discriminate]. Qed.

(* 2. [][] => \]\[ *)
Definition t_brackets := X OpCharClass "[][]" [X OpChar "]" []; X OpChar "[" []].
Lemma class_brackets_refuted :
  simp_text t_brackets = "\]\[" /\ differ t_brackets (simp_ast t_brackets) "[".
Proof. split; [vm_compute; reflexivity|vm_compute; discriminate]. Qed.

(* 3. fo|foo => foo? *)
Definition t_prefix :=
  X OpAlt "fo|foo" [X OpConcat "fo" [X OpChar "f" []; X OpChar "o" []];
                    X OpConcat "foo" [X OpChar "f" []; X OpChar "o" []; X OpChar "o" []]].
Lemma alt_prefix_order_refuted :
  simp_text t_prefix = "foo?" /\ differ t_prefix (simp_ast t_prefix) "foo".
Proof. split; [vm_compute; reflexivity|vm_compute; discriminate]. Qed.

(* 3b. (?U:abc|ab) => (?U:abc?) : under the U flag the factored "?" is non-greedy *)
Definition t_prefix_U :=
  X OpGroupWithFlags "(?U:abc|ab)"
    [X OpAlt "abc|ab" [X OpConcat "abc" [X OpChar "a" []; X OpChar "b" []; X OpChar "c" []];
                       X OpConcat "ab" [X OpChar "a" []; X OpChar "b" []]];
     X OpString "U" []].
Lemma alt_factoring_under_ungreedy_flag_refuted :
  simp_text t_prefix_U = "(?U:abc?)" /\ differ t_prefix_U (simp_ast t_prefix_U) "abc".
Proof. split; [vm_compute; reflexivity|vm_compute; discriminate]. Qed.

(* 4. (a){0}b => b : a capture group disappears *)
Definition t_zero_cap :=
  X OpConcat "(a){0}b" [X OpRepeat "(a){0}" [X OpCapture "(a)" [X OpChar "a" []]; X OpString "{0}" []]; X OpChar "b" []].
Lemma capture_under_zero_repeat_prefix_refuted :
  simp_text_prefix t_zero_cap = "b" /\
  option_map (fun x => snd (fst x)) (den_top t_zero_cap) = Some 1 /\
  option_map (fun x => snd (fst x)) (den_top (simp_ast_prefix t_zero_cap)) = Some 0.
Proof. split; [|split]; vm_compute; reflexivity. Qed.

(* 5. (?:(a))(?:(a)) => (?:(a)){2} and (?:(a))(?:(a))* => (?:(a))+ : two groups become one *)
Definition t_gcap := X OpGroup "(?:(a))" [X OpCapture "(a)" [X OpChar "a" []]].
Definition t_fold_cap := X OpConcat "(?:(a))(?:(a))" [t_gcap; t_gcap].
Lemma capture_in_folded_group_prefix_refuted :
  simp_text_prefix t_fold_cap = "(?:(a)){2}" /\
  option_map (fun x => snd (fst x)) (den_top t_fold_cap) = Some 2 /\
  option_map (fun x => snd (fst x)) (den_top (simp_ast_prefix t_fold_cap)) = Some 1.
Proof. split; [|split]; vm_compute; reflexivity. Qed.

Definition t_merge_cap := X OpConcat "(?:(a))(?:(a))*" [t_gcap; X OpStar "(?:(a))*" [t_gcap]].
Lemma capture_in_merged_group_prefix_refuted :
  simp_text_prefix t_merge_cap = "(?:(a))+" /\
  option_map (fun x => snd (fst x)) (den_top t_merge_cap) = Some 2 /\
  option_map (fun x => snd (fst x)) (den_top (simp_ast_prefix t_merge_cap)) = Some 1.
Proof. split; [|split]; vm_compute; reflexivity. Qed.

(* 6. "xx-star => x-plus" when x can match the empty string; x = non-capturing group of s-star-nongreedy b-star, subject "bs" *)
Definition t_nullable_body :=
  X OpGroup "(?:s*?b*)" [X OpConcat "s*?b*" [X OpNonGreedy "s*?" [X OpStar "s*" [X OpChar "s" []]]; X OpStar "b*" [X OpChar "b" []]]].
Definition t_merge_nullable :=
  X OpConcat "(?:s*?b*)(?:s*?b*)*" [t_nullable_body; X OpStar "(?:s*?b*)*" [t_nullable_body]].
Lemma merge_of_nullable_group_refuted :
  simp_text t_merge_nullable = "(?:s*?b*)+" /\ differ t_merge_nullable (simp_ast t_merge_nullable) "bs".
Proof. split; [vm_compute; reflexivity|vm_compute; discriminate]. Qed.

(* 7. (?i:a)[b] => (i:a)b : the group with flags is printed without "?" *)
Definition t_flag_group :=
  X OpConcat "(?i:a)[b]" [X OpGroupWithFlags "(?i:a)" [X OpChar "a" []; X OpString "i" []]; X OpCharClass "[b]" [X OpChar "b" []]].
Lemma flag_group_loses_question_mark_prefix_refuted :
  simp_text_prefix t_flag_group = "(i:a)b" /\ differ t_flag_group (simp_ast_prefix t_flag_group) "ab".
Proof. split; [vm_compute; reflexivity|vm_compute; discriminate]. Qed.

(* The remaining classes are about the TEXT: the tree below named *_after is the real parser's tree of the
   text the simplifier emits (dumped by the harness; the tie re-checks this correspondence on every run). *)

(* 8. a{1}?b => a?b : the non-greedy marker survives the dropped repeat *)
Definition t_ng := X OpConcat "a{1}?b"
  [X OpNonGreedy "a{1}?" [X OpRepeat "a{1}" [X OpChar "a" []; X OpString "{1}" []]]; X OpChar "b" []].
Definition t_ng_after := X OpConcat "a?b" [X OpQuestion "a?" [X OpChar "a" []]; X OpChar "b" []].
Lemma nongreedy_over_dropped_repeat_prefix_refuted :
  simp_text_prefix t_ng = "a?b" /\ print t_ng_after = "a?b" /\ differ t_ng t_ng_after "b".
Proof. split; [|split]; [vm_compute; reflexivity|vm_compute; reflexivity|vm_compute; discriminate]. Qed.

(* 9. a|-|c => [a-c] *)
Definition t_dash := X OpAlt "a|-|c" [X OpChar "a" []; X OpChar "-" []; X OpChar "c" []].
Definition t_dash_after := X OpCharClass "[a-c]" [X OpCharRange "a-c" [X OpChar "a" []; X OpChar "c" []]].
Lemma alt_to_class_dash_prefix_refuted :
  simp_text_prefix t_dash = "[a-c]" /\ print t_dash_after = "[a-c]" /\ differ t_dash t_dash_after "-".
Proof. split; [|split]; [vm_compute; reflexivity|vm_compute; reflexivity|vm_compute; discriminate]. Qed.

(* 10. a|] => [a]] *)
Definition t_brk := X OpAlt "a|]" [X OpChar "a" []; X OpChar "]" []].
Definition t_brk_after := X OpConcat "[a]]" [X OpCharClass "[a]" [X OpChar "a" []]; X OpChar "]" []].
Lemma alt_to_class_bracket_prefix_refuted :
  simp_text_prefix t_brk = "[a]]" /\ print t_brk_after = "[a]]" /\ differ t_brk t_brk_after "a".
Proof. split; [|split]; [vm_compute; reflexivity|vm_compute; reflexivity|vm_compute; discriminate]. Qed.

(* 11. a[{]1} => a{1} *)
Definition t_unwrap := X OpConcat "a[{]1}"
  [X OpChar "a" []; X OpCharClass "[{]" [X OpChar "{" []]; X OpChar "1" []; X OpChar "}" []].
Definition t_unwrap_after := X OpRepeat "a{1}" [X OpChar "a" []; X OpString "{1}" []].
Lemma unwrap_class_creates_repeat_prefix_refuted :
  simp_text_prefix t_unwrap = "a{1}" /\ print t_unwrap_after = "a{1}" /\ differ t_unwrap t_unwrap_after "a".
Proof. split; [|split]; [vm_compute; reflexivity|vm_compute; reflexivity|vm_compute; discriminate]. Qed.

(* 11b. still open after the fixes: a(?:{)2} => a{2} (group unwrapping) *)
Definition t_unwrap_g := X OpConcat "a(?:{)2}"
  [X OpChar "a" []; X OpGroup "(?:{)" [X OpChar "{" []]; X OpChar "2" []; X OpChar "}" []].
Definition t_unwrap_g_after := X OpRepeat "a{2}" [X OpChar "a" []; X OpString "{2}" []].
Lemma unwrap_creates_repeat_refuted :
  simp_text t_unwrap_g = "a{2}" /\ print t_unwrap_g_after = "a{2}" /\ differ t_unwrap_g t_unwrap_g_after "aa".
Proof. split; [|split]; [vm_compute; reflexivity|vm_compute; reflexivity|vm_compute; discriminate]. Qed.

(* 12. a{1\,2} => a{1,2} *)
Definition t_esc_rep := X OpConcat "a{1\,2}"
  [X OpChar "a" []; X OpChar "{" []; X OpChar "1" []; X OpEscapeChar "\," [X OpString "," []]; X OpChar "2" []; X OpChar "}" []].
Definition t_esc_rep_after := X OpRepeat "a{1,2}" [X OpChar "a" []; X OpString "{1,2}" []].
Lemma escape_removal_creates_repeat_refuted :
  simp_text t_esc_rep = "a{1,2}" /\ print t_esc_rep_after = "a{1,2}" /\ differ t_esc_rep t_esc_rep_after "a".
Proof. split; [|split]; [vm_compute; reflexivity|vm_compute; reflexivity|vm_compute; discriminate]. Qed.

(* 13. [[\:alpha:]] => [[:alpha:]] *)
Definition t_esc_posix := X OpConcat "[[\:alpha:]]"
  [X OpCharClass "[[\:alpha:]" [X OpChar "[" []; X OpEscapeChar "\:" [X OpString ":" []]; X OpChar "a" []; X OpChar "l" []; X OpChar "p" [];
                               X OpChar "h" []; X OpChar "a" []; X OpChar ":" []]; X OpChar "]" []].
Definition t_esc_posix_after := X OpCharClass "[[:alpha:]]" [X OpPosixClass "[:alpha:]" []].
Lemma escape_removal_creates_posix_class_refuted :
  simp_text t_esc_posix = "[[:alpha:]]" /\ print t_esc_posix_after = "[[:alpha:]]" /\ differ t_esc_posix t_esc_posix_after "b".
Proof. split; [|split]; [vm_compute; reflexivity|vm_compute; reflexivity|vm_compute; discriminate]. Qed.

(* 14. [+--x] => [+,-x] *)
Definition t_rng := X OpCharClass "[+--x]" [X OpCharRange "+--" [X OpChar "+" []; X OpChar "-" []]; X OpChar "x" []].
Definition t_rng_after := X OpCharClass "[+,-x]" [X OpChar "+" []; X OpCharRange ",-x" [X OpChar "," []; X OpChar "x" []]].
Lemma range_enumeration_dash_bound_prefix_refuted :
  simp_text_prefix t_rng = "[+,-x]" /\ print t_rng_after = "[+,-x]" /\ differ t_rng t_rng_after "[".
Proof. split; [|split]; [vm_compute; reflexivity|vm_compute; reflexivity|vm_compute; discriminate]. Qed.

(* 14b. still open after the fixes: [a-b-x] => [ab-x] (the enumerated range is FOLLOWED by a dash) *)
Definition t_rng2 := X OpCharClass "[a-b-x]" [X OpCharRange "a-b" [X OpChar "a" []; X OpChar "b" []]; X OpChar "-" []; X OpChar "x" []].
Definition t_rng2_after := X OpCharClass "[ab-x]" [X OpChar "a" []; X OpCharRange "b-x" [X OpChar "b" []; X OpChar "x" []]].
Lemma range_enumeration_creates_range_refuted :
  simp_text t_rng2 = "[ab-x]" /\ print t_rng2_after = "[ab-x]" /\ differ t_rng2 t_rng2_after "c".
Proof. split; [|split]; [vm_compute; reflexivity|vm_compute; reflexivity|vm_compute; discriminate]. Qed.

(* 15. \0(?:1) => \01 *)
Definition t_oct := X OpConcat "\0(?:1)" [X OpEscapeOctal "\0" [X OpString "0" []]; X OpGroup "(?:1)" [X OpChar "1" []]].
Definition t_oct_after := X OpEscapeOctal "\01" [X OpString "01" []].
Lemma unwrap_joins_octal_escape_refuted :
  simp_text t_oct = "\01" /\ print t_oct_after = "\01" /\ differ t_oct t_oct_after (bs [1%N]).
Proof. split; [|split]; [vm_compute; reflexivity|vm_compute; reflexivity|vm_compute; discriminate]. Qed.

(* 16. (|a) => (|?) : the parser gives the empty branch the Value "|"; the emitted text has no parse at all
       (regexp.Compile rejects it: the oracle's witness); here: the text *)
Definition t_empty_branch := X OpCapture "(|a)" [X OpAlt "|" [X OpConcat "|" []; X OpChar "a" []]].
Lemma empty_alt_branch_factored_prefix_refuted : simp_text_prefix t_empty_branch = "(|?)".
Proof. vm_compute. reflexivity. Qed.
