(* Model_BoolSimp.v — transliteration of /repo/checkers/boolExprSimplify_checker.go
   (boolExprSimplifyChecker.VisitExpr / simplifyBool and its six rewrite rules), of the part of
   go/printer that renders the expressions in the diagnostic, and of the expression walker that
   decides which expressions are visited.  No proofs here.

   astcast.ToXxx returns a zero-valued sentinel node for a mismatch; in the transliteration a
   sentinel is a failed [match]: for each rule the comment says why the sentinel path of the Go code
   answers "false" as well. *)
From GC Require Import Base Model_Expr.
Open Scope string_scope.

(* astutil.Unparen *)
Fixpoint unparen (e : expr) : expr :=
  match e with EParen x => unparen x | _ => e end.

(* ---- hasFloats: lintutil.ContainsNode(x, BinaryExpr with a float-typed operand) ---- *)
Definition is_float_ty (o : option ty) : bool :=
  match o with Some TFloat => true | _ => false end.

Fixpoint has_floats (e : expr) : bool :=
  match e with
  | EIdent _ _ | ELit _ _ _ | EVarK _ _ _ | ESel _ _ _ _ | EConst _ _ => false
  | EParen x | EUnary _ x | ESliceAll x | EDeref x => has_floats x
  | EBinary _ l r => is_float_ty (typeof l) || is_float_ty (typeof r) || has_floats l || has_floats r
  | ECall _ args => (fix go (l : list expr) : bool := match l with [] => false | x :: r => has_floats x || go r end) args
  | EIndex a i => has_floats a || has_floats i
  end.

(* ---- the six rules; each returns Some e' when the Go function returns true ---- *)

(* doubleNegation: sentinel UnaryExpr has Op ILLEGAL, so a non-unary node fails the Op test *)
Definition double_negation (e : expr) : option expr :=
  match e with
  | EUnary UNot x =>
      match unparen x with
      | EUnary UNot y => Some (unparen y)
      | _ => None
      end
  | _ => None
  end.

(* negatedEquals: only ==, operands are *not* unparenthesised *)
Definition negated_equals (e : expr) : option expr :=
  match e with
  | EBinary OEq (EUnary UNot a) (EUnary UNot b) => Some (EBinary OEq a b)
  | _ => None
  end.

Definition negate_cmp (o : binop) : option binop :=
  match o with
  | OEq => Some ONe | ONe => Some OEq
  | OLt => Some OGe | OGt => Some OLe
  | OLe => Some OGt | OGe => Some OLt
  | _ => None
  end.

(* invertComparison: guarded by hasFloats (issue #673) *)
Definition invert_comparison (hf : bool) (e : expr) : option expr :=
  if hf then None
  else match e with
       | EUnary UNot x =>
           match unparen x with
           | EBinary o a b =>
               match negate_cmp o with
               | Some o' => Some (EBinary o' a b)
               | None => None
               end
           | _ => None
           end
       | _ => None
       end.

Definition comb_table (o1 o2 : binop) : option binop :=
  match o1, o2 with
  | OGt, OEq | OEq, OGt => Some OGe
  | OLt, OEq | OEq, OLt => Some OLe
  | _, _ => None
  end.

(* combineChecks: with two sentinels astequal(nil,nil) and isSafe(nil) hold but the table does not
   contain ILLEGAL; with one sentinel astequal(x, nil) is false *)
Definition combine_checks (e : expr) : option expr :=
  match e with
  | EBinary OLOr x y =>
      match unparen x, unparen y with
      | EBinary o1 a1 b1, EBinary o2 a2 b2 =>
          if expr_eqb a1 a2 && expr_eqb b1 b2 && side_effect_free a1 && side_effect_free b1 then
            match comb_table o1 o2 with
            | Some o => Some (EBinary o a1 b1)
            | None => None
            end
          else None
      | _, _ => None
      end
  | _ => None
  end.

(* removeIncDec.  matchOneWay: x.Op == op && lit(x.Y).Value == "1" && !(y.Op == op && lit(y.Y).Value == "1");
   the literal's kind is not inspected.  [remove_incdec_prefix] is the routine before commit 546af6d (no
   hasFloats guard); [remove_incdec] is the current one. *)
Definition is_incdec (o : binop) (e : expr) : bool :=
  match e with
  | EBinary o' _ (ELit _ s _) => binop_eqb o' o && String.eqb s "1"
  | _ => false
  end.
Definition match_one_way (o : binop) (x y : expr) : bool := is_incdec o x && negb (is_incdec o y).
Definition bin_left (e : expr) : expr := match e with EBinary _ l _ => l | _ => e end.

Definition incdec_replace (lhs_op rhs_op repl : binop) (x y : expr) : option expr :=
  if match_one_way lhs_op x y then Some (EBinary repl (bin_left x) y)
  else if match_one_way rhs_op y x then Some (EBinary repl x (bin_left y))
  else None.

Definition remove_incdec_prefix (e : expr) : option expr :=
  match e with
  | EBinary OGt x y => incdec_replace OAdd OSub OGe x y
  | EBinary OGe x y => incdec_replace OSub OAdd OGt x y
  | EBinary OLt x y => incdec_replace OSub OAdd OLe x y
  | EBinary OLe x y => incdec_replace OAdd OSub OLt x y
  | _ => None
  end.
(* current: `x+1 > y` is not `x >= y` for floats *)
Definition remove_incdec (hf : bool) (e : expr) : option expr :=
  if hf then None else remove_incdec_prefix e.

(* int64val before commit 7e0e8ca: strconv.ParseInt(lit.Value, 10, 64) whatever the literal's kind or spelling *)
Definition int64val_prefix (e : expr) : option Z :=
  match e with
  | ELit _ s _ => parse_int_base10 s
  | _ => None
  end.
(* current: lit.Kind == token.INT and strconv.ParseInt(lit.Value, 0, 64): the literal is read the way the
   compiler reads it (0x, 0o, 0b, legacy octal, '_'), within int64 *)
Definition int64val (e : expr) : option Z :=
  match e with
  | ELit LInt s _ =>
      match go_int_lit s with
      | Some z => if (z <=? int64_max)%Z then Some z else None
      | None => None
      end
  | _ => None
  end.

Definition set_lit_text (e : expr) (s : string) : expr :=
  match e with ELit k _ t => ELit k s t | _ => e end.

(* (lhsOp, rhsOp, rhsDiff, resDelta) *)
Definition and_table : list (binop * binop * Z * Z) :=
  [(OGt, OLt, 2, 1); (OGe, OLt, 1, 0); (OGt, OLe, 1, 1); (OGe, OLe, 0, 0)]%Z.
Definition or_table : list (binop * binop * Z * Z) :=
  [(OLt, OGt, 0, 0); (OLe, OGt, 1, 1); (OLt, OGe, 1, 0); (OLe, OGe, 2, 1)]%Z.

Fixpoint table_find (tbl : list (binop * binop * Z * Z)) (lo ro : binop) (diff : Z) : option Z :=
  match tbl with
  | [] => None
  | (a, b, d, delta) :: r =>
      if binop_eqb lo a && binop_eqb ro b && (diff =? d)%Z then Some delta else table_find r lo ro diff
  end.

Definition or_else {A} (a : option A) (b : option A) : option A :=
  match a with Some _ => a | None => b end.

(* The traversal is written once, over the two routines that the fixes changed. *)
Section Variant.
  Variable incdec : bool -> expr -> option expr.   (* removeIncDec *)
  Variable i64 : expr -> option Z.                 (* int64val *)

(* foldRanges: guarded by hasFloats (issue #848); e.X / e.Y are *not* unparenthesised.
   Two sentinels pass isSafe/astequal (nil) but fail int64val(nil); one sentinel fails astequal. *)
Definition fold_ranges_v (hf : bool) (e : expr) : option expr :=
  if hf then None
  else match e with
       | EBinary eo (EBinary lo lx ly) (EBinary ro rx ry) =>
           if side_effect_free lx && side_effect_free rx && expr_eqb lx rx then
             match i64 ly, i64 ry with
             | Some c1, Some c2 =>
                 match eo with
                 | OLAnd =>
                     match table_find and_table lo ro (c2 - c1) with
                     | Some delta => Some (EBinary OEq lx (set_lit_text ly (dec_of_Z (c1 + delta))))
                     | None => None
                     end
                 | OLOr =>
                     match table_find or_table lo ro (c2 - c1) with
                     | Some delta => Some (EBinary ONe lx (set_lit_text ly (dec_of_Z (c1 + delta))))
                     | None => None
                     end
                 | _ => None
                 end
             | _, _ => None
             end
           else None
       | _ => None
       end.

(* the post function of simplifyBool: first applicable rule wins *)
Definition rewrite_first_v (hf : bool) (e : expr) : option expr :=
  or_else (double_negation e)
  (or_else (negated_equals e)
  (or_else (invert_comparison hf e)
  (or_else (combine_checks e)
  (or_else (incdec hf e)
           (fold_ranges_v hf e))))).

Definition rewrite1_v (hf : bool) (e : expr) : expr :=
  match rewrite_first_v hf e with Some e' => e' | None => e end.

(* astutil.Apply(x, nil, post): children first (their replacements are stored in the parent),
   then post on the node itself; a replacement is not revisited *)
Fixpoint simp_v (hf : bool) (e : expr) {struct e} : expr :=
  rewrite1_v hf
    match e with
    | EIdent _ _ | ELit _ _ _ | EVarK _ _ _ | ESel _ _ _ _ | EConst _ _ => e
    | EParen x => EParen (simp_v hf x)
    | EUnary o x => EUnary o (simp_v hf x)
    | EBinary o l r => EBinary o (simp_v hf l) (simp_v hf r)
    | ECall f args => ECall f (map (simp_v hf) args)
    | EIndex a i => EIndex (simp_v hf a) (simp_v hf i)
    | ESliceAll a => ESliceAll (simp_v hf a)
    | EDeref a => EDeref (simp_v hf a)
    end.


(* the node with already simplified children, i.e. what the post function sees *)
Definition rebuild_v (hf : bool) (e : expr) : expr :=
  match e with
  | EIdent _ _ | ELit _ _ _ | EVarK _ _ _ | ESel _ _ _ _ | EConst _ _ => e
  | EParen x => EParen (simp_v hf x)
  | EUnary o x => EUnary o (simp_v hf x)
  | EBinary o l r => EBinary o (simp_v hf l) (simp_v hf r)
  | ECall f args => ECall f (map (simp_v hf) args)
  | EIndex a i => EIndex (simp_v hf a) (simp_v hf i)
  | ESliceAll a => ESliceAll (simp_v hf a)
  | EDeref a => EDeref (simp_v hf a)
  end.

(* [g] holds of every node as the post function sees it *)
Fixpoint all_nodes_v (g : expr -> bool) (hf : bool) (e : expr) {struct e} : bool :=
  g (rebuild_v hf e) &&
  match e with
  | EIdent _ _ | ELit _ _ _ | EVarK _ _ _ | ESel _ _ _ _ | EConst _ _ => true
  | EParen x | EUnary _ x | ESliceAll x | EDeref x => all_nodes_v g hf x
  | EBinary _ l r => all_nodes_v g hf l && all_nodes_v g hf r
  | ECall _ args => (fix go (l : list expr) : bool := match l with [] => true | x :: r => all_nodes_v g hf x && go r end) args
  | EIndex a i => all_nodes_v g hf a && all_nodes_v g hf i
  end.
End Variant.

(* ---- the current checker ---- *)
Definition fold_ranges := fold_ranges_v int64val.
Definition rewrite_first := rewrite_first_v remove_incdec int64val.
Definition rewrite1 := rewrite1_v remove_incdec int64val.
Definition simp := simp_v remove_incdec int64val.
Definition rebuild := rebuild_v remove_incdec int64val.
Definition simplify_bool (e : expr) : expr := simp (has_floats e) e.

(* ---- go/printer (nodes.go: expr1, binaryExpr, cutoff, walkBinary) on the fragment, single line ---- *)
Definition prec_of (o : binop) : nat :=
  match o with
  | OMul | OQuo | ORem | OShl | OShr | OAnd | OAndNot => 5
  | OAdd | OSub | OOr | OXor => 4
  | OEq | ONe | OLt | OLe | OGt | OGe => 3
  | OLAnd => 2
  | OLOr => 1
  end.
Definition binop_str (o : binop) : string :=
  match o with
  | OAdd => "+" | OSub => "-" | OMul => "*" | OQuo => "/" | ORem => "%"
  | OEq => "==" | ONe => "!=" | OLt => "<" | OLe => "<=" | OGt => ">" | OGe => ">="
  | OLAnd => "&&" | OLOr => "||"
  | OAnd => "&" | OOr => "|" | OXor => "^" | OShl => "<<" | OShr => ">>" | OAndNot => "&^"
  end.
Definition unop_str (o : unop) : string := match o with UNot => "!" | UNeg => "-" end.

Definition prim_name (p : prim) : string :=
  match p with
  | PLen => "len" | PStringOfBytes => "string" | PBytesOfString => "[]byte"
  | PStrIndex => "strings.Index" | PStrContains => "strings.Contains" | PStrCompare => "strings.Compare"
  | PBytesEqual => "bytes.Equal" | PJoin2 => "strings.Join" | PJoin3 => "strings.Join"
  | PUnix => "Unix" | PUnixNano => "UnixNano" | PUnixMilli => "UnixMilli" | PUnixMicro => "UnixMicro"
  | PStrHasPrefix => "strings.HasPrefix" | PStrHasSuffix => "strings.HasSuffix" | PStrLastIndex => "strings.LastIndex"
  | PStrEqualFold => "strings.EqualFold" | PStrToLower => "strings.ToLower" | PStrToUpper => "strings.ToUpper"
  | PStrIndexAny => "strings.IndexAny" | PStrContainsAny => "strings.ContainsAny"
  | PStrReplace => "strings.Replace" | PStrReplaceAll => "strings.ReplaceAll"
  | PBytesIndex => "bytes.Index" | PBytesContains => "bytes.Contains" | PBytesCompare => "bytes.Compare"
  | PBytesHasPrefix => "bytes.HasPrefix" | PBytesHasSuffix => "bytes.HasSuffix" | PBytesLastIndex => "bytes.LastIndex"
  | PBytesEqualFold => "bytes.EqualFold" | PBytesReplace => "bytes.Replace" | PBytesReplaceAll => "bytes.ReplaceAll"
  end.
Definition fn_name (f : fn) : string :=
  match f with FOpaque n _ => n | FPrim p => prim_name p end.

(* walkBinary: (has4, has5, maxProblem) *)
Definition wb0 : bool * bool * nat := (false, false, 0).
Fixpoint walk_bin (e : expr) : bool * bool * nat :=
  match e with
  | EBinary o l r =>
      let p := prec_of o in
      let '(h4l, h5l, mpl) :=
        match l with
        | EBinary lo _ _ => if Nat.ltb (prec_of lo) p then wb0 else walk_bin l
        | _ => wb0
        end in
      let '(h4r, h5r, mpr) :=
        match r with
        | EBinary ro _ _ => if Nat.leb (prec_of ro) p then wb0 else walk_bin r
        | EUnary UNeg _ => match o with OSub => (false, false, 4) | _ => wb0 end   (* "--" *)
        | _ => wb0
        end in
      (Nat.eqb p 4 || h4l || h4r, Nat.eqb p 5 || h5l || h5r, Nat.max mpl mpr)
  | _ => wb0
  end.

Definition cutoff (e : expr) (depth : nat) : nat :=
  let '(h4, h5, mp) := walk_bin e in
  if Nat.ltb 0 mp then mp + 1
  else if h4 && h5 then (if Nat.eqb depth 1 then 5 else 4)
  else if Nat.eqb depth 1 then 6 else 4.

Definition diff_prec (e : expr) (prec : nat) : nat :=
  match e with
  | EBinary o _ _ => if Nat.eqb prec (prec_of o) then 0 else 1
  | _ => 1
  end.
Definition reduce_depth (d : nat) : nat := match d with 0 | 1 => 1 | S d' => d' end.

Fixpoint join_sep (sep : string) (l : list string) : string :=
  match l with
  | [] => ""
  | [x] => x
  | x :: r => x ++ sep ++ join_sep sep r
  end.

(* expr1(e, prec1, depth) *)
Fixpoint print1 (e : expr) (prec1 depth : nat) {struct e} : string :=
  match e with
  | EIdent x _ => x
  | ELit _ s _ => s
  | EParen x =>
      match x with
      | EParen _ => print1 x 0 depth
      | _ => "(" ++ print1 x 0 (reduce_depth depth) ++ ")"
      end
  | EUnary o x =>
      if Nat.ltb 6 prec1 then "(" ++ unop_str o ++ print1 x 6 1 ++ ")"
      else unop_str o ++ print1 x 6 depth
  | EBinary o l r =>
      let prec := prec_of o in
      let body := fun d : nat =>
        let blank := if Nat.ltb prec (cutoff e d) then " " else "" in
        print1 l prec (d + diff_prec l prec) ++ blank ++ binop_str o ++ blank ++ print1 r (prec + 1) (d + 1) in
      if Nat.ltb prec prec1 then "(" ++ body (reduce_depth depth) ++ ")" else body depth
  | ECall f args =>
      let d := if Nat.ltb 1 (List.length args) then depth + 1 else depth in
      fn_name f ++ "(" ++ join_sep ", " (map (fun a => print1 a 0 d) args) ++ ")"
  | EIndex a i => print1 a 7 1 ++ "[" ++ print1 i 0 (depth + 1) ++ "]"
  | ESliceAll a => print1 a 7 1 ++ "[:]"
  | EVarK x _ _ => x
  | ESel x f _ _ => x ++ "." ++ f
  | EConst x _ => x
  | EDeref a => if Nat.ltb 6 prec1 then "(*" ++ print1 a 6 1 ++ ")" else "*" ++ print1 a 6 depth
  end.

Definition print_expr (e : expr) : string := print1 e 0 1.

(* ---- VisitExpr and the expression walker ---- *)
Definition is_bin_or_unary (e : expr) : bool :=
  match e with EBinary _ _ _ | EUnary _ _ => true | _ => false end.
Definition is_bool_ty (o : option ty) : bool := match o with Some TBool => true | _ => false end.

(* Some message when VisitExpr warns *)
Definition check_expr (e : expr) : option string :=
  if is_bin_or_unary e && is_bool_ty (typeof e) then
    let y := simplify_bool e in
    if expr_eqb e y then None
    else Some ("can simplify `" ++ print_expr e ++ "` to `" ++ print_expr y ++ "`")
  else None.

(* go/types leaves the operands of a *constant* boolean expression untyped: in `(1 < 2) && !(3 <= 4)` only
   the outermost expression gets the type bool (from its context), the sub-expressions are "untyped bool",
   which VisitExpr's typep.HasBoolKind test rejects (it returns without SkipChilds).  A constant operand of a
   non-constant parent (`k && 1 < 2`) is converted to bool and is visited normally; go/types propagates a
   context type through parentheses but not into a constant unary/binary expression (updateExprType). *)
Fixpoint is_const_expr (e : expr) : bool :=
  match e with
  | ELit _ _ _ | EConst _ _ => true
  | EParen x | EUnary _ x => is_const_expr x
  | EBinary _ l r => is_const_expr l && is_const_expr r
  | _ => false
  end.

(* ast.Inspect with SkipChilds after a warning; messages in emission order.
   [pc]: the parent expression is a constant (so a constant e is untyped) *)
Fixpoint walk_exprs_from (pc : bool) (e : expr) {struct e} : list string :=
  match (if pc && is_const_expr e then None else check_expr e) with
  | Some m => [m]
  | None =>
      match e with
      | EIdent _ _ | ELit _ _ _ | EVarK _ _ _ | ESel _ _ _ _ | EConst _ _ => []
      | EParen x => walk_exprs_from pc x     (* the context's type is propagated through parentheses *)
      | EUnary _ x => walk_exprs_from (is_const_expr e) x
      | ESliceAll x | EDeref x => walk_exprs_from false x
      | EBinary _ l r => (walk_exprs_from (is_const_expr e) l ++ walk_exprs_from (is_const_expr e) r)%list
      | ECall _ args => flat_map (walk_exprs_from false) args
      | EIndex a i => (walk_exprs_from false a ++ walk_exprs_from false i)%list
      end
  end.
Definition walk_exprs (e : expr) : list string := walk_exprs_from false e.

(* ---- the checker before the fixes 546af6d / 7e0e8ca, and the guards it lacked ---- *)
Definition incdec_prefix (_ : bool) (e : expr) : option expr := remove_incdec_prefix e.
Definition fold_ranges_prefix := fold_ranges_v int64val_prefix.
Definition rewrite1_prefix := rewrite1_v incdec_prefix int64val_prefix.
Definition simp_prefix := simp_v incdec_prefix int64val_prefix.
Definition rebuild_prefix := rebuild_v incdec_prefix int64val_prefix.
Definition simplify_bool_prefix (e : expr) : expr := simp_prefix (has_floats e) e.

(* a literal bound whose base-10 reading is its Go value *)
Definition decimal_lit (e : expr) : bool :=
  match e with
  | ELit LInt s _ =>
      match parse_int_base10 s, go_int_lit s with
      | Some a, Some b => Z.eqb a b
      | _, _ => false
      end
  | _ => false
  end.

(* removeIncDec (pre-fix) fires at this node only on non-float operands *)
Definition incdec_guard (e' : expr) : bool :=
  match remove_incdec_prefix e' with
  | Some _ => match e' with EBinary _ x _ => negb (is_float_ty (typeof x)) | _ => true end
  | None => true
  end.

(* foldRanges (pre-fix) fires at this node only on decimal bounds *)
Definition fold_guard (hf : bool) (e' : expr) : bool :=
  match fold_ranges_prefix hf e' with
  | Some _ =>
      match e' with
      | EBinary _ (EBinary _ _ ly) (EBinary _ _ ry) => decimal_lit ly && decimal_lit ry
      | _ => true
      end
  | None => true
  end.

Definition all_nodes_prefix := all_nodes_v incdec_prefix int64val_prefix.
Definition no_float_incdec (e : expr) : bool := all_nodes_prefix incdec_guard (has_floats e) e.
Definition decimal_bounds (e : expr) : bool := all_nodes_prefix (fold_guard (has_floats e)) (has_floats e) e.
