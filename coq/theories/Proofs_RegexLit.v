(* Proofs_RegexLit.v — C11: literal strings in the matcher model, and the exact status of the two factoring
   forms with the SHORTER alternative first:
     x|xt  => xt?   is refuted for EVERY non-empty literal x and rune t (prefix_shorter_first_refuted_all);
     x|hx  => h?x   is sound exactly when x is not a prefix of hx (suffix_shorter_first_sound), which is the case
                    whenever the code reaches suffix factoring: if x is a prefix of hx then hx = xt and prefix
                    factoring fires first.  (Without case folding; under (?i): suffix_factoring_under_fold_refuted.) *)
From GC Require Import Base Model_Regex Model_RegexSimplify Proofs_Regex Proofs_RegexRules.
Local Open Scope nat_scope.
Local Open Scope list_scope.

Definition cls1 (fold : bool) (r : rune) : cls := {| c_neg := false; c_fold := fold; c_items := [CI false [(r, r)]] |}.

Fixpoint lit_k {R} (rs : list rune) (p : option rune) (s : list rune) (i : nat) (c : caps) (k : @kont R) : option R :=
  match rs with
  | [] => k p s i c
  | r :: rs' =>
      match s with
      | x :: s' => if N.eqb x r then lit_k rs' (Some x) s' (i + rune_len x) c k else None
      | [] => None
      end
  end.

Definition lit (rs : list rune) : rx := cat_list (map (fun r => RSet (cls1 false r)) rs).

Lemma in_cls1 r x : in_cls (cls1 false r) x = N.eqb x r.
Proof.
  unfold in_cls, cls1, in_item, orbit. cbn [c_neg c_fold c_items existsb]. rewrite in_range1, !orb_false_r, !xorb_false_l. reflexivity.
Qed.

Lemma m_lit rs : forall R p s i c (k : @kont R), m (lit rs) p s i c k = lit_k rs p s i c k.
Proof.
  induction rs as [|r rs IH]; intros R p s i c k; [reflexivity|].
  unfold lit. cbn [map]. rewrite (cat_list_cons _ _ R p s i c k). cbn [m lit_k].
  destruct s as [|x s']; [reflexivity|]. rewrite in_cls1. destruct (N.eqb x r); [|reflexivity]. apply IH.
Qed.

Fixpoint bytes (rs : list rune) : nat := match rs with [] => 0 | r :: l => rune_len r + bytes l end.
Fixpoint lastp (p : option rune) (rs : list rune) : option rune := match rs with [] => p | r :: l => lastp (Some r) l end.

Lemma lit_k_self {R} rs : forall p s' i c (k : @kont R), lit_k rs p (rs ++ s') i c k = k (lastp p rs) s' (i + bytes rs) c.
Proof.
  induction rs as [|r rs IH]; intros p s' i c k; cbn [lit_k app bytes lastp]; [rewrite Nat.add_0_r; reflexivity|].
  rewrite N.eqb_refl, IH. f_equal. lia.
Qed.

Lemma lit_k_some {R} rs : forall p s i c (k : @kont R) v, lit_k rs p s i c k = Some v -> firstn (length rs) s = rs.
Proof.
  induction rs as [|r rs IH]; intros p s i c k v H; [reflexivity|]. cbn [lit_k] in H.
  destruct s as [|x s']; [discriminate|]. destruct (N.eqb_spec x r) as [->|]; [|discriminate].
  cbn [length firstn]. f_equal. eapply IH. exact H.
Qed.

Lemma rune_len_pos r : 1 <= rune_len r.
Proof. unfold rune_len. destruct (r <? 128)%N; [lia|]. destruct (r <? 2048)%N; [lia|]. destruct (r <? 65536)%N; lia. Qed.

(* x|xt => xt? : on the subject "xt" the alternation stops after x, the rewrite after xt — for every x, t *)
Theorem prefix_shorter_first_refuted_all rs t :
  find (RAlt (lit rs) (lit (rs ++ [t]))) (rs ++ [t]) <> find (RCat (lit rs) (RQuest true (lit [t]))) (rs ++ [t]).
Proof.
  unfold find.
  assert (A : find_from (RAlt (lit rs) (lit (rs ++ [t]))) None (rs ++ [t]) 0 = Some (0, bytes rs, [])).
  { destruct (rs ++ [t]) as [|y l] eqn:E; [destruct rs; discriminate E|]. cbn [find_from]. rewrite <- E.
    cbn [m]. rewrite m_lit, lit_k_self. reflexivity. }
  assert (B : find_from (RCat (lit rs) (RQuest true (lit [t]))) None (rs ++ [t]) 0 = Some (0, bytes rs + rune_len t, [])).
  { destruct (rs ++ [t]) as [|y l] eqn:E; [destruct rs; discriminate E|]. cbn [find_from]. rewrite <- E.
    cbn [m]. rewrite m_lit, lit_k_self. cbn [m]. rewrite m_lit. cbn [lit_k]. rewrite N.eqb_refl. reflexivity. }
  rewrite A, B. intros H. inversion H. pose proof (rune_len_pos t). lia.
Qed.

Lemma firstn_firstn_le {A} (l : list A) a b : a <= b -> firstn a (firstn b l) = firstn a l.
Proof. intros H. rewrite firstn_firstn. f_equal. lia. Qed.

(* x|hx = hx|x when the two literals can never both match at one position *)
Theorem suffix_order_irrelevant x h :
  firstn (length x) (h :: x) <> x -> RAlt (lit x) (lit (h :: x)) ≈ RAlt (lit (h :: x)) (lit x).
Proof.
  intros Hnp R p s i c k. cbn [m]. rewrite !m_lit.
  destruct (lit_k x p s i c k) as [v1|] eqn:E1; destruct (lit_k (h :: x) p s i c k) as [v2|] eqn:E2; try reflexivity.
  exfalso. apply Hnp. apply lit_k_some in E1. apply lit_k_some in E2.
  rewrite <- E2 at 1. cbn [length]. rewrite firstn_firstn_le by lia. exact E1.
Qed.

Theorem suffix_shorter_first_sound x h :
  firstn (length x) (h :: x) <> x ->
  RAlt (lit x) (lit (h :: x)) ≈ RCat (RQuest true (lit [h])) (lit x).
Proof.
  intros Hnp. eapply req_trans; [apply suffix_order_irrelevant, Hnp|].
  eapply req_trans; [apply req_alt; [unfold lit; cbn [map]; apply cat_list_cons|apply req_refl]|].
  apply factor_suffix_longer_first.
Qed.
