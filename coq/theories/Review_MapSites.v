(* Review_MapSites.v — the hand-maintained review of every `range` over a map whose loop body is order
   sensitive as far as the syntactic classification of gen/MapRangeSites.v can tell (C02).
   Keyed by (file, function, ranged expression) AND the exact flags, so a loop that starts emitting,
   appending or exiting early is no longer covered. *)
From GC Require Import Base Model_Inventory.

Definition reviewed_map_sites : list reviewed_site := [
  {| rs_file := "importShadow_checker.go"; rs_fn := "importShadowChecker.VisitLocalDef"; rs_expr := "c.ctx.PkgObjects"; rs_flags := (true, false, false, false);
     rs_verdict := "deterministic"; rs_why := "at most one entry can match: the local names of the imports of one file are distinct (C02_import_shadow_det)" |};
  {| rs_file := "ruleguard_checker.go"; rs_fn := "newErrorHandler"; rs_expr := "failOnErrorPredicates"; rs_flags := (false, true, false, false);
     rs_verdict := "not-a-diagnostic"; rs_why := "only on an invalid failOn value: the keys are appended in map order and joined into the returned init error text; no diagnostics are produced on that path. Unchanged tree: the text varies between runs (open finding C02/ruleguard/init-error-text-order, exhibited by the oracle); once the slice is sorted before the Join the loop is order-insensitive. The syntactic flags of this site (append inside the loop) are the same before and after that repair, so this entry covers both" |};
  {| rs_file := "ruleguard_checker.go"; rs_fn := "parseErrorHandler.failOnParseError"; rs_expr := "e.failureConditions"; rs_flags := (false, false, true, false);
     rs_verdict := "deterministic"; rs_why := "boolean OR over the predicates; the early return only short-cuts it (C02_fail_on_det)" |};
  {| rs_file := "analyzer.go"; rs_fn := "init"; rs_expr := "info.Params"; rs_flags := (true, false, false, false);
     rs_verdict := "deterministic"; rs_why := "registers one flag per (checker, param) under a distinct key; package flag keeps flags in a map and prints them sorted; the flagged call is panic(unreachable)" |};
  {| rs_file := "run.go"; rs_fn := "newGocritic"; rs_expr := "info.Params"; rs_flags := (true, false, false, false);
     rs_verdict := "deterministic"; rs_why := "writes info.Params[pname].Value for distinct keys (commutative); the flagged call is panic(unreachable)" |};
  {| rs_file := "check.go"; rs_fn := "program.assignCheckerParams"; rs_expr := "info.Params"; rs_flags := (true, false, false, false);
     rs_verdict := "deterministic"; rs_why := "writes info.Params[pname].Value for distinct keys (commutative); the flagged call is panic(unreachable)" |};
  {| rs_file := "check.go"; rs_fn := "program.bindCheckerParams"; rs_expr := "info.Params"; rs_flags := (true, false, false, false);
     rs_verdict := "deterministic"; rs_why := "registers one flag per (checker, param) under a distinct key; the flagged call is panic(unreachable)" |};
  {| rs_file := "helpers.go"; rs_fn := "addChecker"; rs_expr := "info.Params"; rs_flags := (true, false, false, false);
     rs_verdict := "deterministic"; rs_why := "validation only: panics on the first unsupported param type (registration-time programming error, no output)" |};
  {| rs_file := "helpers.go"; rs_fn := "getCheckersInfo"; rs_expr := "prototypes"; rs_flags := (false, true, false, false);
     rs_verdict := "deterministic"; rs_why := "appends the copies in map order, then sorts by the (unique) name (C02_get_checkers_info_det)" |}
].
