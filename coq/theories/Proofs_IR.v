From GC Require Import Base Model_IR.

Lemma sx_eqb_sound : forall a b, sx_eqb a b = true -> a = b.
Proof.
  fix IH 1. intros a b. destruct a as [x|l], b as [y|m]; simpl; try discriminate.
  - intros H. apply String.eqb_eq in H. congruence.
  - intros H. f_equal. revert m H. induction l as [|x l IHl]; intros [|y m] H; try discriminate; [reflexivity|].
    apply andb_true_iff in H as [H1 H2]. f_equal; [apply IH; exact H1|apply IHl; exact H2].
Qed.

Lemma doc_eqb_sound a b : doc_eqb a b = true -> a = b.
Proof.
  unfold doc_eqb. rewrite !andb_true_iff, !String.eqb_eq.
  intros [[[[[H1 H2] H3] H4] H5] H6].
  apply (list_eqb_eq String.eqb String.eqb_eq) in H2.
  destruct a, b; simpl in *; congruence.
Qed.

Lemma nodupb_NoDup l : nodupb l = true -> NoDup l.
Proof.
  induction l as [|x r IH]; simpl; intros H; constructor.
  - apply andb_true_iff in H as [H _]. apply negb_true_iff in H. apply mem_false_In. exact H.
  - apply IH. apply andb_true_iff in H. tauto.
Qed.

Lemma find_doc_In n l d : find_doc n l = Some d -> In d l /\ d_name d = n.
Proof.
  induction l as [|x r IH]; simpl; [discriminate|].
  destruct (String.eqb (d_name x) n) eqn:E.
  - intros H; injection H as <-. apply String.eqb_eq in E. auto.
  - intros H. destruct (IH H). auto.
Qed.

(* the boolean check means: a bijection between rule groups and embedded checkers that preserves
   name, tags and (trimmed) documentation *)
Lemma groups_are_checkers_sound groups registry embedded :
  groups_are_checkers groups registry embedded = true ->
  NoDup (map d_name groups)
  /\ (forall g, In g groups -> In (trim_docs g) registry /\ In (d_name g) embedded)
  /\ (forall n, In n embedded -> exists g, In g groups /\ d_name g = n).
Proof.
  unfold groups_are_checkers. rewrite !andb_true_iff. intros [[H1 H2] H3]. split; [|split].
  - apply nodupb_NoDup. exact H1.
  - intros g Hg. rewrite forallb_forall in H2. specialize (H2 g Hg).
    destruct (find_doc (d_name g) registry) as [c|] eqn:E; [|discriminate].
    apply andb_true_iff in H2 as [Hd Hm]. apply doc_eqb_sound in Hd. apply find_doc_In in E as [Hin _].
    rewrite Hd. split; [exact Hin|apply mem_In; exact Hm].
  - intros n Hn. rewrite forallb_forall in H3. specialize (H3 n Hn). apply mem_In in H3.
    apply in_map_iff in H3 as [g [Hg Hin]]. eauto.
Qed.
