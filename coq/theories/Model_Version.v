(* Model_Version.v — linter/go_version.go, ruleguard's go_version.go comparator (used by rule
   filters), and the plumbing of the configured version to the three kinds of checkers.
   No proofs here. *)
From GC Require Export Base.
Open Scope Z_scope.

Definition version := (Z * Z)%type.

Definition digit_val (a : ascii) : option Z :=
  let n := Z.of_N (N_of_ascii a) in
  if (48 <=? n) && (n <=? 57) then Some (n - 48) else None.

(* decimal digits, Horner scheme; None on any non-digit or on the empty string *)
Fixpoint digits_acc (s : string) (acc : Z) : option Z :=
  match s with
  | EmptyString => Some acc
  | String a r => match digit_val a with
                  | Some d => digits_acc r (10 * acc + d)
                  | None => None
                  end
  end.
Definition digits (s : string) : option Z :=
  match s with EmptyString => None | _ => digits_acc s 0 end.

Definition int_max : Z := 9223372036854775807.

(* strconv.Atoi on a 64-bit platform *)
Definition atoi (s : string) : option Z :=
  match s with
  | EmptyString => None
  | String a r =>
      if Ascii.eqb a "-" then
        match digits r with Some n => if n <=? int_max + 1 then Some (- n) else None | None => None end
      else if Ascii.eqb a "+" then
        match digits r with Some n => if n <=? int_max then Some n else None | None => None end
      else
        match digits s with Some n => if n <=? int_max then Some n else None | None => None end
  end.

Definition trim_prefix (p s : string) : string :=
  if has_prefix p s then drop (String.length p) s else s.

(* parseVersionPart: unsigned decimal digits only, then strconv.Atoi *)
Definition version_part (s : string) : option Z :=
  match digits s with Some n => if n <=? int_max then Some n else None | None => None end.

(* linter.ParseGoVersion *)
Definition parse_go_version (s : string) : option version :=
  let v := trim_prefix "go" s in
  if String.eqb v "" then Some (0, 0)
  else match split_on "."%char v with
       | [a; b] => match version_part a, version_part b with
                   | Some x, Some y => if Z.eqb x 0 then None   (* there is no Go 0.y: major 0 is the internal "no constraint" value *)
                                       else Some (x, y)
                   | _, _ => None
                   end
       | _ => None
       end.

(* the routine before the repair that refuses major 0: -go=0.7 was accepted and then treated as the latest version *)
Definition parse_go_version_zero_major_prefix (s : string) : option version :=
  let v := trim_prefix "go" s in
  if String.eqb v "" then Some (0, 0)
  else match split_on "."%char v with
       | [a; b] => match version_part a, version_part b with
                   | Some x, Some y => Some (x, y)
                   | _, _ => None
                   end
       | _ => None
       end.

(* before repository commit 43195e2 the parts went straight to strconv.Atoi, which accepts a sign *)
Definition parse_go_version_prefix (s : string) : option version :=
  let v := trim_prefix "go" s in
  if String.eqb v "" then Some (0, 0)
  else match split_on "."%char v with
       | [a; b] => match atoi a, atoi b with
                   | Some x, Some y => Some (x, y)
                   | _, _ => None
                   end
       | _ => None
       end.

(* linter.GoVersion.GreaterOrEqual *)
Definition ge (v w : version) : bool :=
  if fst v =? 0 then true
  else if fst v =? fst w then snd w <=? snd v
  else fst w <=? fst v.

(* ruleguard: IsAny short-circuit + versionCompare(ctx, GEQ, gate) *)
Definition rg_ge (v w : version) : bool :=
  if fst v =? 0 then true
  else (fst w <? fst v) || ((fst v =? fst w) && (snd w <=? snd v)).

Definition lex_le (w v : version) : bool :=
  (fst w <? fst v) || ((fst w =? fst v) && (snd w <=? snd v)).

(* ---- plumbing: which version each kind of checker consults ---- *)
Inductive checker_kind := Embedded | Dynamic | Handwritten.
(* embedded_rules.go:104, ruleguard_checker.go WalkFile, octalLiteral_checker.go:34 *)
Definition run_version (k : checker_kind) (ctx_version : version) : version :=
  match k with
  | Embedded => ctx_version
  | Dynamic => ctx_version
  | Handwritten => ctx_version
  end.
(* before the repair the dynamic-rules checker built its RunContext without GoVersion *)
Definition run_version_prefix (k : checker_kind) (ctx_version : version) : version :=
  match k with Dynamic => (0, 0) | _ => ctx_version end.

(* ---- rule table (instantiated by gen/RuleTable.v) ---- *)
Record rule_entry := {
  r_group : string; r_line : Z;
  r_gate : option version;                 (* m.GoVersion().GreaterEqThan(g) in the rule's conjunctive filter *)
  r_recommends : list (string * version)   (* std API named by Suggest/Report outside quoted code, with its first Go version *)
}.
Definition gate_ok (r : rule_entry) (v : version) : bool :=
  match r_gate r with None => true | Some g => rg_ge v g end.
Definition floor_version : version := (1, 13).
Definition entry_ok (r : rule_entry) : bool :=
  forallb (fun a => lex_le (snd a) floor_version
                    || match r_gate r with Some g => lex_le (snd a) g | None => false end)
          (r_recommends r).
