(* Properties_Recover.v — C16/C19: the exit status of a run in which a checker crashes. *)
From GC Require Import Base Model_Recover Proofs_Recover.

(* Full statement: forall found code sch z, run_schedule worker_step found code sch rstart = Some z -> z = 2
   (a crash is always visible as the runtime's status). It is false of the handler as written: *)
Theorem C19_crash_exit_status_races_refuted : forall found code,
  run_schedule worker_step found code [true; true; true] rstart = Some 2%Z
  /\ run_schedule worker_step found code [true; false; false] rstart = Some (if found then code else 0%Z).
Proof. exact today_races. Qed.
Print Assumptions C19_crash_exit_status_races_refuted.

Theorem C19_crash_can_exit_zero_refuted :
  exists sch, run_schedule worker_step false 1%Z sch rstart = Some 0%Z.
Proof. exact today_crash_can_exit_zero. Qed.
Print Assumptions C19_crash_can_exit_zero_refuted.

(* With wg.Done() moved behind the recover test (repo_patches/fix-crash-exit-race.diff) every schedule that ends, ends with 2. *)
Theorem C19_crash_exit_status_fixed : forall found code sch z,
  run_schedule worker_step_fixed found code sch rstart = Some z -> z = 2%Z.
Proof. exact fixed_deterministic. Qed.
Print Assumptions C19_crash_exit_status_fixed.

Theorem C19_crash_main_blocked_until_done : forall found code n,
  run_schedule worker_step found code (repeat false n) rstart = None.
Proof. exact today_main_blocked_until_done. Qed.
Print Assumptions C19_crash_main_blocked_until_done.

Example C19_example_fixed_terminates : run_schedule worker_step_fixed true 1%Z [true; true] rstart = Some 2%Z.
Proof. reflexivity. Qed.
