(* Properties_Recover.v — C16/C19: the exit status of a run in which a checker crashes. *)
From GC Require Import Base Model_Recover Proofs_Recover.

(* A crash is always visible as the runtime's status: every schedule of the worker's recover handler and the main
   goroutine that ends the process ends it with 2 — the main goroutine cannot leave wg.Wait. *)
Theorem C19_crash_exit_status : forall found code sch z,
  run_schedule worker_step found code sch rstart = Some z -> z = 2%Z.
Proof. exact crash_deterministic. Qed.
Print Assumptions C19_crash_exit_status.

(* The handler before the repair (wg.Done() before the re-raised panic) let both outcomes happen ... *)
Theorem C19_crash_exit_status_prefix_refuted : forall found code,
  run_schedule worker_step_prefix found code [true; true; true] rstart = Some 2%Z
  /\ run_schedule worker_step_prefix found code [true; false; false] rstart = Some (if found then code else 0%Z).
Proof. exact prefix_races. Qed.
Print Assumptions C19_crash_exit_status_prefix_refuted.

(* ... including a crashed run that exits 0. *)
Theorem C19_crash_can_exit_zero_prefix_refuted :
  exists sch, run_schedule worker_step_prefix false 1%Z sch rstart = Some 0%Z.
Proof. exact prefix_crash_can_exit_zero. Qed.
Print Assumptions C19_crash_can_exit_zero_prefix_refuted.

(* the race window was exactly "after wg.Done()" *)
Theorem C19_crash_main_blocked_until_done_prefix : forall found code n,
  run_schedule worker_step_prefix found code (repeat false n) rstart = None.
Proof. exact prefix_main_blocked_until_done. Qed.
Print Assumptions C19_crash_main_blocked_until_done_prefix.

Example C19_example_crash_terminates : run_schedule worker_step true 1%Z [true; true] rstart = Some 2%Z.
Proof. reflexivity. Qed.
