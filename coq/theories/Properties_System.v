(* Properties_System.v — composition of the component models of C06 (selection), C04 (scheduling),
   C16 (filters, printing, exit status) into one statement about the check command.  These theorems
   are obligations of C16's check (its end-to-end correspondence evaluates [system_run]). *)
From GC Require Import Base Model_Select Proofs_Select Model_Cli Proofs_Cli Model_Sched Proofs_Sched Model_System Proofs_System.

(* For every registry of validly named checkers, every flag value, configuration and set of files:
   the command either fails in "init checkers" (empty selection) or prints exactly the warnings of the
   checkers the documented selection rule admits, on the files that pass the filters, file-major and in
   registry order, and exits with the configured code iff something was printed. *)
Theorem SYS_run_spec : forall reg fl cfg files, forallb valid_checker reg = true ->
  system_run reg fl cfg files =
  match selected reg fl with
  | [] => SysFatal "init checkers"
  | _ => SysExit (if nonempty (spec_lines reg fl cfg files) then exit_code cfg else 0%Z) (spec_lines reg fl cfg files)
  end.
Proof. exact system_run_spec. Qed.
Print Assumptions SYS_run_spec.

(* ... and for each file, whatever the -concurrency value and the interleaving of the checker goroutines,
   what is printed for that file is what the sequential model prints. *)
Theorem SYS_pool_prints_file_lines : forall cap sel f sch s',
  exec (list string) (List.length sel) cap (pool_run sel f) (init (list string)) sch = Some s' ->
  terminal (list string) (List.length sel) s' ->
  printed (slots (list string) s') (List.length sel) = file_lines (file_as_src sel f).
Proof. exact pool_prints_file_lines. Qed.
Print Assumptions SYS_pool_prints_file_lines.

(* Both kinds of front-end (the two CLIs and the two go/analysis drivers) print the same diagnostic lines
   whenever their flags select the same checkers and the CLI filters no file; an init error on one side is
   an init error on the other. *)
Theorem SYS_frontends_agree : forall reg fl af cfg files,
  forallb valid_checker reg = true ->
  (forall c, In c reg -> an_selected af c = cli_selected reg fl c) ->
  (forall f, In f files -> file_checked cfg {| fname := sf_name f; fgroups := sf_groups f; fwarn := [] |} = true) ->
  match system_run reg fl cfg files, analysis_run reg af files with
  | SysFatal _, AnError => True
  | SysExit c1 l1, AnExit c2 l2 => l1 = l2 /\ (c2 = 0%Z <-> l1 = []) /\ (l1 = [] -> c1 = 0%Z)
  | _, _ => False
  end.
Proof. exact frontends_agree. Qed.
Print Assumptions SYS_frontends_agree.
