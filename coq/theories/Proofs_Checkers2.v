(* Proofs_Checkers2.v — lemmas about the second batch of transliterated checkers (Model_Checkers2.v). *)
From GC Require Import Base GoAst Model_Checkers Model_Checkers2 Proofs_Checkers.
From Coq Require Import PArith.

Local Arguments mem : simpl never.

(* ---------- FuncDecl walker ---------- *)
Lemma decl_in_all f d : In d (decls f) -> In d (all_nodes f).
Proof. intros H. eapply all_nodes_pre; eauto. apply pre_self. Qed.

Lemma func_decls_in enter_all f d : In d (func_decls enter_all f) -> In d (all_nodes f) /\ ntag d = TFuncDecl.
Proof.
  unfold func_decls. intros H. apply filter_In in H as [H T]. apply andb_true_iff in T as [T _].
  split; [apply decl_in_all; auto|apply is_tag_eq; auto].
Qed.

Lemma run_funcdecl_total enter_all visit f :
  (forall d, In d (all_nodes f) -> ntag d = TFuncDecl -> forall s, visit d <> Panic s) ->
  forall s, run_funcdecl enter_all visit f <> Panic s.
Proof.
  intros H. unfold run_funcdecl. apply seq_o_no_panic. intros o Ho. apply in_map_iff in Ho as [d [<- Hd]].
  apply func_decls_in in Hd as [Hd T]. apply H; auto.
Qed.

Lemma run_funcdecl_warn enter_all visit f w :
  In w (warnings (run_funcdecl enter_all visit f)) ->
  exists d, In d (all_nodes f) /\ ntag d = TFuncDecl /\ In w (warnings (visit d)).
Proof.
  unfold run_funcdecl. intros H. apply seq_o_warnings in H as [o [Ho Hw]]. apply in_map_iff in Ho as [d [<- Hd]].
  apply func_decls_in in Hd as [Hd T]. exists d. auto.
Qed.

(* ---------- accessors yield children ---------- *)
Lemma nth_kid n i k : nth_error (kids n) i = Some k -> In k (kids n).
Proof. apply nth_error_In. Qed.

Lemma fd_name_kid d k : fd_name d = Some k -> In k (kids d).
Proof. apply nth_kid. Qed.
Lemma fd_type_kid d k : fd_type d = Some k -> In k (kids d).
Proof. apply nth_kid. Qed.
Lemma fd_body_kid d k : fd_body d = Some k -> In k (kids d).
Proof. unfold fd_body. destruct (N.eqb (nb d) 1); [apply nth_kid|discriminate]. Qed.
Lemma fd_recv_kid d k : fd_recv d = Some k -> In k (kids d).
Proof. unfold fd_recv. destruct (N.eqb (na d) 1); [apply nth_kid|discriminate]. Qed.
Lemma ft_params_kid d k : ft_params d = Some k -> In k (kids d).
Proof. apply nth_kid. Qed.
Lemma ft_results_kid d k : ft_results d = Some k -> In k (kids d).
Proof. unfold ft_results. destruct (N.eqb (nb d) 1); [apply nth_kid|discriminate]. Qed.
Lemma field_type_kid d k : field_type d = Some k -> In k (kids d).
Proof. apply nth_kid. Qed.
Lemma if_body_kid d k : if_body d = Some k -> In k (kids d).
Proof. apply nth_kid. Qed.
Lemma if_else_kid d k : if_else d = Some k -> In k (kids d).
Proof. unfold if_else. destruct (N.eqb (nb d) 1); [apply nth_kid|discriminate]. Qed.
Lemma switch_body_kid d k : switch_body d = Some k -> In k (kids d).
Proof. unfold switch_body. destruct (ntag d); try discriminate; apply nth_kid. Qed.
Lemma field_names_kid fld k : In k (field_names fld) -> In k (kids fld).
Proof. unfold field_names. apply firstn_In'. Qed.

Lemma w0_cause c n : w_cause (w0 c n) = n.
Proof. reflexivity. Qed.

(* ================= totality ================= *)
Lemma builtinShadowDecl_total f : forall s, run_builtinShadowDecl f <> Panic s.
Proof. discriminate. Qed.

Lemma defaultCaseOrder_total f : forall s, run_defaultCaseOrder f <> Panic s.
Proof. apply run_stmt_total. intros e He s. unfold defaultCaseOrder_visit. dmatch. Qed.

Lemma emptyFallthrough_total f : forall s, run_emptyFallthrough f <> Panic s.
Proof. apply run_stmt_total. intros e He s. unfold emptyFallthrough_visit. dmatch. Qed.

Lemma initClause_total f : forall s, run_initClause f <> Panic s.
Proof. apply run_stmt_total. intros e He s. unfold initClause_visit. dmatch. Qed.

(* singleCaseSwitch: the unchecked assertion body.List[0].( *ast.CaseClause ) holds because a switch body holds clauses only *)
Lemma wf_switch_body stmt body :
  wf_node stmt = true -> switch_body stmt = Some body -> all_tag TCaseClause (kids body) = true.
Proof.
  unfold wf_node, switch_body. destruct (ntag stmt); try discriminate; intros W E; rewrite E in W.
  - apply andb_true_iff in W as [_ W]. apply andb_true_iff in W. tauto.
  - apply andb_true_iff in W as [_ W]. apply andb_true_iff in W. tauto.
Qed.

Lemma singleCaseSwitch_total f : wf f = true -> forall s, run_singleCaseSwitch f <> Panic s.
Proof.
  intros W. apply run_stmt_total. intros e He s. unfold singleCaseSwitch_visit.
  destruct (switch_body e) as [body|] eqn:E; [|discriminate].
  pose proof (wf_switch_body e body (wf_node_of _ _ W He) E) as Hc.
  destruct (kids body) as [|cc [|? ?]]; try discriminate.
  simpl in Hc. apply andb_true_iff in Hc as [Hc _]. rewrite Hc. simpl. dmatch.
Qed.

Lemma elseif_total skip f : forall s, run_elseif skip f <> Panic s.
Proof. apply run_stmt_total. intros e He s. unfold elseif_visit. cbv zeta. dmatch. Qed.

Lemma deferInLoop_total f : forall s, run_deferInLoop f <> Panic s.
Proof. apply run_funcdecl_total. intros d Hd T s. unfold deferInLoop_visit. dmatch. Qed.

(* unnamedResult: results.List[1] exists because parameter lists are uniformly named or unnamed *)
Lemma num_fields_unnamed l :
  forallb (fun fd => N.eqb (na fd) 0) l = true ->
  fold_right (fun fld acc => (if N.eqb (na fld) 0 then 1 else N.to_nat (na fld)) + acc) 0 l = length l.
Proof.
  induction l as [|x r IH]; simpl; [reflexivity|]. intros H. apply andb_true_iff in H as [H1 H2].
  rewrite H1, IH; auto.
Qed.

Lemma wf_functype_uniform ft fl :
  wf_node ft = true -> ntag ft = TFuncType -> In fl (kids ft) ->
  forallb (fun fd => N.eqb (na fd) 0) (kids fl) || forallb (fun fd => negb (N.eqb (na fd) 0)) (kids fl) = true.
Proof.
  unfold wf_node. intros W T H. rewrite T in W. apply andb_true_iff in W as [_ W].
  rewrite forallb_forall in W. apply W. exact H.
Qed.

Lemma wf_funcdecl_type d ft :
  wf_node d = true -> ntag d = TFuncDecl -> fd_type d = Some ft -> ntag ft = TFuncType.
Proof.
  unfold wf_node, fd_type. intros W T E. rewrite T in W.
  apply andb_true_iff in W as [W _]. apply andb_true_iff in W as [_ W]. rewrite E in W.
  destruct (nth_error (kids d) (N.to_nat (na d))); [|discriminate].
  apply andb_true_iff in W as [_ W]. apply is_tag_eq. exact W.
Qed.

Lemma unnamedResult_total ce f : wf f = true -> forall s, run_unnamedResult ce f <> Panic s.
Proof.
  intros W. apply run_funcdecl_total. intros d Hd T s. unfold unnamedResult_visit.
  destruct (fd_name d) as [nm|]; [|discriminate].
  destruct (fd_type d) as [ft|] eqn:Eft; [|discriminate].
  destruct (ce && negb (xbit x_exported nm)); [discriminate|].
  destruct (ft_results ft) as [results|] eqn:Er; [|discriminate].
  assert (Hft : In ft (all_nodes f)) by (eapply all_nodes_kid; eauto; eapply fd_type_kid; eauto).
  pose proof (wf_funcdecl_type d ft (wf_node_of _ _ W Hd) T Eft) as Tft.
  pose proof (wf_functype_uniform ft results (wf_node_of _ _ W Hft) Tft (ft_results_kid _ _ Er)) as U.
  cbv zeta. destruct (kids results) as [|f0 rest] eqn:Kr.
  - simpl. unfold num_fields. rewrite Kr. simpl. discriminate.
  - destruct (negb (N.eqb (na f0) 0)) eqn:N0; [discriminate|].
    apply negb_false_iff in N0.
    assert (U1 : forallb (fun fd => N.eqb (na fd) 0) (f0 :: rest) = true).
    { apply orb_true_iff in U as [U|U]; [exact U|]. simpl in U. rewrite N0 in U. discriminate. }
    unfold num_fields. rewrite Kr, (num_fields_unnamed _ U1).
    destruct rest as [|f1 rest]; [simpl; discriminate|].
    destruct (Nat.eqb (length (f0 :: f1 :: rest)) 2); [|discriminate]. dmatch.
Qed.

Lemma ptc_changes_total params s : ptc_changes params <> P s.
Proof.
  unfold ptc_changes. destruct params as [fl|]; [|discriminate]. cbv zeta.
  destruct (kids fl) as [|f0 r]; simpl; [discriminate|]. dmatch.
Qed.

Lemma paramTypeCombine_total f : forall s, run_paramTypeCombine f <> Panic s.
Proof.
  apply run_funcdecl_total. intros d Hd T s. unfold paramTypeCombine_visit.
  destruct (fd_type d) as [ft|]; [|discriminate].
  destruct (ptc_changes (ft_params ft)) eqn:E1; [|exfalso; eapply ptc_changes_total; eauto].
  destruct (ptc_changes (ft_results ft)) eqn:E2; [|exfalso; eapply ptc_changes_total; eauto].
  destruct (a || a0); discriminate.
Qed.

Lemma ptrToRefParam_total f : forall s, run_ptrToRefParam f <> Panic s.
Proof. apply run_funcdecl_total. intros d Hd T s. unfold ptrToRefParam_visit. dmatch. Qed.

Lemma sloppyTypeAssert_total f : forall s, run_sloppyTypeAssert f <> Panic s.
Proof. apply run_expr_total. intros e He s. unfold sloppyTypeAssert_visit. dmatch. Qed.

(* octalLiteral / hexLiteral: the index and the slices are inside the literal *)
Lemma byte_at_lt s i : i < String.length s -> exists c, byte_at s i = Some c.
Proof.
  revert i; induction s as [|a r IH]; simpl; intros i H; [lia|]. destruct i; [eauto|]. apply IH. lia.
Qed.

Lemma str_from_le s i : i <= String.length s -> exists r, str_from s i = Some r.
Proof.
  revert s; induction i as [|j IH]; intros s H; [destruct s; simpl; eauto|]. destruct s as [|a r]; simpl in *; [lia|]. apply IH. lia.
Qed.

Lemma octalLiteral_total f : forall s, run_octalLiteral f <> Panic s.
Proof.
  apply run_expr_total. intros e He s. unfold octalLiteral_visit. cbv zeta.
  destruct (negb _); [discriminate|].
  destruct (negb (has_prefix "0" (nstr e)) || Nat.eqb (String.length (nstr e)) 1) eqn:G; [discriminate|].
  apply orb_false_iff in G as [G1 G2]. apply negb_false_iff in G1. apply Nat.eqb_neq in G2.
  assert (L : 2 <= String.length (nstr e)).
  { destruct (nstr e) as [|a r]; simpl in *; [discriminate|]. destruct r; simpl in *; lia. }
  destruct (byte_at_lt (nstr e) 1) as [c ->]; [lia|].
  destruct (str_from_le (nstr e) 1) as [r ->]; [lia|]. dmatch.
Qed.

Lemma hexLiteral_total f : forall s, run_hexLiteral f <> Panic s.
Proof.
  apply run_expr_total. intros e He s. unfold hexLiteral_visit. cbv zeta.
  destruct (negb _); [discriminate|].
  destruct (Nat.ltb (String.length (nstr e)) 3) eqn:L; [discriminate|]. apply Nat.ltb_ge in L.
  destruct (str_from_le (nstr e) 2) as [r ->]; [lia|]. dmatch.
Qed.

Lemma weakCond_total f : forall s, run_weakCond f <> Panic s.
Proof.
  apply run_expr_total. intros e He s. unfold weakCond_visit.
  destruct e as [t p str a b ff ks]. destruct t; try discriminate.
  destruct ks as [|cx [|cy [|? ?]]]; try discriminate.
  destruct (unparen cx) as [t2 ? ? ? ? ? k2]. destruct t2; try discriminate.
  destruct k2 as [|x [|ly [|? ?]]]; try discriminate. cbv zeta. dmatch.
Qed.

Lemma methodExprCall_total f : forall s, run_methodExprCall f <> Panic s.
Proof.
  apply run_expr_total. intros e He s. unfold methodExprCall_visit.
  destruct (negb (is_tag TCall e)); [discriminate|].
  destruct (kids e) as [|fn args]; [discriminate|].
  destruct args as [|a0 rest]; simpl; [discriminate|]. dmatch.
Qed.

Lemma dupBranchBody_total f : forall s, run_dupBranchBody f <> Panic s.
Proof. apply run_stmt_total. intros e He s. unfold dupBranchBody_visit. dmatch. Qed.

Lemma underef_total skip f : forall s, run_underef skip f <> Panic s.
Proof.
  apply run_expr_total. intros e He s. unfold underef_visit.
  destruct e as [t p str a b ff ks]. destruct t; try discriminate; dmatch.
Qed.

Lemma exitAfterDefer_total f : forall s, run_exitAfterDefer f <> Panic s.
Proof. apply run_funcdecl_total. intros d Hd T s. unfold exitAfterDefer_visit. dmatch. Qed.

(* --- the LocalDef walker: decl.Recv.List[0] and x.Rhs[0] exist on well-formed files --- *)
Definition all_wf (l : list node) : Prop := forall n, In n l -> wf_node n = true.

Lemma ld_valuespec_total tok spec s : ld_valuespec tok spec <> P s.
Proof. unfold ld_valuespec. cbv zeta. dmatch. Qed.

Lemma ld_specs_total tok specs : forall s, ld_specs tok specs <> P s.
Proof.
  induction specs as [|spec r IH]; simpl; intros s; [discriminate|].
  destruct (negb (is_tag TValueSpec spec)); [discriminate|].
  destruct (ld_valuespec tok spec) eqn:E1; [|exfalso; eapply ld_valuespec_total; eauto].
  destruct (ld_specs tok r) eqn:E2; [discriminate|]. exfalso. eapply IH; eauto.
Qed.

Lemma ld_assign_total x s : wf_node x = true -> ntag x = TAssign -> ld_assign x <> P s.
Proof.
  unfold wf_node, ld_assign. intros W T. rewrite T in W.
  apply andb_true_iff in W as [W _]. apply andb_true_iff in W as [_ W]. apply Nat.ltb_lt in W.
  destruct (negb (N.eqb (na x) tok_DEFINE)); [discriminate|]. cbv zeta.
  destruct (negb _); [|discriminate].
  destruct (skipn (N.to_nat (nb x)) (kids x)) as [|r0 r] eqn:Sk.
  - exfalso. assert (L : length (skipn (N.to_nat (nb x)) (kids x)) = 0) by (rewrite Sk; reflexivity).
    rewrite skipn_length in L. lia.
  - destruct (map _ _); discriminate.
Qed.

Lemma ld_body_total_aux :
  (forall n, all_wf (pre n) -> forall s, ld_body n <> P s) /\
  (forall l, all_wf (pres l) -> forall s, ld_bodies l <> P s).
Proof.
  apply node_mutind.
  - intros t p str a b ff k IH W s.
    assert (Wk : all_wf (pres k)) by (intros m Hm; apply W; simpl; auto).
    destruct t; simpl; try (apply IH; exact Wk).
    + apply ld_assign_total; [apply W; simpl; auto|reflexivity].
    + apply ld_specs_total.
  - intros _ s. discriminate.
  - intros n IHn r IHr W s. simpl.
    assert (W1 : all_wf (pre n)) by (intros m Hm; apply W; simpl; apply in_or_app; auto).
    assert (W2 : all_wf (pres r)) by (intros m Hm; apply W; simpl; apply in_or_app; auto).
    destruct (ld_body n) eqn:E1; [|exfalso; eapply IHn; eauto].
    destruct (ld_bodies r) eqn:E2; [discriminate|]. exfalso. eapply IHr; eauto.
Qed.

Lemma wf_recv_nonempty d recv :
  wf_node d = true -> ntag d = TFuncDecl -> fd_recv d = Some recv -> exists fld, kids recv = [fld].
Proof.
  unfold fd_recv. intros W T E. destruct (N.eqb (na d) 1) eqn:E1; [|discriminate].
  assert (E0 : N.eqb (na d) 0 = false) by (apply N.eqb_eq in E1; rewrite E1; reflexivity).
  destruct (wf_method_recv d W T E0) as [recv' [rest [fld [ty [K1 [K2 _]]]]]].
  rewrite K1 in E. simpl in E. injection E as <-. eauto.
Qed.

Lemma ld_signature_total d s : wf_node d = true -> ntag d = TFuncDecl -> ld_signature d <> P s.
Proof.
  intros W T. unfold ld_signature. destruct (fd_type d); [|discriminate]. cbv zeta.
  destruct (fd_recv d) as [recv|] eqn:E; [|discriminate].
  destruct (wf_recv_nonempty d recv W T E) as [fld ->]. destruct (field_names fld); discriminate.
Qed.

Lemma local_defs_of_total f d s :
  wf f = true -> In d (all_nodes f) -> ntag d = TFuncDecl -> local_defs_of d <> P s.
Proof.
  intros W Hd T. unfold local_defs_of.
  destruct (ld_signature d) eqn:E1; [|exfalso; eapply ld_signature_total; eauto; eapply wf_node_of; eauto].
  destruct (fd_body d) as [b|] eqn:Eb; [|discriminate].
  destruct (ld_body b) eqn:E2; [discriminate|]. exfalso.
  eapply (proj1 ld_body_total_aux b); eauto.
  intros m Hm. eapply wf_node_of; eauto. eapply all_nodes_closed; eauto.
  eapply pre_kid; eauto. eapply fd_body_kid; eauto.
Qed.

Lemma local_defs_all_total f ds :
  wf f = true -> (forall d, In d ds -> In d (all_nodes f) /\ ntag d = TFuncDecl) -> forall s, local_defs_all ds <> P s.
Proof.
  intros W. induction ds as [|d r IH]; simpl; intros H s; [discriminate|].
  destruct (local_defs_of d) eqn:E1.
  - destruct (local_defs_all r) eqn:E2; [discriminate|]. exfalso. eapply IH; eauto.
  - exfalso. destruct (H d (or_introl eq_refl)). eapply local_defs_of_total; eauto.
Qed.

Lemma run_localdef_total visit f : wf f = true -> forall s, run_localdef visit f <> Panic s.
Proof.
  intros W s. unfold run_localdef.
  destruct (local_defs_all (func_decls false f)) eqn:E; [discriminate|].
  exfalso. eapply (local_defs_all_total f); eauto. intros d Hd. eapply func_decls_in; eauto.
Qed.

(* ================= C07: causes ================= *)
Lemma builtinShadowDecl_cause f w : In w (warnings (run_builtinShadowDecl f)) -> cause_in_file f w.
Proof.
  unfold run_builtinShadowDecl, cause_in_file. simpl. intros H. apply in_flat_map in H as [d [Hd Hw]].
  apply decl_in_all in Hd.
  assert (K : forall nm, In nm (all_nodes f) -> In w (bsd_check nm) -> In (w_cause w) (all_nodes f)).
  { intros nm Hn. unfold bsd_check. destruct (is_builtin _); [|contradiction]. intros [<-|[]]. exact Hn. }
  unfold bsd_decl in Hw. destruct (ntag d); try contradiction.
  - destruct (N.eqb (na d) 0); [|contradiction]. destruct (fd_name d) as [nm|] eqn:E; [|contradiction].
    apply (K nm); [|exact Hw]. eapply all_nodes_kid; eauto. eapply fd_name_kid; eauto.
  - apply in_flat_map in Hw as [spec [Hs Hw]].
    assert (Hs' : In spec (all_nodes f)) by (eapply all_nodes_kid; eauto).
    unfold bsd_spec in Hw. destruct (ntag spec); try contradiction.
    + destruct (kids spec) as [|nm ?] eqn:Ks; [contradiction|]. apply (K nm); [|exact Hw].
      eapply all_nodes_kid; eauto. rewrite Ks. left. reflexivity.
    + apply in_flat_map in Hw as [nm [Hn Hw]]. apply (K nm); [|exact Hw].
      eapply all_nodes_kid; eauto. eapply firstn_In'; eauto.
Qed.

Lemma dco_loop_in l : forall i len w, In w (dco_loop l i len) -> In (w_cause w) l.
Proof.
  induction l as [|c r IH]; simpl; intros i len w H; [contradiction|].
  apply in_app_or in H as [H|H]; [|right; eapply IH; eauto].
  destruct (_ && _); [|contradiction]. destruct H as [<-|[]]. left. reflexivity.
Qed.

Lemma defaultCaseOrder_cause f w : In w (warnings (run_defaultCaseOrder f)) -> cause_in_file f w.
Proof.
  intros H. apply run_stmt_warn in H as [e [He Hw]]. unfold cause_in_file. unfold defaultCaseOrder_visit in Hw.
  destruct (negb _); [contradiction|]. destruct (switch_body e) as [body|] eqn:E; [|contradiction].
  simpl in Hw. apply dco_loop_in in Hw.
  eapply all_nodes_kid; [|exact Hw]. eapply all_nodes_kid; eauto. eapply switch_body_kid; eauto.
Qed.

Lemma ef_loop_in l : forall p w, In w (ef_loop l p) -> exists cc, In cc l /\ In (w_cause w) (kids cc).
Proof.
  induction l as [|cc r IH]; simpl; intros p w H; [contradiction|].
  assert (Rec : forall p', In w (ef_loop r p') -> exists cc0, (cc = cc0 \/ In cc0 r) /\ In (w_cause w) (kids cc0)).
  { intros p' H'. destruct (IH _ _ H') as [c0 [H1 H2]]. exists c0. auto. }
  destruct (negb (is_tag TCaseClause cc)); [eapply Rec; eauto|].
  destruct (case_body cc) as [|bs [|? ?]] eqn:Cb; try (eapply Rec; eauto; fail).
  destruct (is_tag TBranch bs && N.eqb (na bs) tok_FALLTHROUGH); [|eapply Rec; eauto].
  apply in_app_or in H as [H|H]; [|eapply Rec; eauto].
  exists cc. split; [auto|].
  assert (Hb : In bs (kids cc)).
  { unfold case_body in Cb. eapply skipn_In'. rewrite Cb. left. reflexivity. }
  destruct p; [destruct H as [<-|[]]; exact Hb|].
  destruct (negb (N.eqb (na cc) 0)); [|contradiction]. destruct H as [<-|[]]. exact Hb.
Qed.

Lemma emptyFallthrough_cause f w : In w (warnings (run_emptyFallthrough f)) -> cause_in_file f w.
Proof.
  intros H. apply run_stmt_warn in H as [e [He Hw]]. unfold cause_in_file. unfold emptyFallthrough_visit in Hw.
  destruct (negb _); [contradiction|]. destruct (switch_body e) as [body|] eqn:E; [|contradiction].
  simpl in Hw. apply ef_loop_in in Hw as [cc [Hc Hw]]. apply in_rev in Hc.
  eapply all_nodes_kid; [|exact Hw]. eapply all_nodes_kid; [|exact Hc].
  eapply all_nodes_kid; eauto. eapply switch_body_kid; eauto.
Qed.

Lemma initClause_cause f w : In w (warnings (run_initClause f)) -> cause_in_file f w.
Proof.
  intros H. apply run_stmt_warn in H as [e [He Hw]]. unfold cause_in_file. unfold initClause_visit in Hw.
  dmatch_in Hw. destruct Hw as [<-|[]]. exact He.
Qed.

Lemma singleCaseSwitch_cause f w : In w (warnings (run_singleCaseSwitch f)) -> cause_in_file f w.
Proof.
  intros H. apply run_stmt_warn in H as [e [He Hw]]. unfold cause_in_file. unfold singleCaseSwitch_visit in Hw.
  dmatch_in Hw; destruct Hw as [<-|[]]; exact He.
Qed.

Lemma elseif_cause skip f w : In w (warnings (run_elseif skip f)) -> cause_in_file f w.
Proof.
  intros H. apply run_stmt_warn in H as [e [He Hw]]. unfold cause_in_file. unfold elseif_visit in Hw.
  destruct (negb (is_tag TIf e)); [contradiction|].
  destruct (if_else e) as [els|] eqn:E; [|contradiction].
  assert (Hels : In els (all_nodes f)) by (eapply all_nodes_kid; eauto; eapply if_else_kid; eauto).
  cbv zeta in Hw. dmatch_in Hw. destruct Hw as [<-|[]]. exact Hels.
Qed.

Lemma dil_in_aux :
  (forall n inf w, In w (dil inf n) -> In (w_cause w) (pre n)) /\
  (forall l inf w, In w (dils inf l) -> In (w_cause w) (pres l)).
Proof.
  apply node_mutind.
  - intros t p str a b ff k IH inf w H.
    assert (D : forall i, In w (dils i k) -> In (w_cause w) (pre (Nd t p str a b ff k))).
    { intros i Hi. simpl. right. eapply IH; eauto. }
    destruct t; simpl in H; try (eapply D; eauto; fail).
    + (* TFuncLit *)
      destruct k as [|x body]; [contradiction|]. simpl. right.
      apply (IH false w). simpl. apply in_or_app. right. exact H.
    + apply in_app_or in H as [H|H]; [|eapply D; eauto].
      destruct inf; [|contradiction]. destruct H as [<-|[]]. simpl. left. reflexivity.
  - intros inf w H. contradiction.
  - intros n IHn r IHr inf w H. simpl in H. apply in_app_or in H as [H|H]; simpl; apply in_or_app; eauto.
Qed.

Lemma deferInLoop_cause f w : In w (warnings (run_deferInLoop f)) -> cause_in_file f w.
Proof.
  intros H. apply run_funcdecl_warn in H as [d [Hd [T Hw]]]. unfold cause_in_file. unfold deferInLoop_visit in Hw.
  destruct (fd_body d) as [b|] eqn:E; [|contradiction]. simpl in Hw.
  apply (proj1 dil_in_aux) in Hw. eapply all_nodes_closed; [|exact Hw].
  eapply all_nodes_kid; eauto. eapply fd_body_kid; eauto.
Qed.

Lemma ur_loop_cause d tys : forall seen w, In w (ur_loop d tys seen) -> w_cause w = d.
Proof.
  induction tys as [|ty r IH]; simpl; intros seen w H; [contradiction|].
  destruct (_ || _); [eapply IH; eauto|]. destruct H as [<-|[]]. reflexivity.
Qed.

Lemma unnamedResult_cause ce f w : In w (warnings (run_unnamedResult ce f)) -> cause_in_file f w.
Proof.
  intros H. apply run_funcdecl_warn in H as [d [Hd [T Hw]]]. unfold cause_in_file. unfold unnamedResult_visit in Hw.
  destruct (fd_name d); [|contradiction]. destruct (fd_type d); [|contradiction].
  destruct (ce && _); [contradiction|]. destruct (ft_results n0) as [results|]; [|contradiction].
  cbv zeta in Hw. destruct (match kids results with [] => false | f0 :: _ => negb (N.eqb (na f0) 0) end); [contradiction|].
  destruct (Nat.eqb (num_fields results) 2).
  - dmatch_in Hw. destruct Hw as [<-|[]]. exact Hd.
  - simpl in Hw. apply ur_loop_cause in Hw. rewrite Hw. exact Hd.
Qed.

Lemma paramTypeCombine_cause f w : In w (warnings (run_paramTypeCombine f)) -> cause_in_file f w.
Proof.
  intros H. apply run_funcdecl_warn in H as [d [Hd [T Hw]]]. unfold cause_in_file. unfold paramTypeCombine_visit in Hw.
  destruct (fd_type d) as [ft|] eqn:E; [|contradiction].
  assert (Hft : In ft (all_nodes f)) by (eapply all_nodes_kid; eauto; eapply fd_type_kid; eauto).
  dmatch_in Hw. destruct Hw as [<-|[]]. exact Hft.
Qed.

Lemma ptr_check_params_cause f fl w :
  In fl (all_nodes f) -> In w (ptr_check_params fl) -> In (w_cause w) (all_nodes f).
Proof.
  intros Hfl H. unfold ptr_check_params in H. apply in_flat_map in H as [fld [Hf Hw]].
  assert (Hfld : In fld (all_nodes f)) by (eapply all_nodes_kid; eauto).
  destruct (field_type fld); [|contradiction]. destruct (xbit x_ptr_ref n); [|contradiction].
  destruct (N.eqb (na fld) 0).
  - destruct Hw as [<-|[]]. exact Hfld.
  - apply in_map_iff in Hw as [id [<- Hid]]. simpl. eapply all_nodes_kid; eauto. apply field_names_kid; auto.
Qed.

Lemma ptrToRefParam_cause f w : In w (warnings (run_ptrToRefParam f)) -> cause_in_file f w.
Proof.
  intros H. apply run_funcdecl_warn in H as [d [Hd [T Hw]]]. unfold cause_in_file. unfold ptrToRefParam_visit in Hw.
  destruct (fd_type d) as [ft|] eqn:E; [|contradiction].
  assert (Hft : In ft (all_nodes f)) by (eapply all_nodes_kid; eauto; eapply fd_type_kid; eauto).
  simpl in Hw. apply in_app_or in Hw as [Hw|Hw].
  - destruct (ft_params ft) as [p|] eqn:Ep; [|contradiction]. eapply ptr_check_params_cause; [|exact Hw].
    eapply all_nodes_kid; eauto. eapply ft_params_kid; eauto.
  - destruct (ft_results ft) as [p|] eqn:Ep; [|contradiction]. eapply ptr_check_params_cause; [|exact Hw].
    eapply all_nodes_kid; eauto. eapply ft_results_kid; eauto.
Qed.

(* checkers that report at the visited node itself *)
Ltac cause_is_visited Hw He := dmatch_in Hw; destruct Hw as [<-|[]]; exact He.

Lemma sloppyTypeAssert_cause f w : In w (warnings (run_sloppyTypeAssert f)) -> cause_in_file f w.
Proof.
  intros H. apply run_expr_warn in H as [e [He Hw]]. unfold cause_in_file. unfold sloppyTypeAssert_visit in Hw.
  cause_is_visited Hw He.
Qed.

Lemma octalLiteral_cause f w : In w (warnings (run_octalLiteral f)) -> cause_in_file f w.
Proof.
  intros H. apply run_expr_warn in H as [e [He Hw]]. unfold cause_in_file. unfold octalLiteral_visit in Hw.
  cbv zeta in Hw. cause_is_visited Hw He.
Qed.

Lemma hexLiteral_cause f w : In w (warnings (run_hexLiteral f)) -> cause_in_file f w.
Proof.
  intros H. apply run_expr_warn in H as [e [He Hw]]. unfold cause_in_file. unfold hexLiteral_visit in Hw.
  cbv zeta in Hw. dmatch_in Hw; destruct Hw as [<-|[]]; exact He.
Qed.

Lemma weakCond_cause f w : In w (warnings (run_weakCond f)) -> cause_in_file f w.
Proof.
  intros H. apply run_expr_warn in H as [e [He Hw]]. unfold cause_in_file. unfold weakCond_visit in Hw.
  destruct e as [t p str a b ff ks]. destruct t; try contradiction.
  destruct ks as [|cx [|cy [|? ?]]]; try contradiction.
  destruct (unparen cx) as [t2 ? ? ? ? ? k2]. destruct t2; try contradiction.
  destruct k2 as [|x [|ly [|? ?]]]; try contradiction. cbv zeta in Hw.
  dmatch_in Hw. destruct Hw as [<-|[]]. exact He.
Qed.

Lemma methodExprCall_cause f w : In w (warnings (run_methodExprCall f)) -> cause_in_file f w.
Proof.
  intros H. apply run_expr_warn in H as [e [He Hw]]. unfold cause_in_file. unfold methodExprCall_visit in Hw.
  dmatch_in Hw. destruct Hw as [<-|[]]. exact He.
Qed.

Lemma dupBranchBody_cause f w : In w (warnings (run_dupBranchBody f)) -> cause_in_file f w.
Proof.
  intros H. apply run_stmt_warn in H as [e [He Hw]]. unfold cause_in_file. unfold dupBranchBody_visit in Hw.
  cause_is_visited Hw He.
Qed.

Lemma underef_cause skip f w : In w (warnings (run_underef skip f)) -> cause_in_file f w.
Proof.
  intros H. apply run_expr_warn in H as [e [He Hw]]. unfold cause_in_file. unfold underef_visit in Hw.
  destruct e as [t p str a b ff ks]. destruct t; try contradiction; dmatch_in Hw; destruct Hw as [<-|[]]; exact He.
Qed.

(* --- LocalDef walker: every definition shown to the visitor is an identifier of the function --- *)
Definition defs_in (l : list (node * nkind)) (scope : list node) : Prop := forall p, In p l -> In (fst p) scope.

Lemma defs_in_app a b scope : defs_in a scope -> defs_in b scope -> defs_in (a ++ b) scope.
Proof. intros Ha Hb p H. apply in_app_or in H as [H|H]; auto. Qed.

Lemma defs_in_mono a s1 s2 : defs_in a s1 -> (forall x, In x s1 -> In x s2) -> defs_in a s2.
Proof. intros Ha Hs p H. auto. Qed.

Lemma named_defs_in k fl : defs_in (named_defs k fl) (pre fl).
Proof.
  intros p H. unfold named_defs in H. apply in_map_iff in H as [id [<- Hid]]. simpl.
  apply in_flat_map in Hid as [fld [Hf Hid]]. eapply pre_kid; eauto. apply kid_in_pre. apply field_names_kid. auto.
Qed.

Lemma ld_signature_in d l : ld_signature d = R l -> defs_in l (pre d).
Proof.
  unfold ld_signature. destruct (fd_type d) as [ft|] eqn:Eft; [|intros [= <-] p []]. cbv zeta.
  assert (Hft : forall x, In x (pre ft) -> In x (pre d)) by (intros; eapply pre_kid; eauto; eapply fd_type_kid; eauto).
  assert (Hp : defs_in (match ft_params ft with Some p => named_defs NParam p | None => [] end) (pre d)).
  { destruct (ft_params ft) as [p|] eqn:E; [|intros ? []]. eapply defs_in_mono; [apply named_defs_in|].
    intros; apply Hft. eapply pre_kid; eauto. eapply ft_params_kid; eauto. }
  assert (Hr : defs_in (match ft_results ft with Some p => named_defs NParam p | None => [] end) (pre d)).
  { destruct (ft_results ft) as [p|] eqn:E; [|intros ? []]. eapply defs_in_mono; [apply named_defs_in|].
    intros; apply Hft. eapply pre_kid; eauto. eapply ft_results_kid; eauto. }
  destruct (fd_recv d) as [recv|] eqn:Er.
  - destruct (kids recv) as [|fld ?] eqn:Kr; [discriminate|].
    destruct (field_names fld) as [|id ?] eqn:Fn; intros [= <-]; repeat apply defs_in_app; auto.
    intros p [<-|[]]. simpl. eapply pre_kid; [eapply fd_recv_kid; eauto|].
    eapply pre_kid; [rewrite Kr; left; reflexivity|]. apply kid_in_pre. apply field_names_kid. rewrite Fn. left. reflexivity.
  - intros [= <-]. apply defs_in_app; auto.
Qed.

Lemma ld_valuespec_in tok spec l : ld_valuespec tok spec = R l -> defs_in l (pre spec).
Proof.
  unfold ld_valuespec. cbv zeta. intros H p Hp.
  assert (K : forall g, In p (map (fun id => (id, g id)) (firstn (N.to_nat (na spec)) (kids spec))) -> In (fst p) (pre spec)).
  { intros g Hg. apply in_map_iff in Hg as [id [<- Hid]]. simpl. apply kid_in_pre. eapply firstn_In'; eauto. }
  destruct (skipn _ (kids spec)).
  - injection H as <-. apply (K (fun _ => NVar)). exact Hp.
  - destruct (negb _); injection H as <-.
    + apply (K (fun _ => NVar)). exact Hp.
    + apply (K (fun _ => if N.eqb tok tok_CONST then NConst else NVar)). exact Hp.
Qed.

Lemma ld_specs_in tok specs : forall l, ld_specs tok specs = R l -> defs_in l (flat_map pre specs).
Proof.
  induction specs as [|spec r IH]; simpl; intros l H; [injection H as <-; intros ? []|].
  destruct (negb _); [injection H as <-; intros ? []|].
  destruct (ld_valuespec tok spec) eqn:E1; [|discriminate]. destruct (ld_specs tok r) eqn:E2; [|discriminate].
  injection H as <-. apply defs_in_app.
  - eapply defs_in_mono; [eapply ld_valuespec_in; eauto|]. intros; apply in_or_app; auto.
  - eapply defs_in_mono; [eapply IH; eauto|]. intros; apply in_or_app; auto.
Qed.

Lemma pres_flat_map l : pres l = flat_map pre (to_list l).
Proof. induction l as [|n r IH]; simpl; [reflexivity|]. rewrite IH. reflexivity. Qed.

Lemma ld_assign_in x l : ld_assign x = R l -> defs_in l (pre x).
Proof.
  unfold ld_assign. destruct (negb _); [intros [= <-] ? []|]. cbv zeta.
  assert (K : defs_in (map (fun id => (id, NVar)) (filter is_def_ident (firstn (N.to_nat (nb x)) (kids x)))) (pre x)).
  { intros p Hp. apply in_map_iff in Hp as [id [<- Hid]]. simpl. apply filter_In in Hid as [Hid _].
    apply kid_in_pre. eapply firstn_In'; eauto. }
  destruct (negb _).
  - destruct (map _ _) eqn:M; [intros [= <-] ? []|]. rewrite <- M in *.
    destruct (skipn _ _); [discriminate|]. intros [= <-]. exact K.
  - intros [= <-]. exact K.
Qed.

Lemma ld_body_in_aux :
  (forall n l, ld_body n = R l -> defs_in l (pre n)) /\ (forall k l, ld_bodies k = R l -> defs_in l (pres k)).
Proof.
  apply node_mutind.
  - intros t p str a b ff k IH l H.
    assert (D : ld_bodies k = R l -> defs_in l (pre (Nd t p str a b ff k))).
    { intros H'. eapply defs_in_mono; [eapply IH; eauto|]. intros; simpl; auto. }
    destruct t; simpl in H; try (apply D; exact H).
    + apply ld_assign_in. exact H.
    + eapply defs_in_mono; [eapply ld_specs_in; eauto|]. intros x Hx. simpl. right. rewrite pres_flat_map. exact Hx.
  - intros l [= <-] ? [].
  - intros n IHn r IHr l H. simpl in H.
    destruct (ld_body n) eqn:E1; [|discriminate]. destruct (ld_bodies r) eqn:E2; [|discriminate].
    injection H as <-. apply defs_in_app.
    + eapply defs_in_mono; [eapply IHn; eauto|]. intros; simpl; apply in_or_app; auto.
    + eapply defs_in_mono; [eapply IHr; eauto|]. intros; simpl; apply in_or_app; auto.
Qed.

Lemma local_defs_of_in d l : local_defs_of d = R l -> defs_in l (pre d).
Proof.
  unfold local_defs_of. destruct (ld_signature d) eqn:E1; [|discriminate].
  destruct (fd_body d) as [b|] eqn:Eb.
  - destruct (ld_body b) eqn:E2; [|discriminate]. intros [= <-]. apply defs_in_app.
    + eapply ld_signature_in; eauto.
    + eapply defs_in_mono; [eapply (proj1 ld_body_in_aux); eauto|]. intros; eapply pre_kid; eauto. eapply fd_body_kid; eauto.
  - intros [= <-]. eapply ld_signature_in; eauto.
Qed.

Lemma local_defs_all_in f ds : (forall d, In d ds -> In d (all_nodes f)) ->
  forall l, local_defs_all ds = R l -> defs_in l (all_nodes f).
Proof.
  induction ds as [|d r IH]; simpl; intros Hd l H; [injection H as <-; intros ? []|].
  destruct (local_defs_of d) eqn:E1; [|discriminate]. destruct (local_defs_all r) eqn:E2; [|discriminate].
  injection H as <-. apply defs_in_app.
  - eapply defs_in_mono; [eapply local_defs_of_in; eauto|]. intros; eapply all_nodes_closed; eauto.
  - apply IH; auto.
Qed.

Lemma run_localdef_cause visit f w :
  (forall def w, In w (visit def) -> w_cause w = fst def) ->
  In w (warnings (run_localdef visit f)) -> cause_in_file f w.
Proof.
  intros V H. unfold run_localdef in H. unfold cause_in_file.
  destruct (local_defs_all (func_decls false f)) eqn:E; [|contradiction].
  simpl in H. apply in_flat_map in H as [def [Hd Hw]]. rewrite (V _ _ Hw).
  exact (local_defs_all_in f (func_decls false f) (fun d Hd' => proj1 (func_decls_in _ _ _ Hd')) a E def Hd).
Qed.

Lemma captLocal_cause po f w : In w (warnings (run_captLocal po f)) -> cause_in_file f w.
Proof.
  apply run_localdef_cause. intros [id k] w0 H. unfold captLocal_visit in H.
  dmatch_in H; destruct H as [<-|[]]; reflexivity.
Qed.

Lemma builtinShadow_cause f w : In w (warnings (run_builtinShadow f)) -> cause_in_file f w.
Proof.
  apply run_localdef_cause. intros def w0 H. unfold builtinShadow_visit in H.
  destruct (is_builtin _); [|contradiction]. destruct H as [<-|[]]. reflexivity.
Qed.

(* --- exitAfterDefer: the reported call is inside the function body; the qualifier it was recognised by --- *)
Definition ead_ok (scope : list node) (r : option node * option warning) : Prop :=
  match snd r with
  | Some w => In (w_cause w) scope /\ exists fn, In fn scope /\ w_callee w = obj_of (callee_ident fn) /\ mem (qualified_name fn) exit_names = true /\ w_recog w = exit_recog (qualified_name fn)
  | None => True
  end.

Lemma ead_in_aux :
  (forall n ie pd st, ead_ok (pre n) (ead n ie pd st)) /\ (forall l ei i pd st, ead_ok (pres l) (eads l ei i pd st)).
Proof.
  apply node_mutind.
  - intros t p str a b ff k IH ie pd st. simpl.
    destruct (match st with Some _ => ie | None => false end); [exact I|].
    destruct (tag_eqb t TFuncLit); [exact I|].
    specialize (IH (if tag_eqb t TIf && N.eqb b 1 then Some (N.to_nat a + 2) else None) 0 (tag_eqb t TDefer) st).
    destruct (eads k _ 0 (tag_eqb t TDefer) st) as [st' [w|]].
    + unfold ead_ok in *. simpl in *. destruct IH as [H1 [fn [H2 H3]]]. split; [auto|]. exists fn. split; [auto|exact H3].
    + destruct t; try exact I.
      destruct pd; [exact I|]. destruct st' as [ds|]; [|exact I]. destruct k as [|fn rest]; [exact I|].
      destruct (mem (qualified_name fn) exit_names) eqn:M; [|exact I].
      unfold ead_ok. simpl. split; [auto|]. exists fn. repeat split; auto.
      right. apply in_or_app. left. apply pre_self.
  - intros. exact I.
  - intros n IHn r IHr ei i pd st. simpl.
    specialize (IHn (match ei with Some j => Nat.eqb i j | None => false end) pd st).
    destruct (ead n _ pd st) as [st' [w|]].
    + unfold ead_ok in *. simpl in *. destruct IHn as [H1 [fn [H2 H3]]]. split; [apply in_or_app; auto|].
      exists fn. split; [apply in_or_app; auto|exact H3].
    + specialize (IHr ei (S i) pd st'). unfold ead_ok in *. destruct (snd (eads r ei (S i) pd st')); [|exact I].
      destruct IHr as [H1 [fn [H2 H3]]]. split; [apply in_or_app; auto|].
      exists fn. split; [apply in_or_app; auto|exact H3].
Qed.

Lemma exitAfterDefer_facts f w :
  In w (warnings (run_exitAfterDefer f)) ->
  cause_in_file f w /\ exists fn, In fn (all_nodes f) /\ w_callee w = obj_of (callee_ident fn) /\ mem (qualified_name fn) exit_names = true /\ w_recog w = exit_recog (qualified_name fn).
Proof.
  intros H. apply run_funcdecl_warn in H as [d [Hd [T Hw]]]. unfold cause_in_file. unfold exitAfterDefer_visit in Hw.
  destruct (fd_body d) as [body|] eqn:E; [|contradiction].
  pose proof (proj1 ead_in_aux body false false None) as K. unfold ead_ok in K.
  destruct (snd (ead body false false None)) as [w'|]; [|contradiction].
  destruct Hw as [<-|[]]. destruct K as [H1 [fn [H2 H3]]].
  assert (Hb : forall x, In x (pre body) -> In x (all_nodes f)).
  { intros. eapply all_nodes_closed; eauto. eapply pre_kid; eauto. eapply fd_body_kid; eauto. }
  split; [auto|]. exists fn. split; [auto|exact H3].
Qed.

Lemma exitAfterDefer_cause f w : In w (warnings (run_exitAfterDefer f)) -> cause_in_file f w.
Proof. intros H. apply exitAfterDefer_facts in H. tauto. Qed.


(* --- C20: recognition by spelling is `log.Fatal*` / `os.Exit` with a qualifier spelled exactly `log` / `os` --- *)
Fixpoint nodot (s : string) : bool :=
  match s with EmptyString => true | String c r => negb (Ascii.eqb c ".") && nodot r end.

Lemma nodot_app_dot x y : nodot (x ++ String "." y) = false.
Proof. induction x as [|c r IH]; simpl; [reflexivity|]. rewrite IH. apply andb_false_r. Qed.

Lemma split_dot : forall q pre s post,
  nodot pre = true -> nodot post = true -> q ++ "." ++ s = pre ++ "." ++ post -> q = pre.
Proof.
  induction q as [|a q IH]; intros [|b pre] s post Hp Hq H; simpl in *.
  - reflexivity.
  - injection H as <- _. discriminate Hp.
  - injection H as -> H. rewrite <- H in Hq. rewrite nodot_app_dot in Hq. discriminate.
  - injection H as -> H. apply andb_true_iff in Hp as [_ Hp]. f_equal. eapply IH; eauto.
Qed.

Lemma qualified_exit fn :
  is_tag TIdent fn = false -> mem (qualified_name fn) exit_names = true ->
  is_tag TIdent (callee_ident fn) = true /\
  ((nstr (callee_ident fn) = "log" /\ exit_recog (qualified_name fn) = RQual "log" "log") \/
   (nstr (callee_ident fn) = "os" /\ exit_recog (qualified_name fn) = RQual "os" "os")).
Proof.
  destruct fn as [t p str a b ff k]. intros T H.
  destruct t; try (vm_compute in H; discriminate H); [discriminate T|].
  destruct k as [|x r]; try (vm_compute in H; discriminate H).
  destruct x as [tx px q ax bx fx kx]. destruct tx; try (vm_compute in H; discriminate H).
  destruct r as [|sel [|? ?]]; try (vm_compute in H; discriminate H). simpl in *.
  split; [reflexivity|]. unfold exit_names, mem in H. simpl in H.
  assert (S : forall pre post, nodot pre = true -> nodot post = true -> (q ++ "." ++ nstr sel)%string = (pre ++ "." ++ post)%string -> q = pre)
    by (intros; eapply split_dot; eauto).
  repeat (apply orb_true_iff in H as [H|H]); try discriminate; apply String.eqb_eq in H.
  - left. rewrite H. split; [|reflexivity]. apply (S "log" "Fatal"); auto.
  - left. rewrite H. split; [|reflexivity]. apply (S "log" "Fatalf"); auto.
  - left. rewrite H. split; [|reflexivity]. apply (S "log" "Fatalln"); auto.
  - right. rewrite H. split; [|reflexivity]. apply (S "os" "Exit"); auto.
Qed.

Lemma exitAfterDefer_real_partial f w :
  all_nodes_sat g_no_namesake_exit f -> In w (warnings (run_exitAfterDefer f)) -> is_real w = true.
Proof.
  intros G H. apply exitAfterDefer_facts in H as [_ [fn [Hfn [Hc [Hm Hr]]]]].
  pose proof (sat_of _ _ _ G Hfn) as Gfn. unfold g_no_namesake_exit in Gfn.
  apply andb_true_iff in Gfn as [_ Gd]. apply negb_true_iff in Gd.
  assert (Ti : is_tag TIdent fn = false).
  { destruct (is_tag TIdent fn) eqn:T; [|reflexivity]. simpl in Gd.
    destruct fn as [t ? ? ? ? ? ?]. unfold is_tag in T. simpl in T. apply tag_eqb_eq in T. subst t. simpl in Hm.
    simpl in Gd. rewrite Hm in Gd. discriminate. }
  destruct (qualified_exit fn Ti Hm) as [Tq Hq].
  assert (Hqn : In (callee_ident fn) (all_nodes f)).
  { destruct fn as [t ? ? ? ? ? k]. destruct t; simpl; auto. destruct k as [|x ?]; [exact Hfn|].
    eapply all_nodes_kid; eauto. unfold kids. simpl. auto. }
  pose proof (sat_of _ _ _ G Hqn) as Gq. unfold g_no_namesake_exit in Gq.
  apply andb_true_iff in Gq as [Gq _]. apply andb_true_iff in Gq as [G1 G2].
  unfold g_no_namesake_qual in G1, G2. rewrite Tq in G1, G2. simpl in G1, G2.
  unfold is_real. rewrite Hr, Hc.
  destruct Hq as [[Hn ->]|[Hn ->]]; rewrite Hn in *; simpl in *; assumption.
Qed.

(* ================= unlambda: result.Args[n] is in range when the literal's type is the callee's ================= *)
Fixpoint ul_need (flds : list node) (ell : bool) : nat :=
  match flds with
  | [] => 0
  | fld :: r =>
      match field_type fld with
      | None => 0
      | Some ty => if is_ellipsis ty then (if negb ell then 0 else 1 + ul_need r ell) else length (field_names fld) + ul_need r ell
      end
  end.

Lemma ul_names_total ids : forall args n s, n + length ids <= length args -> ul_names ids args n <> P s.
Proof.
  induction ids as [|id r IH]; simpl; intros args n s H; [discriminate|].
  destruct (nth_error args n) eqn:E; [|apply nth_error_None in E; lia].
  destruct (node_eqb id n0); [apply IH; lia|discriminate].
Qed.

Lemma ul_names_res ids : forall args n n', ul_names ids args n = R (Some n') -> n' = n + length ids.
Proof.
  induction ids as [|id r IH]; simpl; intros args n n' H; [injection H as <-; lia|].
  destruct (nth_error args n); [|discriminate]. destruct (node_eqb id n0); [|discriminate].
  apply IH in H. lia.
Qed.

Lemma ul_params_total flds : forall args ell n s, n + ul_need flds ell <= length args -> ul_params flds args ell n <> P s.
Proof.
  induction flds as [|fld r IH]; simpl; intros args ell n s H; [discriminate|].
  destruct (field_type fld) as [ty|]; [|discriminate].
  destruct (is_ellipsis ty).
  - destruct (negb ell); [discriminate|]. apply IH. lia.
  - destruct (ul_names (field_names fld) args n) as [[n'|]|s0] eqn:E.
    + apply ul_names_res in E. apply IH. lia.
    + discriminate.
    + exfalso. eapply ul_names_total; [|exact E]. lia.
Qed.

Lemma ul_need_le_slots flds ell : ul_need flds ell <= slots_of flds.
Proof.
  induction flds as [|fld r IH]; simpl; [lia|]. destruct (field_type fld) as [ty|]; [|lia].
  assert (L : length (field_names fld) <= (if N.eqb (na fld) 0 then 1 else N.to_nat (na fld))).
  { unfold field_names. rewrite firstn_length. destruct (N.eqb (na fld) 0) eqn:E; [apply N.eqb_eq in E; rewrite E; simpl; lia|lia]. }
  destruct (is_ellipsis ty); [destruct (negb ell); lia|lia].
Qed.

Lemma ul_need_variadic flds : last_is_ellipsis flds = true -> ul_need flds false + 1 <= slots_of flds.
Proof.
  induction flds as [|fld r IH]; [discriminate|]. intros H.
  pose proof (ul_need_le_slots r false) as Lr.
  assert (L : length (field_names fld) <= (if N.eqb (na fld) 0 then 1 else N.to_nat (na fld))).
  { unfold field_names. rewrite firstn_length. destruct (N.eqb (na fld) 0) eqn:E; [apply N.eqb_eq in E; rewrite E; simpl; lia|lia]. }
  destruct r as [|f2 r2].
  - simpl in *. destruct (field_type fld) as [ty|]; [|discriminate]. rewrite H. simpl. lia.
  - change (last_is_ellipsis (fld :: f2 :: r2)) with (last_is_ellipsis (f2 :: r2)) in H. specialize (IH H).
    change (ul_need (fld :: f2 :: r2) false) with
      (match field_type fld with None => 0 | Some ty => if is_ellipsis ty then 0 else length (field_names fld) + ul_need (f2 :: r2) false end).
    change (slots_of (fld :: f2 :: r2)) with
      ((match field_type fld with Some ty => if is_ellipsis ty then 1 else (if N.eqb (na fld) 0 then 1 else N.to_nat (na fld)) | None => 0 end) + slots_of (f2 :: r2)).
    destruct (field_type fld) as [ty|]; [|lia]. destruct (is_ellipsis ty); lia.
Qed.

(* f(g()) with g multi-valued: the single argument is not an identifier, the first comparison fails *)
Lemma ul_params_forward flds a0 :
  (forall fld id, In fld flds -> In id (field_names fld) -> node_eqb id a0 = false) ->
  forall s, ul_params flds [a0] false 0 <> P s.
Proof.
  induction flds as [|fld r IH]; simpl; intros H s; [discriminate|].
  destruct (field_type fld) as [ty|]; [|discriminate].
  destruct (is_ellipsis ty); [discriminate|].
  destruct (field_names fld) as [|id ids] eqn:Fn.
  - simpl. apply IH. intros; eapply H; eauto.
  - simpl. rewrite (H fld id (or_introl eq_refl)); [discriminate|rewrite Fn; left; reflexivity].
Qed.

Lemma node_eqb_tag x y : ntag x <> ntag y -> node_eqb x y = false.
Proof.
  destruct x as [t1 ? ? ? ? ? ?], y as [t2 ? ? ? ? ? ?]. simpl. intros H.
  destruct (tag_eqb t1 t2) eqn:E; [apply tag_eqb_eq in E; contradiction|reflexivity].
Qed.

Lemma ul_shape_inv e ps call : ul_shape e = Some (ps, call) ->
  exists p s a b ff ft body ret,
    e = Nd TFuncLit p s a b ff (NC ft (NC body NN)) /\ ft_params ft = Some ps /\ kids body = [ret] /\ kids ret = [call].
Proof.
  intros H. unfold ul_shape in H.
  destruct e as [t p s a b ff k]. destruct t; try discriminate.
  destruct k as [|ft [|body [|? ?]]]; try discriminate.
  destruct (kids body) as [|ret [|? ?]] eqn:Kb; try discriminate.
  destruct (negb (is_tag TReturn ret)); [discriminate|].
  destruct (kids ret) as [|c [|? ?]] eqn:Kr; try discriminate.
  destruct (is_tag TCall c); [|discriminate].
  destruct (ft_params ft) as [ps0|] eqn:Ep; [|discriminate]. injection H as <- <-.
  exists p, s, a, b, ff, ft, body, ret. auto.
Qed.

Lemma all_tag_In t l x : all_tag t l = true -> In x l -> ntag x = t.
Proof. unfold all_tag. rewrite forallb_forall. intros H Hx. apply is_tag_eq. auto. Qed.

Lemma unlambda_total_partial f :
  wf f = true -> all_nodes_sat g_unlambda_arity f -> forall s, run_unlambda f <> Panic s.
Proof.
  intros W G. apply run_expr_total. intros e He s. unfold unlambda_visit.
  destruct (ul_shape e) as [[ps call]|] eqn:Sh; [|discriminate].
  destruct (ul_shape_inv e ps call Sh) as [p0 [s0 [a0' [b0 [ff0 [ft [body [ret [Ee [Eps [Kb Kr]]]]]]]]]]].
  assert (Hft : In ft (all_nodes f)) by (apply (all_nodes_kid f e ft He); rewrite Ee; unfold kids; simpl; auto).
  assert (Hbody : In body (all_nodes f)) by (apply (all_nodes_kid f e body He); rewrite Ee; unfold kids; simpl; auto).
  assert (Hret : In ret (all_nodes f)) by (apply (all_nodes_kid f body ret Hbody); rewrite Kb; left; reflexivity).
  assert (Hcall : In call (all_nodes f)) by (apply (all_nodes_kid f ret call Hret); rewrite Kr; left; reflexivity).
  assert (Hps : In ps (all_nodes f)) by (apply (all_nodes_kid f ft ps Hft); eapply ft_params_kid; eauto).
  destruct (nkids call) as [|fn args] eqn:Kc; [discriminate|]. cbv zeta.
  destruct (String.eqb _ ""); [discriminate|]. destruct (is_builtin _); [discriminate|].
  destruct (contains_node _ fn); [discriminate|].
  destruct (xbit x_fn_same_type e) eqn:Same; simpl; [|discriminate].
  pose proof (sat_of _ _ _ G He) as Ge. unfold g_unlambda_arity in Ge. rewrite Sh, Same in Ge.
  apply andb_true_iff in Ge as [_ Ge].
  assert (Kc' : kids call = fn :: to_list args) by (unfold kids; rewrite Kc; reflexivity).
  rewrite Kc' in Ge. apply andb_true_iff in Ge as [_ Ar].
  destruct (ul_params (kids ps) (to_list args) (N.eqb (na call) 1) 0) as [[n|]|s1] eqn:E; try discriminate; [destruct (Nat.eqb _ n); discriminate|].
  exfalso. revert E.
  unfold arity_ok in Ar. rewrite Nat2N.id in Ar.
  destruct (Nat.eqb (length (to_list args)) 1 && negb (N.eqb (match to_list args with a0 :: _ => f_multi (nfacts a0) | [] => 0%N end) 0) && negb (N.eqb (na call) 1)) eqn:Multi.
  - (* multi-value forwarding: the single argument is not an identifier *)
    apply andb_true_iff in Multi as [Multi Ne]. apply andb_true_iff in Multi as [L1 Fm].
    apply negb_true_iff in Ne. rewrite Ne.
    destruct (to_list args) as [|a0 [|? ?]] eqn:Ka; try discriminate.
    apply ul_params_forward. intros fld id Hfld Hid. apply node_eqb_tag.
    assert (Ha0 : In a0 (all_nodes f)).
    { apply (all_nodes_kid f call a0 Hcall). rewrite Kc'. right. left. reflexivity. }
    pose proof (sat_of _ _ _ G Ha0) as Ga. unfold g_unlambda_arity in Ga. apply andb_true_iff in Ga as [Ga _].
    destruct (is_tag TIdent a0) eqn:Ta; [rewrite Ga in Fm; discriminate|].
    assert (Tft : ntag ft = TFuncType).
    { pose proof (wf_node_of _ _ W He) as We. rewrite Ee in We. unfold wf_node in We. simpl in We.
      apply andb_true_iff in We as [We _]. apply is_tag_eq. exact We. }
    assert (Tps : ntag ps = TFieldList).
    { pose proof (wf_node_of _ _ W Hft) as Wft. unfold wf_node in Wft. rewrite Tft in Wft.
      apply andb_true_iff in Wft as [Wft _]. apply andb_true_iff in Wft as [Wft _]. apply andb_true_iff in Wft as [Wft _].
      apply andb_true_iff in Wft as [_ Wft]. eapply all_tag_In; eauto. eapply ft_params_kid; eauto. }
    assert (Tfld : ntag fld = TField).
    { pose proof (wf_node_of _ _ W Hps) as Wps. unfold wf_node in Wps. rewrite Tps in Wps. eapply all_tag_In; eauto. }
    assert (Tid : ntag id = TIdent).
    { assert (Hfl : In fld (all_nodes f)) by (apply (all_nodes_kid f ps fld Hps Hfld)).
      pose proof (wf_node_of _ _ W Hfl) as Wfl. unfold wf_node in Wfl. rewrite Tfld in Wfl.
      apply andb_true_iff in Wfl as [Wfl _]. apply andb_true_iff in Wfl as [_ Wfl]. eapply all_tag_In; eauto. }
    rewrite Tid. intros Hc. unfold is_tag in Ta. rewrite <- Hc in Ta. simpl in Ta. discriminate.
  - apply ul_params_total. simpl.
    destruct (last_is_ellipsis (kids ps)) eqn:Var.
    + destruct (N.eqb (na call) 1).
      * apply Nat.eqb_eq in Ar. pose proof (ul_need_le_slots (kids ps) true). lia.
      * apply Nat.leb_le in Ar. pose proof (ul_need_variadic (kids ps) Var). lia.
    + apply Nat.eqb_eq in Ar. pose proof (ul_need_le_slots (kids ps) (N.eqb (na call) 1)). lia.
Qed.

Lemma unlambda_cause f w : In w (warnings (run_unlambda f)) -> cause_in_file f w.
Proof.
  intros H. apply run_expr_warn in H as [e [He Hw]]. unfold cause_in_file. unfold unlambda_visit in Hw.
  destruct (ul_shape e) as [[ps call]|]; [|contradiction].
  destruct (nkids call); [contradiction|]. cbv zeta in Hw.
  dmatch_in Hw. destruct Hw as [<-|[]]. exact He.
Qed.

(* ================= nilValReturn (fixed): the guard's right operand is the predeclared nil ================= *)
Lemma nodot_nil : nodot "nil" = true.
Proof. reflexivity. Qed.

Lemma nilValReturn_real f : wf f = true -> forall w, In w (warnings (run_nilValReturn f)) -> is_real w = true.
Proof.
  intros W w H. apply run_stmt_warn in H as [e [He Hw]]. unfold nilValReturn_visit in Hw. cbv zeta in Hw.
  destruct (negb (is_tag TIf e)); [contradiction|].
  destruct (nth_error (kids e) (N.to_nat (na e))) as [cond|] eqn:Ec; [|contradiction].
  destruct (nth_error (kids e) (N.to_nat (na e) + 1)) as [body|]; [|contradiction].
  destruct (kids body) as [|ret [|? ?]]; try contradiction.
  destruct (negb (is_tag TReturn ret)); [contradiction|].
  assert (Hc : In cond (all_nodes f)) by (eapply all_nodes_kid; eauto; eapply nth_error_In; eauto).
  destruct cond as [t p s a b ff k]. destruct t; try contradiction.
  destruct k as [|x [|y [|? ?]]]; try contradiction.
  destruct (N.eqb a tok_EQL && f_pure (nfacts x) && String.eqb (qualified_name y) "nil" && N.testbit (f_ext (nfacts y)) x_isnil) eqn:G; [|contradiction].
  destruct (existsb _ _); [|contradiction]. destruct Hw as [<-|[]].
  apply andb_true_iff in G as [G Nil]. apply andb_true_iff in G as [_ Q]. apply String.eqb_eq in Q.
  assert (Hy : In y (all_nodes f)) by (apply (all_nodes_kid f _ y Hc); unfold kids; simpl; auto).
  pose proof (wf_node_of _ _ W Hy) as Wy.
  destruct y as [ty py sy ay by_ fy ky]. destruct ty; simpl in Q; try discriminate.
  - (* an identifier spelled nil with the IsNil fact: wf says it is the universe nil *)
    unfold wf_node, kids in Wy. simpl in Wy. destruct ky; [|discriminate Wy]. simpl in Nil, Wy. rewrite Nil in Wy.
    unfold is_real. simpl. unfold obj_of. simpl. rewrite Wy. rewrite !orb_true_r. reflexivity.
  - (* a selector is never spelled nil *)
    exfalso. destruct ky as [|q [|sel [|? ?]]]; try discriminate. destruct q as [tq ? sq ? ? ? ?]. destruct tq; try discriminate.
    pose proof nodot_nil as N0. rewrite <- Q in N0. simpl in N0. rewrite nodot_app_dot in N0. discriminate.
Qed.
