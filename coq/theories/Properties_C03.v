(* Properties_C03.v — property C03: results do not depend on what was analysed before.
   Statements only; each is closed by [exact]. *)
From GC Require Import Base Model_Inventory Model_Walk Proofs_Walk Model_History Proofs_History Review_State.
From GCgen Require Import StateInventory.
From Coq Require Import Permutation.

(* ---- per modelled checker: the diagnostics of one Check do not depend on the scratch state it starts from ---- *)
Theorem C03_checker_buffer_init_irrelevant : forall (C F S : Type) (wf : C -> S -> F -> S * list warning),
  (forall c s s' f, snd (wf c s f) = snd (wf c s' f)) ->
  forall c bs bs' f, snd (check wf c bs f) = snd (check wf c bs' f).
Proof. exact @check_init_irrelevant. Qed.
Print Assumptions C03_checker_buffer_init_irrelevant.

Theorem C03_ifElseChain_init_irrelevant : forall s s' thr f, snd (iec_run thr s f) = snd (iec_run thr s' f).
Proof. intros. exact (walk_init_irrelevant _ _ (iec_local thr) f s s' I I). Qed.
Print Assumptions C03_ifElseChain_init_irrelevant.

Theorem C03_typeAssertChain_init_irrelevant : forall s s' ctx f, snd (tac_run ctx s f) = snd (tac_run ctx s' f).
Proof. intros. exact (walk_init_irrelevant _ _ tac_local f s s' I I). Qed.
Print Assumptions C03_typeAssertChain_init_irrelevant.

Theorem C03_dupCase_init_irrelevant : forall s s' ctx f, snd (dc_run ctx s f) = snd (dc_run ctx s' f).
Proof. intros. exact (walk_init_irrelevant _ _ dc_local f s s' I I). Qed.
Print Assumptions C03_dupCase_init_irrelevant.

Theorem C03_mapKey_init_irrelevant : forall s s' ctx f, snd (mk_run ctx s f) = snd (mk_run ctx s' f).
Proof. intros. exact (walk_init_irrelevant _ _ mk_local f s s' I I). Qed.
Print Assumptions C03_mapKey_init_irrelevant.

Theorem C03_typeSwitchVar_init_irrelevant : forall s s' ctx f, snd (tsv_run ctx s f) = snd (tsv_run ctx s' f).
Proof. intros. exact (walk_init_irrelevant _ _ tsv_local f s s' I I). Qed.
Print Assumptions C03_typeSwitchVar_init_irrelevant.

Theorem C03_typeDefFirst_init_irrelevant : forall s s' ctx f, snd (tdf_run ctx s f) = snd (tdf_run ctx s' f).
Proof. intros. exact (tdf_init_irrelevant s s' ctx f). Qed.
Print Assumptions C03_typeDefFirst_init_irrelevant.

Theorem C03_commentedOutCode_init_irrelevant : forall s s' ctx f, snd (coc_run ctx s f) = snd (coc_run ctx s' f).
Proof. intros. exact (walk_init_irrelevant _ _ coc_local f s s' I I). Qed.
Print Assumptions C03_commentedOutCode_init_irrelevant.

(* SkipChilds: the flag is a one-shot; on the reachable states (flag consumed = false) the start state is irrelevant,
   and every walk re-establishes that invariant *)
Theorem C03_skipChilds_consumed : forall ctx fl f, fl = false -> fst (sk_run ctx fl f) = false.
Proof. intros ctx fl f H. exact (walk_inv _ _ sk_local f fl H). Qed.
Print Assumptions C03_skipChilds_consumed.

Theorem C03_skipChilds_init_irrelevant : forall s s' ctx f, s = false -> s' = false -> snd (sk_run ctx s f) = snd (sk_run ctx s' f).
Proof. intros s s' ctx f H H'. exact (walk_init_irrelevant _ _ sk_local f s s' H H'). Qed.
Print Assumptions C03_skipChilds_init_irrelevant.

(* ---- histories: any long-lived checker whose Check is init-irrelevant on an invariant it maintains ---- *)
Theorem C03_history_irrelevant : forall (C F S : Type) (scratch0 : S) (run : C -> S -> F -> S * list warning) (Inv : S -> Prop),
  Inv scratch0 -> (forall c s f, Inv s -> Inv (fst (run c s f))) ->
  (forall c s s' f, Inv s -> Inv s' -> snd (run c s f) = snd (run c s' f)) ->
  forall h c f, result_after scratch0 run h c f = result_fresh scratch0 run c f.
Proof. exact @history_irrelevant. Qed.
Print Assumptions C03_history_irrelevant.

Theorem C03_order_of_packages_irrelevant : forall (C F S : Type) (scratch0 : S) (run : C -> S -> F -> S * list warning) (Inv : S -> Prop),
  Inv scratch0 -> (forall c s f, Inv s -> Inv (fst (run c s f))) ->
  (forall c s s' f, Inv s -> Inv s' -> snd (run c s f) = snd (run c s' f)) ->
  forall h h', Permutation h h' -> Permutation (cli_run scratch0 run h) (cli_run scratch0 run h').
Proof. exact @cli_order_irrelevant. Qed.
Print Assumptions C03_order_of_packages_irrelevant.

Theorem C03_grouping_irrelevant : forall (C F S : Type) (scratch0 : S) (run : C -> S -> F -> S * list warning) (Inv : S -> Prop),
  Inv scratch0 -> (forall c s f, Inv s -> Inv (fst (run c s f))) ->
  (forall c s s' f, Inv s -> Inv s' -> snd (run c s f) = snd (run c s' f)) ->
  forall h1 h2, cli_run scratch0 run (h1 ++ h2)%list = (cli_run scratch0 run h1 ++ cli_run scratch0 run h2)%list.
Proof. exact @cli_grouping_irrelevant. Qed.
Print Assumptions C03_grouping_irrelevant.

(* visit by visit: EVERY Check of a long-lived instance returns what a new instance returns for that file
   (this is the statement the per-file correspondence evaluates: [visits] of the model over converted real histories) *)
Theorem C03_visits_are_fresh : forall (C F S : Type) (scratch0 : S) (run : C -> S -> F -> S * list warning) (Inv : S -> Prop),
  Inv scratch0 -> (forall c s f, Inv s -> Inv (fst (run c s f))) ->
  (forall c s s' f, Inv s -> Inv s' -> snd (run c s f) = snd (run c s' f)) ->
  forall h, visits scratch0 run h = map (fun cf => result_fresh scratch0 run (fst cf) (snd cf)) h.
Proof. exact @visits_fresh. Qed.
Print Assumptions C03_visits_are_fresh.

(* the eight modelled visitors behind the linter.Checker wrapper: these are exactly the functions the generated
   correspondence files (work/C03/cases_hist_*.v) evaluate over converted real histories *)
Theorem C03_visits_fresh_modelled :
  (forall thr bs0 h, visits bs0 (check (fun (_ : unit) s f => iec_run thr s f)) h
                     = map (fun cf => result_fresh bs0 (check (fun (_ : unit) s f => iec_run thr s f)) (fst cf) (snd cf)) h)
  /\ (forall bs0 h, visits bs0 (check tac_run) h = map (fun cf => result_fresh bs0 (check tac_run) (fst cf) (snd cf)) h)
  /\ (forall bs0 h, visits bs0 (check dc_run) h = map (fun cf => result_fresh bs0 (check dc_run) (fst cf) (snd cf)) h)
  /\ (forall bs0 h, visits bs0 (check mk_run) h = map (fun cf => result_fresh bs0 (check mk_run) (fst cf) (snd cf)) h)
  /\ (forall bs0 h, visits bs0 (check tsv_run) h = map (fun cf => result_fresh bs0 (check tsv_run) (fst cf) (snd cf)) h)
  /\ (forall bs0 h, visits bs0 (check tdf_run) h = map (fun cf => result_fresh bs0 (check tdf_run) (fst cf) (snd cf)) h)
  /\ (forall bs0 h, visits bs0 (check coc_run) h = map (fun cf => result_fresh bs0 (check coc_run) (fst cf) (snd cf)) h).
Proof.
  exact (conj (fun thr => checker_visits_fresh _ (fun c s s' f => C03_ifElseChain_init_irrelevant s s' thr f))
        (conj (checker_visits_fresh _ (fun c s s' f => C03_typeAssertChain_init_irrelevant s s' c f))
        (conj (checker_visits_fresh _ (fun c s s' f => C03_dupCase_init_irrelevant s s' c f))
        (conj (checker_visits_fresh _ (fun c s s' f => C03_mapKey_init_irrelevant s s' c f))
        (conj (checker_visits_fresh _ (fun c s s' f => C03_typeSwitchVar_init_irrelevant s s' c f))
        (conj (checker_visits_fresh _ (fun c s s' f => C03_typeDefFirst_init_irrelevant s s' c f))
              (checker_visits_fresh _ (fun c s s' f => C03_commentedOutCode_init_irrelevant s s' c f)))))))).
Qed.
Print Assumptions C03_visits_fresh_modelled.

(* instances: the modelled checkers behind the linter.Checker wrapper, over any history *)
Theorem C03_history_irrelevant_ifElseChain : forall h c f,
  let run := check (fun thr s f => iec_run thr s f) in
  result_after ([], {| iec_cause := 0; iec_visited := [] |}) run h c f
  = result_fresh ([], {| iec_cause := 0; iec_visited := [] |}) run c f.
Proof.
  intros h c f run.
  exact (history_irrelevant _ run (fun _ => True) I (fun _ _ _ _ => I)
           (fun c bs bs' f _ _ => check_init_irrelevant _ (fun c s s' f => C03_ifElseChain_init_irrelevant s s' c f) c bs bs' f) h c f).
Qed.
Print Assumptions C03_history_irrelevant_ifElseChain.

Theorem C03_history_irrelevant_skipChilds : forall h c f,
  result_after false sk_run h c f = result_fresh false sk_run c f.
Proof.
  exact (history_irrelevant false sk_run (fun fl => fl = false) eq_refl
           (fun c s f H => C03_skipChilds_consumed c s f H)
           (fun c s s' f H H' => C03_skipChilds_init_irrelevant s s' c f H H')).
Qed.
Print Assumptions C03_history_irrelevant_skipChilds.

(* ---- the seeded defects are real defects of the model: each named reset is necessary ---- *)
Theorem C03_truncation_needed_refuted : forall (C F S : Type) (wf : C -> S -> F -> S * list warning) c s f w,
  snd (check_no_truncate wf c ([w], s) f) <> snd (check_no_truncate wf c ([], s) f).
Proof. exact @check_no_truncate_depends. Qed.
Print Assumptions C03_truncation_needed_refuted.

Theorem C03_skipChilds_reset_needed_refuted :
  let run := fun (_ : unit) fl f => walk sk_on_decl_noreset fl f in
  result_after false run [(tt, sk_file_a)] tt sk_file_b <> result_fresh false run tt sk_file_b.
Proof. exact sk_noreset_history_dependent. Qed.
Print Assumptions C03_skipChilds_reset_needed_refuted.

Theorem C03_astSet_clear_needed_refuted :
  let run := fun (_ : unit) s f => walk dc_on_decl_noclear s f in
  let f := [DFunc 1 false None (Some [SSwitch 2 [(3%N, 5%N)]]) []] in
  result_after [] run [(tt, f)] tt f <> result_fresh [] run tt f.
Proof. exact dc_noclear_history_dependent. Qed.
Print Assumptions C03_astSet_clear_needed_refuted.

(* ---- obligation re-proved on every run over the regenerated inventory ---- *)
Definition modelled_or_reviewed (c : struct_inv) : bool := struct_reviewed reviewed_state c.

(* diagnostics for a broken obligation: the (struct, field) pairs that are written but not (exactly) reviewed *)
Eval vm_compute in (unreviewed reviewed_state state_inventory).
Theorem C03_state_inventory_covered :
  forallb (fun c => no_scratch_writes c || modelled_or_reviewed c) state_inventory = true.
Proof. vm_compute. reflexivity. Qed.
Print Assumptions C03_state_inventory_covered.

(* Direction of the obligation: ONLY new or more state needs review (Model_Inventory.sites_within). A scratch field that
   vanished, is no longer written, or lost purely additive write sites cannot make results depend on history; review entries that
   no longer correspond to a live field are therefore listed for information only (not an obligation): *)
Eval vm_compute in
  (map (fun r => (r_struct r, r_field r))
       (filter (fun r => negb (existsb (fun s => String.eqb (s_name s) (r_struct r) &&
                              existsb (fun f => String.eqb (f_name f) (r_field r) && negb (match live_writes f with [] => true | _ => false end)) (s_fields s))
                            state_inventory)) reviewed_state)).

(* the inventory is not trivially empty: the stateful checkers named by the property are all in it *)
(* (a translator that silently lost its input would make the coverage obligation vacuous: most of the stateful structs named by
   the property must be seen WITH scratch writes; "most", because removing scratch state from a checker is always acceptable) *)
Theorem C03_inventory_sane :
  (8 <=? N.of_nat (length (filter (fun n => existsb (fun s => String.eqb (s_name s) n && negb (no_scratch_writes s)) state_inventory)
    ["ifElseChainChecker"; "typeAssertChainChecker"; "dupCaseChecker"; "mapKeyChecker"; "typeSwitchVarChecker";
     "commentedOutCodeChecker"; "badRegexpChecker"; "regexpSimplifyChecker"; "typeDefFirstChecker"; "unnecessaryDeferChecker";
     "boolExprSimplifyChecker"; "WalkHandler"; "CheckerContext"])))%N = true
  /\ existsb (fun s => String.eqb (s_name s) "CheckerContext" && negb (no_scratch_writes s)) state_inventory = true
  /\ (60 <=? N.of_nat (length state_inventory))%N = true.
Proof. vm_compute. auto. Qed.
Print Assumptions C03_inventory_sane.

(* non-vacuity: a chain that warns (the walker then meets the two else-ifs, which are marked visited), then a short chain *)
Example C03_example_ifElseChain :
  let l := fun i => {| l_id := i; l_pos := (10 * i)%N; l_init := false; l_assert := None |} in
  let f := [DFunc 1 false None (Some [SIfChain [l 1%N; l 2%N; l 3%N] true; SIfChain [l 2%N; l 3%N] true; SIfChain [l 3%N] true;
                                     SIfChain [l 4%N; l 5%N] false; SIfChain [l 5%N] false]) []] in
  snd (iec_run 2 {| iec_cause := 0; iec_visited := [] |} f) = [(10%N, "rewrite if-else to switch statement")]
  /\ snd (iec_run 2 {| iec_cause := 99; iec_visited := [1%N; 4%N] |} f) = [(10%N, "rewrite if-else to switch statement")].
Proof. vm_compute. auto. Qed.
