// Package synth builds small Go files in which a ruleguard syntax pattern occurs: every metavariable is
// replaced by a parameter (or literal) drawn from a fixed catalogue of types, the candidates are narrowed
// by where the type checker complains, and the caller decides (by running the real checker) which
// instance makes the rule fire.  It is a search for inputs, never an oracle.
package synth

import (
	"fmt"
	"go/ast"
	"go/importer"
	"go/parser"
	"go/token"
	"go/types"
	"regexp"
	"runtime"
	"sort"
	"strings"

	"github.com/go-critic/go-critic/linter"
)

// Cand is one expression a metavariable may stand for.
type Cand struct{ Expr, Type string }

// the catalogue: parameters of the synthesised function, then a few literals
var params = []Cand{
	{"s", "string"}, {"b", "[]byte"}, {"n", "int"}, {"t", "time.Time"}, {"pt", "*time.Time"}, {"e", "error"},
	{"r", "io.Reader"}, {"w", "io.Writer"}, {"ss", "[]string"}, {"i64", "int64"}, {"f64", "float64"},
	{"d", "time.Duration"}, {"m", "map[string]int"}, {"fl", "*os.File"}, {"sm", "sync.Map"}, {"psm", "*sync.Map"},
	{"mu", "sync.Mutex"}, {"rw", "sync.RWMutex"}, {"wg", "sync.WaitGroup"}, {"buf", "bytes.Buffer"}, {"pbuf", "*bytes.Buffer"},
	{"sb", "strings.Builder"}, {"psb", "*strings.Builder"}, {"re", "*regexp.Regexp"}, {"rn", "rune"}, {"by", "byte"},
	{"bo", "bool"}, {"fn", "func()"}, {"any", "interface{}"}, {"ctx", "context.Context"}, {"perm", "os.FileMode"},
	{"hr", "*http.Request"}, {"rs", "[]rune"}, {"ns", "[]int"}, {"ps", "*string"}, {"st", "struct{ at time.Time; name string }"},
	{"bi", "*big.Int"}, {"im", "draw.Image"}, {"pi", "*int"},
	{"s2", "string"}, {"b2", "[]byte"}, {"n2", "int"}, {"t2", "time.Time"}, {"e2", "error"}, {"ss2", "[]string"},
}
var literals = []Cand{{`"x"`, ""}, {"1", ""}, {"-1", ""}, {"1000", ""}, {"nil", ""}, {"0", ""}}

var stdPaths = map[string]string{
	"time": "time", "io": "io", "os": "os", "sync": "sync", "bytes": "bytes", "strings": "strings", "regexp": "regexp",
	"context": "context", "http": "net/http", "ioutil": "io/ioutil", "fmt": "fmt", "errors": "errors", "sort": "sort",
	"strconv": "strconv", "filepath": "path/filepath", "path": "path", "utf8": "unicode/utf8", "unicode": "unicode",
	"math": "math", "rand": "math/rand", "reflect": "reflect", "draw": "image/draw", "image": "image", "atomic": "sync/atomic",
	"url": "net/url", "json": "encoding/json", "exec": "os/exec", "bufio": "bufio", "log": "log", "flag": "flag",
	"httptest": "net/http/httptest", "syscall": "syscall", "binary": "encoding/binary", "hex": "encoding/hex", "net": "net",
	"template": "text/template", "cmp": "cmp", "maps": "maps", "slices": "slices", "types": "go/types", "zlib": "compress/zlib", "sql": "database/sql", "big": "math/big", "unsafe": "unsafe",
}

var keepers = map[string]string{
	"time": "time.Now", "io": "io.EOF", "os": "os.Args", "sync": "sync.NewCond", "bytes": "bytes.NewBuffer", "strings": "strings.NewReader",
	"regexp": "regexp.MustCompile", "context": "context.Background", "http": "http.DefaultClient", "ioutil": "ioutil.Discard", "fmt": "fmt.Sprint",
	"errors": "errors.New", "sort": "sort.Strings", "strconv": "strconv.Itoa", "filepath": "filepath.Join", "path": "path.Join",
	"utf8": "utf8.RuneError", "unicode": "unicode.IsUpper", "math": "math.Pi", "rand": "rand.Int", "reflect": "reflect.TypeOf",
	"draw": "draw.Src", "image": "image.NewRGBA", "atomic": "atomic.AddInt32", "url": "url.Parse", "json": "json.Marshal", "exec": "exec.Command",
	"bufio": "bufio.NewReader", "log": "log.Println", "flag": "flag.Parse", "httptest": "httptest.NewRecorder", "syscall": "syscall.Getpid",
	"binary": "binary.BigEndian", "hex": "hex.EncodeToString", "net": "net.Dial", "template": "template.New", "zlib": "zlib.NewReader",
	"sql": "sql.Open", "big": "big.NewInt", "types": "types.NewPackage",
}

var (
	metaRE = regexp.MustCompile(`\$\*?\w+`)
	qualRE = regexp.MustCompile(`\b([a-z][a-z0-9]*)\.[A-Za-z_]`)
)

// S is one synthesiser (its importer caches type-checked standard packages; not safe for concurrent use).
type S struct {
	imp types.Importer
	// LastPanic: the last Run recovered a panic of a checker; such an input counts as found (Fires)
	LastPanic bool
}

// New returns a synthesiser.
func New() *S { return &S{imp: importer.ForCompiler(token.NewFileSet(), "source", nil)} }

// Instance is one synthesised file.
type Instance struct {
	Source string
	Assign map[string]string // metavariable -> expression
}

type occ struct {
	name       string // "$x", or "$_#3" for the third anonymous occurrence
	start, end int    // byte offsets in the pattern
}

var debug = false

var runRE = regexp.MustCompile(`\$\*\w+`)

// variants of a pattern: every $*name run inside call parentheses stands for zero, one or two arguments
// (fresh metavariables); statement runs match nothing.
func variants(pattern string) []string {
	stmtRun := regexp.MustCompile(`(^|[{;]\s*)\$\*\w+\s*;?`)
	base := stmtRun.ReplaceAllString(pattern, "$1")
	if !runRE.MatchString(base) {
		return []string{base}
	}
	var out []string
	for _, repl := range []string{"", "$va1", "$va1, $va2", "$va1, $va2, $va3"} {
		v := runRE.ReplaceAllString(base, repl)
		v = regexp.MustCompile(`,\s*\)`).ReplaceAllString(v, ")")
		v = regexp.MustCompile(`\(\s*,\s*`).ReplaceAllString(v, "(")
		out = append(out, v)
	}
	return out
}

func occurrences(pat string) (string, []occ) {
	var out []occ
	anon := 0
	for _, loc := range metaRE.FindAllStringIndex(pat, -1) {
		name := pat[loc[0]:loc[1]]
		if name == "$_" {
			anon++
			name = fmt.Sprintf("$_#%d", anon)
		}
		if name == "$$" {
			continue
		}
		out = append(out, occ{name, loc[0], loc[1]})
	}
	return pat, out
}

func render(pat string, occs []occ, assign map[string]string) (string, [][2]int, []string) {
	// returns the instantiated text, the span of every occurrence in it and the owner of each span
	var b strings.Builder
	var spans [][2]int
	var owners []string
	last := 0
	for _, o := range occs {
		b.WriteString(pat[last:o.start])
		st := b.Len()
		b.WriteString(assign[o.name])
		en := b.Len()
		// a selector chain hanging off the variable belongs to it (errors are reported at the selector)
		rest := pat[o.end:]
		if m := regexp.MustCompile(`^(\.\w+)+`).FindString(rest); m != "" {
			en += len(m)
		}
		spans = append(spans, [2]int{st, en})
		owners = append(owners, o.name)
		last = o.end
	}
	b.WriteString(pat[last:])
	return b.String(), spans, owners
}

var wrappers = []struct{ pre, post string }{
	{"\t", "\n"},
	{"\t_ = ", "\n"},
	{"\tif ", " {\n\t}\n"},
	{"\tfor ", " {\n\t}\n"},
}

func fileFor(body string, extraImports map[string]string) string {
	var ps []string
	for _, p := range params {
		if regexp.MustCompile(`\b` + p.Expr + `\b`).MatchString(body) {
			ps = append(ps, p.Expr+" "+p.Type)
		}
	}
	sig := strings.Join(ps, ", ")
	need := map[string]string{}
	for _, m := range qualRE.FindAllStringSubmatch(sig+"\n"+body, -1) {
		if p, ok := extraImports[m[1]]; ok {
			need[m[1]] = p
		} else if p, ok := stdPaths[m[1]]; ok {
			need[m[1]] = p
		}
	}
	var names []string
	for n := range need {
		names = append(names, n)
	}
	sort.Strings(names)
	var b strings.Builder
	b.WriteString("package p\n\nimport (\n")
	for _, n := range names {
		fmt.Fprintf(&b, "\t%q\n", need[n])
	}
	b.WriteString(")\n\nfunc synthesised(" + sig + ") {\n" + body + "}\n")
	// one more use of every imported package: whether an import stays used after a fix is a question about
	// the rest of the file, not about the fix
	kept := false
	for _, n := range names {
		if k, ok := keepers[n]; ok && need[n] == stdPaths[n] {
			if !kept {
				b.WriteString("\nvar (\n")
				kept = true
			}
			b.WriteString("\t_ = " + k + "\n")
		}
	}
	if kept {
		b.WriteString(")\n")
	}
	return b.String()
}

// check type-checks one file; it returns the parsed file and the type errors with their offsets
func (y *S) check(src string) (*token.FileSet, *ast.File, *types.Info, *types.Package, []types.Error) {
	fset := token.NewFileSet()
	f, err := parser.ParseFile(fset, "synth.go", src, parser.ParseComments)
	if err != nil {
		return nil, nil, nil, nil, []types.Error{{Msg: "parse: " + err.Error()}}
	}
	info := &types.Info{Types: map[ast.Expr]types.TypeAndValue{}, Defs: map[*ast.Ident]types.Object{}, Uses: map[*ast.Ident]types.Object{},
		Implicits: map[ast.Node]types.Object{}, Selections: map[*ast.SelectorExpr]*types.Selection{}, Scopes: map[ast.Node]*types.Scope{}}
	var errs []types.Error
	conf := types.Config{Importer: y.imp, Sizes: types.SizesFor("gc", runtime.GOARCH), Error: func(err error) {
		if te, ok := err.(types.Error); ok {
			errs = append(errs, te)
		}
	}}
	pkg, _ := conf.Check("p", fset, []*ast.File{f}, info)
	return fset, f, info, pkg, errs
}

// Search enumerates type-correct instances of one pattern, most plausible first, until accept returns
// true or the budget of type-checks is used up.
func (y *S) Search(pattern string, extraImports map[string]string, budget int, accept func(Instance) bool) (Instance, bool) {
	spent := 0
	for _, pat0 := range variants(pattern) {
		pat, occs := occurrences(pat0)
		var vars []string
		seen := map[string]bool{}
		for _, o := range occs {
			if !seen[o.name] {
				seen[o.name] = true
				vars = append(vars, o.name)
			}
		}
		// metavariables defined by := must be used afterwards
		defined := map[string]bool{}
		for _, m := range regexp.MustCompile(`((?:\$\w+\s*,\s*)*\$\w+)\s*:=`).FindAllStringSubmatch(pat, -1) {
			for _, v := range metaRE.FindAllString(m[1], -1) {
				defined[v] = true
			}
		}
		cands := append(append([]Cand(nil), literals...), params...)
		wrs := wrappers
		if _, err := parser.ParseExpr(metaRE.ReplaceAllString(pat, "x")); err == nil {
			// an expression: use its value (a bare expression statement is an artificial context)
			wrs = []struct{ pre, post string }{wrappers[1], wrappers[2], wrappers[0], wrappers[3]}
		}
		for _, wr := range wrs {
			for _, seed := range []string{"s", "n", "b", "t"} {
				build := func(assign map[string]string) (string, [][2]int, []string, int) {
					body, spans, owners := render(pat, occs, assign)
					text := wr.pre + body + wr.post
					uses := ""
					anon := 0
					for _, o := range occs {
						name := o.name
						if strings.HasPrefix(name, "$_#") {
							anon++
							// anonymous := targets cannot be told apart here: use every identifier-valued one
							if regexp.MustCompile(`^\s*(,\s*\$\w+\s*)*:=`).MatchString(pat[o.end:]) && isIdent(assign[name]) {
								uses += "\t_ = " + assign[name] + "\n"
							}
							continue
						}
						if defined[name] && isIdent(assign[name]) && !strings.Contains(uses, "_ = "+assign[name]+"\n") {
							uses += "\t_ = " + assign[name] + "\n"
						}
					}
					full := "\t{\n" + text + uses + "\t}\n"
					src := fileFor(full, extraImports)
					off := strings.Index(src, full) + len("\t{\n") + len(wr.pre)
					return src, spans, owners, off
				}
				cur := map[string]string{}
				for _, v := range vars {
					cur[v] = seed
				}
				okFor := map[string][]string{}
				rounds := 2
				if len(vars) <= 1 {
					rounds = 1
				}
				parses := true
				unviable := false
				for round := 0; round < rounds && parses && !unviable; round++ {
					for vi, v := range vars {
						var ok []string
						allOutside := true // every candidate leaves an error that no metavariable owns
						for _, c := range cands {
							try := map[string]string{}
							for k, x := range cur {
								try[k] = x
							}
							try[v] = c.Expr
							src, spans, owners, off := build(try)
							fset, _, _, _, errs := y.check(src)
							spent++
							bad := false
							outside := false
							for _, te := range errs {
								if fset != nil {
									p := fset.Position(te.Pos).Offset - off
									in := false
									for _, sp := range spans {
										if p >= sp[0] && p <= sp[1] {
											in = true
										}
									}
									if !in {
										outside = true
									}
								}
								if fset == nil {
									if debug {
										fmt.Println("DBG parse", te.Msg, src)
									}
									bad = true
									if isIdent(c.Expr) {
										parses = false // even a plain variable does not fit: the wrapper is wrong
									}
									continue
								}
								p := fset.Position(te.Pos).Offset - off
								for i, sp := range spans {
									if owners[i] == v && p >= sp[0] && p <= sp[1] {
										bad = true
									}
								}
							}
							if !bad {
								ok = append(ok, c.Expr)
							}
							if !outside {
								allOutside = false
							}
							if !parses {
								break
							}
						}
						if !parses {
							break
						}
						if round == 0 && vi == 0 && allOutside {
							unviable = true // e.g. a two-valued call under "_ =": no assignment can help
							break
						}
						if len(ok) > 0 || round == 0 {
							okFor[v] = ok // a later round never empties a list: its errors may be another variable's fault
						}
						if len(ok) > 0 {
							cur[v] = ok[0]
							for _, c := range ok { // prefer a variable over a literal as the running guess
								if isIdent(c) {
									cur[v] = c
									break
								}
							}
						}
					}
				}
				if !parses || unviable {
					break // this wrapper cannot hold the pattern; seeds do not matter
				}
				// phase 2: bounded product over the surviving candidates
				lists := make([][]string, len(vars))
				total := 1
				dead := false
				for i, v := range vars {
					var l []string
					idents := 0
					for _, c := range okFor[v] {
						if isIdent(c) {
							if idents >= 6 {
								continue
							}
							idents++
						}
						l = append(l, c)
					}
					// variables first: they are the common case
					sort.SliceStable(l, func(a, b int) bool { return isIdent(l[a]) && !isIdent(l[b]) })
					if len(l) == 0 {
						dead = true
					}
					lists[i] = l
					total *= len(l)
				}
				if len(vars) == 0 {
					total = 1
				}
				if debug {
					fmt.Println("DBG", pat, wr.pre, seed, okFor, dead, total)
				}
				if dead {
					continue
				}
				if total > 300 {
					total = 300
				}
				for k := 0; k < total && spent < budget; k++ {
					assign := map[string]string{}
					x := k
					for i, v := range vars {
						assign[v] = lists[i][x%len(lists[i])]
						x /= len(lists[i])
					}
					src, _, _, _ := build(assign)
					spent++
					if _, _, _, _, errs := y.check(src); len(errs) == 0 {
						inst := Instance{Source: src, Assign: assign}
						if accept(inst) {
							return inst, true
						}
					}
				}
				if spent >= budget {
					return Instance{}, false
				}
				if len(vars) == 0 {
					break
				}
			}
		}
	}
	return Instance{}, false
}

func isIdent(s string) bool { return regexp.MustCompile(`^[a-z]\w*$`).MatchString(s) && s != "nil" }

// Run runs checkers over one synthesised file at a configured Go version ("" = unset).
func (y *S) Run(src string, goVersion string, mk func(ctx *linter.Context) ([]*linter.Checker, error)) ([]linter.Warning, *token.FileSet, error) {
	y.LastPanic = false
	fset, f, info, pkg, errs := y.check(src)
	if len(errs) > 0 {
		return nil, nil, fmt.Errorf("%s", errs[0].Msg)
	}
	ctx := linter.NewContext(fset, types.SizesFor("gc", runtime.GOARCH))
	if goVersion != "" {
		ctx.SetGoVersion(goVersion)
	}
	ctx.SetPackageInfo(info, pkg)
	cs, err := mk(ctx)
	if err != nil {
		return nil, nil, err
	}
	ctx.SetFileInfo("synth.go", f)
	var out []linter.Warning
	for _, c := range cs {
		func() {
			defer func() {
				if recover() != nil {
					y.LastPanic = true
				}
			}()
			out = append(out, c.Check(f)...)
		}()
	}
	return out, fset, nil
}

// RuleHit is a synthesised input on which one rule of an embedded group fires.
type RuleHit struct {
	Group    string
	Line     int
	Pattern  string
	Source   string
	Warnings []linter.Warning
	Fset     *token.FileSet
}
