package synth

import (
	"crypto/sha1"
	"encoding/json"
	"fmt"
	"os"
	"path/filepath"
	"sort"
	"strings"
	"sync"

	"github.com/go-critic/go-critic/checkers/rulesdata"
	"github.com/go-critic/go-critic/linter"
	"github.com/quasilyte/go-ruleguard/ruleguard/ir"
)

// MessageShape turns a Report/Suggest template into literal fragments that must occur in the message.
func MessageShape(r ir.Rule) []string {
	t := r.ReportTemplate
	if t == "" {
		t = r.SuggestTemplate
	}
	var frags []string
	for _, part := range metaRE.Split(strings.ReplaceAll(t, "$$", "$x"), -1) {
		if p := strings.TrimSpace(part); len(p) >= 3 {
			frags = append(frags, p)
		}
	}
	return frags
}

func MatchesShape(text string, frags []string) bool {
	for _, f := range frags {
		if !strings.Contains(text, f) {
			return false
		}
	}
	return true
}

// Target is one syntax pattern of one rule of an embedded group.
type Target struct {
	Group   string
	Line    int
	Pattern string
	Rule    ir.Rule
	Imports map[string]string
}

// Key identifies a target across runs (line numbers move; group, pattern and templates do not).
func (t Target) Key() string {
	h := sha1.Sum([]byte(t.Group + "\x00" + t.Pattern + "\x00" + t.Rule.ReportTemplate + "\x00" + t.Rule.SuggestTemplate))
	return fmt.Sprintf("%s-%x", t.Group, h[:6])
}

// Targets lists the patterns of the precompiled rules accepted by want.
func Targets(want func(group string, r ir.Rule) bool) []Target {
	var out []Target
	for _, g := range rulesdata.PrecompiledRules.RuleGroups {
		extra := map[string]string{}
		for _, im := range g.Imports {
			extra[im.Name] = im.Path
		}
		for _, r := range g.Rules {
			if want != nil && !want(g.Name, r) {
				continue
			}
			for _, p := range r.SyntaxPatterns {
				out = append(out, Target{Group: g.Name, Line: r.Line, Pattern: p.Value, Rule: r, Imports: extra})
			}
		}
	}
	return out
}

// Hit is an input on which the target's rule fires (no Go version configured).
type Hit struct {
	Target Target
	Source string
	Cached bool
}

// Fires reports whether the group's checker reports a message of the rule's shape on src.
func (y *S) Fires(t Target, src string, mk func(group string) func(ctx *linter.Context) ([]*linter.Checker, error)) bool {
	ws, _, err := y.Run(src, "", mk(t.Group))
	if err != nil {
		return false
	}
	if y.LastPanic {
		return true // a well-typed instance of the pattern on which the group's checker crashes is the input we look for
	}
	frags := MessageShape(t.Rule)
	for _, w := range ws {
		if MatchesShape(w.Text, frags) {
			return true
		}
	}
	return false
}

// Corpus is the committed store of synthesised inputs: key -> source.
type Corpus map[string]string

// LoadCorpus reads dir/index.json (missing file: empty corpus).
func LoadCorpus(dir string) Corpus {
	c := Corpus{}
	data, err := os.ReadFile(filepath.Join(dir, "index.json"))
	if err == nil {
		_ = json.Unmarshal(data, &c)
	}
	return c
}

// Save writes dir/index.json with sorted keys.
func (c Corpus) Save(dir string) error {
	keys := make([]string, 0, len(c))
	for k := range c {
		keys = append(keys, k)
	}
	sort.Strings(keys)
	var b strings.Builder
	b.WriteString("{\n")
	for i, k := range keys {
		v, _ := json.Marshal(c[k])
		fmt.Fprintf(&b, " %q: %s", k, v)
		if i < len(keys)-1 {
			b.WriteString(",")
		}
		b.WriteString("\n")
	}
	b.WriteString("}\n")
	_ = os.MkdirAll(dir, 0o755)
	return os.WriteFile(filepath.Join(dir, "index.json"), []byte(b.String()), 0o644)
}

// Resolve finds a firing input for every target: the stored one when it still fires, a fresh search
// otherwise (budget type-checks per pattern).  Targets run in parallel, one synthesiser per worker.
func Resolve(targets []Target, corpus Corpus, budget int, mk func(group string) func(ctx *linter.Context) ([]*linter.Checker, error)) (hits []Hit, misses []Target) {
	type res struct {
		hit Hit
		ok  bool
	}
	out := make([]res, len(targets))
	var wg sync.WaitGroup
	work := make(chan int)
	for w := 0; w < 12; w++ {
		wg.Add(1)
		go func() {
			defer wg.Done()
			y := New()
			for i := range work {
				t := targets[i]
				if src, ok := corpus[t.Key()]; ok {
					if src == "" {
						continue // recorded as not synthesisable
					}
					if y.Fires(t, src, mk) {
						out[i] = res{Hit{t, src, true}, true}
						continue
					}
				}
				if budget <= 0 {
					continue
				}
				inst, ok := y.Search(t.Pattern, t.Imports, budget, func(in Instance) bool { return y.Fires(t, in.Source, mk) })
				if ok {
					out[i] = res{Hit{t, inst.Source, false}, true}
				}
			}
		}()
	}
	for i := range targets {
		work <- i
	}
	close(work)
	wg.Wait()
	for i, r := range out {
		if r.ok {
			hits = append(hits, r.hit)
		} else {
			misses = append(misses, targets[i])
		}
	}
	return hits, misses
}
