package synth

import (
	"fmt"
	"path/filepath"
	"time"

	"github.com/go-critic/go-critic/linter"

	"verifharness/internal/common"
	"verifharness/internal/load"
)

// MkGroup returns a constructor for the single checker named group.
func MkGroup(group string) func(ctx *linter.Context) ([]*linter.Checker, error) {
	return func(ctx *linter.Context) ([]*linter.Checker, error) {
		return load.Checkers(ctx, map[string]bool{group: true})
	}
}

// CorpusDir is the committed store.
// CorpusDir is the committed store of synthesised inputs.
var CorpusDir = filepath.Join(common.VerifRoot(), "corpus", "synth")

// BuildCorpus (developer command) refreshes the committed store: every pattern is searched with a large
// budget; patterns for which nothing fires are recorded with an empty source so that checks do not
// repeat the search on every run.
func BuildCorpus() {
	load.InitRules()
	t0 := time.Now()
	c := LoadCorpus(CorpusDir)
	ts := Targets(nil)
	for _, t := range ts { // retry recorded misses
		if c[t.Key()] == "" {
			delete(c, t.Key())
		}
	}
	hits, misses := Resolve(ts, c, 3000, MkGroup)
	n := Corpus{}
	for _, h := range hits {
		n[h.Target.Key()] = h.Source
	}
	for _, m := range misses {
		n[m.Key()] = ""
	}
	if err := n.Save(CorpusDir); err != nil {
		panic(err)
	}
	fmt.Printf("hits=%d misses=%d in %s\n", len(hits), len(misses), time.Since(t0))
	for _, m := range misses {
		fmt.Println("MISS", m.Group+": "+m.Pattern)
	}
}
