// Package c18: user rule files — group filtering and load-failure policy of the dynamic ruleguard checker.
package c18

import (
	"bytes"
	"fmt"
	"go/ast"
	"go/importer"
	"go/parser"
	"go/token"
	"go/types"
	"log"
	"os"
	"path/filepath"
	"regexp"
	"runtime"
	"sort"
	"strings"

	"github.com/go-critic/go-critic/linter"

	"verifharness/internal/common"
	"verifharness/internal/coqfmt"
	"verifharness/internal/load"
)

type group struct {
	name string
	tags []string
}

var pool = []group{
	{"gA", []string{"style"}}, {"gB", []string{"experimental"}}, {"gC", nil}, {"gD", []string{"style", "test"}},
	{"gE", []string{"test"}}, {"gF", []string{"experimental", "style"}}, {"gG", []string{"diagnostic"}}, {"gH", nil},
}

type file struct {
	name string
	kind string // valid, unreadable, syntax, dsl, empty, badimport
	gs   []group
}

type pat struct {
	text  string // as given in the rules flag
	bad   bool
	files []file
}

type cfg struct {
	failOn  string
	legacy  bool
	enable  string
	disable string
	debug   string // the diagnostic parameter `debug` names a group whose matching is traced; it selects nothing
}

func validSrc(gs []group) string {
	var b strings.Builder
	b.WriteString("package gorules\n\nimport \"github.com/quasilyte/go-ruleguard/dsl\"\n")
	for _, g := range gs {
		if len(g.tags) > 0 {
			fmt.Fprintf(&b, "\n//doc:tags %s", strings.Join(g.tags, " "))
		}
		fmt.Fprintf(&b, "\nfunc %s(m dsl.Matcher) {\n\tm.Match(`trigger%s($x)`).Report(\"%s fired\")\n}\n", g.name, g.name, g.name)
	}
	return b.String()
}

func materialise(dir string, f file) {
	p := filepath.Join(dir, f.name)
	switch f.kind {
	case "valid":
		common.WriteFile(p, validSrc(f.gs))
	case "unreadable":
		os.MkdirAll(filepath.Dir(p), 0o755)
		os.Remove(p)
		common.Must(os.Symlink("/nonexistent-verif/target.go", p))
	case "syntax":
		common.WriteFile(p, "package gorules\n func (")
	case "dsl":
		common.WriteFile(p, "package gorules\n\nimport \"github.com/quasilyte/go-ruleguard/dsl\"\n\nfunc gBadDsl(m dsl.Matcher) {\n\tm.Match(`(((`).Report(\"x\")\n}\n")
	case "empty":
		common.WriteFile(p, "")
	case "badimport":
		common.WriteFile(p, "package gorules\n\nimport \"github.com/quasilyte/go-ruleguard/dsl\"\n\nfunc gBadImport(m dsl.Matcher) {\n\tm.Import(`example.com/nonexistent/verifpkg`)\n\tm.Match(`$x`).Where(m[\"x\"].Type.Implements(`verifpkg.Iface`)).Report(\"x\")\n}\n")
	}
}

var kindCoq = map[string]string{"unreadable": "Unreadable", "syntax": "SyntaxErr", "dsl": `DslErr {| g_name := "gBadDsl"; g_tags := [] |}`, "empty": "EmptyFile", "badimport": `BadImport {| g_name := "gBadImport"; g_tags := [] |}`}

func (f file) coq() string {
	if f.kind == "valid" {
		var gs []string
		for _, g := range f.gs {
			gs = append(gs, fmt.Sprintf("{| g_name := %s; g_tags := %s |}", coqfmt.Str(g.name), coqfmt.StrList(g.tags)))
		}
		return fmt.Sprintf("(%s, Valid %s)", coqfmt.Str(f.name), coqfmt.List(gs))
	}
	return fmt.Sprintf("(%s, %s)", coqfmt.Str(f.name), kindCoq[f.kind])
}

// ---- the property's sentence, independently ----
func oracleEnabled(c cfg, g group) bool {
	trim := func(s string) []string {
		var out []string
		for _, k := range strings.Split(s, ",") {
			out = append(out, strings.TrimSpace(k))
		}
		return out
	}
	has := func(l []string, k string) bool {
		for _, x := range l {
			if x == k {
				return true
			}
		}
		return false
	}
	en, dis := trim(c.enable), trim(c.disable)
	enabled := c.enable == "<all>" || has(en, g.name)
	disabled := has(dis, g.name)
	for _, t := range g.tags {
		if c.enable != "<all>" && has(en, "#"+t) {
			enabled = true
		}
		if has(dis, "#"+t) {
			disabled = true
		}
		if t == "experimental" && !(c.enable != "<all>" && has(en, "#experimental")) {
			disabled = true
		}
	}
	return enabled && !disabled
}

type env struct {
	fset *token.FileSet
	f    *ast.File
	pkg  *types.Package
	info *types.Info
}

func target() *env {
	var b strings.Builder
	b.WriteString("package p\n\n")
	for _, g := range pool {
		fmt.Fprintf(&b, "func trigger%s(int) {}\n", g.name)
	}
	b.WriteString("\nfunc use() {\n")
	for _, g := range pool {
		fmt.Fprintf(&b, "\ttrigger%s(1)\n", g.name)
	}
	b.WriteString("}\n")
	fset := token.NewFileSet()
	f, err := parser.ParseFile(fset, "t.go", b.String(), parser.ParseComments)
	common.Must(err)
	info := &types.Info{Types: map[ast.Expr]types.TypeAndValue{}, Defs: map[*ast.Ident]types.Object{}, Uses: map[*ast.Ident]types.Object{},
		Implicits: map[ast.Node]types.Object{}, Selections: map[*ast.SelectorExpr]*types.Selection{}, Scopes: map[ast.Node]*types.Scope{}}
	pkg, err := (&types.Config{Importer: importer.Default()}).Check("p", fset, []*ast.File{f}, info)
	common.Must(err)
	return &env{fset, f, pkg, info}
}

var firedRE = regexp.MustCompile(`^(g\w+) fired$`)
var skipRE = regexp.MustCompile(`ruleguard init error, skip (\S+?):`)

func Run(tier string, seed int64, outDir string) *common.Meta {
	load.InitRules()
	meta := &common.Meta{Property: "C18", Distribution: map[string]interface{}{}}
	rng := common.NewRand(seed, "c18")
	tgt := target()
	var rg *linter.CheckerInfo
	for _, info := range linter.GetCheckersInfo() {
		if info.Name == "ruleguard" {
			rg = info
		}
	}
	saved := map[string]interface{}{}
	for k, p := range rg.Params {
		saved[k] = p.Value
	}
	defer func() {
		for k, v := range saved {
			rg.Params[k].Value = v
		}
		log.SetOutput(os.Stderr)
	}()

	kinds := []string{"valid", "valid", "valid", "unreadable", "syntax", "dsl", "empty", "badimport"}
	failOns := []string{"", "dsl", "import", "all", "dsl,import", "import,dsl,", "bogus", "dsl,bogus", ",", "all,import"}
	enables := []string{"<all>", "gA", "#style", "#experimental", "#experimental,gC", " gA , #test", "nosuch", "#style,#experimental", "", "gB", "gF,gE", "#style,gB", "#test,#diagnostic"}
	disables := []string{"", "gA", "#style", "#test, gC", "#experimental", "gB,gH"}
	n := 220
	if tier == "thorough" {
		n = 4000
	}
	root := filepath.Join(outDir, "rules")
	os.RemoveAll(root)
	defer os.RemoveAll(root)

	var lines, idx []string
	classCount := map[string]int{}
	distinct := map[string]bool{}
	// the group filter exhaustively: every enable x disable value against one file holding all groups
	nFilter := len(enables) * len(disables)
	n += nFilter
	for ci := 0; ci < n; ci++ {
		dir := filepath.Join(root, fmt.Sprintf("c%d", ci))
		// --- draw the case ---
		var c cfg
		filterCase := ci < nFilter
		c.failOn = failOns[rng.Intn(len(failOns))]
		if rng.Intn(3) > 0 {
			c.failOn = failOns[rng.Intn(4)] // mostly valid values
		}
		c.legacy = rng.Intn(4) == 0
		c.enable = enables[rng.Intn(len(enables))]
		if rng.Intn(2) == 0 {
			c.enable = "<all>"
		}
		c.disable = disables[rng.Intn(len(disables))]
		next := 0
		// the pool is visited in a per-case random order so that every tag combination meets every filter
		perm := rng.Perm(len(pool))
		takeGroups := func() []group {
			k := 1 + rng.Intn(3)
			var gs []group
			for i := 0; i < k && next < len(pool); i++ {
				gs = append(gs, pool[perm[next]])
				next++
			}
			return gs
		}
		np := 1 + rng.Intn(3)
		if ci%17 == 0 {
			np = 0 // rules = ""
		}
		var pats []pat
		fileNo := 0
		if filterCase {
			c = cfg{failOn: "", legacy: false, enable: enables[ci/len(disables)], disable: disables[ci%len(disables)],
				debug: []string{"", "gA", "gC", "gE", "gB", "nosuch", "gH"}[ci%7]}
			np = 0
			pats = append(pats, pat{text: filepath.Join(dir, "all.go"), files: []file{{name: "all.go", kind: "valid", gs: pool}}})
		}
		for pi := 0; pi < np; pi++ {
			switch rng.Intn(10) {
			case 0:
				// a pattern that matches no file, in every spelling: glob, plain file name, file in a missing
				// directory, empty list element, blanks only
				forms := []string{filepath.Join(dir, "nomatch-*.go"), filepath.Join(dir, "missing.go"), filepath.Join(dir, "nodir", "rules.go"), "", "  "}
				if np == 1 {
					forms = append(forms[:3], forms[4]) // rules="" alone means "no user rules", not a pattern
				}
				pats = append(pats, pat{text: forms[rng.Intn(len(forms))]})
			case 1:
				pats = append(pats, pat{text: filepath.Join(dir, "[bad"), bad: true})
			case 2, 3: // glob over a sub-directory with several files
				sub := fmt.Sprintf("d%d", pi)
				k := 1 + rng.Intn(3)
				var fs []file
				for j := 0; j < k; j++ {
					f := file{name: fmt.Sprintf("%s/r%d.go", sub, fileNo), kind: kinds[rng.Intn(len(kinds))]}
					fileNo++
					if f.kind == "valid" {
						f.gs = takeGroups()
						if len(f.gs) == 0 {
							f.kind = "empty"
						}
					}
					fs = append(fs, f)
				}
				sort.Slice(fs, func(a, b int) bool { return fs[a].name < fs[b].name }) // Glob returns sorted names
				pats = append(pats, pat{text: " " + filepath.Join(dir, sub, "r*.go") + " ", files: fs})
			default:
				f := file{name: fmt.Sprintf("r%d.go", fileNo), kind: kinds[rng.Intn(len(kinds))]}
				fileNo++
				if f.kind == "valid" {
					f.gs = takeGroups()
					if len(f.gs) == 0 {
						f.kind = "empty"
					}
				}
				pats = append(pats, pat{text: filepath.Join(dir, f.name), files: []file{f}})
			}
		}
		var texts []string
		for _, p := range pats {
			texts = append(texts, p.text)
			for _, f := range p.files {
				materialise(dir, f)
			}
		}
		rules := strings.Join(texts, ",")
		// --- run the implementation ---
		rg.Params["rules"].Value = rules
		rg.Params["failOn"].Value = c.failOn
		rg.Params["failOnError"].Value = c.legacy
		rg.Params["enable"].Value = c.enable
		rg.Params["disable"].Value = c.disable
		rg.Params["debug"].Value = c.debug
		var logBuf bytes.Buffer
		log.SetOutput(&logBuf)
		ctx := linter.NewContext(tgt.fset, types.SizesFor("gc", runtime.GOARCH))
		ctx.SetPackageInfo(tgt.info, tgt.pkg)
		checker, err := linter.NewChecker(ctx, rg)
		log.SetOutput(os.Stderr)
		obsClass := "ok"
		var fired []string
		execErr := false
		if err != nil {
			switch {
			case strings.Contains(err.Error(), "is invalid. It must be"):
				obsClass = "err-unknown-failon"
			case strings.Contains(err.Error(), "no file matching"):
				obsClass = "err-nomatch"
			case strings.Contains(err.Error(), "syntax error in pattern"):
				obsClass = "err-badpattern"
			default:
				obsClass = "err-parse"
			}
		} else {
			ctx.SetFileInfo("t.go", tgt.f)
			for _, w := range checker.Check(tgt.f) {
				if m := firedRE.FindStringSubmatch(w.Text); m != nil {
					fired = append(fired, m[1])
				} else if strings.Contains(w.Text, "execution error") {
					execErr = true
				}
			}
			sort.Strings(fired)
		}
		skipped := map[string]bool{}
		for _, m := range skipRE.FindAllStringSubmatch(logBuf.String(), -1) {
			rel, _ := filepath.Rel(dir, m[1])
			skipped[rel] = true
		}
		classCount[obsClass]++
		// --- oracle: the property's sentences ---
		desc := fmt.Sprintf("rules=%q failOn=%q failOnError=%v enable=%q disable=%q debug=%q files=%v", rules, c.failOn, c.legacy, c.enable, c.disable, c.debug, describe(pats))
		eff := c.failOn
		if eff == "" && c.legacy {
			eff = "all"
		}
		unknown := false
		lDsl, lImp, lAll := false, false, false
		for _, k := range strings.Split(eff, ",") {
			switch k {
			case "":
			case "dsl":
				lDsl = true
			case "import":
				lImp = true
			case "all":
				lAll = true
			default:
				unknown = true
			}
		}
		noMatch, listed := false, false
		var wantFired []string
		anyFile := false
		for _, p := range pats {
			if len(p.files) == 0 { // a malformed pattern matches no file either
				noMatch = true
			}
			for _, f := range p.files {
				anyFile = true
				switch f.kind {
				case "valid":
					for _, g := range f.gs {
						if oracleEnabled(c, g) {
							wantFired = append(wantFired, g.name)
						}
					}
				case "badimport":
					// the unresolvable import is only met when its group passes the filter
					if (lAll || lImp) && oracleEnabled(c, group{"gBadImport", nil}) {
						listed = true
					}
				case "dsl":
					if (lAll || lDsl) && oracleEnabled(c, group{"gBadDsl", nil}) {
						listed = true
					}
				default:
					if lAll || lDsl {
						listed = true
					}
				}
			}
		}
		_ = anyFile
		sort.Strings(wantFired)
		if unknown && obsClass != "err-unknown-failon" {
			key := "C18/ruleguard/unknown-failOn-accepted"
			if rules == "" {
				key = "C18/ruleguard/unknown-failOn-accepted-when-rules-empty"
			}
			meta.Fail(key, "an unknown failOn value is not an initialisation error: "+desc, desc)
		}
		if !unknown && rules != "" {
			wantErr := noMatch || listed
			if wantErr != strings.HasPrefix(obsClass, "err") {
				meta.Fail("C18/ruleguard/skip-or-fail-policy", fmt.Sprintf("initialisation %s but the policy says error=%v (pattern without match=%v, listed failure class present=%v): %s", obsClass, wantErr, noMatch, listed, desc), desc)
			}
			if obsClass == "ok" {
				if strings.Join(fired, ",") != strings.Join(wantFired, ",") {
					meta.Fail("C18/ruleguard/group-filter", fmt.Sprintf("groups that fired %v, groups the documented filter admits from the valid files %v: %s", fired, wantFired, desc), desc)
				}
				if execErr {
					meta.Fail("C18/ruleguard/execution-error-when-all-files-skipped", "every rule file was skipped, yet the checker reports 'execution error: used Run() with an empty rule set' on the analysed file: "+desc, desc)
				}
			}
		}
		// --- model case ---
		var ps []string
		for _, p := range pats {
			if p.bad {
				ps = append(ps, "BadPattern")
				continue
			}
			var fs []string
			for _, f := range p.files {
				fs = append(fs, f.coq())
			}
			ps = append(ps, "Matches "+coqfmt.List(fs))
		}
		var sk []string
		for s := range skipped {
			sk = append(sk, s)
		}
		sort.Strings(sk)
		obsCoq := map[string]string{"ok": "OOk", "err-unknown-failon": "OErrUnknown", "err-nomatch": "OErrNoMatch", "err-badpattern": "OErrBadPattern", "err-parse": "OErrParse"}[obsClass]
		lines = append(lines, fmt.Sprintf("  ({| c_rules := %s; c_fail_on := %s; c_legacy := %s; c_enable := %s; c_disable := %s |}, %s, %s, %s, %s, %s)",
			coqfmt.Str(rules), coqfmt.Str(c.failOn), coqfmt.Bool(c.legacy), coqfmt.Str(c.enable), coqfmt.Str(c.disable),
			coqfmt.List(ps), obsCoq, coqfmt.StrList(fired), coqfmt.StrList(sk), coqfmt.Bool(execErr)))
		idx = append(idx, desc+" -> "+obsClass+fmt.Sprint(fired))
		distinct[obsClass+"|"+strings.Join(fired, ",")+"|"+fmt.Sprint(len(sk))] = true
		if ci%31 == 0 {
			meta.AddSample(map[string]interface{}{"case": desc, "result": obsClass, "fired": fired, "skipped": sk})
		}
		os.RemoveAll(dir)
	}
	hdr := `From GC Require Import Base Model_RuleFiles.
Inductive obs := OOk | OErrUnknown | OErrNoMatch | OErrBadPattern | OErrParse.
Fixpoint ins (x : string) (l : list string) : list string :=
  match l with [] => [x] | y :: r => if String.leb x y then x :: l else y :: ins x r end.
Definition sort_s (l : list string) : list string := fold_right ins [] l.
Definition case_ok (k : rg_config * list pattern * obs * list string * list string * bool) : bool :=
  let '(c, ps, o, fired, skippedf, exec_err) := k in
  match init c ps, o with
  | InitErr ErrUnknownFailOn, OErrUnknown => true
  | InitErr (ErrNoMatch _), OErrNoMatch => true
  | InitErr (ErrBadPattern _), OErrBadPattern => true
  | InitErr (ErrParse _), OErrParse => true
  | InitNoop, OOk => match fired with [] => negb exec_err | _ => false end
  | InitOk st, OOk => list_eqb String.eqb (sort_s (map g_name (active st))) fired
                      && list_eqb String.eqb (sort_s (skipped st)) skippedf && negb exec_err
  | _, _ => false
  end.
Definition cases : list (rg_config * list pattern * obs * list string * list string * bool) := [
`
	shards := 4
	for s := 0; s < shards; s++ {
		var ls, is []string
		for i := s; i < len(lines); i += shards {
			ls = append(ls, lines[i])
			is = append(is, idx[i])
		}
		fn := fmt.Sprintf("cases_c18_%d", s)
		common.WriteFile(filepath.Join(outDir, fn+".v"), hdr+strings.Join(ls, ";\n")+"\n].\nDefinition M := Eval vm_compute in mismatches case_ok cases.\nPrint M.\n")
		common.WriteFile(filepath.Join(outDir, fn+".index.txt"), strings.Join(is, "\n")+"\n")
		meta.CaseFiles = append(meta.CaseFiles, fn+".v")
	}
	meta.Distribution["result_classes"] = classCount
	n += endToEnd(meta, outDir)
	meta.Evaluations = n
	meta.Distinct = len(distinct)
	meta.Rule = "fault sequences: 0..3 patterns (explicit file, glob over 1..3 files, glob without match, malformed glob) over rule files of kind {valid with 1-2 groups tagged from {style,test,experimental,diagnostic,none}, dangling symlink, syntax error, DSL error, empty, unresolvable import} x failOn in {'', dsl, import, all, lists, unknown values} x legacy failOnError x 9 enable x 6 disable values; materialised on disk and loaded through linter.NewChecker('ruleguard'); observables = init error class, groups firing on a target with one trigger per group, skipped-file log lines. distinct_nontrivial = distinct (class, fired set, #skipped)"
	return meta
}

func describe(ps []pat) string {
	var out []string
	for _, p := range ps {
		if p.bad {
			out = append(out, "<bad-glob>")
			continue
		}
		if len(p.files) == 0 {
			out = append(out, "<no-match>")
			continue
		}
		var fs []string
		for _, f := range p.files {
			s := f.kind
			if f.kind == "valid" {
				var gn []string
				for _, g := range f.gs {
					gn = append(gn, g.name)
				}
				s += "(" + strings.Join(gn, "+") + ")"
			}
			fs = append(fs, s)
		}
		out = append(out, "["+strings.Join(fs, " ")+"]")
	}
	return strings.Join(out, " ")
}
