package c18

import (
	"fmt"
	"os"
	"path/filepath"
	"regexp"
	"sort"
	"strings"
	"time"

	"verifharness/internal/common"
	"verifharness/internal/userrules"
)

// endToEnd runs the four binaries over a three-package module with user rule lists whose outcome the
// property fixes: a listed failure class or an unmatched element fails initialisation (nothing is analysed,
// in no package, non-zero exit); an unlisted failure is skipped and the remaining files apply everywhere.
func endToEnd(meta *common.Meta, outDir string) int {
	ws := filepath.Join(outDir, "ws18")
	os.RemoveAll(ws)
	defer os.RemoveAll(ws)
	rdir := userrules.Workspace(ws)
	r := func(names ...string) string {
		var ps []string
		for _, n := range names {
			ps = append(ps, filepath.Join(rdir, n))
		}
		return "-@ruleguard.rules=" + strings.Join(ps, ",")
	}
	type cfg struct {
		name    string
		flags   []string
		initErr bool
		// expected user-rule messages when initialisation succeeds
		lenZero, capZero bool
	}
	cfgs := []cfg{
		{"good files", []string{r("good.go", "second.go")}, false, true, true},
		{"syntax error listed by failOn=all", []string{r("good.go", "broken.go"), "-@ruleguard.failOn=all"}, true, false, false},
		{"syntax error, failOn empty", []string{r("good.go", "broken.go", "second.go")}, false, true, true},
		{"dsl error listed", []string{r("dslerr.go", "good.go"), "-@ruleguard.failOn=dsl"}, true, false, false},
		{"dsl error, failOn=import", []string{r("dslerr.go", "good.go"), "-@ruleguard.failOn=import"}, false, true, false},
		{"import error listed", []string{r("good.go", "importerr.go"), "-@ruleguard.failOn=import"}, true, false, false},
		{"legacy failOnError", []string{r("second.go", "broken.go"), "-@ruleguard.failOnError"}, true, false, false},
		{"plain path missing", []string{r("good.go", "missing.go")}, true, false, false},
		{"glob without match", []string{r("good.go", "nomatch-*.go")}, true, false, false},
		{"only failing files, skipped", []string{r("broken.go")}, false, false, false},
		// the group filter end to end, in both flag dialects: an explicit list (also an explicitly EMPTY one) is the selection
		{"explicit empty enable list", []string{r("good.go", "second.go"), "-@ruleguard.enable="}, false, false, false},
		{"enable one group by name", []string{r("good.go", "second.go"), "-@ruleguard.enable=userCapZero"}, false, false, true},
		{"disable one group by name", []string{r("good.go", "second.go"), "-@ruleguard.disable=userCapZero"}, false, true, false},
		{"enable list with blanks", []string{r("good.go", "second.go"), "-@ruleguard.enable= userCapZero , nosuch"}, false, false, true},
	}
	// two rule files that define a group of the SAME name under different tags: the selection by tag picks the variant
	vdir := filepath.Join(rdir, "variants")
	variant := func(file, tag, msg string) {
		common.WriteFile(filepath.Join(vdir, file), "package gorules\n\nimport \"github.com/quasilyte/go-ruleguard/dsl\"\n\n//doc:summary variant\n//doc:tags "+tag+"\nfunc gDup(m dsl.Matcher) {\n\tm.Match(`cap($s) == 0`).Report(\""+msg+"\")\n}\n")
	}
	variant("a.go", "style", "user rule userCapZero fired")
	variant("b.go", "diagnostic", "variant B of gDup fired")
	vr := func(names ...string) string {
		var ps []string
		for _, n := range names {
			ps = append(ps, filepath.Join(vdir, n))
		}
		return "-@ruleguard.rules=" + strings.Join(ps, ",")
	}
	cfgs = append(cfgs,
		cfg{"same-named group in two files, #style selects the first variant", []string{vr("a.go", "b.go"), "-@ruleguard.enable=#style"}, false, false, true},
		cfg{"same-named group in two files (other order), #style selects the style variant", []string{vr("b.go", "a.go"), "-@ruleguard.enable=#style"}, false, false, true},
		cfg{"same-named group in two files, the diagnostic variant disabled by tag", []string{vr("a.go", "b.go"), "-@ruleguard.disable=#diagnostic"}, false, false, true},
		cfg{"same-named group in two files (other order), the diagnostic variant disabled by tag", []string{vr("b.go", "a.go"), "-@ruleguard.disable=#diagnostic"}, false, false, true},
	)
	diagRE := regexp.MustCompile(`(?m)^\S*?(api|store|misc)/(a|main)\.go:\d+:\d+: (\w+): (.*)$`)
	runs := 0
	env := common.GoEnv()
	for _, c := range cfgs {
		for _, exe := range []string{"go-critic", "gocritic", "go-critic-analysis", "gocritic-analysis"} {
			var args []string
			if strings.HasSuffix(exe, "-analysis") {
				args = append([]string{"-enable=ruleguard,captLocal", "-disable="}, c.flags...)
			} else {
				args = append([]string{"check", "-enable=ruleguard,captLocal"}, c.flags...)
			}
			args = append(args, "./...")
			out, code, err := common.Run(240*time.Second, ws, env, filepath.Join(common.BinDir(), exe), args...)
			runs++
			if err != nil {
				meta.Fail("C18/"+exe+"/e2e-run", err.Error(), args)
				continue
			}
			perPkg := map[string]map[string]bool{}
			total := 0
			seen := map[string]bool{}
			for _, m := range diagRE.FindAllStringSubmatch(out, -1) {
				if seen[m[0]] {
					continue
				}
				seen[m[0]] = true
				total++
				if perPkg[m[1]] == nil {
					perPkg[m[1]] = map[string]bool{}
				}
				perPkg[m[1]][m[3]+": "+m[4]] = true
			}
			witness := map[string]interface{}{"exe": exe, "args": args, "exit": code, "config": c.name}
			if c.initErr {
				if total > 0 {
					var pk []string
					for p := range perPkg {
						pk = append(pk, p)
					}
					sort.Strings(pk)
					meta.Fail("C18/e2e/analysed-after-init-failure", fmt.Sprintf("%s, %s: initialisation must fail and nothing be analysed, but %d diagnostics were printed for packages %v (exit %d)", exe, c.name, total, pk, code), witness)
				}
				if code == 0 {
					meta.Fail("C18/e2e/init-failure-exit-0", fmt.Sprintf("%s, %s: exit status 0 although initialisation must fail", exe, c.name), witness)
				}
				if !strings.Contains(out, "ruleguard init error") && !strings.Contains(out, "failOn") {
					meta.Fail("C18/e2e/init-failure-not-reported", fmt.Sprintf("%s, %s: no init error in the output: %s", exe, c.name, firstLines(out, 3)), witness)
				}
				continue
			}
			for _, p := range userrules.Packages {
				got := perPkg[p]
				want := map[string]bool{"captLocal: `IN' should not be capitalized": true}
				if c.lenZero {
					want["ruleguard: "+userrules.MsgLenZero] = true
					want["ruleguard: "+userrules.MsgMainFile] = true
					if p == "api" {
						want["ruleguard: "+userrules.MsgAPIOnly] = true
					}
					if p == "store" {
						want["ruleguard: "+userrules.MsgStoreOnly] = true
					}
				}
				if c.capZero {
					want["ruleguard: user rule userCapZero fired"] = true
				}
				var missing, extra []string
				for k := range want {
					if !got[k] {
						missing = append(missing, k)
					}
				}
				for k := range got {
					if !want[k] {
						extra = append(extra, k)
					}
				}
				sort.Strings(missing)
				sort.Strings(extra)
				if len(missing)+len(extra) > 0 {
					meta.Fail("C18/e2e/wrong-rule-set-applied", fmt.Sprintf("%s, %s, package %s: missing %v, unexpected %v", exe, c.name, p, missing, extra), witness)
				}
			}
		}
	}
	return runs
}

func firstLines(s string, n int) string {
	ls := strings.Split(strings.TrimSpace(s), "\n")
	if len(ls) > n {
		ls = ls[:n]
	}
	return strings.Join(ls, " | ")
}
