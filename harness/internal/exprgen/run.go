package exprgen

import (
	"bufio"
	"encoding/json"
	"fmt"
	"math/rand"
	"os"
	"path/filepath"
	"regexp"
	"sort"
	"strconv"
	"strings"
	"time"

	"verifharness/internal/common"
)

// Input is one assignment of run-time values to the standard parameters, plus the scripts the impure
// operand functions return from (cyclically, one shared call counter).
type Input struct {
	A  int      `json:"a"`
	B  int      `json:"b"`
	C  int      `json:"c"`
	U  uint     `json:"u"`
	V  uint     `json:"v"`
	P  string   `json:"p"` // float64 spelled for strconv.ParseFloat ("NaN", "+Inf", "1.5")
	Q  string   `json:"q"`
	S  string   `json:"s"`
	T  string   `json:"t"`
	K  bool     `json:"k"`
	L  bool     `json:"l"`
	XS []int    `json:"xs"`
	BS string   `json:"bs"`
	IV []int    `json:"iv"` // results of fi/gi/fu
	FV []string `json:"fv"` // results of ff
	SV []string `json:"sv"` // results of fs
	BV []bool   `json:"bv"` // results of fb
	TM int64    `json:"tm"` // time.Time operand: Unix nanoseconds
}

// DiffCase: Orig and New are either expressions over Params ("expr") or statement lists ("stmts", the
// observable being the final values of all variables).  With Expect != "" only Orig is run and its value
// is compared with Expect (instrumented execution for C12).
type DiffCase struct {
	ID     int
	Kind   string
	Orig   string
	New    string
	Expect string
	Decls  string // top-level declarations the case needs (generic functions)
	Inputs []Input
	Tag    interface{} // carried through to the report
	// Uncompilable is set by RunDiff when the case's code is rejected by the compiler (a suggestion that is not
	// valid Go is C09's subject): the case is left out and the remaining cases are still executed
	Uncompilable bool
}

// Mismatch is one observed behavioural difference.
type Mismatch struct {
	Case  *DiffCase
	Input Input
	Orig  string
	New   string
}

const diffPrelude = `package main

import (
	"bufio"
	"bytes"
	"encoding/json"
	"fmt"
	"math"
	"os"
	"reflect"
	"strconv"
	"strings"
	"time"
)

var (
	_ = math.NaN
	_ = strings.Index
	_ = bytes.Equal
	_ = time.Unix
)

type in struct {
	A  int      ` + "`json:\"a\"`" + `
	B  int      ` + "`json:\"b\"`" + `
	C  int      ` + "`json:\"c\"`" + `
	U  uint     ` + "`json:\"u\"`" + `
	V  uint     ` + "`json:\"v\"`" + `
	P  string   ` + "`json:\"p\"`" + `
	Q  string   ` + "`json:\"q\"`" + `
	S  string   ` + "`json:\"s\"`" + `
	T  string   ` + "`json:\"t\"`" + `
	K  bool     ` + "`json:\"k\"`" + `
	L  bool     ` + "`json:\"l\"`" + `
	XS []int    ` + "`json:\"xs\"`" + `
	BS string   ` + "`json:\"bs\"`" + `
	IV []int    ` + "`json:\"iv\"`" + `
	FV []string ` + "`json:\"fv\"`" + `
	SV []string ` + "`json:\"sv\"`" + `
	BV []bool   ` + "`json:\"bv\"`" + `
	TM int64    ` + "`json:\"tm\"`" + `
}

var (
	logbuf []byte
	cnt    int
	cur    *in
)

func pf(s string) float64 { v, _ := strconv.ParseFloat(s, 64); return v }
func note(s string)       { logbuf = append(logbuf, s...); logbuf = append(logbuf, ';') }
func nextI() int          { v := cur.IV[cnt%len(cur.IV)]; cnt++; return v }
func fi() int             { note("fi"); return nextI() }
func gi() int             { note("gi"); return nextI() }
func hi(x int) int        { note(fmt.Sprint("hi ", x)); return x + nextI() }
func fu() uint            { note("fu"); v := nextI(); if v < 0 { v = -v }; return uint(v) }
func ff() float64         { note("ff"); v := pf(cur.FV[cnt%len(cur.FV)]); cnt++; return v }
func hf(x float64) float64 { note(fmt.Sprint("hf ", x)); return x }
func fs() string          { note("fs"); v := cur.SV[cnt%len(cur.SV)]; cnt++; return v }
func fb() bool            { note("fb"); v := cur.BV[cnt%len(cur.BV)]; cnt++; return v }
func fbs() []byte         { note("fbs"); return []byte(fs()) }
func fxs() []int          { note("fxs"); return append([]int(nil), cur.XS...) }

type st struct{ n int }

func (r st) add(x int) int { return r.n + x }

// defined (named) types and indirectly mutable state, as operands for type- and purity-sensitive rules
type myStr string
type myInts []int
type myMap map[int]string
type myArr [3]int

// a pointer type that implements error: a nil *myE stored in an error interface is a non-nil error
type myE struct{}

func (*myE) Error() string { return "myE" }

type myErr struct{}

func (myErr) Error() string { return "e" }

type myF float64
type myF32 float32
type myC64 complex64
type myI8 int8
type myU16 uint16
type myC complex128

func fmf() myF { note("fmf"); v := pf(cur.FV[cnt%len(cur.FV)]); cnt++; return myF(v) }

type wr struct {
	err error
	buf   []int
	g     myF
	avail int
}

// conjuncts that return true and change what a neighbouring comparison reads
func (w *wr) refill() bool { w.avail = 9; return true }

var gn int

func bumpG() bool { gn = 9; return true }

func (w *wr) flush() { w.err = myErr{}; w.buf = []int{1} }
func (w *wr) peek() int { return len(w.buf) }


// a value type with the comparison methods the dupArg method rules name, and an iterator whose Next has effects
type val struct{ n int }

func (v val) Equal(o val) bool  { return v.n == o.n }
func (v val) Equals(o val) bool { return v.n == o.n }
func (v val) Compare(o val) int { return v.n - o.n }
func (v val) Cmp(o val) int     { return v.n - o.n }

type iter struct{ i int }

func (it *iter) Next() val { note("Next"); it.i++; return val{it.i} }

var gxs []int

type obj struct {
	f func(int) int
	n int
}

var gf func(int) int = hi

func hj(x int) int { note(fmt.Sprint("hj ", x)); return x * 3 }

// a variadic function that is sensitive to the order of its arguments, a slice reversal, a linked list
func vsum(xs ...int) int {
	r := 0
	for i, x := range xs {
		r += (i + 1) * x
	}
	return r
}

func rev(xs []int) []int {
	out := make([]int, len(xs))
	for i, x := range xs {
		out[len(xs)-1-i] = x
	}
	return out
}

type node struct {
	v    int
	next *node
}

func setG() { gxs = []int{1} }

const cLim = 5
const cLo, cHi = 2, 7
const cOne = 1
const cF = 2.5
const cS = "ab"
const cT int = 9

// verifIsNil: is v the nil value of its type (judged where nil is the predeclared identifier)
func verifIsNil(v interface{}) bool {
	if v == nil {
		return true
	}
	switch rv := reflect.ValueOf(v); rv.Kind() {
	case reflect.Ptr, reflect.Slice, reflect.Map, reflect.Func, reflect.Chan, reflect.Interface:
		return rv.IsNil()
	}
	return false
}

// verifSame: do two operands hold the same value — equal renderings, and for pointers the same object
func verifSame(x, y interface{}) bool {
	if fmt.Sprint(x) != fmt.Sprint(y) {
		return false
	}
	if rx := reflect.ValueOf(x); rx.IsValid() && rx.Kind() == reflect.Ptr {
		ry := reflect.ValueOf(y)
		return ry.IsValid() && ry.Kind() == reflect.Ptr && rx.Pointer() == ry.Pointer()
	}
	return true
}

func run(f func(in) interface{}, i in) (out string) {
	logbuf = logbuf[:0]
	cnt = 0
	i.XS = append([]int(nil), i.XS...)
	cur = &i
	defer func() {
		if r := recover(); r != nil {
			out = "panic|" + string(logbuf)
		}
	}()
	v := f(i)
	return fmt.Sprintf("%#v|%s", v, logbuf)
}

type caseSpec struct {
	ID     int    ` + "`json:\"id\"`" + `
	Expect string ` + "`json:\"expect\"`" + `
	Inputs []in   ` + "`json:\"inputs\"`" + `
}

func main() {
	data, err := os.ReadFile(os.Args[1])
	if err != nil {
		panic(err)
	}
	var specs []caseSpec
	if err := json.Unmarshal(data, &specs); err != nil {
		panic(err)
	}
	w := bufio.NewWriter(os.Stdout)
	defer w.Flush()
	evals := 0
	for _, sp := range specs {
		fs := fns[sp.ID]
		bad := 0
		for idx, i := range sp.Inputs {
			evals++
			o := run(fs[0], i)
			var n string
			if sp.Expect != "" {
				n = sp.Expect
				if strings.HasPrefix(o, sp.Expect+"|") {
					continue
				}
				if sp.Expect != "panic" && strings.HasPrefix(o, "panic|") {
					continue // a claim about the value says nothing about runs that yield no value
				}
			} else {
				n = run(fs[1], i)
				if o == n {
					continue
				}
				if strings.HasPrefix(o, "panic|") && strings.HasPrefix(n, "panic|") {
					// The Go spec orders function calls among themselves but not relative to index or
					// division operations that panic: the compiler may run a later call before an earlier
					// panicking operand in one program and not in the other.  Two panics are the same outcome.
					continue
				}
			}
			bad++
			if bad <= 3 {
				fmt.Fprintf(w, "MISMATCH\t%d\t%d\t%q\t%q\n", sp.ID, idx, o, n)
			}
		}
	}
	fmt.Fprintf(w, "DONE\t%d\n", evals)
}
`

const unpack = "a, b, c, u, v, p, q, s, t, k, l, xs, bs, tm := i.A, i.B, i.C, i.U, i.V, pf(i.P), pf(i.Q), i.S, i.T, i.K, i.L, i.XS, []byte(i.BS), time.Unix(0, i.TM).UTC()\n" +
	"\t_, _, _, _, _, _, _, _, _, _, _, _, _, _ = a, b, c, u, v, p, q, s, t, k, l, xs, bs, tm\n" +
	"\tms, mi, mm, ma := myStr(s), myInts(xs), myMap{0: s, 1: t}, myArr{a, b, c}\n\tpa, w := &ma, &wr{}\n\tgxs, gf, gn = nil, hi, 0\n" +
	"\tmf, mg, mc, mc2 := myF(p), myF(q), myC(complex(p, q)), myC(complex(q, p))\n\tfa := [2]myF{mf, mg}\n\tw.g = mg\n" +
	"\tvv, it := val{a}, &iter{}\n\tvar pe *myE\n\tif k {\n\t\tpe = &myE{}\n\t}\n\t_ = pe\n\tcx := complex(p, q)\n\t_ = cx\n" +
	"\t_, _, _, _, _, _, _, _, _, _, _, _, _ = ms, mi, mm, ma, pa, w, mf, mg, mc, mc2, fa, vv, it\n"

func caseFunc(kind, body string) string {
	if kind == "stmts" {
		return "func(i in) interface{} {\n\t" + unpack + "\t" + body + "\n\treturn fmt.Sprint(a, b, c, u, v, p, q, s, t, k, l, xs, bs, ms, mi, mm, ma, *w, gxs)\n}"
	}
	return "func(i in) interface{} {\n\t" + unpack + "\treturn " + body + "\n}"
}

// RunDiff builds one program containing all cases, runs it and returns the mismatches and the
// number of (case, input) evaluations.
func RunDiff(workDir string, cases []*DiffCase) ([]Mismatch, int, error) {
	if len(cases) == 0 {
		return nil, 0, nil
	}
	common.Must(os.MkdirAll(workDir, 0o755))
	type spec struct {
		ID     int     `json:"id"`
		Expect string  `json:"expect"`
		Inputs []Input `json:"inputs"`
	}
	byID := map[int]*DiffCase{}
	for _, c := range cases {
		byID[c.ID] = c
	}
	bin := filepath.Join(workDir, "difft")
	lineRe := regexp.MustCompile(`(?m)^\./main\.go:(\d+):`)
	for round := 0; ; round++ {
		var b strings.Builder
		b.WriteString(diffPrelude)
		b.WriteString(FmtCatalogue())
		seenDecl := map[string]bool{}
		for _, c := range cases {
			if c.Decls != "" && !seenDecl[c.Decls] && !c.Uncompilable {
				seenDecl[c.Decls] = true
				b.WriteString("\n" + c.Decls + "\n")
			}
		}
		b.WriteString("\nvar fns = map[int][2]func(in) interface{}{\n")
		var specs []spec
		type span struct{ from, to, id int }
		var spans []span
		for _, c := range cases {
			if c.Uncompilable {
				continue
			}
			nw := c.New
			if c.Expect != "" {
				nw = c.Orig
			}
			from := strings.Count(b.String(), "\n") + 1
			fmt.Fprintf(&b, "\t%d: {\n%s,\n%s,\n},\n", c.ID, caseFunc(c.Kind, c.Orig), caseFunc(c.Kind, nw))
			spans = append(spans, span{from, strings.Count(b.String(), "\n"), c.ID})
			specs = append(specs, spec{c.ID, c.Expect, c.Inputs})
		}
		b.WriteString("}\n")
		common.WriteFile(filepath.Join(workDir, "main.go"), b.String())
		common.WriteFile(filepath.Join(workDir, "go.mod"), "module difft\n\ngo 1.21\n")
		data, err := json.Marshal(specs)
		if err != nil {
			return nil, 0, err
		}
		common.Must(os.WriteFile(filepath.Join(workDir, "inputs.json"), data, 0o644))
		out, code, err := common.Run(5*time.Minute, workDir, common.GoEnv("GOFLAGS=-mod=mod"), "go", "build", "-gcflags=-e", "-o", bin, ".")
		if err == nil && code == 0 {
			break
		}
		// attribute the compiler's complaints to cases; leave those cases out and build again
		dropped := 0
		for _, m := range lineRe.FindAllStringSubmatch(out, -1) {
			ln, _ := strconv.Atoi(m[1])
			for _, sp := range spans {
				if sp.from <= ln && ln <= sp.to && !byID[sp.id].Uncompilable {
					byID[sp.id].Uncompilable = true
					dropped++
				}
			}
		}
		if dropped == 0 || round >= 4 {
			return nil, 0, fmt.Errorf("differential program does not build (%v):\n%s", err, firstLines(out, 30))
		}
	}
	so, se, code, err := common.RunSplit(5*time.Minute, workDir, os.Environ(), bin, filepath.Join(workDir, "inputs.json"))
	if err != nil || code != 0 {
		return nil, 0, fmt.Errorf("differential program failed (%v, rc=%d): %s", err, code, firstLines(se, 20))
	}
	var res []Mismatch
	evals := 0
	sc := bufio.NewScanner(strings.NewReader(so))
	sc.Buffer(make([]byte, 1<<20), 1<<24)
	for sc.Scan() {
		f := strings.Split(sc.Text(), "\t")
		switch f[0] {
		case "DONE":
			evals, _ = strconv.Atoi(f[1])
		case "MISMATCH":
			id, _ := strconv.Atoi(f[1])
			idx, _ := strconv.Atoi(f[2])
			o, _ := strconv.Unquote(f[3])
			n, _ := strconv.Unquote(f[4])
			c := byID[id]
			res = append(res, Mismatch{Case: c, Input: c.Inputs[idx], Orig: o, New: n})
		}
	}
	if evals == 0 {
		return nil, 0, fmt.Errorf("differential program printed no DONE line")
	}
	return res, evals, nil
}

func firstLines(s string, n int) string {
	l := strings.Split(s, "\n")
	if len(l) > n {
		l = l[:n]
	}
	return strings.Join(l, "\n")
}

var (
	intLitRe = regexp.MustCompile(`\b(0[xX][0-9a-fA-F_]+|0[bB][01_]+|0[oO][0-7_]+|[0-9][0-9_]*)\b`)
	identRe  = regexp.MustCompile(`[A-Za-z_][A-Za-z_0-9]*`)
)

// Grid builds the input grid for an expression/statement text: integers around the literals it
// contains (+-2), floats incl. NaN, +-Inf and halves, strings incl. empty and non-ASCII, scripts for
// impure operands.  Only variables that occur in the text vary.  Unsigned operands stay >= 6 when the
// text subtracts (integer reasoning may assume no overflow).
func Grid(r *rand.Rand, text string, max int) []Input {
	used := map[string]bool{}
	for _, id := range identRe.FindAllString(text, -1) {
		used[id] = true
	}
	// derived operands vary with the inputs they are built from
	if used["ms"] || used["mm"] {
		used["s"], used["t"] = true, true
	}
	if used["mi"] {
		used["xs"] = true
	}
	if used["pe"] {
		used["k"] = true
	}
	if used["vv"] || used["val"] {
		used["a"] = true
	}
	if used["mf"] || used["mg"] || used["mc"] || used["mc2"] || used["fa"] || used["w"] || used["cx"] {
		used["p"], used["q"] = true, true
	}
	if used["fmf"] {
		used["ff"] = true
	}
	if used["ma"] || used["pa"] {
		used["a"], used["b"], used["c"] = true, true, true
	}
	lits := map[int]bool{0: true, 1: true}
	for name, v := range ConstInts {
		if used[name] {
			lits[v] = true
		}
	}
	for _, m := range intLitRe.FindAllString(text, -1) {
		if v, err := strconv.ParseInt(m, 0, 64); err == nil && v < 1<<20 {
			lits[int(v)] = true
		}
	}
	cand := map[int]bool{}
	for v := range lits {
		for d := -2; d <= 2; d++ {
			cand[v+d] = true
		}
	}
	var ints []int
	for v := range cand {
		ints = append(ints, v)
	}
	sort.Ints(ints)
	umin := 0
	if strings.Contains(text, "-") {
		umin = 6
	}
	var uints []uint
	for _, v := range ints {
		if v >= umin {
			uints = append(uints, uint(v))
		}
	}
	if len(uints) == 0 {
		uints = []uint{6, 7, 8}
	}
	floats := []string{"NaN", "+Inf", "-Inf"}
	for _, v := range ints {
		floats = append(floats, strconv.Itoa(v), fmt.Sprintf("%d.5", v))
	}
	strs := []string{"", "a", "ab", "b", "é", "aé", "ba"}
	xss := [][]int{nil, {}, {1}, {3, 1, 2}, {9, 8, 7, 6}}
	bss := []string{"", "a", "ab", "é"}
	base := Input{A: 1, B: 2, C: 3, U: 7, V: 8, P: "1.5", Q: "2.5", S: "a", T: "b", XS: []int{3, 1, 2}, BS: "ab",
		IV: []int{7, 8}, FV: []string{"1.5"}, SV: []string{"a"}, BV: []bool{true}, TM: 1700000000123456789}
	pickI := func() int { return ints[r.Intn(len(ints))] }
	gen := func() Input {
		in := base
		if used["a"] {
			in.A = pickI()
		}
		if used["b"] {
			in.B = pickI()
		}
		if used["c"] {
			in.C = pickI()
		}
		if used["u"] {
			in.U = uints[r.Intn(len(uints))]
		}
		if used["v"] {
			in.V = uints[r.Intn(len(uints))]
		}
		if used["p"] {
			in.P = floats[r.Intn(len(floats))]
		}
		if used["q"] {
			in.Q = floats[r.Intn(len(floats))]
		}
		if used["s"] {
			in.S = strs[r.Intn(len(strs))]
		}
		if used["t"] {
			in.T = strs[r.Intn(len(strs))]
		}
		if used["k"] {
			in.K = r.Intn(2) == 0
		}
		if used["l"] {
			in.L = r.Intn(2) == 0
		}
		if used["xs"] || used["fxs"] {
			in.XS = xss[r.Intn(len(xss))]
		}
		if used["bs"] {
			in.BS = bss[r.Intn(len(bss))]
		}
		if used["fi"] || used["gi"] || used["hi"] || used["fu"] {
			n := 1 + r.Intn(3)
			in.IV = nil
			for j := 0; j < n; j++ {
				v := pickI()
				if used["fu"] && v < umin {
					v = umin + j
				}
				in.IV = append(in.IV, v)
			}
		}
		if used["ff"] {
			n := 1 + r.Intn(2)
			in.FV = nil
			for j := 0; j < n; j++ {
				in.FV = append(in.FV, floats[r.Intn(len(floats))])
			}
		}
		if used["fs"] || used["fbs"] {
			in.SV = []string{strs[r.Intn(len(strs))], strs[r.Intn(len(strs))]}
		}
		if used["fb"] {
			in.BV = []bool{r.Intn(2) == 0, r.Intn(2) == 0}
		}
		if used["tm"] {
			in.TM = []int64{0, 1, 999, 1000, 999999, 1000000, 1700000000123456789, 1234567890, -1, -1500000000}[r.Intn(10)]
		}
		return in
	}
	seen := map[string]bool{}
	var out []Input
	for tries := 0; tries < max*4 && len(out) < max; tries++ {
		in := gen()
		key := fmt.Sprintf("%+v", in)
		if !seen[key] {
			seen[key] = true
			out = append(out, in)
		}
	}
	return out
}
