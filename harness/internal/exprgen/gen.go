package exprgen

import (
	"fmt"
	"math/rand"
	"strings"
)

// Every generated function has these parameters; impure operands are calls of the functions declared
// in Preamble (in differential programs they log their name and return values from a script).
const Params = "a, b, c int, u, v uint, p, q float64, s, t string, k, l bool, xs []int, bs []byte, ms myStr, mi myInts, mm myMap, ma myArr, pa *myArr, w *wr, mf, mg myF, mc, mc2 myC, fa [2]myF, vv val, it *iter, pe *myE, cx complex128"

// Preamble for files that are only analysed (never run).
const LintPreamble = `
func fi() int       { return 0 }
func gi() int       { return 0 }
func hi(x int) int  { return x }
func fu() uint      { return 0 }
func ff() float64   { return 0 }
func hf(x float64) float64 { return x }
func fs() string    { return "" }
func fb() bool      { return false }
func fbs() []byte   { return nil }
func fxs() []int    { return nil }

type st struct{ n int }

func (r st) add(x int) int { return r.n + x }

// defined (named) types and indirectly mutable state, as operands for type- and purity-sensitive rules
type myStr string
type myInts []int
type myMap map[int]string
type myArr [3]int

// a pointer type that implements error: a nil *myE stored in an error interface is a non-nil error
type myE struct{}

func (*myE) Error() string { return "myE" }

type myErr struct{}

func (myErr) Error() string { return "e" }

type myF float64
type myF32 float32
type myC64 complex64
type myI8 int8
type myU16 uint16
type myC complex128

func fmf() myF { return 0 }

type wr struct {
	err error
	buf   []int
	g     myF
	avail int
}

// conjuncts that return true and change what a neighbouring comparison reads
func (w *wr) refill() bool { w.avail = 9; return true }

var gn int

func bumpG() bool { gn = 9; return true }

func (w *wr) flush() { w.err = myErr{}; w.buf = []int{1} }
func (w *wr) peek() int { return len(w.buf) }


// a value type with the comparison methods the dupArg method rules name, and an iterator whose Next has effects
type val struct{ n int }

func (v val) Equal(o val) bool  { return v.n == o.n }
func (v val) Equals(o val) bool { return v.n == o.n }
func (v val) Compare(o val) int { return v.n - o.n }
func (v val) Cmp(o val) int     { return v.n - o.n }

type iter struct{ i int }

func (it *iter) Next() val { it.i++; return val{it.i} }

var gxs []int

// callee forms for function-literal rewrites: func-typed struct field, func-typed package variable
type obj struct {
	f func(int) int
	n int
}

var gf func(int) int = hi

func hj(x int) int { return x * 3 }

// a variadic function that is sensitive to the order of its arguments, a slice reversal, a linked list
func vsum(xs ...int) int {
	r := 0
	for i, x := range xs {
		r += (i + 1) * x
	}
	return r
}

func rev(xs []int) []int {
	out := make([]int, len(xs))
	for i, x := range xs {
		out[len(xs)-1-i] = x
	}
	return out
}

type node struct {
	v    int
	next *node
}

func setG() { gxs = []int{1} }

// named constants (untyped and typed): go/types sees their values, the syntactic rules see identifiers
const cLim = 5
const cLo, cHi = 2, 7
const cOne = 1
const cF = 2.5
const cS = "ab"
const cT int = 9
`

// Flavour of a generated expression: decides which hazards may occur together, so that a failing
// rewrite can be attributed to one defect class.
type Flavour int

const (
	FlIntDec Flavour = iota // int/uint operands, decimal literals
	FlIntLit                // int/uint operands, literals in all Go spellings (0x, 0o, 0b, 010, 1_0)
	FlFloat                 // float64 operands (int literals in float context included), decimal spellings
	FlString                // strings and ints, decimal spellings
	NFlavours
)

func (f Flavour) String() string {
	return [...]string{"int-decimal", "int-literal-spellings", "float", "string"}[f]
}

// G is a seeded expression generator.
type G struct {
	R  *rand.Rand
	Fl Flavour
	// Shapes counts the rule-directed shapes produced
	Shapes map[string]int
}

type ex struct {
	s    string
	prec int // 7 primary, 6 unary, 5 mul, 4 add, 3 cmp, 2 &&, 1 ||
}

func (g *G) pick(n int) int { return g.R.Intn(n) }
func (g *G) chance(pct int) bool {
	return g.R.Intn(100) < pct
}

func paren(e ex) ex { return ex{"(" + e.s + ")", 7} }

// bin composes a left-associative binary expression, adding parentheses where Go's grammar needs them
func bin(op string, prec int, l, r ex) ex {
	if l.prec < prec {
		l = paren(l)
	}
	if r.prec <= prec {
		r = paren(r)
	}
	return ex{l.s + " " + op + " " + r.s, prec}
}

func (g *G) numType() string {
	switch g.Fl {
	case FlFloat:
		// float64 and a defined type whose underlying type is float64
		switch n := g.pick(100); {
		case n < 45:
			return "float"
		case n < 72:
			return "mfloat"
		}
		return "int"
	case FlString:
		if g.chance(50) {
			return "string"
		}
		return "int"
	default:
		if g.chance(25) {
			return "uint"
		}
		return "int"
	}
}

// IntLit spells n (>= 0) according to the flavour.
func (g *G) IntLit(n int) string {
	if g.Fl != FlIntLit {
		return fmt.Sprint(n)
	}
	switch g.pick(8) {
	case 0:
		return fmt.Sprintf("0%o", n) // legacy octal (also "00" for zero)
	case 1:
		return fmt.Sprintf("0x%X", n)
	case 2:
		return fmt.Sprintf("0b%b", n)
	case 3:
		return fmt.Sprintf("0o%o", n)
	case 4:
		if n >= 10 {
			d := fmt.Sprint(n)
			return d[:1] + "_" + d[1:]
		}
		return fmt.Sprint(n)
	default:
		return fmt.Sprint(n)
	}
}

func isFloatT(t string) bool { return t == "float" || t == "mfloat" }

// ConstDecls: the named constants of the preambles and their values
var ConstInts = map[string]int{"cLim": 5, "cLo": 2, "cHi": 7, "cOne": 1, "cT": 9}

func (g *G) lit(t string, n int) ex {
	if g.chance(9) {
		// a named constant in the literal's place
		switch t {
		case "float", "mfloat":
			return ex{[]string{"cF", "cLim", "cLo"}[g.pick(3)], 7}
		case "string":
			return ex{"cS", 7}
		case "int":
			return ex{[]string{"cLim", "cLo", "cHi", "cOne", "cT"}[g.pick(5)], 7}
		case "uint":
			return ex{[]string{"cLim", "cLo", "cHi", "cOne"}[g.pick(4)], 7}
		}
	}
	switch t {
	case "float", "mfloat":
		switch g.pick(4) {
		case 0:
			return ex{fmt.Sprintf("%d.5", n), 7}
		case 1:
			return ex{fmt.Sprintf("%d.0", n), 7}
		case 2:
			return ex{fmt.Sprintf("%d.25", n), 7}
		default:
			return ex{fmt.Sprint(n), 7} // int literal in float context
		}
	case "string":
		return ex{[]string{`""`, `"a"`, `"ab"`, `"b"`, "\"é\"", "`a`"}[g.pick(6)], 7}
	}
	return ex{g.IntLit(n), 7}
}

func (g *G) smallInt() int {
	return []int{0, 1, 1, 2, 3, 5, 7, 8, 9, 10, 15, 16, 17, 64}[g.pick(14)]
}

func (g *G) variable(t string) ex {
	switch t {
	case "int":
		return ex{[]string{"a", "b", "c"}[g.pick(3)], 7}
	case "uint":
		return ex{[]string{"u", "v"}[g.pick(2)], 7}
	case "float":
		return ex{[]string{"p", "q"}[g.pick(2)], 7}
	case "mfloat":
		// variables of the defined type, a struct field and array elements of it
		return ex{[]string{"mf", "mg", "mf", "mg", "w.g", "fa[0]", "fa[1]"}[g.pick(7)], 7}
	case "string":
		return ex{[]string{"s", "t"}[g.pick(2)], 7}
	}
	return ex{[]string{"k", "l"}[g.pick(2)], 7}
}

func (g *G) impure(t string) ex {
	switch t {
	case "int":
		if g.chance(50) {
			return ex{"fi()", 7}
		}
		return ex{"gi()", 7}
	case "uint":
		return ex{"fu()", 7}
	case "float":
		return ex{"ff()", 7}
	case "mfloat":
		return ex{"fmf()", 7}
	case "string":
		return ex{"fs()", 7}
	}
	return ex{"fb()", 7}
}

// Num generates an expression of type t ("int", "uint", "float", "string").
func (g *G) Num(d int, t string) ex {
	if d <= 0 || g.chance(30) {
		switch n := g.pick(10); {
		case n < 5:
			return g.variable(t)
		case n < 8:
			return g.lit(t, g.smallInt())
		default:
			return g.impure(t)
		}
	}
	if t == "string" {
		switch g.pick(4) {
		case 0:
			return bin("+", 4, g.Num(d-1, t), g.Num(d-1, t))
		case 1:
			return paren(g.Num(d-1, t))
		default:
			return g.Num(0, t)
		}
	}
	switch n := g.pick(20); {
	case n < 4: // the inc/dec shapes
		op := []string{"+", "-"}[g.pickSub(t)]
		if t == "uint" && op == "-" {
			// unsigned subtraction only from a variable (kept >= 6 by the input grid): no wrap-around,
			// which the property lets integer reasoning ignore
			return bin(op, 4, g.variable(t), ex{"1", 7})
		}
		return bin(op, 4, g.Num(d-1, t), ex{"1", 7})
	case n < 7:
		return bin("+", 4, g.Num(d-1, t), g.Num(d-1, t))
	case n < 9:
		if t == "uint" {
			return bin("+", 4, g.Num(d-1, t), g.Num(d-1, t))
		}
		return bin("-", 4, g.Num(d-1, t), g.Num(d-1, t))
	case n < 11:
		if isFloatT(t) {
			return bin("+", 4, g.Num(d-1, t), g.lit(t, g.smallInt()))
		}
		return bin("*", 5, g.Num(d-1, t), g.Num(d-1, t))
	case n < 12:
		if t != "int" {
			return g.Num(d-1, t)
		}
		op := []string{"/", "%"}[g.pick(2)]
		if g.chance(50) {
			return bin(op, 5, g.Num(d-1, t), ex{g.IntLit(2 + g.pick(3)), 7})
		}
		return bin(op, 5, g.Num(d-1, t), g.variable(t))
	case n < 13:
		if t == "uint" {
			return g.Num(d-1, t)
		}
		x := g.Num(0, t)
		if strings.HasPrefix(x.s, "-") {
			return x
		}
		return ex{"-" + x.s, 6}
	case n < 15:
		return paren(g.Num(d-1, t))
	case n < 16:
		if t == "int" {
			return ex{"hi(" + g.Num(d-1, t).s + ")", 7}
		}
		if t == "float" {
			return ex{"hf(" + g.Num(d-1, t).s + ")", 7}
		}
		return g.impure(t)
	case n < 17:
		if t == "int" {
			return ex{"len(" + []string{"s", "t", "xs", "bs"}[g.pick(4)] + ")", 7}
		}
		return g.Num(d-1, t)
	case n < 18:
		if t == "int" {
			idx := g.variable("int")
			if g.chance(40) {
				idx = bin("+", 4, idx, ex{"1", 7})
			}
			return ex{[]string{"xs", "s"}[g.pick(2)] + "[" + strings.ReplaceAll(idx.s, " ", "") + "]", 7}
		}
		return g.Num(d-1, t)
	default:
		return g.Num(0, t)
	}
}

// pickSub: index into {"+","-"}; unsigned operands only get "-" rarely (wrap-around is avoided by the
// input grid, see RunDiff)
func (g *G) pickSub(t string) int {
	if t == "uint" && g.chance(70) {
		return 0
	}
	return g.pick(2)
}

var cmpOps = []string{"==", "!=", "<", "<=", ">", ">="}

func (g *G) cmp(d int) ex {
	if g.Fl == FlFloat && g.chance(8) {
		// a defined complex type: only == and != exist
		c := func() ex {
			if g.chance(30) {
				return bin("+", 4, ex{"mc", 7}, ex{"mc2", 7})
			}
			return ex{[]string{"mc", "mc2"}[g.pick(2)], 7}
		}
		return bin(cmpOps[g.pick(2)], 3, c(), c())
	}
	t := g.numType()
	return bin(cmpOps[g.pick(6)], 3, g.Num(d-1, t), g.Num(d-1, t))
}

func (g *G) not(e ex) ex {
	if e.prec < 6 {
		e = paren(e)
	}
	return ex{"!" + e.s, 6}
}

func (g *G) shape(name string) { g.Shapes[name]++ }

// rangeShape: `X op1 c1 LOG X op2 c2` around the foldRanges tables
func (g *G) rangeShape(d int) ex {
	g.shape("range")
	t := g.numType()
	if t == "string" {
		t = "int"
	}
	var x ex
	switch g.pick(10) {
	case 0:
		x = g.impure(t)
	case 1, 2:
		x = g.Num(d-1, t)
	case 3:
		if t == "int" {
			x = ex{"xs[a]", 7}
		} else {
			x = g.variable(t)
		}
	default:
		x = g.variable(t)
	}
	x2 := x
	if g.chance(8) {
		x2 = g.variable(t)
	}
	c1 := g.smallInt()
	c2 := c1 + []int{0, 1, 2, 2, 1, 3}[g.pick(6)]
	land := g.chance(50)
	var o1, o2 string
	if g.chance(75) {
		if land {
			o1, o2 = []string{">", ">="}[g.pick(2)], []string{"<", "<="}[g.pick(2)]
		} else {
			o1, o2 = []string{"<", "<="}[g.pick(2)], []string{">", ">="}[g.pick(2)]
		}
	} else {
		o1, o2 = cmpOps[g.pick(6)], cmpOps[g.pick(6)]
	}
	l1, l2 := g.litFor(t, c1), g.litFor(t, c2)
	if g.Fl == FlIntLit {
		// legacy octal spellings are the ones strconv.ParseInt(.., 10, ..) accepts with another value
		switch g.pick(4) {
		case 0:
			l1, l2 = ex{fmt.Sprintf("0%o", c1), 7}, ex{fmt.Sprintf("0%o", c2), 7}
		case 1:
			if d := fmt.Sprint(c2); !strings.ContainsAny(d, "89") {
				l1, l2 = ex{fmt.Sprint(c1), 7}, ex{"0" + d, 7}
			}
		}
	}
	l := bin(o1, 3, x, l1)
	r := bin(o2, 3, x2, l2)
	if g.chance(10) {
		l = paren(l)
	}
	if g.chance(10) {
		r = paren(r)
	}
	if land {
		return bin("&&", 2, l, r)
	}
	return bin("||", 1, l, r)
}

// litFor: integer-valued literal usable at type t (float operands mostly get plain int spellings
// so that only the hasFloats guard stands between the expression and foldRanges)
func (g *G) litFor(t string, n int) ex {
	if isFloatT(t) && g.chance(30) {
		return g.lit(t, n)
	}
	return ex{g.IntLit(n), 7}
}

func (g *G) combineShape(d int) ex {
	g.shape("combine")
	t := g.numType()
	x, y := g.Num(d-1, t), g.Num(d-1, t)
	y2 := y
	if g.chance(10) {
		y2 = g.Num(d-1, t)
	}
	pairs := [][2]string{{">", "=="}, {"==", ">"}, {"<", "=="}, {"==", "<"}, {">=", "=="}, {"<", ">"}, {"!=", "<"}}
	pr := pairs[g.pick(len(pairs))]
	l := bin(pr[0], 3, x, y)
	r := bin(pr[1], 3, x, y2)
	if g.chance(25) {
		l = paren(l)
	}
	if g.chance(25) {
		r = paren(r)
	}
	if g.chance(90) {
		return bin("||", 1, l, r)
	}
	return bin("&&", 2, l, r)
}

func (g *G) incdecShape(d int) ex {
	g.shape("incdec")
	t := g.numType()
	if t == "string" {
		t = "int"
	}
	x, y := g.Num(d-1, t), g.Num(d-1, t)
	one := ex{"1", 7}
	sub := "-"
	if t == "uint" && g.chance(60) {
		sub = "+"
	}
	if t == "uint" && sub == "-" {
		x, y = g.variable(t), g.variable(t)
	}
	op := []string{">", ">=", "<", "<="}[g.pick(4)]
	switch g.pick(6) {
	case 0:
		return bin(op, 3, bin("+", 4, x, one), y)
	case 1:
		return bin(op, 3, bin(sub, 4, x, one), y)
	case 2:
		return bin(op, 3, x, bin("+", 4, y, one))
	case 3:
		return bin(op, 3, x, bin(sub, 4, y, one))
	case 4:
		return bin(op, 3, bin("+", 4, x, one), bin(sub, 4, y, one))
	default:
		return bin(op, 3, bin("+", 4, x, one), bin("+", 4, y, one))
	}
}

// Bool generates a boolean expression of nesting depth <= d.
func (g *G) Bool(d int) ex {
	if d <= 0 {
		switch n := g.pick(10); {
		case n < 5:
			return g.variable("bool")
		case n < 7:
			return g.impure("bool")
		default:
			t := g.numType()
			return bin(cmpOps[g.pick(6)], 3, g.Num(0, t), g.Num(0, t))
		}
	}
	switch n := g.pick(100); {
	case n < 14:
		return g.rangeShape(d)
	case n < 24:
		return g.combineShape(d)
	case n < 36:
		return g.incdecShape(d)
	case n < 42:
		g.shape("dblneg")
		inner := g.Bool(d - 1)
		switch g.pick(3) {
		case 0:
			return g.not(g.not(inner))
		case 1:
			return g.not(paren(g.not(inner)))
		default:
			return g.not(paren(g.not(paren(inner))))
		}
	case n < 46:
		g.shape("negeq")
		x, y := g.not(g.Bool(d-1)), g.not(g.Bool(d-1))
		if g.chance(20) {
			x = paren(x)
		}
		return bin([]string{"==", "==", "!="}[g.pick(3)], 3, x, y)
	case n < 56:
		g.shape("invert")
		return g.not(paren(g.cmp(d)))
	case n < 66:
		return g.cmp(d)
	case n < 72:
		return g.not(g.Bool(d - 1))
	case n < 77:
		return paren(g.Bool(d - 1))
	case n < 88:
		return bin("&&", 2, g.Bool(d-1), g.Bool(d-1))
	case n < 96:
		return bin("||", 1, g.Bool(d-1), g.Bool(d-1))
	case n < 98:
		return bin([]string{"==", "!="}[g.pick(2)], 3, g.Bool(d-1), g.Bool(d-1))
	default:
		return g.Bool(0)
	}
}

// BoolExpr returns the source text of a generated boolean expression (nesting <= 4).
func (g *G) BoolExpr() string {
	return g.Bool(1 + g.pick(4)).s
}

// FmtCatalogue declares defined string types tS0..tS15 with every subset of the methods fmt consults
// (bit 0 String, bit 1 Error, bit 2 Format, bit 3 GoString), and a struct type whose String method has a
// pointer receiver (so that a nil pointer is a possible operand).  The file using it must import "fmt".
func FmtCatalogue() string {
	var b strings.Builder
	for k := 0; k < 16; k++ {
		fmt.Fprintf(&b, "type tS%d string\n", k)
		if k&1 != 0 {
			fmt.Fprintf(&b, "func (v tS%d) String() string { return \"S:\" + string(v) }\n", k)
		}
		if k&2 != 0 {
			fmt.Fprintf(&b, "func (v tS%d) Error() string { return \"E:\" + string(v) }\n", k)
		}
		if k&4 != 0 {
			fmt.Fprintf(&b, "func (v tS%d) Format(f fmt.State, c rune) { fmt.Fprint(f, \"F:\"+string(v)) }\n", k)
		}
		if k&8 != 0 {
			fmt.Fprintf(&b, "func (v tS%d) GoString() string { return \"G:\" + string(v) }\n", k)
		}
	}
	b.WriteString("type pS struct{ v string }\nfunc (p *pS) String() string { return \"P:\" + p.v }\n")
	return b.String()
}

// FmtMethods names the method set of catalogue type tSk.
func FmtMethods(k int) string {
	var m []string
	for i, n := range []string{"String", "Error", "Format", "GoString"} {
		if k&(1<<i) != 0 {
			m = append(m, n)
		}
	}
	if len(m) == 0 {
		return "no-methods"
	}
	return strings.Join(m, "+")
}
