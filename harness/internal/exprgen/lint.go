// Package exprgen: shared machinery of the C10/C12 harness — generation of Go expressions over
// typed variables, running the real checkers through the public linter API, conversion of
// go/ast + go/types to Model_Expr terms, and compile-and-run differential execution.
package exprgen

import (
	"fmt"
	"go/ast"
	"go/importer"
	"go/parser"
	"go/token"
	"go/types"
	"os"
	"path/filepath"
	"sync"

	"github.com/go-critic/go-critic/linter"

	"verifharness/internal/load"
)

var (
	rulesOnce sync.Once
	rulesErr  error
	impOnce   sync.Once
	imp       types.Importer
)

// EnsureRules registers the embedded ruleguard checkers (once per process).
func EnsureRules() error {
	rulesOnce.Do(load.InitRules)
	return rulesErr
}

func sharedImporter() types.Importer {
	impOnce.Do(func() { imp = importer.ForCompiler(token.NewFileSet(), "source", nil) })
	return imp
}

// Linted is a parsed and type-checked single-file package.
type Linted struct {
	Fset *token.FileSet
	File *ast.File
	Info *types.Info
	Pkg  *types.Package
	Src  string
}

// Load parses and type-checks src (package name taken from the source).
func Load(filename, src string) (*Linted, error) {
	// the ruleguard engine reads the file from disk to render `$var` texts (and cannot print a variadic
	// match without it): the analysed source is always materialised
	if !filepath.IsAbs(filename) {
		dir := filepath.Join(os.TempDir(), fmt.Sprintf("vh-lint-%d", os.Getpid()))
		if err := os.MkdirAll(dir, 0o755); err != nil {
			return nil, err
		}
		filename = filepath.Join(dir, filename)
	}
	if err := os.WriteFile(filename, []byte(src), 0o644); err != nil {
		return nil, err
	}
	fset := token.NewFileSet()
	f, err := parser.ParseFile(fset, filename, src, parser.ParseComments)
	if err != nil {
		return nil, err
	}
	info := &types.Info{
		Types:      map[ast.Expr]types.TypeAndValue{},
		Defs:       map[*ast.Ident]types.Object{},
		Uses:       map[*ast.Ident]types.Object{},
		Implicits:  map[ast.Node]types.Object{},
		Selections: map[*ast.SelectorExpr]*types.Selection{},
		Scopes:     map[ast.Node]*types.Scope{},
	}
	conf := types.Config{Importer: sharedImporter()}
	pkg, err := conf.Check(f.Name.Name, fset, []*ast.File{f}, info)
	if err != nil {
		return nil, fmt.Errorf("type-check: %w", err)
	}
	return &Linted{Fset: fset, File: f, Info: info, Pkg: pkg, Src: src}, nil
}

// Run runs one registered checker (by name) over the file through the public API:
// linter.NewContext / SetPackageInfo / SetFileInfo / NewChecker / Check.
func (l *Linted) Run(name string) ([]linter.Warning, error) {
	if err := EnsureRules(); err != nil {
		return nil, err
	}
	var info *linter.CheckerInfo
	for _, ci := range linter.GetCheckersInfo() {
		if ci.Name == name {
			info = ci
		}
	}
	if info == nil {
		return nil, fmt.Errorf("checker %q is not registered", name)
	}
	ctx := linter.NewContext(l.Fset, types.SizesFor("gc", "amd64"))
	ctx.SetPackageInfo(l.Info, l.Pkg)
	c, err := linter.NewChecker(ctx, info)
	if err != nil {
		return nil, err
	}
	ctx.SetFileInfo(l.Fset.Position(l.File.Pos()).Filename, l.File)
	return c.Check(l.File), nil
}

// FuncOf returns the name of the top-level function containing pos ("" if none).
func (l *Linted) FuncOf(pos token.Pos) string {
	for _, d := range l.File.Decls {
		if fd, ok := d.(*ast.FuncDecl); ok && fd.Pos() <= pos && pos < fd.End() {
			return fd.Name.Name
		}
	}
	return ""
}

// Text returns the source text of a node.
func (l *Linted) Text(n ast.Node) string {
	return l.Src[l.Fset.Position(n.Pos()).Offset:l.Fset.Position(n.End()).Offset]
}
