package exprgen

import (
	"fmt"
	"go/ast"
	"go/constant"
	"go/token"
	"go/types"
	"math/big"
	"strings"

	"verifharness/internal/coqfmt"
)

// Conv converts go/ast expressions (with go/types facts) to Model_Expr terms (Coq syntax).
type Conv struct {
	Info    *types.Info
	Parents map[ast.Node]ast.Node
	// Stats: constructor histogram of converted terms
	Stats map[string]int
}

func NewConv(info *types.Info, file *ast.File) *Conv {
	c := &Conv{Info: info, Stats: map[string]int{}, Parents: map[ast.Node]ast.Node{}}
	var stack []ast.Node
	ast.Inspect(file, func(n ast.Node) bool {
		if n == nil {
			stack = stack[:len(stack)-1]
			return true
		}
		if len(stack) > 0 {
			c.Parents[n] = stack[len(stack)-1]
		}
		stack = append(stack, n)
		return true
	})
	return c
}

func isUntyped(t types.Type) bool {
	b, ok := t.(*types.Basic)
	return ok && b.Info()&types.IsUntyped != 0
}

func isArith(op token.Token) bool {
	switch op {
	case token.ADD, token.SUB, token.MUL, token.QUO, token.REM:
		return true
	}
	return false
}

// TypeOf is the model type of e.  go/types leaves the operands of a constant expression untyped
// ("15 - 1" inside "ff() < 15 - 1" has untyped int operands); the model types literals by context,
// the way the compiler converts them: the type of the outermost enclosing constant arithmetic
// expression, or, when that is untyped as well (constant comparison), float if either side is.
func (c *Conv) TypeOf(e ast.Expr) (string, error) {
	t := c.Info.TypeOf(e)
	if t == nil {
		return "", fmt.Errorf("no type for %T", e)
	}
	if !isUntyped(t) {
		return ModelType(t)
	}
	top := ast.Node(e)
	for {
		par, ok := c.Parents[top].(ast.Expr)
		if !ok {
			break
		}
		climb := false
		switch p := par.(type) {
		case *ast.ParenExpr:
			climb = true
		case *ast.UnaryExpr:
			climb = p.Op == token.SUB || p.Op == token.ADD
		case *ast.BinaryExpr:
			climb = isArith(p.Op)
		}
		if !climb {
			break
		}
		if tv, ok := c.Info.Types[par]; !ok || tv.Value == nil {
			break
		}
		top = par
	}
	tt := c.Info.TypeOf(top.(ast.Expr))
	if !isUntyped(tt) {
		return ModelType(tt)
	}
	if cmp, ok := c.Parents[top].(*ast.BinaryExpr); ok && !isArith(cmp.Op) && cmp.Op != token.LAND && cmp.Op != token.LOR {
		other := cmp.X
		if other == top {
			other = cmp.Y
		}
		ot := c.Info.TypeOf(other)
		if ot != nil && !isUntyped(ot) {
			return ModelType(ot)
		}
		if ob, ok := ot.(*types.Basic); ok && ob.Info()&types.IsFloat != 0 {
			return "TFloat", nil
		}
	}
	return ModelType(tt)
}

func hasFloatProp(t types.Type) bool {
	if t == nil {
		return false
	}
	b, ok := t.Underlying().(*types.Basic)
	return ok && b.Info()&types.IsFloat != 0
}

// FloatFlagsAgree reports whether the checker's hasFloats (go/types view of every binary operand in
// root) equals the model's has_floats (contextual types).  They differ only when a constant arithmetic
// expression in float context is the sole "float" binary of root; such roots are outside the fragment.
func (c *Conv) FloatFlagsAgree(root ast.Expr) bool {
	realHF, modelHF := false, false
	ast.Inspect(root, func(n ast.Node) bool {
		if b, ok := n.(*ast.BinaryExpr); ok {
			if hasFloatProp(c.Info.TypeOf(b.X)) || hasFloatProp(c.Info.TypeOf(b.Y)) {
				realHF = true
			}
			tx, _ := c.TypeOf(b.X)
			ty, _ := c.TypeOf(b.Y)
			if tx == "TFloat" || ty == "TFloat" {
				modelHF = true
			}
		}
		return true
	})
	return realHF == modelHF
}

// ModelType maps a go/types type to the model's ty constructor.
func ModelType(t types.Type) (string, error) {
	if t == nil {
		return "", fmt.Errorf("no type")
	}
	switch u := t.Underlying().(type) {
	case *types.Basic:
		switch {
		case u.Info()&types.IsBoolean != 0:
			return "TBool", nil
		case u.Info()&types.IsInteger != 0:
			return "TInt", nil
		case u.Info()&types.IsFloat != 0:
			return "TFloat", nil
		case u.Info()&types.IsString != 0:
			return "TString", nil
		}
	case *types.Slice:
		if b, ok := u.Elem().Underlying().(*types.Basic); ok {
			if b.Kind() == types.Byte || b.Kind() == types.Uint8 {
				return "TBytes", nil
			}
			if b.Info()&types.IsInteger != 0 {
				return "TInts", nil
			}
		}
	case *types.Array:
		// an array of integers keeps its elements in a list, like a slice (kind KArr)
		if b, ok := u.Elem().Underlying().(*types.Basic); ok && b.Info()&types.IsInteger != 0 && b.Kind() != types.Byte && b.Kind() != types.Uint8 {
			return "TInts", nil
		}
	case *types.Pointer:
		// a pointer to an array of integers
		if arr, ok := u.Elem().Underlying().(*types.Array); ok {
			if b, ok := arr.Elem().Underlying().(*types.Basic); ok && b.Info()&types.IsInteger != 0 && b.Kind() != types.Byte && b.Kind() != types.Uint8 {
				return "TPArr", nil
			}
		}
	case *types.Map:
		// map[int]string
		kb, ok1 := u.Key().Underlying().(*types.Basic)
		vb, ok2 := u.Elem().Underlying().(*types.Basic)
		if ok1 && ok2 && kb.Info()&types.IsInteger != 0 && vb.Info()&types.IsString != 0 {
			return "TMapIS", nil
		}
	case *types.Struct:
		if n, ok := t.(*types.Named); ok && n.Obj().Pkg() != nil && n.Obj().Pkg().Path() == "time" && n.Obj().Name() == "Time" {
			return "TTime", nil
		}
	}
	return "", fmt.Errorf("type %s is outside the fragment", t)
}

// Kind is the model's vkind of a declared type: KPlain (predeclared / type literal), KDef name, KArr.
func Kind(t types.Type) string {
	if _, ok := t.Underlying().(*types.Array); ok {
		return "KArr"
	}
	if n, ok := t.(*types.Named); ok && !(n.Obj().Pkg() != nil && n.Obj().Pkg().Path() == "time") {
		return "(KDef " + coqfmt.Str(n.Obj().Name()) + ")"
	}
	return "KPlain"
}

// ConstValue renders a go/types constant as a Model_Expr value.
func ConstValue(v constant.Value, t types.Type) (string, error) {
	mt, err := ModelType(t)
	if err != nil {
		return "", err
	}
	switch mt {
	case "TBool":
		if v.Kind() == constant.Bool {
			return fmt.Sprintf("(VBool %v)", constant.BoolVal(v)), nil
		}
	case "TInt":
		if i := constant.ToInt(v); i.Kind() == constant.Int {
			if bi, ok := constant.Val(i).(*big.Int); ok {
				return "(VInt (" + bi.String() + ")%Z)", nil
			}
			if i64, ok := constant.Int64Val(i); ok {
				return fmt.Sprintf("(VInt (%d)%%Z)", i64), nil
			}
		}
	case "TFloat":
		f := constant.ToFloat(v)
		if f.Kind() == constant.Int || f.Kind() == constant.Float {
			num, den := constant.Num(f), constant.Denom(f)
			if num.Kind() == constant.Int && den.Kind() == constant.Int {
				return "(VFloat (FFin (QArith_base.Qmake (" + num.ExactString() + ")%Z (" + den.ExactString() + ")%positive)))", nil
			}
		}
	case "TString":
		if v.Kind() == constant.String {
			return "(VStr " + coqfmt.Str(constant.StringVal(v)) + ")", nil
		}
	}
	return "", fmt.Errorf("constant %s of type %s", v, t)
}

var binops = map[token.Token]string{
	token.ADD: "OAdd", token.SUB: "OSub", token.MUL: "OMul", token.QUO: "OQuo", token.REM: "ORem",
	token.EQL: "OEq", token.NEQ: "ONe", token.LSS: "OLt", token.LEQ: "OLe", token.GTR: "OGt", token.GEQ: "OGe",
	token.LAND: "OLAnd", token.LOR: "OLOr",
	token.AND: "OAnd", token.OR: "OOr", token.XOR: "OXor", token.SHL: "OShl", token.SHR: "OShr", token.AND_NOT: "OAndNot",
}

var pkgPrims = map[string]string{
	"strings.Index": "PStrIndex", "strings.Contains": "PStrContains", "strings.Compare": "PStrCompare",
	"bytes.Equal": "PBytesEqual",
	"strings.HasPrefix": "PStrHasPrefix", "strings.HasSuffix": "PStrHasSuffix", "strings.LastIndex": "PStrLastIndex",
	"strings.EqualFold": "PStrEqualFold", "strings.ToLower": "PStrToLower", "strings.ToUpper": "PStrToUpper",
	"strings.IndexAny": "PStrIndexAny", "strings.ContainsAny": "PStrContainsAny",
	"strings.Replace": "PStrReplace", "strings.ReplaceAll": "PStrReplaceAll",
	"bytes.Index": "PBytesIndex", "bytes.Contains": "PBytesContains", "bytes.Compare": "PBytesCompare",
	"bytes.HasPrefix": "PBytesHasPrefix", "bytes.HasSuffix": "PBytesHasSuffix", "bytes.LastIndex": "PBytesLastIndex",
	"bytes.EqualFold": "PBytesEqualFold", "bytes.Replace": "PBytesReplace", "bytes.ReplaceAll": "PBytesReplaceAll",
}

var methodPrims = map[string]string{"Unix": "PUnix", "UnixNano": "PUnixNano", "UnixMilli": "PUnixMilli", "UnixMicro": "PUnixMicro"}

func (c *Conv) list(es []ast.Expr) (string, error) {
	parts := make([]string, len(es))
	for i, e := range es {
		s, err := c.Expr(e)
		if err != nil {
			return "", err
		}
		parts[i] = s
	}
	return "[" + strings.Join(parts, "; ") + "]", nil
}

// Expr converts e; an error means e is outside the model's fragment.
func (c *Conv) Expr(e ast.Expr) (string, error) {
	switch e := e.(type) {
	case *ast.Ident:
		obj := c.Info.ObjectOf(e)
		if co, ok := obj.(*types.Const); ok {
			// a named constant (true, false, const c = 5): the value go/types computed
			ct := co.Type()
			if isUntyped(ct) {
				if tt, err := c.TypeOf(e); err == nil {
					v, err := constValueAt(co.Val(), tt)
					if err != nil {
						return "", err
					}
					c.Stats["EConst"]++
					return fmt.Sprintf("(EConst %s %s)", coqfmt.Str(e.Name), v), nil
				}
			}
			v, err := ConstValue(co.Val(), ct)
			if err != nil {
				return "", err
			}
			c.Stats["EConst"]++
			return fmt.Sprintf("(EConst %s %s)", coqfmt.Str(e.Name), v), nil
		}
		if _, ok := obj.(*types.Var); !ok {
			return "", fmt.Errorf("identifier %s is not a variable", e.Name)
		}
		t, err := ModelType(obj.Type())
		if err != nil {
			return "", err
		}
		if k := Kind(obj.Type()); k != "KPlain" {
			c.Stats["EVarK"]++
			return fmt.Sprintf("(EVarK %s %s %s)", coqfmt.Str(e.Name), k, t), nil
		}
		c.Stats["EIdent"]++
		return fmt.Sprintf("(EIdent %s %s)", coqfmt.Str(e.Name), t), nil
	case *ast.SelectorExpr:
		// x.f with x a pointer-to-struct variable and f a field
		id, ok := e.X.(*ast.Ident)
		if !ok {
			return "", fmt.Errorf("selector on %T", e.X)
		}
		xv, ok := c.Info.ObjectOf(id).(*types.Var)
		if !ok {
			return "", fmt.Errorf("selector on %s", id.Name)
		}
		pt, ok := xv.Type().Underlying().(*types.Pointer)
		if !ok {
			return "", fmt.Errorf("selector on a non-pointer")
		}
		if _, ok := pt.Elem().Underlying().(*types.Struct); !ok {
			return "", fmt.Errorf("selector on a pointer to a non-struct")
		}
		sel := c.Info.Selections[e]
		if sel == nil || sel.Kind() != types.FieldVal || len(sel.Index()) != 1 {
			return "", fmt.Errorf("selector %s is not a direct field", e.Sel.Name)
		}
		ft := sel.Obj().Type()
		t, err := ModelType(ft)
		if err != nil {
			return "", err
		}
		c.Stats["ESel"]++
		return fmt.Sprintf("(ESel %s %s %s %s)", coqfmt.Str(id.Name), coqfmt.Str(e.Sel.Name), Kind(ft), t), nil
	case *ast.BasicLit:
		k := ""
		switch e.Kind {
		case token.INT:
			k = "LInt"
		case token.FLOAT:
			k = "LFloat"
		case token.STRING:
			k = "LString"
		default:
			return "", fmt.Errorf("literal kind %s", e.Kind)
		}
		t, err := c.TypeOf(e)
		if err != nil {
			return "", err
		}
		c.Stats["ELit"]++
		return fmt.Sprintf("(ELit %s %s %s)", k, coqfmt.Str(e.Value), t), nil
	case *ast.ParenExpr:
		x, err := c.Expr(e.X)
		if err != nil {
			return "", err
		}
		c.Stats["EParen"]++
		return "(EParen " + x + ")", nil
	case *ast.UnaryExpr:
		op := ""
		switch e.Op {
		case token.NOT:
			op = "UNot"
		case token.SUB:
			op = "UNeg"
		default:
			return "", fmt.Errorf("unary %s", e.Op)
		}
		x, err := c.Expr(e.X)
		if err != nil {
			return "", err
		}
		c.Stats["EUnary"]++
		return fmt.Sprintf("(EUnary %s %s)", op, x), nil
	case *ast.BinaryExpr:
		op, ok := binops[e.Op]
		if !ok {
			return "", fmt.Errorf("binary %s", e.Op)
		}
		x, err := c.Expr(e.X)
		if err != nil {
			return "", err
		}
		y, err := c.Expr(e.Y)
		if err != nil {
			return "", err
		}
		c.Stats["EBinary"]++
		return fmt.Sprintf("(EBinary %s %s %s)", op, x, y), nil
	case *ast.StarExpr:
		// *p for a pointer to an array of integers
		if t, err := ModelType(c.Info.TypeOf(e.X)); err != nil || t != "TPArr" {
			return "", fmt.Errorf("dereference of %s", c.Info.TypeOf(e.X))
		}
		x, err := c.Expr(e.X)
		if err != nil {
			return "", err
		}
		c.Stats["EDeref"]++
		return "(EDeref " + x + ")", nil
	case *ast.IndexExpr:
		x, err := c.Expr(e.X)
		if err != nil {
			return "", err
		}
		i, err := c.Expr(e.Index)
		if err != nil {
			return "", err
		}
		c.Stats["EIndex"]++
		return fmt.Sprintf("(EIndex %s %s)", x, i), nil
	case *ast.SliceExpr:
		if e.Low != nil || e.High != nil || e.Max != nil {
			return "", fmt.Errorf("slice expression with bounds")
		}
		x, err := c.Expr(e.X)
		if err != nil {
			return "", err
		}
		c.Stats["ESliceAll"]++
		return "(ESliceAll " + x + ")", nil
	case *ast.CallExpr:
		return c.call(e)
	}
	return "", fmt.Errorf("node %T is outside the fragment", e)
}

func (c *Conv) call(e *ast.CallExpr) (string, error) {
	if e.Ellipsis.IsValid() {
		return "", fmt.Errorf("variadic call")
	}
	c.Stats["ECall"]++
	// conversions
	if tv, ok := c.Info.Types[e.Fun]; ok && tv.IsType() && len(e.Args) == 1 {
		to, err := ModelType(tv.Type)
		if err != nil {
			return "", err
		}
		from, err := ModelType(c.Info.TypeOf(e.Args[0]))
		if err != nil {
			return "", err
		}
		args, err := c.list(e.Args)
		if err != nil {
			return "", err
		}
		switch {
		case to == "TBytes" && from == "TString":
			if _, isArr := e.Fun.(*ast.ArrayType); !isArr {
				return "", fmt.Errorf("[]byte conversion through a named type")
			}
			return "(ECall (FPrim PBytesOfString) " + args + ")", nil
		case to == "TString" && from == "TBytes":
			if id, isId := e.Fun.(*ast.Ident); !isId || id.Name != "string" {
				return "", fmt.Errorf("string conversion through a named type")
			}
			return "(ECall (FPrim PStringOfBytes) " + args + ")", nil
		}
		return "", fmt.Errorf("conversion %s -> %s", from, to)
	}
	switch fun := e.Fun.(type) {
	case *ast.Ident:
		switch obj := c.Info.ObjectOf(fun).(type) {
		case *types.Builtin:
			if obj.Name() == "len" && len(e.Args) == 1 {
				args, err := c.list(e.Args)
				if err != nil {
					return "", err
				}
				return "(ECall (FPrim PLen) " + args + ")", nil
			}
			return "", fmt.Errorf("builtin %s", obj.Name())
		case *types.Func:
			sig := obj.Type().(*types.Signature)
			if sig.Results().Len() != 1 {
				return "", fmt.Errorf("call with %d results", sig.Results().Len())
			}
			ret, err := ModelType(sig.Results().At(0).Type())
			if err != nil {
				return "", err
			}
			args, err := c.list(e.Args)
			if err != nil {
				return "", err
			}
			return fmt.Sprintf("(ECall (FOpaque %s %s) %s)", coqfmt.Str(fun.Name), ret, args), nil
		}
		return "", fmt.Errorf("call of %s", fun.Name)
	case *ast.SelectorExpr:
		if id, ok := fun.X.(*ast.Ident); ok {
			if pn, ok := c.Info.ObjectOf(id).(*types.PkgName); ok {
				key := pn.Imported().Path() + "." + fun.Sel.Name
				if p, ok := pkgPrims[key]; ok {
					args, err := c.list(e.Args)
					if err != nil {
						return "", err
					}
					return "(ECall (FPrim " + p + ") " + args + ")", nil
				}
				return "", fmt.Errorf("library function %s", key)
			}
		}
		if sel := c.Info.Selections[fun]; sel != nil && sel.Kind() == types.MethodVal {
			if rt, err := ModelType(sel.Recv()); err == nil && rt == "TTime" {
				if p, ok := methodPrims[fun.Sel.Name]; ok && len(e.Args) == 0 {
					recv, err := c.Expr(fun.X)
					if err != nil {
						return "", err
					}
					return "(ECall (FPrim " + p + ") [" + recv + "])", nil
				}
			}
		}
	}
	return "", fmt.Errorf("call outside the fragment")
}

// FloatTypesAgreeAt reports whether, for every binary expression inside root, go/types and the model agree
// on "the left operand is float" (they differ for constant sub-expressions in float context, whose operands
// go/types leaves untyped int: such roots are outside the fragment of checkers that look at operand types
// node by node).
func (c *Conv) FloatTypesAgreeAt(root ast.Expr) bool {
	ok := true
	ast.Inspect(root, func(n ast.Node) bool {
		if b, isBin := n.(*ast.BinaryExpr); isBin {
			for _, x := range []ast.Expr{b.X, b.Y} {
				t, _ := c.TypeOf(x)
				if hasFloatProp(c.Info.TypeOf(x)) != (t == "TFloat") {
					ok = false
				}
			}
		}
		return ok
	})
	return ok
}

// constValueAt renders an untyped constant at the model type its context gives it.
func constValueAt(v constant.Value, mt string) (string, error) {
	switch mt {
	case "TBool":
		return ConstValue(v, types.Typ[types.Bool])
	case "TInt":
		return ConstValue(v, types.Typ[types.Int])
	case "TFloat":
		return ConstValue(v, types.Typ[types.Float64])
	case "TString":
		return ConstValue(v, types.Typ[types.String])
	}
	return "", fmt.Errorf("untyped constant at %s", mt)
}

// Lval converts an assignable operand to a Model_Stmt lval.
func (c *Conv) Lval(e ast.Expr) (string, error) {
	switch e := e.(type) {
	case *ast.Ident:
		v, ok := c.Info.ObjectOf(e).(*types.Var)
		if !ok {
			return "", fmt.Errorf("left operand %s is not a variable", e.Name)
		}
		t, err := ModelType(v.Type())
		if err != nil {
			return "", err
		}
		if k := Kind(v.Type()); k != "KPlain" {
			return fmt.Sprintf("(LVarK %s %s %s)", coqfmt.Str(e.Name), k, t), nil
		}
		return fmt.Sprintf("(LVar %s %s)", coqfmt.Str(e.Name), t), nil
	case *ast.IndexExpr:
		id, ok := e.X.(*ast.Ident)
		if !ok {
			return "", fmt.Errorf("indexed left operand %T", e.X)
		}
		v, ok := c.Info.ObjectOf(id).(*types.Var)
		if !ok {
			return "", fmt.Errorf("indexed left operand %s", id.Name)
		}
		if t, err := ModelType(v.Type()); err != nil || t != "TInts" {
			return "", fmt.Errorf("indexed left operand of type %s", v.Type())
		}
		i, err := c.Expr(e.Index)
		if err != nil {
			return "", err
		}
		if k := Kind(v.Type()); k != "KPlain" {
			return fmt.Sprintf("(LIdxK %s %s %s)", coqfmt.Str(id.Name), k, i), nil
		}
		return fmt.Sprintf("(LIdx %s %s)", coqfmt.Str(id.Name), i), nil
	case *ast.SelectorExpr:
		x, err := c.Expr(e)
		if err != nil {
			return "", err
		}
		if !strings.HasPrefix(x, "(ESel ") {
			return "", fmt.Errorf("selector left operand")
		}
		return "(LSel " + strings.TrimPrefix(x, "(ESel "), nil
	}
	return "", fmt.Errorf("left operand %T is outside the fragment", e)
}

var assignOps = map[token.Token]string{
	token.ADD_ASSIGN: "OAdd", token.SUB_ASSIGN: "OSub", token.MUL_ASSIGN: "OMul", token.QUO_ASSIGN: "OQuo", token.REM_ASSIGN: "ORem",
	token.AND_ASSIGN: "OAnd", token.OR_ASSIGN: "OOr", token.XOR_ASSIGN: "OXor", token.SHL_ASSIGN: "OShl", token.SHR_ASSIGN: "OShr",
	token.AND_NOT_ASSIGN: "OAndNot",
}

// Stmts converts a statement list to a Coq list of Model_Stmt terms.
func (c *Conv) Stmts(l []ast.Stmt) (string, error) {
	parts := make([]string, len(l))
	for i, s := range l {
		t, err := c.Stmt(s)
		if err != nil {
			return "", err
		}
		parts[i] = t
	}
	return "[" + strings.Join(parts, "; ") + "]", nil
}

func (c *Conv) seq(l []ast.Stmt) (string, error) {
	if len(l) == 0 {
		return "SSkip", nil
	}
	h, err := c.Stmt(l[0])
	if err != nil {
		return "", err
	}
	if len(l) == 1 {
		return h, nil
	}
	r, err := c.seq(l[1:])
	if err != nil {
		return "", err
	}
	return "(SSeq " + h + " " + r + ")", nil
}

// Stmt converts one statement; an error means it is outside Model_Stmt's fragment.
func (c *Conv) Stmt(s ast.Stmt) (string, error) {
	switch s := s.(type) {
	case *ast.AssignStmt:
		switch {
		case s.Tok == token.ASSIGN && len(s.Lhs) == 1 && len(s.Rhs) == 1:
			l, err := c.Lval(s.Lhs[0])
			if err != nil {
				return "", err
			}
			e, err := c.Expr(s.Rhs[0])
			if err != nil {
				return "", err
			}
			c.Stats["SAssign"]++
			return "(SAssign " + l + " " + e + ")", nil
		case s.Tok == token.ASSIGN && len(s.Lhs) == 2 && len(s.Rhs) == 2:
			l1, err := c.Lval(s.Lhs[0])
			if err != nil {
				return "", err
			}
			l2, err := c.Lval(s.Lhs[1])
			if err != nil {
				return "", err
			}
			e1, err := c.Expr(s.Rhs[0])
			if err != nil {
				return "", err
			}
			e2, err := c.Expr(s.Rhs[1])
			if err != nil {
				return "", err
			}
			c.Stats["SAssign2"]++
			return "(SAssign2 " + l1 + " " + l2 + " " + e1 + " " + e2 + ")", nil
		case s.Tok == token.DEFINE && len(s.Lhs) == 1 && len(s.Rhs) == 1:
			id, ok := s.Lhs[0].(*ast.Ident)
			if !ok {
				return "", fmt.Errorf("define of %T", s.Lhs[0])
			}
			v, ok := c.Info.ObjectOf(id).(*types.Var)
			if !ok {
				return "", fmt.Errorf("define of %s", id.Name)
			}
			t, err := ModelType(v.Type())
			if err != nil {
				return "", err
			}
			if Kind(v.Type()) != "KPlain" {
				return "", fmt.Errorf("define of a variable of a defined type")
			}
			e, err := c.Expr(s.Rhs[0])
			if err != nil {
				return "", err
			}
			c.Stats["SDefine"]++
			return fmt.Sprintf("(SDefine %s %s %s)", coqfmt.Str(id.Name), t, e), nil
		}
		if op, ok := assignOps[s.Tok]; ok && len(s.Lhs) == 1 && len(s.Rhs) == 1 {
			l, err := c.Lval(s.Lhs[0])
			if err != nil {
				return "", err
			}
			e, err := c.Expr(s.Rhs[0])
			if err != nil {
				return "", err
			}
			c.Stats["SAssignOp"]++
			return "(SAssignOp " + l + " " + op + " " + e + ")", nil
		}
		return "", fmt.Errorf("assignment form outside the fragment")
	case *ast.IncDecStmt:
		l, err := c.Lval(s.X)
		if err != nil {
			return "", err
		}
		c.Stats["SIncDec"]++
		return fmt.Sprintf("(SIncDec %s %v)", l, s.Tok == token.INC), nil
	case *ast.SwitchStmt:
		if s.Init != nil {
			return "", fmt.Errorf("switch with init statement")
		}
		tag := "None"
		if s.Tag != nil {
			t, err := c.Expr(s.Tag)
			if err != nil {
				return "", err
			}
			tag = "(Some " + t + ")"
		}
		dflt := "SSkip"
		var cases []string
		for _, st := range s.Body.List {
			cc := st.(*ast.CaseClause)
			body, err := c.seq(cc.Body)
			if err != nil {
				return "", err
			}
			if cc.List == nil {
				dflt = body
				continue
			}
			if len(cc.List) != 1 {
				return "", fmt.Errorf("case clause with %d expressions", len(cc.List))
			}
			e, err := c.Expr(cc.List[0])
			if err != nil {
				return "", err
			}
			cases = append(cases, "("+e+", "+body+")")
		}
		c.Stats["SSwitch"]++
		return "(SSwitch " + tag + " [" + strings.Join(cases, "; ") + "] " + dflt + ")", nil
	}
	return "", fmt.Errorf("statement %T is outside the fragment", s)
}
