// Package c01 projects the shared crash/position/namesake oracle run (internal/corpus) on property C01.
package c01

import (
	"verifharness/internal/common"
	"verifharness/internal/corpus"
)

func Run(tier string, seed int64, outDir string) *common.Meta {
	s, dir := corpus.Get(tier, seed)
	return corpus.MetaFor("C01", s, dir, outDir)
}
