package c17

// envfaults.go — "the doc sub-command lists exactly the registered checkers" also when the environment is not
// the healthy one the other stages run in: GOROOT pointing at a directory that does not exist, GOROOT unset with no
// go command in PATH, HOME unset (no build cache), GOFLAGS=-mod=vendor. The rule groups become checkers by an
// explicit initialisation that resolves types from the Go sources, so a front-end that goes on after that
// initialisation failed offers a registry without the rule groups. Every run of `doc`, `doc <rule group>`,
// `check -v` (both CLI mains) and `-debug-init -enable-all` (both analysis binaries) must either fail (non-zero
// status and a message) or list / document / offer exactly the registry; the twins must agree.

import (
	"fmt"
	"os"
	"path/filepath"
	"regexp"
	"sort"
	"strings"
	"time"

	"github.com/go-critic/go-critic/linter"

	"verifharness/internal/common"
)

var docRowRE17 = regexp.MustCompile(`(?m)^\|:(heavy|white)_check_mark:\[(\w+)\]`)

func envWithout(env []string, drop ...string) []string {
	var out []string
	for _, kv := range env {
		keep := true
		for _, d := range drop {
			if strings.HasPrefix(kv, d+"=") {
				keep = false
			}
		}
		if keep {
			out = append(out, kv)
		}
	}
	return out
}

func envFaultStage(meta *common.Meta, outDir string) int {
	ws := filepath.Join(outDir, "envws")
	os.RemoveAll(ws)
	defer os.RemoveAll(ws)
	common.WriteFile(filepath.Join(ws, "go.mod"), "module envws\n\ngo 1.20\n")
	common.WriteFile(filepath.Join(ws, "a.go"), "package envws\n\nfunc F(IN int, xs []int) bool { return len(xs) >= 0 && IN > 0 }\n")
	var want, groups []string
	for _, info := range linter.GetCheckersInfo() {
		if strings.HasPrefix(info.Name, "zzProbe") {
			continue
		}
		want = append(want, info.Name)
		if info.EmbeddedRuleguard {
			groups = append(groups, info.Name)
		}
	}
	sort.Strings(want)
	if len(groups) == 0 {
		meta.TieBroken = append(meta.TieBroken, "env faults: no embedded rule group in the registry")
		return 0
	}
	group := groups[len(groups)/2]
	base := common.GoEnv()
	faults := []struct {
		name string
		env  []string
	}{
		{"GOROOT=/nonexistent", append(envWithout(base, "GOROOT"), "GOROOT=/nonexistent-verif-goroot")},
		{"GOROOT unset, no go in PATH", append(envWithout(base, "GOROOT", "PATH"), "PATH=/nonexistent-verif-bin")},
		{"HOME unset, no GOCACHE", envWithout(base, "HOME", "GOCACHE", "XDG_CACHE_HOME")},
		{"GOFLAGS=-mod=vendor", append(envWithout(base, "GOFLAGS"), "GOFLAGS=-mod=vendor")},
		{"GOROOT=empty directory", append(envWithout(base, "GOROOT"), "GOROOT="+ws)},
	}
	type cmd struct {
		name string
		args []string
	}
	cliCmds := []cmd{{"doc", []string{"doc"}}, {"doc <rule group>", []string{"doc", group}}, {"check -v", []string{"check", "-v", "-enable=captLocal," + group, "./..."}}}
	type job struct {
		fault, exe string
		c          cmd
		env        []string
		so, se     string
		code       int
		err        error
	}
	var jobs []*job
	for _, f := range faults {
		for _, exe := range []string{"go-critic", "gocritic"} {
			for _, c := range cliCmds {
				jobs = append(jobs, &job{fault: f.name, exe: exe, c: c, env: f.env})
			}
		}
		for _, exe := range []string{"go-critic-analysis", "gocritic-analysis"} {
			jobs = append(jobs, &job{fault: f.name, exe: exe, c: cmd{"-debug-init -enable-all", []string{"-debug-init", "-enable-all", "-disable=", "./..."}}, env: f.env})
		}
	}
	sem := make(chan struct{}, 6)
	done := make(chan struct{})
	for _, j := range jobs {
		j := j
		go func() {
			sem <- struct{}{}
			j.so, j.se, j.code, j.err = common.RunSplit(120*time.Second, ws, j.env, filepath.Join(common.BinDir(), j.exe), j.c.args...)
			<-sem
			done <- struct{}{}
		}()
	}
	for range jobs {
		<-done
	}
	outcome := map[string]string{} // fault|command|family -> exe -> class
	classes := map[string]int{}
	for _, j := range jobs {
		if j.err != nil {
			meta.Fail("C17/"+j.exe+"/env-fault-hang", fmt.Sprintf("%s %v under %s: %v", j.exe, j.c.args, j.fault, j.err), j.fault)
			continue
		}
		all := j.so + "\n" + j.se
		class := "failed"
		witness := map[string]interface{}{"exe": j.exe, "args": j.c.args, "environment": j.fault, "exit": j.code, "output": lastLines(all, 4)}
		enabled := map[string]bool{}
		for _, l := range strings.Split(all, "\n") {
			if i := strings.Index(l, "debug: "); i >= 0 && strings.HasSuffix(l, " is enabled") {
				enabled[strings.TrimSuffix(l[i+len("debug: "):], " is enabled")] = true
			}
		}
		switch j.c.name {
		case "doc":
			if j.code == 0 {
				var got []string
				for _, l := range strings.Split(strings.TrimSpace(j.so), "\n") {
					if f := strings.Fields(l); len(f) > 0 {
						got = append(got, f[0])
					}
				}
				sort.Strings(got)
				class = "lists the registry"
				if strings.Join(got, ",") != strings.Join(want, ",") {
					class = fmt.Sprintf("lists %d of %d checkers", len(got), len(want))
					meta.Fail("C17/doc-cmd/list-under-env-fault", fmt.Sprintf("%s doc under %s exits 0 and lists %d checkers, the registry of a healthy run has %d (the rule groups are missing?): %s", j.exe, j.fault, len(got), len(want), lastLines(j.se, 2)), witness)
				}
			}
		case "doc <rule group>":
			if j.code == 0 {
				class = "documents the group"
				if !strings.HasPrefix(j.so, group+" checker documentation") {
					class = "exit 0 without the documentation"
					meta.Fail("C17/doc-cmd/entry-under-env-fault", fmt.Sprintf("%s doc %s under %s exits 0 without printing the group's documentation", j.exe, group, j.fault), witness)
				}
			} else if strings.Contains(all, "not found") {
				class = "says the rule group does not exist"
				meta.Fail("C17/doc-cmd/entry-under-env-fault", fmt.Sprintf("%s doc %s under %s: the rule group is said not to exist: %s", j.exe, group, j.fault, lastLines(all, 2)), witness)
			}
		case "check -v":
			if len(enabled) > 0 {
				class = "runs with the selection"
				if !enabled[group] || !enabled["captLocal"] {
					class = "runs without the rule group"
					meta.Fail("C17/check/rule-group-not-offered-under-env-fault", fmt.Sprintf("%s check -v -enable=captLocal,%s under %s goes on without %s: %s", j.exe, group, j.fault, group, lastLines(all, 3)), witness)
				}
			} else if j.code == 0 {
				class = "exit 0 without running"
				meta.Fail("C17/check/rule-group-not-offered-under-env-fault", fmt.Sprintf("%s check -v under %s exits 0 without enabling anything: %s", j.exe, j.fault, lastLines(all, 3)), witness)
			}
		default: // analysis binaries
			if len(enabled) > 0 {
				class = "offers the registry"
				var lacking []string
				for _, g := range groups {
					if !enabled[g] {
						lacking = append(lacking, g)
					}
				}
				if len(lacking) > 0 {
					class = "offers a registry without rule groups"
					meta.Fail("C17/"+j.exe+"/rule-groups-not-offered-under-env-fault", fmt.Sprintf("%s -enable-all under %s does not enable %d rule groups: %v", j.exe, j.fault, len(lacking), lacking), witness)
				}
			} else if j.code == 0 {
				class = "exit 0 without running"
				meta.Fail("C17/"+j.exe+"/rule-groups-not-offered-under-env-fault", fmt.Sprintf("%s under %s exits 0 without enabling anything", j.exe, j.fault), witness)
			}
		}
		if class == "failed" && strings.TrimSpace(all) == "" {
			meta.Fail("C17/"+j.exe+"/env-fault-silent-failure", fmt.Sprintf("%s %v under %s exits %d without a message", j.exe, j.c.args, j.fault, j.code), witness)
		}
		classes[class]++
		family := "cli"
		if strings.HasSuffix(j.exe, "-analysis") {
			family = "analysis"
		}
		k := j.fault + "|" + j.c.name + "|" + family
		if prev, ok := outcome[k]; ok && prev != class {
			meta.Fail("C17/twins/differ-under-env-fault", fmt.Sprintf("%s under %s: one twin %q, the other (%s) %q", j.c.name, j.fault, prev, j.exe, class), witness)
		}
		outcome[k] = class
	}
	meta.Distribution["env_fault_outcomes"] = classes
	return len(jobs)
}

// defaultSelections: the default-enabled marks of docs/overview.md against what EVERY front-end enables when it is
// given no selection flag — `check -v` of both CLI mains, `-debug-init` of both analysis binaries — and the front-ends
// against each other.
func defaultSelections(meta *common.Meta, outDir string) int {
	ws := filepath.Join(outDir, "defws")
	os.RemoveAll(ws)
	defer os.RemoveAll(ws)
	common.WriteFile(filepath.Join(ws, "go.mod"), "module defws\n\ngo 1.20\n")
	common.WriteFile(filepath.Join(ws, "a.go"), "package defws\n\nfunc F(n int) int { return n }\n")
	data, err := os.ReadFile(filepath.Join(common.RepoDir, "docs", "overview.md"))
	if err != nil {
		meta.Notes = append(meta.Notes, "default selections: "+err.Error())
		return 0
	}
	marked := map[string]bool{}
	var markedOn []string
	for _, m := range docRowRE17.FindAllStringSubmatch(string(data), -1) {
		marked[m[2]] = m[1] == "heavy"
		if m[1] == "heavy" {
			markedOn = append(markedOn, m[2])
		}
	}
	sort.Strings(markedOn)
	sets := map[string][]string{}
	runs := 0
	for _, exe := range []string{"go-critic", "gocritic", "go-critic-analysis", "gocritic-analysis"} {
		args := []string{"check", "-v", "./..."}
		if strings.HasSuffix(exe, "-analysis") {
			args = []string{"-debug-init", "./..."}
		}
		out, _, err := common.Run(120*time.Second, ws, common.GoEnv(), filepath.Join(common.BinDir(), exe), args...)
		runs++
		if err != nil {
			meta.Fail("C17/"+exe+"/default-selection-run", err.Error(), args)
			continue
		}
		seen := map[string]bool{}
		var got []string
		for _, l := range strings.Split(out, "\n") {
			if i := strings.Index(l, "debug: "); i >= 0 && strings.HasSuffix(l, " is enabled") {
				n := strings.TrimSuffix(l[i+len("debug: "):], " is enabled")
				if !seen[n] {
					seen[n] = true
					got = append(got, n)
				}
			}
		}
		sort.Strings(got)
		sets[exe] = got
		var onlyRun, onlyMarked []string
		for _, n := range got {
			if !marked[n] {
				onlyRun = append(onlyRun, n)
			}
		}
		for _, n := range markedOn {
			if !seen[n] {
				onlyMarked = append(onlyMarked, n)
			}
		}
		if len(onlyRun)+len(onlyMarked) > 0 {
			meta.Fail("C17/docs/default-mark-disagrees", fmt.Sprintf("%s with no selection flag enables %d checkers, docs/overview.md marks %d as enabled by default; enabled but not marked: %v; marked but not enabled: %v", exe, len(got), len(markedOn), onlyRun, onlyMarked), map[string]interface{}{"exe": exe, "args": args, "enabled_not_marked": onlyRun, "marked_not_enabled": onlyMarked})
		}
	}
	for _, exe := range []string{"gocritic", "go-critic-analysis", "gocritic-analysis"} {
		if sets[exe] != nil && sets["go-critic"] != nil && strings.Join(sets[exe], ",") != strings.Join(sets["go-critic"], ",") {
			meta.Fail("C17/frontends/default-selections-differ", fmt.Sprintf("with no selection flag %s enables %d checkers, go-critic %d", exe, len(sets[exe]), len(sets["go-critic"])), map[string]interface{}{"exe": exe})
		}
	}
	return runs
}
