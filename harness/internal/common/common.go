// Package common holds helpers shared by all harness sub-commands.
package common

import (
	"bytes"
	"encoding/json"
	"fmt"
	"math/rand"
	"os"
	"os/exec"
	"path/filepath"
	"strings"
	"time"
)

// RepoDir is the repository under analysis (/repo unless VERIF_REPO is set as a development aid).
var RepoDir = repoDir()

func repoDir() string {
	if d := os.Getenv("VERIF_REPO"); d != "" {
		return d
	}
	return "/repo"
}

// GoEnv returns the environment needed for offline go commands.
func GoEnv(extra ...string) []string {
	env := os.Environ()
	env = append(env, "GOFLAGS=-mod=mod", "GOPROXY=off", "GOSUMDB=off", "GOTOOLCHAIN=local")
	return append(env, extra...)
}

// Meta is what a sub-command reports to the python orchestrator.
type Meta struct {
	Property     string                 `json:"property"`
	Evaluations  int                    `json:"evaluations"`
	Distinct     int                    `json:"distinct_nontrivial"`
	Rule         string                 `json:"rule"`
	Samples      []interface{}          `json:"samples"`
	CaseFiles    []string               `json:"case_files"`
	Failures     []Failure              `json:"failures"`
	Distribution map[string]interface{} `json:"distribution,omitempty"`
	Notes        []string               `json:"notes,omitempty"`
	TieBroken    []string               `json:"tie_broken,omitempty"`
}

// Failure is an implementation-level oracle failure (independent of the model).
type Failure struct {
	Key     string      `json:"key"`  // stable defect key (known-findings matcher)
	What    string      `json:"what"` // one line
	Witness interface{} `json:"witness"`
}

func (m *Meta) AddSample(s interface{}) {
	if len(m.Samples) < 8 {
		m.Samples = append(m.Samples, s)
	}
}

func (m *Meta) Fail(key, what string, witness interface{}) {
	// keep at most 5 witnesses per key
	n := 0
	for _, f := range m.Failures {
		if f.Key == key {
			n++
		}
	}
	if n < 5 {
		m.Failures = append(m.Failures, Failure{key, what, witness})
	}
}

func (m *Meta) Write(outDir string) {
	if m.Samples == nil {
		m.Samples = []interface{}{}
	}
	if m.Failures == nil {
		m.Failures = []Failure{}
	}
	data, err := json.MarshalIndent(m, "", " ")
	if err != nil {
		panic(err)
	}
	if err := os.WriteFile(filepath.Join(outDir, "meta.json"), data, 0o644); err != nil {
		panic(err)
	}
}

// RunBridge runs the verif bridge test of a main package on cases and decodes results into out (a pointer to a slice).
func RunBridge(pkg string, cases interface{}, out interface{}, workDir string) error {
	tag := strings.ReplaceAll(strings.Trim(pkg, "./"), "/", "_")
	casesPath := filepath.Join(workDir, "bridge_"+tag+"_cases.json")
	outPath := filepath.Join(workDir, "bridge_"+tag+"_out.jsonl")
	data, err := json.Marshal(cases)
	if err != nil {
		return err
	}
	if err := os.WriteFile(casesPath, data, 0o644); err != nil {
		return err
	}
	os.Remove(outPath)
	cmd := exec.Command("go", "test", "-tags", "verif", "-count=1", "-run", "^TestVerifBridge$", pkg)
	cmd.Dir = RepoDir
	cmd.Env = GoEnv("VERIF_CASES="+casesPath, "VERIF_OUT="+outPath)
	var buf bytes.Buffer
	cmd.Stdout = &buf
	cmd.Stderr = &buf
	if err := cmd.Run(); err != nil {
		return fmt.Errorf("bridge %s: %v\n%s", pkg, err, buf.String())
	}
	res, err := os.ReadFile(outPath)
	if err != nil {
		return err
	}
	// JSON lines -> array
	lines := bytes.Split(bytes.TrimSpace(res), []byte("\n"))
	arr := append([]byte("["), bytes.Join(lines, []byte(","))...)
	arr = append(arr, ']')
	return json.Unmarshal(arr, out)
}

// Run executes a command with a timeout, returning combined output and exit code.
func Run(timeout time.Duration, dir string, env []string, name string, args ...string) (string, int, error) {
	cmd := exec.Command(name, args...)
	cmd.Dir = dir
	cmd.Env = env
	var buf bytes.Buffer
	cmd.Stdout = &buf
	cmd.Stderr = &buf
	if err := cmd.Start(); err != nil {
		return "", -1, err
	}
	done := make(chan error, 1)
	go func() { done <- cmd.Wait() }()
	select {
	case err := <-done:
		code := 0
		if err != nil {
			if ee, ok := err.(*exec.ExitError); ok {
				code = ee.ExitCode()
			} else {
				return buf.String(), -1, err
			}
		}
		return buf.String(), code, nil
	case <-time.After(timeout):
		cmd.Process.Kill()
		<-done
		return buf.String(), -2, fmt.Errorf("timeout after %v", timeout)
	}
}

// RunSplit is like Run but returns stdout and stderr separately.
func RunSplit(timeout time.Duration, dir string, env []string, name string, args ...string) (string, string, int, error) {
	cmd := exec.Command(name, args...)
	cmd.Dir = dir
	cmd.Env = env
	var so, se bytes.Buffer
	cmd.Stdout = &so
	cmd.Stderr = &se
	if err := cmd.Start(); err != nil {
		return "", "", -1, err
	}
	done := make(chan error, 1)
	go func() { done <- cmd.Wait() }()
	select {
	case err := <-done:
		code := 0
		if err != nil {
			if ee, ok := err.(*exec.ExitError); ok {
				code = ee.ExitCode()
			} else {
				return so.String(), se.String(), -1, err
			}
		}
		return so.String(), se.String(), code, nil
	case <-time.After(timeout):
		cmd.Process.Kill()
		<-done
		return so.String(), se.String(), -2, fmt.Errorf("timeout after %v", timeout)
	}
}

func NewRand(seed int64, stream string) *rand.Rand {
	h := int64(1469598103934665603)
	for i := 0; i < len(stream); i++ {
		h ^= int64(stream[i])
		h *= 1099511628211
	}
	return rand.New(rand.NewSource(seed ^ h))
}

func Must(err error) {
	if err != nil {
		panic(err)
	}
}

func WriteFile(path, content string) {
	Must(os.MkdirAll(filepath.Dir(path), 0o755))
	Must(os.WriteFile(path, []byte(content), 0o644))
}

// VerifRoot is the root of the verification framework checkout (parent of harness/): the directory the running
// harness belongs to, so that worktrees and snapshots of the framework read their own corpus.
func VerifRoot() string {
	if d := os.Getenv("VERIF_ROOT"); d != "" {
		return d
	}
	if b := os.Getenv("VERIF_BIN"); b != "" { // VERIF_BIN = <root>/work/bin
		return filepath.Dir(filepath.Dir(b))
	}
	if exe, err := os.Executable(); err == nil {
		if r := filepath.Dir(filepath.Dir(filepath.Dir(exe))); fileExists(filepath.Join(r, "corpus")) {
			return r
		}
	}
	return "/verif"
}

func fileExists(p string) bool { _, err := os.Stat(p); return err == nil }

// BinDir is where bin/check builds the front-end binaries.
func BinDir() string {
	if d := os.Getenv("VERIF_BIN"); d != "" {
		return d
	}
	return "/verif/work/bin"
}
