package c12

import (
	"fmt"
	"path/filepath"
	"strings"
	"time"

	"verifharness/internal/common"
	"verifharness/internal/exprgen"
)

// runCaseOrderLocal: many type switches in ONE file analysed by ONE checker instance, over function-local types
// that share a name but differ in what they implement (methods come from embedding), and local namesakes of
// package-level types.  Whatever the checker remembers from one function must not leak into the next: every
// claim is judged by running the very function on values of its own local types.  Oracle only.
func runCaseOrderLocal(meta *common.Meta, seed int64, outDir string) {
	r := common.NewRand(seed, "c12-caseorder-local")
	// definitions of the local type L (and, sometimes, a local T1 that hides the package-level one)
	locals := []string{
		"type L struct{ T1 }",       // implements I1
		"type L struct{ T2 }",       // I1, I2
		"type L struct{ T3 }",       // I3
		"type L struct{ T4 }",       // I1, I3, I4
		"type L struct{ n int }",    // nothing
		"type L struct{ *P1 }",      // I1 through the embedded pointer
		"type L struct{ error }",    // error
		"type L = T1",               // alias of the package-level type
		"type T1 struct{}; type L struct{ T1 }", // a local T1 without methods hides the package-level one
		"type T1 struct{ T3 }; type L struct{ n int }",
	}
	entries := []string{"I1", "I2", "I3", "I4", "error", "interface{}", "L", "*L", "T1", "T3", "nil"}
	type fn struct {
		name  string
		local string
		cases []string
	}
	var fns []fn
	seen := map[string]bool{}
	for len(fns) < 90 {
		k := 2 + r.Intn(3)
		perm := r.Perm(len(entries))[:k]
		var cs []string
		hasL := false
		for _, i := range perm {
			cs = append(cs, entries[i])
			if strings.Contains(entries[i], "L") || entries[i] == "T1" {
				hasL = true
			}
		}
		if !hasL {
			cs[len(cs)-1] = []string{"L", "*L", "T1"}[r.Intn(3)]
		}
		dup := map[string]bool{}
		ok := true
		for _, c := range cs {
			if dup[c] {
				ok = false
			}
			dup[c] = true
		}
		f := fn{local: locals[r.Intn(len(locals))], cases: cs}
		key := f.local + fmt.Sprint(cs)
		if !ok || seen[key] {
			continue
		}
		seen[key] = true
		f.name = fmt.Sprintf("gl%d", len(fns))
		fns = append(fns, f)
	}
	const nVals = 7
	render := func(f fn) string {
		var b strings.Builder
		fmt.Fprintf(&b, "func %s(sel int) int {\n\t%s\n\tvals := []interface{}{L{}, &L{}, nil, T1{}, T3{}, 1, (*L)(nil)}\n\tswitch vals[sel].(type) {\n", f.name, f.local)
		for i, c := range f.cases {
			fmt.Fprintf(&b, "\tcase %s:\n\t\treturn %d\n", c, i)
		}
		b.WriteString("\t}\n\treturn -1\n}\n")
		return b.String()
	}
	var keep []fn
	for _, f := range fns {
		// duplicate cases after aliasing (`type L = T1` with case T1) and impossible cases are rejected by the type checker
		if _, err := exprgen.Load("probe.go", "package p\n"+latticeSrc+render(f)); err == nil {
			keep = append(keep, f)
		}
	}
	var src strings.Builder
	src.WriteString("package p\n" + latticeSrc)
	byName := map[string]fn{}
	for _, f := range keep {
		src.WriteString(render(f))
		byName[f.name] = f
	}
	l, err := exprgen.Load("gl.go", src.String())
	if err != nil {
		panic(err)
	}
	ws, err := l.Run("caseOrder")
	if err != nil {
		panic(err)
	}
	type flag struct {
		fn   string
		arm  int
		text string
	}
	var flags []flag
	for _, w := range ws {
		f, ok := byName[l.FuncOf(w.Pos)]
		m := caseOrderRe.FindStringSubmatch(w.Text)
		if !ok || m == nil {
			continue
		}
		for i, c := range f.cases {
			if c == m[1] {
				flags = append(flags, flag{f.name, i, w.Text})
			}
		}
	}
	meta.Distribution["caseorder_local_functions"] = len(keep)
	meta.Distribution["caseorder_local_flagged"] = len(flags)
	if len(flags) == 0 {
		return
	}
	var prog strings.Builder
	prog.WriteString("package main\n\nimport \"fmt\"\n" + latticeSrc)
	done := map[string]bool{}
	for _, fl := range flags {
		if !done[fl.fn] {
			done[fl.fn] = true
			prog.WriteString(render(byName[fl.fn]))
		}
	}
	prog.WriteString("func main() {\n")
	for i, fl := range flags {
		fmt.Fprintf(&prog, "\tfor sel := 0; sel < %d; sel++ {\n\t\tfmt.Println(%d, sel, %s(sel))\n\t}\n", nVals, i, fl.fn)
	}
	prog.WriteString("}\n")
	dir := filepath.Join(outDir, "obs_caseorder_local")
	common.WriteFile(filepath.Join(dir, "main.go"), prog.String())
	common.WriteFile(filepath.Join(dir, "go.mod"), "module obsgl\n\ngo 1.21\n")
	out, code, err := common.Run(5*time.Minute, dir, common.GoEnv(), "go", "run", ".")
	if err != nil || code != 0 {
		panic(fmt.Sprintf("local caseOrder observation program failed: %v\n%s", err, out))
	}
	vals := []string{"L{}", "&L{}", "nil", "T1{}", "T3{}", "1", "(*L)(nil)"}
	evals := 0
	for _, line := range strings.Split(strings.TrimSpace(out), "\n") {
		var i, sel, got int
		if _, err := fmt.Sscanf(line, "%d %d %d", &i, &sel, &got); err != nil {
			continue
		}
		evals++
		fl := flags[i]
		if got == fl.arm {
			f := byName[fl.fn]
			meta.Fail("C12/caseOrder/function-local-type",
				fmt.Sprintf("caseOrder reports %q in a function with `%s` and cases %v (one of %d switches in the file), but the value %s takes `case %s`",
					fl.text, f.local, f.cases, len(keep), vals[sel], f.cases[fl.arm]),
				map[string]interface{}{"local_types": f.local, "cases": f.cases, "value": vals[sel], "message": fl.text, "function": render(f)})
		}
	}
	meta.Evaluations += evals
	meta.Distribution["caseorder_local_observations"] = evals
}
