// Package c12: "claims of a constant outcome are true of the analysed code".
//
// Tie: generated expressions / type switches are analysed by the real checkers (sloppyLen, badCond,
// offBy1, dupSubExpr, caseOrder) through the public linter API; every expression is converted to a
// Model_Expr term (type switches to an entry list plus the types.Implements table) and Coq compares the
// model matchers' diagnostics with the observed ones.
//
// Oracle (never consults the model): instrumented execution — the flagged expression is evaluated over an
// input grid / the flattened type switch is run over all dynamic values, and an observation that
// contradicts the claim is the witness.
package c12

import (
	"fmt"
	"go/ast"
	"go/token"
	"go/types"
	"path/filepath"
	"regexp"
	"sort"
	"strconv"
	"strings"
	"time"

	"github.com/go-critic/go-critic/checkers/rulesdata"
	"github.com/go-critic/go-critic/linter"
	"github.com/quasilyte/go-ruleguard/ruleguard/ir"

	"verifharness/internal/common"
	"verifharness/internal/coqfmt"
	"verifharness/internal/exprgen"
	"verifharness/internal/valdiff"
)

func Run(tier string, seed int64, outDir string) *common.Meta {
	meta := &common.Meta{Property: "C12", Distribution: map[string]interface{}{}}
	nExpr, nSw := 900, 400
	if tier == "thorough" {
		nExpr, nSw = 12000, 6000
	}
	runExprClaims(meta, seed, outDir, nExpr)
	runCaseOrder(meta, seed, outDir, nSw)
	runNilValReturn(meta, seed, outDir)
	runRuleTable(meta, outDir)
	runShadowed(meta, seed, outDir)
	runSynthClaims(meta, outDir)
	runCaseOrderGeneric(meta, outDir)
	runCaseOrderLocal(meta, seed, outDir)
	meta.Rule = "distinct_nontrivial = number of distinct generated expressions / type switches on which at least one of the claim-producing checkers fired (each compared with the model matcher in Coq and executed with instrumentation)"
	return meta
}

// ---------------------------------------------------------------- expression claims

type exprCase struct {
	fn   string
	src  string
	term string
	msgs map[string][]string // checker -> messages (emission order)
}

type constProbe struct{ msg, text, want, kind string }

var claimCheckers = []string{"sloppyLen", "badCond", "offBy1", "dupSubExpr", "dupArg"}

const lintHeader = "package p\n\nimport (\n\t\"bytes\"\n\t\"strings\"\n)\n\nvar _ = bytes.Equal\nvar _ = strings.Index\n"

func genClaimExpr(g *exprgen.G, r interface{ Intn(int) int }) string {
	pick := func(xs ...string) string { return xs[r.Intn(len(xs))] }
	intX := func() string {
		return pick("a", "b", "c", "a", "fi()", "gi()", "hi(a)", "xs[a]", "a + 1", "(a)", "len(s)", "a * b")
	}
	floatX := func() string { return pick("p", "q", "p", "ff()", "p + 1.5", "hf(p)", "mf", "mg", "fmf()") }
	constI := func() string {
		return pick("0", "1", "2", "5", "7", "9", "10", "-3", "2 - 1", "(4)", "3 + 4", "0x10", "010", "cLim", "cLo", "cHi", "cT", "cLim + 1", "-cOne")
	}
	var e string
	switch n := r.Intn(108); {
	case n >= 100: // bound pairs on an operand that a conjunct in between can change
		type mo struct{ x, mut string }
		m := []mo{{"w.avail", "w.refill()"}, {"gn", "bumpG()"}, {"a", "func() bool { a = 9; return true }()"},
			{"xs[0]", "func() bool { if len(xs) > 0 { xs[0] = 9 }; return true }()"}, {"b", "func() bool { b--; return true }()"}}[r.Intn(5)]
		lo, hi := pick("<", "<", "<="), pick(">", ">", ">=")
		base := []int{0, 1, 2, 5}[r.Intn(4)]
		d := []int{1, 2, 5, 6, 0, -1}[r.Intn(6)]
		mid := pick(m.mut, m.mut, "k", "fb()")
		l, rr := m.x+" "+lo+" "+strconv.Itoa(base), m.x+" "+hi+" "+strconv.Itoa(base+d)
		switch r.Intn(4) {
		case 0:
			e = l + " && " + mid + " && " + rr
		case 1:
			e = l + " && (" + mid + " && " + rr + ")"
		case 2:
			e = "(" + l + " && " + mid + ") && " + rr
		default:
			e = l + " && " + pick("k", "l") + " && " + mid + " && " + rr
		}
	case n < 22: // sloppyLen
		x := pick("s", "xs", "bs", "t", "fs()", "fxs()", "s + t", "xs[:]", "[]byte(s)", "string(bs)", "ms", "mi", "mm", "ma", "pa", "w.buf")
		e = "len(" + x + ") " + pick(">= 0", "< 0", ">= 0", "< 0", "<= 0", ">= 1", "> 0", "< 1", ">= 00", "< 0x0", "== 0") + ""
		if r.Intn(8) == 0 {
			e = "0 <= len(" + x + ")"
		}
	case n < 50: // badCond: `x op1 c1 && x op2 c2` for every operator pair, constants equal / adjacent / apart
		ops := []string{"<", "<=", ">", ">=", "==", "!="}
		var o1, o2 string
		switch r.Intn(4) {
		case 0, 1: // upper bound then lower bound, strict or inclusive
			o1, o2 = ops[r.Intn(2)], ops[2+r.Intn(2)]
		case 2: // lower bound then upper bound
			o1, o2 = ops[2+r.Intn(2)], ops[r.Intn(2)]
		default:
			o1, o2 = ops[r.Intn(6)], ops[r.Intn(6)]
		}
		isF := r.Intn(3) == 0
		var x, c1, c2 string
		if isF {
			x = floatX()
			base := []float64{0.5, 1.5, 2, 7.25, -1.5, 10}[r.Intn(6)]
			d := []float64{0, 0, 0.5, 0.5, 1, 3, -1, -4}[r.Intn(8)]
			c1, c2 = strconv.FormatFloat(base, 'f', -1, 64), strconv.FormatFloat(base+d, 'f', -1, 64)
			if r.Intn(6) == 0 {
				c1 = pick("cF", "cLo", "cLim")
			}
			if r.Intn(6) == 0 {
				c2 = pick("cF", "cHi", "cLim")
			}
		} else {
			x = intX()
			base := []int{0, 1, 2, 5, 7, 9, 10, -3}[r.Intn(8)]
			d := []int{0, 0, 1, 1, 2, 3, 5, 1, -1, -2, -6}[r.Intn(11)]
			c1, c2 = strconv.Itoa(base), strconv.Itoa(base+d)
			if r.Intn(5) == 0 {
				c1 = constI() // other spellings: constant expressions, hex, octal, parentheses
			}
			if r.Intn(5) == 0 {
				c2 = constI()
			}
		}
		x2 := x
		if r.Intn(10) == 0 {
			if isF {
				x2 = floatX()
			} else {
				x2 = intX()
			}
		}
		if !isF && r.Intn(2) == 0 {
			// operands that a call can change: a struct field, a package variable, a slice element, a local
			// captured by a closure
			x = pick("w.avail", "gn", "xs[0]", "a", "w.avail")
			x2 = x
		}
		l, rr := x+" "+o1+" "+c1, x2+" "+o2+" "+c2
		if r.Intn(6) == 0 {
			l = "(" + l + ")"
		}
		if r.Intn(6) == 0 {
			rr = "(" + rr + ")"
		}
		e = l + " && " + rr
		if r.Intn(3) == 0 {
			// chains of three and more conjuncts: pure, impure and MUTATING conjuncts between (and around) the
			// two comparisons; a mutating conjunct preferably changes the very operand that is compared
			mutators := map[string]string{"w.avail": "w.refill()", "gn": "bumpG()", "a": "func() bool { a = 9; return true }()",
				"xs[0]": "func() bool { if len(xs) > 0 { xs[0] = 9 }; return true }()"}
			mid := pick("k", "fb()", "a > b", "w.refill()", "bumpG()", "func() bool { a = 9; return true }()")
			if mu, ok := mutators[x]; ok && x == x2 && r.Intn(3) > 0 {
				mid = mu
			}
			switch r.Intn(4) {
			case 0:
				e = l + " && " + mid + " && " + rr
			case 1:
				e = l + " && (" + mid + " && " + rr + ")"
			case 2:
				e = mid + " && " + l + " && " + rr
			default:
				e = l + " && " + mid + " && " + pick("k", "l", "fb()") + " && " + rr
			}
		}
	case n < 65: // offBy1
		// indexed operands of every kind: slices, strings, defined slice/string/map types, arrays and
		// pointers to arrays (rejected by the type checker when the index is a constant out of range),
		// a struct field
		x := pick("xs", "bs", "s", "xs", "fxs()", "xs[:]", "mi", "ms", "mm", "ma", "pa", "w.buf", "mm", "mi")
		y := x
		if r.Intn(8) == 0 {
			y = pick("xs", "bs", "s")
		}
		e = x + "[len(" + y + ")] == " + x + "[0]"
		if r.Intn(5) == 0 {
			e = x + "[len(" + y + ")-1] == " + x + "[0]"
		}
	case n < 92: // dupSubExpr
		// every operator the checker's table names, on every operand type it applies to
		op := pick("==", "!=", "<", ">", "<=", ">=", "&&", "||", "-", "/", "%", "+", "|", "&", "^", "&^")
		var x string
		isInt := false
		switch r.Intn(4) {
		case 0:
			x = pick(floatX(), "p + q", "q + p", "p - q")
		case 1:
			x = pick("s", "t", "fs()", "s + t", "t + s", "s + t + s")
		default:
			x = pick(intX(), intX(), "a + b", "b * c", "a | b", "a & c", "a ^ b", "a - b", "a == b")
			isInt = true
		}
		if !isInt && (op == "|" || op == "&" || op == "^" || op == "&^") {
			op = pick("==", "!=", "<", ">=")
		}
		if x == "a == b" {
			op = pick("==", "!=", "&&", "||")
		}
		y := x
		switch r.Intn(7) {
		case 0:
			y = pick("a", "b", "p", "s")
		case 1, 2:
			// operands that are NOT the same expression but look alike: swapped operands of the top-level
			// operator, a re-association, another spelling of a literal
			if i := strings.LastIndex(x, " "); i > 0 && strings.Count(x, " ") == 2 && !strings.ContainsAny(x, "()") {
				f := strings.Fields(x)
				y = f[2] + " " + f[1] + " " + f[0]
			} else if x == "s + t + s" {
				y = pick("s + (t + s)", "t + s + s")
			}
		}
		switch op {
		case "&&", "||":
			b := pick("k", "l", "fb()", "a > b", "!k")
			b2 := b
			if r.Intn(7) == 0 {
				b2 = pick("k", "l")
			}
			wrap := func(s string) string {
				if strings.Contains(s, " ") {
					return "(" + s + ")"
				}
				return s
			}
			e = wrap(b) + " " + op + " " + wrap(b2)
		case "-", "/", "%", "+", "|", "&", "^", "&^":
			if (op == "%" || op == "/") && (strings.ContainsAny(x, "pqf") || strings.ContainsAny(y, "pqst")) {
				op = "-"
			}
			if strings.ContainsAny(x+y, "st") && !strings.Contains(x+y, "xs") && !strings.Contains(x+y, "len") {
				op = "+"
			}
			wrap := func(s string) string {
				if strings.Contains(s, " ") {
					return "(" + s + ")"
				}
				return s
			}
			e = wrap(x) + " " + op + " " + wrap(y) + " == " + wrap(x)
		default:
			wrap := func(s string) string {
				if strings.Contains(s, " ") {
					return "(" + s + ")"
				}
				return s
			}
			e = wrap(x) + " " + op + " " + wrap(y)
		}
	case n < 97: // dupArg
		sx := pick("s", "t", "fs()", "s + t", `"ab"`, "string(bs)", "s[:]")
		sy := sx
		if r.Intn(5) == 0 {
			sy = pick("s", "t", `"a"`)
		}
		switch r.Intn(7) {
		case 4, 5, 6:
			// the method rules ($x.Equal($x), Equals, Compare, Cmp): identical receiver and argument, pure
			// (variable, composite literal) or with effects (an iterator's Next)
			rx := pick("vv", "it.Next()", "val{a}", "(vv)", "it.Next()", "val{fi()}")
			ry := rx
			if r.Intn(6) == 0 {
				ry = pick("vv", "val{b}")
			}
			switch m := pick("Equal", "Equals", "Compare", "Cmp"); m {
			case "Equal", "Equals":
				e = rx + "." + m + "(" + ry + ")"
			default:
				e = rx + "." + m + "(" + ry + ") == 0"
			}
		case 0:
			e = pick("strings.Contains", "strings.HasPrefix", "strings.HasSuffix", "strings.EqualFold") + "(" + sx + ", " + sy + ")"
		case 1:
			e = pick("strings.Index", "strings.LastIndex") + "(" + sx + ", " + sy + ") >= a"
		case 2:
			switch r.Intn(3) {
			case 0:
				e = "strings.Compare(" + sx + ", " + sy + ") == 0"
			case 1:
				e = "strings.Replace(" + pick("s", "t", "fs()") + ", " + sx + ", " + sy + ", " + pick("-1", "a", "1") + ") == s"
			default:
				e = "strings.ReplaceAll(" + pick("s", "t", "fs()") + ", " + sx + ", " + sy + ") == s"
			}
		default:
			bx := pick("bs", "fbs()", "[]byte(s)", "bs[:]")
			by := bx
			if r.Intn(5) == 0 {
				by = pick("bs", "[]byte(t)")
			}
			switch r.Intn(3) {
			case 0:
				e = "bytes.Equal(" + bx + ", " + by + ")"
			case 1:
				e = pick("bytes.Contains", "bytes.HasPrefix", "bytes.HasSuffix", "bytes.EqualFold") + "(" + bx + ", " + by + ")"
			default:
				e = pick("bytes.Index", "bytes.LastIndex", "bytes.Compare") + "(" + bx + ", " + by + ") >= a"
			}
		}
	default:
		e = g.BoolExpr()
	}
	switch r.Intn(10) {
	case 0:
		e = "(" + e + ") && " + pick("k", "l", "fb()")
	case 1:
		e = pick("k", "l") + " || (" + e + ")"
	case 2:
		e = "!(" + e + ")"
	}
	return e
}

func runExprClaims(meta *common.Meta, seed int64, outDir string, n int) {
	r := common.NewRand(seed, "c12-expr")
	shapes := map[string]int{}
	var cases []*exprCase
	seen := map[string]bool{}
	rejected := 0
	for len(cases) < n {
		g := &exprgen.G{R: r, Fl: exprgen.Flavour(r.Intn(int(exprgen.NFlavours))), Shapes: shapes}
		e := genClaimExpr(g, r)
		if seen[e] {
			continue
		}
		seen[e] = true
		probe := lintHeader + exprgen.LintPreamble + "func f(" + exprgen.Params + ") bool { return " + e + " }\n"
		if _, err := exprgen.Load("p.go", probe); err != nil {
			rejected++
			if rejected > 20*n {
				panic("generator produces mostly ill-typed expressions: " + err.Error())
			}
			continue
		}
		cases = append(cases, &exprCase{fn: fmt.Sprintf("f%d", len(cases)), src: e, msgs: map[string][]string{}})
	}
	// instances every run contains: self-comparisons of every float-like operand kind (predeclared, defined,
	// complex, defined complex, struct field, type conversion), operands that are equal expressions but distinct
	// objects (addresses of composite literals)
	var fixed []string
	for _, e := range []string{"p != p", "mf != mf", "mf == mf", "mf <= mf", "cx != cx", "cx == cx", "mc != mc", "mc2 == mc2", "w.g != w.g", "float64(mf) != float64(mf)",
		"myF(p) == myF(p)", "fa[0] != fa[0]", "&st{a} == &st{a}", "&st{a} != &st{a}", "&myArr{a} == &myArr{a}", "&a == &a", "pa == pa", "pe != pe",
		"-p == -p", "p - p == 0", "mf - mf == 0", "cx - cx == 0"} {
		fixed = append(fixed, e)
	}
	// ... and self-combinations over EVERY basic kind and a defined type over each kind
	for _, t := range []string{"float32", "float64", "myF32", "myF"} {
		for _, o := range []string{"==", "!=", "<=", ">=", "<", ">"} {
			fixed = append(fixed, t+"(p) "+o+" "+t+"(p)")
		}
		fixed = append(fixed, t+"(p) - "+t+"(p) == 0", t+"(p) / "+t+"(p) == 1")
	}
	for _, t := range []string{"complex64", "complex128", "myC64", "myC"} {
		fixed = append(fixed, t+"(cx) == "+t+"(cx)", t+"(cx) != "+t+"(cx)", t+"(cx) - "+t+"(cx) == 0", t+"(cx) / "+t+"(cx) == 1")
	}
	for _, t := range []string{"int8", "int16", "int32", "int64", "uint", "uint8", "uint16", "uint32", "uint64", "uintptr", "myI8", "myU16"} {
		fixed = append(fixed, t+"(a) == "+t+"(a)", t+"(a) >= "+t+"(a)", t+"(a) - "+t+"(a) == 0", t+"(a) ^ "+t+"(a) == 0")
	}
	fixed = append(fixed, "cF != cF", "cF == cF", "1.5 <= 1.5", "cLim >= cLim", "cS == cS", "cF - cF == 0")
	for _, e := range fixed {
		if seen[e] {
			continue
		}
		seen[e] = true
		if _, err := exprgen.Load("p.go", lintHeader+exprgen.LintPreamble+"func f("+exprgen.Params+") bool { return "+e+" }\n"); err != nil {
			panic("fixed claim instance does not type-check: " + e + ": " + err.Error())
		}
		cases = append(cases, &exprCase{fn: fmt.Sprintf("f%d", len(cases)), src: e, msgs: map[string][]string{}})
	}
	meta.Distribution["expr_rejected_by_typecheck"] = rejected
	var src strings.Builder
	src.WriteString(lintHeader + exprgen.LintPreamble)
	for _, c := range cases {
		fmt.Fprintf(&src, "func %s(%s) bool { return %s }\n", c.fn, exprgen.Params, c.src)
	}
	l, err := exprgen.Load("p.go", src.String())
	if err != nil {
		panic(err)
	}
	byFn := map[string]*exprCase{}
	for _, c := range cases {
		byFn[c.fn] = c
	}
	type flagged struct {
		c       *exprCase
		checker string
		text    string
		pos     token.Pos
	}
	var flags []flagged
	fired := map[string]int{}
	for _, name := range claimCheckers {
		ws, err := l.Run(name)
		if err != nil {
			panic(err)
		}
		for _, w := range ws {
			c := byFn[l.FuncOf(w.Pos)]
			if c == nil {
				continue
			}
			if name == "sloppyLen" && !strings.Contains(w.Text, " is always ") {
				continue // the `<= 0` rewrite is a C10 subject
			}
			if name == "badCond" && !strings.Contains(w.Text, "always false") {
				continue // "suspicious" / loop diagnostics claim nothing definite
			}
			if name == "offBy1" && !strings.Contains(w.Text, "always panics") {
				continue
			}
			c.msgs[name] = append(c.msgs[name], w.Text)
			flags = append(flags, flagged{c, name, w.Text, w.Pos})
			fired[name]++
		}
	}
	meta.Distribution["claims_fired"] = fired
	// conversion
	conv := exprgen.NewConv(l.Info, l.File)
	oracleOnly := 0
	rets := map[string]ast.Expr{}
	for _, d := range l.File.Decls {
		fd, ok := d.(*ast.FuncDecl)
		if !ok || byFn[fd.Name.Name] == nil {
			continue
		}
		ret := fd.Body.List[0].(*ast.ReturnStmt).Results[0]
		rets[fd.Name.Name] = ret
		if outsideFragmentRe.MatchString(byFn[fd.Name.Name].src) {
			// operands of defined types, maps, arrays, struct fields: the model's types are structural and
			// have no maps/arrays, so these expressions are executed by the oracle but not compared with the model
			byFn[fd.Name.Name].term = ""
			oracleOnly++
			continue
		}
		t, err := conv.Expr(ret)
		if err != nil {
			panic(fmt.Sprintf("generated expression outside the model fragment: %s: %v", byFn[fd.Name.Name].src, err))
		}
		byFn[fd.Name.Name].term = t
		if !conv.FloatTypesAgreeAt(ret) {
			byFn[fd.Name.Name].term = ""
		}
	}
	hdr := "From GC Require Import Base Model_Expr Model_BoolSimp Model_Claims.\n" +
		"(* (expression, diagnostics of sloppyLen / badCond / offBy1 / dupSubExpr inside it; blanks removed) *)\n" +
		"Definition norm (l : list string) := map strip_spaces l.\n" +
		"(* the ruleguard engine does not emit the matches of one rule group in source order: compare as multisets *)\n" +
		"Definition count (x : string) (l : list string) := List.length (filter (String.eqb x) l).\n" +
		"Definition perm_eqb (a b : list string) := Nat.eqb (List.length a) (List.length b) && forallb (fun x => Nat.eqb (count x a) (count x b)) a.\n" +
		"Definition case_ok (c : expr * (list string * list string * list string * list string * list string)) : bool :=\n" +
		"  let '(e, (sl, bc, ob, ds, da)) := c in\n" +
		"  is_bool_ty (typeof e) &&\n" +
		"  perm_eqb (norm (walk_claims sloppy_len_msgs e)) sl &&\n" +
		"  list_eqb String.eqb (norm (walk_claims bad_cond_msgs e)) bc &&\n" +
		"  perm_eqb (norm (walk_claims off_by1_msgs e)) ob &&\n" +
		"  list_eqb String.eqb (norm (walk_claims dup_sub_expr_msgs e)) ds &&\n" +
		"  perm_eqb (norm (walk_claims dup_arg_msgs e)) da.\n" +
		"Definition cases : list (expr * (list string * list string * list string * list string * list string)) := [\n"
	const shards = 4
	bodies := make([][]string, shards)
	idx := make([][]string, shards)
	strip := func(xs []string) []string {
		out := make([]string, len(xs))
		for i, x := range xs {
			out[i] = strings.ReplaceAll(x, " ", "")
		}
		return out
	}
	nflag := 0
	dropped := 0
	for i, c := range cases {
		if c.term == "" {
			dropped++
			continue
		}
		sh := i % shards
		bodies[sh] = append(bodies[sh], fmt.Sprintf("(%s, (%s, %s, %s, %s, %s))", c.term,
			coqfmt.StrList(strip(c.msgs["sloppyLen"])), coqfmt.StrList(strip(c.msgs["badCond"])),
			coqfmt.StrList(strip(c.msgs["offBy1"])), coqfmt.StrList(strip(c.msgs["dupSubExpr"])), coqfmt.StrList(strip(c.msgs["dupArg"]))))
		idx[sh] = append(idx[sh], fmt.Sprintf("%s => %q", c.src, c.msgs))
		if len(c.msgs) > 0 {
			nflag++
			if nflag <= 4 {
				meta.AddSample(map[string]interface{}{"expr": c.src, "diagnostics": c.msgs})
			}
		}
	}
	for sh := 0; sh < shards; sh++ {
		name := fmt.Sprintf("cases_c12_expr_%d", sh)
		common.WriteFile(filepath.Join(outDir, name+".v"), hdr+strings.Join(bodies[sh], ";\n")+"\n].\nDefinition M := Eval vm_compute in mismatches case_ok cases.\nPrint M.\n")
		common.WriteFile(filepath.Join(outDir, name+".index.txt"), strings.Join(idx[sh], "\n")+"\n")
		meta.CaseFiles = append(meta.CaseFiles, name+".v")
	}
	meta.Evaluations += len(cases)
	meta.Distinct += nflag
	meta.Distribution["expr_cases"] = len(cases)
	meta.Distribution["expr_flagged"] = nflag
	meta.Distribution["expr_oracle_only_defined_types"] = oracleOnly
	meta.Distribution["expr_dropped_untyped_constant_in_float_context"] = dropped

	// ---- oracle: evaluate the flagged expression on the grid
	rg := common.NewRand(seed, "c12-grid")
	var dcs []*exprgen.DiffCase
	for _, f := range flags {
		node := findFlagged(l, rets[f.c.fn], f.pos, f.checker, f.text)
		if node == nil {
			meta.Fail("C12/"+f.checker+"/position", "diagnostic position does not identify the flagged expression", map[string]interface{}{"expr": f.c.src, "message": f.text})
			continue
		}
		text := l.Text(node)
		dc := &exprgen.DiffCase{ID: len(dcs), Kind: "expr", Orig: text, Tag: f}
		switch f.checker {
		case "sloppyLen":
			dc.Expect = "true"
			if strings.Contains(f.text, "always false") {
				dc.Expect = "false"
			}
		case "badCond":
			dc.Expect = "false"
		case "offBy1":
			dc.Expect = "panic"
		case "dupSubExpr":
			b := node.(*ast.BinaryExpr)
			dc.Orig = "verifSame(" + l.Text(b.X) + ", " + l.Text(b.Y) + ")"
			dc.Expect = "true"
		case "dupArg":
			ce := node.(*ast.CallExpr)
			if len(ce.Args) == 1 { // method rule: receiver and argument
				dc.Orig = "fmt.Sprint(" + l.Text(ce.Fun.(*ast.SelectorExpr).X) + ") == fmt.Sprint(" + l.Text(ce.Args[0]) + ")"
			} else {
				// the duplicated pair: the first two adjacent arguments with the same text
				i := 0
				for j := 0; j+1 < len(ce.Args); j++ {
					if l.Text(ce.Args[j]) == l.Text(ce.Args[j+1]) {
						i = j
						break
					}
				}
				dc.Orig = "fmt.Sprint(" + l.Text(ce.Args[i]) + ") == fmt.Sprint(" + l.Text(ce.Args[i+1]) + ")"
			}
			dc.Expect = "true"
		}
		dc.Inputs = exprgen.Grid(rg, text, 120)
		dcs = append(dcs, dc)
		if b, ok := node.(*ast.BinaryExpr); ok && f.checker == "dupSubExpr" && !impureCallRe.MatchString(text) {
			// the operand kinds the checker itself exempts (predeclared float types, untyped float constants) get
			// their own defect key: a report there is not the recorded finding about defined / complex operands
			kind := ""
			if bt, ok := l.Info.TypeOf(b.X).(*types.Basic); ok && bt.Info()&types.IsFloat != 0 {
				kind = "-predeclared-float"
			}
			switch b.Op {
			case token.EQL, token.NEQ, token.LSS, token.GTR, token.LEQ, token.GEQ:
				// a comparison of an operand with itself is reported because it is pointless, i.e. constant:
				// observe whether it takes both truth values (the x != x NaN idiom)
				for _, want := range []string{"true", "false"} {
					dcs = append(dcs, &exprgen.DiffCase{ID: len(dcs), Kind: "expr", Orig: text, Expect: want, Inputs: dc.Inputs, Tag: constProbe{f.text, text, want, kind}})
				}
			case token.SUB, token.REM, token.XOR, token.AND_NOT:
				// x - x, x % x, x ^ x, x &^ x are reported because they are zero
				dcs = append(dcs, &exprgen.DiffCase{ID: len(dcs), Kind: "expr", Orig: "(" + text + ") == 0", Expect: "true", Inputs: dc.Inputs, Tag: constProbe{f.text, text, "zero", kind}})
			case token.QUO:
				dcs = append(dcs, &exprgen.DiffCase{ID: len(dcs), Kind: "expr", Orig: "(" + text + ") == 1", Expect: "true", Inputs: dc.Inputs, Tag: constProbe{f.text, text, "one", kind}})
			}
		}
	}
	mm, evals, err := exprgen.RunDiff(filepath.Join(outDir, "obs_expr"), dcs)
	if err != nil {
		panic(err)
	}
	meta.Evaluations += evals
	meta.Distribution["expr_instrumented_evaluations"] = evals
	sort.SliceStable(mm, func(i, j int) bool { return len(mm[i].Case.Orig) < len(mm[j].Case.Orig) })
	// comparisons of an operand with itself that are not constant
	notTrue, notFalse := map[string]exprgen.Mismatch{}, map[string]exprgen.Mismatch{}
	for _, m := range mm {
		if cp, ok := m.Case.Tag.(constProbe); ok {
			switch cp.want {
			case "true":
				notTrue[cp.text] = m
			case "false":
				notFalse[cp.text] = m
			default:
				meta.Fail("C12/dupSubExpr/self-comparison-not-constant"+cp.kind,
					fmt.Sprintf("dupSubExpr reports %q on `%s` (an operand combined with itself, reported because the result is the constant %s), but `%s` evaluated to %s: the float exemption does not recognise the operand", cp.msg, cp.text, cp.want, m.Case.Orig, m.Orig),
					map[string]interface{}{"expr": cp.text, "message": cp.msg, "input": m.Input, "observed": m.Orig})
			}
		}
	}
	for text, m1 := range notTrue {
		if m2, ok := notFalse[text]; ok {
			cp := m1.Case.Tag.(constProbe)
			meta.Fail("C12/dupSubExpr/self-comparison-not-constant"+cp.kind,
				fmt.Sprintf("dupSubExpr reports %q on `%s`, which is the NaN test of a float operand the exemption does not recognise: it evaluates to %s and to %s", cp.msg, text, m1.Orig, m2.Orig),
				map[string]interface{}{"expr": text, "message": cp.msg, "input_a": m1.Input, "value_a": m1.Orig, "input_b": m2.Input, "value_b": m2.Orig})
		}
	}
	for _, m := range mm {
		if _, ok := m.Case.Tag.(constProbe); ok {
			continue
		}
		f := m.Case.Tag.(flagged)
		class := "unclassified"
		if mutatingRe.MatchString(m.Case.Orig) {
			class = "mutating-conjunct"
		} else if impureCallRe.MatchString(m.Case.Orig) {
			class = "impure-operand"
		} else if f.checker == "dupSubExpr" && strings.Contains(m.Case.Orig, "verifSame(&") {
			class = "distinct-objects-equal-text"
		} else if f.checker == "offBy1" {
			if ix, ok := findFlagged(l, rets[f.c.fn], f.pos, f.checker, f.text).(*ast.IndexExpr); ok {
				switch l.Info.TypeOf(ix.X).Underlying().(type) {
				case *types.Map:
					class = "map-operand"
				case *types.Slice:
					class = "slice-operand"
				default:
					class = "non-slice-operand"
				}
			}
		}
		meta.Fail("C12/"+f.checker+"/"+class,
			fmt.Sprintf("%s reports %q but `%s` evaluated to %s", f.checker, f.text, m.Case.Orig, m.Orig),
			map[string]interface{}{"expr": m.Case.Orig, "message": f.text, "input": m.Input, "observed": m.Orig, "claimed": m.Case.Expect})
	}
}

// operands the model has no counterpart for: maps, pointers to arrays, complex numbers, opaque calls returning a
// defined type, struct values with methods, package variables changed by calls, closures, interface-typed fields
var outsideFragmentRe = regexp.MustCompile(`\b(gxs|fa|mc|mc2|fmf|vv|it|val|gn|bumpG|func|refill|err|cx|st|myArr|myF|float64|pe|float32|complex64|complex128|myF32|myC64|myC|myI8|myU16|u?int(?:8|16|32|64|ptr)?)\b|(?:^|[^&])&[A-Za-z(]`)

var impureCallRe = regexp.MustCompile(`\b(fi|gi|hi|fu|ff|hf|fs|fb|fbs|fxs|fmf|Next)\(`)
var mutatingRe = regexp.MustCompile(`refill\(\)|bumpG\(\)|func\(\) bool`)

// findFlagged locates the expression a diagnostic is about: the outermost node of the right kind starting at pos.
func findFlagged(l *exprgen.Linted, root ast.Expr, pos token.Pos, checker, msg string) ast.Expr {
	var found, dupFallback ast.Expr
	ast.Inspect(root, func(n ast.Node) bool {
		if found != nil || n == nil {
			return false
		}
		e, ok := n.(ast.Expr)
		if !ok || e.Pos() != pos {
			return true
		}
		switch checker {
		case "offBy1":
			if _, ok := e.(*ast.IndexExpr); ok {
				found = e
			}
		case "dupArg":
			if ce, ok := e.(*ast.CallExpr); ok {
				_, isSel := ce.Fun.(*ast.SelectorExpr)
				if (len(ce.Args) >= 2 && len(ce.Args) <= 4) || (len(ce.Args) == 1 && isSel) {
					found = e
				}
			}
		default:
			if b, ok := e.(*ast.BinaryExpr); ok {
				switch checker {
				case "badCond":
					if b.Op == token.LAND {
						found = e
					}
				case "sloppyLen":
					if c, ok := b.X.(*ast.CallExpr); ok {
						if id, ok := c.Fun.(*ast.Ident); ok && id.Name == "len" {
							found = e
						}
					}
				case "dupSubExpr":
					// the binary expression with the operator the message names; several may start at pos
					// (`a - a == a`): prefer the one whose operands are textually identical
					if strings.Contains(msg, "`"+b.Op.String()+"`") {
						if l.Text(b.X) == l.Text(b.Y) {
							found = e
						} else if dupFallback == nil {
							dupFallback = e
						}
					}
				}
			}
		}
		return found == nil
	})
	if found == nil {
		return dupFallback
	}
	return found
}

// ---------------------------------------------------------------- caseOrder

const latticeSrc = `
type I1 interface{ M1() }
type I2 interface {
	M1()
	M2()
}
type I3 interface{ M3() }
type I4 interface {
	I1
	M3()
}
type T0 struct{}
type T1 struct{}

func (T1) M1() {}

type T2 struct{}

func (T2) M1() {}
func (T2) M2() {}

type T3 struct{}

func (T3) M3() {}

type T4 struct{}

func (T4) M1() {}
func (T4) M3() {}

type P1 struct{}

func (*P1) M1() {}

// interfaces declared ONLY by embedding (no explicit method, non-empty method set), embedding plus an explicit
// method, and the empty interface under its other spellings
type I5 interface {
	I1
	I3
}
type I6 interface{ I2 }
type I7 interface {
	error
	I1
}
type I8 interface {
	I3
	M1()
}
type E0 = interface{}
type E1 interface{}

type T5 struct{}

func (T5) M1()           {}
func (T5) Error() string { return "" }
`

// universe of case entries: text, kind
var universe = []struct{ text, kind string }{
	{"nil", "KNil"},
	{"interface{}", "KIface"}, {"I1", "KIface"}, {"I2", "KIface"}, {"I3", "KIface"}, {"I4", "KIface"}, {"error", "KIface"},
	{"T0", "KConcrete"}, {"T1", "KConcrete"}, {"T2", "KConcrete"}, {"T3", "KConcrete"}, {"T4", "KConcrete"},
	{"P1", "KConcrete"}, {"*P1", "KConcrete"}, {"*T1", "KConcrete"}, {"*T2", "KConcrete"}, {"int", "KConcrete"}, {"string", "KConcrete"},
	// appended (indices above are referred to by dynValues)
	{"I5", "KIface"}, {"I6", "KIface"}, {"I7", "KIface"}, {"I8", "KIface"}, {"any", "KIface"}, {"E0", "KIface"}, {"E1", "KIface"}, {"T5", "KConcrete"},
}

// spellings of one and the same type: at most one of them may occur in a switch (duplicate case otherwise)
var sameType = map[string]bool{"interface{}": true, "any": true, "E0": true}

// run-time values of every concrete type of the universe, plus the nil interface
var dynValues = []struct {
	expr string
	id   int // universe index of the dynamic type, -1 for nil
}{
	{"nil", -1}, {"T0{}", 7}, {"T1{}", 8}, {"T2{}", 9}, {"T3{}", 10}, {"T4{}", 11}, {"P1{}", 12}, {"&P1{}", 13}, {"&T1{}", 14}, {"&T2{}", 15}, {"1", 16}, {`"x"`, 17},
	{"(*P1)(nil)", 13}, {"(*T1)(nil)", 14}, {"T5{}", 25},
}

type swCase struct {
	name    string
	clauses [][]int // universe indices per clause
	flat    []int
	obs     [][2]int // observed (flagged entry, interface entry)
}

var caseOrderRe = regexp.MustCompile(`^case (.*) must go before the (.*) case$`)

func runCaseOrder(meta *common.Meta, seed int64, outDir string, n int) {
	r := common.NewRand(seed, "c12-caseorder")
	var sws []*swCase
	seen := map[string]bool{}
	for len(sws) < n {
		k := 2 + r.Intn(5)
		perm := r.Perm(len(universe))[:k]
		{
			var kept []int
			haveEmpty := false
			for _, u := range perm {
				if sameType[universe[u].text] {
					if haveEmpty {
						continue
					}
					haveEmpty = true
				}
				kept = append(kept, u)
			}
			perm = kept
			if len(perm) < 2 {
				continue
			}
		}
		// bias: interfaces early half of the time
		if r.Intn(2) == 0 {
			sort.SliceStable(perm, func(i, j int) bool {
				return universe[perm[i]].kind == "KIface" && universe[perm[j]].kind != "KIface" && r.Intn(3) > 0
			})
		}
		var clauses [][]int
		for i := 0; i < len(perm); {
			w := 1
			if r.Intn(4) == 0 {
				w = 2
			}
			if i+w > len(perm) {
				w = len(perm) - i
			}
			clauses = append(clauses, perm[i:i+w])
			i += w
		}
		key := fmt.Sprint(clauses)
		if seen[key] {
			continue
		}
		seen[key] = true
		sws = append(sws, &swCase{name: fmt.Sprintf("sw%d", len(sws)), clauses: clauses, flat: perm})
	}
	var src strings.Builder
	src.WriteString("package p\n" + latticeSrc)
	for _, s := range sws {
		fmt.Fprintf(&src, "func %s(v interface{}) int {\n\tswitch v.(type) {\n", s.name)
		for ci, cl := range s.clauses {
			var ts []string
			for _, u := range cl {
				ts = append(ts, universe[u].text)
			}
			fmt.Fprintf(&src, "\tcase %s:\n\t\treturn %d\n", strings.Join(ts, ", "), ci)
		}
		src.WriteString("\t}\n\treturn -1\n}\n")
	}
	l, err := exprgen.Load("p.go", src.String())
	if err != nil {
		panic(err)
	}
	ws, err := l.Run("caseOrder")
	if err != nil {
		panic(err)
	}
	byName := map[string]*swCase{}
	for _, s := range sws {
		byName[s.name] = s
	}
	uidx := map[string]int{}
	for i, u := range universe {
		uidx[u.text] = i
	}
	posIn := func(flat []int, u int) int {
		for i, x := range flat {
			if x == u {
				return i
			}
		}
		return -1
	}
	for _, w := range ws {
		s := byName[l.FuncOf(w.Pos)]
		m := caseOrderRe.FindStringSubmatch(w.Text)
		if s == nil || m == nil {
			meta.TieBroken = append(meta.TieBroken, "caseOrder: unexpected diagnostic "+w.Text)
			continue
		}
		a, ok1 := uidx[m[1]]
		b, ok2 := uidx[m[2]]
		if !ok1 || !ok2 {
			meta.TieBroken = append(meta.TieBroken, "caseOrder: diagnostic names an unknown type: "+w.Text)
			continue
		}
		s.obs = append(s.obs, [2]int{posIn(s.flat, a), posIn(s.flat, b)})
	}
	// types.Implements table over the universe (what the checker consults), from the type-checked package
	typOf := map[int]types.Type{}
	ast.Inspect(l.File, func(n ast.Node) bool {
		if cc, ok := n.(*ast.CaseClause); ok {
			for _, x := range cc.List {
				if u, ok := uidx[l.Text(x)]; ok {
					if t := l.Info.TypeOf(x); t != nil {
						typOf[u] = t
					}
				}
			}
		}
		return true
	})
	var implPairs []string
	nImpl := 0
	for t := range universe {
		for i := range universe {
			if universe[i].kind != "KIface" || typOf[t] == nil || typOf[i] == nil {
				continue
			}
			if types.Implements(typOf[t], typOf[i].Underlying().(*types.Interface)) {
				implPairs = append(implPairs, fmt.Sprintf("(%d, %d)", t, i))
				nImpl++
			}
		}
	}
	if len(typOf) != len(universe) {
		panic(fmt.Sprintf("type lattice: only %d of %d universe types occur in the generated switches", len(typOf), len(universe)))
	}
	var ifaces, all []string
	for i, u := range universe {
		all = append(all, fmt.Sprint(i))
		if u.kind == "KIface" {
			ifaces = append(ifaces, fmt.Sprint(i))
		}
	}
	hdr := "From GC Require Import Base Model_Expr Model_Claims.\n" +
		"Definition impl_table : list (N * N) := [" + strings.Join(implPairs, "; ") + "]%N.\n" +
		"Definition impl (t i : N) : bool := existsb (fun p => N.eqb (fst p) t && N.eqb (snd p) i) impl_table.\n" +
		"(* go/types' Implements is transitive on this lattice (hypothesis of C12_case_order_unreachable_partial) *)\n" +
		"Definition lattice_ok : bool := impl_trans_okb impl [" + strings.Join(all, "; ") + "]%N [" + strings.Join(ifaces, "; ") + "]%N.\n" +
		"Definition pair_eqb (a b : nat * nat) := Nat.eqb (fst a) (fst b) && Nat.eqb (snd a) (snd b).\n" +
		"Definition case_ok (c : list entry * list (nat * nat)) : bool :=\n" +
		"  lattice_ok && list_eqb pair_eqb (case_order impl (fst c)) (snd c).\n" +
		"Definition cases : list (list entry * list (nat * nat)) := [\n"
	var bodies, idx []string
	nflag := 0
	for _, s := range sws {
		var es, obs []string
		for _, u := range s.flat {
			es = append(es, fmt.Sprintf("(%d%%N, %s)", u, universe[u].kind))
		}
		for _, o := range s.obs {
			obs = append(obs, fmt.Sprintf("(%d, %d)", o[0], o[1]))
		}
		bodies = append(bodies, "(["+strings.Join(es, "; ")+"], ["+strings.Join(obs, "; ")+"])")
		var ts []string
		for _, u := range s.flat {
			ts = append(ts, universe[u].text)
		}
		idx = append(idx, fmt.Sprintf("%v clauses=%v => %v", ts, s.clauses, s.obs))
		if len(s.obs) > 0 {
			nflag++
			if nflag <= 3 {
				meta.AddSample(map[string]interface{}{"checker": "caseOrder", "cases": ts, "flagged(entry,iface)": s.obs})
			}
		}
	}
	common.WriteFile(filepath.Join(outDir, "cases_c12_caseorder.v"), hdr+strings.Join(bodies, ";\n")+"\n].\nDefinition M := Eval vm_compute in mismatches case_ok cases.\nPrint M.\n")
	common.WriteFile(filepath.Join(outDir, "cases_c12_caseorder.index.txt"), strings.Join(idx, "\n")+"\n")
	meta.CaseFiles = append(meta.CaseFiles, "cases_c12_caseorder.v")
	meta.Evaluations += len(sws)
	meta.Distinct += nflag
	meta.Distribution["caseorder_switches"] = len(sws)
	meta.Distribution["caseorder_flagged_switches"] = nflag
	meta.Distribution["caseorder_implements_pairs"] = nImpl

	// ---- oracle: run the flattened switches (one entry per clause: same first-match order) on every dynamic value
	var prog strings.Builder
	prog.WriteString("package main\n\nimport \"fmt\"\n" + latticeSrc)
	prog.WriteString("var vals = []interface{}{")
	for _, v := range dynValues {
		prog.WriteString(v.expr + ", ")
	}
	prog.WriteString("}\n")
	var flaggedSw []*swCase
	for _, s := range sws {
		if len(s.obs) == 0 {
			continue
		}
		flaggedSw = append(flaggedSw, s)
		fmt.Fprintf(&prog, "func %s(v interface{}) int {\n\tswitch v.(type) {\n", s.name)
		for i, u := range s.flat {
			fmt.Fprintf(&prog, "\tcase %s:\n\t\treturn %d\n", universe[u].text, i)
		}
		prog.WriteString("\t}\n\treturn -1\n}\n")
	}
	prog.WriteString("func main() {\n\tfor vi, v := range vals {\n")
	for _, s := range flaggedSw {
		fmt.Fprintf(&prog, "\t\tfmt.Println(%q, vi, %s(v))\n", s.name, s.name)
	}
	prog.WriteString("\t}\n}\n")
	dir := filepath.Join(outDir, "obs_caseorder")
	common.WriteFile(filepath.Join(dir, "main.go"), prog.String())
	common.WriteFile(filepath.Join(dir, "go.mod"), "module obsco\n\ngo 1.21\n")
	out, code, err := common.Run(5*time.Minute, dir, common.GoEnv(), "go", "run", ".")
	if err != nil || code != 0 {
		panic(fmt.Sprintf("caseOrder observation program failed: %v\n%s", err, out))
	}
	evals := 0
	for _, line := range strings.Split(strings.TrimSpace(out), "\n") {
		var name string
		var vi, arm int
		if _, err := fmt.Sscanf(line, "%s %d %d", &name, &vi, &arm); err != nil {
			continue
		}
		evals++
		s := byName[name]
		for _, o := range s.obs {
			if o[0] == arm {
				u := s.flat[arm]
				class := "unclassified"
				if universe[u].kind == "KNil" && universe[s.flat[o[1]]].kind == "KIface" {
					class = "nil-after-interface"
				}
				var ts []string
				for _, x := range s.flat {
					ts = append(ts, universe[x].text)
				}
				meta.Fail("C12/caseOrder/"+class,
					fmt.Sprintf("caseOrder says `case %s must go before the %s case` in switch over %v, but the value %s takes the `case %s` arm",
						universe[u].text, universe[s.flat[o[1]]].text, ts, dynValues[vi].expr, universe[u].text),
					map[string]interface{}{"cases": ts, "value": dynValues[vi].expr, "arm_taken": universe[u].text})
			}
		}
	}
	meta.Evaluations += evals
	meta.Distribution["caseorder_observations"] = evals
}

// ---------------------------------------------------------------- nilValReturn

type nvrCase struct {
	fn, cond, x, y, op string
	rets               []string
	pre                []string // statements before the return
	pro                string   // statements before the if (a declaration that shadows nil)
	body               string   // when set: the whole function body (other statement shapes than if-return)
	resT, final        string
	msgs               []string
}

// operand families of `if X == nil { ...; return X }`: the checked value, its result type, statements
// that leave it alone, and statements that change it — directly, or indirectly through a pointer-receiver
// method, a closure, an assignment to a prefix of X, or a call that sets a package-level variable
var nvrFamilies = []struct {
	xs       []string
	resT     string
	harmless []string
	mutating []string
}{
	{[]string{"xs", "xs", "xs[:]", "(xs)", "fxs()"}, "[]int", []string{"a++", "_ = hi(a)", "k = !k"},
		[]string{"func() { xs = []int{1} }()", "xs = []int{1}", "xs = append(xs, 1)", "px := &xs; *px = []int{4}"}},
	{[]string{"w.err"}, "error", []string{"a++", "_ = w.peek()", "_ = hi(a)"},
		[]string{"w.flush()", "*w = wr{err: myErr{}}", "func() { w.err = myErr{} }()", "w.err = myErr{}", "w = &wr{err: myErr{}}"}},
	{[]string{"w.buf"}, "[]int", []string{"a++", "_ = w.peek()"},
		[]string{"w.flush()", "*w = wr{buf: []int{2}}", "func() { w.buf = []int{3} }()", "w.buf = append(w.buf, 1)"}},
	{[]string{"gxs"}, "[]int", []string{"a++", "_ = hi(a)"}, []string{"setG()", "gxs = []int{2}", "func() { setG() }()"}},
	{[]string{"mi"}, "myInts", []string{"b--"}, []string{"func() { mi = myInts{1} }()", "mi = append(mi, 2)"}},
	// a pointer returned through an interface result: the nil pointer becomes a NON-nil interface value
	{[]string{"pe"}, "error", []string{"a++"}, []string{"pe = &myE{}"}},
	{[]string{"pe"}, "interface{}", []string{"a++"}, []string{"pe = &myE{}"}},
	{[]string{"xs"}, "interface{}", []string{"a++"}, []string{"xs = []int{1}"}},
}

func runNilValReturn(meta *common.Meta, seed int64, outDir string) {
	r := common.NewRand(seed, "c12-nilvalreturn")
	pick := func(xs ...string) string { return xs[r.Intn(len(xs))] }
	var cases []*nvrCase
	seen := map[string]bool{}
	for tries := 0; tries < 4000 && len(cases) < 220; tries++ {
		fam := nvrFamilies[r.Intn(len(nvrFamilies))]
		c := &nvrCase{resT: fam.resT, final: "nil"}
		c.x = pick(fam.xs...)
		c.op = pick("==", "==", "==", "==", "!=")
		c.y = "nil"
		ret := pick(c.x, c.x, c.x, fam.xs[0], "nil")
		c.cond = c.x + " " + c.op + " " + c.y
		if r.Intn(10) == 0 {
			c.cond = c.y + " " + c.op + " " + c.x
			c.x, c.y = c.y, c.x
		}
		c.rets = []string{ret}
		if r.Intn(4) == 0 {
			c.rets = append(c.rets, pick("false", "k", "a > b"))
			c.resT, c.final = "("+fam.resT+", bool)", "nil, true"
		}
		switch r.Intn(5) {
		case 0, 1: // the documented shape: the return alone
		case 2:
			c.pre = []string{pick(fam.harmless...)}
		case 3:
			c.pre = []string{pick(fam.mutating...)}
		default:
			c.pre = []string{pick(fam.harmless...), pick(fam.mutating...)}
			if r.Intn(2) == 0 {
				c.pre[0], c.pre[1] = c.pre[1], c.pre[0]
			}
		}
		key := fmt.Sprint(c.cond, c.rets, c.pre)
		if seen[key] {
			continue
		}
		seen[key] = true
		body := renderNvr("f", c)
		if _, err := exprgen.Load("p.go", lintHeader+exprgen.LintPreamble+body); err != nil {
			continue
		}
		c.fn = fmt.Sprintf("n%d", len(cases))
		cases = append(cases, c)
	}
	// `nil` is matched by its spelling: the same shapes under a local variable named nil (a non-nil value the
	// checked operand is equal to)
	for _, sh := range []struct{ x, resT, pro string }{
		{"pe", "error", "nil := pe"}, {"pe", "*myE", "nil := pe"}, {"pe", "interface{}", "nil := pe"},
		{"w.err", "error", "w.err = myErr{}; nil := error(myErr{})"},
	} {
		for _, op := range []string{"==", "!="} {
			for _, pre := range [][]string{nil, {"a++"}} {
				c := &nvrCase{resT: sh.resT, final: "nil", x: sh.x, y: "nil", op: op, cond: sh.x + " " + op + " nil", rets: []string{sh.x}, pre: pre, pro: sh.pro}
				if _, err := exprgen.Load("p.go", lintHeader+exprgen.LintPreamble+renderNvr("f", c)); err != nil {
					continue
				}
				c.fn = fmt.Sprintf("n%d", len(cases))
				cases = append(cases, c)
			}
		}
	}
	// results that LOOK like the checked operand without being it: another object's field of the same name,
	// another element of the same container, another variable; and the checked operand under parentheses
	for _, la := range []struct{ pro, x, ret, resT string }{
		{"pp := &node{a, nil}; pq := &node{b, &node{c, nil}}", "pp.next", "pq.next", "*node"},
		{"pp := &node{a, nil}; pq := &node{b, &node{c, nil}}", "pp.next", "pp.next", "*node"},
		{"pp := &node{a, nil}; pq := &node{b, &node{c, nil}}; _ = pq", "pp.next", "(pp.next)", "*node"},
		{"mp := map[int][]int{0: {1}}", "mp[a]", "mp[0]", "[]int"},
		{"mp := map[int][]int{0: {1}}", "mp[a]", "mp[a]", "[]int"},
		{"ys := []int{1}", "xs", "ys", "[]int"},
		{"ys := []int{1}; _ = ys", "(xs)", "xs", "[]int"},
		{"ys := [][]int{{1}, nil}", "ys[1]", "ys[0]", "[]int"},
		{"wq := &wr{err: myErr{}}", "w.err", "wq.err", "error"},
	} {
		c := &nvrCase{resT: la.resT, final: "nil", x: la.x, y: "nil", op: "==", cond: la.x + " == nil", rets: []string{la.ret}, pro: la.pro}
		if _, err := exprgen.Load("p.go", lintHeader+exprgen.LintPreamble+renderNvr("f", c)); err != nil {
			continue
		}
		c.fn = fmt.Sprintf("n%d", len(cases))
		cases = append(cases, c)
	}
	// other statement shapes around the same question: else branches, guard-then-return sequences, nested ifs, nil
	// on the left, and if-initialisers that declare a variable hiding the outer one of the same name
	for _, id := range []struct{ x, resT, init string }{
		{"xs", "[]int", "[]int(nil)"}, {"xs", "[]int", "fxs()"}, {"pe", "*myE", "(*myE)(nil)"}, {"pe", "error", "(*myE)(nil)"}, {"mi", "myInts", "myInts(nil)"},
		{"w.err", "error", ""}, {"w.buf", "[]int", ""},
	} {
		x := id.x
		shapes := []string{
			"if " + x + " != nil {\n\t\ta++\n\t} else {\n\t\treturn " + x + "\n\t}\n\treturn nil",
			"if nil != " + x + " {\n\t\ta++\n\t} else {\n\t\treturn " + x + "\n\t}\n\treturn nil",
			"if nil == " + x + " {\n\t\treturn " + x + "\n\t}\n\treturn nil",
			"if " + x + " != nil {\n\t\treturn " + x + "\n\t}\n\treturn " + x,
			"if " + x + " == nil {\n\t\ta++\n\t} else {\n\t\treturn " + x + "\n\t}\n\treturn " + x,
			"if k {\n\t\tif " + x + " == nil {\n\t\t\treturn " + x + "\n\t\t}\n\t}\n\treturn nil",
			"if " + x + " == nil {\n\t\treturn " + x + "\n\t} else if k {\n\t\treturn " + x + "\n\t}\n\treturn " + x,
		}
		if id.init != "" {
			shapes = append(shapes,
				"if "+x+" := "+id.init+"; "+x+" != nil {\n\t\treturn "+x+"\n\t}\n\treturn "+x,
				"if "+x+" := "+id.init+"; "+x+" == nil {\n\t\treturn "+x+"\n\t}\n\treturn "+x,
				"if "+x+" := "+id.init+"; "+x+" != nil {\n\t\ta++\n\t} else {\n\t\treturn "+x+"\n\t}\n\treturn "+x,
				"if "+x+" := "+id.init+"; "+x+" != nil {\n\t\ta++\n\t}\n\tif "+x+" != nil {\n\t\treturn "+x+"\n\t}\n\treturn "+x)
		}
		for _, b := range shapes {
			c := &nvrCase{resT: id.resT, final: "nil", x: x, y: "nil", op: "==", cond: "(shape)", rets: []string{x}, body: b}
			if _, err := exprgen.Load("p.go", lintHeader+exprgen.LintPreamble+renderNvr("f", c)); err != nil {
				continue
			}
			c.fn = fmt.Sprintf("n%d", len(cases))
			cases = append(cases, c)
		}
	}
	var src strings.Builder
	src.WriteString(lintHeader + exprgen.LintPreamble)
	for _, c := range cases {
		src.WriteString(renderNvr(c.fn, c))
	}
	l, err := exprgen.Load("p.go", src.String())
	if err != nil {
		panic(err)
	}
	ws, err := l.Run("nilValReturn")
	if err != nil {
		panic(err)
	}
	byFn := map[string]*nvrCase{}
	for _, c := range cases {
		byFn[c.fn] = c
	}
	warnsOf := map[string][]linter.Warning{}
	for _, w := range ws {
		if c := byFn[l.FuncOf(w.Pos)]; c != nil {
			c.msgs = append(c.msgs, strings.ReplaceAll(w.Text, " ", ""))
			warnsOf[c.fn] = append(warnsOf[c.fn], w)
		}
	}
	conv := exprgen.NewConv(l.Info, l.File)
	var bodies, idx []string
	var dcs []*exprgen.DiffCase
	rg := common.NewRand(seed, "c12-nvr-grid")
	nflag := 0
	oracleOnly := 0
	for _, d := range l.File.Decls {
		fd, ok := d.(*ast.FuncDecl)
		if !ok || byFn[fd.Name.Name] == nil {
			continue
		}
		c := byFn[fd.Name.Name]
		var ifs *ast.IfStmt
		for _, st := range fd.Body.List {
			if x, ok := st.(*ast.IfStmt); ok {
				ifs = x
				break
			}
		}
		// oracle: EVERY diagnostic, wherever it lands — the claim is about the return statement at the diagnostic's
		// position and the expression the message names.  The function body is run with that return instrumented
		// (nil-ness judged by a helper declared where nil is the predeclared identifier).
		if len(warnsOf[c.fn]) > 0 {
			nflag++
		}
		bodyStart := l.Fset.Position(fd.Body.Pos()).Offset
		bodySrc := l.Text(fd.Body)
		resT := ""
		if fd.Type.Results != nil {
			resT = l.Text(fd.Type.Results)
		}
		for _, w := range warnsOf[c.fn] {
			mm := nvrMsgRe.FindStringSubmatch(w.Text)
			var rs *ast.ReturnStmt
			ast.Inspect(fd.Body, func(n ast.Node) bool {
				if r, ok := n.(*ast.ReturnStmt); ok && r.Pos() == w.Pos {
					rs = r
				}
				return rs == nil
			})
			if mm == nil || rs == nil {
				meta.Fail("C12/nilValReturn/position", "the diagnostic does not stand on a return statement or has an unknown message shape",
					map[string]interface{}{"function": renderNvr(c.fn, c), "message": w.Text})
				continue
			}
			x := mm[1]
			squash := func(t string) string { return strings.Join(strings.Fields(t), "") }
			hit := -1
			for ri, r := range rs.Results {
				if squash(l.Text(r)) == squash(x) {
					hit = ri
				}
			}
			if hit < 0 {
				meta.Fail("C12/nilValReturn/replacement-not-in-return",
					fmt.Sprintf("nilValReturn says %q on `%s`: the expression to replace does not occur among the returned expressions", w.Text, l.Text(rs)),
					map[string]interface{}{"function": renderNvr(c.fn, c), "return": l.Text(rs), "message": w.Text})
			}
			from, to := l.Fset.Position(rs.Pos()).Offset-bodyStart, l.Fset.Position(rs.End()).Offset-bodyStart
			instr := bodySrc[:from] + "{ verifOK = verifOK && verifIsNil(" + x + "); " + bodySrc[from:to] + " }" + bodySrc[to:]
			text := "func() bool { verifOK := true; func() " + resT + " " + instr + "(); return verifOK }()"
			dcs = append(dcs, &exprgen.DiffCase{ID: len(dcs), Kind: "expr", Orig: text, Expect: "true", Inputs: exprgen.Grid(rg, text, 40), Tag: nvrObs{c, w.Text, l.Text(rs)}})
			// "replace X with nil": the function's result as the caller sees it, before and after the replacement
			if hit >= 0 && len(rs.Results) == 1 && fd.Type.Results != nil && fd.Type.Results.NumFields() == 1 {
				fn := func(body string) string {
					return "func() string { r := func() " + resT + " " + body + "(); return fmt.Sprintf(\"%v|%t\", r, r == nil) }()"
				}
				repl := bodySrc[:from] + "return nil" + bodySrc[to:]
				dcs = append(dcs, &exprgen.DiffCase{ID: len(dcs), Kind: "expr", Orig: fn(bodySrc), New: fn(repl), Inputs: exprgen.Grid(rg, text, 40), Tag: nvrObs{c, w.Text, l.Text(rs)}})
			}
		}
		if ifs == nil {
			oracleOnly++
			continue
		}
		cond, isBin := ifs.Cond.(*ast.BinaryExpr)
		if !isBin {
			oracleOnly++
			continue
		}
		// tie: only operands of the model's fragment (w.err / w.buf are struct fields)
		xt, err := conv.Expr(cond.X)
		if err != nil {
			oracleOnly++
			continue
		}
		single := len(ifs.Body.List) == 1
		var results []string
		if rs, ok := ifs.Body.List[len(ifs.Body.List)-1].(*ast.ReturnStmt); ok {
			for _, e := range rs.Results {
				if t, err := conv.Expr(e); err == nil {
					results = append(results, "Some "+t)
				} else {
					results = append(results, "None")
				}
			}
		}
		if _, isRet := ifs.Body.List[0].(*ast.ReturnStmt); !isRet {
			single = false
		}
		yNil := false
		if id, ok := cond.Y.(*ast.Ident); ok && id.Name == "nil" && l.Info.Types[cond.Y].IsNil() { // the predeclared nil (fix 24d85b5)
			yNil = true
		}
		bodies = append(bodies, fmt.Sprintf("({| nvr_single_return := %v; nvr_op_is_eq := %v; nvr_y_is_nil := %v; nvr_x := %s; nvr_results := [%s] |}, %s)",
			single, cond.Op == token.EQL, yNil, xt, strings.Join(results, "; "), coqfmt.StrList(c.msgs)))
		if c.body != "" {
			idx = append(idx, fmt.Sprintf("%s => %q", strings.Join(strings.Fields(c.body), " "), c.msgs))
		} else {
			idx = append(idx, fmt.Sprintf("%s; if %s { %v; return %v } => %q", c.pro, c.cond, c.pre, c.rets, c.msgs))
		}
	}
	common.WriteFile(filepath.Join(outDir, "cases_c12_nilvalreturn.v"),
		"From GC Require Import Base Model_Expr Model_BoolSimp Model_Claims.\n"+
			"Definition case_ok (c : nvr_shape * list string) : bool := list_eqb String.eqb (map strip_spaces (nil_val_return_msgs (fst c))) (snd c).\n"+
			"Definition cases : list (nvr_shape * list string) := [\n"+strings.Join(bodies, ";\n")+"\n].\nDefinition M := Eval vm_compute in mismatches case_ok cases.\nPrint M.\n")
	common.WriteFile(filepath.Join(outDir, "cases_c12_nilvalreturn.index.txt"), strings.Join(idx, "\n")+"\n")
	meta.CaseFiles = append(meta.CaseFiles, "cases_c12_nilvalreturn.v")
	meta.Evaluations += len(bodies)
	meta.Distinct += nflag
	meta.Distribution["nilvalreturn_cases"] = len(bodies)
	meta.Distribution["nilvalreturn_flagged"] = nflag
	meta.Distribution["nilvalreturn_oracle_only_struct_fields"] = oracleOnly
	meta.Distribution["nilvalreturn_generated"] = len(cases)
	mm, evals, err := exprgen.RunDiff(filepath.Join(outDir, "obs_nvr"), dcs)
	if err != nil {
		panic(err)
	}
	meta.Evaluations += evals
	for _, m := range mm {
		o := m.Case.Tag.(nvrObs)
		c := o.c
		class := "unclassified"
		if len(c.pre) > 0 {
			class = "mutated-before-return"
		}
		if strings.Contains(c.pro, "nil :=") {
			class = "shadowed-nil"
		}
		if m.Case.Expect == "" {
			// the suggested replacement changes what the caller gets
			meta.Fail("C12/nilValReturn/typed-nil-in-interface",
				fmt.Sprintf("nilValReturn says %q on `%s` in a function with result type %s: replacing the expression with nil changes the result: %s vs %s", o.msg, o.ret, c.resT, m.Orig, m.New),
				map[string]interface{}{"function": renderNvr(c.fn, c), "result_type": c.resT, "input": m.Input, "original": m.Orig, "with_nil": m.New})
			continue
		}
		meta.Fail("C12/nilValReturn/"+class, fmt.Sprintf("nilValReturn says %q on `%s`, but the named expression is not nil when that return statement runs; function: %s", o.msg, o.ret, strings.Join(strings.Fields(renderNvr(c.fn, c)[strings.Index(renderNvr(c.fn, c), ") ")+2:]), " ")),
			map[string]interface{}{"function": renderNvr(c.fn, c), "return": o.ret, "message": o.msg, "input": m.Input, "observed": m.Orig})
	}
}

type nvrObs struct {
	c        *nvrCase
	msg, ret string
}

var nvrMsgRe = regexp.MustCompile(`^returned expr is always nil; replace (.*) with nil$`)

func renderNvr(name string, c *nvrCase) string {
	pre := ""
	for _, p := range c.pre {
		pre += "\t\t" + p + "\n"
	}
	pro := ""
	if c.pro != "" {
		pro = "\t" + c.pro + "\n"
	}
	if c.body != "" {
		return fmt.Sprintf("func %s(%s) %s {\n\t%s\n}\n", name, exprgen.Params, c.resT, c.body)
	}
	return fmt.Sprintf("func %s(%s) %s {\n%s\tif %s {\n%s\t\treturn %s\n\t}\n\treturn %s\n}\n", name, exprgen.Params, c.resT, pro, c.cond, pre, strings.Join(c.rets, ", "), c.final)
}

// ---------------------------------------------------------------- the claim rules as the binary executes them

var claimRuleGroups = map[string]bool{"sloppyLen": true, "offBy1": true, "dupArg": true}

// runRuleTable compares the executed IR (rulesdata.PrecompiledRules: patterns, filter source, templates) of the
// claim-producing rule groups with the model's copy (Model_Claims.claim_rules): a filter dropped from the data
// only (rules.go untouched) breaks this tie.
func runRuleTable(meta *common.Meta, outDir string) {
	var items, idx []string
	for _, g := range rulesdata.PrecompiledRules.RuleGroups {
		if !claimRuleGroups[g.Name] {
			continue
		}
		for _, r := range g.Rules {
			var pats []string
			for _, p := range r.SyntaxPatterns {
				pats = append(pats, p.Value)
			}
			where := strings.Join(strings.Fields(r.WhereExpr.Src), " ")
			if r.LocationVar != "" {
				where += " @At(m[\"" + r.LocationVar + "\"])"
			}
			items = append(items, fmt.Sprintf("{| r_group := %s; r_patterns := %s; r_where := %s; r_suggest := %s; r_report := %s |}",
				coqfmt.Str(g.Name), coqfmt.StrList(pats), coqfmt.Str(where), coqfmt.Str(r.SuggestTemplate), coqfmt.Str(r.ReportTemplate)))
			idx = append(idx, fmt.Sprintf("IR %s: %d patterns where %q report %q", g.Name, len(pats), where, r.ReportTemplate))
		}
	}
	common.WriteFile(filepath.Join(outDir, "cases_c12_rules_ir.v"),
		"From GC Require Import Base Model_Expr Model_Rewrites Model_Claims.\n"+
			"Definition observed : list rule := [\n"+strings.Join(items, ";\n")+"\n].\n"+
			"Definition cases : list (rule * rule) := zip_rules claim_rules observed.\n"+
			"Definition case_ok (c : rule * rule) : bool := rule_eqb (fst c) (snd c).\n"+
			"Definition M := Eval vm_compute in (if Nat.eqb (List.length claim_rules) (List.length observed) then mismatches case_ok cases else [999%N]).\nPrint M.\n")
	common.WriteFile(filepath.Join(outDir, "cases_c12_rules_ir.index.txt"), strings.Join(idx, "\n")+"\n")
	meta.CaseFiles = append(meta.CaseFiles, "cases_c12_rules_ir.v")
	meta.Evaluations += len(items)
	meta.Distribution["claim_rules_compared_with_executed_ir"] = len(items)
}

// ---------------------------------------------------------------- callees that only LOOK like pure builtins

// runShadowed: operands that are calls of user functions named like the pure builtins (len, cap shadowed by
// local function values with effects and arbitrary results), in the shapes of every claim checker.  These
// programs are outside the model (the converter resolves callees through go/types): oracle only.
func runShadowed(meta *common.Meta, seed int64, outDir string) {
	const prologue = "len := func(x []int) int { return fi() }; cap := func(x []int) int { return gi() }; _, _ = len, cap"
	exprs := []string{
		"len(xs) >= 0", "len(xs) < 0", "len(xs) >= 0x0", "cap(xs) >= 0",
		"xs[len(xs)] == 0", "xs[len(xs)] != xs[0]",
		"len(xs) < 1 && len(xs) > 5", "cap(xs) < 0 && cap(xs) > 3",
		"len(xs) == len(xs)", "len(xs) != len(xs)", "len(xs) < len(xs)", "len(xs) >= len(xs)", "len(xs)-len(xs) == 0",
		"cap(xs) == cap(xs)", "cap(xs) > cap(xs)", "len(xs) == len(mi)", "(len(xs)) == (len(xs))",
	}
	var src strings.Builder
	src.WriteString(lintHeader + exprgen.LintPreamble)
	for i, e := range exprs {
		fmt.Fprintf(&src, "func sh%d(%s) bool {\n\t%s\n\treturn %s\n}\n", i, exprgen.Params, prologue, e)
	}
	l, err := exprgen.Load("shadow.go", src.String())
	if err != nil {
		panic(err)
	}
	rets := map[string]ast.Expr{}
	for _, d := range l.File.Decls {
		if fd, ok := d.(*ast.FuncDecl); ok && strings.HasPrefix(fd.Name.Name, "sh") && fd.Body != nil {
			if rs, ok := fd.Body.List[len(fd.Body.List)-1].(*ast.ReturnStmt); ok {
				rets[fd.Name.Name] = rs.Results[0]
			}
		}
	}
	type flag struct{ checker, text, expr string }
	rg := common.NewRand(seed, "c12-shadow-grid")
	var dcs []*exprgen.DiffCase
	fired := map[string]int{}
	for _, name := range []string{"sloppyLen", "badCond", "offBy1", "dupSubExpr", "dupArg"} {
		ws, err := l.Run(name)
		if err != nil {
			panic(err)
		}
		for _, w := range ws {
			ret := rets[l.FuncOf(w.Pos)]
			if ret == nil {
				continue
			}
			if (name == "sloppyLen" && !strings.Contains(w.Text, " is always ")) || (name == "badCond" && !strings.Contains(w.Text, "always false")) ||
				(name == "offBy1" && !strings.Contains(w.Text, "always panics")) {
				continue
			}
			node := findFlagged(l, ret, w.Pos, name, w.Text)
			if node == nil {
				continue
			}
			fired[name]++
			text, expect := l.Text(node), "true"
			switch name {
			case "sloppyLen":
				if strings.Contains(w.Text, "always false") {
					expect = "false"
				}
			case "badCond":
				expect = "false"
			case "offBy1":
				expect = "panic"
			case "dupSubExpr":
				b := node.(*ast.BinaryExpr)
				text = "fmt.Sprint(" + l.Text(b.X) + ") == fmt.Sprint(" + l.Text(b.Y) + ")"
			}
			orig := "func() interface{} { " + prologue + "; return " + text + " }()"
			dcs = append(dcs, &exprgen.DiffCase{ID: len(dcs), Kind: "expr", Orig: orig, Expect: expect, Inputs: exprgen.Grid(rg, orig+" fi gi", 60),
				Tag: flag{name, w.Text, l.Text(node)}})
		}
	}
	meta.Distribution["shadowed_builtin_claims_fired"] = fired
	mm, evals, err := exprgen.RunDiff(filepath.Join(outDir, "obs_shadow"), dcs)
	if err != nil {
		panic(err)
	}
	meta.Evaluations += evals
	for _, m := range mm {
		f := m.Case.Tag.(flag)
		meta.Fail("C12/"+f.checker+"/shadowed-builtin",
			fmt.Sprintf("%s reports %q on `%s` where len/cap are user functions: observed %s", f.checker, f.text, f.expr, m.Orig),
			map[string]interface{}{"expr": f.expr, "prologue": prologue, "message": f.text, "input": m.Input, "observed": m.Orig, "claimed": m.Case.Expect})
	}
}

// ---------------------------------------------------------------- rule claims on boundary arguments

// runSynthClaims: every pattern of the claim-producing rule groups, as executed (also patterns a change
// adds), instantiated by the synthesiser; the claimed constant outcome is evaluated over the value domains
// of the parameter types (invalid runes, invalid UTF-8, nil, empty, negative ...).
func runSynthClaims(meta *common.Meta, outDir string) {
	cases, hits, misses := valdiff.Collect(
		func(g string, r ir.Rule) bool {
			return (g == "sloppyLen" && strings.Contains(r.ReportTemplate, " is always ")) || (g == "offBy1" && strings.Contains(r.ReportTemplate, "always panics"))
		}, 1500,
		func(group string, w linter.Warning, l *exprgen.Linted) (token.Pos, token.Pos, string, string, bool) {
			switch {
			case strings.Contains(w.Text, "is always true"):
				return 0, 0, "", "true", true
			case strings.Contains(w.Text, "is always false"):
				return 0, 0, "", "false", true
			case strings.Contains(w.Text, "always panics"):
				return 0, 0, "", "panic", true
			}
			return 0, 0, "", "", false
		})
	meta.Distribution["synth_claim_patterns_hit"] = hits
	meta.Distribution["synth_claim_patterns_missed"] = misses
	mm, evals, err := valdiff.Run(filepath.Join(outDir, "valdiff_claims"), cases)
	if err != nil {
		meta.Notes = append(meta.Notes, err.Error())
		meta.TieBroken = append(meta.TieBroken, "claim value-domain program did not build (see notes)")
		return
	}
	meta.Evaluations += evals
	meta.Distribution["synth_claim_evaluations"] = evals
	for _, m := range mm {
		meta.Fail("C12/"+m.Case.Group+"/claim-false-on-boundary-argument",
			fmt.Sprintf("%s reports %q, but `%s` (pattern %s) evaluates to %s on %s", m.Case.Group, m.Case.Message, m.Case.Expr, m.Case.Pattern, m.Orig, m.Input),
			map[string]interface{}{"pattern": m.Case.Pattern, "expr": m.Case.Expr, "message": m.Case.Message, "arguments": m.Input, "observed": m.Orig, "claimed": m.Case.Expect})
	}
}

// ---------------------------------------------------------------- caseOrder with type-parameter cases

// runCaseOrderGeneric: type switches inside generic functions with a case that is the type parameter itself
// (go/types gives it the constraint interface as underlying type).  Oracle only: every instantiation with a
// type of the lattice is run on every dynamic value; a flagged case that is taken contradicts the claim.
func runCaseOrderGeneric(meta *common.Meta, outDir string) {
	type gsw struct {
		constraint string
		cases      []string
		insts      []string // types satisfying the constraint
	}
	sws := []gsw{
		{"I1", []string{"T", "T1"}, []string{"T1", "T2", "T4", "*P1"}},
		{"I1", []string{"T", "T2", "T4"}, []string{"T1", "T2", "T4"}},
		{"I1", []string{"T1", "T"}, []string{"T1", "T2"}},
		{"I3", []string{"T", "T3", "nil"}, []string{"T3", "T4"}},
		{"interface{}", []string{"T", "int", "T0"}, []string{"int", "string", "T0"}},
		{"I1", []string{"T", "I2"}, []string{"T1", "T2"}},
		{"interface{ int | string }", []string{"T", "int", "string"}, []string{"int", "string"}},
		{"I5", []string{"T", "T4", "T3"}, []string{"T4"}},
		{"any", []string{"T", "T0", "nil"}, []string{"T0", "int"}},
	}
	var src strings.Builder
	src.WriteString("package p\n" + latticeSrc)
	for i, s := range sws {
		fmt.Fprintf(&src, "func gsw%d[T %s](v interface{}) int {\n\tswitch v.(type) {\n", i, s.constraint)
		for ci, c := range s.cases {
			fmt.Fprintf(&src, "\tcase %s:\n\t\treturn %d\n", c, ci)
		}
		src.WriteString("\t}\n\treturn -1\n}\n")
	}
	l, err := exprgen.Load("gsw.go", src.String())
	if err != nil {
		panic(err)
	}
	ws, err := l.Run("caseOrder")
	if err != nil {
		panic(err)
	}
	type flag struct {
		sw, arm int
		text    string
	}
	var flags []flag
	for _, w := range ws {
		var i int
		if _, err := fmt.Sscanf(l.FuncOf(w.Pos), "gsw%d", &i); err != nil {
			continue
		}
		m := caseOrderRe.FindStringSubmatch(w.Text)
		if m == nil {
			continue
		}
		for ci, c := range sws[i].cases {
			if c == m[1] {
				flags = append(flags, flag{i, ci, w.Text})
			}
		}
	}
	meta.Distribution["caseorder_generic_flagged"] = len(flags)
	if len(flags) == 0 {
		return
	}
	var prog strings.Builder
	prog.WriteString("package main\n\nimport \"fmt\"\n" + latticeSrc)
	prog.WriteString(src.String()[strings.Index(src.String(), "func gsw0"):])
	prog.WriteString("var vals = []interface{}{")
	for _, v := range dynValues {
		prog.WriteString(v.expr + ", ")
	}
	prog.WriteString("}\nfunc main() {\n\tfor vi, v := range vals {\n")
	for _, f := range flags {
		for _, inst := range sws[f.sw].insts {
			fmt.Fprintf(&prog, "\t\tfmt.Println(%d, %d, %q, vi, gsw%d[%s](v))\n", f.sw, f.arm, inst, f.sw, inst)
		}
	}
	prog.WriteString("\t}\n}\n")
	dir := filepath.Join(outDir, "obs_caseorder_generic")
	common.WriteFile(filepath.Join(dir, "main.go"), prog.String())
	common.WriteFile(filepath.Join(dir, "go.mod"), "module obsgsw\n\ngo 1.21\n")
	out, code, err := common.Run(5*time.Minute, dir, common.GoEnv(), "go", "run", ".")
	if err != nil || code != 0 {
		panic(fmt.Sprintf("generic caseOrder observation program failed: %v\n%s", err, out))
	}
	evals := 0
	for _, line := range strings.Split(strings.TrimSpace(out), "\n") {
		var sw, arm, vi, got int
		var inst string
		if _, err := fmt.Sscanf(line, "%d %d %s %d %d", &sw, &arm, &inst, &vi, &got); err != nil {
			continue
		}
		evals++
		if got == arm {
			meta.Fail("C12/caseOrder/type-parameter-case",
				fmt.Sprintf("caseOrder reports a case of `func [T %s](v interface{})` with cases %v as unreachable after `case T`, but instantiated with T=%s the value %s takes `case %s`",
					sws[sw].constraint, sws[sw].cases, inst, dynValues[vi].expr, sws[sw].cases[arm]),
				map[string]interface{}{"constraint": sws[sw].constraint, "cases": sws[sw].cases, "instantiation": inst, "value": dynValues[vi].expr})
		}
	}
	meta.Evaluations += evals
	meta.Distribution["caseorder_generic_observations"] = evals
}
