package c15

import (
	"fmt"
	"os"
	"path/filepath"
	"regexp"
	"runtime"
	"sort"
	"strings"
	"sync"
	"time"

	"github.com/quasilyte/go-ruleguard/ruleguard/ir"

	"verifharness/internal/common"
	"verifharness/internal/coqfmt"
	"verifharness/internal/synth"
)

type synthObs struct {
	group  string
	line   int
	api    string
	source string
	frags  []string
	fired  map[string]bool // version string -> recommended
}

func needleOf(api string) string {
	if api == "0o-literal" {
		return "0o"
	}
	return strings.TrimPrefix(api, ".")
}

// synthGate runs every rule that recommends a standard API on an input synthesised from its own pattern
// (committed store first, fresh search for patterns the store does not know) at every version.
func synthGate(meta *common.Meta, funcs, methods map[string]version, versions []string) (lines, idx []string, obs []synthObs, evals int) {
	targets := synth.Targets(func(g string, r ir.Rule) bool {
		return len(recommended(r.SuggestTemplate, funcs, methods))+len(recommended(r.ReportTemplate, funcs, methods)) > 0
	})
	corpus := synth.LoadCorpus(synth.CorpusDir)
	hits, misses := synth.Resolve(targets, corpus, 1500, synth.MkGroup)
	fresh := 0
	for _, h := range hits {
		if !h.Cached {
			fresh++
		}
	}
	var missed []string
	for _, m := range misses {
		missed = append(missed, m.Group+": "+m.Pattern)
	}
	meta.Distribution["synth_targets"] = len(targets)
	meta.Distribution["synth_inputs"] = len(hits)
	meta.Distribution["synth_inputs_fresh"] = fresh
	meta.Distribution["synth_no_input"] = missed
	y := synth.New()
	for _, h := range hits {
		recs := recommended(h.Target.Rule.SuggestTemplate, funcs, methods)
		for k, v := range recommended(h.Target.Rule.ReportTemplate, funcs, methods) {
			recs[k] = v
		}
		var apis []string
		for k := range recs {
			apis = append(apis, k)
		}
		sort.Strings(apis)
		per := map[string]*synthObs{}
		for _, api := range apis {
			per[api] = &synthObs{group: h.Target.Group, line: h.Target.Line, api: api, source: h.Source, frags: synth.MessageShape(h.Target.Rule), fired: map[string]bool{}}
		}
		frags := synth.MessageShape(h.Target.Rule)
		for _, vs := range versions {
			ws, _, err := y.Run(h.Source, vs, synth.MkGroup(h.Target.Group))
			if err != nil {
				continue
			}
			V := parseV(vs)
			// does the rule report here at this version (a message of its shape)
			fired := false
			text, fix := "", ""
			for _, w := range ws {
				if synth.MatchesShape(w.Text, frags) {
					fired, text = true, w.Text
					if w.HasQuickFix() {
						fix = string(w.Suggestion.Replacement)
					}
				}
			}
			evals++
			lines = append(lines, fmt.Sprintf("  (%s, %d, %s, %s)", coqfmt.Str(h.Target.Group), h.Target.Line, V.coq(), coqfmt.Bool(fired)))
			idx = append(idx, fmt.Sprintf("group=%s line=%d version=%q fired=%v pattern=%s", h.Target.Group, h.Target.Line, vs, fired, h.Target.Pattern))
			for _, api := range apis {
				per[api].fired[vs] = fired
				since := recs[api]
				// code merely quoted from the analysed file is not a recommendation
				quoted := strings.Contains(h.Source, needleOf(api)+"(")
				named := strings.Contains(text, needleOf(api)) || strings.Contains(fix, needleOf(api))
				if fired && named && !quoted && V.maj != 0 && !since.le(V) {
					meta.Fail("C15/"+h.Target.Group+"/future-api:"+api, fmt.Sprintf("with -go=%s checker %s recommends %s, which appeared in Go %s: %s", vs, h.Target.Group, api, since, text),
						map[string]string{"version": vs, "pattern": h.Target.Pattern, "source": h.Source, "message": text, "fix": fix})
				}
			}
		}
		for _, api := range apis {
			obs = append(obs, *per[api])
		}
	}
	return lines, idx, obs, evals
}

// frontEnds runs the four binaries over a workspace of the synthesised inputs at several versions: what a
// front-end prints must be what the library reports at that version.
func frontEnds(meta *common.Meta, obs []synthObs, versions []string, outDir string) int {
	dir := filepath.Join(outDir, "e2e15s")
	defer os.RemoveAll(dir)
	common.WriteFile(filepath.Join(dir, "go.mod"), "module e2e\n\ngo 1.20\n")
	groups := map[string]bool{}
	type unit struct {
		dir string
		o   []synthObs
	}
	bySrc := map[string]*unit{}
	var units []*unit
	for _, o := range obs {
		u := bySrc[o.group+"\x00"+o.source]
		if u == nil {
			u = &unit{dir: fmt.Sprintf("u%03d", len(units))}
			bySrc[o.group+"\x00"+o.source] = u
			units = append(units, u)
			common.WriteFile(filepath.Join(dir, u.dir, "synth.go"), o.source)
		}
		u.o = append(u.o, o)
		groups[o.group] = true
	}
	if len(units) == 0 {
		return 0
	}
	var gs []string
	for g := range groups {
		gs = append(gs, g)
	}
	sort.Strings(gs)
	enable := "-enable=" + strings.Join(gs, ",")
	bin := common.BinDir()
	type job struct {
		exe  string
		vs   string
		arch string // "" = host
	}
	var jobs []job
	foreign := "386"
	if runtime.GOARCH == "386" || runtime.GOARCH == "arm" {
		foreign = "amd64"
	}
	for _, exe := range []string{"go-critic", "gocritic", "go-critic-analysis", "gocritic-analysis"} {
		for _, vs := range versions {
			jobs = append(jobs, job{exe, vs, ""})
		}
		// the target version must survive loading the packages for another platform
		jobs = append(jobs, job{exe, versions[0], foreign}, job{exe, "go" + versions[0], foreign})
	}
	lineRE := regexp.MustCompile(`(?m)^(?:\./)?(?:[^\s:]*/)?(u\d+)/synth\.go:\d+:\d+: (\w+): (.*)$`)
	var mu sync.Mutex
	var wg sync.WaitGroup
	sem := make(chan struct{}, 4)
	for _, j := range jobs {
		wg.Add(1)
		go func(j job) {
			defer wg.Done()
			sem <- struct{}{}
			defer func() { <-sem }()
			var args []string
			if !strings.HasSuffix(j.exe, "-analysis") {
				args = append(args, "check")
			}
			args = append(args, enable, "-disable=")
			if j.vs != "" {
				args = append(args, "-go="+j.vs)
			}
			args = append(args, "./...")
			env := common.GoEnv()
			if j.arch != "" {
				env = append(env, "GOARCH="+j.arch, "CGO_ENABLED=0")
				args = append([]string{}, args...)
			}
			out, errOut, _, err := common.RunSplit(900*time.Second, dir, env, filepath.Join(bin, j.exe), args...)
			mu.Lock()
			defer mu.Unlock()
			if err != nil {
				meta.TieBroken = append(meta.TieBroken, fmt.Sprintf("%s %v: %v", j.exe, args, err))
				return
			}
			got := map[string][]string{} // unit dir -> messages
			for _, m := range lineRE.FindAllStringSubmatch(out+"\n"+errOut, -1) {
				got[m[1]] = append(got[m[1]], m[3])
			}
			for _, u := range units {
				for _, o := range u.o {
					want, known := o.fired[strings.TrimPrefix(j.vs, "go")]
					if _, exact := o.fired[j.vs]; exact {
						want, known = o.fired[j.vs], true
					}
					if !known {
						continue
					}
					fired := false
					for _, t := range got[u.dir] {
						if synth.MatchesShape(t, o.frags) {
							fired = true
						}
					}
					if fired != want {
						meta.Fail("C15/"+j.exe+"/go-flag-not-applied", fmt.Sprintf("%s %s: on the input below the rule of checker %s at rules.go:%d (recommending %s) reports = %v, the library at the same version says %v", j.exe, strings.TrimSpace("GOARCH="+j.arch+" ")+" "+strings.Join(args, " "), o.group, o.line, o.api, fired, want),
							map[string]string{"exe": j.exe, "args": strings.Join(args, " "), "source": o.source, "output": strings.Join(got[u.dir], "\n")})
					}
				}
			}
		}(j)
	}
	wg.Wait()
	return len(jobs) * len(units)
}
