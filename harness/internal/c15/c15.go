// Package c15: the configured Go version bounds what is suggested.
package c15

import (
	"bufio"
	"fmt"
	"go/ast"
	"go/parser"
	"go/token"
	"os"
	"path/filepath"
	"regexp"
	"sort"
	"strconv"
	"strings"
	"time"

	"github.com/go-critic/go-critic/checkers/rulesdata"
	"github.com/go-critic/go-critic/linter"
	"github.com/quasilyte/go-ruleguard/ruleguard/ir"

	"verifharness/internal/common"
	"verifharness/internal/coqfmt"
	"verifharness/internal/load"
)

type version struct{ maj, min int }

func (v version) le(w version) bool { return v.maj < w.maj || (v.maj == w.maj && v.min <= w.min) }
func (v version) coq() string       { return fmt.Sprintf("(%d, %d)%%Z", v.maj, v.min) }
func (v version) String() string    { return fmt.Sprintf("%d.%d", v.maj, v.min) }

// apiSince parses GOROOT/api/go1*.txt: "pkg.Func" -> first version, and method name -> first version.
func apiSince() (funcs map[string]version, methods map[string]version, newest version, err error) {
	funcs, methods = map[string]version{}, map[string]version{}
	out, _, e := common.Run(20*time.Second, "", common.GoEnv(), "go", "env", "GOROOT")
	if e != nil {
		return nil, nil, version{}, e
	}
	files, _ := filepath.Glob(filepath.Join(strings.TrimSpace(out), "api", "go1*.txt"))
	if len(files) == 0 {
		return nil, nil, version{}, fmt.Errorf("no GOROOT/api files")
	}
	funcRE := regexp.MustCompile(`^pkg ([\w/.-]+)(?: \([^)]*\))?, func (\w+)\(`)
	methRE := regexp.MustCompile(`^pkg ([\w/.-]+)(?: \([^)]*\))?, method \(([^)]*)\) (\w+)\(`)
	for _, f := range files {
		base := strings.TrimSuffix(strings.TrimPrefix(filepath.Base(f), "go1"), ".txt")
		v := version{1, 0}
		if base != "" {
			n, err := strconv.Atoi(strings.TrimPrefix(base, "."))
			if err != nil {
				continue
			}
			v.min = n
		}
		if newest.le(v) {
			newest = v
		}
		fh, err := os.Open(f)
		if err != nil {
			return nil, nil, version{}, err
		}
		sc := bufio.NewScanner(fh)
		sc.Buffer(make([]byte, 1<<20), 1<<20)
		for sc.Scan() {
			line := sc.Text()
			if m := funcRE.FindStringSubmatch(line); m != nil {
				key := filepath.Base(m[1]) + "." + m[2]
				if old, ok := funcs[key]; !ok || v.le(old) {
					funcs[key] = v
				}
			} else if m := methRE.FindStringSubmatch(line); m != nil {
				if old, ok := methods[m[3]]; !ok || v.le(old) {
					methods[m[3]] = v
				}
			}
		}
		fh.Close()
	}
	return funcs, methods, newest, nil
}

var (
	pkgFuncRE = regexp.MustCompile(`(?:^|[^$\w.])([a-z][a-z0-9]*)\.([A-Z]\w*)`)
	methodRE  = regexp.MustCompile(`\$\w+\.([A-Z]\w*)`)
)

// recommended extracts std API names from a Suggest/Report template outside the quoted match.
func recommended(tmpl string, funcs, methods map[string]version) map[string]version {
	t := strings.ReplaceAll(tmpl, "`$$`", " ")
	t = strings.ReplaceAll(t, "$$", " ")
	out := map[string]version{}
	for _, m := range pkgFuncRE.FindAllStringSubmatch(t, -1) {
		key := m[1] + "." + m[2]
		if v, ok := funcs[key]; ok {
			out[key] = v
		}
	}
	for _, m := range methodRE.FindAllStringSubmatch(t, -1) {
		if v, ok := methods[m[1]]; ok {
			out["."+m[1]] = v
		}
	}
	return out
}

// gateOf finds m.GoVersion().GreaterEqThan(v) in the conjunctive part of a filter.
func gateOf(e ir.FilterExpr) (version, bool) {
	switch e.Op {
	case ir.FilterAndOp:
		for _, a := range e.Args {
			if v, ok := gateOf(a); ok {
				return v, true
			}
		}
	case ir.FilterGoVersionGreaterEqThanOp:
		s, _ := e.Value.(string)
		parts := strings.Split(s, ".")
		if len(parts) == 2 {
			a, e1 := strconv.Atoi(parts[0])
			b, e2 := strconv.Atoi(parts[1])
			if e1 == nil && e2 == nil {
				return version{a, b}, true
			}
		}
	}
	return version{}, false
}

type entry struct {
	group string
	line  int
	gate  *version
	recs  map[string]version
}

func table() ([]entry, version, error) {
	funcs, methods, newest, err := apiSince()
	if err != nil {
		return nil, newest, err
	}
	var out []entry
	for _, g := range rulesdata.PrecompiledRules.RuleGroups {
		for _, r := range g.Rules {
			e := entry{group: g.Name, line: r.Line, recs: map[string]version{}}
			if v, ok := gateOf(r.WhereExpr); ok {
				vv := v
				e.gate = &vv
			}
			for k, v := range recommended(r.SuggestTemplate, funcs, methods) {
				e.recs[k] = v
			}
			for k, v := range recommended(r.ReportTemplate, funcs, methods) {
				e.recs[k] = v
			}
			out = append(out, e)
		}
	}
	// hand-written gates: <x>.GoVersion.GreaterOrEqual(linter.GoVersion{Major: a, Minor: b})
	files, _ := filepath.Glob(filepath.Join(common.RepoDir, "checkers", "*_checker.go"))
	sort.Strings(files)
	for _, fn := range files {
		fset := token.NewFileSet()
		f, err := parser.ParseFile(fset, fn, nil, 0)
		if err != nil {
			return nil, newest, err
		}
		ast.Inspect(f, func(n ast.Node) bool {
			call, ok := n.(*ast.CallExpr)
			if !ok || len(call.Args) != 1 {
				return true
			}
			sel, ok := call.Fun.(*ast.SelectorExpr)
			if !ok || sel.Sel.Name != "GreaterOrEqual" {
				return true
			}
			lit, ok := call.Args[0].(*ast.CompositeLit)
			if !ok {
				return true
			}
			v := version{}
			for _, el := range lit.Elts {
				kv, ok := el.(*ast.KeyValueExpr)
				if !ok {
					continue
				}
				val, _ := strconv.Atoi(kv.Value.(*ast.BasicLit).Value)
				switch kv.Key.(*ast.Ident).Name {
				case "Major":
					v.maj = val
				case "Minor":
					v.min = val
				}
			}
			name := strings.TrimSuffix(filepath.Base(fn), "_checker.go")
			recs := map[string]version{}
			if name == "octalLiteral" {
				recs["0o-literal"] = version{1, 13}
			}
			out = append(out, entry{group: name, line: fset.Position(call.Pos()).Line, gate: &v, recs: recs})
			return true
		})
	}
	return out, newest, nil
}

// GenRuleTable is the translator for gen/RuleTable.v.
func GenRuleTable(outDir string) error {
	tab, newest, err := table()
	if err != nil {
		return err
	}
	var b strings.Builder
	b.WriteString("(* GENERATED by vh gen ruletable from rulesdata.PrecompiledRules, checkers/*_checker.go and GOROOT/api — do not edit *)\n")
	b.WriteString("From GC Require Import Base Model_Version.\nOpen Scope Z_scope.\n")
	var items []string
	for _, e := range tab {
		if e.gate == nil && len(e.recs) == 0 {
			continue
		}
		gate := "None"
		if e.gate != nil {
			gate = "(Some " + e.gate.coq() + ")"
		}
		var recs []string
		var keys []string
		for k := range e.recs {
			keys = append(keys, k)
		}
		sort.Strings(keys)
		for _, k := range keys {
			recs = append(recs, fmt.Sprintf("(%s, %s)", coqfmt.Str(k), e.recs[k].coq()))
		}
		items = append(items, fmt.Sprintf("{| r_group := %s; r_line := %d; r_gate := %s; r_recommends := %s |}", coqfmt.Str(e.group), e.line, gate, coqfmt.List(recs)))
	}
	fmt.Fprintf(&b, "Definition rule_table : list rule_entry := [\n  %s\n].\n", strings.Join(items, ";\n  "))
	fmt.Fprintf(&b, "Definition newest_version : version := %s.\n", newest.coq())
	var rd []string
	for _, r := range versionReaders() {
		rd = append(rd, coqfmt.Str(r))
	}
	fmt.Fprintf(&b, "(* hand-written checkers whose source reads the configured Go version (any selector .GoVersion) *)\nDefinition handwritten_version_readers : list string := %s.\n", coqfmt.List(rd))
	common.WriteFile(filepath.Join(outDir, "RuleTable.v"), b.String())
	return nil
}

// versionReaders lists the hand-written checkers (checkers/*_checker.go, the two rule-engine adapters excluded: they
// hand the version to ruleguard, whose gates are in the rule table) that mention the configured Go version.
func versionReaders() []string {
	files, _ := filepath.Glob(filepath.Join(common.RepoDir, "checkers", "*_checker.go"))
	sort.Strings(files)
	var out []string
	for _, fn := range files {
		name := strings.TrimSuffix(filepath.Base(fn), "_checker.go")
		if name == "ruleguard" {
			continue
		}
		f, err := parser.ParseFile(token.NewFileSet(), fn, nil, 0)
		if err != nil {
			continue
		}
		reads := false
		ast.Inspect(f, func(n ast.Node) bool {
			if sel, ok := n.(*ast.SelectorExpr); ok && sel.Sel.Name == "GoVersion" {
				if id, isPkg := sel.X.(*ast.Ident); !(isPkg && id.Name == "linter") { // linter.GoVersion is the type
					reads = true
				}
			}
			return !reads
		})
		if reads {
			out = append(out, name)
		}
	}
	return out
}

func versionsToTry(newest version) []string {
	var out []string
	for m := 13; m <= newest.min+1; m++ {
		out = append(out, fmt.Sprintf("1.%d", m))
	}
	return append(out, "", "go1.17", "2.0")
}

func parseV(s string) version {
	v, err := linter.ParseGoVersion(s)
	if err != nil {
		panic(err)
	}
	return version{v.Major, v.Minor}
}

func Run(tier string, seed int64, outDir string) *common.Meta {
	load.InitRules()
	meta := &common.Meta{Property: "C15", Distribution: map[string]interface{}{}}
	rng := common.NewRand(seed, "c15")
	tab, newest, err := table()
	if err != nil {
		meta.TieBroken = append(meta.TieBroken, "translator: "+err.Error())
		return meta
	}
	funcs, methods, _, _ := apiSince()

	// ---------- 1. ParseGoVersion / GreaterOrEqual vs model ----------
	var lines, idx []string
	genStr := func() string {
		num := func() string {
			switch rng.Intn(10) {
			case 0:
				return ""
			case 1:
				return "-" + strconv.Itoa(rng.Intn(30))
			case 2:
				return "+" + strconv.Itoa(rng.Intn(30))
			case 3:
				return "0" + strconv.Itoa(rng.Intn(30))
			case 4:
				return "9223372036854775807"
			case 5:
				return "9223372036854775808"
			case 6:
				return strconv.Itoa(rng.Intn(30)) + "x"
			case 7:
				return "1_0"
			default:
				return strconv.Itoa(rng.Intn(30))
			}
		}
		s := num() + "." + num()
		switch rng.Intn(12) {
		case 0:
			s = num()
		case 1:
			s = s + "." + num()
		case 2:
			s = "go" + s
		case 3:
			s = "gogo" + s
		case 4:
			s = " " + s
		case 5:
			s = "go"
		case 6:
			s = ""
		case 7:
			s = "v" + s
		}
		return s
	}
	nParse := 1500
	if tier == "thorough" {
		nParse = 12000
	}
	okParses := 0
	seen := map[string]bool{}
	for i := 0; i < nParse; i++ {
		s := genStr()
		if seen[s] {
			continue
		}
		seen[s] = true
		v, err := linter.ParseGoVersion(s)
		obs := "None"
		if err == nil {
			okParses++
			obs = fmt.Sprintf("(Some (%d, %d)%%Z)", v.Major, v.Minor)
		}
		lines = append(lines, fmt.Sprintf("  (%s, %s)", coqfmt.Str(s), obs))
		idx = append(idx, fmt.Sprintf("ParseGoVersion(%q) = %v, %v", s, v, err))
		// oracle: only the documented spellings are accepted ('' and a bare prefix mean "no version")
		if err == nil && !regexp.MustCompile(`^(?:go)?(?:\d+\.\d+)?$`).MatchString(s) {
			meta.Fail("C15/ParseGoVersion/malformed-accepted", fmt.Sprintf("ParseGoVersion(%q) = %v: a malformed version string is accepted", s, v), s)
		}
		// oracle: numeric interpretation of accepted '1.N' / 'go1.N'
		if m := regexp.MustCompile(`^(?:go)?(\d{1,9})\.(\d{1,9})$`).FindStringSubmatch(s); m != nil {
			a, _ := strconv.Atoi(m[1])
			b, _ := strconv.Atoi(m[2])
			if a == 0 {
				// there is no Go 0.x, and major 0 is the internal "no version" value: accepting it would make the request mean "newest"
				if err == nil {
					meta.Fail("C15/ParseGoVersion/zero-major-accepted", fmt.Sprintf("ParseGoVersion(%q) = %v: a version that names no release is accepted (and then means 'no version configured')", s, v), s)
				}
			} else if err != nil || v.Major != a || v.Minor != b {
				meta.Fail("C15/ParseGoVersion/numeric", fmt.Sprintf("ParseGoVersion(%q) = %v, %v", s, v, err), s)
			}
		}
	}
	meta.Distribution["parse_strings"] = len(lines)
	meta.Distribution["parse_accepted"] = okParses
	hdr := "From GC Require Import Base Model_Version.\nFrom GCgen Require Import RuleTable.\nOpen Scope Z_scope.\n"
	veq := "Definition v_eqb (a b : option version) : bool := match a, b with Some (x, y), Some (u, w) => (x =? u) && (y =? w) | None, None => true | _, _ => false end.\n"
	common.WriteFile(filepath.Join(outDir, "cases_c15_parse.v"), hdr+veq+
		"Definition case_ok (k : string * option version) : bool := v_eqb (parse_go_version (fst k)) (snd k).\nDefinition cases := [\n"+strings.Join(lines, ";\n")+
		"\n].\nDefinition M := Eval vm_compute in mismatches case_ok cases.\nPrint M.\n")
	common.WriteFile(filepath.Join(outDir, "cases_c15_parse.index.txt"), strings.Join(idx, "\n")+"\n")
	meta.CaseFiles = append(meta.CaseFiles, "cases_c15_parse.v")

	// GreaterOrEqual grid
	lines = nil
	for a := 0; a <= 2; a++ {
		for b := 0; b <= 3; b++ {
			for c := 0; c <= 2; c++ {
				for d := 0; d <= 3; d++ {
					got := linter.GoVersion{Major: a, Minor: 12 * b}.GreaterOrEqual(linter.GoVersion{Major: c, Minor: 12 * d})
					lines = append(lines, fmt.Sprintf("  ((%d, %d), (%d, %d), %s)", a, 12*b, c, 12*d, coqfmt.Bool(got)))
					want := a == 0 || a > c || (a == c && 12*b >= 12*d)
					if got != want {
						meta.Fail("C15/GreaterOrEqual/order", fmt.Sprintf("{%d %d}.GreaterOrEqual({%d %d}) = %v", a, 12*b, c, 12*d, got), nil)
					}
				}
			}
		}
	}
	common.WriteFile(filepath.Join(outDir, "cases_c15_ge.v"), hdr+
		"Definition case_ok (k : version * version * bool) : bool := let '(v, w, o) := k in Bool.eqb (ge v w) o.\nDefinition cases := [\n"+strings.Join(lines, ";\n")+
		"\n].\nDefinition M := Eval vm_compute in mismatches case_ok cases.\nPrint M.\n")
	meta.CaseFiles = append(meta.CaseFiles, "cases_c15_ge.v")

	// ---------- 2. gating behaviour: embedded rules on their own positive examples ----------
	gated := map[string]map[string]bool{} // group -> api names recommended only by gated rules
	ungatedAPIs := map[string]map[string]bool{}
	for _, e := range tab {
		for k := range e.recs {
			if e.gate == nil {
				if ungatedAPIs[e.group] == nil {
					ungatedAPIs[e.group] = map[string]bool{}
				}
				ungatedAPIs[e.group][k] = true
			}
		}
	}
	for _, e := range tab {
		if e.gate == nil {
			continue
		}
		for k := range e.recs {
			if !ungatedAPIs[e.group][k] {
				if gated[e.group] == nil {
					gated[e.group] = map[string]bool{}
				}
				gated[e.group][k] = true
			}
		}
	}
	var groups []string
	for g := range gated {
		groups = append(groups, g)
	}
	sort.Strings(groups)
	meta.Distribution["gated_groups"] = groups
	versions := versionsToTry(newest)
	lines, idx = nil, nil
	fireCount := map[string]int{}
	evals := 0
	env := common.GoEnv()
	for _, g := range groups {
		dir := filepath.Join(common.RepoDir, "checkers", "testdata", g)
		if _, err := os.Stat(dir); err != nil {
			meta.Notes = append(meta.Notes, "no testdata for gated group "+g)
			continue
		}
		fset, pkgs, err := load.Packages(filepath.Join(common.RepoDir, "checkers"), env, "./testdata/"+g)
		if err != nil || len(pkgs) == 0 {
			meta.Notes = append(meta.Notes, fmt.Sprintf("load %s: %v", g, err))
			continue
		}
		for _, vs := range versions {
			ctx := load.NewContext(fset)
			ctx.SetGoVersion(vs)
			cs, err := load.Checkers(ctx, map[string]bool{g: true})
			common.Must(err)
			texts := []string{}
			for _, pkg := range pkgs {
				load.CheckPackage(ctx, cs, pkg, func(_ string, _ *linter.Checker, ws []linter.Warning) {
					for _, w := range ws {
						texts = append(texts, w.Text)
					}
				})
			}
			V := parseV(vs)
			for api := range gated[g] {
				needle := strings.TrimPrefix(api, ".")
				if api == "0o-literal" {
					needle = "0o"
				}
				fired := false
				for _, t := range texts {
					if strings.Contains(t, needle) {
						fired = true
					}
				}
				evals++
				if fired {
					fireCount[g+":"+api]++
				}
				lines = append(lines, fmt.Sprintf("  (%s, %s, %s, %s)", coqfmt.Str(g), coqfmt.Str(api), V.coq(), coqfmt.Bool(fired)))
				idx = append(idx, fmt.Sprintf("group=%s api=%s version=%q fired=%v", g, api, vs, fired))
				// oracle (independent): a fired recommendation must exist at V
				since, ok := funcs[api]
				if !ok {
					since, ok = methods[needle]
				}
				if api == "0o-literal" {
					since, ok = version{1, 13}, true
				}
				if fired && ok && V.maj != 0 && !since.le(V) {
					meta.Fail("C15/"+g+"/future-api:"+api, fmt.Sprintf("with -go=%s checker %s recommends %s, which appeared in Go %s", vs, g, api, since), map[string]interface{}{"version": vs, "texts": texts})
				}
			}
		}
	}
	// "no version configured = newest version", observed: every checker that reads the version (hand-written readers found
	// in the source, gated rule groups from the executed IR) reports the same on its own examples with no version, with the
	// newest known version and with versions beyond it
	{
		names := map[string]bool{}
		for _, r := range versionReaders() {
			names[r] = true
		}
		for g := range gated {
			names[g] = true
		}
		var sorted []string
		for n := range names {
			sorted = append(sorted, n)
		}
		sort.Strings(sorted)
		cmpVersions := []string{"", fmt.Sprintf("%d.%d", newest.maj, newest.min), fmt.Sprintf("%d.%d", newest.maj, newest.min+1), fmt.Sprintf("go%d.%d", newest.maj, newest.min), "1.99"}
		for _, g := range sorted {
			dir := filepath.Join(common.RepoDir, "checkers", "testdata", g)
			if _, err := os.Stat(dir); err != nil {
				continue
			}
			fset, pkgs, err := load.Packages(filepath.Join(common.RepoDir, "checkers"), env, "./testdata/"+g)
			if err != nil || len(pkgs) == 0 {
				continue
			}
			var ref []string
			for i, vs := range cmpVersions {
				ctx := load.NewContext(fset)
				ctx.SetGoVersion(vs)
				cs, err := load.Checkers(ctx, map[string]bool{g: true})
				if err != nil || len(cs) == 0 {
					break
				}
				var got []string
				for _, pkg := range pkgs {
					load.CheckPackage(ctx, cs, pkg, func(_ string, _ *linter.Checker, ws []linter.Warning) {
						for _, w := range ws {
							got = append(got, fmt.Sprintf("%s: %s", fset.Position(w.Pos), w.Text))
						}
					})
				}
				sort.Strings(got)
				evals++
				if i == 0 {
					ref = got
					continue
				}
				if strings.Join(got, "\n") != strings.Join(ref, "\n") {
					meta.Fail("C15/"+g+"/unset-version-differs-from-newest", fmt.Sprintf("checker %s on its own examples: %d diagnostics with no version configured, %d with -go=%s (newest known Go is %d.%d)", g, len(ref), len(got), vs, newest.maj, newest.min),
						map[string]interface{}{"version": vs, "only_unset": diffLines(ref, got), "only_versioned": diffLines(got, ref)})
					break
				}
			}
		}
	}
	// the same on a directed target package holding every receiver/operand type variant of each gated rule:
	// a recommendation observed at version V must exist in V (oracle only; which variant a rule covers is
	// the rule author's choice, so no firing pattern is demanded)
	{
		tdir := filepath.Join(common.VerifRoot(), "corpus", "c15", "targets")
		fset, pkgs, err := load.Packages(tdir, append(env, "GOFLAGS=-mod=mod"), ".")
		if err != nil || len(pkgs) == 0 {
			meta.Notes = append(meta.Notes, fmt.Sprintf("corpus/c15/targets not loaded: %v", err))
		} else {
			// every API any rule of a group recommends (gated or not: a gate may have been lost)
			recsOf := map[string]map[string]bool{}
			names := map[string]bool{}
			for _, e := range tab {
				for k := range e.recs {
					if recsOf[e.group] == nil {
						recsOf[e.group] = map[string]bool{}
					}
					recsOf[e.group][k] = true
					names[e.group] = true
				}
			}
			for _, vs := range versions {
				V := parseV(vs)
				if V.maj == 0 {
					continue
				}
				ctx := load.NewContext(fset)
				ctx.SetGoVersion(vs)
				cs, err := load.Checkers(ctx, names)
				common.Must(err)
				for _, pkg := range pkgs {
					load.CheckPackage(ctx, cs, pkg, func(full string, c *linter.Checker, ws []linter.Warning) {
						for _, w := range ws {
							evals++
							for api := range recsOf[c.Info.Name] {
								needle := strings.TrimPrefix(api, ".")
								if api == "0o-literal" {
									needle = "0o"
								}
								if !strings.Contains(w.Text, needle) {
									continue
								}
								since, ok := funcs[api]
								if !ok {
									since, ok = methods[needle]
								}
								if api == "0o-literal" {
									since, ok = version{1, 13}, true
								}
								if ok && !since.le(V) {
									meta.Fail("C15/"+c.Info.Name+"/future-api:"+api, fmt.Sprintf("with -go=%s checker %s recommends %s (Go %s) at %s: %s", vs, c.Info.Name, api, since, fset.Position(w.Pos), w.Text),
										map[string]string{"version": vs, "file": full, "position": fset.Position(w.Pos).String(), "text": w.Text})
								}
							}
						}
					})
				}
			}
		}
	}
	meta.Distribution["fire_counts"] = fireCount
	common.WriteFile(filepath.Join(outDir, "cases_c15_gate.v"), hdr+
		`Definition fires (g api : string) (v : version) : bool :=
  existsb (fun r => String.eqb (r_group r) g && existsb (fun a => String.eqb (fst a) api) (r_recommends r)
                    && gate_ok r (run_version Embedded v)) rule_table.
Definition case_ok (k : string * string * version * bool) : bool := let '(g, api, v, o) := k in Bool.eqb (fires g api v) o.
Definition cases := [
`+strings.Join(lines, ";\n")+"\n].\nDefinition M := Eval vm_compute in mismatches case_ok cases.\nPrint M.\n")
	common.WriteFile(filepath.Join(outDir, "cases_c15_gate.index.txt"), strings.Join(idx, "\n")+"\n")
	meta.CaseFiles = append(meta.CaseFiles, "cases_c15_gate.v")

	// ---------- 2b. every rule recommending a standard API, on an input synthesised from its pattern ----------
	sLines, sIdx, sObs, sEvals := synthGate(meta, funcs, methods, versions)
	evals += sEvals
	for part := 0; part*600 < len(sLines); part++ {
		hi := (part + 1) * 600
		if hi > len(sLines) {
			hi = len(sLines)
		}
		fn := fmt.Sprintf("cases_c15_synth_%d", part)
		common.WriteFile(filepath.Join(outDir, fn+".v"), hdr+
			`Definition fires_rule (g : string) (line : Z) (v : version) : bool :=
  existsb (fun r => String.eqb (r_group r) g && (r_line r =? line) && gate_ok r (run_version Embedded v)) rule_table.
Definition case_ok (k : string * Z * version * bool) : bool := let '(g, l, v, o) := k in Bool.eqb (fires_rule g l v) o.
Definition cases := [
`+strings.Join(sLines[part*600:hi], ";\n")+"\n].\nDefinition M := Eval vm_compute in mismatches case_ok cases.\nPrint M.\n")
		common.WriteFile(filepath.Join(outDir, fn+".index.txt"), strings.Join(sIdx[part*600:hi], "\n")+"\n")
		meta.CaseFiles = append(meta.CaseFiles, fn+".v")
	}

	// ---------- 3. dynamic rules: a user gate must see the configured version ----------
	dynLines, dynIdx := dynamicRules(meta, versions, outDir)
	common.WriteFile(filepath.Join(outDir, "cases_c15_dynamic.v"), hdr+
		`Definition user_rule := {| r_group := "userUnixMilli"; r_line := 0; r_gate := Some (1, 17); r_recommends := [(".UnixMilli", (1, 17))] |}.
Definition case_ok (k : version * bool) : bool := Bool.eqb (gate_ok user_rule (run_version Dynamic (fst k))) (snd k).
Definition cases : list (version * bool) := [
`+strings.Join(dynLines, ";\n")+"\n].\nDefinition M := Eval vm_compute in mismatches case_ok cases.\nPrint M.\n")
	common.WriteFile(filepath.Join(outDir, "cases_c15_dynamic.index.txt"), strings.Join(dynIdx, "\n")+"\n")
	meta.CaseFiles = append(meta.CaseFiles, "cases_c15_dynamic.v")
	evals += len(dynLines)

	// ---------- 4. oracle sweep: no diagnostic names an API newer than V ----------
	evals += sweep(meta, tier, rng, funcs, methods)

	// ---------- 5. front-end plumbing, end to end ----------
	evals += endToEnd(meta, outDir)
	feVersions := []string{"1.13", "1.16", "1.17", "1.19", "1.20", "go1.20", ""} // 1.20: a minor that ends in zero and has 1.2 as a textual prefix
	feObs := sObs
	if tier == "thorough" {
		feVersions = []string{"1.13", "1.14", "1.15", "1.16", "1.17", "1.18", "1.20", "1.21", "go1.17", ""}
	} else {
		// quick: the inputs of version-gated rules only (the plumbing of -go is what the front-ends add)
		gatedRule := map[string]bool{}
		for _, e := range tab {
			if e.gate != nil {
				gatedRule[fmt.Sprintf("%s:%d", e.group, e.line)] = true
			}
		}
		feObs = nil
		for _, o := range sObs {
			if gatedRule[fmt.Sprintf("%s:%d", o.group, o.line)] {
				feObs = append(feObs, o)
			}
		}
	}
	meta.Distribution["front_end_inputs"] = len(feObs)
	evals += frontEnds(meta, feObs, feVersions, outDir)

	meta.Evaluations = evals + len(seen) + 144
	meta.Distinct = len(fireCount) + okParses
	meta.Rule = "version strings from a grammar of digits/signs/prefixes/junk vs linter.ParseGoVersion; GreaterOrEqual on a 12x12 grid; every gated rule group run on its own positive examples at every version 1.13..newest+1, unset, go1.17 and 2.0 (fires iff the regenerated gate table says so); a user rule file through the dynamic ruleguard checker at the same versions; API tokens of all diagnostics checked against GOROOT/api; CLI and analyzer -go end to end. distinct_nontrivial = (group,api) pairs observed firing + accepted version strings"
	meta.AddSample(map[string]interface{}{"gated_groups": groups, "versions": versions})
	return meta
}

func dynamicRules(meta *common.Meta, versions []string, outDir string) (lines, idx []string) {
	rules := filepath.Join(common.VerifRoot(), "corpus", "c15", "rules.go")
	if _, err := os.Stat(rules); err != nil {
		meta.TieBroken = append(meta.TieBroken, "corpus/c15/rules.go missing")
		return
	}
	src := "package p\n\nimport \"time\"\n\nfunc F(t time.Time) int64 { return t.Unix() / 1000 }\n\nfunc G(t time.Time) int64 { return t.Unix() / 60 }\n"
	dir := filepath.Join(outDir, "dyn")
	common.WriteFile(filepath.Join(dir, "go.mod"), "module dyn\n\ngo 1.20\n")
	common.WriteFile(filepath.Join(dir, "a.go"), src)
	defer os.RemoveAll(dir)
	fset, pkgs, err := load.Packages(dir, common.GoEnv(), "./...")
	if err != nil || len(pkgs) == 0 {
		meta.TieBroken = append(meta.TieBroken, fmt.Sprintf("dynamic: load: %v", err))
		return
	}
	var rgInfo *linter.CheckerInfo
	for _, info := range linter.GetCheckersInfo() {
		if info.Name == "ruleguard" {
			rgInfo = info
		}
	}
	old := rgInfo.Params["rules"].Value
	rgInfo.Params["rules"].Value = rules
	defer func() { rgInfo.Params["rules"].Value = old }()
	for _, vs := range versions {
		ctx := load.NewContext(fset)
		ctx.SetGoVersion(vs)
		c, err := linter.NewChecker(ctx, rgInfo)
		if err != nil {
			meta.TieBroken = append(meta.TieBroken, "dynamic: NewChecker: "+err.Error())
			return
		}
		fired, always := false, false
		load.CheckPackage(ctx, []*linter.Checker{c}, pkgs[0], func(_ string, _ *linter.Checker, ws []linter.Warning) {
			for _, w := range ws {
				if strings.Contains(w.Text, "UnixMilli") {
					fired = true
				}
				if strings.Contains(w.Text, "division of Unix") {
					always = true
				}
			}
		})
		if !always {
			meta.TieBroken = append(meta.TieBroken, "dynamic: the ungated user rule did not fire (rule file not loaded?)")
			return
		}
		V := parseV(vs)
		lines = append(lines, fmt.Sprintf("  (%s, %s)", V.coq(), coqfmt.Bool(fired)))
		idx = append(idx, fmt.Sprintf("dynamic rules version=%q UnixMilli rule fired=%v", vs, fired))
		if fired && V.maj != 0 && !(version{1, 17}).le(V) {
			meta.Fail("C15/ruleguard/dynamic-rules-ignore-go-version", fmt.Sprintf("with Go version %s configured, a user rule gated by m.GoVersion().GreaterEqThan(\"1.17\") fires and recommends Time.UnixMilli (Go 1.17)", vs), map[string]string{"version": vs, "rules": rules, "source": src})
		}
	}
	return
}

var apiTokRE = regexp.MustCompile(`\b([a-z][a-z0-9]*)\.([A-Z]\w*)`)

// sweep runs embedded checkers over their testdata at a few versions and checks API tokens that
// do not come from the analysed source line.
func sweep(meta *common.Meta, tier string, rng interface{ Intn(int) int }, funcs, methods map[string]version) int {
	var names []string
	for _, info := range linter.GetCheckersInfo() {
		if info.EmbeddedRuleguard || info.Name == "octalLiteral" {
			names = append(names, info.Name)
		}
	}
	vers := []string{"1.13", "1.16"}
	if tier == "thorough" {
		vers = []string{"1.13", "1.14", "1.15", "1.16", "1.17", "1.18", "1.19", "1.20", "1.21", "1.22"}
	}
	_ = rng // every group in both tiers: findings must not depend on the seed
	env := common.GoEnv()
	evals := 0
	for _, g := range names {
		dir := filepath.Join(common.RepoDir, "checkers", "testdata", g)
		if _, err := os.Stat(dir); err != nil {
			continue
		}
		fset, pkgs, err := load.Packages(filepath.Join(common.RepoDir, "checkers"), env, "./testdata/"+g)
		if err != nil || len(pkgs) == 0 {
			continue
		}
		srcCache := map[string][]string{}
		for _, vs := range vers {
			V := parseV(vs)
			ctx := load.NewContext(fset)
			ctx.SetGoVersion(vs)
			cs, err := load.Checkers(ctx, map[string]bool{g: true})
			if err != nil {
				continue
			}
			for _, pkg := range pkgs {
				load.CheckPackage(ctx, cs, pkg, func(full string, _ *linter.Checker, ws []linter.Warning) {
					for _, w := range ws {
						evals++
						pos := fset.Position(w.Pos)
						if srcCache[full] == nil {
							data, _ := os.ReadFile(full)
							srcCache[full] = strings.Split(string(data), "\n")
						}
						srcLine := ""
						if pos.Line-1 < len(srcCache[full]) && pos.Line > 0 {
							// the statement may span several lines: take a window
							hi := pos.Line + 6
							if hi > len(srcCache[full]) {
								hi = len(srcCache[full])
							}
							srcLine = strings.Join(srcCache[full][pos.Line-1:hi], "\n")
						}
						for _, m := range apiTokRE.FindAllStringSubmatch(w.Text, -1) {
							key := m[1] + "." + m[2]
							since, ok := funcs[key]
							if !ok || strings.Contains(srcLine, key) {
								continue
							}
							if !since.le(V) {
								meta.Fail("C15/"+g+"/future-api:"+key, fmt.Sprintf("with -go=%s checker %s recommends %s (Go %s): %s", vs, g, key, since, w.Text), map[string]string{"file": full, "pos": pos.String(), "version": vs})
							}
						}
					}
				})
			}
		}
	}
	return evals
}

func endToEnd(meta *common.Meta, outDir string) int {
	dir := filepath.Join(outDir, "e2e15")
	defer os.RemoveAll(dir)
	common.WriteFile(filepath.Join(dir, "go.mod"), "module e2e\n\ngo 1.20\n")
	common.WriteFile(filepath.Join(dir, "a.go"), "package p\n\nimport \"time\"\n\nfunc F(t time.Time) int64 { return t.Unix() / 1000 }\n")
	runs := 0
	type cfg struct {
		exe  string
		args []string
		want bool
	}
	bin := common.BinDir()
	cases := []cfg{
		{"go-critic", []string{"check", "-enable=timeExprSimplify", "-go=1.16", "./..."}, false},
		{"go-critic", []string{"check", "-enable=timeExprSimplify", "-go=1.17", "./..."}, true},
		{"go-critic", []string{"check", "-enable=timeExprSimplify", "./..."}, true},
		{"gocritic", []string{"check", "-enable=timeExprSimplify", "-go=go1.16", "./..."}, false},
		{"gocritic", []string{"check", "-enable=timeExprSimplify", "-go=1.20", "./..."}, true},
	}
	for _, c := range cases {
		out, _, err := common.Run(120*time.Second, dir, common.GoEnv(), filepath.Join(bin, c.exe), c.args...)
		runs++
		if err != nil {
			meta.Fail("C15/"+c.exe+"/e2e-run", err.Error(), c.args)
			continue
		}
		got := strings.Contains(out, "UnixMilli")
		if got != c.want {
			key := "C15/" + c.exe + "/cli-go-flag-not-applied"
			meta.Fail(key, fmt.Sprintf("%s %v: UnixMilli recommended=%v, expected %v; output: %s", c.exe, c.args, got, c.want, out), c.args)
		}
	}
	return runs
}

// diffLines returns the lines of a that are not in b (first few).
func diffLines(a, b []string) []string {
	in := map[string]bool{}
	for _, x := range b {
		in[x] = true
	}
	var out []string
	for _, x := range a {
		if !in[x] && len(out) < 5 {
			out = append(out, x)
		}
	}
	return out
}
