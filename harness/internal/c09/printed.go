package c09

import (
	"fmt"
	"path/filepath"
	"regexp"
	"sort"
	"strings"
	"time"

	"verifharness/internal/common"
)

// printedSuggestions checks the replacement code a user actually sees: the CLI front-ends are run over the
// example directories of the checkers that quote replacement code in their messages, and the quoted code is
// cut out of the printed output (messages may span several lines) and parsed.
func printedSuggestions(meta *common.Meta) int {
	var names []string
	for n := range quoteRules {
		names = append(names, n)
	}
	sort.Strings(names)
	runs := 0
	locRE := regexp.MustCompile(`(?m)^\S+\.go:\d+:\d+: (\w+): `)
	for _, exe := range []string{"go-critic", "gocritic"} {
		for _, n := range names {
			out, _, err := common.Run(180*time.Second, filepath.Join(common.RepoDir, "checkers"), common.GoEnv(), filepath.Join(common.BinDir(), exe),
				"check", "-enable="+n, "./testdata/"+n)
			runs++
			if err != nil {
				meta.Fail("C09/"+exe+"/run", err.Error(), n)
				continue
			}
			// split the output into messages at the location prefixes
			idx := locRE.FindAllStringSubmatchIndex(out, -1)
			for i, m := range idx {
				if out[m[2]:m[3]] != n {
					continue
				}
				end := len(out)
				if i+1 < len(idx) {
					end = idx[i+1][0]
				}
				text := strings.TrimRight(out[m[1]:end], "\n")
				re := regexp.MustCompile("(?s)" + quoteRules[n].String())
				q := re.FindStringSubmatch(text)
				if q == nil {
					continue
				}
				if !parsesAsCode(q[2]) {
					meta.Fail("C09/"+n+"/printed-suggestion-unparsable", fmt.Sprintf("%s prints a suggestion for %s that does not parse as Go: %q", exe, n, q[2]),
						map[string]string{"exe": exe, "checker": n, "message": text, "dir": "checkers/testdata/" + n})
				}
			}
		}
	}
	// the directed corpus (multi-line replacements), all quoting checkers at once
	for _, exe := range []string{"go-critic", "gocritic"} {
		out, _, err := common.Run(180*time.Second, c09Corpus(), common.GoEnv(), filepath.Join(common.BinDir(), exe), "check", "-enable="+strings.Join(names, ","), ".")
		runs++
		if err != nil {
			meta.Fail("C09/"+exe+"/run", err.Error(), "corpus/c09")
			continue
		}
		idx := locRE.FindAllStringSubmatchIndex(out, -1)
		for i, m := range idx {
			n := out[m[2]:m[3]]
			if quoteRules[n] == nil {
				continue
			}
			end := len(out)
			if i+1 < len(idx) {
				end = idx[i+1][0]
			}
			text := strings.TrimRight(out[m[1]:end], "\n")
			q := regexp.MustCompile("(?s)" + quoteRules[n].String()).FindStringSubmatch(text)
			if q != nil && !parsesAsCode(q[2]) {
				meta.Fail("C09/"+n+"/printed-suggestion-unparsable", fmt.Sprintf("%s prints a suggestion for %s that does not parse as Go: %q", exe, n, q[2]),
					map[string]string{"exe": exe, "checker": n, "message": text, "dir": c09Corpus()})
			}
		}
	}
	return runs
}
