package c09

// Operand and context variants of an input on which a fix-carrying rule fires (C09, precedence):
// every operand the fix copies is replaced by an expression of the same type with a looser root operator
// (`*p`, `a + b`, `a || b`), and the whole matched expression is put into a tighter context (`M[0:]`, `-M`,
// `!M`, `*M`, `M.(interface{})`). Templates are rendered textually, so both are exactly the inputs on which a
// template that needs parentheses shows (Model_Prec: holes_ok / context_ok). The variants are ordinary inputs of
// the main loop; nothing here judges them.

import (
	"bytes"
	"fmt"
	"go/ast"
	"go/token"
	"go/types"
	"regexp"
	"strings"

	"golang.org/x/tools/go/ast/astutil"
)

const varPrefix = "Ωv"

type variant struct {
	kind string // "operand:<form>" or "context:<form>"
	src  string
}

func typeText(t types.Type, self *types.Package) (string, bool) {
	if t == nil {
		return "", false
	}
	if b, ok := t.(*types.Basic); ok {
		if b.Kind() == types.UntypedNil || b.Kind() == types.Invalid {
			return "", false
		}
		t = types.Default(t)
	}
	if _, ok := t.(*types.Tuple); ok {
		return "", false
	}
	s := types.TypeString(t, func(p *types.Package) string {
		if p == self {
			return ""
		}
		return p.Name()
	})
	if strings.Contains(s, "invalid type") {
		return "", false
	}
	return s, true
}

// precVariants builds the variants for the fix replacing the exact expression m (bytes [from,to) of src) by repl.
func precVariants(env *pkgEnv, src []byte, m ast.Expr, from, to int, repl string) []variant {
	var out []variant
	off := func(n ast.Node) (int, int) {
		return env.fset.Position(n.Pos()).Offset, env.fset.Position(n.End()).Offset
	}
	n := 0
	decl := func(format string, a ...interface{}) string { return "\n" + fmt.Sprintf(format, a...) + "\n" }

	// ---- operand variants: maximal sub-expressions whose text the replacement copies ----
	skip := map[ast.Node]bool{}
	ast.Inspect(m, func(x ast.Node) bool {
		switch y := x.(type) {
		case *ast.CallExpr:
			skip[y.Fun] = true // the callee is not an operand
		case *ast.SelectorExpr:
			skip[y.Sel] = true
			if id, ok := y.X.(*ast.Ident); ok {
				if _, isPkg := env.info.Uses[id].(*types.PkgName); isPkg {
					skip[y] = true
					skip[id] = true
				}
			}
		case *ast.CompositeLit:
			if y.Type != nil {
				skip[y.Type] = true
			}
		case *ast.KeyValueExpr:
			skip[y.Key] = true
		}
		return true
	})
	ast.Inspect(m, func(x ast.Node) bool {
		e, ok := x.(ast.Expr)
		if !ok || x == ast.Node(m) {
			return true
		}
		if skip[x] {
			// a callee or type: its own operands may still be copied (receiver of a method call)
			_, isSel := x.(*ast.SelectorExpr)
			return isSel
		}
		tv, ok := env.info.Types[e]
		if !ok || tv.IsType() || tv.IsBuiltin() || tv.Type == nil {
			return true
		}
		s, t := off(e)
		text := string(src[s:t])
		if !strings.Contains(repl, text) {
			return true
		}
		tt, ok := typeText(tv.Type, env.pkg)
		if !ok {
			return false
		}
		mk := func(form, newText, decls string) {
			out = append(out, variant{kind: "operand:" + form, src: string(src[:s]) + newText + string(src[t:]) + decls})
		}
		n++
		mk("deref", fmt.Sprintf("*%sp%d", varPrefix, n), decl("var %sp%d *%s", varPrefix, n, tt))
		if b, ok := tv.Type.Underlying().(*types.Basic); ok {
			switch {
			case b.Info()&types.IsBoolean != 0:
				mk("or", fmt.Sprintf("%sa%d || %sb%d", varPrefix, n, varPrefix, n), decl("var %sa%d, %sb%d %s", varPrefix, n, varPrefix, n, tt))
			case b.Info()&(types.IsString|types.IsNumeric) != 0:
				mk("add", fmt.Sprintf("%sa%d + %sb%d", varPrefix, n, varPrefix, n), decl("var %sa%d, %sb%d %s", varPrefix, n, varPrefix, n, tt))
			}
		}
		return false // maximal operands only
	})

	// ---- context variants: the matched expression inside a tighter context; each also combined with the
	// loosest operand variant (a template that is a bare placeholder is as loose as what it is bound to) ----
	if tv, ok := env.info.Types[m]; ok && tv.Type != nil && !tv.IsType() {
		text := string(src[from:to])
		var loose *variant
		for i := range out {
			if out[i].kind == "operand:add" || out[i].kind == "operand:or" {
				loose = &out[i]
				break
			}
		}
		ctx := func(form, pre, post string) {
			out = append(out, variant{kind: "context:" + form, src: string(src[:from]) + pre + text + post + string(src[to:])})
			if loose != nil {
				// the operand variant only changed bytes inside [from,to) and appended declarations
				decls := strings.LastIndex(loose.src, "\nvar "+varPrefix)
				if decls > 0 {
					inner := loose.src[from : decls-(len(src)-to)]
					out = append(out, variant{kind: "combined:" + form, src: string(src[:from]) + pre + inner + post + string(src[to:]) + loose.src[decls:]})
				}
			}
		}

		// only where the surrounding code stays type-correct whatever the result type of the context is:
		// the synthesised inputs use the match as `_ = M`, a condition or an argument, so keep the type
		switch u := tv.Type.Underlying().(type) {
		case *types.Basic:
			switch {
			case u.Info()&types.IsString != 0:
				ctx("slice", "", "[0:]")
			case u.Info()&types.IsBoolean != 0:
				ctx("not", "!", "")
			case u.Info()&types.IsNumeric != 0 && u.Info()&types.IsUnsigned == 0:
				ctx("neg", "-", "")
				ctx("mul", "", " * 1")
			case u.Info()&types.IsNumeric != 0:
				ctx("mul", "", " * 1")
			}
		case *types.Slice:
			ctx("slice", "", "[0:]")
		case *types.Interface:
			if tt, ok := typeText(tv.Type, env.pkg); ok {
				ctx("assert", "", ".("+tt+")")
			}
		}
	}
	return out
}

var operandFormRE = regexp.MustCompile(`\*Ωvp\d+|Ωva\d+ (?:\+|\|\|) Ωvb\d+`)

// operandRegrouped reports whether a variant operand copied into the replacement (which starts at byte from of the
// patched file) is not read as one expression there.
func operandRegrouped(penv *pkgEnv, file string, from int, repl []byte) bool {
	for _, pf := range penv.files {
		if penv.fset.Position(pf.Pos()).Filename != file {
			continue
		}
		base := penv.fset.File(pf.Pos()).Base()
		for _, loc := range operandFormRE.FindAllIndex(repl, -1) {
			np, exact := astutil.PathEnclosingInterval(pf, token.Pos(base+from+loc[0]), token.Pos(base+from+loc[1]))
			if len(np) == 0 {
				continue
			}
			if _, isE := np[0].(ast.Expr); !exact || !isE {
				return true
			}
		}
	}
	return false
}

// spanIsOneExpr reports whether bytes [start,end) of the named file of penv are exactly one expression node.
func spanIsOneExpr(penv *pkgEnv, file string, start, end int) bool {
	for _, pf := range penv.files {
		if penv.fset.Position(pf.Pos()).Filename != file {
			continue
		}
		base := penv.fset.File(pf.Pos()).Base()
		np, exact := astutil.PathEnclosingInterval(pf, token.Pos(base+start), token.Pos(base+end))
		if len(np) == 0 {
			return true
		}
		_, isE := np[0].(ast.Expr)
		return exact && isE
	}
	return true
}

// headerContext names the control-clause position the bytes [from,to) of file stand in ("in-if-cond:", "in-if-init:",
// "in-for-cond:", "in-switch-tag:", ...), or "" outside statement headers: there a bare composite literal does not parse.
func headerContext(env *pkgEnv, file string, from, to int) string {
	for _, f := range env.files {
		if env.fset.Position(f.Pos()).Filename != file {
			continue
		}
		base := env.fset.File(f.Pos()).Base()
		path, _ := astutil.PathEnclosingInterval(f, token.Pos(base+from), token.Pos(base+to))
		inside := func(n ast.Node) bool {
			return n != nil && int(n.Pos())-base <= from && to <= int(n.End())-base
		}
		for _, n := range path {
			switch x := n.(type) {
			case *ast.BlockStmt, *ast.FuncLit:
				return ""
			case *ast.IfStmt:
				switch {
				case x.Cond != nil && inside(x.Cond):
					return "in-if-cond:"
				case x.Init != nil && inside(x.Init):
					return "in-if-init:"
				}
			case *ast.ForStmt:
				switch {
				case x.Cond != nil && inside(x.Cond):
					return "in-for-cond:"
				case x.Init != nil && inside(x.Init):
					return "in-for-init:"
				case x.Post != nil && inside(x.Post):
					return "in-for-post:"
				}
			case *ast.RangeStmt:
				if inside(x.X) {
					return "in-range-expr:"
				}
			case *ast.SwitchStmt:
				switch {
				case x.Tag != nil && inside(x.Tag):
					return "in-switch-tag:"
				case x.Init != nil && inside(x.Init):
					return "in-switch-init:"
				}
			case *ast.TypeSwitchStmt:
				if x.Init != nil && inside(x.Init) {
					return "in-switch-init:"
				}
			}
		}
	}
	return ""
}

var lastImportErr string

// retypedWithImport applies the fix AND adds the import of the package the fix names; it reports a class when the
// package still does not type-check or the replaced expression changed its type ("" otherwise or when not applicable).
func retypedWithImport(dir string, env *pkgEnv, fd found, src, repl []byte, pkgName string) string {
	path, ok := stdImports[pkgName]
	if !ok || env.errs != 0 {
		return ""
	}
	var origExpr ast.Expr
	for _, f := range env.files {
		if env.fset.Position(f.Pos()).Filename != fd.file {
			continue
		}
		p, exact := astutil.PathEnclosingInterval(f, fd.w.Suggestion.From, fd.w.Suggestion.To)
		if exact && len(p) > 0 {
			origExpr, _ = p[0].(ast.Expr)
		}
	}
	// insert the import right after the package clause line
	nl := bytes.IndexByte(src, '\n')
	for nl >= 0 && !bytes.HasPrefix(bytes.TrimSpace(src[:nl+1][bytes.LastIndexByte(src[:nl], '\n')+1:]), []byte("package ")) {
		next := bytes.IndexByte(src[nl+1:], '\n')
		if next < 0 {
			return ""
		}
		nl += 1 + next
	}
	if nl < 0 || fd.from <= nl {
		return ""
	}
	ins := []byte("import " + pkgName + " \"" + path + "\"\n")
	patched := append(append(append(append(append([]byte(nil), src[:nl+1]...), ins...), src[nl+1:fd.from]...), repl...), src[fd.to:]...)
	penv, err := loadDir(dir, map[string][]byte{fd.file: patched})
	if err != nil {
		return ""
	}
	if penv.errs > 0 {
		if regexp.MustCompile(`imported( as \w+)? and not used`).MatchString(penv.firstErr) || strings.Contains(penv.firstErr, "redeclared") {
			return ""
		}
		lastImportErr = penv.firstErr
		return "fix-breaks-type-check-beyond-the-import:" + shapeOf(src[fd.from:fd.to])
	}
	if origExpr == nil {
		return ""
	}
	ot := env.info.TypeOf(origExpr)
	start := fd.from + len(ins)
	for _, pf := range penv.files {
		if penv.fset.Position(pf.Pos()).Filename != fd.file {
			continue
		}
		base := penv.fset.File(pf.Pos()).Base()
		np, exact := astutil.PathEnclosingInterval(pf, token.Pos(base+start), token.Pos(base+start+len(repl)))
		if !exact || len(np) == 0 {
			return ""
		}
		if ne, ok := np[0].(ast.Expr); ok {
			nt := penv.info.TypeOf(ne)
			if ot != nil && nt != nil && typeKey(types.Default(ot)) != typeKey(types.Default(nt)) {
				return "fix-changes-expression-type"
			}
		}
	}
	return ""
}
