package c09

// Translator for coq/gen/PrecTable.v: every (syntax pattern, Suggest template) pair of the executed rule IR as a
// pair of Model_Prec.ex trees, plus the placeholders whose type is known not to be boolean (Model_Prec.pe_floor).
// The Coq side computes levels, needs and guarantees itself; this file only parses and converts.

import (
	"fmt"
	"go/ast"
	"go/importer"
	"go/parser"
	"go/printer"
	"go/token"
	"go/types"
	"path/filepath"
	"regexp"
	"sort"
	"strings"

	"github.com/go-critic/go-critic/checkers/rulesdata"

	"verifharness/internal/common"
	"verifharness/internal/coqfmt"
)

const phPrefix = "Ωph_"

var (
	phRE       = regexp.MustCompile(`\$\*?(\w+)`)
	stdImports = map[string]string{"strings": "strings", "bytes": "bytes", "io": "io", "fmt": "fmt", "sort": "sort", "errors": "errors",
		"http": "net/http", "httptest": "net/http/httptest", "filepath": "path/filepath", "os": "os", "time": "time", "utf8": "unicode/utf8",
		"strconv": "strconv", "regexp": "regexp", "sync": "sync", "context": "context", "math": "math", "reflect": "reflect", "ioutil": "io/ioutil",
		"path": "path", "atomic": "sync/atomic", "rand": "math/rand", "unicode": "unicode", "bufio": "bufio", "log": "log", "flag": "flag"}
	precImporter = importer.ForCompiler(token.NewFileSet(), "source", nil)
)

// PrecPair is one converted (pattern, template) pair.
type PrecPair struct {
	Group    string
	Line     int
	Pattern  string
	Template string
	Pat, Tpl string // Coq terms
	Floors   map[string]int
	OK       bool // both sides could be parsed
}

func mangle(s string) string {
	s = strings.ReplaceAll(s, "{ ... }", "{}")
	return phRE.ReplaceAllString(s, phPrefix+"$1")
}

// parseCode parses an expression, or else a statement list; stmt reports the latter.
func parseCode(fset *token.FileSet, code string) (ast.Node, bool, error) {
	if e, err := parser.ParseExprFrom(fset, "p.go", code, 0); err == nil {
		return e, false, nil
	}
	f, err := parser.ParseFile(fset, "p.go", "package p\nfunc _() {\n"+code+"\n}\n", 0)
	if err != nil {
		return nil, true, err
	}
	return f.Decls[0].(*ast.FuncDecl).Body, true, nil
}

type precConv struct {
	fset   *token.FileSet
	floors map[string]int
}

func hasHole(n ast.Node) bool {
	found := false
	ast.Inspect(n, func(x ast.Node) bool {
		if id, ok := x.(*ast.Ident); ok && strings.HasPrefix(id.Name, phPrefix) {
			found = true
		}
		return !found
	})
	return found
}

func (c *precConv) text(n ast.Node) string {
	var b strings.Builder
	printer.Fprint(&b, c.fset, n)
	return b.String()
}

func holeName(e ast.Expr) (string, bool) {
	if id, ok := e.(*ast.Ident); ok && strings.HasPrefix(id.Name, phPrefix) {
		return strings.TrimPrefix(id.Name, phPrefix), true
	}
	return "", false
}

func nonBool(t types.Type) bool {
	if t == nil {
		return false
	}
	if _, ok := t.(*types.TypeParam); ok {
		return false
	}
	switch u := t.Underlying().(type) {
	case *types.Basic:
		return u.Info()&types.IsBoolean == 0 && u.Kind() != types.Invalid
	case *types.Interface:
		return u.NumMethods() > 0 // only types with these methods are assignable; an untyped boolean is not
	}
	return true
}

func (c *precConv) floor(e ast.Expr, t types.Type) {
	if name, ok := holeName(e); ok && nonBool(t) {
		c.floors[name] = 4
	}
}

// argFloors records placeholders whose type follows from where they stand: arguments of standard-library
// functions, elements of typed composite literals, operands of conversions to non-boolean basic types.
func (c *precConv) argFloors(call *ast.CallExpr) {
	switch fun := call.Fun.(type) {
	case *ast.SelectorExpr:
		pk, ok := fun.X.(*ast.Ident)
		if !ok {
			return
		}
		path, ok := stdImports[pk.Name]
		if !ok {
			return
		}
		pkg, err := precImporter.Import(path)
		if err != nil {
			return
		}
		fn, ok := pkg.Scope().Lookup(fun.Sel.Name).(*types.Func)
		if !ok {
			return
		}
		sig := fn.Type().(*types.Signature)
		for i, a := range call.Args {
			var pt types.Type
			switch {
			case sig.Variadic() && i >= sig.Params().Len()-1:
				pt = sig.Params().At(sig.Params().Len() - 1).Type().(*types.Slice).Elem()
			case i < sig.Params().Len():
				pt = sig.Params().At(i).Type()
			}
			c.floor(a, pt)
		}
	case *ast.Ident:
		if len(call.Args) == 1 {
			switch fun.Name {
			case "string", "int", "int8", "int16", "int32", "int64", "uint", "uint8", "uint16", "uint32", "uint64", "uintptr", "byte", "rune", "float32", "float64", "complex64", "complex128":
				c.floor(call.Args[0], types.Typ[types.String]) // any non-boolean operand
			}
		}
	case *ast.ArrayType:
		if len(call.Args) == 1 { // []byte(x), []rune(x)
			c.floor(call.Args[0], types.Typ[types.String])
		}
	}
}

func (c *precConv) list(es []ast.Expr) string {
	var parts []string
	for _, e := range es {
		if e != nil {
			parts = append(parts, c.expr(e))
		}
	}
	return "[" + strings.Join(parts, "; ") + "]"
}

func (c *precConv) opaque(n ast.Node, kids ...ast.Expr) string {
	if !hasHole(n) {
		return "EAtom " + coqfmt.Str(c.text(n))
	}
	return "EParen (ESeq " + c.list(kids) + ")"
}

func (c *precConv) expr(e ast.Expr) string {
	switch x := e.(type) {
	case *ast.Ident:
		if name, ok := holeName(x); ok {
			return "EHole " + coqfmt.Str(name)
		}
		return "EAtom " + coqfmt.Str(x.Name)
	case *ast.BasicLit:
		return "EAtom " + coqfmt.Str(x.Value)
	case *ast.ParenExpr:
		return "EParen (" + c.expr(x.X) + ")"
	case *ast.UnaryExpr:
		return fmt.Sprintf("EUn %s (%s)", coqfmt.Str(x.Op.String()), c.expr(x.X))
	case *ast.StarExpr:
		return fmt.Sprintf("EUn %s (%s)", coqfmt.Str("*"), c.expr(x.X))
	case *ast.BinaryExpr:
		return fmt.Sprintf("EBin %d %s (%s) (%s)", x.Op.Precedence(), coqfmt.Str(x.Op.String()), c.expr(x.X), c.expr(x.Y))
	case *ast.SelectorExpr:
		return fmt.Sprintf("ESel (%s) %s", c.expr(x.X), coqfmt.Str(x.Sel.Name))
	case *ast.CallExpr:
		c.argFloors(x)
		return fmt.Sprintf("EApp (%s) \"(\" \")\" %s", c.expr(x.Fun), c.list(x.Args))
	case *ast.IndexExpr:
		return fmt.Sprintf("EApp (%s) \"[\" \"]\" %s", c.expr(x.X), c.list([]ast.Expr{x.Index}))
	case *ast.SliceExpr:
		return fmt.Sprintf("EApp (%s) \"[\" \"]\" [ESeq %s]", c.expr(x.X), c.list([]ast.Expr{x.Low, x.High, x.Max}))
	case *ast.TypeAssertExpr:
		if x.Type == nil {
			return fmt.Sprintf("EApp (%s) \".(\" \")\" [EAtom \"type\"]", c.expr(x.X))
		}
		return fmt.Sprintf("EApp (%s) \".(\" \")\" %s", c.expr(x.X), c.list([]ast.Expr{x.Type}))
	case *ast.CompositeLit:
		head := "EAtom \"\""
		if x.Type != nil {
			head = c.expr(x.Type)
			if at, ok := x.Type.(*ast.ArrayType); ok {
				if id, ok := at.Elt.(*ast.Ident); ok {
					if b, ok := types.Universe.Lookup(id.Name).(*types.TypeName); ok {
						for _, el := range x.Elts {
							c.floor(el, b.Type())
						}
					}
				}
			}
		}
		return fmt.Sprintf("EApp (%s) \"{\" \"}\" %s", head, c.list(x.Elts))
	case *ast.KeyValueExpr:
		return "ESeq " + c.list([]ast.Expr{x.Key, x.Value})
	case *ast.ArrayType:
		return c.opaque(x, x.Len, x.Elt)
	case *ast.MapType:
		return c.opaque(x, x.Key, x.Value)
	case *ast.ChanType:
		return c.opaque(x, x.Value)
	case *ast.Ellipsis:
		return c.opaque(x, x.Elt)
	case *ast.FuncLit:
		if !hasHole(x) {
			return "EAtom " + coqfmt.Str("func literal")
		}
		return "EParen (" + c.stmt(x.Body) + ")"
	default:
		return c.opaque(x)
	}
}

// stmt converts a statement to a sequence of the expressions it holds, all in free positions.
func (c *precConv) stmt(s ast.Stmt) string {
	var parts []string
	add := func(es ...ast.Expr) {
		for _, e := range es {
			if e != nil {
				parts = append(parts, c.expr(e))
			}
		}
	}
	sub := func(ss ...ast.Stmt) {
		for _, s := range ss {
			if s != nil {
				parts = append(parts, c.stmt(s))
			}
		}
	}
	switch x := s.(type) {
	case *ast.BlockStmt:
		sub(x.List...)
	case *ast.ExprStmt:
		add(x.X)
	case *ast.AssignStmt:
		add(x.Lhs...)
		add(x.Rhs...)
	case *ast.IncDecStmt:
		add(x.X)
	case *ast.ReturnStmt:
		add(x.Results...)
	case *ast.IfStmt:
		sub(x.Init)
		add(x.Cond)
		sub(x.Body, x.Else)
	case *ast.ForStmt:
		sub(x.Init)
		add(x.Cond)
		sub(x.Post, x.Body)
	case *ast.RangeStmt:
		add(x.Key, x.Value, x.X)
		sub(x.Body)
	case *ast.SwitchStmt:
		sub(x.Init)
		add(x.Tag)
		sub(x.Body)
	case *ast.CaseClause:
		add(x.List...)
		sub(x.Body...)
	case *ast.DeferStmt:
		add(x.Call)
	case *ast.GoStmt:
		add(x.Call)
	case *ast.SendStmt:
		add(x.Chan, x.Value)
	case *ast.LabeledStmt:
		sub(x.Stmt)
	case *ast.DeclStmt:
		if gd, ok := x.Decl.(*ast.GenDecl); ok {
			for _, sp := range gd.Specs {
				if vs, ok := sp.(*ast.ValueSpec); ok {
					add(vs.Type)
					add(vs.Values...)
				}
			}
		}
	default:
		parts = append(parts, "EAtom "+coqfmt.Str(fmt.Sprintf("%T", s)))
	}
	return "ESeq [" + strings.Join(parts, "; ") + "]"
}

func (c *precConv) node(n ast.Node) string {
	switch x := n.(type) {
	case ast.Expr:
		return c.expr(x)
	case ast.Stmt:
		return c.stmt(x)
	}
	return "EAtom \"?\""
}

// PrecPairs converts every (pattern, template) pair of the executed rule IR.
func PrecPairs() []PrecPair {
	var out []PrecPair
	for _, g := range rulesdata.PrecompiledRules.RuleGroups {
		for _, r := range g.Rules {
			if r.SuggestTemplate == "" {
				continue
			}
			for _, p := range r.SyntaxPatterns {
				pp := PrecPair{Group: g.Name, Line: r.Line, Pattern: p.Value, Template: r.SuggestTemplate, Floors: map[string]int{}}
				fset := token.NewFileSet()
				c := &precConv{fset: fset, floors: pp.Floors}
				pn, _, err1 := parseCode(fset, mangle(p.Value))
				tn, _, err2 := parseCode(fset, mangle(r.SuggestTemplate))
				if err1 == nil && err2 == nil {
					pp.OK = true
					pp.Pat = c.node(pn)
					// floors come from the pattern only (what the match guarantees); convert the template with a scratch map
					tc := &precConv{fset: fset, floors: map[string]int{}}
					pp.Tpl = tc.node(tn)
				}
				out = append(out, pp)
			}
		}
	}
	return out
}

// GenPrecTable writes coq/gen/PrecTable.v.
func GenPrecTable(outDir string) error {
	var items, skipped []string
	for _, pp := range PrecPairs() {
		if !pp.OK {
			skipped = append(skipped, fmt.Sprintf("(%s, %s)", coqfmt.Str(pp.Group), coqfmt.Str(pp.Pattern)))
			continue
		}
		var fl []string
		var names []string
		for k := range pp.Floors {
			names = append(names, k)
		}
		sort.Strings(names)
		for _, k := range names {
			fl = append(fl, fmt.Sprintf("(%s, %d)", coqfmt.Str(k), pp.Floors[k]))
		}
		items = append(items, fmt.Sprintf("{| pe_group := %s; pe_line := %d%%Z; pe_pattern := %s; pe_template := %s;\n     pe_pat := %s;\n     pe_tpl := %s;\n     pe_floor := [%s] |}",
			coqfmt.Str(pp.Group), pp.Line, coqfmt.Str(pp.Pattern), coqfmt.Str(pp.Template), pp.Pat, pp.Tpl, strings.Join(fl, "; ")))
	}
	src := "(* GENERATED by vh gen prectable from rulesdata.PrecompiledRules — do not edit *)\nFrom GC Require Import Base Model_Prec.\n" +
		fmt.Sprintf("Definition prec_table : list prec_entry := [\n  %s\n].\n", strings.Join(items, ";\n  ")) +
		fmt.Sprintf("(* pairs the translator could not parse (statement forms outside go/parser's reach) *)\nDefinition prec_unparsed : list (string * string) := [%s].\n", strings.Join(skipped, "; "))
	common.WriteFile(filepath.Join(outDir, "PrecTable.v"), src)
	return nil
}

// templateSensitive reports whether rendering the template can depend on precedence at all: its root is an operator
// or a bare placeholder, or a placeholder stands in an operand position (generator filter for the quick tier; the
// judgement is the oracle's and the Coq table's).
func templateSensitive(tpl string) bool {
	fset := token.NewFileSet()
	n, isStmt, err := parseCode(fset, mangle(tpl))
	if err != nil || isStmt {
		return false
	}
	switch r := n.(type) {
	case *ast.BinaryExpr, *ast.UnaryExpr, *ast.StarExpr:
		return true
	case *ast.Ident:
		if _, ok := holeName(r); ok {
			return true
		}
	}
	sens := false
	isHole := func(e ast.Expr) bool { _, ok := holeName(e); return ok }
	ast.Inspect(n, func(x ast.Node) bool {
		switch y := x.(type) {
		case *ast.SelectorExpr:
			sens = sens || isHole(y.X)
		case *ast.CallExpr:
			sens = sens || isHole(y.Fun)
		case *ast.IndexExpr:
			sens = sens || isHole(y.X)
		case *ast.SliceExpr:
			sens = sens || isHole(y.X)
		case *ast.TypeAssertExpr:
			sens = sens || isHole(y.X)
		case *ast.UnaryExpr:
			sens = sens || isHole(y.X)
		case *ast.StarExpr:
			sens = sens || isHole(y.X)
		case *ast.BinaryExpr:
			sens = sens || isHole(y.X) || isHole(y.Y)
		}
		return !sens
	})
	return sens
}
