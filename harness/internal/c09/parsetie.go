package c09

// Tie of Model_PrecParse (the precedence-climbing parser the C09 precedence theorems end in) to go/parser: random
// expression texts — operators of every level, unary operators, selectors, calls, index, type assertion and composite
// literal suffixes, redundant and necessary parentheses, and the rendered fixes of the unsafe template pairs — are
// tokenised with go/scanner and parsed with go/parser; Coq runs the model parser on the same tokens and compares trees.

import (
	"fmt"
	"go/ast"
	"go/parser"
	"go/scanner"
	"go/token"
	"path/filepath"
	"strings"

	"verifharness/internal/common"
	"verifharness/internal/coqfmt"
)

var (
	ptAtoms  = []string{"a", "b", "c", "x", "y", "p", "1", "2", `"s"`, "f", "g"}
	ptBinops = []string{"||", "&&", "==", "!=", "<", "<=", ">", ">=", "+", "-", "|", "^", "*", "/", "%", "<<", ">>", "&", "&^"}
	ptUnops  = []string{"+", "-", "!", "^", "*", "&", "<-"}
)

type intner interface{ Intn(int) int }

func genExprText(rng intner, depth int) string {
	if depth <= 0 {
		return ptAtoms[rng.Intn(len(ptAtoms))]
	}
	switch rng.Intn(12) {
	case 0, 1:
		return ptAtoms[rng.Intn(len(ptAtoms))]
	case 2:
		return "( " + genExprText(rng, depth-1) + " )"
	case 3:
		return ptUnops[rng.Intn(len(ptUnops))] + " " + genExprText(rng, depth-1)
	case 4, 5, 6, 7:
		return genExprText(rng, depth-1) + " " + ptBinops[rng.Intn(len(ptBinops))] + " " + genExprText(rng, depth-1)
	case 8:
		return genExprText(rng, depth-1) + " . fld"
	case 9:
		n := rng.Intn(3)
		var args []string
		for i := 0; i < n; i++ {
			args = append(args, genExprText(rng, depth-2))
		}
		return genExprText(rng, depth-1) + " ( " + strings.Join(args, " , ") + " )"
	case 10:
		if rng.Intn(2) == 0 {
			return genExprText(rng, depth-1) + " [ " + genExprText(rng, depth-2) + " ]"
		}
		return genExprText(rng, depth-1) + " . ( T )"
	default:
		n := rng.Intn(3)
		var args []string
		for i := 0; i < n; i++ {
			args = append(args, genExprText(rng, depth-2))
		}
		return "T { " + strings.Join(args, " , ") + " }"
	}
}

// scanTokens returns go/scanner's tokens as the model's token strings (". (" of a type assertion is one token there).
func scanTokens(src string) ([]string, bool) {
	fset := token.NewFileSet()
	file := fset.AddFile("e.go", fset.Base(), len(src))
	var s scanner.Scanner
	bad := false
	s.Init(file, []byte(src), func(token.Position, string) { bad = true }, 0)
	var out []string
	for {
		_, tok, lit := s.Scan()
		if tok == token.EOF {
			break
		}
		if tok == token.SEMICOLON && lit == "\n" {
			continue
		}
		t := tok.String()
		if tok.IsLiteral() {
			t = lit
		}
		if t == "(" && len(out) > 0 && out[len(out)-1] == "." {
			out[len(out)-1] = ".("
			continue
		}
		out = append(out, t)
	}
	return out, !bad
}

// parseTieCases writes cases_c09_parse_*.v and returns the number of cases.
func parseTieCases(meta *common.Meta, outDir string, rng intner, tier string) int {
	n := 600
	if tier == "thorough" {
		n = 6000
	}
	texts := []string{
		// the rendered fixes of the unsafe pairs and their intended forms
		"* p . String ( )", "( * p ) . String ( )", "a + b [ 1 ]", "( a + b ) [ 1 ]", "& x . v", "( & x ) . v", "<- ch . v", "( <- ch ) . v",
		"* pw . WriteString ( s )", "a + g + b [ 0 ]", "- a * b", "- ( a * b )", "a - b - c", "a - ( b - c )", "a == b == c", "! a == b", "a || b && c == d + e * f",
		"T { } . f ( ) [ 0 ] . ( T )", "f ( ) ( ) ( a , b )", "a . b . c . d", "* * p", "& T { 1 , 2 }", "a &^ b & c", "a << 1 + 2", "( ( a ) )",
	}
	for len(texts) < n {
		texts = append(texts, genExprText(rng, 2+rng.Intn(4)))
	}
	var lines, idx []string
	depthHist := map[int]int{}
	skipped := 0
	for _, src := range texts {
		fset := token.NewFileSet()
		e, err := parser.ParseExprFrom(fset, "e.go", src, 0)
		toks, ok := scanTokens(src)
		if err != nil || !ok {
			skipped++
			continue
		}
		c := &precConv{fset: fset, floors: map[string]int{}}
		tree := c.expr(e)
		if strings.Contains(tree, "ESeq") { // shapes outside the parser model's fragment
			skipped++
			continue
		}
		var ts []string
		for _, t := range toks {
			ts = append(ts, coqfmt.Str(t))
		}
		lines = append(lines, fmt.Sprintf("  ([%s], %s)", strings.Join(ts, "; "), tree))
		idx = append(idx, src)
		depthHist[len(toks)/8]++
	}
	shards := 2
	if tier == "thorough" {
		shards = 8
	}
	for s := 0; s < shards; s++ {
		var ls, is []string
		for i := s; i < len(lines); i += shards {
			ls = append(ls, lines[i])
			is = append(is, idx[i])
		}
		fn := fmt.Sprintf("cases_c09_parse_%d", s)
		common.WriteFile(filepath.Join(outDir, fn+".v"), "From GC Require Import Base Model_Prec Model_PrecParse.\nDefinition case_ok := parse_case_ok.\nDefinition cases : list (list string * ex) := [\n"+
			strings.Join(ls, ";\n")+"\n].\nDefinition M := Eval vm_compute in mismatches case_ok cases.\nPrint M.\n")
		common.WriteFile(filepath.Join(outDir, fn+".index.txt"), strings.Join(is, "\n")+"\n")
		meta.CaseFiles = append(meta.CaseFiles, fn+".v")
	}
	meta.Distribution["parser_tie_cases"] = len(lines)
	meta.Distribution["parser_tie_skipped"] = skipped
	meta.Distribution["parser_tie_tokens_div8_histogram"] = depthHist
	return len(lines)
}

// underefTieCases: every underef diagnostic on a selector expression — the dereferenced operand as a model tree, the
// field, and the tokens of the suggestion the checker printed — compared in Coq with Model_PrecParse.underef_sel_text.
func underefTieCases(meta *common.Meta, outDir string, dirs []string) int {
	var lines, idx []string
	re := quoteRules["underef"]
	for _, dir := range dirs {
		env, err := loadDir(dir, nil)
		if err != nil || env.errs > 0 {
			continue
		}
		for _, fd := range env.run(map[string]bool{"underef": true}) {
			m := re.FindStringSubmatch(fd.w.Text)
			if m == nil {
				continue
			}
			for _, f := range env.files {
				if env.fset.Position(f.Pos()).Filename != fd.file {
					continue
				}
				ast.Inspect(f, func(n ast.Node) bool {
					sel, ok := n.(*ast.SelectorExpr)
					if !ok || sel.Pos() != fd.w.Pos {
						return true
					}
					par, ok := sel.X.(*ast.ParenExpr)
					if !ok {
						return true
					}
					star, ok := par.X.(*ast.StarExpr)
					if !ok {
						return true
					}
					c := &precConv{fset: env.fset, floors: map[string]int{}}
					tree := c.expr(star.X)
					toks, okT := scanTokens(m[2])
					if strings.Contains(tree, "ESeq") || !okT {
						return false
					}
					var ts []string
					for _, t := range toks {
						ts = append(ts, coqfmt.Str(t))
					}
					lines = append(lines, fmt.Sprintf("  (%s, %s, [%s])", tree, coqfmt.Str(sel.Sel.Name), strings.Join(ts, "; ")))
					idx = append(idx, fd.w.Text)
					return false
				})
			}
		}
	}
	fn := "cases_c09_underef"
	common.WriteFile(filepath.Join(outDir, fn+".v"), "From GC Require Import Base Model_Prec Model_PrecParse.\nDefinition case_ok := underef_case_ok.\nDefinition cases : list (ex * string * list string) := [\n"+
		strings.Join(lines, ";\n")+"\n].\nDefinition M := Eval vm_compute in mismatches case_ok cases.\nPrint M.\n")
	common.WriteFile(filepath.Join(outDir, fn+".index.txt"), strings.Join(idx, "\n")+"\n")
	meta.CaseFiles = append(meta.CaseFiles, fn+".v")
	meta.Distribution["underef_tie_cases"] = len(lines)
	return len(lines)
}
