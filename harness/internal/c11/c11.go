// Package c11: regexpSimplify — correspondence cases for Model_Regex / Model_RegexSimplify and an
// implementation-level oracle that compiles both sides of every proposed rewrite with Go's regexp.
package c11

import (
	"fmt"
	"go/ast"
	"go/constant"
	"go/importer"
	"go/parser"
	"go/token"
	"go/types"
	"os"
	"path/filepath"
	"regexp"
	rsyntax "regexp/syntax"
	"sort"
	"strconv"
	"strings"
	"sync"
	"time"
	"unicode/utf8"

	_ "github.com/go-critic/go-critic/checkers"
	"github.com/go-critic/go-critic/linter"
	"github.com/quasilyte/regex/syntax"

	"verifharness/internal/common"
	"verifharness/internal/coqfmt"
)

const checkerName = "regexpSimplify"

// ---------------------------------------------------------------------------------------------
// running the real checker through the public API

func checkerInfo() *linter.CheckerInfo {
	for _, info := range linter.GetCheckersInfo() {
		if info.Name == checkerName {
			return info
		}
	}
	return nil
}

type runner struct {
	imp types.Importer
	// fast path: one type-checked file whose constant is replaced per call
	fset *token.FileSet
	file *ast.File
	info *types.Info
	pkg  *types.Package
	arg  ast.Expr
	ctx  *linter.Context
	chk  *linter.Checker
}

func newRunner() (*runner, error) {
	r := &runner{imp: importer.ForCompiler(token.NewFileSet(), "source", nil)}
	fset, f, info, pkg, err := r.typecheck([]string{"x"})
	if err != nil {
		return nil, err
	}
	r.fset, r.file, r.info, r.pkg = fset, f, info, pkg
	ast.Inspect(f, func(n ast.Node) bool {
		if call, ok := n.(*ast.CallExpr); ok && len(call.Args) == 1 {
			r.arg = call.Args[0]
		}
		return true
	})
	r.ctx = linter.NewContext(fset, types.SizesFor("gc", "amd64"))
	r.ctx.SetPackageInfo(info, pkg)
	r.chk, err = linter.NewChecker(r.ctx, checkerInfo())
	if err != nil {
		return nil, err
	}
	return r, nil
}

const firstLine = 6

// every entry point of package regexp that takes a pattern (QuoteMeta: takes text that is not a pattern)
type callKind struct {
	name  string
	stmt  string // statement with one %s for the quoted pattern
	posix bool   // the site compiles with POSIX syntax and leftmost-longest semantics
}

var callKinds = []callKind{
	{"regexp.Compile", "_, _ = regexp.Compile(%s)", false},
	{"regexp.MustCompile", "_ = regexp.MustCompile(%s)", false},
	{"regexp.CompilePOSIX", "_, _ = regexp.CompilePOSIX(%s)", true},
	{"regexp.MustCompilePOSIX", "_ = regexp.MustCompilePOSIX(%s)", true},
	{"regexp.Match", "_, _ = regexp.Match(%s, nil)", false},
	{"regexp.MatchString", "_, _ = regexp.MatchString(%s, \"\")", false},
	{"regexp.MatchReader", "_, _ = regexp.MatchReader(%s, nil)", false},
	{"regexp.QuoteMeta", "_ = regexp.QuoteMeta(%s)", false},
}

const kindMustCompile = 1

func (r *runner) typecheck(pats []string, kinds ...int) (*token.FileSet, *ast.File, *types.Info, *types.Package, error) {
	var b strings.Builder
	b.WriteString("package p\n\nimport \"regexp\"\n\nfunc f() {\n")
	for i, p := range pats {
		k := kindMustCompile
		if i < len(kinds) {
			k = kinds[i]
		}
		b.WriteString("\t" + fmt.Sprintf(callKinds[k].stmt, strconv.Quote(p)) + "\n")
	}
	b.WriteString("}\n")
	fset := token.NewFileSet()
	f, err := parser.ParseFile(fset, "p.go", b.String(), parser.ParseComments)
	if err != nil {
		return nil, nil, nil, nil, err
	}
	info := &types.Info{
		Types:      map[ast.Expr]types.TypeAndValue{},
		Defs:       map[*ast.Ident]types.Object{},
		Uses:       map[*ast.Ident]types.Object{},
		Selections: map[*ast.SelectorExpr]*types.Selection{},
		Implicits:  map[ast.Node]types.Object{},
		Scopes:     map[ast.Node]*types.Scope{},
	}
	conf := types.Config{Importer: r.imp}
	pkg, err := conf.Check("p", fset, []*ast.File{f}, info)
	if err != nil {
		return nil, nil, nil, nil, err
	}
	return fset, f, info, pkg, nil
}

func parseWarn(text, pat string) (string, bool) {
	prefix := "can re-write `" + pat + "` as `"
	if !strings.HasPrefix(text, prefix) || !strings.HasSuffix(text, "`") || len(text) < len(prefix)+1 {
		return "", false
	}
	return text[len(prefix) : len(text)-1], true
}

// batch: a generated Go file with one regexp.MustCompile(<pattern>) per line, parsed and type-checked
// for real, a fresh checker, Check. Returns the proposed rewrite per pattern ("" = no diagnostic).
func (r *runner) batch(pats []string) ([]string, error) { return r.batchKinds(pats, nil) }

// batchKinds: the same with the pattern placed at the given kind of call site per line.
func (r *runner) batchKinds(pats []string, kinds []int) ([]string, error) {
	out := make([]string, len(pats))
	const chunk = 1500
	for lo := 0; lo < len(pats); lo += chunk {
		hi := lo + chunk
		if hi > len(pats) {
			hi = len(pats)
		}
		var ks []int
		if kinds != nil {
			ks = kinds[lo:hi]
		}
		fset, f, info, pkg, err := r.typecheck(pats[lo:hi], ks...)
		if err != nil {
			return nil, err
		}
		ctx := linter.NewContext(fset, types.SizesFor("gc", "amd64"))
		ctx.SetPackageInfo(info, pkg)
		c, err := linter.NewChecker(ctx, checkerInfo())
		if err != nil {
			return nil, err
		}
		ctx.SetFileInfo("p.go", f)
		for _, w := range c.Check(f) {
			idx := fset.Position(w.Pos).Line - firstLine + lo
			if idx < lo || idx >= hi {
				return nil, fmt.Errorf("warning at unexpected line: %s", w.Text)
			}
			rw, ok := parseWarn(w.Text, pats[idx])
			if !ok {
				return nil, fmt.Errorf("unexpected warning text %q for %q", w.Text, pats[idx])
			}
			if out[idx] != "" {
				return nil, fmt.Errorf("two warnings for %q", pats[idx])
			}
			out[idx] = rw
		}
	}
	return out, nil
}

// one: same public API, but the constant recorded by go/types for the single call argument is replaced
// instead of re-checking a file (used for shrinking, thousands of calls).
func (r *runner) one(pat string) string {
	r.info.Types[r.arg] = types.TypeAndValue{Type: types.Typ[types.String], Value: constant.MakeString(pat)}
	r.ctx.SetPackageInfo(r.info, r.pkg)
	r.ctx.SetFileInfo("p.go", r.file)
	// a fresh checker instance: the pattern is analysed alone, nothing analysed before can influence it
	chk, err := linter.NewChecker(r.ctx, checkerInfo())
	if err != nil {
		chk = r.chk
	}
	for _, w := range chk.Check(r.file) {
		if rw, ok := parseWarn(w.Text, pat); ok {
			return rw
		}
	}
	return ""
}

// ---------------------------------------------------------------------------------------------
// dumping the parser's tree as a Coq term

func dumpTree(e syntax.Expr) string {
	var b strings.Builder
	var rec func(e syntax.Expr)
	rec = func(e syntax.Expr) {
		b.WriteString("X Op")
		b.WriteString(e.Op.String())
		b.WriteString(" ")
		b.WriteString(coqfmt.Str(e.Value))
		b.WriteString(" [")
		for i, a := range e.Args {
			if i > 0 {
				b.WriteString("; ")
			}
			rec(a)
		}
		b.WriteString("]")
	}
	rec(e)
	return "(" + b.String() + ")"
}

func parseTree(p *syntax.Parser, pat string) (string, bool) {
	re, err := p.Parse(pat)
	if err != nil {
		return "", false
	}
	return dumpTree(re.Expr), true
}

func optTree(p *syntax.Parser, pat string) string {
	t, ok := parseTree(p, pat)
	if !ok {
		return "None"
	}
	return "(Some " + t + ")"
}

// ---------------------------------------------------------------------------------------------
// Coq round trip: pass-1 text of the model for every tree (the third-party parser then supplies the
// tree of that text, which is an input of the model's second pass)

func verifRoot() string {
	return filepath.Dir(filepath.Dir(common.BinDir()))
}

func coqArgs() []string {
	root := verifRoot()
	return []string{"-Q", filepath.Join(root, "coq", "theories"), "GC", "-Q", filepath.Join(root, "coq", "gen"), "GCgen",
		"-w", "-notation-overridden,-deprecated-hint-without-locality"}
}

// modelPass1 runs the model on chunks (a single Coq list literal of tens of thousands of trees overflows coqc's parser).
func modelPass1(trees []string, pairs [][2]string, outDir string) ([]string, []bool, []int, error) {
	const chunk = 400
	type res struct {
		r   []string
		c   []bool
		f   []int
		err error
	}
	nChunks := (len(trees) + chunk - 1) / chunk
	if pc := (len(pairs) + chunk - 1) / chunk; pc > nChunks {
		nChunks = pc
	}
	if nChunks == 0 {
		nChunks = 1
	}
	out := make([]res, nChunks)
	sem := make(chan struct{}, 12)
	done := make(chan int, nChunks)
	cut := func(n, k int) (int, int) {
		lo, hi := k*chunk, (k+1)*chunk
		if lo > n {
			lo = n
		}
		if hi > n {
			hi = n
		}
		return lo, hi
	}
	for k := 0; k < nChunks; k++ {
		go func(k int) {
			sem <- struct{}{}
			tl, th := cut(len(trees), k)
			pl, ph := cut(len(pairs), k)
			r, c, f, err := modelPass1Chunk(trees[tl:th], pairs[pl:ph], outDir, k)
			out[k] = res{r, c, f, err}
			<-sem
			done <- k
		}(k)
	}
	for k := 0; k < nChunks; k++ {
		<-done
	}
	var rs []string
	var cs []bool
	var fs []int
	for k := 0; k < nChunks; k++ {
		if out[k].err != nil {
			return nil, nil, nil, out[k].err
		}
		rs = append(rs, out[k].r...)
		fs = append(fs, out[k].f...)
	}
	for k := 0; k < nChunks; k++ {
		cs = append(cs, out[k].c...)
	}
	return rs, cs, fs, nil
}

// the earlier, narrower theorem's hypotheses are evaluated in the thorough tier only (before/after comparison)
var plainPred = "false"

func modelPass1Chunk(trees []string, pairs [][2]string, outDir string, k int) ([]string, []bool, []int, error) {
	var b strings.Builder
	b.WriteString("From GC Require Import Base Model_Regex Model_RegexSimplify Proofs_RegexSimplify Proofs_RegexWalk Proofs_RegexWalkS Model_RegexText Model_RegexParse.\n")
	b.WriteString("Definition trees : list sx := [\n")
	b.WriteString(strings.Join(trees, ";\n"))
	b.WriteString("\n].\nDefinition R := Eval vm_compute in map (fun t => str_bytes (simplify1 t)) trees.\nPrint R.\n")
	b.WriteString("Definition FRAG := Eval vm_compute in map (fun t => ((if " + plainPred + " then 1 else 0) + (if pass_ok t then 2 else 0))%N) trees.\nPrint FRAG.\nDefinition TT := Eval vm_compute in fold_left N.add (map text_tie_count trees) 0%N.\nPrint TT.\nDefinition PT := Eval vm_compute in fold_left N.add (map (fun t => if N.eqb (parse_tie (print t) t) 1 then 1%N else 0%N) trees) 0%N.\nPrint PT.\n")
	b.WriteString("Definition pairs : list (sx * sx) := [\n")
	for i, pr := range pairs {
		if i > 0 {
			b.WriteString(";\n")
		}
		b.WriteString("(" + pr[0] + ", " + pr[1] + ")")
	}
	b.WriteString("\n].\nDefinition CERT := Eval vm_compute in map (fun p => if same_meaning (fst p) (snd p) then 1%N else 0%N) pairs.\nPrint CERT.\n")
	path := filepath.Join(outDir, fmt.Sprintf("round1_c11_%d.v", k))
	common.WriteFile(path, b.String())
	args := append([]string{"600", "coqc"}, coqArgs()...)
	out, code, err := common.Run(700*time.Second, outDir, os.Environ(), "timeout", append(args, path)...)
	if err != nil || code != 0 {
		return nil, nil, nil, fmt.Errorf("coqc round 1 failed (%v, rc=%d): %s", err, code, tailStr(out, 800))
	}
	i := strings.Index(out, "R =")
	ci := strings.Index(out, "CERT =")
	if i < 0 || ci < i {
		return nil, nil, nil, fmt.Errorf("round 1: no result: %s", tailStr(out, 400))
	}
	var cert []bool
	for _, ch := range out[ci+6:] {
		if ch == '0' || ch == '1' {
			cert = append(cert, ch == '1')
		}
		if ch == ':' {
			break
		}
	}
	if len(cert) != len(pairs) {
		return nil, nil, nil, fmt.Errorf("round 1: %d certificates for %d pairs", len(cert), len(pairs))
	}
	fi := strings.Index(out, "FRAG =")
	if fi < i || fi > ci {
		return nil, nil, nil, fmt.Errorf("round 1: no FRAG result: %s", tailStr(out, 400))
	}
	var frag []int
	for _, ch := range out[fi+6 : ci] {
		if ch >= '0' && ch <= '3' {
			frag = append(frag, int(ch-'0'))
		}
		if ch == ':' {
			break
		}
	}
	if len(frag) != len(trees) {
		return nil, nil, nil, fmt.Errorf("round 1: %d fragment flags for %d trees", len(frag), len(trees))
	}
	if m := rePT.FindStringSubmatch(out); m != nil {
		n, _ := strconv.Atoi(m[1])
		textTieMu.Lock()
		parseTieTrees += n
		textTieMu.Unlock()
	}
	if m := reTT.FindStringSubmatch(out); m != nil {
		n, _ := strconv.Atoi(m[1])
		textTieMu.Lock()
		textTieNodes += n
		textTieMu.Unlock()
	}
	s := out[i+3 : fi]
	if j := strings.LastIndex(s, ":"); j >= 0 {
		s = s[:j]
	}
	// nested list of numbers
	var res []string
	depth := 0
	var cur []byte
	num := -1
	flush := func() {
		if num >= 0 {
			cur = append(cur, byte(num))
			num = -1
		}
	}
	for k := 0; k < len(s); k++ {
		ch := s[k]
		switch {
		case ch == '[':
			depth++
			if depth == 2 {
				cur = cur[:0]
			}
		case ch == ']':
			flush()
			if depth == 2 {
				res = append(res, string(cur))
			}
			depth--
		case ch >= '0' && ch <= '9':
			if depth == 2 {
				if num < 0 {
					num = 0
				}
				num = num*10 + int(ch-'0')
			}
		case ch == '%':
			flush()
			// skip scope delimiter %N
			for k+1 < len(s) && (s[k+1] >= 'A' && s[k+1] <= 'Z' || s[k+1] >= 'a' && s[k+1] <= 'z') {
				k++
			}
		default:
			flush()
		}
	}
	if len(res) != len(trees) {
		return nil, nil, nil, fmt.Errorf("round 1: %d results for %d trees", len(res), len(trees))
	}
	return res, cert, frag, nil
}

// modelFinal: final_ok (hypothesis of C11_simplify_final_sound_partial) for (tree of the pattern, optional tree
// of the first pass's text), evaluated by the kernel in parallel chunks.
func modelFinal(ins [][3]string, outDir string) ([]int, error) {
	const chunk = 250
	nChunks := (len(ins) + chunk - 1) / chunk
	res := make([][]int, nChunks)
	errs := make([]error, nChunks)
	sem := make(chan struct{}, 8)
	done := make(chan int, nChunks)
	for k := 0; k < nChunks; k++ {
		go func(k int) {
			sem <- struct{}{}
			defer func() { <-sem; done <- k }()
			lo, hi := k*chunk, (k+1)*chunk
			if hi > len(ins) {
				hi = len(ins)
			}
			var b strings.Builder
			b.WriteString("From GC Require Import Base Model_Regex Model_RegexSimplify Proofs_RegexSimplify Proofs_RegexWalk Proofs_RegexWalkS Model_RegexText Proofs_RegexText Model_RegexParse Proofs_RegexParse.\n")
			b.WriteString("Definition ins : list (sx * option sx * option sx) := [\n")
			for i, in := range ins[lo:hi] {
				if i > 0 {
					b.WriteString(";\n")
				}
				b.WriteString("(" + in[0] + ", " + in[1] + ", " + in[2] + ")")
			}
			b.WriteString("\n].\nDefinition FIN := Eval vm_compute in map (fun p => let '(t1, t2, t3) := p in ((if final_ok t1 t2 then 1 else 0) + (if text_guards_ok (final_tree t1 t2) then 2 else 0) + (match t3 with Some t => if same_meaning t1 t then 4 else 0 | None => 0 end))%N) ins.\nPrint FIN.\nDefinition TOP := Eval vm_compute in map (fun p => let '(t1, t2, t3) := p in if tree_text_ok (final_tree t1 t2) then 1%N else 0%N) ins.\nPrint TOP.\n")
			path := filepath.Join(outDir, fmt.Sprintf("round2_c11_%d.v", k))
			common.WriteFile(path, b.String())
			args := append([]string{"600", "coqc"}, coqArgs()...)
			out, code, err := common.Run(700*time.Second, outDir, os.Environ(), "timeout", append(args, path)...)
			if err != nil || code != 0 {
				errs[k] = fmt.Errorf("coqc round 2 failed (%v, rc=%d): %s", err, code, tailStr(out, 800))
				return
			}
			fi := strings.Index(out, "FIN =")
			if fi < 0 {
				errs[k] = fmt.Errorf("round 2: no result: %s", tailStr(out, 400))
				return
			}
			fiEnd := strings.Index(out[fi:], "TOP =")
			if fiEnd < 0 {
				fiEnd = len(out) - fi
			}
			for _, ch := range out[fi+5 : fi+fiEnd] {
				if ch >= '0' && ch <= '7' {
					res[k] = append(res[k], int(ch-'0'))
				}
				if ch == ':' {
					break
				}
			}
			if len(res[k]) != hi-lo {
				errs[k] = fmt.Errorf("round 2: %d flags for %d inputs", len(res[k]), hi-lo)
				return
			}
			// tree_text_ok of the final tree: bit 3
			ti := strings.Index(out, "TOP =")
			if ti < 0 {
				errs[k] = fmt.Errorf("round 2: no TOP result: %s", tailStr(out, 400))
				return
			}
			j := 0
			for _, ch := range out[ti+5:] {
				if ch == '0' || ch == '1' {
					if j < len(res[k]) && ch == '1' {
						res[k][j] |= 8
					}
					j++
				}
				if ch == ':' {
					break
				}
			}
			if j != hi-lo {
				errs[k] = fmt.Errorf("round 2: %d TOP flags for %d inputs", j, hi-lo)
			}
		}(k)
	}
	for k := 0; k < nChunks; k++ {
		<-done
	}
	var all []int
	for k := 0; k < nChunks; k++ {
		if errs[k] != nil {
			return nil, errs[k]
		}
		all = append(all, res[k]...)
	}
	return all, nil
}

var (
	reTT         = regexp.MustCompile(`TT = (\d+)`)
	rePT         = regexp.MustCompile(`PT = (\d+)`)
	parseTieTrees int
	textTieMu    sync.Mutex
	textTieNodes int
)

func tailStr(s string, n int) string {
	if len(s) > n {
		return s[len(s)-n:]
	}
	return s
}

// ---------------------------------------------------------------------------------------------
// subjects and the regexp-level comparison (oracle; never consults the model)

const foreignRune = '世'

func patternAlphabet(pats ...string) []rune {
	seen := map[rune]bool{}
	var out []rune
	add := func(r rune) {
		if !seen[r] && r != utf8.RuneError {
			seen[r] = true
			out = append(out, r)
		}
	}
	for _, p := range pats {
		rs := []rune(p)
		for i, r := range rs {
			add(r)
			if r == '-' && i > 0 && i+1 < len(rs) {
				// something between the neighbours of a dash (a range the text may or may not denote)
				if lo, hi := rs[i-1], rs[i+1]; lo+1 < hi {
					add(lo + 1)
				}
			}
			if r == '\\' && i+1 < len(rs) {
				switch rs[i+1] {
				case 'd', 'D':
					add('0')
				case 'w', 'W':
					add('_')
				case 's', 'S':
					add(' ')
					add('\t')
				case 't':
					add('\t')
				case 'n':
					add('\n')
				case '0':
					add(0)
					add(1)
				}
			}
		}
		if strings.Contains(p, "(?") && strings.ContainsAny(p, "ikKsS") {
			for _, r := range p {
				if r >= 'a' && r <= 'z' {
					add(r - 32)
				}
			}
		}
	}
	return out
}

var specials = []rune{foreignRune, '\n', '\v'}

// literalAlphabet: the runes a pattern is about, read off Go's own parse tree (literals, bounds and
// neighbours of class ranges), in order of appearance
func literalAlphabet(pats ...string) []rune {
	seen := map[rune]bool{}
	var out []rune
	add := func(r rune) {
		if r >= 0 && r <= 0x10FFFF && !seen[r] && utf8.ValidRune(r) {
			seen[r] = true
			out = append(out, r)
		}
	}
	var walk func(re *rsyntax.Regexp)
	walk = func(re *rsyntax.Regexp) {
		switch re.Op {
		case rsyntax.OpLiteral:
			for _, r := range re.Rune {
				add(r)
			}
		case rsyntax.OpCharClass:
			for i := 0; i+1 < len(re.Rune) && i < 12; i += 2 {
				lo, hi := re.Rune[i], re.Rune[i+1]
				if lo > 0 {
					add(lo)
				}
				if hi < 0x10FFFF {
					add(hi)
				}
				if lo+1 < hi && lo > 0 {
					add(lo + 1)
				}
			}
		}
		for _, sub := range re.Sub {
			walk(sub)
		}
	}
	for _, p := range pats {
		if re, err := rsyntax.Parse(p, rsyntax.Perl); err == nil {
			walk(re)
		}
	}
	return out
}

type subjectSet struct {
	alpha []rune
	list  []string
}

func allStrings(alpha []rune, maxLen int, emit func(string) bool) bool {
	buf := make([]rune, 0, maxLen)
	var rec func(n int) bool
	rec = func(n int) bool {
		if !emit(string(buf)) {
			return false
		}
		if n == maxLen {
			return true
		}
		for _, r := range alpha {
			buf = append(buf, r)
			if !rec(n + 1) {
				return false
			}
			buf = buf[:len(buf)-1]
		}
		return true
	}
	return rec(0)
}

type diff struct {
	Kind    string      `json:"kind"` // compile | numsubexp | names | match
	Subject string      `json:"subject"`
	Before  interface{} `json:"before"`
	After   interface{} `json:"after"`
}

func eqInts(a, b []int) bool {
	if len(a) != len(b) {
		return false
	}
	for i := range a {
		if a[i] != b[i] {
			return false
		}
	}
	return true
}

func eqStrs(a, b []string) bool {
	if len(a) != len(b) {
		return false
	}
	for i := range a {
		if a[i] != b[i] {
			return false
		}
	}
	return true
}

// compareRegexps: both sides compiled with Go's regexp; NumSubexp, SubexpNames, and
// FindStringSubmatchIndex on every subject of length <= maxLen over the alphabet. first: subjects to try first.
func compareRegexps(before, after string, maxLen int, budget int, rng interface{ Intn(int) int }, first []string) (*diff, int) {
	return compareRegexpsAt(regexp.Compile, before, after, maxLen, budget, rng, first)
}

// compareRegexpsAt: both sides compiled with the constructor of the call site (regexp.Compile or
// regexp.CompilePOSIX, which also switches to leftmost-longest matching).
func compareRegexpsAt(compile func(string) (*regexp.Regexp, error), before, after string, maxLen int, budget int, rng interface{ Intn(int) int }, first []string) (*diff, int) {
	re1, err := compile(before)
	if err != nil {
		return nil, 0
	}
	re2, err := compile(after)
	if err != nil {
		return &diff{Kind: "compile", Before: "compiles", After: err.Error()}, 0
	}
	if re1.NumSubexp() != re2.NumSubexp() {
		return &diff{Kind: "numsubexp", Before: re1.NumSubexp(), After: re2.NumSubexp()}, 0
	}
	if !eqStrs(re1.SubexpNames(), re2.SubexpNames()) {
		return &diff{Kind: "names", Before: re1.SubexpNames(), After: re2.SubexpNames()}, 0
	}
	n := 0
	var d *diff
	try := func(s string) bool {
		n++
		a, b := re1.FindStringSubmatchIndex(s), re2.FindStringSubmatchIndex(s)
		if !eqInts(a, b) {
			d = &diff{Kind: "match", Subject: s, Before: a, After: b}
			return false
		}
		return true
	}
	for _, s := range first {
		if !try(s) {
			return d, n
		}
	}
	size := func(k, l int) int {
		t, p := 0, 1
		for i := 0; i <= l; i++ {
			t += p
			p *= k
		}
		return t
	}
	// first: exhaustively over the runes the two expressions are about
	{
		sem := literalAlphabet(before, after)
		if len(sem) > 8 {
			sem = sem[:8]
		}
		for _, r := range specials {
			dup := false
			for _, x := range sem {
				dup = dup || x == r
			}
			if !dup {
				sem = append(sem, r)
			}
		}
		l := maxLen
		for l > 1 && size(len(sem), l) > budget {
			l--
		}
		if !allStrings(sem, l, try) {
			return d, n
		}
	}
	alpha := append(patternAlphabet(before, after), specials...)
	// dedupe specials
	{
		seen := map[rune]bool{}
		var a2 []rune
		for _, r := range alpha {
			if !seen[r] {
				seen[r] = true
				a2 = append(a2, r)
			}
		}
		alpha = a2
	}
	if size(len(alpha), maxLen) <= budget {
		allStrings(alpha, maxLen, try)
		return d, n
	}
	// large alphabet: all short strings over the full alphabet, all strings up to maxLen over random
	// sub-alphabets that always contain the specials, then random longer strings
	l := maxLen
	for l > 1 && size(len(alpha), l) > budget/3 {
		l--
	}
	if !allStrings(alpha, l, try) {
		return d, n
	}
	for round := 0; round < 3; round++ {
		sub := append([]rune(nil), specials...)
		perm := make([]int, len(alpha))
		for i := range perm {
			perm[i] = i
		}
		for i := len(perm) - 1; i > 0; i-- {
			j := rng.Intn(i + 1)
			perm[i], perm[j] = perm[j], perm[i]
		}
		for _, i := range perm {
			if len(sub) >= 6 {
				break
			}
			dup := false
			for _, r := range sub {
				if r == alpha[i] {
					dup = true
				}
			}
			if !dup {
				sub = append(sub, alpha[i])
			}
		}
		if !allStrings(sub, maxLen, try) {
			return d, n
		}
	}
	for i := 0; i < budget/4; i++ {
		ln := 1 + rng.Intn(maxLen+3)
		rs := make([]rune, ln)
		for j := range rs {
			rs[j] = alpha[rng.Intn(len(alpha))]
		}
		if !try(string(rs)) {
			return d, n
		}
	}
	return d, n
}

// ---------------------------------------------------------------------------------------------
// shrinking and defect classes (computed from the shrunk witness)

func (r *runner) shrink(pat string, d *diff, maxLen int, rng interface{ Intn(int) int }) (string, string, *diff) {
	cur, curRw, curD := pat, r.one(pat), d
	still := func(p string) (string, *diff) {
		if !utf8.ValidString(p) {
			return "", nil
		}
		if _, err := regexp.Compile(p); err != nil {
			return "", nil
		}
		rw := r.one(p)
		if rw == "" {
			return "", nil
		}
		var first []string
		if curD.Kind == "match" {
			first = []string{curD.Subject}
		}
		nd, _ := compareRegexps(p, rw, maxLen, 1500, rng, first)
		if nd == nil || nd.Kind != curD.Kind {
			return "", nil
		}
		return rw, nd
	}
	for round := 0; round < 3; round++ {
		before := len(cur)
		for span := len(cur) / 2; span >= 1; span /= 2 {
			for i := 0; i+span <= len(cur); {
				cand := cur[:i] + cur[i+span:]
				if rw, nd := still(cand); nd != nil {
					cur, curRw, curD = cand, rw, nd
				} else {
					i++
				}
			}
		}
		if len(cur) == before {
			break
		}
	}
	// shrink the subject as well
	if curD.Kind == "match" {
		re1, re2 := regexp.MustCompile(cur), regexp.MustCompile(curRw)
		s := []rune(curD.Subject)
		for i := 0; i < len(s); {
			c := append(append([]rune(nil), s[:i]...), s[i+1:]...)
			a, b := re1.FindStringSubmatchIndex(string(c)), re2.FindStringSubmatchIndex(string(c))
			if !eqInts(a, b) {
				s = c
				curD = &diff{Kind: "match", Subject: string(c), Before: a, After: b}
			} else {
				i++
			}
		}
	}
	return cur, curRw, curD
}

var (
	reNonGreedyDrop   = regexp.MustCompile(`\{[01]\}\?`)
	reBraceDigits     = regexp.MustCompile(`\{[0-9]+(,[0-9]*)?\}`)
	rePosixSpace      = regexp.MustCompile(`\[\^?\[:\^?space:\]\]`)
	reOctalJoin       = regexp.MustCompile(`\\[0-7]{1,2}(\(\?:[0-7]\)|\[[0-7]\]|\{1\}[0-7]|.\{0\}[0-7])`)
	reUngreedyOn      = regexp.MustCompile(`\(\?[imsU]*U[imsU-]*[:)]`)
	reLitAlt          = regexp.MustCompile(`([^|()\[\\*+?.^$]+)\|([^|()\[\\*+?.^$]+)`)
	reEscapedInBraces = regexp.MustCompile(`\{[0-9]+\\,[0-9]*\}`)
	reUnwrapRepeat    = regexp.MustCompile(`(\[\{\]|\(\?:\{\))[0-9]|\{[0-9]+(\[,\]|\(\?:,\))|\{[0-9]+,?[0-9]*(\[\}\]|\(\?:\}\))|\{[0-9,]*(\[[0-9]\]|\(\?:[0-9]\))|\{[0-9,]*\{[01]\}[0-9,]*\}`)
	reFlagGroup       = regexp.MustCompile(`\(\?[imsU-]+:`)
	reFlagOnlyQuant   = regexp.MustCompile(`\(\?[imsU-]*\)([*+?]|\{[0-9])`)
	reDashRange       = regexp.MustCompile(`\[.*(.--|--.|.-.-.).*\]`)
)

var reOneCharWrap = regexp.MustCompile(`\(\?:([a-zA-Z0-9 ])\)|\[([a-zA-Z0-9 ])\]`)

var reSingleRuneAlt = regexp.MustCompile(`(?:^|\(|\(\?[a-zA-Z-]*:|\(\?P?<[^>]*>)((?:[^|()\\]\|)+[^|()\\])(?:\)|$)`)

// singleRuneAlt: the branches of some x|y|z with one rune per branch (whole pattern or a whole group)
func singleRuneAlt(p string) [][]string {
	var out [][]string
	for _, m := range reSingleRuneAlt.FindAllStringSubmatch(p, -1) {
		out = append(out, strings.Split(m[1], "|"))
	}
	return out
}

// classify: a stable defect-class name from a shrunk (pattern, rewrite, difference).
// Mechanisms recognisable from the pattern come first, whatever the observable damage is.
func classify(pat, rw string, d *diff) string {
	has := strings.Contains
	switch {
	case reFlagGroup.MatchString(pat) && !reFlagGroup.MatchString(rw):
		return "flag-group-loses-question-mark"
	case reNonGreedyDrop.MatchString(pat):
		return "nongreedy-over-dropped-repeat"
	case reFlagOnlyQuant.MatchString(pat):
		return "quantifier-after-flag-group"
	case has(rw, "|?") && !has(pat, "|?"):
		return "empty-alt-branch-factored"
	}
	for _, parts := range singleRuneAlt(pat) {
		for i, x := range parts {
			if x == "]" && i > 0 {
				return "alt-to-class-bracket"
			}
		}
		for i, x := range parts {
			if x == "-" && i > 0 && i < len(parts)-1 {
				return "alt-to-class-dash"
			}
		}
	}
	switch {
	case reOctalJoin.MatchString(pat):
		return "unwrap-joins-octal-escape"
	case reEscapedInBraces.MatchString(pat):
		return "escape-removal-creates-repeat"
	case has(pat, `[\:`):
		return "escape-removal-creates-posix-class"
	case reUnwrapRepeat.MatchString(pat):
		return "unwrap-creates-repeat"
	case reDashRange.MatchString(pat):
		return "range-enumeration-creates-range"
	}
	switch d.Kind {
	case "compile":
		return "rewrite-does-not-compile"
	case "numsubexp", "names":
		switch {
		case has(pat, "{0}") || has(pat, "{0,0}"):
			return "capture-under-zero-repeat"
		case has(pat, ")*") && has(rw, ")+"):
			return "capture-in-merged-group"
		case reBraceDigits.MatchString(rw) && strings.Count(pat, "(?:") >= 2:
			return "capture-in-folded-group"
		}
		return "capture-count-other"
	}
	switch {
	case rePosixSpace.MatchString(pat) && (has(rw, `\s`) || has(rw, `\S`)) && has(d.Subject, "\v"):
		return "posix-space-class"
	case has(pat, "[][]") && has(rw, `\]\[`):
		return "class-brackets-to-two-runes"
	}
	if d.Kind == "match" && reUngreedyOn.MatchString(pat) && strings.Count(rw, "|") < strings.Count(pat, "|") && has(rw, "?") {
		return "alt-factoring-under-ungreedy-flag"
	}
	if d.Kind == "match" && has(pat, ")*") && has(rw, ")+") {
		return "merge-of-nullable-group"
	}
	if d.Kind == "match" && hasFoldFlag(pat) && strings.Count(rw, "|") < strings.Count(pat, "|") {
		for _, m := range reLitAlt.FindAllStringSubmatch(pat, -1) {
			// x|hx under (?i): the second branch is one rune followed by (a suffix of what precedes the bar =) the first branch
			rs := []rune(m[1])
			for k := 0; k+2 <= len(rs); k++ {
				a := string(rs[k:])
				if strings.HasSuffix(m[2], a) && utf8.RuneCountInString(m[2]) == len(rs)-k+1 && !strings.HasPrefix(m[2], a) {
					return "alt-suffix-factoring-under-fold-flag"
				}
			}
		}
	}
	// what the first pass makes of the pattern before the second pass factors it: `x{1}` => x, `(?:x)` => x, `[x]` => x
	litPat := reOneCharWrap.ReplaceAllString(strings.ReplaceAll(pat, "{1}", ""), "$1$2")
	for _, m := range reLitAlt.FindAllStringSubmatch(litPat, -1) {
		// the first branch is a suffix of m[1] (group syntax such as "i:" or "<q>" may precede it)
		rs := []rune(m[1])
		for k := 0; k+2 <= len(rs); k++ {
			a := string(rs[k:])
			if d.Kind == "match" && strings.HasPrefix(m[2], a) && utf8.RuneCountInString(m[2]) == len(rs)-k+1 {
				return "alt-prefix-order"
			}
		}
	}
	return "unclassified"
}

// ---------------------------------------------------------------------------------------------

// repMinOpen: minimum of a {n}, {n,}, {n,m} text and whether it has no upper bound
func repMinOpen(rep string) (int, bool) {
	body := strings.TrimSuffix(strings.TrimPrefix(rep, "{"), "}")
	parts := strings.SplitN(body, ",", 2)
	n, _ := strconv.Atoi(parts[0])
	return n, len(parts) == 2 && parts[1] == ""
}

// nullable: the expression can match the empty string (as the model's elaboration sees it)
func nullable(e syntax.Expr) bool {
	switch e.Op {
	case syntax.OpConcat:
		for _, a := range e.Args {
			if !nullable(a) {
				return false
			}
		}
		return true
	case syntax.OpAlt:
		for _, a := range e.Args {
			if nullable(a) {
				return true
			}
		}
		return false
	case syntax.OpCaret, syntax.OpDollar, syntax.OpStar, syntax.OpQuestion, syntax.OpFlagOnlyGroup:
		return true
	case syntax.OpEscapeChar:
		switch e.Value {
		case `\A`, `\z`, `\b`, `\B`:
			return true
		}
		return false
	case syntax.OpQuote:
		return len(e.Args) > 0 && e.Args[0].Value == ""
	case syntax.OpPlus, syntax.OpNonGreedy, syntax.OpCapture, syntax.OpNamedCapture, syntax.OpGroup, syntax.OpGroupWithFlags:
		return nullable(e.Args[0])
	case syntax.OpRepeat:
		n, _ := repMinOpen(e.Args[1].Value)
		return n == 0 || nullable(e.Args[0])
	}
	return false
}

// loopsConsume: no loop whose body can match the empty string (outside: Go's never-revisit rule decides,
// which a priority search does not model)
func loopsConsume(e syntax.Expr) bool {
	for _, a := range e.Args {
		if !loopsConsume(a) {
			return false
		}
	}
	switch e.Op {
	case syntax.OpStar, syntax.OpPlus:
		return !nullable(e.Args[0])
	case syntax.OpRepeat:
		if _, open := repMinOpen(e.Args[1].Value); open {
			return !nullable(e.Args[0])
		}
	}
	return true
}

// `[\,-x]`: Go reads a range, the third-party parser three items
var reEscapedRangeBound = regexp.MustCompile(`\\[^0-9xX|*+?.\[\]^$()\\-]-[^\]]`)

var reZeroPadded = regexp.MustCompile(`\{(0[0-9]+(,[0-9]*)?|[0-9]+,0[0-9]+)\}`)

var reQuantNothing = regexp.MustCompile(`\(\?[a-zA-Z-]*\)[*+?{]`)

func supportedByModel(p string) bool {
	if strings.Contains(p, `\p`) || strings.Contains(p, `\P`) || strings.Contains(p, `\C`) {
		return false
	}
	// `{007}`: Go reads literal text (no leading zeros in a count), the checker's parser a repeat
	if reZeroPadded.MatchString(p) {
		return false
	}
	// the two parsers disagree: an operator after a flag group / empty group, a posix class as a range bound
	if reQuantNothing.MatchString(p) || strings.Contains(p, "-[:") || reEscapedRangeBound.MatchString(p) {
		return false
	}
	if strings.Contains(p, "(?") {
		// case folding is modelled for ASCII (plus the Kelvin sign and the long s) only
		for _, r := range p {
			if r >= 0x80 {
				return !strings.ContainsAny(p, "i") || !hasFoldFlag(p)
			}
		}
	}
	return true
}

var reFoldFlag = regexp.MustCompile(`\(\?[a-zA-Z]*i`)

func hasFoldFlag(p string) bool { return reFoldFlag.MatchString(p) }

func zlist(v []int) string {
	if v == nil {
		return "None"
	}
	items := make([]string, len(v))
	for i, x := range v {
		if x < 0 {
			items[i] = fmt.Sprintf("(%d)", x)
		} else {
			items[i] = fmt.Sprint(x)
		}
	}
	return "(Some [" + strings.Join(items, "; ") + "]%Z)"
}

// Run produces the correspondence cases and runs the oracle.
func Run(tier string, seed int64, outDir string) *common.Meta {
	meta := &common.Meta{Property: "C11", Distribution: map[string]interface{}{}, CaseFiles: []string{}}
	thorough := tier == "thorough"
	textTieNodes = 0
	parseTieTrees = 0
	plainPred = "false"
	if thorough || os.Getenv("VERIF_C11_BEFORE") != "" {
		plainPred = "in_fragment t && avoids_defects t"
	}
	phaseT := time.Now()
	phases := map[string]float64{}
	meta.Distribution["harness_phase_seconds"] = phases
	mark := func(name string) {
		phases[name] = float64(int(time.Since(phaseT).Seconds()*10)) / 10
		phaseT = time.Now()
	}
	r, err := newRunner()
	if err != nil {
		meta.TieBroken = append(meta.TieBroken, "cannot build a checker context: "+err.Error())
		return meta
	}
	qp := syntax.NewParser(&syntax.ParserOptions{NoLiterals: true})

	// 1. patterns
	pats, srcOf, dist := generatePatterns(tier, seed)
	meta.Distribution["patterns_by_stream"] = dist
	meta.Distribution["patterns"] = len(pats)
	meta.Distribution["patterns_reaching_each_rule"] = lastRuleHits
	meta.Distribution["rules_and_guards_tracked"] = len(ruleInstances)
	if lastRulesBelowQuota == nil {
		lastRulesBelowQuota = []string{}
	}
	meta.Distribution["rules_below_quota"] = lastRulesBelowQuota

	// 2. the real checker
	rewrites, err := r.batch(pats)
	if err != nil {
		meta.TieBroken = append(meta.TieBroken, "running the checker: "+err.Error())
		return meta
	}
	mark("generate+checker_batch")
	// 2b. every other entry point of package regexp, on a sample of the patterns
	type siteObs struct {
		idx, kind int
		rw        string
	}
	var sites []siteObs
	{
		var sp []string
		var sk, si []int
		for i, p := range pats {
			if srcOf[i] != "testdata" && srcOf[i] != "corpus" && i%8 != 0 {
				continue
			}
			for k := range callKinds {
				if k == kindMustCompile {
					continue
				}
				sp, sk, si = append(sp, p), append(sk, k), append(si, i)
			}
		}
		srw, err := r.batchKinds(sp, sk)
		if err != nil {
			meta.TieBroken = append(meta.TieBroken, "running the checker at the other call sites: "+err.Error())
			return meta
		}
		for j := range sp {
			sites = append(sites, siteObs{si[j], sk[j], srw[j]})
		}
	}
	reacting := map[int]bool{}
	for i := range pats {
		if rewrites[i] != "" {
			reacting[kindMustCompile] = true
		}
	}
	for _, so := range sites {
		if so.rw != "" {
			reacting[so.kind] = true
		}
	}
	var reactingNames []string
	for k, ck := range callKinds {
		if reacting[k] {
			reactingNames = append(reactingNames, ck.name)
		}
	}
	meta.Distribution["call_kinds_with_diagnostics"] = reactingNames
	meta.Distribution["call_site_runs"] = len(sites)
	mark("other_call_sites")
	// 2c. the rewrite is a function of the pattern: what one checker instance reports for a pattern inside a
	// file full of other patterns must be what a fresh instance reports for that pattern alone
	alone := make([]string, len(pats))
	dependent := 0
	for i, p := range pats {
		alone[i] = r.one(p)
		if alone[i] == rewrites[i] {
			continue
		}
		dependent++
		// the earlier pattern of the same file with the longest common prefix: the likely source of the interference
		best, bestLen := -1, -1
		for j := i - 1; j >= 0 && j >= i-1500; j-- {
			n := 0
			for n < len(p) && n < len(pats[j]) && p[n] == pats[j][n] {
				n++
			}
			if n > bestLen {
				best, bestLen = j, n
			}
		}
		w := map[string]interface{}{"pattern": p, "reported_in_batch": rewrites[i], "reported_alone": alone[i], "stream": srcOf[i]}
		if best >= 0 {
			w["earlier_pattern_sharing_longest_prefix"] = pats[best]
			w["common_prefix_bytes"] = bestLen
		}
		meta.Fail("C11/"+checkerName+"/result-depends-on-other-patterns",
			fmt.Sprintf("regexpSimplify reports %q for `%s` when it is analysed after other patterns in the same file, and %q when it is analysed alone", rewrites[i], p, alone[i]), w)
	}
	meta.Distribution["patterns_whose_result_depends_on_the_batch"] = dependent

	mark("each_pattern_alone")
	// 3. trees, model pass 1 (Coq), trees of pass-1 texts
	trees := make([]string, len(pats))
	parsed := make([]bool, len(pats))
	var round1 []string
	var round1Idx []int
	for i, p := range pats {
		trees[i], parsed[i] = parseTree(qp, p)
		if parsed[i] {
			round1 = append(round1, trees[i])
			round1Idx = append(round1Idx, i)
		}
	}
	// certificate pairs: (tree of the pattern, tree of the final rewrite as the real parser reads it)
	var pairs [][2]string
	var pairIdx []int
	tree3 := make([]string, len(pats))
	for i := range pats {
		if rewrites[i] == "" || !parsed[i] {
			continue
		}
		if t3, ok := parseTree(qp, rewrites[i]); ok {
			tree3[i] = t3
			pairs = append(pairs, [2]string{trees[i], t3})
			pairIdx = append(pairIdx, i)
		}
	}
	pass1, _, frags, err := modelPass1(round1, nil, outDir)
	if err != nil {
		meta.TieBroken = append(meta.TieBroken, err.Error())
		return meta
	}
	c1 := make([]string, len(pats))
	for k, i := range round1Idx {
		c1[i] = pass1[k]
	}
	certified := make([]bool, len(pats))
	_, _ = pairs, pairIdx
	inFrag := make([]bool, len(pats))
	nFrag, nFragRw, nPlain, nPlainRw := 0, 0, 0, 0
	for k, i := range round1Idx {
		inFrag[i] = frags[k]&2 != 0
		if inFrag[i] {
			nFrag++
			if rewrites[i] != "" {
				nFragRw++
			}
		}
		if frags[k]&1 != 0 {
			nPlain++
			if rewrites[i] != "" {
				nPlainRw++
			}
		}
	}
	meta.Distribution["patterns_covered_by_fragment_theorem"] = nFrag
	meta.Distribution["class_nodes_and_literal_runs_reparsed_by_text_model"] = textTieNodes
	meta.Distribution["pattern_trees_reproduced_by_the_parse_model_from_their_text"] = parseTieTrees
	meta.Distribution["pattern_trees_total"] = len(round1)
	meta.Distribution["rewrites_covered_by_fragment_theorem_pass1"] = nFragRw
	if plainPred != "false" {
		meta.Distribution["patterns_covered_by_the_earlier_capture_free_flag_free_theorem"] = nPlain
		meta.Distribution["rewrites_covered_by_the_earlier_capture_free_flag_free_theorem_pass1"] = nPlainRw
	}
	// the FINAL rewrite (two-pass driver): hypothesis of C11_simplify_final_sound_partial
	t2of := make([]string, len(pats))
	finalCov := make([]bool, len(pats))
	textOK := make([]bool, len(pats))
	topOK := make([]bool, len(pats))
	{
		var ins [][3]string
		var insIdx []int
		for i := range pats {
			if !parsed[i] || c1[i] == "" {
				continue
			}
			t2of[i] = optTree(qp, c1[i])
			t3 := "None"
			if tree3[i] != "" {
				t3 = "(Some " + tree3[i] + ")"
			}
			ins = append(ins, [3]string{trees[i], t2of[i], t3})
			insIdx = append(insIdx, i)
		}
		fin, err := modelFinal(ins, outDir)
		if err != nil {
			meta.TieBroken = append(meta.TieBroken, err.Error())
			return meta
		}
		nFin, nText, nBoth, nCert, nTop := 0, 0, 0, 0, 0
		for k, i := range insIdx {
			finalCov[i] = fin[k]&1 != 0
			textOK[i] = fin[k]&2 != 0
			certified[i] = fin[k]&4 != 0
			topOK[i] = fin[k]&8 != 0
			if rewrites[i] != "" && finalCov[i] && topOK[i] {
				nTop++
			}
			if certified[i] {
				nCert++
			}
			if rewrites[i] == "" {
				continue
			}
			if finalCov[i] {
				nFin++
			}
			if textOK[i] {
				nText++
			}
			if finalCov[i] && textOK[i] {
				nBoth++
			}
		}
		meta.Distribution["rewrites_whose_final_text_tree_is_covered_by_final_theorem"] = nFin
		meta.Distribution["rewrites_whose_final_tree_satisfies_the_text_roundtrip_guards"] = nText
		meta.Distribution["rewrites_inside_both_theorem_domains"] = nBoth
		meta.Distribution["rewrites_under_the_printed_rewrite_theorem"] = nTop
		meta.Distribution["rewrites_certified_equivalent_by_kernel"] = nCert
	}

	mark("coq_round1+round2")
	// 4. simplifier cases
	hdr := `From GC Require Import Base Model_Regex Model_RegexSimplify Proofs_RegexSimplify Proofs_RegexWalk Proofs_RegexWalkS Model_RegexText Model_RegexParse.
Record case := { k_pat : string; k_tree : option sx; k_c1 : string; k_tree2 : option sx; k_obs : option string;
                 k_tree3 : option sx; k_cert : bool; k_frag : bool; k_fin : bool; k_call : string }.
Definition ostr_eqb (a b : option string) : bool :=
  match a, b with Some x, Some y => String.eqb x y | None, None => true | _, _ => false end.
Definition case_ok (k : case) : bool :=
  (* the checker reacts at the Perl-dialect constructors only; the rewrite does not depend on which of them *)
  if negb (reacts (k_call k)) then match k_obs k with None => true | Some _ => false end else
  match k_tree k with
  | None => match k_obs k with None => true | Some _ => false end
  | Some t =>
      String.eqb (print t) (k_pat k)                                   (* the dump is the tree of this text *)
      && text_tie_ok t                   (* Model_RegexText reads every class / literal run of the tree back from its Value *)
      && match k_tree2 k with Some t2 => text_tie_ok t2 | None => true end
      (* Model_RegexParse (whole patterns): lexing and parsing the text reproduces the dumped tree, for the pattern, the
         first-pass text and the final rewrite *)
      && negb (N.eqb (parse_tie (k_pat k) t) 2)
      && match k_tree2 k with Some t2 => negb (N.eqb (parse_tie (k_c1 k) t2) 2) | None => true end
      && match k_tree3 k, k_obs k with Some t3, Some rw => negb (N.eqb (parse_tie rw t3) 2) | _, _ => true end
      && String.eqb (simplify1 t) (k_c1 k)                              (* pass 1 as used for k_tree2 *)
      (* that the tree version of the walker prints the text version is a theorem: C11_walk_text_is_print_of_tree *)
      && ostr_eqb (simplify2 (k_pat k) t (fun s => if String.eqb s (k_c1 k) then k_tree2 k else None)) (k_obs k)
      (* the certificate used with C11_same_meaning_sound: pattern tree vs tree of the final rewrite *)
      && Bool.eqb (match k_tree3 k with Some t3 => same_meaning t t3 | None => false end) (k_cert k)
      (* hypotheses of C11_simplify_sound_partial; where they hold and the certificate can be computed, it agrees *)
      && Bool.eqb (pass_ok t) (k_frag k)
      (* hypothesis of C11_simplify_final_sound_partial, for the tree whose text is the final rewrite *)
      && (if String.eqb (k_c1 k) "" then true else Bool.eqb (final_ok t (k_tree2 k)) (k_fin k))
  end.
Definition cases : list case := [
`
	shards := 8
	if thorough {
		shards = 20
	}
	bodies := make([][]string, shards)
	idx := make([][]string, shards)
	nRewrites, nTwoPass := 0, 0
	caseLine := make([][2]string, len(pats))
	for i, p := range pats {
		t := "None"
		if parsed[i] {
			t = "(Some " + trees[i] + ")"
		}
		t2 := "None"
		if c1[i] != "" {
			t2 = t2of[i]
			if t2 == "" {
				t2 = optTree(qp, c1[i])
			}
		}
		obs := "None"
		if rewrites[i] != "" {
			obs = "(Some " + coqfmt.Str(rewrites[i]) + ")"
			nRewrites++
			if c1[i] != "" && c1[i] != rewrites[i] {
				nTwoPass++
			}
		}
		sh := i % shards
		t3 := "None"
		if tree3[i] != "" {
			t3 = "(Some " + tree3[i] + ")"
		}
		bodies[sh] = append(bodies[sh], fmt.Sprintf("  {| k_pat := %s; k_tree := %s; k_c1 := %s; k_tree2 := %s; k_obs := %s; k_tree3 := %s; k_cert := %s; k_frag := %s; k_fin := %s; k_call := %s |}",
			coqfmt.Str(p), t, coqfmt.Str(c1[i]), t2, obs, t3, coqfmt.Bool(certified[i]), coqfmt.Bool(inFrag[i]), coqfmt.Bool(finalCov[i]), coqfmt.Str(callKinds[kindMustCompile].name)))
		caseLine[i] = [2]string{fmt.Sprintf("  {| k_pat := %s; k_tree := %s; k_c1 := %s; k_tree2 := %s; k_obs := ", coqfmt.Str(p), t, coqfmt.Str(c1[i]), t2),
			fmt.Sprintf("; k_tree3 := %s; k_cert := %s; k_frag := %s; k_fin := %s; k_call := ", t3, coqfmt.Bool(certified[i]), coqfmt.Bool(inFrag[i]), coqfmt.Bool(finalCov[i]))}
		idx[sh] = append(idx[sh], fmt.Sprintf("%s: %q => %q", srcOf[i], p, rewrites[i]))
		if rewrites[i] != "" && i%211 == 0 {
			meta.AddSample(map[string]interface{}{"pattern": p, "rewrite": rewrites[i], "model_pass1": c1[i], "stream": srcOf[i]})
		}
	}
	// the other call sites: full data where the rewrite must be the same (regexp.Compile), the observation alone elsewhere
	for j, so := range sites {
		obs := "None"
		if so.rw != "" {
			obs = "(Some " + coqfmt.Str(so.rw) + ")"
		}
		var line string
		if callKinds[so.kind].name == "regexp.Compile" || so.rw != "" {
			if so.rw != rewrites[so.idx] && so.rw != "" {
				// a different rewrite than at MustCompile: the certificate fields do not apply; compare the text only
				line = fmt.Sprintf("  {| k_pat := %s; k_tree := None; k_c1 := \"\"; k_tree2 := None; k_obs := %s; k_tree3 := None; k_cert := false; k_frag := false; k_fin := false; k_call := %s |}",
					coqfmt.Str(pats[so.idx]), obs, coqfmt.Str(callKinds[so.kind].name))
			} else {
				line = caseLine[so.idx][0] + obs + caseLine[so.idx][1] + coqfmt.Str(callKinds[so.kind].name) + " |}"
			}
		} else {
			line = fmt.Sprintf("  {| k_pat := %s; k_tree := None; k_c1 := \"\"; k_tree2 := None; k_obs := None; k_tree3 := None; k_cert := false; k_frag := false; k_fin := false; k_call := %s |}",
				coqfmt.Str(pats[so.idx]), coqfmt.Str(callKinds[so.kind].name))
		}
		sh := j % shards
		bodies[sh] = append(bodies[sh], line)
		idx[sh] = append(idx[sh], fmt.Sprintf("%s at %s: %q => %q", srcOf[so.idx], callKinds[so.kind].name, pats[so.idx], so.rw))
	}
	// the set of call kinds with at least one diagnostic against the model's list
	{
		body := "From GC Require Import Base Model_Regex Model_RegexSimplify.\nDefinition cases : list (list string) := [" + coqfmt.StrList(reactingNames) + "].\n" +
			"Definition case_ok (obs : list string) : bool := list_eqb String.eqb obs reacting_calls.\n" +
			"Definition M := Eval vm_compute in mismatches case_ok cases.\nPrint M.\n"
		common.WriteFile(filepath.Join(outDir, "cases_c11_calls.v"), body)
		common.WriteFile(filepath.Join(outDir, "cases_c11_calls.index.txt"), "call kinds with diagnostics: "+strings.Join(reactingNames, ", ")+"\n")
		meta.CaseFiles = append(meta.CaseFiles, "cases_c11_calls.v")
	}
	for sh := 0; sh < shards; sh++ {
		name := fmt.Sprintf("cases_c11_simp_%d", sh)
		common.WriteFile(filepath.Join(outDir, name+".v"), hdr+strings.Join(bodies[sh], ";\n")+"\n].\nDefinition M := Eval vm_compute in mismatches case_ok cases.\nPrint M.\n")
		common.WriteFile(filepath.Join(outDir, name+".index.txt"), strings.Join(idx[sh], "\n")+"\n")
		meta.CaseFiles = append(meta.CaseFiles, name+".v")
	}
	meta.Distribution["rewrites_proposed"] = nRewrites
	meta.Distribution["rewrites_needing_second_pass"] = nTwoPass

	mark("write_simplifier_cases")
	// 5. semantics cases: model matcher vs regexp.FindStringSubmatchIndex
	rng := common.NewRand(seed, "c11-subjects")
	semHdr := `From GC Require Import Base Model_Regex.
Record case := { k_tree : sx; k_supported : bool; k_ngroups : nat; k_names : list string;
                 k_runs : list (string * option (list Z)) }.
Definition oz_eqb (a b : option (list Z)) : bool :=
  match a, b with Some x, Some y => list_eqb Z.eqb x y | None, None => true | _, _ => false end.
Definition case_ok (k : case) : bool :=
  if negb (k_supported k) then true else
  match den_top (k_tree k) with
  | None => false
  | Some (r, n, names) =>
      loops_ok r &&                                    (* inside the domain where the model claims to be exact *)
      Nat.eqb n (k_ngroups k) && list_eqb String.eqb names (k_names k)
      && forallb (fun sr => oz_eqb (go_vec n (find r (decode_runes (fst sr)))) (snd sr)) (k_runs k)
  end.
Definition cases : list case := [
`
	type semPat struct{ p, why string }
	var sems []semPat
	seenSem := map[string]bool{}
	addSem := func(p, why string) {
		if p == "" || seenSem[p] {
			return
		}
		if _, err := regexp.Compile(p); err != nil {
			return
		}
		if _, ok := parseTree(qp, p); !ok {
			return
		}
		seenSem[p] = true
		sems = append(sems, semPat{p, why})
	}
	semStep := 3
	if thorough {
		semStep = 1
	}
	for i, p := range pats {
		if rewrites[i] != "" || i%semStep == 0 || srcOf[i] == "testdata" || srcOf[i] == "corpus" {
			addSem(p, srcOf[i])
			addSem(rewrites[i], "rewrite")
			addSem(c1[i], "pass1")
		}
	}
	maxSem := 2400
	if thorough {
		maxSem = 24000
	}
	if len(sems) > maxSem {
		sems = sems[:maxSem]
	}
	semShards := 6
	if thorough {
		semShards = 20
	}
	semBodies := make([][]string, semShards)
	semIdx := make([][]string, semShards)
	semRuns, semUnsupported, semLoops := 0, 0, 0
	for i, sp := range sems {
		re := regexp.MustCompile(sp.p)
		alpha := append(patternAlphabet(sp.p), specials...)
		if hasFoldFlag(sp.p) {
			alpha = append(alpha, 'K', 0x17f)
		}
		var subjects []string
		subjects = append(subjects, "")
		for _, a := range alpha {
			subjects = append(subjects, string(a))
		}
		nRand := 10
		if len(subjects) > 12 {
			subjects = subjects[:12]
		}
		for j := 0; j < nRand; j++ {
			ln := 2 + rng.Intn(5)
			rs := make([]rune, ln)
			for k := range rs {
				rs[k] = alpha[rng.Intn(len(alpha))]
			}
			subjects = append(subjects, string(rs))
		}
		var runs []string
		for _, s := range subjects {
			runs = append(runs, fmt.Sprintf("(%s, %s)", coqfmt.Str(s), zlist(re.FindStringSubmatchIndex(s))))
		}
		tree, _ := parseTree(qp, sp.p)
		sup := supportedByModel(sp.p)
		if re2, err := qp.Parse(sp.p); err == nil && !loopsConsume(re2.Expr) {
			sup = false
			semLoops++
		}
		if !sup {
			semUnsupported++
		}
		semRuns += len(runs)
		names := re.SubexpNames()[1:]
		sh := i % semShards
		semBodies[sh] = append(semBodies[sh], fmt.Sprintf("  {| k_tree := %s; k_supported := %s; k_ngroups := %d; k_names := %s; k_runs := [%s] |}",
			tree, coqfmt.Bool(sup), re.NumSubexp(), coqfmt.StrList(names), strings.Join(runs, "; ")))
		semIdx[sh] = append(semIdx[sh], fmt.Sprintf("%s: %q", sp.why, sp.p))
	}
	for sh := 0; sh < semShards; sh++ {
		name := fmt.Sprintf("cases_c11_sem_%d", sh)
		common.WriteFile(filepath.Join(outDir, name+".v"), semHdr+strings.Join(semBodies[sh], ";\n")+"\n].\nDefinition M := Eval vm_compute in mismatches case_ok cases.\nPrint M.\n")
		common.WriteFile(filepath.Join(outDir, name+".index.txt"), strings.Join(semIdx[sh], "\n")+"\n")
		meta.CaseFiles = append(meta.CaseFiles, name+".v")
	}
	meta.Distribution["semantics_patterns"] = len(sems)
	meta.Distribution["semantics_runs"] = semRuns
	meta.Distribution["semantics_patterns_outside_model"] = semUnsupported
	meta.Distribution["semantics_patterns_with_nullable_loop_body"] = semLoops

	mark("semantics_cases")
	// 6. oracle: every proposed rewrite, both sides compiled by Go's regexp
	orng := common.NewRand(seed, "c11-oracle")
	maxLen, budget := 4, 5000
	if thorough {
		maxLen, budget = 5, 40000
	}
	subjectsTried := 0
	failing := 0
	uncertifiedClean := 0
	classCount := map[string]int{}
	coveredRefuted := map[string]int{}
	finalCoveredRefuted := map[string]int{}
	bothRefuted := map[string]int{}
	topRefuted := map[string]int{}
	outsideRefuted, outsideClean := 0, 0
	shrunkPerClass := map[string]int{}
	for i, p := range pats {
		if rewrites[i] == "" {
			continue
		}
		d, n := compareRegexps(p, rewrites[i], maxLen, budget, orng, nil)
		subjectsTried += n
		if !inFrag[i] {
			if d != nil {
				outsideRefuted++
			} else {
				outsideClean++
			}
		}
		if d == nil {
			if !certified[i] {
				uncertifiedClean++
			}
			continue
		}
		if certified[i] {
			meta.TieBroken = append(meta.TieBroken, fmt.Sprintf("the model certifies %q => %q as equivalent (kernel-evaluated certificate) but Go's regexp distinguishes them: %s", p, rewrites[i], describe(d)))
		}
		failing++
		sp, srw, sd := r.shrink(p, d, maxLen, orng)
		class := classify(sp, srw, sd)
		if class == "unclassified" {
			class = "unclassified:" + sp + "=>" + srw
		}
		classCount[class]++
		if inFrag[i] {
			// pass 1 is proved sound at tree level for this pattern: the damage must come from the text
			// (re-lexing) or from the second pass
			coveredRefuted[class]++
		}
		if finalCov[i] {
			// every pass is proved sound at tree level and each pass started from a tree meaning what the previous
			// one emitted: the damage can only be that Go reads the final TEXT differently from the final tree
			finalCoveredRefuted[class]++
			if topOK[i] {
				topRefuted[class]++
				meta.TieBroken = append(meta.TieBroken, fmt.Sprintf("%q => %q satisfies the hypotheses of C11_printed_rewrite_sound_partial, yet Go's regexp distinguishes them: %s", p, rewrites[i], describe(d)))
			}
			if textOK[i] {
				// ... and the final tree passes the guards of the text-level round-trip theorems: the text model
				// (classes, literal runs) claims nothing changes meaning by its new neighbours. A refutation here is a
				// re-lexing route the model does not know.
				bothRefuted[class]++
				meta.TieBroken = append(meta.TieBroken, fmt.Sprintf("%q => %q lies inside the tree-level theorem and the text-level guards, yet Go's regexp distinguishes them: %s", p, rewrites[i], describe(d)))
			}
		}
		if shrunkPerClass[class] < 5 {
			shrunkPerClass[class]++
			what := fmt.Sprintf("regexpSimplify rewrites `%s` as `%s`, which is not the same regular expression: %s", sp, srw, describe(sd))
			meta.Fail("C11/"+checkerName+"/"+class, what, map[string]interface{}{
				"pattern": sp, "rewrite": srw, "difference": sd, "found_in": p, "found_rewrite": rewrites[i], "stream": srcOf[i],
				"replay": "regexp.MustCompile(" + strconv.Quote(sp) + ") vs regexp.MustCompile(" + strconv.Quote(srw) + ") on FindStringSubmatchIndex(" + strconv.Quote(sd.Subject) + ")",
			})
		}
	}
	mark("oracle")
	// diagnostics at POSIX call sites are judged with that site's constructor
	posixFailures := 0
	for _, so := range sites {
		if so.rw == "" || !callKinds[so.kind].posix {
			continue
		}
		p := pats[so.idx]
		d, n := compareRegexpsAt(regexp.CompilePOSIX, p, so.rw, maxLen, budget, orng, nil)
		subjectsTried += n
		if d == nil {
			continue
		}
		posixFailures++
		meta.Fail("C11/"+checkerName+"/posix-call-site",
			fmt.Sprintf("at a %s call regexpSimplify rewrites `%s` as `%s`, which is not the same POSIX expression: %s", callKinds[so.kind].name, p, so.rw, describe(d)),
			map[string]interface{}{"pattern": p, "rewrite": so.rw, "call": callKinds[so.kind].name, "difference": d,
				"replay": callKinds[so.kind].name + "(" + strconv.Quote(p) + ") vs " + callKinds[so.kind].name + "(" + strconv.Quote(so.rw) + ")"})
	}
	meta.Distribution["oracle_failures_at_posix_call_sites"] = posixFailures
	meta.Distribution["oracle_subjects_tried"] = subjectsTried
	meta.Distribution["oracle_failing_rewrites"] = failing
	meta.Distribution["rewrites_neither_certified_nor_refuted"] = uncertifiedClean
	meta.Distribution["oracle_defect_classes"] = classCount
	meta.Distribution["oracle_refuted_although_pass1_tree_proved_sound"] = coveredRefuted
	meta.Distribution["oracle_refuted_although_final_tree_proved_sound"] = finalCoveredRefuted
	meta.Distribution["oracle_refuted_inside_both_theorem_domains"] = bothRefuted
	meta.Distribution["oracle_refuted_under_the_printed_rewrite_theorem"] = topRefuted
	meta.Distribution["rewrites_outside_one_pass_theorem_refuted_by_oracle"] = outsideRefuted
	meta.Distribution["rewrites_outside_one_pass_theorem_not_refuted"] = outsideClean
	meta.Evaluations = len(pats) + semRuns + subjectsTried
	meta.Distinct = nRewrites
	meta.Rule = "patterns: the repo's regexpSimplify testdata strings and the defect corpus first, then grammar-based (small alphabet), metacharacter-heavy, class-heavy and mutation streams, all valid UTF-8 and accepted by regexp.Compile, <= 60 bytes plus a few longer ones; each is parsed by syntax.Parser{NoLiterals:true} (tree dumped as a Coq term), run through linter.NewChecker(regexpSimplify) on a type-checked generated file, and compared in Coq with the model's two-pass result (the parser supplies the tree of the model's pass-1 text); matcher model vs regexp.FindStringSubmatchIndex on sampled (pattern, subject) pairs; oracle: both sides of every proposed rewrite compiled by regexp and compared on NumSubexp, SubexpNames and FindStringSubmatchIndex over all subjects up to length 4 (5 thorough) over the pattern's alphabet + a foreign rune, \\n, \\v. distinct_nontrivial = number of distinct patterns for which the checker proposed a rewrite"
	return meta
}

func describe(d *diff) string {
	switch d.Kind {
	case "compile":
		return fmt.Sprintf("the rewrite does not compile (%v)", d.After)
	case "numsubexp":
		return fmt.Sprintf("NumSubexp %v becomes %v", d.Before, d.After)
	case "names":
		return fmt.Sprintf("SubexpNames %v becomes %v", d.Before, d.After)
	}
	return fmt.Sprintf("on subject %q FindStringSubmatchIndex gives %v before and %v after", d.Subject, d.Before, d.After)
}

// ---------------------------------------------------------------------------------------------
// pattern streams

var corpus = []string{
	`[[:space:]]`, `[^[:space:]]`, `[[:^space:]]`, `[^[:^space:]]`, `[][]`, `http|https`, `fo|foo`, `a{1}?b`, `bx{0}?y`,
	`(a){0}b`, `a|-|c`, `a|]`, `a[{]1}`, `a{1\,2}`, `[+--x]`, `[,--x]`, `\0(?:1)`, `\0[1]`, `x{1[,]2}`, `[[\:alpha:]]`,
	`(?:(a))(?:(a))`, `(?:(a))(?:(a))*`, `a(?:{)2}`, `(?:(a)b){1}`, `(a|b){0,1}?`, `(?i)[k][K]`, `(?s).{1,}`, `(?U)a{0,}b`,
	`(|a)*`, `(|a)+`, `(a*)*b`, `(a*)+b`, `(a|b*)*c`, `(?:a*|b)*?c`, `(a??)*b`, `^a$|\bb\B`, `(?m)^a$`, `\Qa.b\E+`,
	`a{2,3}?b`, `(a){2}`, `(a)|b`, `(?P<n>a)(b)?`, `[^a]`, `[a-c]`, `[a-a]`, `[a-b]`, `x\&y`, `\.\.`, `a    b`,
	`^[0-9]+(\.[0-9]+)?$`, `[[:alpha:]][[:alnum:]]*x{0,1}`, `(a|b|c)[0-9][0-9]*`, `(?U:abc|ab)`, `(?U)xab|ab`, `aa|aaa`, `aaa|aa`, `❤❤|❤❤❤`, `xx|xxx`, `(?i:a)[b]`, `(?s:.)\.\.`, `(|a)*b{1}`, `a|`, `(?:s*?b*)(?:s*?b*)*`, `s(?i){0}`, `\0{1}0`, `[a-b-*]`, `(?:❤x|❤xb)`,
	`a{[2]}`, `a{2\,3}`, `a{(?:2)}`, `a{2{1}}`, `[a-a-z]`, `fo|fo❤`, `hb|hhb`, `(?i:hb|Hhb)`,
	`(?i:aA|aaA)`, `(?i:ab|Aab)`, `(?i:aA|aaA)x`, `(foo|fo)`, `(?P<n>xfo|fo)b{1}`, `(fo|xfo)(?:a)`, `(a)(?:b)(?:b)*`, `((a)|b{1,})[c]`, `(?i:[k]b{1,})(c)   `, `(?s:.{0,1}a)\.`, `(?i)(a|b|c)x{1}`, `(?m:^[a]$)`, `(?U:a{1,}b)`,
	`(?:a*b*)*c`, `(a*?)*b`, `(?:a?)*?b`, `((a*)+)+`, `(a*|b)+?c`, `(a??b??)*c`, `(?:(a)|b*)*c`, `(a*){2,3}b`, `(a*){2,}b`, `(a?){3}`,
	`(a|){2,}?b`, `(?:a|(b))+`, `(?:(a)|(b))*`, `(a)*?(b)??`, `(?i)k+|ſ`, `(?i)[^k]`, `(?i)\W`, `(?s).\n`, `(?m)^$`, `(?U)a+?`, `(?U:a*)a`,
	`....`, `aaaaa`, `\d\d\d`, `[ab][ab]`, `(?:ab)(?:ab)`, `[^\s]`, `[^\S]`, `[0-9]`, `[^0-9]`, `(?:a|b|c)`,
}

func testdataPatterns() []string {
	var out []string
	dir := filepath.Join(common.RepoDir, "checkers", "testdata", checkerName)
	files, _ := filepath.Glob(filepath.Join(dir, "*.go"))
	sort.Strings(files)
	for _, fn := range files {
		fset := token.NewFileSet()
		f, err := parser.ParseFile(fset, fn, nil, 0)
		if err != nil {
			continue
		}
		ast.Inspect(f, func(n ast.Node) bool {
			lit, ok := n.(*ast.BasicLit)
			if !ok || lit.Kind != token.STRING {
				return true
			}
			if s, err := strconv.Unquote(lit.Value); err == nil {
				out = append(out, s)
			}
			return true
		})
	}
	return out
}

type gen struct {
	r     interface{ Intn(int) int }
	alpha []string
}

func (g *gen) pick(l []string) string { return l[g.r.Intn(len(l))] }

var quants = []string{"*", "+", "?", "{0,1}", "{1,}", "{0,}", "{1}", "{0}", "{2}", "{1,2}", "{2,}", "{0,2}", "{3}",
	"{0,0}", "{1,1}", "{2,2}", "{2,3}", "{0,3}", "{1,3}"}
var escapes = []string{`\d`, `\w`, `\s`, `\D`, `\W`, `\S`, `\.`, `\+`, `\,`, `\:`, `\/`, `\-`, `\n`, `\t`, `\x41`, `\075`, `\0`, `\b`, `\&`, `\=`, `\<`, `\%`, `\(`, `\]`, `\[`, `\\`, `\$`, `\^`, `\{`, `\A`, `\z`, `\B`}
var classItems = []string{"a", "b", "c", "x", "-", "]", "^", "[", ":", "+", ",", ".", "{", "}", "0", "1", `\.`, `\-`, `\]`, `\d`, `\s`, `\w`, `\S`, `\n`,
	"[:space:]", "[:^space:]", "[:word:]", "[:digit:]", "[:alpha:]", "[:^digit:]", "0-9", "a-c", "a-a", "a-b", "+--", ",--", "a-z", "❤", `\:`, `\,`, "|", "*", "?", "$", "(", ")", " ",
	// ranges between multi-byte runes, with different distances between their first bytes
	"а-я", "а-в", "α-γ", "é-ë", "❤-❥", "一-三", "я", "é",
	// escapes of every kind as class items
	`\1`, `\12`, `\075`, `\0`, `\x41`, `\x{41}`, `\pL`, `\p{Lu}`, `\PL`}

// every escapable ASCII punctuation rune, escaped ('_' is a word character: not escapable)
var punctEscapes = func() []string {
	var out []string
	for r := rune(33); r < 127; r++ {
		if r == '_' || r >= '0' && r <= '9' || r >= 'A' && r <= 'Z' || r >= 'a' && r <= 'z' {
			continue
		}
		out = append(out, `\`+string(r))
	}
	return out
}()

func (g *gen) class() string {
	var b strings.Builder
	b.WriteString("[")
	if g.r.Intn(4) == 0 {
		b.WriteString("^")
	}
	n := 1 + g.r.Intn(3)
	if g.r.Intn(3) == 0 {
		n = 1
	}
	for i := 0; i < n; i++ {
		// an escaped punctuation rune at any position, the first included
		if g.r.Intn(4) == 0 {
			b.WriteString(g.pick(punctEscapes))
			continue
		}
		b.WriteString(g.pick(classItems))
	}
	b.WriteString("]")
	return b.String()
}

func (g *gen) atom(d int) string {
	switch k := g.r.Intn(26); {
	case k < 8:
		return g.pick(g.alpha)
	case k == 8:
		return "."
	case k < 11:
		return g.class()
	case k < 13:
		if g.r.Intn(3) == 0 {
			return g.pick(punctEscapes)
		}
		return g.pick(escapes)
	case k == 13 && d > 0:
		return "(" + g.re(d-1) + ")"
	case k < 16 && d > 0:
		return "(?:" + g.re(d-1) + ")"
	case k == 16 && d > 0:
		return g.pick([]string{"(?P<n>", "(?i:", "(?s:", "(?U:", "(?m:", "(?i)(?:", "(?<q>", "(?i-s:"}) + g.re(d-1) + ")"
	case k == 17:
		return g.pick([]string{"^", "$", "(?i)", "(?s)", "(?U)", "(?m)"})
	case k < 20:
		// runs: candidates for folding
		a := g.atom(0)
		n := 2 + g.r.Intn(5)
		return strings.Repeat(a, n)
	case k == 20:
		a := g.atom(d - 1)
		return a + a + "*"
	case k == 22:
		// a group around one (possibly quantified) atom, itself quantified or not
		return "(?:" + g.quantified(0) + ")"
	case k == 23:
		return "(" + g.quantified(0) + ")"
	case k == 21 && d > 0:
		a := "(?:" + g.re(d-1) + ")"
		return a + a + g.pick([]string{"", "*", a})
	default:
		return g.pick(g.alpha)
	}
}

func (g *gen) quantified(d int) string {
	a := g.atom(d)
	if g.r.Intn(3) == 0 {
		a += g.pick(quants)
		if g.r.Intn(4) == 0 {
			a += "?"
		}
	}
	return a
}

func (g *gen) concat(d int) string {
	n := 1 + g.r.Intn(4)
	var b strings.Builder
	for i := 0; i < n; i++ {
		b.WriteString(g.quantified(d))
	}
	return b.String()
}

func (g *gen) literal() string {
	n := 1 + g.r.Intn(4)
	var b strings.Builder
	for i := 0; i < n; i++ {
		b.WriteString(g.pick(g.alpha))
	}
	return b.String()
}

func (g *gen) re(d int) string {
	switch k := g.r.Intn(10); {
	case k < 5:
		return g.concat(d)
	case k == 5:
		// single characters: candidates for alt => class
		n := 2 + g.r.Intn(3)
		var parts []string
		for i := 0; i < n; i++ {
			parts = append(parts, g.pick(append(g.alpha, "-", "]", ",", "{", "^", ":", "0")))
		}
		return strings.Join(parts, "|")
	case k == 6:
		// prefix/suffix pairs
		x := g.literal()
		c := g.pick(g.alpha)
		if g.r.Intn(4) == 0 {
			// the same literal in another letter case (matters under (?i))
			x2 := strings.ToUpper(x)
			if g.r.Intn(2) == 0 {
				return x + "|" + c + x2
			}
			return x + "|" + x2 + c
		}
		switch g.r.Intn(4) {
		case 0:
			return x + "|" + x + c
		case 1:
			return x + c + "|" + x
		case 2:
			return c + x + "|" + x
		default:
			return x + "|" + c + x
		}
	default:
		n := 2 + g.r.Intn(2)
		var parts []string
		for i := 0; i < n; i++ {
			parts = append(parts, g.concat(d))
		}
		return strings.Join(parts, "|")
	}
}

var metaTokens = []string{"a", "b", "c", "-", "]", "[", "{", "}", "(", ")", "|", "*", "+", "?", ".", "^", "$", `\`, ",", ":", "0", "1", "2",
	"{1}", "{0}", "{1,2}", "{0,1}", "(?:", "[:", ":]", `\0`, `\,`, `\:`, "❤", " ", "x", "[^", "(?i)", "??", "*?", `\.`, `\]`}

var (
	lastRuleHits        map[string]int
	lastRulesBelowQuota []string
)

func generatePatterns(tier string, seed int64) ([]string, []string, map[string]int) {
	thorough := tier == "thorough"
	var pats, src []string
	seen := map[string]bool{}
	dist := map[string]int{}
	add := func(p, stream string) bool {
		if seen[p] || !utf8.ValidString(p) || len(p) > 64 {
			return false
		}
		if len(p) > 60 && stream != "long" {
			return false
		}
		if _, err := regexp.Compile(p); err != nil {
			return false
		}
		seen[p] = true
		pats = append(pats, p)
		src = append(src, stream)
		dist[stream]++
		return true
	}
	td := testdataPatterns()
	for _, p := range td {
		add(p, "testdata")
	}
	for _, p := range corpus {
		add(p, "corpus")
	}
	// cut-off: 60 bytes is analysed, 61 is not
	add(strings.Repeat("ab", 28)+"cc  ", "long")
	add(strings.Repeat("ab", 28)+"ccc  ", "long")
	add(strings.Repeat("ab", 29)+"[a]", "long")
	add(strings.Repeat("ab", 29)+"[a]b", "long")

	scale := 1
	if thorough {
		scale = 8
	}
	g := &gen{r: common.NewRand(seed, "c11-grammar"), alpha: []string{"a", "b", "c", "x", " ", "a", "b", "❤", "-", "k", "s"}}
	for n, tries := 0, 0; n < 1300*scale && tries < 40000*scale; tries++ {
		if add(g.re(2), "grammar") {
			n++
		}
	}
	mr := common.NewRand(seed, "c11-meta")
	for n, tries := 0, 0; n < 500*scale && tries < 60000*scale; tries++ {
		k := 1 + mr.Intn(7)
		var b strings.Builder
		for i := 0; i < k; i++ {
			b.WriteString(metaTokens[mr.Intn(len(metaTokens))])
		}
		if add(b.String(), "meta") {
			n++
		}
	}
	cg := &gen{r: common.NewRand(seed, "c11-class"), alpha: []string{"a", "b", "x"}}
	for n, tries := 0, 0; n < 500*scale && tries < 40000*scale; tries++ {
		p := ""
		for i, k := 0, 1+cg.r.Intn(3); i < k; i++ {
			switch cg.r.Intn(5) {
			case 0:
				p += cg.pick(cg.alpha)
			case 1:
				p += cg.pick([]string{`\0`, "{", "}", "1", ",", "|", "a{1", "x{"})
			default:
				p += cg.class()
				if cg.r.Intn(4) == 0 {
					p += cg.pick(quants)
				}
			}
		}
		if add(p, "class") {
			n++
		}
	}
	lr := common.NewRand(seed, "c11-loops")
	loopTokens := []string{"a", "b", "a", "(", ")", "(?:", ")", "|", "*", "+", "?", "*?", "+?", "??", "{2}", "{1,2}", "{2,}", "{0,1}", "c", "{1,1}", "{0,0}", "{2,2}"}
	for n, tries := 0, 0; n < 250*scale && tries < 60000*scale; tries++ {
		k := 3 + lr.Intn(7)
		var b strings.Builder
		for i := 0; i < k; i++ {
			b.WriteString(loopTokens[lr.Intn(len(loopTokens))])
		}
		if add(b.String(), "loops") {
			n++
		}
	}
	ur := common.NewRand(seed, "c11-mutate")
	base := append(append([]string(nil), td...), corpus...)
	for n, tries := 0, 0; n < 400*scale && tries < 40000*scale; tries++ {
		p := base[ur.Intn(len(base))]
		if len(p) == 0 {
			continue
		}
		switch ur.Intn(3) {
		case 0:
			i := ur.Intn(len(p) + 1)
			p = p[:i] + metaTokens[ur.Intn(len(metaTokens))] + p[i:]
		case 1:
			i := ur.Intn(len(p))
			p = p[:i] + p[i+1:]
		default:
			i := ur.Intn(len(p))
			p = p[:i] + metaTokens[ur.Intn(len(metaTokens))] + p[i+1:]
		}
		if add(p, "mutate") {
			n++
		}
	}
	// neighbourhoods in which an emitted text would read differently: a one-member class / group / {1} around an escape of
	// every kind followed by a digit or hex-digit atom, and repeats next to the atom they repeat, with counts at the limits
	// and counts Go does not accept as counts (zero-padded, signed, spaced: literal text for Go)
	{
		nr := common.NewRand(seed, "c11-neighbours")
		escs := []string{`\0`, `\1`, `\7`, `\12`, `\07`, `\123`, `\x41`, `\x4a`, `\x{41}`, `\x{4}`, `\pL`, `\p{Lu}`, `\PN`, `\-`, `\.`, `\d`, `\n`}
		after := []string{"0", "1", "3", "7", "8", "a", "F", "b", "0*", "1{2}", "7?", "[0-7]", "(?:1)", "{"}
		wrapE := []string{"[%s]", "[%s]", "(?:%s)", "%s{1}", "(?:[%s])", "[%s]{1}", "[^%s]"}
		ctx := []string{"%s", "%s", "(%s)", "(?:%s)x", "(?i:%s)", "a|%s", "^%s$", "(?P<n>%s)|b"}
		for n, tries := 0, 0; n < 70*scale && tries < 4000*scale; tries++ {
			p := fmt.Sprintf(wrapE[nr.Intn(len(wrapE))], escs[nr.Intn(len(escs))]) + after[nr.Intn(len(after))]
			p = fmt.Sprintf(ctx[nr.Intn(len(ctx))], p)
			if add(p, "neighbours") {
				n++
			}
		}
		atoms := []string{"a", "a", "[ab]", `\d`, "(?:ab)", ".", "❤", `\.`}
		counts := []string{"0", "1", "2", "3", "999", "1000", "007", "01", "00", " 7", "+7", "7 ", "-1", "1000"}
		for n, tries := 0, 0; n < 70*scale && tries < 4000*scale; tries++ {
			x := atoms[nr.Intn(len(atoms))]
			c := counts[nr.Intn(len(counts))]
			var rep string
			switch nr.Intn(4) {
			case 0:
				rep = "{" + c + "}"
			case 1:
				rep = "{" + c + ",}"
			case 2:
				rep = "{" + c + "," + counts[nr.Intn(len(counts))] + "}"
			default:
				rep = "{" + c + "}"
			}
			var p string
			switch nr.Intn(6) {
			case 0:
				p = x + rep + x + "?"
			case 1:
				p = x + x + rep
			case 2:
				p = x + rep + x + "*"
			case 3:
				p = x + rep + "?" + x + "?"
			case 4:
				p = x + rep + x + "??"
			default:
				p = x + "?" + x + rep
			}
			p = fmt.Sprintf(ctx[nr.Intn(len(ctx))], p)
			if add(p, "neighbours") {
				n++
			}
		}
	}
	// every rewrite rule (and every guard that blocks one) reached by a quota of patterns: one small instance of the
	// rule, alone and inside varying contexts (captures, flag groups, anchors, alternation, quantified neighbours)
	rp := syntax.NewParser(&syntax.ParserOptions{NoLiterals: true})
	hitsOf := func(p string) map[string]int {
		h := map[string]int{}
		if re, err := rp.Parse(p); err == nil {
			ruleHits(re.Expr, h)
		}
		return h
	}
	{
		rr := common.NewRand(seed, "c11-rules")
		quota := 6 * scale
		var names []string
		for name := range ruleInstances {
			names = append(names, name)
		}
		sort.Strings(names)
		pre := []string{"", "", "a", "^", "x", `\d`, "(b)", "(?i)", "b|", "(?:b)?", "k+?"}
		post := []string{"", "", "b", "$", "x*", `\.`, "(c)", "|b", "c??", "s{2,3}?"}
		encl := []string{"%s", "%s", "(%s)", "(?:%s)", "(?i:%s)", "(?P<n>%s)", "(?s:%s)x", "(?U:%s)", "(%s)|b", "^(?:%s)$", "(?m:^%s$)", "((%s))*?"}
		for _, name := range names {
			inst := ruleInstances[name]
			for n, tries := 0, 0; n < quota && tries < 300; tries++ {
				p := inst[rr.Intn(len(inst))]
				if tries >= len(inst) {
					p = pre[rr.Intn(len(pre))] + fmt.Sprintf(encl[rr.Intn(len(encl))], p) + post[rr.Intn(len(post))]
				} else {
					p = inst[tries]
				}
				if hitsOf(p)[name] == 0 {
					continue
				}
				if add(p, "rules") {
					n++
				}
			}
		}
	}
	// the capture guards with the capture under every quantifier kind, greedy and lazy
	{
		gr := common.NewRand(seed, "c11-capture-guards")
		all := captureGuardPatterns()
		ctx := []string{"%s", "%s", "%s", "(%s)", "a|%s", "(?i:%s)", "%sz{1}", "[b]%s"}
		for n, k := 0, 0; k < len(all); k++ {
			// every third pattern bare, the others in a context; a deterministic sample bounded by the tier
			if n >= 170*scale {
				break
			}
			p := all[(k*7+int(seed))%len(all)]
			if k%3 != 0 {
				p = fmt.Sprintf(ctx[gr.Intn(len(ctx))], p)
			}
			if add(p, "captureguards") {
				n++
			}
		}
	}
	// captures + alternation + anchors + non-greedy + flags, combined, close to the 60-byte limit
	{
		cr := common.NewRand(seed, "c11-combo")
		pieces := []string{"(a|b)", "(?P<n>ab|c)", "^", "$", "a+?", "b*?", "(?:x|yz)??", "(?i:ab)", "(?s:.)", "(?U:a+)", "(?i)", "(?m:^a$)", "[a-c]", "[0-9]",
			`\d{1,}`, "x{0,1}?", "(foo|fo)", "(fo|xfo)", "(a)(?:b)(?:b)*", "   ", `\.`, "(a{1})", "(?:[ab])", "(?:(a)|b)+?", "a{2,3}?", `\bfoo\b`, "(?i:k)",
			"[[:alpha:]]", "aaaaa", "(?P<q>x)*?", "|", "(?:ab|abc)", "(x)|(y)", `[^\s]`, "(?i:aB|cab)", "(?:a){1,}?", `\/`, "(?s:a.{0,}?)", "(b|)c", "(a)??", "(b){2}?", "((a)+?)", "(?:(x)*?;)"}
		for n, tries := 0, 0; n < 80*scale && tries < 20000*scale; tries++ {
			var b strings.Builder
			for b.Len() < 46+cr.Intn(12) {
				b.WriteString(pieces[cr.Intn(len(pieces))])
			}
			if b.Len() > 60 {
				continue
			}
			if add(b.String(), "combo") {
				n++
			}
		}
	}
	// patterns at the checker's length limit that share a long, escape-heavy prefix and differ only near the
	// end, derived from the patterns generated so far and placed next to each other in the same file
	pr := common.NewRand(seed, "c11-limit")
	heavy := []string{`\.`, `\-`, `\d`, `\\`, `\/`, `\(`, `\)`, `\w`, `\[`, `\+`, "a", `\s`, `\{`, `\|`}
	suffixes := []string{"a", "b", "  ", "x*", `\.`, "-", "[a]", "{1}", "yy*", "?"}
	nBase := len(pats)
	for n, tries := 0, 0; n < 60*scale && tries < 4000*scale; tries++ {
		base := pats[pr.Intn(nBase)]
		if len(base) > 24 {
			continue
		}
		target := 54 + pr.Intn(5) // prefix+base: 54..58 bytes, the suffixes bring it to <= 60
		var b strings.Builder
		for b.Len()+len(base) < target {
			t := heavy[pr.Intn(len(heavy))]
			if b.Len()+len(base)+len(t) > target {
				t = "a"
			}
			b.WriteString(t)
		}
		stem := b.String() + base
		s1, s2 := suffixes[pr.Intn(len(suffixes))], suffixes[pr.Intn(len(suffixes))]
		if s1 == s2 || len(stem)+len(s1) > 60 || len(stem)+len(s2) > 60 {
			continue
		}
		if _, err := regexp.Compile(stem + s1); err != nil {
			continue
		}
		if _, err := regexp.Compile(stem + s2); err != nil {
			continue
		}
		if seen[stem+s1] || seen[stem+s2] {
			continue
		}
		add(stem+s1, "limit")
		add(stem+s2, "limit")
		n++
	}
	// measured: how many patterns reach each rule
	lastRuleHits = map[string]int{}
	for _, p := range pats {
		for name := range hitsOf(p) {
			lastRuleHits[name]++
		}
	}
	lastRulesBelowQuota = nil
	for name := range ruleInstances {
		if lastRuleHits[name] < 6*scale {
			lastRulesBelowQuota = append(lastRulesBelowQuota, name)
		}
	}
	sort.Strings(lastRulesBelowQuota)
	return pats, src, dist
}
