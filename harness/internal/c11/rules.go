package c11

// Which rewrite rule of regexpSimplify a pattern reaches: a mirror of the walker's DECISIONS on the parser's tree,
// used only to stratify pattern generation by rule and to print the measured distribution into the evidence
// (never as an oracle and never to decide a verdict).

import (
	"strings"
	"unicode/utf8"

	"github.com/quasilyte/regex/syntax"
)

func rhHasCapture(e syntax.Expr) bool {
	if e.Op == syntax.OpCapture || e.Op == syntax.OpNamedCapture {
		return true
	}
	for _, a := range e.Args {
		if rhHasCapture(a) {
			return true
		}
	}
	return false
}

func rhAllChars(e syntax.Expr) bool {
	for _, a := range e.Args {
		if a.Op != syntax.OpChar {
			return false
		}
	}
	return true
}

func rhConcatLiteral(e syntax.Expr) string {
	if e.Op == syntax.OpConcat && len(e.Args) != 0 && rhAllChars(e) {
		return e.Value
	}
	return ""
}

var rhOpName = map[syntax.Operation]string{
	syntax.OpDot: "dot", syntax.OpChar: "char", syntax.OpEscapeMeta: "escmeta", syntax.OpEscapeChar: "escchar",
	syntax.OpCharClass: "class", syntax.OpNegCharClass: "negclass", syntax.OpGroup: "group",
}

var rhNegTable = []string{`[^0-9]`, `[^\s]`, `[^\S]`, `[^\w]`, `[^\W]`, `[^\d]`, `[^\D]`, `[^[:^space:]]`, `[^[:space:]]`,
	`[^[:^word:]]`, `[^[:word:]]`, `[^[:^digit:]]`, `[^[:digit:]]`}
var rhClassTable = []string{`[0-9]`, `[[:word:]]`, `[[:^word:]]`, `[[:digit:]]`, `[[:^digit:]]`, `[[:space:]]`, `[[:^space:]]`, `[][]`, `[]]`}
var rhRemovable = []string{`\&`, `\#`, `\!`, `\@`, `\%`, `\<`, `\>`, `\:`, `\;`, `\/`, `\,`, `\=`, `\.`}

func inList(s string, l []string) bool {
	for _, x := range l {
		if x == s {
			return true
		}
	}
	return false
}

func ruleHits(e syntax.Expr, hits map[string]int) {
	walkAll := func(args []syntax.Expr) {
		for _, a := range args {
			ruleHits(a, hits)
		}
	}
	switch e.Op {
	case syntax.OpConcat:
		i := 0
		for i < len(e.Args) {
			x := e.Args[i]
			ruleHits(x, hits)
			i++
			if i >= len(e.Args) {
				break
			}
			if y := e.Args[i]; y.Op == syntax.OpStar && len(y.Args) > 0 && y.Args[0].Op == x.Op && y.Args[0].Value == x.Value {
				switch x.Op {
				case syntax.OpChar, syntax.OpCharClass, syntax.OpEscapeMeta, syntax.OpEscapeChar, syntax.OpNegCharClass:
					hits["merge:"+rhOpName[x.Op]]++
					i++
					continue
				case syntax.OpGroup:
					if !rhHasCapture(x) {
						hits["merge:group"]++
						i++
						continue
					}
					hits["merge-blocked:group-with-capture"]++
				}
			}
			combine := func(y syntax.Expr) (int, bool) {
				if x.Op != y.Op {
					return 0, false
				}
				switch x.Op {
				case syntax.OpDot:
					return 3, true
				case syntax.OpChar:
					if x.Value != y.Value {
						return 0, false
					}
					if x.Value == " " {
						return 1, true
					}
					return 4, true
				case syntax.OpEscapeMeta, syntax.OpEscapeChar:
					if x.Value == y.Value {
						return 2, true
					}
				case syntax.OpCharClass, syntax.OpNegCharClass:
					if x.Value == y.Value {
						return 1, true
					}
				case syntax.OpGroup:
					if x.Value == y.Value {
						if rhHasCapture(x) {
							hits["fold-blocked:group-with-capture"]++
							return 0, false
						}
						return 1, true
					}
				}
				return 0, false
			}
			threshold, ok := combine(e.Args[i])
			if !ok {
				continue
			}
			n := 1
			for j := i + 1; j < len(e.Args); j++ {
				if _, ok := combine(e.Args[j]); !ok {
					break
				}
				n++
			}
			if n >= threshold {
				name := rhOpName[x.Op]
				if x.Op == syntax.OpChar && x.Value == " " {
					name = "space"
				}
				hits["fold:"+name]++
				i += n
			} else {
				hits["fold-below-threshold"]++
			}
		}
	case syntax.OpAlt:
		meta := false
		for _, a := range e.Args {
			switch a.Value {
			case "-", "]", "[", "^":
				meta = true
			}
		}
		if rhAllChars(e) {
			if !meta {
				hits["alt-chars-to-class"]++
				return
			}
			hits["alt-chars-blocked:class-meta"]++
		}
		if len(e.Args) == 2 {
			x, y := rhConcatLiteral(e.Args[0]), rhConcatLiteral(e.Args[1])
			if x != y {
				order := "shorter-first"
				if len(x) > len(y) {
					x, y = y, x
					order = "longer-first"
				}
				if tail := strings.TrimPrefix(y, x); len(tail) <= utf8.UTFMax && utf8.RuneCountInString(tail) == 1 {
					hits["factor-prefix:"+order]++
					return
				}
				if head := strings.TrimSuffix(y, x); len(head) <= utf8.UTFMax && utf8.RuneCountInString(head) == 1 {
					if order == "longer-first" {
						hits["factor-suffix:"+order]++
						return
					}
					hits["factor-suffix-blocked:"+order]++
				}
			}
		}
		walkAll(e.Args)
	case syntax.OpCharRange:
		if e.Args[0].Op == syntax.OpChar && e.Args[1].Op == syntax.OpChar {
			lo, hi := e.Args[0].Value, e.Args[1].Value
			if len(lo) == 1 && len(hi) == 1 {
				if lo == "-" || hi == "-" || (hi[0]-lo[0] == 2 && lo[0]+1 == '-') {
					hits["range-enum-blocked:dash"]++
					return
				}
				switch hi[0] - lo[0] {
				case 0:
					hits["range-enum:0"]++
				case 1:
					hits["range-enum:1"]++
				case 2:
					hits["range-enum:2"]++
				}
			}
		}
	case syntax.OpGroupWithFlags:
		hits["print:flag-group"]++
		ruleHits(e.Args[0], hits)
	case syntax.OpGroup:
		switch e.Args[0].Op {
		case syntax.OpChar, syntax.OpEscapeChar, syntax.OpEscapeMeta, syntax.OpCharClass:
			hits["group-unwrap:"+rhOpName[e.Args[0].Op]]++
		}
		ruleHits(e.Args[0], hits)
	case syntax.OpCapture:
		hits["print:capture"]++
		ruleHits(e.Args[0], hits)
	case syntax.OpNamedCapture:
		hits["print:named-capture"]++
		ruleHits(e.Args[0], hits)
	case syntax.OpRepeat:
		switch rep := e.Args[1].Value; rep {
		case "{0,1}", "{1,}", "{0,}":
			hits["repeat:"+rep]++
			ruleHits(e.Args[0], hits)
		case "{0}":
			if rhHasCapture(e.Args[0]) {
				hits["repeat-{0}-kept:capture"]++
				ruleHits(e.Args[0], hits)
			} else {
				hits["repeat:{0}-dropped"]++
			}
		case "{1}":
			hits["repeat:{1}-dropped"]++
			ruleHits(e.Args[0], hits)
		default:
			ruleHits(e.Args[0], hits)
		}
	case syntax.OpNegCharClass:
		if inList(e.Value, rhNegTable) {
			hits["negclass-table:"+e.Value]++
			return
		}
		walkAll(e.Args)
	case syntax.OpCharClass:
		if inList(e.Value, rhClassTable) {
			hits["class-table:"+e.Value]++
			return
		}
		if len(e.Args) == 1 {
			switch e.Args[0].Op {
			case syntax.OpChar:
				switch e.Args[0].Value {
				case "|", "*", "+", "?", ".", "[", "^", "$", "(", ")", "{", "}", ",":
					hits["class-single-blocked:meta-outside"]++
				default:
					hits["class-single:char"]++
					return
				}
			case syntax.OpEscapeChar:
				hits["class-single:escape"]++
				return
			}
		}
		walkAll(e.Args)
	case syntax.OpEscapeChar:
		if inList(e.Value, rhRemovable) {
			hits["escape-removal:"+e.Value]++
		}
	case syntax.OpNonGreedy:
		if x := e.Args[0]; x.Op == syntax.OpRepeat && (x.Args[1].Value == "{0}" || x.Args[1].Value == "{1}") {
			hits["nongreedy-over-dropped-repeat"]++
		}
		ruleHits(e.Args[0], hits)
	case syntax.OpQuestion, syntax.OpStar, syntax.OpPlus:
		ruleHits(e.Args[0], hits)
	}
}

// one small instance per rule (the rule's name as ruleHits reports it)
var ruleInstances = func() map[string][]string {
	m := map[string][]string{
		"merge:char": {"aa*", "xx*", "❤❤*"}, "merge:class": {"[ab][ab]*", "[a-z][a-z]*"}, "merge:escmeta": {`\.\.*`, `\]\]*`},
		"merge:escchar": {`\d\d*`, `\s\s*`, `\-\-*`}, "merge:negclass": {"[^a][^a]*", `[^\d,][^\d,]*`}, "merge:group": {"(?:ab)(?:ab)*", "(?:a|bc)(?:a|bc)*"},
		"merge-blocked:group-with-capture": {"(?:(a))(?:(a))*", "(?:a(b))(?:a(b))*"},
		"fold:dot": {"....", "....."}, "fold:char": {"aaaaa", "xxxxxx", "❤❤❤❤❤"}, "fold:space": {"  ", "    "}, "fold:escmeta": {`\.\.\.`, `\[\[\[`},
		"fold:escchar": {`\d\d\d`, `\w\w\w\w`}, "fold:class": {"[ab][ab]", "[a-z][a-z][a-z]"}, "fold:negclass": {"[^a][^a]", "[^ab][^ab][^ab]"},
		"fold:group": {"(?:ab)(?:ab)", "(?:a|b)(?:a|b)(?:a|b)"}, "fold-blocked:group-with-capture": {"(?:(a))(?:(a))", "(?:(a)b)(?:(a)b)"},
		"fold-below-threshold": {"aaa", `\d\d`, "..."},
		"alt-chars-to-class": {"a|b|c", "x|y", "a|❤|b"}, "alt-chars-blocked:class-meta": {"a|-|c", "a|]", "^|a", "a|["},
		"factor-prefix:longer-first": {"foo|fo", "abcd|abc", "ab❤|ab"}, "factor-prefix:shorter-first": {"fo|foo", "http|https", "ab|ab❤"},
		"factor-suffix:longer-first": {"xfo|fo", "xabc|abc", "❤ab|ab"}, "factor-suffix-blocked:shorter-first": {"fo|xfo", "abc|xabc", "hb|hhb", "ab|❤ab"},
		"range-enum:0": {"[a-a]", "[x-xb]"}, "range-enum:1": {"[a-b]", "[0-1x]"}, "range-enum:2": {"[a-c]", "[x-zq]"},
		"range-enum-blocked:dash": {"[+--]", "[--.]", "[,-.]", "[+--x]"},
		"print:flag-group": {"(?i:ab)", "(?s:.)", "(?U:a+)", "(?m:^a$)", "(?i-s:a.)"}, "print:capture": {"(a)", "(ab|c)"}, "print:named-capture": {"(?P<n>a)", "(?P<q>ab)"},
		"group-unwrap:char": {"(?:a)", "(?:❤)"}, "group-unwrap:escchar": {`(?:\d)`, `(?:\-)`}, "group-unwrap:escmeta": {`(?:\.)`, `(?:\()`}, "group-unwrap:class": {"(?:[ab])", "(?:[a-z])"},
		"repeat:{0,1}": {"a{0,1}", "[ab]{0,1}", "(?:ab){0,1}", "(a){0,1}"}, "repeat:{1,}": {"a{1,}", `\d{1,}`, "(ab){1,}"}, "repeat:{0,}": {"a{0,}", ".{0,}", "(?:a|b){0,}"},
		"repeat:{0}-dropped": {"ba{0}", "b[ab]{0}", "b(?:ab){0}"}, "repeat-{0}-kept:capture": {"(a){0}b", "(?:(a)b){0}c"}, "repeat:{1}-dropped": {"a{1}", "(ab){1}", "[ab]{1}", `\d{1}`},
		"nongreedy-over-dropped-repeat": {"a{1}?b", "bx{0}?y", "(a){1}?"},
		"class-single:char": {"[a]", "[❤]", "[-]", "[]]x"}, "class-single:escape": {`[\d]`, `[\.]`, `[\-]`, `[\n]`}, "class-single-blocked:meta-outside": {"[.]", "[*]", "[{]", "[,]", "[$]"},
	}
	for _, v := range rhNegTable {
		m["negclass-table:"+v] = []string{v}
	}
	for _, v := range rhClassTable {
		m["class-table:"+v] = []string{v}
	}
	for _, v := range rhRemovable {
		m["escape-removal:"+v] = []string{"x" + v + "y", v, "[a" + v + "]"}
	}
	return m
}()

// captureGuardPatterns: the three guards that keep capture groups ({0} is not dropped, xx is not folded, xx* is not merged
// when x declares a group) with the capture sitting under EVERY kind of quantifier, greedy and lazy, directly and one
// non-capturing group deeper, inside the expression that would be dropped / folded / merged.
func captureGuardPatterns() []string {
	quants := []string{"", "*", "+", "?", "{2}", "{0,1}", "{1,}", "*?", "+?", "??", "{2}?", "{1,}?", "{0,1}?"}
	caps := []string{"(a)", "(?P<n>a)", `(,\d+)`}
	var out []string
	for _, q := range quants {
		for _, c := range caps {
			cq := c + q
			deep := "(?:" + c + ")" + q
			for _, body := range []string{cq, deep, "x" + cq + "y", cq + ";"} {
				g := "(?:" + body + ")"
				out = append(out,
					g+"{0}b",  // {0}: kept, not dropped
					g+g,       // not folded into {2}
					g+g+"*",   // not merged into +
					"^"+g+g+"$",
				)
			}
			out = append(out, cq+"{0}b", "(?:"+cq+"){0}([0-9]+)")
		}
	}
	return out
}
